import PySMT.Proofs.C19Progress
/-!
# C19 — the property theorems, assembled from the invariants and the progress lemmas
-/
set_option linter.unusedVariables false
namespace PySMT.Portfolio
variable (cfg : Cfg)

theorem istep_cycle (s t : State) (h : IStep cfg s t) : t.cycle = s.cycle := by
  cases h <;> rfl

/-- the phases an internal step can lead to from inside `solve()` -/
theorem istep_phase (s t : State) (h : IStep cfg s t) (hs : inSolve s.p = true) :
    inSolve t.p = true ∨ (∃ v w, t.p = .returned v w) ∨ ∃ e, t.p = .raised e := by
  cases h <;> simp_all [inSolve]

theorem istep_awaiting (s t : State) (h : IStep cfg s t) (v : Bool) (w q : Nat) (hs : s.p = .awaiting v w q) :
    t.p = .awaiting v w q ∨ t.p = .returned v w := by
  cases h <;> simp_all

def solvePhase (p : PSt) : Prop := inSolve p = true ∨ (∃ v w, p = .returned v w) ∨ ∃ e, p = .raised e

/-- Every schedule of a `solve()` call ends, in a state where the call has returned or raised, and the
    invariant still holds there. -/
theorem solve_ends (s : State) (hi : Inv cfg s) (hs : inSolve s.p = true) :
    Inev cfg (fun t => (Inv cfg t ∧ t.cycle = s.cycle ∧ solvePhase t.p) ∧ inSolve t.p = false) s := by
  have := inev_of_progress cfg (fun t => Inv cfg t ∧ t.cycle = s.cycle ∧ solvePhase t.p)
    (fun t => inSolve t.p = false) ?_ ?_ s ⟨hi, rfl, Or.inl hs⟩
  · exact this
  · intro a b ⟨h1, h2, h3⟩ hP hst
    have hin : inSolve a.p = true := by cases h : inSolve a.p <;> simp_all
    exact ⟨inv_istep cfg a b h1 hst, by rw [istep_cycle cfg a b hst, h2], istep_phase cfg a b hst hin⟩
  · intro a ⟨h1, _, _⟩ hP
    have hin : inSolve a.p = true := by cases h : inSolve a.p <;> simp_all
    exact progress_solve cfg a h1 hin

/-- **verdict_in_answers.**  Whenever `solve()` has returned `v` (and while a later query is being served), `v` is
    the answer of member `w`, the member kept as `_ext_solver`. -/
theorem verdict_in_answers (s : State) (h : Reach cfg s) (v : Bool) (w : Nat)
    (hp : s.p = .returned v w ∨ ∃ q, s.p = .awaiting v w q) : w < cfg.n ∧ cfg.beh s.cycle w = .answer v := by
  have hi := inv_reach cfg s h
  rcases hp with hp | ⟨q, hp⟩
  · exact hi.ret v w hp
  · exact hi.await v w q hp

/-- **failures_ignored.**  `exit_on_exception = False`: if at least one member answers, then whatever the other
    members do (raise, answer unknown, die) and whatever the schedule, `solve()` returns, and it returns the answer
    of a member. -/
theorem failures_ignored (s : State) (h : Reach cfg s) (hs : inSolve s.p = true) (he : cfg.eoe = false)
    (hans : ∃ i, i < cfg.n ∧ ∃ v, cfg.beh s.cycle i = .answer v) :
    Inev cfg (fun t => ∃ v w, t.p = .returned v w ∧ w < cfg.n ∧ cfg.beh s.cycle w = .answer v) s := by
  refine inev_mono cfg _ _ ?_ s (solve_ends cfg s (inv_reach cfg s h) hs)
  intro t ⟨⟨hi, hc, hph⟩, hns⟩
  rcases hph with hph | ⟨v, w, hp⟩ | ⟨e, hp⟩
  · rw [hph] at hns; simp at hns
  · exact ⟨v, w, hp, hc ▸ hi.ret v w hp⟩
  · have := (hi.raised e hp).1
    cases e with
    | member i e' => simp [errOK, he] at this
    | allFailed =>
      obtain ⟨i, hin, v, hv⟩ := hans
      exact absurd (hc ▸ hv) (this.1 i hin v)

/-- **all_fail_error.**  If no member answers, every schedule ends with `solve()` raising an error (never blocked,
    never a verdict); without `exit_on_exception` the error is the "all members failed" one. -/
theorem all_fail_error (s : State) (h : Reach cfg s) (hs : inSolve s.p = true)
    (hfail : ∀ i, i < cfg.n → ∀ v, cfg.beh s.cycle i ≠ .answer v) :
    Inev cfg (fun t => ∃ e, t.p = .raised e ∧ errOK cfg s.cycle e ∧ (cfg.eoe = false → e = .allFailed)) s := by
  refine inev_mono cfg _ _ ?_ s (solve_ends cfg s (inv_reach cfg s h) hs)
  intro t ⟨⟨hi, hc, hph⟩, hns⟩
  rcases hph with hph | ⟨v, w, hp⟩ | ⟨e, hp⟩
  · rw [hph] at hns; simp at hns
  · have := hi.ret v w hp
    exact absurd (hc ▸ this.2) (hfail w this.1 v)
  · refine ⟨e, hp, hc ▸ (hi.raised e hp).1, ?_⟩
    intro he
    have := (hi.raised e hp).1
    cases e with
    | member i e' => simp [errOK, he] at this
    | allFailed => rfl

/-- **no_deadlock.**  In no reachable state is the parent stuck inside `solve()`. -/
theorem no_deadlock (s : State) (h : Reach cfg s) (hs : inSolve s.p = true) : ∃ t, IStep cfg s t :=
  progress_solve cfg s (inv_reach cfg s h) hs

/-- with A1, it is not stuck inside `get_model / get_value` either -/
theorem no_deadlock_query (hA : cfg.os.killAtomic = true) (s : State) (h : Reach cfg s) (v : Bool) (w q : Nat)
    (hp : s.p = .awaiting v w q) : ∃ t, IStep cfg s t :=
  progress_query cfg s (qinv_reach cfg hA s h) v w q hp

/-- every `solve()` call ends, on every schedule -/
theorem solve_terminates (s : State) (h : Reach cfg s) (hs : inSolve s.p = true) :
    Inev cfg (fun t => (∃ v w, t.p = .returned v w) ∨ ∃ e, t.p = .raised e) s := by
  refine inev_mono cfg _ _ ?_ s (solve_ends cfg s (inv_reach cfg s h) hs)
  intro t ⟨⟨_, _, hph⟩, hns⟩
  rcases hph with hph | hph
  · rw [hph] at hns; simp at hns
  · exact hph

/-- **serve_from_winner** (needs A1).  Every reply the parent has received since `solve()` returned was sent by the
    winner `w`, and a reply in flight is the winner's reply to the query just asked. -/
theorem serve_from_winner (hA : cfg.os.killAtomic = true) (s : State) (h : Reach cfg s) (v : Bool) (w : Nat) :
    (s.p = .returned v w → ∀ x ∈ s.served, x.1 = w) ∧
    (∀ q, s.p = .awaiting v w q → (∀ x ∈ s.served, x.1 = w) ∧ ∀ r ∈ s.reply, r = (w, q)) := by
  have hq := qinv_reach cfg hA s h
  refine ⟨fun hp => (hq.ret v w hp).2.2.2.2, ?_⟩
  intro q hp
  obtain ⟨_, _, h3, h4⟩ := hq.await v w q hp
  refine ⟨h3, ?_⟩
  rcases h4 with ⟨_, hr⟩ | ⟨_, hr⟩ <;> simp [hr]

/-- (needs A1) a query is answered on every schedule, by the winner -/
theorem query_answered (hA : cfg.os.killAtomic = true) (s : State) (h : Reach cfg s) (v : Bool) (w q : Nat)
    (hp : s.p = .awaiting v w q) :
    Inev cfg (fun t => t.p = .returned v w ∧ ∀ x ∈ t.served, x.1 = w) s := by
  have := inev_of_progress cfg
    (fun t => Inv cfg t ∧ QInv t ∧ (t.p = .awaiting v w q ∨ t.p = .returned v w))
    (fun t => t.p = .returned v w) ?_ ?_ s ⟨inv_reach cfg s h, qinv_reach cfg hA s h, Or.inl hp⟩
  · refine inev_mono cfg _ _ ?_ s this
    intro t ⟨⟨_, hq, _⟩, hp'⟩
    exact ⟨hp', (hq.ret v w hp').2.2.2.2⟩
  · intro a b ⟨h1, h2, h3⟩ hP hst
    have ha : a.p = .awaiting v w q := by rcases h3 with h3 | h3; exact h3; exact absurd h3 hP
    exact ⟨inv_istep cfg a b h1 hst, qinv_istep cfg hA a b h1 h2 hst, istep_awaiting cfg a b hst v w q ha⟩
  · intro a ⟨_, h2, h3⟩ hP
    have ha : a.p = .awaiting v w q := by rcases h3 with h3 | h3; exact h3; exact absurd h3 hP
    exact progress_query cfg a h2 v w q ha

/-- what one internal step does to the parent's view while it waits for a reply -/
theorem istep_awaiting_served (s t : State) (hq : QInv s) (h : IStep cfg s t) (v : Bool) (w q : Nat)
    (hs : s.p = .awaiting v w q) :
    (t.p = .awaiting v w q ∧ t.served = s.served) ∨
    (t.p = .returned v w ∧ (t.served = s.served ++ [(w, q)] ∨ (t.served = s.served ∧ t.ms[w]? = some .crashed))) := by
  obtain ⟨h1, h2, h3, h4⟩ := hq.await v w q hs
  cases h with
  | recvReply v' w' q' j q'' r hp hr =>
    rw [hs] at hp; simp at hp; obtain ⟨rfl, rfl, rfl⟩ := hp
    rcases h4 with ⟨_, hr'⟩ | ⟨_, hr'⟩
    · rw [hr'] at hr; simp at hr
    · rw [hr'] at hr; simp at hr
      obtain ⟨⟨rfl, rfl⟩, _⟩ := hr
      exact Or.inr ⟨rfl, Or.inl rfl⟩
  | recvEOF v' w' q' hp hr hd =>
    rw [hs] at hp; simp at hp; obtain ⟨rfl, rfl, rfl⟩ := hp
    refine Or.inr ⟨rfl, Or.inr ⟨rfl, ?_⟩⟩
    rcases h1 with h1 | h1
    · have := hd _ (List.mem_iff_getElem?.mpr ⟨w, h1⟩); simp [dead] at this
    · exact h1
  | _ => simp_all

/-- **query_answered** (needs A1), exact form: on every schedule `get_model / get_value` returns, and what the parent
    has received is exactly the winner's reply to the query that was asked -- unless the winner process has died in the
    meantime (fault `OS.serveCrash`), in which case the call ends with an error (EOFError) and nothing is received. -/
theorem query_answered_exact (hA : cfg.os.killAtomic = true) (s : State) (h : Reach cfg s) (v : Bool) (w q : Nat)
    (hp : s.p = .awaiting v w q) :
    Inev cfg (fun t => t.p = .returned v w ∧
      (t.served = s.served ++ [(w, q)] ∨ (t.served = s.served ∧ t.ms[w]? = some .crashed))) s := by
  have := inev_of_progress cfg
    (fun t => Inv cfg t ∧ QInv t ∧ ((t.p = .awaiting v w q ∧ t.served = s.served) ∨
      (t.p = .returned v w ∧ (t.served = s.served ++ [(w, q)] ∨ (t.served = s.served ∧ t.ms[w]? = some .crashed)))))
    (fun t => t.p = .returned v w) ?_ ?_ s ⟨inv_reach cfg s h, qinv_reach cfg hA s h, Or.inl ⟨hp, rfl⟩⟩
  · refine inev_mono cfg _ _ ?_ s this
    intro t ⟨⟨_, _, h3⟩, hp'⟩
    rcases h3 with ⟨h3, _⟩ | ⟨_, h3⟩
    · rw [hp'] at h3; simp at h3
    · exact ⟨hp', h3⟩
  · intro a b ⟨h1, h2, h3⟩ hP hst
    have ha : a.p = .awaiting v w q ∧ a.served = s.served := by
      rcases h3 with h3 | h3; exact h3; exact absurd h3.1 hP
    refine ⟨inv_istep cfg a b h1 hst, qinv_istep cfg hA a b h1 h2 hst, ?_⟩
    have := istep_awaiting_served cfg a b h2 hst v w q ha.1
    rw [ha.2] at this; exact this
  · intro a ⟨_, h2, h3⟩ hP
    have ha : a.p = .awaiting v w q := by rcases h3 with h3 | h3; exact h3.1; exact absurd h3.1 hP
    exact progress_query cfg a h2 v w q ha

/-! ### an explicit bound on the length of every schedule -/

/-- `IPath n s t`: `t` is reached from `s` by exactly `n` internal steps -/
inductive IPath : Nat → State → State → Prop
  | nil (s : State) : IPath 0 s s
  | cons (n : Nat) (s t u : State) : IStep cfg s t → IPath n t u → IPath (n + 1) s u

theorem ipath_measure (n : Nat) (s t : State) (h : IPath cfg n s t) : n + imeasure t ≤ imeasure s := by
  induction h with
  | nil s => omega
  | cons n s t u hst _ ih => have := imeasure_decreases cfg s t hst; omega

theorem sum_map_replicate (f : MSt → Nat) (m : MSt) : ∀ n, ((List.replicate n m).map f).sum = n * f m
  | 0 => by simp
  | n + 1 => by
    have := sum_map_replicate f m n
    simp only [List.replicate_succ, List.map_cons, List.sum_cons, this, Nat.add_mul]; omega

theorem imeasure_fresh (s : State) : imeasure (fresh cfg s) = 7 * cfg.n + 2 := by
  have := sum_map_replicate mweight .solving cfg.n
  simp only [imeasure, fresh, List.length_replicate, List.length_nil, pweight, this, mweight]; omega

/-- **step bound.**  Whatever the schedule, a `solve()` call consists of at most `7·n + 2` internal steps
    (member finishes, flushes, parent reads, terminations, ...). -/
theorem solve_step_bound (s t : State) (n : Nat) (h : IPath cfg n (fresh cfg s) t) : n ≤ 7 * cfg.n + 2 := by
  have := ipath_measure cfg n _ t h
  rw [imeasure_fresh] at this; omega

/-- **no API call blocks** (needs A1).  Every call of the caller -- `solve`, `get_model / get_value` after a verdict or
    without one (immediate `ValueError`), `push / pop / add_assertion`, `exit` -- issued between two calls in a reachable
    state, ends on every schedule. -/
theorem api_call_returns (hA : cfg.os.killAtomic = true) (s t : State) (h : Reach cfg s) (hu : UStep cfg s t) :
    Inev cfg (fun u => quiescent u.p = true) t := by
  have ht : Reach cfg t := Reach.step s t h (Step.user s t hu)
  cases hu with
  | solveStart hq =>
    refine inev_mono cfg _ _ ?_ _ (solve_terminates cfg _ ht rfl)
    rintro u (⟨v, w, hp⟩ | ⟨e, hp⟩) <;> rw [hp] <;> rfl
  | ask v w q hp =>
    refine inev_mono cfg _ _ ?_ _ (query_answered_exact cfg hA _ ht v w q rfl)
    rintro u ⟨hp', _⟩; rw [hp']; rfl
  | edit hq => exact Inev.now _ hq
  | askNoSolver hq =>
    refine Inev.now _ ?_
    rcases hq with hq | ⟨e, hq⟩ <;> rw [hq] <;> rfl
  | close _ => exact Inev.now _ rfl

/-- (needs A1) when `solve()` has returned, every member but the winner is dead; when it has raised, no member
    is alive: no orphan keeps running and nobody but the winner can ever read the control pipe. -/
theorem losers_dead (hA : cfg.os.killAtomic = true) (s : State) (h : Reach cfg s) :
    (∀ v w, s.p = .returned v w → ∀ j, j ≠ w → ∀ m, s.ms[j]? = some m → dead m = true) ∧
    (∀ e, s.p = .raised e → ∀ (j : Nat) m, s.ms[j]? = some m → alive m = false) :=
  ⟨fun v w hp => ((qinv_reach cfg hA s h).ret v w hp).2.2.2.1, fun e hp => ((inv_reach cfg s h).raised e hp).2⟩

/-- **model_satisfies** (needs A1 and the hypothesis that the members are correct: those that answer give the
    verdict `truth c`, and when it is "sat" their model satisfies the assertions of call `c`, `good c i`).
    The verdict returned is `truth c`, and all models/values obtained afterwards come from one and the same member,
    whose model satisfies the assertions. -/
theorem model_satisfies (hA : cfg.os.killAtomic = true) (truth : Nat → Bool) (good : Nat → Nat → Prop)
    (hmem : ∀ c i v, i < cfg.n → cfg.beh c i = .answer v → v = truth c ∧ (v = true → good c i))
    (s : State) (h : Reach cfg s) (v : Bool) (w : Nat) (hp : s.p = .returned v w) :
    v = truth s.cycle ∧ (v = true → good s.cycle w ∧ ∀ x ∈ s.served, x.1 = w) := by
  obtain ⟨hw, hb⟩ := verdict_in_answers cfg s h v w (Or.inl hp)
  obtain ⟨h1, h2⟩ := hmem s.cycle w v hw hb
  exact ⟨h1, fun hv => ⟨h2 hv, (serve_from_winner cfg hA s h v w).1 hp⟩⟩

/-- What `model_satisfies` assumes about the *member solvers* (nothing here is about the portfolio, and nothing of it is
    proved: the members are arbitrary pySMT solvers).  `truth c` is the satisfiability of the formula handed to the members
    by `solve()` number `c` (assertions and assumptions), `modelOf c i` the model member `i` builds for it, and
    `sat c m` means "`m` satisfies that formula". -/
structure MembersSound (truth : Nat → Bool) {Model : Type} (modelOf : Nat → Nat → Model) (sat : Nat → Model → Prop) : Prop where
  verdict : ∀ c i v, i < cfg.n → cfg.beh c i = .answer v → v = truth c
  model : ∀ c i, i < cfg.n → cfg.beh c i = .answer true → sat c (modelOf c i)

/-- **model_satisfies** (A1 + `MembersSound`): after a "sat" verdict every model / value the caller has received was computed
    by one and the same member `w` -- i.e. it is (a part of) `modelOf c w` -- and that model satisfies the formula.  What
    the portfolio contributes is "one answering member serves everything"; the satisfaction itself is the member's own
    soundness, an assumption. -/
theorem model_satisfies_sound (hA : cfg.os.killAtomic = true) (truth : Nat → Bool) {Model : Type}
    (modelOf : Nat → Nat → Model) (sat : Nat → Model → Prop) (hm : MembersSound cfg truth modelOf sat)
    (s : State) (h : Reach cfg s) (v : Bool) (w : Nat) (hp : s.p = .returned v w) :
    v = truth s.cycle ∧ (v = true → sat s.cycle (modelOf s.cycle w) ∧ ∀ x ∈ s.served, x.1 = w) := by
  obtain ⟨hw, hb⟩ := verdict_in_answers cfg s h v w (Or.inl hp)
  refine ⟨hm.verdict _ w v hw hb, ?_⟩
  intro hv; subst hv
  exact ⟨hm.model _ w hw hb, (serve_from_winner cfg hA s h true w).1 hp⟩

end PySMT.Portfolio
