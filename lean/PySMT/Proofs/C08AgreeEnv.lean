import PySMT.Proofs.C08Agree2
import PySMT.Proofs.C08Model
/-!
# C08/C09 agreement: scopes and environments

How the correspondence `Corr env sc Γ` is maintained when the standard reader extends its scope (`let`, binders) and the
parser pushes bindings on its cache.
-/
namespace PySMT.Parser.Agree
open PySMT PySMT.Parser PySMT.Std PySMT.Sexp

/-! ## `lookupScope` and the binder variables crossed -/

theorem lookupScope_none_indep (n : String) : ∀ (sc : List Binding) (c1 c2 : List Sym),
    lookupScope n sc c1 = none → lookupScope n sc c2 = none
  | [], _, _, _ => rfl
  | .var s :: rest, c1, c2, h => by
    simp only [lookupScope] at h ⊢
    split at h
    · cases h
    · rename_i hne
      simp only [hne, Bool.false_eq_true, if_false]
      exact lookupScope_none_indep n rest _ _ h
  | .letb m t ty :: rest, c1, c2, h => by
    simp only [lookupScope] at h ⊢
    split at h
    · split at h <;> cases h
    · rename_i hne
      simp only [hne, Bool.false_eq_true, if_false]
      exact lookupScope_none_indep n rest _ _ h

theorem lookupScope_ok_mono (n : String) (r : TT) : ∀ (sc : List Binding) (c1 c2 : List Sym),
    (∀ x ∈ c2, x ∈ c1) → lookupScope n sc c1 = some (.ok r) → lookupScope n sc c2 = some (.ok r)
  | [], _, _, _, h => by simp [lookupScope] at h
  | .var s :: rest, c1, c2, hsub, h => by
    simp only [lookupScope] at h ⊢
    split at h
    · rename_i he; simp only [he, if_true]; exact h
    · rename_i hne
      simp only [hne, Bool.false_eq_true, if_false]
      exact lookupScope_ok_mono n r rest _ _ (by
        intro x hx; simp only [List.mem_cons] at hx ⊢
        rcases hx with rfl | hx
        · exact Or.inl rfl
        · exact Or.inr (hsub x hx)) h
  | .letb m t ty :: rest, c1, c2, hsub, h => by
    simp only [lookupScope] at h ⊢
    split at h
    · rename_i he
      simp only [he, if_true]
      split at h
      · cases h
      · rename_i hany
        have : c2.any (fun x => t.fv.contains x) = false := by
          rw [Bool.eq_false_iff]
          intro hc
          apply hany
          simp only [List.any_eq_true] at hc ⊢
          obtain ⟨x, hx, hxf⟩ := hc
          exact ⟨x, hsub x hx, hxf⟩
        simp only [this, Bool.false_eq_true, if_false]
        exact h
    · rename_i hne
      simp only [hne, Bool.false_eq_true, if_false]
      exact lookupScope_ok_mono n r rest _ _ hsub h

/-! ## the parser's cache -/

theorem lookup_cons_ne {n k : String} {v : Parser.Val} {l : List (String × Parser.Val)} (h : k ≠ n) :
    lookup n ((k, v) :: l) = lookup n l := by
  have : (k == n) = false := by simpa using h
  simp [lookup, this]

theorem lookup_cons_eq {n : String} {v : Parser.Val} {l : List (String × Parser.Val)} :
    lookup n ((n, v) :: l) = some v := by simp [lookup]

theorem bindAll_eq (bs binds : List (String × Parser.Val)) : bindAll bs binds = bs.reverse ++ binds := by
  induction bs generalizing binds with
  | nil => rfl
  | cons b rest ih =>
    simp only [bindAll, List.foldl_cons] at ih ⊢
    rw [ih]; simp

theorem lookup_append (n : String) : ∀ (a b : List (String × Parser.Val)),
    lookup n (a ++ b) = (match lookup n a with | some v => some v | none => lookup n b)
  | [], b => rfl
  | (k, v) :: a, b => by
    simp only [List.cons_append, lookup]
    split
    · rfl
    · exact lookup_append n a b

/-! ## maintaining `Corr` -/

theorem corr_mgr {env : SEnv} {sc : List Binding} {Γ : PEnv} (h : Corr env sc Γ) (σ : MgrSt) :
    Corr env sc { Γ with mgr := σ } :=
  ⟨h.scope, h.tt, h.ff, h.funs, h.funTok, h.nodefs, h.names, h.sorts, h.aliases, h.logic⟩

/-- a name the cache does not know yet may be bound to anything: the standard does not resolve it -/
theorem corr_fresh {env : SEnv} {sc : List Binding} {Γ : PEnv} (h : Corr env sc Γ) (x : String) (v : Parser.Val)
    (hx : lookup x Γ.binds = none) (hp : pnameOK x = true) :
    Corr env sc { Γ with binds := (x, v) :: Γ.binds } := by
  have keep : ∀ n w, lookup n Γ.binds = some w → lookup n ((x, v) :: Γ.binds) = some w := by
    intro n w hn
    have : x ≠ n := by intro e; subst e; rw [hx] at hn; cases hn
    rw [lookup_cons_ne this, hn]
  refine ⟨?_, ?_, ?_, ?_, h.funTok, h.nodefs, ?_, ?_, ?_, h.logic⟩
  · intro n t ty hl
    exact ⟨keep _ _ (h.scope n t ty hl).1, (h.scope n t ty hl).2⟩
  · intro hl; exact keep _ _ (h.tt hl)
  · intro hl; exact keep _ _ (h.ff hl)
  · intro n s h1 h2 h3 h4; exact keep _ _ (h.funs n s h1 h2 h3 h4)
  · intro n w hn
    by_cases hxn : x = n
    · subst hxn; exact hp
    · rw [lookup_cons_ne hxn] at hn; exact h.names n w hn
  · intro n hn; exact keep _ _ (h.sorts n hn)
  · intro n ty h1 h2; exact keep _ _ (h.aliases n ty h1 h2)

theorem typeOf_sym (s : Sym) (hp : s.params = []) : (Term.sym s).typeOf = some s.ret := by
  rw [Term.sym, typeOf_node]
  obtain ⟨n, ps, r⟩ := s
  simp only at hp
  subst hp
  rfl

theorem tok_sym (s : Sym) (hp : s.params = []) : TOK (Term.sym s) s.ret := by
  refine ⟨typeOf_sym s hp, ?_, fun w hw => bvWidth_sym s w (by simp [hp]) hw⟩
  rw [Term.sym]
  refine Term.wf_node.mpr ⟨by simp, rfl, ?_⟩
  have := typeOf_sym s hp
  rw [Term.sym, typeOf_node] at this
  rw [this]; rfl

theorem mkNorm_sym (s : Sym) : mkNorm (Term.sym s) = Term.sym s := by
  rw [Term.sym, mkNorm_plain _ _ _ (by decide) (by decide) (by decide)]; rfl

/-- names that may be bound by `let` and by binders: not spelled like a literal, and not the name of a declared sort (the
parser keeps sorts and terms in one cache) -/
def bindNameOK (env : SEnv) (n : String) : Bool :=
  pnameOK n && (env.lookupSort n).isNone && (env.lookupAlias n).isNone

/-- entering a binder: the bound variable shadows everything of that name, in both readers -/
theorem corr_var {env : SEnv} {sc : List Binding} {Γ : PEnv} (h : Corr env sc Γ) (s : Sym) (hp : s.params = [])
    (hn : bindNameOK env s.name = true) (hth : theorySymbols.contains s.name = false) :
    Corr env (.var s :: sc) { Γ with binds := (s.name, .term (Term.sym s)) :: Γ.binds } := by
  simp only [bindNameOK, Bool.and_eq_true, Option.isNone_iff_eq_none] at hn
  obtain ⟨⟨hpn, hso⟩, hal⟩ := hn
  have hnt : s.name ≠ "true" := by intro e; rw [e] at hth; revert hth; decide
  have hnf : s.name ≠ "false" := by intro e; rw [e] at hth; revert hth; decide
  have sub : ∀ n, lookupScope n (.var s :: sc) [] = none → s.name ≠ n ∧ lookupScope n sc [] = none := by
    intro n hl
    simp only [lookupScope] at hl
    split at hl
    · cases hl
    · rename_i hne
      exact ⟨by simpa using hne, lookupScope_none_indep n sc _ _ hl⟩
  refine ⟨?_, ?_, ?_, ?_, h.funTok, h.nodefs, ?_, ?_, ?_, h.logic⟩
  · intro n t ty hl
    simp only [lookupScope] at hl
    split at hl
    · rename_i he
      have he' : s.name = n := by simpa using he
      simp only [Option.some.injEq, Except.ok.injEq, Prod.mk.injEq] at hl
      obtain ⟨rfl, rfl⟩ := hl
      subst he'
      rw [mkNorm_sym]
      exact ⟨lookup_cons_eq, tok_sym s hp⟩
    · rename_i hne
      have hne' : s.name ≠ n := by simpa using hne
      have := lookupScope_ok_mono n (t, ty) sc [s] [] (by simp) hl
      rw [lookup_cons_ne hne']
      exact h.scope n t ty this
  · intro hl
    obtain ⟨h1, h2⟩ := sub _ hl
    rw [lookup_cons_ne h1]; exact h.tt h2
  · intro hl
    obtain ⟨h1, h2⟩ := sub _ hl
    rw [lookup_cons_ne h1]; exact h.ff h2
  · intro n f hl h2 h3 h4
    obtain ⟨h1, hl'⟩ := sub _ hl
    rw [lookup_cons_ne h1]; exact h.funs n f hl' h2 h3 h4
  · intro n w hnw
    by_cases hxn : s.name = n
    · subst hxn; exact hpn
    · rw [lookup_cons_ne hxn] at hnw; exact h.names n w hnw
  · intro n hs
    have : s.name ≠ n := by intro e; subst e; rw [hso] at hs; cases hs
    rw [lookup_cons_ne this]; exact h.sorts n hs
  · intro n ty h1 h2
    have : s.name ≠ n := by intro e; subst e; rw [hal] at h2; cases h2
    rw [lookup_cons_ne this]; exact h.aliases n ty h1 h2

/-! ## `let`: the scope `new ++ sc` against the cache after `rdLetBinds` -/

/-- the right-hand side the bindings `new` give the name `n` -/
def letFind (n : String) : List Binding → Option (Term × Ty)
  | [] => none
  | .letb m t ty :: rest => if m == n then some (t, ty) else letFind n rest
  | .var _ :: rest => letFind n rest

def allLet : List Binding → Bool
  | [] => true
  | .letb _ _ _ :: rest => allLet rest
  | .var _ :: _ => false

theorem lookupScope_let (n : String) : ∀ (new : List Binding) (sc : List Binding), allLet new = true →
    lookupScope n (new ++ sc) [] =
      (match letFind n new with
       | some r => some (.ok r)
       | none => lookupScope n sc [])
  | [], sc, _ => rfl
  | .letb m t ty :: rest, sc, h => by
    simp only [List.cons_append, lookupScope, letFind]
    split
    · simp
    · exact lookupScope_let n rest sc (by simpa [allLet] using h)
  | .var _ :: _, _, h => by simp [allLet] at h

/-- after the bindings of a `let`: the cache `binds'` knows every new name with its (normalised) right-hand side and
every other name as before -/
theorem corr_let {env : SEnv} {sc : List Binding} {Γ : PEnv} (h : Corr env sc Γ) (new : List Binding)
    (hall : allLet new = true) (binds' : List (String × Parser.Val))
    (hnew : ∀ n t ty, letFind n new = some (t, ty) →
      lookup n binds' = some (.term (mkNorm t)) ∧ TOK (mkNorm t) ty ∧ bindNameOK env n = true ∧
        theorySymbols.contains n = false)
    (hold : ∀ n, letFind n new = none → lookup n binds' = lookup n Γ.binds) :
    Corr env (new ++ sc) { Γ with binds := binds' } := by
  have sub : ∀ n, lookupScope n (new ++ sc) [] = none → letFind n new = none ∧ lookupScope n sc [] = none := by
    intro n hl
    rw [lookupScope_let n new sc hall] at hl
    cases hf : letFind n new with
    | some r => simp [hf] at hl
    | none => simp only [hf] at hl; exact ⟨rfl, hl⟩
  refine ⟨?_, ?_, ?_, ?_, h.funTok, h.nodefs, ?_, ?_, ?_, h.logic⟩
  · intro n t ty hl
    rw [lookupScope_let n new sc hall] at hl
    cases hf : letFind n new with
    | some r =>
      obtain ⟨t', ty'⟩ := r
      simp only [hf, Option.some.injEq, Except.ok.injEq, Prod.mk.injEq] at hl
      obtain ⟨rfl, rfl⟩ := hl
      exact ⟨(hnew n _ _ hf).1, (hnew n _ _ hf).2.1⟩
    | none =>
      simp only [hf] at hl
      show lookup n binds' = _ ∧ _
      rw [hold n hf]; exact h.scope n t ty hl
  · intro hl
    obtain ⟨h1, h2⟩ := sub _ hl
    show lookup "true" binds' = _
    rw [hold _ h1]; exact h.tt h2
  · intro hl
    obtain ⟨h1, h2⟩ := sub _ hl
    show lookup "false" binds' = _
    rw [hold _ h1]; exact h.ff h2
  · intro n f hl h2 h3 h4
    obtain ⟨h1, hl'⟩ := sub _ hl
    show lookup n binds' = _
    rw [hold _ h1]; exact h.funs n f hl' h2 h3 h4
  · intro n w hnw
    cases hf : letFind n new with
    | some r =>
      obtain ⟨t, ty⟩ := r
      have := (hnew n t ty hf).2.2.1
      simp only [bindNameOK, Bool.and_eq_true] at this
      exact this.1.1
    | none =>
      have hnw' : lookup n binds' = some w := hnw
      rw [hold n hf] at hnw'; exact h.names n w hnw'
  · intro n hs
    show lookup n binds' = _
    cases hf : letFind n new with
    | some r =>
      obtain ⟨t, ty⟩ := r
      have := (hnew n t ty hf).2.2.1
      simp only [bindNameOK, Bool.and_eq_true, Option.isNone_iff_eq_none] at this
      rw [this.1.2] at hs; cases hs
    | none => rw [hold n hf]; exact h.sorts n hs
  · intro n ty h1 h2
    show lookup n binds' = _
    cases hf : letFind n new with
    | some r =>
      obtain ⟨t, ty'⟩ := r
      have := (hnew n t ty' hf).2.2.1
      simp only [bindNameOK, Bool.and_eq_true, Option.isNone_iff_eq_none] at this
      rw [this.2] at h2; cases h2
    | none => rw [hold n hf]; exact h.aliases n ty h1 h2

end PySMT.Parser.Agree
