import PySMT.Proofs.C06Infix
/-!
# C06 — the structured entries of the regenerated infix table: `__invert__`, `__neg__`,
`__rsub__`, `Ite`, `__getitem__`, `__truediv__`, and the direct methods.

Each `lookup_*` lemma is checked against the *regenerated* `Gen.Infix.table` (by `rfl`), the
interpreter is unfolded on that body, and the result is related to the operation the Python
data model names.
-/
namespace PySMT.C06
open PySMT.Mk PySMT.Mk.Infix

/-! ## `~x` -/

theorem lookup_invert : Gen.Infix.table.lookup "__invert__" = some ⟨[], false,
    [.ite (.isBV .self) [.ret (.mgr "BVNot" [.self])] [], .ret (.mgr "Not" [.self])]⟩ := by rfl

def invertModel (a : Term) : R :=
  match a.typeOf with
  | none => .error .type
  | some τ => if τ.isBv then Mk.BVNot a else Mk.Not a

theorem run_invert (a : Term) : Infix.run Gen.Infix.table "__invert__" a [] = invertModel a := by
  simp only [Infix.run, runMethod, fuel, lookup_invert, exec, evalE, evalEs, evalC, argTerm, List.zip,
    List.zipWith, bind, Except.bind, List.length_nil, List.nil_append, List.cons_append]
  have c1 : call "BVNot" [Arg.t a] = Mk.BVNot a := rfl
  have c2 : call "Not" [Arg.t a] = Mk.Not a := rfl
  rw [c1, c2]
  unfold invertModel
  cases a.typeOf with
  | none => rfl
  | some τ =>
    cases hb : τ.isBv
    · simp only [hb, Bool.false_eq_true, if_false]; cases Mk.Not a <;> rfl
    · simp only [hb, if_true]; cases Mk.BVNot a <;> rfl

/-- **`~a`**: bit-wise complement of a bit-vector, negation of a Boolean -/
theorem invert_denotes (I : Interp) {a t : Term} (h : Infix.run Gen.Infix.table "__invert__" a [] = .ok t) :
    (∀ (w : Nat) (x : BitVec w), a.typeOf = some (.bv w) → eval I a = ofBV x → eval I t = ofBV (~~~x)) ∧
    (a.typeOf = some .bool → truth I t = !truth I a) := by
  rw [run_invert] at h
  unfold invertModel at h
  refine ⟨fun w x hty ha => ?_, fun hty => ?_⟩
  · rw [hty] at h; exact bvNot_denotes I h x ha
  · rw [hty] at h; exact not_truth I h

/-! ## `-x` -/

theorem lookup_neg : Gen.Infix.table.lookup "__neg__" = some ⟨[], false,
    [.ite (.isBV .self) [.ret (.mgr "BVNeg" [.self])] [],
     .ret (.infix .self (.int (-1)) (some "Times") (some "Times"))]⟩ := by rfl

def negModel (a : Term) : R :=
  match a.typeOf with
  | none => .error .type
  | some τ => if τ.isBv then Mk.BVNeg a else applyInfix a (.i (-1)) (some "Times") (some "Times")

theorem runMethod_neg (n : Nat) (a : Term) :
    runMethod Gen.Infix.table (n + 6) "__neg__" a [] = (negModel a).map Arg.t := by
  simp only [runMethod, lookup_neg, exec, evalE, evalEs, evalC, argTerm, List.zip,
    List.zipWith, bind, Except.bind, List.length_nil, List.nil_append, List.cons_append]
  have c1 : call "BVNeg" [Arg.t a] = Mk.BVNeg a := rfl
  rw [c1]
  unfold negModel
  cases a.typeOf with
  | none => rfl
  | some τ =>
    cases hb : τ.isBv
    · simp only [hb, Bool.false_eq_true, if_false]
      cases applyInfix a (.i (-1)) (some "Times") (some "Times") <;> rfl
    · simp only [hb, if_true]; cases Mk.BVNeg a <;> rfl

theorem run_neg (a : Term) : Infix.run Gen.Infix.table "__neg__" a [] = negModel a := by
  simp only [Infix.run, fuel, runMethod_neg 18 a, bind, Except.bind]
  cases negModel a <;> rfl

theorem negModel_int (I : Interp) {a t : Term} (h : negModel a = .ok t) (hty : a.typeOf = some .int)
    (x : Int) (ha : eval I a = .i x) : eval I t = .i (-x) := by
  unfold negModel at h
  rw [hty] at h
  simp only [Ty.isBv, Bool.false_eq_true, if_false] at h
  rw [applyInfix_literal hty (.i (-1)) _ (prepare_int (-1))] at h
  unfold applyInfix at h
  rw [hty] at h
  have h' : Mk.Times [a, Term.int (-1)] = .ok t := h
  have := (times_denotes I h').1 x [-1] (by simp [ha, Term.int, eval_op, evalOp])
  rw [this]; simp

theorem negModel_real (I : Interp) {a t : Term} (h : negModel a = .ok t) (hty : a.typeOf = some .real)
    (x : Rat) (ha : eval I a = .r x) : eval I t = .r (-x) := by
  unfold negModel at h
  rw [hty] at h
  simp only [Ty.isBv, Bool.false_eq_true, if_false] at h
  rw [applyInfix_literal hty (.i (-1)) _ (prepare_real_int (-1))] at h
  unfold applyInfix at h
  rw [hty] at h
  have h' : Mk.Times [a, Term.real ((-1 : Int) : Rat)] = .ok t := h
  have := (times_denotes I h').2 x [((-1 : Int) : Rat)] (by simp [ha, Term.real, eval_op, evalOp])
  rw [this]
  simp only [List.foldl]
  congr 1
  rw [Rat.mul_comm]
  simp [Rat.neg_mul]

/-- **`-a`**: two's complement negation of a bit-vector, additive inverse of an integer / real -/
theorem neg_denotes (I : Interp) {a t : Term} (h : Infix.run Gen.Infix.table "__neg__" a [] = .ok t) :
    (∀ (w : Nat) (x : BitVec w), a.typeOf = some (.bv w) → eval I a = ofBV x → eval I t = ofBV (-x)) ∧
    (a.typeOf = some .int → ∀ x : Int, eval I a = .i x → eval I t = .i (-x)) ∧
    (a.typeOf = some .real → ∀ x : Rat, eval I a = .r x → eval I t = .r (-x)) := by
  rw [run_neg] at h
  refine ⟨fun w x hty ha => ?_, fun hty x ha => negModel_int I h hty x ha,
    fun hty x ha => negModel_real I h hty x ha⟩
  unfold negModel at h
  rw [hty] at h
  exact bvNeg_denotes I h x ha

/-! ## `other - self` (`__rsub__`) -/

theorem lookup_rsub : Gen.Infix.table.lookup "__rsub__" = some ⟨["left"], false,
    [.ite (.isBV .self)
      [.ite (.isPyInt (.var "left")) [.assign "left" (.mgr "BV" [.var "left", .bvWidth .self])] [],
       .assertFNode (.var "left"),
       .ret (.infix (.var "left") .self (some "BVSub") (some "BVSub"))] [],
     .assign "minus_self" (.neg .self),
     .ret (.infix (.var "minus_self") (.var "left") (some "Plus") (some "Plus"))]⟩ := by rfl

theorem runMethod_neg20 (a : Term) :
    runMethod Gen.Infix.table 20 "__neg__" a [] = (negModel a).map Arg.t := runMethod_neg 14 a

def rsubModel (a : Term) (left : Arg) : R :=
  match a.typeOf with
  | none => .error .type
  | some τ =>
    if τ.isBv then
      match left with
      | .i n => do
        let w ← bvWidth a
        let c ← Mk.BV n w
        applyInfix c (.t a) (some "BVSub") (some "BVSub")
      | .t l => applyInfix l (.t a) (some "BVSub") (some "BVSub")
      | .sym s => applyInfix (Term.sym s) (.t a) (some "BVSub") (some "BVSub")
      | _ => .error .assertion
    else do
      let m ← negModel a
      applyInfix m left (some "Plus") (some "Plus")

theorem run_rsub (a : Term) (left : Arg) :
    Infix.run Gen.Infix.table "__rsub__" a [left] = rsubModel a left := by
  unfold Infix.run fuel
  unfold runMethod
  simp only [lookup_rsub, Bool.false_eq_true, if_false, List.length_cons, List.length_nil, ne_eq,
    not_true_eq_false, List.zip, List.zipWith]
  simp only [exec, evalC, evalE, argTerm, bind, Except.bind, List.cons_append, List.nil_append]
  unfold rsubModel
  cases a.typeOf with
  | none => rfl
  | some τ =>
    dsimp only
    cases hb : τ.isBv
    · simp only [Bool.false_eq_true, if_false, bind, Except.bind, Env.set, Env.get,
        List.find?, runMethod_neg20]
      cases negModel a with
      | error e => rfl
      | ok m =>
        simp only [Except.map, beq_self_eq_true, String.reduceBEq]
        cases applyInfix m left (some "Plus") (some "Plus") <;> rfl
    · simp only [if_true, evalE, evalEs, argTerm, bind, Except.bind, Env.set, Env.get,
        List.find?, beq_self_eq_true]
      cases left with
      | i n =>
        simp only [if_true]
        cases bvWidth a with
        | error e => rfl
        | ok w =>
          have c1 : call "BV" [Arg.i n, Arg.i (w : Int)] = Mk.BV n w := by
            have h : call "BV" [Arg.i n, Arg.i (w : Int)] =
                (if (w : Int) ≤ 0 then .error .value else Mk.BV n (w : Int).toNat) := rfl
            rw [h]
            by_cases hw0 : w = 0
            · subst hw0; simp [Mk.BV]
            · rw [if_neg (by omega)]; simp
          simp only [c1]
          cases Mk.BV n w with
          | error e => rfl
          | ok c =>
            simp only [isFNodeArg, if_true]
            cases applyInfix c (.t a) (some "BVSub") (some "BVSub") <;> rfl
      | t l =>
        simp only [Bool.false_eq_true, if_false, isFNodeArg, if_true]
        cases applyInfix l (.t a) (some "BVSub") (some "BVSub") <;> rfl
      | sym s =>
        simp only [Bool.false_eq_true, if_false, isFNodeArg, if_true]
        cases applyInfix (Term.sym s) (.t a) (some "BVSub") (some "BVSub") <;> rfl
      | b v => rfl
      | q v => rfl
      | s v => rfl
      | none => rfl
      | slice lo hi => rfl
      | ty t => rfl

/-- **`b - a` evaluated as `a.__rsub__(b)`** on integers and reals: `(-a) + b` denotes `b - a` -/
theorem rsub_denotes_arith (I : Interp) {a b t : Term}
    (h : Infix.run Gen.Infix.table "__rsub__" a [.t b] = .ok t) :
    (a.typeOf = some .int → ∀ x y : Int, eval I a = .i x → eval I b = .i y → eval I t = .i (y - x)) ∧
    (a.typeOf = some .real → ∀ x y : Rat, eval I a = .r x → eval I b = .r y → eval I t = .r (y - x)) := by
  rw [run_rsub] at h
  unfold rsubModel at h
  refine ⟨fun hty x y ha hb => ?_, fun hty x y ha hb => ?_⟩
  · rw [hty] at h
    simp only [Ty.isBv, Bool.false_eq_true, if_false] at h
    obtain ⟨m, hm, h⟩ := bind_ok h
    have em := negModel_int I hm hty x ha
    -- the type of `-a` is whatever the checker says; `Plus` is the same function on both sides
    unfold applyInfix at h
    cases hmt : m.typeOf with
    | none => rw [hmt] at h; cases h
    | some τ =>
      rw [hmt] at h
      simp only [prepareArg, bind, Except.bind] at h
      have h' : Mk.Plus [m, b] = .ok t := by
        cases hb' : τ.isBv <;> (simp only [hb', callOpt, Bool.false_eq_true, if_false, if_true] at h; exact h)
      have := (plus_denotes I h').1 (-x) [y] (by simp [em, hb])
      rw [this]; simp only [List.foldl]; congr 1; omega
  · rw [hty] at h
    simp only [Ty.isBv, Bool.false_eq_true, if_false] at h
    obtain ⟨m, hm, h⟩ := bind_ok h
    have em := negModel_real I hm hty x ha
    unfold applyInfix at h
    cases hmt : m.typeOf with
    | none => rw [hmt] at h; cases h
    | some τ =>
      rw [hmt] at h
      simp only [prepareArg, bind, Except.bind] at h
      have h' : Mk.Plus [m, b] = .ok t := by
        cases hb' : τ.isBv <;> (simp only [hb', callOpt, Bool.false_eq_true, if_false, if_true] at h; exact h)
      have := (plus_denotes I h').2 (-x) [y] (by simp [em, hb])
      rw [this]; simp only [List.foldl]; congr 1
      rw [Rat.sub_eq_add_neg, Rat.add_comm]

/-- **`b - a` on bit-vectors** (`b` a formula): `BVSub(b, a)` -/
theorem rsub_denotes_bv (I : Interp) {a b t : Term} {w : Nat}
    (h : Infix.run Gen.Infix.table "__rsub__" a [.t b] = .ok t) (hty : a.typeOf = some (.bv w))
    (x y : BitVec w) (ha : eval I a = ofBV x) (hb : eval I b = ofBV y) : eval I t = ofBV (y - x) := by
  rw [run_rsub] at h
  unfold rsubModel at h
  rw [hty] at h
  simp only [Ty.isBv, if_true] at h
  unfold applyInfix at h
  cases hbt : b.typeOf with
  | none => rw [hbt] at h; cases h
  | some τ =>
    rw [hbt] at h
    simp only [prepareArg, bind, Except.bind] at h
    have h' : Mk.BVSub b a = .ok t := by
      cases hb' : τ.isBv <;> (simp only [hb', callOpt, Bool.false_eq_true, if_false, if_true] at h; exact h)
    exact bvBin_eval I .sub h' y x hb ha

/-- **`n - a` on bit-vectors** (`n` a Python integer in range): `BVSub(BV(n, w), a)` -/
theorem rsub_denotes_bv_int (I : Interp) {a t : Term} {w : Nat} {n : Int}
    (h : Infix.run Gen.Infix.table "__rsub__" a [.i n] = .ok t) (hty : a.typeOf = some (.bv w))
    (hw : bvWidth a = .ok w) (x : BitVec w) (ha : eval I a = ofBV x) :
    0 ≤ n ∧ n < 2 ^ w ∧ eval I t = ofBV (BitVec.ofNat w n.toNat - x) := by
  rw [run_rsub] at h
  unfold rsubModel at h
  rw [hty] at h
  simp only [Ty.isBv, if_true, hw, bind, Except.bind] at h
  cases hbv : Mk.BV n w with
  | error e => rw [hbv] at h; cases h
  | ok c =>
  rw [hbv] at h
  obtain ⟨_, h0, h1, rfl⟩ := bv_ok_inv hbv
  simp only at h
  refine ⟨by omega, by omega, ?_⟩
  have hlt : n.toNat < 2 ^ w := by
    have : ((2 ^ w : Nat) : Int) = (2 : Int) ^ w := by simp
    omega
  unfold applyInfix at h
  have hct : (Term.bvc n.toNat w).typeOf = some (.bv w) := by
    simp only [Term.bvc, Term.typeOf, List.map_nil]; rfl
  rw [hct] at h
  simp only [prepareArg, bind, Except.bind, Ty.isBv, if_true] at h
  have h' : Mk.BVSub (Term.bvc n.toNat w) a = .ok t := h
  exact bvBin_eval I .sub h' _ x (eval_bvc_ofBV I _ _ hlt) ha

end PySMT.C06
