import PySMT.Impl.Manager
/-!
# C04 — array values: `Array` establishes the address order, `array_value_get` relies on it
-/
namespace PySMT.Manager

/-- strictly increasing addresses of the index constants -/
def SortedBy (addr : Nid → Nat) (ps : List (Nid × Nid)) : Prop :=
  ps.Pairwise (fun a b => addr a.1 < addr b.1)

/-- the dict keys are distinct objects: distinct addresses -/
def DistinctAddr (addr : Nid → Nat) (ps : List (Nid × Nid)) : Prop :=
  ps.Pairwise (fun a b => addr a.1 ≠ addr b.1)

theorem mem_insertByAddr {addr : Nid → Nat} {kv x : Nid × Nid} :
    ∀ {l : List (Nid × Nid)}, x ∈ insertByAddr addr kv l ↔ x = kv ∨ x ∈ l
  | [] => by simp [insertByAddr]
  | h :: t => by
    simp only [insertByAddr]
    split
    · simp
    · simp only [List.mem_cons, mem_insertByAddr (l := t)]
      constructor
      · rintro (h1 | h1 | h1) <;> simp [h1]
      · rintro (h1 | h1 | h1) <;> simp [h1]

theorem mem_sortByAddr {addr : Nid → Nat} {x : Nid × Nid} :
    ∀ {l : List (Nid × Nid)}, x ∈ sortByAddr addr l ↔ x ∈ l
  | [] => by simp [sortByAddr]
  | h :: t => by simp [sortByAddr, mem_insertByAddr, mem_sortByAddr (l := t)]

theorem sorted_insertByAddr {addr : Nid → Nat} {kv : Nid × Nid} :
    ∀ {l : List (Nid × Nid)}, SortedBy addr l → (∀ x ∈ l, addr kv.1 ≠ addr x.1) →
      SortedBy addr (insertByAddr addr kv l)
  | [], _, _ => by simp [insertByAddr, SortedBy]
  | h :: t, hs, hne => by
    simp only [insertByAddr]
    have hs' := List.pairwise_cons.mp hs
    split
    next hle =>
      refine List.pairwise_cons.mpr ⟨?_, hs⟩
      intro x hx
      have h1 : addr kv.1 < addr h.1 := Nat.lt_of_le_of_ne hle (hne h (by simp))
      rcases List.mem_cons.mp hx with rfl | hx
      · exact h1
      · exact Nat.lt_trans h1 (hs'.1 x hx)
    next hgt =>
      refine List.pairwise_cons.mpr ⟨?_, sorted_insertByAddr hs'.2 (fun x hx => hne x (List.mem_cons_of_mem _ hx))⟩
      intro x hx
      rcases mem_insertByAddr.mp hx with rfl | hx
      · omega
      · exact hs'.1 x hx

theorem sorted_sortByAddr {addr : Nid → Nat} :
    ∀ {l : List (Nid × Nid)}, DistinctAddr addr l → SortedBy addr (sortByAddr addr l)
  | [], _ => by simp [sortByAddr, SortedBy]
  | h :: t, hd => by
    have hd' := List.pairwise_cons.mp hd
    simp only [sortByAddr]
    exact sorted_insertByAddr (sorted_sortByAddr hd'.2) (fun x hx => hd'.1 x (mem_sortByAddr.mp hx))

/-- **`Array` establishes the order `array_value_get` needs**: the stored assignments are
    strictly sorted by address … -/
theorem arrayAssignments_sorted {addr : Nid → Nat} {d : Nid} {assign : List (Nid × Nid)}
    (h : DistinctAddr addr assign) : SortedBy addr (arrayAssignments addr d assign) :=
  List.Pairwise.filter _ (sorted_sortByAddr h)

/-- … and are exactly the given assignments whose value is not the default. -/
theorem mem_arrayAssignments {addr : Nid → Nat} {d : Nid} {assign : List (Nid × Nid)} {kv : Nid × Nid} :
    kv ∈ arrayAssignments addr d assign ↔ kv ∈ assign ∧ kv.2 ≠ d := by
  simp [arrayAssignments, mem_sortByAddr]

theorem pairsOf_flattenPairs : ∀ (ps : List (Nid × Nid)), pairsOf (flattenPairs ps) = ps
  | [] => by simp [flattenPairs, pairsOf]
  | (k, v) :: t => by simp [flattenPairs, pairsOf, pairsOf_flattenPairs t]

theorem length_flattenPairs : ∀ (ps : List (Nid × Nid)), (flattenPairs ps).length = 2 * ps.length
  | [] => by simp [flattenPairs]
  | (k, v) :: t => by simp [flattenPairs, length_flattenPairs t]; omega

theorem sorted_get {addr : Nid → Nat} {ps : List (Nid × Nid)} (hs : SortedBy addr ps) {p q : Nat}
    {a b : Nid × Nid} (hp : ps[p]? = some a) (hq : ps[q]? = some b) (hpq : p < q) : addr a.1 < addr b.1 := by
  have hp' := List.getElem?_eq_some_iff.mp hp
  have hq' := List.getElem?_eq_some_iff.mp hq
  obtain ⟨hp1, hp2⟩ := hp'
  obtain ⟨hq1, hq2⟩ := hq'
  have := (List.pairwise_iff_getElem.mp hs) p q hp1 hq1 hpq
  rw [hp2, hq2] at this
  exact this

/-- The binary search finds an entry of the window with the target's address, and reports
    absence only when no entry of the window has it. -/
theorem bsearch_window {addr : Nid → Nat} {ps : List (Nid × Nid)} (hs : SortedBy addr ps) (t : Nid) :
    ∀ (fuel start end_ : Nat), end_ ≤ ps.length → end_ - start < fuel →
      (∀ v, bsearch addr ps t fuel start end_ = some v →
          ∃ p k, start ≤ p ∧ p < end_ ∧ ps[p]? = some (k, v) ∧ addr k = addr t) ∧
      (bsearch addr ps t fuel start end_ = none →
          ∀ p kv, start ≤ p → p < end_ → ps[p]? = some kv → addr kv.1 ≠ addr t) := by
  intro fuel
  induction fuel with
  | zero => intro start end_ _ h; omega
  | succ fuel ih =>
    intro start end_ hend hfuel
    simp only [bsearch]
    split
    next hlt =>
      have hpiv : (end_ + start) / 2 < ps.length := by omega
      have hget : ps[(end_ + start) / 2]? = some ps[(end_ + start) / 2] := List.getElem?_eq_getElem hpiv
      rw [hget]
      generalize ps[(end_ + start) / 2] = kv0 at hget
      obtain ⟨k, v⟩ := kv0
      simp only
      split
      next heq =>
        refine ⟨fun v' hv' => ?_, by simp⟩
        cases hv'
        exact ⟨(end_ + start) / 2, k, by omega, by omega, hget, heq⟩
      next hne =>
        split
        next hgt =>
          have := ih start ((end_ + start) / 2) (by omega) (by omega)
          refine ⟨fun v' hv' => ?_, fun hn p kv hp1 hp2 hpk => ?_⟩
          · obtain ⟨p, k', h1, h2, h3, h4⟩ := this.1 v' hv'
            exact ⟨p, k', h1, by omega, h3, h4⟩
          · by_cases hp : p < (end_ + start) / 2
            · exact this.2 hn p kv hp1 hp hpk
            · by_cases hp' : p = (end_ + start) / 2
              · subst hp'; rw [hget] at hpk; cases hpk; exact hne
              · have := sorted_get hs hget hpk (by omega)
                simp only at this
                omega
        next hle =>
          have := ih ((end_ + start) / 2 + 1) end_ hend (by omega)
          refine ⟨fun v' hv' => ?_, fun hn p kv hp1 hp2 hpk => ?_⟩
          · obtain ⟨p, k', h1, h2, h3, h4⟩ := this.1 v' hv'
            exact ⟨p, k', by omega, h2, h3, h4⟩
          · by_cases hp : (end_ + start) / 2 + 1 ≤ p
            · exact this.2 hn p kv hp hp2 hpk
            · by_cases hp' : p = (end_ + start) / 2
              · subst hp'; rw [hget] at hpk; cases hpk; exact hne
              · have := sorted_get hs hpk hget (by omega)
                simp only at this
                omega
    next hge =>
      exact ⟨by simp, fun _ p kv h1 h2 => by omega⟩

/-- the value assigned to index `idx`, by plain search (`array_value_assigned_values_map()[idx]`) -/
def lookupKey (ps : List (Nid × Nid)) (idx : Nid) : Option Nid :=
  (ps.find? (fun kv => kv.1 == idx)).map (·.2)

theorem lookupKey_some {ps : List (Nid × Nid)} {idx v : Nid} (h : (idx, v) ∈ ps)
    (huniq : ∀ v', (idx, v') ∈ ps → v' = v) : lookupKey ps idx = some v := by
  unfold lookupKey
  cases hf : ps.find? (fun kv => kv.1 == idx) with
  | none =>
    have := List.find?_eq_none.mp hf (idx, v) h
    simp at this
  | some kv =>
    have h1 := List.find?_some hf
    have h2 := List.mem_of_find?_eq_some hf
    simp only [beq_iff_eq] at h1
    obtain ⟨k, v'⟩ := kv
    simp only at h1
    subst h1
    simp [huniq v' h2]

theorem lookupKey_none {ps : List (Nid × Nid)} {idx : Nid} (h : ∀ kv ∈ ps, kv.1 ≠ idx) :
    lookupKey ps idx = none := by
  unfold lookupKey
  rw [List.find?_eq_none.mpr]
  · rfl
  · intro kv hkv; simpa using h kv hkv

/-- **`array_value_get` is dict lookup with default**, for every array value whose assignments
    are sorted by address (what `Array` guarantees), addresses being injective (`id()`). -/
theorem arrayGetC_correct {addr : Nid → Nat} (hinj : ∀ a b, addr a = addr b → a = b)
    {nt : Nat} {d : Nid} {ps : List (Nid × Nid)} {pl : Payload} (hs : SortedBy addr ps) (idx : Nid) :
    arrayGetC addr ⟨nt, d :: flattenPairs ps, pl⟩ idx = some ((lookupKey ps idx).getD d) := by
  simp only [arrayGetC, pairsOf_flattenPairs, List.length_cons, length_flattenPairs]
  have hend : (2 * ps.length + 1 - 1) / 2 = ps.length := by omega
  rw [hend]
  have hw := bsearch_window hs idx (ps.length + 1) 0 ps.length (Nat.le_refl _) (by omega)
  cases hb : bsearch addr ps idx (ps.length + 1) 0 ps.length with
  | some v =>
    obtain ⟨p, k, _, hp, hget, hk⟩ := hw.1 v hb
    have hk' := hinj _ _ hk
    subst hk'
    have hmem : (k, v) ∈ ps := List.mem_of_getElem? hget
    have huniq : ∀ v', (k, v') ∈ ps → v' = v := by
      intro v' hv'
      obtain ⟨q, hq⟩ := List.getElem?_of_mem hv'
      by_cases hpq : p = q
      · subst hpq; rw [hget] at hq; cases hq; rfl
      · rcases Nat.lt_or_gt_of_ne hpq with h1 | h1
        · have := sorted_get hs hget hq h1; simp at this
        · have := sorted_get hs hq hget h1; simp at this
    rw [lookupKey_some hmem huniq]
  | none =>
    have hnone := hw.2 hb
    have hl : lookupKey ps idx = none := by
      apply lookupKey_none
      intro kv hkv h
      obtain ⟨q, hq⟩ := List.getElem?_of_mem hkv
      have hq1 := (List.getElem?_eq_some_iff.mp hq).1
      exact hnone q kv (Nat.zero_le _) hq1 hq (by rw [h])
    rw [hl]

end PySMT.Manager
