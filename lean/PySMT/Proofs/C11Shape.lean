import PySMT.Impl.WF
import PySMT.Proofs.C11Pol
/-!
# C11 — shape of the CNF: every member of every clause is a literal

`convert` answers a set of clauses of literals (atom or negated atom), or one of the degenerate sets
`{{True}}`, `{{False}}`, `{{}}`.  Needed about the simplifier: it maps an atom (or a constant) to a
literal or a constant (`SimpShape`) — true of `Simplifier` except when an atom folds to a
non-atomic Boolean formula (see finding F51 in `known_findings.d/C11.json`).
-/
namespace PySMT.CNF

/-- `True` / `False` -/
def IsConst (l : Term) : Prop := l = Term.tt ∨ l = Term.ff

def LitOrConst (l : Term) : Prop := isLitS l = true ∨ IsConst l

/-- the simplifier maps atoms and constants to literals or constants -/
def SimpShape (σ : Term → Term) : Prop := ∀ x, (isAtomS x = true ∨ IsConst x) → LitOrConst (σ x)

theorem isLitS_of_atom {a : Term} (h : isAtomS a = true) : isLitS a = true := by
  cases a with
  | node op args p =>
    unfold isLitS
    split
    · next heq => cases heq; simp [isAtomS, Term.op] at h
    · exact h

theorem isAtomS_bool {a : Term} (h : isAtomS a = true) : a.typeOf = some .bool := by
  simp only [isAtomS, Bool.and_eq_true, beq_iff_eq] at h
  exact h.2

theorem simpShape_id : SimpShape id := by
  intro x hx
  rcases hx with h | h
  · exact Or.inl (isLitS_of_atom h)
  · exact Or.inr h

/-- every definition symbol is a Boolean constant symbol -/
def KeyBool (E : Env) : Prop := ∀ h : Term, (E.key h).params = [] ∧ (E.key h).ret = .bool

theorem typeOf_boolSym {k : Sym} (h : k.params = [] ∧ k.ret = .bool) : (Term.sym k).typeOf = some .bool := by
  simp only [Term.sym, typeOf_node, List.map_nil, typeOfNode_symbol_eq, h.1, List.isEmpty_nil, if_true, h.2]

theorem isAtomS_sym {k : Sym} (h : k.params = [] ∧ k.ret = .bool) : isAtomS (Term.sym k) = true := by
  have := typeOf_boolSym h
  simp only [isAtomS, this, beq_self_eq_true, Bool.and_true]
  rfl

theorem isAtomS_not (args : List Term) (p : Payload) : isAtomS (.node .not args p) = false := rfl

theorem isLitS_mkNot {a : Term} (h : isAtomS a = true) : isLitS (Term.mkNot a) = true := by
  simpa [Term.mkNot, isLitS] using h

theorem isLitS_sym {k : Sym} (h : k.params = [] ∧ k.ret = .bool) : isLitS (Term.sym k) = true :=
  isLitS_of_atom (isAtomS_sym h)
theorem isLitS_notSym {k : Sym} (h : k.params = [] ∧ k.ret = .bool) : isLitS (Term.mkNot (Term.sym k)) = true :=
  isLitS_mkNot (isAtomS_sym h)

/-- a literal is an atom or the negation of an atom -/
theorem isLitS_cases {l : Term} (h : isLitS l = true) :
    isAtomS l = true ∨ ∃ a p, l = .node .not [a] p ∧ isAtomS a = true := by
  cases l with
  | node op args p =>
    unfold isLitS at h
    split at h
    · next a p' heq =>
      cases heq
      exact Or.inr ⟨_, _, rfl, h⟩
    · exact Or.inl h

theorem litOrConst_simpNot {s : Term} (h : LitOrConst s) : LitOrConst (simpNot s) := by
  rcases h with h | h | h
  · rcases isLitS_cases h with ha | ⟨a, p, rfl, ha⟩
    · unfold simpNot
      split
      · simp [isAtomS, Term.op] at ha
      · simp [isAtomS, Term.op] at ha
      · exact Or.inl (isLitS_mkNot ha)
    · simp only [simpNot]
      exact Or.inl (isLitS_of_atom ha)
  · subst h; exact Or.inr (Or.inr rfl)
  · subst h; exact Or.inr (Or.inl rfl)

theorem litOrConst_negLit {E : Env} (hσ : SimpShape E.simp) {l : Term} (h : LitOrConst l) :
    LitOrConst (negLit E l) := by
  rcases h with h | h
  · rcases isLitS_cases h with ha | ⟨a, p, rfl, ha⟩
    · have : negLit E l = simpNot (E.simp l) := by
        unfold negLit
        split
        · simp [isAtomS, Term.op] at ha
        · rfl
      rw [this]
      exact litOrConst_simpNot (hσ l (Or.inl ha))
    · simp only [negLit]
      exact hσ a (Or.inl ha)
  · have : negLit E l = simpNot (E.simp l) := by
      rcases h with rfl | rfl <;> rfl
    rw [this]
    exact litOrConst_simpNot (hσ l (Or.inr h))

/-! ## a Boolean-typed term is not a placeholder -/

theorem typeOfNode_real_ne (p : Payload) (ts : List (Option Ty)) : typeOfNode .realConst p ts ≠ some .bool := by
  cases ts <;> (intro h; cases h)
theorem typeOfNode_int_ne (p : Payload) (ts : List (Option Ty)) : typeOfNode .intConst p ts ≠ some .bool := by
  cases ts <;> (intro h; cases h)
theorem typeOfNode_str_ne (p : Payload) (ts : List (Option Ty)) : typeOfNode .strConst p ts ≠ some .bool := by
  cases ts <;> (intro h; cases h)
theorem typeOfNode_alg_ne (p : Payload) (ts : List (Option Ty)) : typeOfNode .algebraicConst p ts ≠ some .bool := by
  cases ts <;> (intro h; cases h)
theorem typeOfNode_bv_ne (p : Payload) (ts : List (Option Ty)) : typeOfNode .bvConst p ts ≠ some .bool := by
  cases ts <;> cases p <;> (intro h; cases h)

theorem typeOfNode_ite_eq (p : Payload) (τa τb : Ty) :
    typeOfNode .ite p [some .bool, some τa, some τb] = if τa = τb then some τa else none := by
  cases p <;> rfl

/-- a typable `ite` has the type of its second argument and a Boolean condition -/
theorem typeOfNode_ite_some (p : Payload) (tc ta tb : Option Ty)
    (h : (typeOfNode .ite p [tc, ta, tb]).isSome = true) :
    typeOfNode .ite p [tc, ta, tb] = ta ∧ tc = some .bool ∧ tb = ta := by
  cases tc with
  | none => cases h
  | some τc =>
    cases ta with
    | none => cases τc <;> cases h
    | some τa =>
      cases tb with
      | none => cases τc <;> cases h
      | some τb =>
        cases τc <;> try (cases h)
        rw [typeOfNode_ite_eq] at h ⊢
        split at h
        · next hab => simp [hab]
        · cases h

theorem shapeOK_not (p : Payload) (n : Nat) : Op.shapeOK .not p n = (n == 1) := by cases p <;> rfl
theorem shapeOK_implies (p : Payload) (n : Nat) : Op.shapeOK .implies p n = (n == 2) := by cases p <;> rfl
theorem shapeOK_iff (p : Payload) (n : Nat) : Op.shapeOK .iff p n = (n == 2) := by cases p <;> rfl
theorem shapeOK_ite (p : Payload) (n : Nat) : Op.shapeOK .ite p n = (n == 3) := by cases p <;> rfl

theorem wf_args {op : Op} {args : List Term} {p : Payload} (h : (Term.node op args p).wf = true) :
    ∀ a ∈ args, a.wf = true := (Term.wf_node.mp h).1

theorem wf_len {op : Op} {args : List Term} {p : Payload} (h : (Term.node op args p).wf = true) :
    op.shapeOK p args.length = true := (Term.wf_node.mp h).2.1

theorem len1 {α} {l : List α} (h : l.length = 1) : ∃ a, l = [a] := by
  match l, h with
  | [a], _ => exact ⟨a, rfl⟩
theorem len2 {α} {l : List α} (h : l.length = 2) : ∃ a b, l = [a, b] := by
  match l, h with
  | [a, b], _ => exact ⟨a, b, rfl⟩
theorem len3 {α} {l : List α} (h : l.length = 3) : ∃ a b c, l = [a, b, c] := by
  match l, h with
  | [a, b, c], _ => exact ⟨a, b, c, rfl⟩

theorem ph_false_of_bool : (x : Term) → x.wf = true → x.typeOf = some .bool → ph x = false
  | .node op args p => by
    intro hwf hty
    have ih : ∀ a ∈ args, a.typeOf = some .bool → ph a = false :=
      fun a ha => ph_false_of_bool a (wf_args hwf a ha)
    have hty' := hty
    have hlen := wf_len hwf
    rw [typeOf_node] at hty
    clear hwf
    revert ih hty hty' hlen
    rw [ph.eq_def]; simp only
    split <;> intro hty ih hty' hlen
    all_goals try rfl
    · -- symbol
      rw [typeOfNode_symbol_eq] at hty
      split at hty
      · next s =>
        split at hty
        · next hp =>
          have := Option.some.inj hty
          simp [hp, this]
        · cases hty
      · cases hty
    · -- function
      rw [typeOfNode_function_eq] at hty
      split at hty
      · next f =>
        split at hty
        · have := Option.some.inj hty
          simp [this]
        · cases hty
      · cases hty
    · -- ite
      rw [shapeOK_ite] at hlen
      obtain ⟨c, x, y, rfl⟩ := len3 (by simpa using hlen)
      have hsome : (typeOfNode .ite p ([c, x, y].map Term.typeOf)).isSome = true := by rw [hty]; rfl
      simp only [List.map_cons, List.map_nil] at hsome hty
      obtain ⟨h1, h2, h3⟩ := typeOfNode_ite_some p _ _ _ hsome
      rw [h1] at hty
      simp only [List.map_cons, List.map_nil, List.any_cons, List.any_nil, id,
        ih c (by simp) h2, ih x (by simp) hty, ih y (by simp) (by rw [h3]; exact hty), Bool.or_self]
    · exact absurd hty (typeOfNode_real_ne _ _)
    · exact absurd hty (typeOfNode_int_ne _ _)
    · exact absurd hty (typeOfNode_bv_ne _ _)
    · exact absurd hty (typeOfNode_str_ne _ _)
    · exact absurd hty (typeOfNode_alg_ne _ _)
    · -- theory operators
      rw [hty']; rfl

/-! ## literals of the encoding -/

theorem isAtomS_of_op {op : Op} {args : List Term} {p : Payload}
    (h1 : op ≠ .and) (h2 : op ≠ .or) (h3 : op ≠ .not) (h4 : op ≠ .implies) (h5 : op ≠ .iff) (h6 : op ≠ .boolConst)
    (h7 : op ≠ .forall_) (h8 : op ≠ .exists_) (h9 : op ≠ .ite)
    (hty : (Term.node op args p).typeOf = some .bool) : isAtomS (.node op args p) = true := by
  simp only [isAtomS, Term.op, hty, beq_self_eq_true, Bool.and_true]

/-- an atom of the model (a node on which `enc` answers the node itself) is an atom of the
specification or a constant -/
theorem default_litOrConst {op : Op} {args : List Term} {p : Payload} (hwf : (Term.node op args p).wf = true)
    (hty : (Term.node op args p).typeOf = some .bool) (hq : op.isQuantifier = false)
    (h1 : op = .and → False) (h2 : op = .or → False)
    (h5 : ∀ a, op = .not → args = [a] → False) (h6 : ∀ a b, op = .implies → args = [a, b] → False)
    (h7 : ∀ a b, op = .iff → args = [a, b] → False) (h8 : ∀ a b c, op = .ite → args = [a, b, c] → False) :
    LitOrConst (.node op args p) := by
  have hlen := wf_len hwf
  by_cases hn : op = .not
  · subst hn
    rw [shapeOK_not] at hlen
    obtain ⟨a, rfl⟩ := len1 (by simpa using hlen)
    exact absurd rfl (h5 a rfl)
  by_cases hi : op = .implies
  · subst hi
    rw [shapeOK_implies] at hlen
    obtain ⟨a, b, rfl⟩ := len2 (by simpa using hlen)
    exact absurd rfl (h6 a b rfl)
  by_cases hf : op = .iff
  · subst hf
    rw [shapeOK_iff] at hlen
    obtain ⟨a, b, rfl⟩ := len2 (by simpa using hlen)
    exact absurd rfl (h7 a b rfl)
  by_cases ht : op = .ite
  · subst ht
    rw [shapeOK_ite] at hlen
    obtain ⟨a, b, c, rfl⟩ := len3 (by simpa using hlen)
    exact absurd rfl (h8 a b c rfl)
  by_cases hb : op = .boolConst
  · subst hb
    cases p <;> try (simp [Op.shapeOK] at hlen)
    next v =>
      have : args = [] := List.eq_nil_of_length_eq_zero (by simpa [Op.shapeOK] using hlen)
      subst this
      cases v
      · exact Or.inr (Or.inr rfl)
      · exact Or.inr (Or.inl rfl)
  · refine Or.inl (isLitS_of_atom (isAtomS_of_op (fun h => h1 h) (fun h => h2 h) hn hi hf hb ?_ ?_ ht hty))
    · rintro rfl; simp [Op.isQuantifier] at hq
    · rintro rfl; simp [Op.isQuantifier] at hq

theorem typeOfNode_conn {op : Op} (hc : isConn op = true) (p : Payload) (ts : List (Option Ty)) :
    typeOfNode op p ts = if allAre ts .bool then some .bool else none := by
  cases op <;> simp [isConn] at hc <;> cases p <;> rfl

/-- the arguments of a typable connective are Boolean -/
theorem conn_args_bool {op : Op} {args : List Term} {p : Payload} (hc : isConn op = true)
    (hwf : (Term.node op args p).wf = true) : ∀ a ∈ args, a.typeOf = some .bool := by
  have hts := (Term.wf_node.mp hwf).2.2
  rw [typeOfNode_conn hc] at hts
  split at hts
  · next h =>
    intro a ha
    simp only [allAre, List.all_eq_true, List.mem_map, forall_exists_index, and_imp,
      forall_apply_eq_imp_iff₂, beq_iff_eq] at h
    exact h a ha
  · cases hts

theorem ite_args_bool {args : List Term} {p : Payload} (hwf : (Term.node .ite args p).wf = true)
    (hty : (Term.node .ite args p).typeOf = some .bool) : ∀ a ∈ args, a.typeOf = some .bool := by
  have hlen := wf_len hwf
  rw [shapeOK_ite] at hlen
  obtain ⟨c, x, y, rfl⟩ := len3 (by simpa using hlen)
  have hts := (Term.wf_node.mp hwf).2.2
  simp only [List.map_cons, List.map_nil] at hts
  obtain ⟨h1, h2, h3⟩ := typeOfNode_ite_some p _ _ _ hts
  rw [typeOf_node] at hty
  simp only [List.map_cons, List.map_nil] at hty
  rw [h1] at hty
  intro a ha
  simp only [List.mem_cons, List.mem_nil_iff, or_false] at ha
  rcases ha with rfl | rfl | rfl
  · exact h2
  · exact hty
  · rw [h3]; exact hty

theorem enc_lits (E : Env) (hσ : SimpShape E.simp) (hkb : KeyBool E) :
    (g : Term) → g.wf = true → g.isQF = true → g.typeOf = some .bool →
      LitOrConst (enc E g).1 ∧ AllLits LitOrConst (enc E g).2
  | .node op args p => by
    intro hwf hqf hty
    have hq : op.isQuantifier = false := by
      have hqf' := hqf
      simp only [Term.isQF, List.all_eq_true, Bool.not_eq_true'] at hqf'
      simpa [Term.op] using hqf' _ (subterms_self _)
    have hkey : LitOrConst (Term.sym (E.key (.node op args p))) ∧
        LitOrConst (Term.mkNot (Term.sym (E.key (.node op args p)))) :=
      ⟨Or.inl (isLitS_sym (hkb _)), Or.inl (isLitS_notSym (hkb _))⟩
    have ih : ∀ a ∈ args, a.typeOf = some .bool →
        LitOrConst (enc E a).1 ∧ AllLits LitOrConst (enc E a).2 := fun a ha hta =>
      enc_lits E hσ hkb a (wf_args hwf a ha) (by
        simp only [Term.isQF, List.all_eq_true] at hqf ⊢
        exact fun x hx => hqf x (subterms_child ha hx)) hta
    have hch : isConn op = true → ∀ a ∈ args, a.typeOf = some .bool := fun hc => conn_args_bool hc hwf
    have hchi : op = .ite → ∀ a ∈ args, a.typeOf = some .bool := by
      intro e; subst e; exact ite_args_bool hwf hty
    have hdef := @default_litOrConst op args p hwf hty hq
    have hite : ph (.node op args p) = true → False := by
      intro hph
      rw [ph_false_of_bool _ hwf hty] at hph
      cases hph
    clear hwf hqf hty
    revert hkey ih hdef hite hch hchi
    rw [enc.eq_def]; simp only
    split <;> intro hkey ih hch hchi hdef hite
    · exact ih _ (by simp) (hch rfl _ (by simp))
    · refine ⟨hkey.1, ?_⟩
      simp only [List.map_map, Function.comp_def]
      refine allLits_cons.mpr ⟨?_, allLits_append.mpr ⟨?_, allLits_flatten.mpr ?_⟩⟩
      · intro l hl
        rcases List.mem_cons.mp hl with rfl | hl
        · exact hkey.1
        · obtain ⟨a, ha, rfl⟩ := List.mem_map.mp hl
          exact litOrConst_negLit hσ (ih a ha (hch rfl a ha)).1
      · rw [allLits_map]
        intro a ha l hl
        simp only [List.mem_cons, List.mem_nil_iff, or_false] at hl
        rcases hl with rfl | rfl
        · exact (ih a ha (hch rfl a ha)).1
        · exact hkey.2
      · intro cs hcs
        obtain ⟨a, ha, rfl⟩ := List.mem_map.mp hcs
        exact (ih a ha (hch rfl a ha)).2
    · exact ih _ (by simp) (hch rfl _ (by simp))
    · refine ⟨hkey.1, ?_⟩
      simp only [List.map_map, Function.comp_def]
      refine allLits_cons.mpr ⟨?_, allLits_append.mpr ⟨?_, allLits_flatten.mpr ?_⟩⟩
      · intro l hl
        rcases List.mem_cons.mp hl with rfl | hl
        · exact hkey.2
        · obtain ⟨a, ha, rfl⟩ := List.mem_map.mp hl
          exact (ih a ha (hch rfl a ha)).1
      · rw [allLits_map]
        intro a ha l hl
        simp only [List.mem_cons, List.mem_nil_iff, or_false] at hl
        rcases hl with rfl | rfl
        · exact hkey.1
        · exact litOrConst_negLit hσ (ih a ha (hch rfl a ha)).1
      · intro cs hcs
        obtain ⟨a, ha, rfl⟩ := List.mem_map.mp hcs
        exact (ih a ha (hch rfl a ha)).2
    · next a =>
      have iha := ih a (by simp) (hch rfl a (by simp))
      split
      · exact ⟨Or.inr (Or.inr rfl), allLits_nil⟩
      · split
        · exact ⟨Or.inr (Or.inl rfl), allLits_nil⟩
        · exact ⟨litOrConst_negLit hσ iha.1, iha.2⟩
    · next a b =>
      have iha := ih a (by simp) (hch rfl a (by simp))
      have ihb := ih b (by simp) (hch rfl b (by simp))
      refine ⟨hkey.1, ?_⟩
      simp only [allLits_append]
      refine ⟨⟨?_, iha.2⟩, ihb.2⟩
      intro c hc l hl
      simp only [List.mem_cons, List.mem_nil_iff, or_false] at hc
      rcases hc with rfl | rfl | rfl <;>
        simp only [List.mem_cons, List.mem_nil_iff, or_false] at hl <;>
        rcases hl with rfl | rfl | rfl <;>
        first
          | exact hkey.1 | exact hkey.2 | exact iha.1 | exact ihb.1
          | exact litOrConst_negLit hσ iha.1 | exact litOrConst_negLit hσ ihb.1
    · next a b =>
      have iha := ih a (by simp) (hch rfl a (by simp))
      have ihb := ih b (by simp) (hch rfl b (by simp))
      refine ⟨hkey.1, ?_⟩
      simp only [allLits_append]
      refine ⟨⟨?_, iha.2⟩, ihb.2⟩
      intro c hc l hl
      simp only [List.mem_cons, List.mem_nil_iff, or_false] at hc
      rcases hc with rfl | rfl | rfl | rfl <;>
        simp only [List.mem_cons, List.mem_nil_iff, or_false] at hl <;>
        rcases hl with rfl | rfl | rfl <;>
        first
          | exact hkey.1 | exact hkey.2 | exact iha.1 | exact ihb.1
          | exact litOrConst_negLit hσ iha.1 | exact litOrConst_negLit hσ ihb.1
    · next i th el =>
      split
      · next hph => exact absurd hph (fun h => hite h)
      · have ihi := ih i (by simp) (hchi rfl i (by simp))
        have iht := ih th (by simp) (hchi rfl th (by simp))
        have ihe := ih el (by simp) (hchi rfl el (by simp))
        refine ⟨hkey.1, ?_⟩
        simp only [allLits_append]
        refine ⟨⟨⟨?_, ihi.2⟩, iht.2⟩, ihe.2⟩
        intro c hc l hl
        simp only [List.mem_cons, List.mem_nil_iff, or_false] at hc
        rcases hc with rfl | rfl | rfl | rfl <;>
          simp only [List.mem_cons, List.mem_nil_iff, or_false] at hl <;>
          rcases hl with rfl | rfl | rfl <;>
          first
            | exact hkey.1 | exact hkey.2 | exact ihi.1 | exact iht.1 | exact ihe.1
            | exact litOrConst_negLit hσ ihi.1 | exact litOrConst_negLit hσ iht.1
            | exact litOrConst_negLit hσ ihe.1
    · next h1 h2 _ _ h5 h6 h7 h8 => exact ⟨hdef h1 h2 h5 h6 h7 h8, allLits_nil⟩

/-! ## the clean-up keeps literals and removes the constants -/

theorem isTrueC_tt : isTrueC Term.tt = true := rfl
theorem isFalseC_ff : isFalseC Term.ff = true := rfl

theorem finish_shape (E : Env) (tl : Term) (cs : List Clause) (htl : LitOrConst tl)
    (hcs : AllLits LitOrConst cs) : shapeClauses (finish E tl cs) = true := by
  unfold finish
  split
  · rcases htl with h | h | h
    · simp [shapeClauses, h]
    · subst h; simp [shapeClauses]
    · subst h; simp [shapeClauses]
  · split
    · simp [shapeClauses, falseCnf]
    · simp only
      split
      · simp [shapeClauses, falseCnf]
      · next hne =>
        have hnonempty : ∀ c ∈ norm (cs.filterMap (cleanClause E tl)), c.isEmpty = false := by
          intro c hc
          obtain ⟨d, hd, rfl⟩ := mem_norm hc
          have hd' : d.isEmpty = false := by
            cases hde : d.isEmpty
            · rfl
            · exact absurd (List.any_eq_true.mpr ⟨d, hd, hde⟩) hne
          cases d with
          | nil => simp at hd'
          | cons x xs =>
            have : x ∈ dedup (x :: xs) := (mem_dedup _ _).mpr List.mem_cons_self
            cases hdd : dedup (x :: xs) with
            | nil => rw [hdd] at this; cases this
            | cons _ _ => rfl
        have : ∀ c ∈ norm (cs.filterMap (cleanClause E tl)), ∀ l ∈ c, isLitS l = true := by
          intro c hc l hl
          obtain ⟨d, hd, rfl⟩ := mem_norm hc
          rw [mem_dedup] at hl
          obtain ⟨c0, hc0, hcl⟩ := List.mem_filterMap.mp hd
          have hsome := cleanClause_some hcl
          obtain ⟨hl0, _, hnf⟩ := (hsome.2 l).mp hl
          rcases hcs c0 hc0 l hl0 with h | h | h
          · exact h
          · subst h
            have := (hsome.1 _ hl0).1
            rw [isTrueC_tt] at this; cases this
          · subst h
            rw [isFalseC_ff] at hnf; cases hnf
        simp only [shapeClauses, Bool.or_eq_true, List.all_eq_true, Bool.and_eq_true, Bool.not_eq_true']
        exact Or.inr (fun c hc => ⟨hnonempty c hc, this c hc⟩)

theorem convert_shape (E : Env) (hσ : SimpShape E.simp) (hkb : KeyBool E) (t : Term) (hwf : t.wf = true)
    (hty : t.typeOf = some .bool) (R : List Clause) (hR : convert E t = some R) : shapeClauses R = true := by
  unfold convert at hR
  split at hR
  · next hc =>
    cases hR
    simp only [Bool.and_eq_true] at hc
    have := enc_lits E hσ hkb t hwf hc.1 hty
    exact finish_shape E _ _ this.1 this.2
  · cases hR

/-! ## `convert_as_formula`: a conjunction of disjunctions of literals -/

theorem isLitS_op {l : Term} (h : isLitS l = true) : l.op ≠ .or ∧ l.op ≠ .and ∧ l.op ≠ .boolConst := by
  rcases isLitS_cases h with ha | ⟨a, p, rfl, _⟩
  · cases l with
    | node op args p =>
      simp only [isAtomS, Term.op, Bool.and_eq_true] at ha
      simp only [Term.op]
      refine ⟨?_, ?_, ?_⟩ <;> (rintro rfl; simp at ha)
  · simp [Term.op]

theorem clauseOK_mkOrN {c : Clause} (hne : c.isEmpty = false) (hl : ∀ l ∈ c, isLitS l = true) :
    (match mkOrN c with
     | .node .or ls _ => ls.all isLitS
     | x => isLitS x) = true ∧ (mkOrN c).op ≠ .and ∧ (mkOrN c).op ≠ .boolConst := by
  match c, hne, hl with
  | [l], _, hl =>
    have h := hl l (by simp)
    have ho := isLitS_op h
    cases l with
    | node op args p =>
      simp only [mkOrN, Term.op] at ho ⊢
      refine ⟨?_, ho.2.1, ho.2.2⟩
      split
      · next heq => cases heq; exact absurd rfl ho.1
      · exact h
  | a :: b :: rest, _, hl =>
    simp only [mkOrN, Term.mkOr, Term.op]
    exact ⟨List.all_eq_true.mpr hl, by simp, by simp⟩

theorem shapeFormula_of_clauses (R : List Clause) (h : shapeClauses R = true) :
    shapeFormula (formulaOf R) = true := by
  simp only [shapeClauses, Bool.or_eq_true, beq_iff_eq] at h
  rcases h with ((h | h) | h) | h
  · subst h; rfl
  · subst h; rfl
  · subst h; rfl
  · simp only [List.all_eq_true, Bool.and_eq_true, Bool.not_eq_true'] at h
    have hcl : ∀ c ∈ R, _ := fun c hc => clauseOK_mkOrN (h c hc).1 (h c hc).2
    unfold formulaOf shapeFormula
    match R, hcl with
    | [], _ => rfl
    | [c], hcl =>
      have := hcl c (by simp)
      simp only [List.map_cons, List.map_nil, mkAndN]
      generalize mkOrN c = x at this
      cases x with
      | node op args p =>
        simp only [Term.op] at this
        split
        · next heq => cases heq; exact absurd rfl this.2.2
        · next heq => cases heq; exact absurd rfl this.2.1
        · exact this.1
    | a :: b :: rest, hcl =>
      simp only [List.map_cons, mkAndN, Term.mkAnd]
      simp only [List.all_cons, Bool.and_eq_true, List.all_eq_true, List.mem_map, forall_exists_index, and_imp,
        forall_apply_eq_imp_iff₂]
      exact ⟨(hcl a (by simp)).1, (hcl b (by simp)).1, fun c hc => (hcl c (by simp [hc])).1⟩

end PySMT.CNF

namespace PySMT.PolCNF
open PySMT.CNF

/-- a formula without a quantifier at a Boolean position that is quantifier-free anyway -/
theorem convert_shape (E : Env) (hσ : SimpShape E.simp) (hkb : KeyBool E) (t : Term) (hwf : t.wf = true)
    (hqf : t.isQF = true) (hty : t.typeOf = some .bool)
    (R : List Clause) (hR : convert E t = some R) : shapeClauses R = true := by
  unfold convert at hR
  split at hR
  · cases hR
  · cases hR
    have := enc_lits E hσ hkb t hwf hqf hty
    refine finish_shape E _ _ ?_ (allLits_mono (encP_sub E t true) this.2)
    rw [encP_lit]; exact this.1

end PySMT.PolCNF
