import PySMT.Proofs.C09Round
import PySMT.Proofs.C09DagRound
import PySMT.Proofs.C09ScriptRound
import PySMT.Proofs.C07Sound
import PySMT.Proofs.C07Example
/-!
# C09: what "`unfoldAV t`" means for the reader of the round-trip theorems, and more witnesses

The round-trip theorems (`parse_print_id`, `parse_printDag_id`) conclude `readTerm Γ (toSexp t) = .ok (unfoldAV t)`.
This file makes the two readings of that conclusion explicit:

* `unfoldAV_meaning`, `unfoldAVw_meaning` — the term that comes back has the **same value in every interpretation**
  (an array-value literal with assignments comes back as the chain of stores it is printed as), under `avGuard`;
* `unfoldAV_id`, `unfoldAVw_id` — for a term **without assigned array values** (`noAssignedAV`: every `arrayValue`
  node is a plain constant array) `unfoldAV t = t`, hence
* `parse_print_id_same_object`, `parse_printDag_id_same_object` — the parser returns the **very same object**.

Second part: concrete formulas (`tQ` quantifiers with shadowing, `tA` array value vs. store, `tB` extract/rotate,
`tR` negative rational and integer constants) for which every hypothesis of the round-trip theorems is proved.
-/
namespace PySMT.Parser.Agree
open PySMT PySMT.Parser PySMT.Std PySMT.Sexp PySMT.Printer

/-! ## 1(a) the unfolded term means the same -/

/-- **The term the parser returns for the tree printer's text has the value of the printed formula**, in every
interpretation, when the keys of every array value are pairwise different constants of a non-array index sort. -/
theorem unfoldAV_meaning (t : Term) (h : avGuard t = true) : ∀ I, eval I (unfoldAV t) = eval I t := by
  intro I
  rw [Printer.unfoldAV_eq]
  exact Printer.eval_unfoldAVw true t h I

/-- … for either printer (`srt = true`: tree printer, `srt = false`: DAG printer) -/
theorem unfoldAVw_meaning (srt : Bool) (t : Term) (h : avGuard t = true) : ∀ I, eval I (unfoldAVw srt t) = eval I t :=
  Printer.eval_unfoldAVw srt t h

/-! ## 1(b) no assigned array value: nothing is unfolded -/

/-- no `arrayValue` node with assignments: every `arrayValue` node has exactly one argument, the default value
(a constant array) -/
def noAssignedAV : Term → Bool
  | .node op args _ => (args.map noAssignedAV).all id && (op != .arrayValue || args.length == 1)

theorem noAssignedAV_node (op : Op) (args : List Term) (p : Payload) :
    noAssignedAV (.node op args p) = ((args.map noAssignedAV).all id && (op != .arrayValue || args.length == 1)) := by
  rw [noAssignedAV]

/-- **Without assigned array values, either printer's reading is the term itself.** -/
theorem unfoldAVw_id (srt : Bool) : (t : Term) → noAssignedAV t = true → unfoldAVw srt t = t
  | .node op args p, h => by
    rw [noAssignedAV_node] at h
    simp only [Bool.and_eq_true, List.all_map, List.all_eq_true, Function.comp, id] at h
    obtain ⟨hargs, hnode⟩ := h
    have hmap : args.map (unfoldAVw srt) = args := by
      conv => rhs; rw [← List.map_id args]
      exact List.map_congr_left (fun a ha => unfoldAVw_id srt a (hargs a ha))
    unfold unfoldAVw
    simp only [hmap]
    split
    · next idx d rest =>
      have hr : rest = [] := by
        cases rest with
        | nil => rfl
        | cons a l => simp at hnode
      subst hr
      cases srt <;> simp [pairsOf, sortBy]
    · rfl

theorem unfoldAV_id (t : Term) (h : noAssignedAV t = true) : unfoldAV t = t := by
  rw [Printer.unfoldAV_eq]; exact unfoldAVw_id true t h

/-- non-vacuity of 1(a), 1(b): C07's `t1 = (<= |x y| (- 5))` has no assigned array value; C07's
`tAV = Array(Int, 0, {1: 2, 3: 4})` has one and satisfies `avGuard` (more witnesses, with all hypotheses of the
round-trip theorems, in section 2: `Wit.hyps_tQ`, `Wit.hyps_tR`, `Wit.hyps_tB`, `Wit.hyps_tA`) -/
example : noAssignedAV C07.t1 = true ∧ avGuard C07.tAV = true ∧ noAssignedAV C07.tAV = false :=
  ⟨by simp [C07.t1, Term.sym, Term.int, noAssignedAV], C07.ag_tAV, by simp [C07.tAV, Term.int, noAssignedAV]⟩

/-! ## 1(c) the very same object -/

/-- **print → parse returns the very same object** (tree printer) for a formula without assigned array values. -/
theorem parse_print_id_same_object (env : SEnv) (ρ : List (String × Sym)) (Γ : PEnv) (hc : Corr env [] Γ)
    (hm : MgrLe Γ.mgr ρ) (t : Term) (hP : Printable env [] t = true) (hQ : parseOK env ρ t = true)
    (hN : mgrNormal t = true) (hA : noAssignedAV t = true) : readTerm Γ (toSexp t) = .ok t := by
  have h := parse_print_id env ρ Γ hc hm t hP hQ hN
  rwa [unfoldAV_id t hA] at h

/-- … in the environment the declarations of `env` build -/
theorem parse_print_id_penv_same_object (env : SEnv) (henv : envOK env = true) (ρ : List (String × Sym)) (t : Term)
    (hP : Printable env [] t = true) (hQ : parseOK env ρ t = true) (hN : mgrNormal t = true)
    (hA : noAssignedAV t = true) : readTerm (penvOf env) (toSexp t) = .ok t := by
  have h := parse_print_id_penv env henv ρ t hP hQ hN
  rwa [unfoldAV_id t hA] at h

/-- **print → parse returns the very same object** (DAG printer, quantifier-free formulas). -/
theorem parse_printDag_id_same_object (env : SEnv) (ρ : List (String × Sym)) (Γ : PEnv) (hc : Corr env [] Γ)
    (hm : MgrLe Γ.mgr ρ) (hdf : defFree env) (t : Term) (hP : Printable env [] t = true) (hq : noQuant t = true)
    (hQ : parseOK env ρ t = true) (hN : mgrNormal t = true) (hA : noAssignedAV t = true) :
    readTerm Γ (toSexpDag t) = .ok t := by
  have h := parse_printDag_id env ρ Γ hc hm hdf t hP hq hQ hN
  rwa [unfoldAVw_id false t hA] at h

/-- … and whatever the array values: the object returned has the meaning of the printed formula (tree printer) -/
theorem parse_print_id_meaning (env : SEnv) (ρ : List (String × Sym)) (Γ : PEnv) (hc : Corr env [] Γ)
    (hm : MgrLe Γ.mgr ρ) (t : Term) (hP : Printable env [] t = true) (hQ : parseOK env ρ t = true)
    (hN : mgrNormal t = true) (hG : avGuard t = true) :
    ∃ t', readTerm Γ (toSexp t) = .ok t' ∧ ∀ I, eval I t' = eval I t :=
  ⟨unfoldAV t, parse_print_id env ρ Γ hc hm t hP hQ hN, unfoldAV_meaning t hG⟩

/-- … (DAG printer) -/
theorem parse_printDag_id_meaning (env : SEnv) (ρ : List (String × Sym)) (Γ : PEnv) (hc : Corr env [] Γ)
    (hm : MgrLe Γ.mgr ρ) (hdf : defFree env) (t : Term) (hP : Printable env [] t = true) (hq : noQuant t = true)
    (hQ : parseOK env ρ t = true) (hN : mgrNormal t = true) (hG : avGuard t = true) :
    ∃ t', readTerm Γ (toSexpDag t) = .ok t' ∧ ∀ I, eval I t' = eval I t :=
  ⟨unfoldAVw false t, parse_printDag_id env ρ Γ hc hm hdf t hP hq hQ hN, unfoldAVw_meaning false t hG⟩

/-! ## 2. witnesses: every hypothesis of the round-trip theorems proved for four more formulas -/

namespace Wit
open PySMT.C07 (pr_node)

theorem fa_nil {P : Term → Prop} : ∀ a ∈ ([] : List Term), P a := fun _ h => by simp at h
theorem fa_cons {P : Term → Prop} {x : Term} {l : List Term} (hx : P x) (hl : ∀ a ∈ l, P a) : ∀ a ∈ x :: l, P a :=
  List.forall_mem_cons.2 ⟨hx, hl⟩

def xs : Sym := Sym.var "x" .int
def ys : Sym := Sym.var "y" .int
def us : Sym := Sym.var "u" .real
def as : Sym := Sym.var "a" (.array .int .int)
def vs : Sym := Sym.var "v" (.bv 8)

/-- declared: `y : Int`, `u : Real`, `a : (Array Int Int)`, `v : (_ BitVec 8)`; logic `ALL` -/
def envW : SEnv := { funs := [ys, us, as, vs] }
/-- the formula manager's symbols of the bound names: `x : Int` -/
def ρW : List (String × Sym) := [("x", xs)]

theorem envOK_W : envOK envW = true := by decide +kernel
theorem defFree_W : defFree envW := fun _ => ⟨rfl, rfl⟩

/-! ### leaves -/

theorem ty_x : (Term.sym xs).typeOf = some .int := by rw [Term.sym, typeOf_node]; decide
theorem ty_y : (Term.sym ys).typeOf = some .int := by rw [Term.sym, typeOf_node]; decide
theorem ty_u : (Term.sym us).typeOf = some .real := by rw [Term.sym, typeOf_node]; decide
theorem ty_a : (Term.sym as).typeOf = some (.array .int .int) := by rw [Term.sym, typeOf_node]; decide
theorem ty_v : (Term.sym vs).typeOf = some (.bv 8) := by rw [Term.sym, typeOf_node]; decide
/-- a declared constant, under any binders that do not bind its name -/
theorem pr_y (scope : List Sym) (h : findVar scope "y" = none) : Printable envW scope (Term.sym ys) = true :=
  pr_node envW scope .symbol [] (.sym ys) .int (by decide) (by decide) (by decide) (by decide)
    (by
      have h7 : nameFine "y" = true := by decide +kernel
      have h8 : envW.lookupFun "y" = some ys := by decide +kernel
      simp [nodeOK, ys, Sym.var, h7, h, h8]) fa_nil
theorem pr_u : Printable envW [] (Term.sym us) = true :=
  pr_node envW [] .symbol [] (.sym us) .real (by decide) (by decide) (by decide) (by decide) (by decide +kernel) fa_nil
theorem pr_a : Printable envW [] (Term.sym as) = true :=
  pr_node envW [] .symbol [] (.sym as) (.array .int .int) (by decide) (by decide) (by decide) (by decide)
    (by decide +kernel) fa_nil
theorem pr_v : Printable envW [] (Term.sym vs) = true :=
  pr_node envW [] .symbol [] (.sym vs) (.bv 8) (by decide) (by decide) (by decide) (by decide) (by decide +kernel) fa_nil
/-- the bound variable, under a binder of `x` -/
theorem pr_x (scope : List Sym) : Printable envW (xs :: scope) (Term.sym xs) = true :=
  pr_node envW (xs :: scope) .symbol [] (.sym xs) .int (by decide) (by decide) (by decide) (by decide)
    (by
      have h7 : nameFine "x" = true := by decide +kernel
      simp [nodeOK, xs, Sym.var, h7, findVar]) fa_nil
theorem ty_int (n : Int) : (Term.int n).typeOf = some .int := by rw [Term.int, typeOf_node]; rfl
theorem ty_real (q : Rat) : (Term.real q).typeOf = some .real := by rw [Term.real, typeOf_node]; rfl
theorem pr_int (scope : List Sym) (n : Int) : Printable envW scope (Term.int n) = true :=
  pr_node envW scope .intConst [] (.i n) .int (by decide) (by decide) rfl rfl (by simp [nodeOK]; decide) fa_nil
theorem pr_real (scope : List Sym) (q : Rat) : Printable envW scope (Term.real q) = true :=
  pr_node envW scope .realConst [] (.q q) .real (by decide) (by decide) rfl rfl rfl fa_nil

/-! ### `tQ`: quantifiers with shadowing -/

def leXY : Term := .node .le [Term.sym xs, Term.sym ys] .none
def eqXY : Term := .node .equals [Term.sym xs, Term.sym ys] .none
def exQ : Term := Term.mkExists [xs] eqXY
def orQ : Term := .node .or [leXY, exQ] .none
/-- `(forall ((x Int)) (or (<= x y) (exists ((x Int)) (= x y))))` over the declared `y : Int`: the inner `x` shadows the
outer one -/
def tQ : Term := Term.mkForall [xs] orQ

theorem ty_leXY : leXY.typeOf = some .bool := by rw [leXY, typeOf_node]; simp only [List.map, ty_x, ty_y]; decide
theorem ty_eqXY : eqXY.typeOf = some .bool := by rw [eqXY, typeOf_node]; simp only [List.map, ty_x, ty_y]; decide
theorem ty_exQ : exQ.typeOf = some .bool := by
  rw [exQ, Term.mkExists, typeOf_node]; simp only [List.map, ty_eqXY]; decide
theorem ty_orQ : orQ.typeOf = some .bool := by rw [orQ, typeOf_node]; simp only [List.map, ty_leXY, ty_exQ]; decide

/-- assembling `Printable` for a binder node -/
theorem pr_quant (env : SEnv) (scope : List Sym) (op : Op) (hop : op = .forall_ ∨ op = .exists_) (bvs : List Sym) (b : Term)
    (hb : binderOK env bvs = true) (hty : b.typeOf = some .bool) (hbody : Printable env (bvs.reverse ++ scope) b = true) :
    Printable env scope (.node op [b] (.qvars bvs)) = true := by
  have hS : stdTy op (.qvars bvs) [tyD b] = some .bool := by
    simp only [tyD, hty, Option.getD_some]; rcases hop with rfl | rfl <;> rfl
  have hT : typeOfNode op (.qvars bvs) [b.typeOf] = some .bool := by
    simp only [hty]; rcases hop with rfl | rfl <;> rfl
  rw [Printable.eq_def]
  rcases hop with rfl | rfl <;>
    simp only [List.map, hS, hT, beq_self_eq_true, hb, hbody, List.all_cons, List.all_nil, id, Bool.and_self]

theorem binderOK_x : binderOK envW [xs] = true := by decide +kernel

theorem pr_leXY : Printable envW [xs] leXY = true :=
  pr_node envW [xs] .le _ _ .bool (by decide) (by decide)
    (by simp only [List.map, tyD, ty_x, ty_y, Option.getD_some]; decide) (by simp only [List.map, ty_x, ty_y]; decide)
    (by decide) (fa_cons (pr_x []) (fa_cons (pr_y [xs] (by decide)) fa_nil))
theorem pr_eqXY : Printable envW [xs, xs] eqXY = true :=
  pr_node envW [xs, xs] .equals _ _ .bool (by decide) (by decide)
    (by simp only [List.map, tyD, ty_x, ty_y, Option.getD_some]; decide) (by simp only [List.map, ty_x, ty_y]; decide)
    (by decide) (fa_cons (pr_x [xs]) (fa_cons (pr_y [xs, xs] (by decide)) fa_nil))
theorem pr_exQ : Printable envW [xs] exQ = true :=
  pr_quant envW [xs] .exists_ (Or.inr rfl) [xs] eqXY binderOK_x ty_eqXY pr_eqXY
theorem pr_orQ : Printable envW [xs] orQ = true :=
  pr_node envW [xs] .or _ _ .bool (by decide) (by decide)
    (by simp only [List.map, tyD, ty_leXY, ty_exQ, Option.getD_some]; decide)
    (by simp only [List.map, ty_leXY, ty_exQ]; decide)
    (by decide) (fa_cons pr_leXY (fa_cons pr_exQ fa_nil))
theorem pr_tQ : Printable envW [] tQ = true :=
  pr_quant envW [] .forall_ (Or.inl rfl) [xs] orQ binderOK_x ty_orQ pr_orQ

theorem bindName_x : bindNameOK envW "x" = true := by decide +kernel
theorem parseOK_tQ : parseOK envW ρW tQ = true := by
  have h := bindName_x
  simp [tQ, orQ, exQ, leXY, eqXY, Term.mkForall, Term.mkExists, Term.sym, parseOK, parseNodeOK, xs, Sym.var, ρW,
    List.lookup] at h ⊢
  exact h
theorem mgrNormal_tQ : mgrNormal tQ = true := by
  simp [tQ, orQ, exQ, leXY, eqXY, Term.mkForall, Term.mkExists, Term.sym, mgrNormal, rootNorm]
theorem noAV_tQ : noAssignedAV tQ = true := by
  simp [tQ, orQ, exQ, leXY, eqXY, Term.mkForall, Term.mkExists, Term.sym, noAssignedAV]

/-- all hypotheses of `parse_print_id_penv` (and of `…_same_object`) hold for `tQ` -/
theorem hyps_tQ : envOK envW = true ∧ Printable envW [] tQ = true ∧ parseOK envW ρW tQ = true ∧ mgrNormal tQ = true ∧
    noAssignedAV tQ = true := ⟨envOK_W, pr_tQ, parseOK_tQ, mgrNormal_tQ, noAV_tQ⟩

/-- the quantified formula with shadowing is read back as the very same object -/
example : readTerm (penvOf envW) (toSexp tQ) = .ok (unfoldAV tQ) :=
  parse_print_id_penv envW envOK_W ρW tQ pr_tQ parseOK_tQ mgrNormal_tQ
example : readTerm (penvOf envW) (toSexp tQ) = .ok tQ :=
  parse_print_id_penv_same_object envW envOK_W ρW tQ pr_tQ parseOK_tQ mgrNormal_tQ noAV_tQ

/-! ### `tR`: negative rational and integer constants -/

def ltU : Term := .node .lt [Term.sym us, Term.real (-1/3 : Rat)] .none
def leY : Term := .node .le [Term.sym ys, Term.int (-5)] .none
/-- `(and (< u (- (/ 1 3))) (<= y (- 5)))` over the declared `u : Real`, `y : Int` -/
def tR : Term := .node .and [ltU, leY] .none

theorem ty_ltU : ltU.typeOf = some .bool := by rw [ltU, typeOf_node]; simp only [List.map, ty_u, ty_real]; decide
theorem ty_leY : leY.typeOf = some .bool := by rw [leY, typeOf_node]; simp only [List.map, ty_y, ty_int]; decide
theorem pr_ltU : Printable envW [] ltU = true :=
  pr_node envW [] .lt _ _ .bool (by decide) (by decide)
    (by simp only [List.map, tyD, ty_u, ty_real, Option.getD_some]; decide) (by simp only [List.map, ty_u, ty_real]; decide)
    (by simp [nodeOK]) (fa_cons pr_u (fa_cons (pr_real [] _) fa_nil))
theorem pr_leY : Printable envW [] leY = true :=
  pr_node envW [] .le _ _ .bool (by decide) (by decide)
    (by simp only [List.map, tyD, ty_y, ty_int, Option.getD_some]; decide) (by simp only [List.map, ty_y, ty_int]; decide)
    (by simp [nodeOK]) (fa_cons (pr_y [] (by decide)) (fa_cons (pr_int [] _) fa_nil))
theorem pr_tR : Printable envW [] tR = true :=
  pr_node envW [] .and _ _ .bool (by decide) (by decide)
    (by simp only [List.map, tyD, ty_ltU, ty_leY, Option.getD_some]; decide) (by simp only [List.map, ty_ltU, ty_leY]; decide)
    (by decide) (fa_cons pr_ltU (fa_cons pr_leY fa_nil))
theorem parseOK_tR : parseOK envW ρW tR = true := by
  simp [tR, ltU, leY, Term.sym, Term.int, Term.real, parseOK, parseNodeOK]
theorem mgrNormal_tR : mgrNormal tR = true := by
  simp [tR, ltU, leY, Term.sym, Term.int, Term.real, mgrNormal, rootNorm]
theorem noQuant_tR : noQuant tR = true := by
  simp [tR, ltU, leY, Term.sym, Term.int, Term.real, noQuant, Op.isQuantifier]
theorem noAV_tR : noAssignedAV tR = true := by
  simp [tR, ltU, leY, Term.sym, Term.int, Term.real, noAssignedAV]

/-- all hypotheses of the tree and DAG round-trip theorems (and of `…_same_object`) hold for `tR` -/
theorem hyps_tR : envOK envW = true ∧ defFree envW ∧ Printable envW [] tR = true ∧ parseOK envW ρW tR = true ∧
    mgrNormal tR = true ∧ noQuant tR = true ∧ noAssignedAV tR = true :=
  ⟨envOK_W, defFree_W, pr_tR, parseOK_tR, mgrNormal_tR, noQuant_tR, noAV_tR⟩

example : readTerm (penvOf envW) (toSexp tR) = .ok (unfoldAV tR) :=
  parse_print_id_penv envW envOK_W ρW tR pr_tR parseOK_tR mgrNormal_tR
/-- the constants `-1/3 : Real` and `-5 : Int`, printed `(- (/ 1 3))` and `(- 5)`, come back as the constants -/
example : readTerm (penvOf envW) (toSexp tR) = .ok tR :=
  parse_print_id_penv_same_object envW envOK_W ρW tR pr_tR parseOK_tR mgrNormal_tR noAV_tR
example : readTerm (penvOf envW) (toSexpDag tR) = .ok tR :=
  parse_printDag_id_same_object envW ρW (penvOf envW) (corr_penvOf envW envOK_W) (mgrLe_penvOf envW ρW) defFree_W tR
    pr_tR noQuant_tR parseOK_tR mgrNormal_tR noAV_tR

/-! ### `tB`: bit-vectors with `extract` and `rotate_left` -/

def exV : Term := .node .bvExtract [Term.sym vs] (.ints [4, 2, 5])
def c3 : Term := Term.bvc 3 4
def rolC : Term := .node .bvRol [c3] (.ints [4, 1])
/-- `(bvult ((_ extract 5 2) v) ((_ rotate_left 1) #b0011))` over the declared `v : (_ BitVec 8)` -/
def tB : Term := .node .bvUlt [exV, rolC] .none

theorem ty_c3 : c3.typeOf = some (.bv 4) := by rw [c3, Term.bvc, typeOf_node]; decide
theorem ty_exV : exV.typeOf = some (.bv 4) := by rw [exV, typeOf_node]; simp only [List.map, ty_v]; decide
theorem ty_rolC : rolC.typeOf = some (.bv 4) := by rw [rolC, typeOf_node]; simp only [List.map, ty_c3]; decide
theorem pr_c3 : Printable envW [] c3 = true :=
  pr_node envW [] .bvConst [] (.bv 3 4) (.bv 4) (by decide) (by decide) (by decide) (by decide) (by decide) fa_nil
theorem pr_exV : Printable envW [] exV = true :=
  pr_node envW [] .bvExtract _ _ (.bv 4) (by decide) (by decide)
    (by simp only [List.map, tyD, ty_v, Option.getD_some]; decide) (by simp only [List.map, ty_v]; decide)
    (by decide) (fa_cons pr_v fa_nil)
theorem pr_rolC : Printable envW [] rolC = true :=
  pr_node envW [] .bvRol _ _ (.bv 4) (by decide) (by decide)
    (by simp only [List.map, tyD, ty_c3, Option.getD_some]; decide) (by simp only [List.map, ty_c3]; decide)
    (by decide) (fa_cons pr_c3 fa_nil)
theorem pr_tB : Printable envW [] tB = true :=
  pr_node envW [] .bvUlt _ _ .bool (by decide) (by decide)
    (by simp only [List.map, tyD, ty_exV, ty_rolC, Option.getD_some]; decide)
    (by simp only [List.map, ty_exV, ty_rolC]; decide)
    (by decide) (fa_cons pr_exV (fa_cons pr_rolC fa_nil))
theorem parseOK_tB : parseOK envW ρW tB = true := by
  simp [tB, exV, rolC, c3, Term.sym, Term.bvc, parseOK, parseNodeOK]
theorem mgrNormal_tB : mgrNormal tB = true := by
  simp [tB, exV, rolC, c3, Term.sym, Term.bvc, mgrNormal, rootNorm]
theorem noQuant_tB : noQuant tB = true := by
  simp [tB, exV, rolC, c3, Term.sym, Term.bvc, noQuant, Op.isQuantifier]
theorem noAV_tB : noAssignedAV tB = true := by
  simp [tB, exV, rolC, c3, Term.sym, Term.bvc, noAssignedAV]

/-- all hypotheses of the tree and DAG round-trip theorems (and of `…_same_object`) hold for `tB` -/
theorem hyps_tB : envOK envW = true ∧ defFree envW ∧ Printable envW [] tB = true ∧ parseOK envW ρW tB = true ∧
    mgrNormal tB = true ∧ noQuant tB = true ∧ noAssignedAV tB = true :=
  ⟨envOK_W, defFree_W, pr_tB, parseOK_tB, mgrNormal_tB, noQuant_tB, noAV_tB⟩

example : readTerm (penvOf envW) (toSexp tB) = .ok (unfoldAV tB) :=
  parse_print_id_penv envW envOK_W ρW tB pr_tB parseOK_tB mgrNormal_tB
example : readTerm (penvOf envW) (toSexp tB) = .ok tB :=
  parse_print_id_penv_same_object envW envOK_W ρW tB pr_tB parseOK_tB mgrNormal_tB noAV_tB
example : readTerm (penvOf envW) (toSexpDag tB) = .ok tB :=
  parse_printDag_id_same_object envW ρW (penvOf envW) (corr_penvOf envW envOK_W) (mgrLe_penvOf envW ρW) defFree_W tB
    pr_tB noQuant_tB parseOK_tB mgrNormal_tB noAV_tB

/-! ### `tA`: an array value with two assignments, compared with a store -/

/-- `Array{Int, Int}(0)[3 := 4][1 := 2]` (the assignments in the order of the dictionary they were given in) -/
def avA : Term := .node .arrayValue [Term.int 0, Term.int 3, Term.int 4, Term.int 1, Term.int 2] (.ty .int)
def stA : Term := .node .arrayStore [Term.sym as, Term.sym ys, Term.int 5] .none
/-- `(= (store (store ((as const (Array Int Int)) 0) 1 2) 3 4) (store a y 5))` over the declared `a : (Array Int Int)`,
`y : Int` -/
def tA : Term := .node .equals [avA, stA] .none

theorem ty_avA : avA.typeOf = some (.array .int .int) := by
  rw [avA, typeOf_node]; simp only [List.map, ty_int]; decide
theorem ty_stA : stA.typeOf = some (.array .int .int) := by
  rw [stA, typeOf_node]; simp only [List.map, ty_a, ty_y, ty_int]; decide
theorem pr_avA : Printable envW [] avA = true :=
  pr_node envW [] .arrayValue _ _ (.array .int .int) (by decide) (by decide)
    (by simp only [List.map, tyD, ty_int, Option.getD_some]; decide) (by simp only [List.map, ty_int]; decide)
    (by simp only [nodeOK, ty_int]; decide)
    (fa_cons (pr_int [] _) (fa_cons (pr_int [] _) (fa_cons (pr_int [] _) (fa_cons (pr_int [] _) (fa_cons (pr_int [] _) fa_nil)))))
theorem pr_stA : Printable envW [] stA = true :=
  pr_node envW [] .arrayStore _ _ (.array .int .int) (by decide) (by decide)
    (by simp only [List.map, tyD, ty_a, ty_y, ty_int, Option.getD_some]; decide)
    (by simp only [List.map, ty_a, ty_y, ty_int]; decide)
    (by decide) (fa_cons pr_a (fa_cons (pr_y [] (by decide)) (fa_cons (pr_int [] _) fa_nil)))
theorem pr_tA : Printable envW [] tA = true :=
  pr_node envW [] .equals _ _ .bool (by decide) (by decide)
    (by simp only [List.map, tyD, ty_avA, ty_stA, Option.getD_some]; decide)
    (by simp only [List.map, ty_avA, ty_stA]; decide)
    (by decide) (fa_cons pr_avA (fa_cons pr_stA fa_nil))
theorem parseOK_tA : parseOK envW ρW tA = true := by
  simp [tA, avA, stA, Term.sym, Term.int, parseOK, parseNodeOK]
theorem mgrNormal_tA : mgrNormal tA = true := by
  simp [tA, avA, stA, Term.sym, Term.int, mgrNormal, rootNorm]
theorem noQuant_tA : noQuant tA = true := by
  simp [tA, avA, stA, Term.sym, Term.int, noQuant, Op.isQuantifier]
theorem avGuard_tA : avGuard tA = true := by
  simp [tA, avA, stA, Term.sym, Term.int, avGuard, pairsOf, constVal, Val.hasSort, pairwiseNe]
/-- `tA` does have an assigned array value: the `…_same_object` corollaries do not apply, the `…_meaning` ones do -/
theorem noAV_tA : noAssignedAV tA = false := by
  simp [tA, avA, stA, Term.sym, Term.int, noAssignedAV]

theorem hr3 : hrStr (Term.int 3) = "3" := by rw [Term.int, hrStr]; decide +kernel
theorem hr1 : hrStr (Term.int 1) = "1" := by rw [Term.int, hrStr]; decide +kernel
theorem unfoldAVw_int (b : Bool) (n : Int) : unfoldAVw b (Term.int n) = Term.int n :=
  unfoldAVw_id b _ (by simp [Term.int, noAssignedAV])
theorem unfoldAVw_avA (b : Bool) : unfoldAVw b avA =
    if b then .node .arrayStore [.node .arrayStore [.node .arrayValue [Term.int 0] (.ty .int), Term.int 1, Term.int 2] .none,
      Term.int 3, Term.int 4] .none
    else .node .arrayStore [.node .arrayStore [.node .arrayValue [Term.int 0] (.ty .int), Term.int 3, Term.int 4] .none,
      Term.int 1, Term.int 2] .none := by
  rw [avA]
  unfold unfoldAVw
  simp only [List.map_cons, List.map_nil, unfoldAVw_int]
  cases b <;> simp [pairsOf, sortBy, insertBy, hr3, hr1]
theorem unfoldAVw_stA (b : Bool) : unfoldAVw b stA = stA :=
  unfoldAVw_id b _ (by simp [stA, Term.sym, Term.int, noAssignedAV])
theorem unfoldAVw_tA (b : Bool) : unfoldAVw b tA = .node .equals [unfoldAVw b avA, stA] .none := by
  rw [tA]
  conv => lhs; unfold unfoldAVw
  simp only [List.map_cons, List.map_nil, unfoldAVw_stA]

/-- what comes back from the tree printer's text: the stores in the order of `str(key)` -/
theorem unfoldAV_tA : unfoldAV tA =
    .node .equals [.node .arrayStore [.node .arrayStore [.node .arrayValue [Term.int 0] (.ty .int), Term.int 1, Term.int 2] .none,
      Term.int 3, Term.int 4] .none, stA] .none := by
  rw [Printer.unfoldAV_eq, unfoldAVw_tA, unfoldAVw_avA]; rfl
/-- what comes back from the DAG printer's text: the stores in argument order -/
theorem unfoldAVw_false_tA : unfoldAVw false tA =
    .node .equals [.node .arrayStore [.node .arrayStore [.node .arrayValue [Term.int 0] (.ty .int), Term.int 3, Term.int 4] .none,
      Term.int 1, Term.int 2] .none, stA] .none := by
  rw [unfoldAVw_tA, unfoldAVw_avA]; rfl

/-- all hypotheses of the tree and DAG round-trip theorems (and of `…_meaning`) hold for `tA` -/
theorem hyps_tA : envOK envW = true ∧ defFree envW ∧ Printable envW [] tA = true ∧ parseOK envW ρW tA = true ∧
    mgrNormal tA = true ∧ noQuant tA = true ∧ avGuard tA = true :=
  ⟨envOK_W, defFree_W, pr_tA, parseOK_tA, mgrNormal_tA, noQuant_tA, avGuard_tA⟩

example : readTerm (penvOf envW) (toSexp tA) = .ok (unfoldAV tA) :=
  parse_print_id_penv envW envOK_W ρW tA pr_tA parseOK_tA mgrNormal_tA
/-- the array-value literal comes back as the chain of stores … -/
example : readTerm (penvOf envW) (toSexp tA) =
    .ok (.node .equals [.node .arrayStore [.node .arrayStore [.node .arrayValue [Term.int 0] (.ty .int), Term.int 1, Term.int 2] .none,
      Term.int 3, Term.int 4] .none, stA] .none) := by
  rw [← unfoldAV_tA]; exact parse_print_id_penv envW envOK_W ρW tA pr_tA parseOK_tA mgrNormal_tA
/-- … which has the value of `tA` in every interpretation -/
example : ∃ t', readTerm (penvOf envW) (toSexp tA) = .ok t' ∧ ∀ I, eval I t' = eval I tA :=
  parse_print_id_meaning envW ρW (penvOf envW) (corr_penvOf envW envOK_W) (mgrLe_penvOf envW ρW) tA pr_tA parseOK_tA
    mgrNormal_tA avGuard_tA
example : readTerm (penvOf envW) (toSexpDag tA) = .ok (unfoldAVw false tA) :=
  parse_printDag_id envW ρW (penvOf envW) (corr_penvOf envW envOK_W) (mgrLe_penvOf envW ρW) defFree_W tA
    pr_tA noQuant_tA parseOK_tA mgrNormal_tA
/-- the DAG printer's text comes back as the stores in argument order … -/
example : readTerm (penvOf envW) (toSexpDag tA) =
    .ok (.node .equals [.node .arrayStore [.node .arrayStore [.node .arrayValue [Term.int 0] (.ty .int), Term.int 3, Term.int 4] .none,
      Term.int 1, Term.int 2] .none, stA] .none) := by
  rw [← unfoldAVw_false_tA]
  exact parse_printDag_id envW ρW (penvOf envW) (corr_penvOf envW envOK_W) (mgrLe_penvOf envW ρW) defFree_W tA
    pr_tA noQuant_tA parseOK_tA mgrNormal_tA
/-- … which again has the value of `tA` -/
example : ∃ t', readTerm (penvOf envW) (toSexpDag tA) = .ok t' ∧ ∀ I, eval I t' = eval I tA :=
  parse_printDag_id_meaning envW ρW (penvOf envW) (corr_penvOf envW envOK_W) (mgrLe_penvOf envW ρW) defFree_W tA
    pr_tA noQuant_tA parseOK_tA mgrNormal_tA avGuard_tA

end Wit

end PySMT.Parser.Agree
