import PySMT.Proofs.C10Subst
/-!
# C10 — Shannon expansion: `shannon_equiv`, `shannon_qf`
-/
namespace PySMT.Rewritings

/-! ## the power set enumerates every sub-list -/

theorem combinations_zero {α} (l : List α) : combinations l 0 = [[]] := by
  cases l <;> rfl

theorem sublist_mem_combinations {α} {S l : List α} (h : S.Sublist l) : S ∈ combinations l S.length := by
  induction h with
  | slnil => simp [combinations]
  | @cons S l a _ ih =>
    cases S with
    | nil => rw [List.length_nil, combinations_zero]; simp
    | cons x S =>
      simp only [List.length_cons, combinations, List.mem_append, List.mem_map]
      exact .inr ih
  | @cons_cons S l a _ ih =>
    simp only [List.length_cons, combinations, List.mem_append, List.mem_map]
    exact .inl ⟨S, ih, rfl⟩

theorem filter_mem_powerset {α} (f : α → Bool) (l : List α) : l.filter f ∈ powerset l := by
  unfold powerset
  rw [List.mem_flatMap]
  refine ⟨(l.filter f).length, ?_, sublist_mem_combinations List.filter_sublist⟩
  rw [List.mem_range]
  exact Nat.lt_succ_of_le (List.length_filter_le f l)

/-! ## Boolean binders as quantification over Boolean functions -/

/-- the Boolean quantification domain is exact: both truth values are in it -/
def BoolExact (I : Interp) : Prop := Val.b true ∈ I.dom .bool ∧ Val.b false ∈ I.dom .bool

/-- `I` with the symbols `vs` interpreted by the Boolean function `f` -/
def updF (I : Interp) (f : Sym → Bool) (vs : List Sym) : Interp :=
  { I with sym := fun s => if vs.contains s then .b (f s) else I.sym s }

theorem updF_wf {I : Interp} (hI : I.WF) (f : Sym → Bool) {vs : List Sym} (hvs : ∀ v ∈ vs, v.ret = .bool) :
    (updF I f vs).WF := by
  refine ⟨fun s => ?_, hI.fn, hI.dom_ne, hI.dom_sort⟩
  simp only [updF]
  split
  · next h => rw [hvs s (by simpa using h)]; rfl
  · exact hI.sym s

theorem updF_nil (I : Interp) (f : Sym → Bool) : updF I f [] = I := rfl

theorem updF_bind_self (I : Interp) (f : Sym → Bool) (v : Sym) (vs : List Sym) :
    updF (I.bind v (.b (f v))) f vs = updF I f (v :: vs) := by
  simp only [updF, Interp.bind]
  congr 1
  funext s
  simp only [List.contains_cons, List.contains_eq_mem, Bool.or_eq_true, beq_iff_eq, decide_eq_true_eq]
  by_cases h1 : s ∈ vs <;> by_cases h2 : s = v <;> simp [h1, h2] <;> (try subst h2) <;> simp_all

theorem updF_bind_other (I : Interp) (f : Sym → Bool) (bb : Bool) (v : Sym) (vs : List Sym) :
    updF (I.bind v (.b bb)) f vs = updF I (fun s => if vs.contains s then f s else bb) (v :: vs) := by
  simp only [updF, Interp.bind]
  congr 1
  funext s
  simp only [List.contains_cons, List.contains_eq_mem, Bool.or_eq_true, beq_iff_eq, decide_eq_true_eq]
  by_cases h1 : s ∈ vs <;> by_cases h2 : s = v <;> simp [h1, h2] <;> (try subst h2) <;> simp_all

theorem dom_bool_forall {I : Interp} (hI : I.WF) (hx : BoolExact I) (P : Val → Prop) :
    (∀ x ∈ I.dom .bool, P x) ↔ ∀ bb : Bool, P (.b bb) := by
  constructor
  · intro h bb
    cases bb
    · exact h _ hx.2
    · exact h _ hx.1
  · intro h x hxd
    obtain ⟨bb, rfl⟩ := Val.hasSort_bool (hI.dom_sort _ x hxd)
    exact h bb

theorem dom_bool_exists {I : Interp} (hI : I.WF) (hx : BoolExact I) (P : Val → Prop) :
    (∃ x ∈ I.dom .bool, P x) ↔ ∃ bb : Bool, P (.b bb) := by
  constructor
  · rintro ⟨x, hxd, hp⟩
    obtain ⟨bb, rfl⟩ := Val.hasSort_bool (hI.dom_sort _ x hxd)
    exact ⟨bb, hp⟩
  · rintro ⟨bb, hp⟩
    cases bb
    · exact ⟨_, hx.2, hp⟩
    · exact ⟨_, hx.1, hp⟩

theorem bind_bool_wf {I : Interp} (hI : I.WF) {v : Sym} (hv : v.ret = .bool) (bb : Bool) :
    (I.bind v (.b bb)).WF := hI.bind v _ (by rw [hv]; rfl)

theorem quant_true_iff (k : Interp → Bool) : ∀ (vs : List Sym) (I : Interp), I.WF → BoolExact I →
    (∀ v ∈ vs, v.ret = .bool) → (I.quant true vs k = true ↔ ∀ f : Sym → Bool, k (updF I f vs) = true)
  | [], I, _, _, _ => by simp [Interp.quant, updF_nil]
  | v :: vs, I, hI, hx, hvs => by
    have hv : v.ret = .bool := hvs v (by simp)
    have hvs' : ∀ w ∈ vs, w.ret = .bool := fun w hw => hvs w (by simp [hw])
    simp only [Interp.quant, if_true, List.all_eq_true, hv]
    rw [dom_bool_forall hI hx (fun x => (I.bind v x).quant true vs k = true)]
    constructor
    · intro h f
      have := (quant_true_iff k vs _ (bind_bool_wf hI hv (f v)) hx hvs').mp (h (f v)) f
      rwa [updF_bind_self] at this
    · intro h bb
      rw [quant_true_iff k vs _ (bind_bool_wf hI hv bb) hx hvs']
      intro f
      rw [updF_bind_other]
      exact h _

theorem quant_false_iff (k : Interp → Bool) : ∀ (vs : List Sym) (I : Interp), I.WF → BoolExact I →
    (∀ v ∈ vs, v.ret = .bool) → (I.quant false vs k = true ↔ ∃ f : Sym → Bool, k (updF I f vs) = true)
  | [], I, _, _, _ => by simp [Interp.quant, updF_nil]
  | v :: vs, I, hI, hx, hvs => by
    have hv : v.ret = .bool := hvs v (by simp)
    have hvs' : ∀ w ∈ vs, w.ret = .bool := fun w hw => hvs w (by simp [hw])
    simp only [Interp.quant, Bool.false_eq_true, if_false, List.any_eq_true, hv]
    rw [dom_bool_exists hI hx (fun x => (I.bind v x).quant false vs k = true)]
    constructor
    · rintro ⟨bb, h⟩
      obtain ⟨f, hf⟩ := (quant_false_iff k vs _ (bind_bool_wf hI hv bb) hx hvs').mp h
      rw [updF_bind_other] at hf
      exact ⟨_, hf⟩
    · rintro ⟨f, hf⟩
      refine ⟨f v, ?_⟩
      rw [quant_false_iff k vs _ (bind_bool_wf hI hv (f v)) hx hvs']
      exact ⟨f, by rw [updF_bind_self]; exact hf⟩

/-! ## the assignments -/

/-- the substitution map of the assignment "exactly the variables in `S` are true" -/
def asg (vs S : List Sym) : List (Term × Term) :=
  vs.map (fun v => (Term.sym v, Term.bool (S.contains v)))

theorem allAssignments_eq (vs : List Sym) : allAssignments vs = (powerset vs).map (asg vs) := rfl

theorem sym_beq (v s : Sym) : (Term.sym v == Term.sym s) = (v == s) := by
  by_cases h : v = s
  · subst h; simp
  · have : Term.sym v ≠ Term.sym s := fun e => h (sym_inj e)
    rw [beq_eq_false_iff_ne.mpr this, beq_eq_false_iff_ne.mpr h]

theorem lookupT_map_sym (g : Sym → Term) (s : Sym) : ∀ vs : List Sym,
    lookupT (vs.map (fun v => (Term.sym v, g v))) (Term.sym s) = if vs.contains s then some (g s) else none
  | [] => rfl
  | v :: vs => by
    have ih := lookupT_map_sym g s vs
    unfold lookupT at ih ⊢
    simp only [List.map_cons, List.find?_cons, sym_beq, List.contains_cons]
    by_cases h : v = s
    · subst h
      simp only [beq_self_eq_true, Option.map_some, Bool.true_or, if_true]
    · have h1 : (v == s) = false := beq_eq_false_iff_ne.mpr h
      have h2 : (s == v) = false := beq_eq_false_iff_ne.mpr (Ne.symm h)
      simp only [h1, h2, Bool.false_or]
      exact ih

theorem wb_bool (b : Bool) : WB (Term.bool b) :=
  ⟨Term.wf_node.mpr ⟨by simp, rfl, rfl⟩, by rw [Term.bool, typeOf_node]; rfl⟩

theorem eval_bool (I : Interp) (b : Bool) : eval I (Term.bool b) = .b b := by
  rw [Term.bool, eval_plain I _ _ _ (by decide) (by decide) rfl]; rfl

theorem asg_ok {vs : List Sym} (hvs : ∀ v ∈ vs, v.ret = .bool ∧ v.params = []) (S : List Sym) :
    SubOK (asg vs S) ∧ ∀ kv ∈ asg vs S, kv.2.isQF = true := by
  constructor
  · intro kv hkv
    obtain ⟨v, hv, rfl⟩ := List.mem_map.mp hkv
    exact ⟨v, rfl, (hvs v hv).2, (wb_bool _).1, by rw [(wb_bool _).2, (hvs v hv).1]⟩
  · intro kv hkv
    obtain ⟨v, hv, rfl⟩ := List.mem_map.mp hkv
    exact isQF_bool _

theorem updT_asg (I : Interp) (vs S : List Sym) : updT I (asg vs S) = updF I (fun s => S.contains s) vs := by
  simp only [updT, updF, asg]
  congr 1
  funext s
  rw [lookupT_map_sym]
  by_cases h : s ∈ vs <;> simp [h, eval_bool]

theorem updF_congr (I : Interp) {f g : Sym → Bool} {vs : List Sym} (h : ∀ v ∈ vs, f v = g v) :
    updF I f vs = updF I g vs := by
  simp only [updF]
  congr 1
  funext s
  split
  · next hs => rw [h s (by simpa using hs)]
  · rfl

/-! ## the main induction -/

theorem boolQuants_node (op : Op) (args : List Term) (p : Payload) :
    boolQuants (.node op args p) =
      ((args.map boolQuants).all id &&
        (match op, p with
         | .forall_, .qvars vs => vs.all (fun v => v.ret == .bool && v.params.isEmpty)
         | .exists_, .qvars vs => vs.all (fun v => v.ret == .bool && v.params.isEmpty)
         | _, _ => true)) := by
  rw [boolQuants.eq_def]
  rfl

theorem boolQuants_child {op : Op} {args : List Term} {p : Payload} (h : boolQuants (.node op args p) = true) :
    ∀ a ∈ args, boolQuants a = true := by
  intro a ha
  rw [boolQuants_node] at h
  simp only [Bool.and_eq_true, List.all_eq_true, List.mem_map] at h
  exact h.1 _ ⟨a, ha, rfl⟩

theorem boolQuants_vars {op : Op} (hop : op = .forall_ ∨ op = .exists_) {args : List Term} {vs : List Sym}
    (h : boolQuants (.node op args (.qvars vs)) = true) : ∀ v ∈ vs, v.ret = .bool ∧ v.params = [] := by
  intro v hv
  rw [boolQuants_node] at h
  simp only [Bool.and_eq_true] at h
  have h2 := h.2
  rcases hop with rfl | rfl <;>
  · simp only [List.all_eq_true, Bool.and_eq_true, beq_iff_eq, List.isEmpty_iff] at h2
    exact h2 v hv

/-- the Shannon expansion of a Boolean binder denotes the binder -/
theorem expand_spec {vs : List Sym} {b b' : Term} (hvs : ∀ v ∈ vs, v.ret = .bool ∧ v.params = [])
    (hb : WB b) (hb' : WB b') (hqf : b'.isQF = true)
    (heq : ∀ I : Interp, I.WF → BoolExact I → eval I b' = eval I b) :
    (∀ x ∈ (allAssignments vs).map (fun σ => substT σ b'), WB x ∧ x.isQF = true) ∧
    ∀ I : Interp, I.WF → BoolExact I → ∀ all : Bool,
      ((allAssignments vs).map (fun σ => substT σ b')).all (truth I) = true ↔
        ∀ f : Sym → Bool, truth (updF I f vs) b = true := by
  have hvr : ∀ v ∈ vs, v.ret = .bool := fun v hv => (hvs v hv).1
  have key : ∀ S : List Sym, (WB (substT (asg vs S) b') ∧ (substT (asg vs S) b').isQF = true) ∧
      ∀ I : Interp, I.WF → BoolExact I →
        truth I (substT (asg vs S) b') = truth (updF I (fun s => S.contains s) vs) b := by
    intro S
    have ho := asg_ok hvs S
    have hs := substT_spec ho.1 b' hb'.1 hqf
    refine ⟨⟨⟨hs.1.1, by rw [hs.1.2]; exact hb'.2⟩, hs.2.1 ho.2⟩, fun I hI hx => ?_⟩
    simp only [truth]
    rw [hs.2.2 I hI, updT_asg, heq _ (updF_wf hI _ hvr) hx]
  constructor
  · intro x hx
    rw [allAssignments_eq, List.map_map] at hx
    obtain ⟨S, _, rfl⟩ := List.mem_map.mp hx
    exact (key S).1
  · intro I hI hx _
    rw [allAssignments_eq, List.map_map, List.all_map, List.all_eq_true]
    constructor
    · intro h f
      have := h _ (filter_mem_powerset f vs)
      simp only [Function.comp] at this
      rw [(key _).2 I hI hx] at this
      rw [← this]
      congr 1
      apply updF_congr
      intro v hv
      by_cases hf : f v = true
      · simp [hf, hv]
      · simp [hf]
    · intro h S _
      simp only [Function.comp]
      rw [(key S).2 I hI hx]
      exact h _

theorem shannon_spec : (t : Term) → t.wf = true → boolQuants t = true →
    ((shannon t).wf = true ∧ (shannon t).typeOf = t.typeOf) ∧ (shannon t).isQF = true ∧
    ∀ I : Interp, I.WF → BoolExact I → eval I (shannon t) = eval I t
  | .node op args p => fun hwf hbq => by
    have hchwf := (Term.wf_node.mp hwf).1
    have ih : ∀ a ∈ args, ((shannon a).wf = true ∧ (shannon a).typeOf = a.typeOf) ∧ (shannon a).isQF = true ∧
        ∀ I : Interp, I.WF → BoolExact I → eval I (shannon a) = eval I a :=
      fun a ha => shannon_spec a (hchwf a ha) (boolQuants_child hbq a ha)
    by_cases hq : op.isQuantifier = true
    · cases op <;> simp [Op.isQuantifier] at hq
      case forall_ =>
        obtain ⟨b, vs, rfl, rfl⟩ := wf_quant_args (.inl rfl) hwf
        have hvs := boolQuants_vars (.inl rfl) hbq
        have hty : (Term.node .forall_ [b] (.qvars vs)).typeOf = some .bool := by
          rw [typeOf_node]
          have := typeOfNode_forall (Term.wt_typeOf (Term.wf_wt _ hwf))
          rw [this]; rfl
        have hb : WB b := (wb_forall b vs).mp ⟨hwf, hty⟩
        have hb1 := ih b (by simp)
        have hb' : WB (shannon b) := ⟨hb1.1.1, by rw [hb1.1.2]; exact hb.2⟩
        have he := expand_spec hvs hb hb' hb1.2.1 hb1.2.2
        simp only [shannon]
        have hw : ∀ x ∈ (allAssignments vs).map (fun σ => substT σ (shannon b)), WB x := fun x hx => (he.1 x hx).1
        refine ⟨⟨(wb_mkAnd hw).1, by rw [(wb_mkAnd hw).2, hty]⟩, isQF_mkAnd (fun x hx => (he.1 x hx).2), fun I hI hx => ?_⟩
        rw [eval_mkAnd hI hw, eval_forall']
        congr 1
        rw [Bool.eq_iff_iff, he.2 I hI hx true, quant_true_iff _ vs I hI hx (fun v hv => (hvs v hv).1)]
      case exists_ =>
        obtain ⟨b, vs, rfl, rfl⟩ := wf_quant_args (.inr rfl) hwf
        have hvs := boolQuants_vars (.inr rfl) hbq
        have hty : (Term.node .exists_ [b] (.qvars vs)).typeOf = some .bool := by
          rw [typeOf_node]
          have := typeOfNode_exists (Term.wt_typeOf (Term.wf_wt _ hwf))
          rw [this]; rfl
        have hb : WB b := (wb_exists b vs).mp ⟨hwf, hty⟩
        have hb1 := ih b (by simp)
        have hb' : WB (shannon b) := ⟨hb1.1.1, by rw [hb1.1.2]; exact hb.2⟩
        -- ∃ as the dual of ∀ on the negated body would need more; prove directly
        have hvr : ∀ v ∈ vs, v.ret = .bool := fun v hv => (hvs v hv).1
        have key : ∀ S : List Sym, (WB (substT (asg vs S) (shannon b)) ∧ (substT (asg vs S) (shannon b)).isQF = true) ∧
            ∀ I : Interp, I.WF → BoolExact I →
              truth I (substT (asg vs S) (shannon b)) = truth (updF I (fun s => S.contains s) vs) b := by
          intro S
          have ho := asg_ok hvs S
          have hs := substT_spec ho.1 (shannon b) hb'.1 hb1.2.1
          refine ⟨⟨⟨hs.1.1, by rw [hs.1.2]; exact hb'.2⟩, hs.2.1 ho.2⟩, fun I hI hx => ?_⟩
          simp only [truth]
          rw [hs.2.2 I hI, updT_asg, hb1.2.2 _ (updF_wf hI _ hvr) hx]
        have hall : ∀ x ∈ (allAssignments vs).map (fun σ => substT σ (shannon b)), WB x ∧ x.isQF = true := by
          intro x hx
          rw [allAssignments_eq, List.map_map] at hx
          obtain ⟨S, _, rfl⟩ := List.mem_map.mp hx
          exact (key S).1
        simp only [shannon]
        have hw : ∀ x ∈ (allAssignments vs).map (fun σ => substT σ (shannon b)), WB x := fun x hx => (hall x hx).1
        refine ⟨⟨(wb_mkOr hw).1, by rw [(wb_mkOr hw).2, hty]⟩, isQF_mkOr (fun x hx => (hall x hx).2), fun I hI hx => ?_⟩
        rw [eval_mkOr hI hw, eval_exists']
        congr 1
        rw [Bool.eq_iff_iff, quant_false_iff _ vs I hI hx hvr, allAssignments_eq, List.map_map, List.any_map,
          List.any_eq_true]
        constructor
        · rintro ⟨S, _, h⟩
          simp only [Function.comp] at h
          rw [(key S).2 I hI hx] at h
          exact ⟨_, h⟩
        · rintro ⟨f, hf⟩
          refine ⟨vs.filter f, filter_mem_powerset f vs, ?_⟩
          simp only [Function.comp]
          rw [(key _).2 I hI hx, ← hf]
          congr 1
          apply updF_congr
          intro v hv
          by_cases hfv : f v = true
          · simp [hfv, hv]
          · simp [hfv]
    · have hq' : op.isQuantifier = false := by simpa using hq
      have hsh : shannon (.node op args p) = rebuild op (args.map shannon) p := by
        unfold shannon
        split <;> simp_all [Op.isQuantifier]
      rw [hsh]
      have hs : SameSorts shannon args := fun a ha => (ih a ha).1
      refine ⟨rebuild_wf hq' hwf hs, rebuild_qf hq' hwf (fun a ha => (ih a ha).2.1), fun I hI hx => ?_⟩
      by_cases hsym : op = .symbol
      · subst hsym
        have hargs := Term.wt_symbol_args (Term.wf_wt _ hwf)
        subst hargs
        rw [List.map_nil, rebuild_plain rfl]
      · exact rebuild_eval hq' hsym hwf hs hI hI rfl rfl rfl (fun a ha => (ih a ha).2.2 I hI hx)

end PySMT.Rewritings
