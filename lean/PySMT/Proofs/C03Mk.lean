import PySMT.Impl.Mk
import PySMT.Proofs.C03Tree
import PySMT.Proofs.BuildAgree
/-!
# C03 — the public constructors (`Impl/Mk.lean`) return terms that are `wt` and outside F06

`Good t := t.wt ∧ t.noF06`. One generic lemma over `Mk.create` (`create_good`), then the
constructors family by family: whenever a constructor returns `t` on `Good` arguments, `t`
is `Good` — hence (Props) well-sorted with the reported type.
-/
namespace PySMT
namespace C03
open Spec CreateNode

/-- what the constructors guarantee at a node beyond sorts, arity and payload shape (`nodeOk`):
no `pow`/algebraic node (outside the semantics), no `Not` under `Not`, no `ToReal` of an integer
constant, no division by a non-zero real constant (`Div` rewrites it to a product), bit-vector
constants in range, array values that are dictionaries (keys pairwise distinct, no default-valued
pair) with constant keys (index sorts that are not array sorts) -/
def nodeE (op : Op) (p : Payload) (args : List Term) : Bool :=
  match op with
  | .pow | .algebraicConst => false
  | .not => (match args with | [a] => a.op != .not | _ => true)
  | .toReal => (match args with | [a] => a.op != .intConst | _ => true)
  | .div => (match args with | [_, b] => !(b.op == .realConst && b != .real 0) | _ => true)
  | .bvConst => (match p with | .bv v w => decide (v < 2 ^ w) | _ => true)
  | .arrayValue =>
    (match args with
     | d :: rest =>
       decide (rest = Build.unpairs ((Build.pyDict (Build.pairsOf rest)).filter (fun kv => kv.2 ≠ d))) &&
         (Build.pairsOf rest).all (fun kv => kv.1.op.isConstant)
     | [] => true)
  | _ => true

/-- `nodeE` at every node -/
def allE : Term → Bool
  | .node op args p => (args.map allE).all id && nodeE op p args

theorem allE_node (op : Op) (args : List Term) (p : Payload) :
    allE (.node op args p) = true ↔ (∀ a ∈ args, allE a = true) ∧ nodeE op p args = true := by
  rw [allE.eq_def]
  simp only [Bool.and_eq_true, List.all_eq_true, List.mem_map, id]
  constructor
  · rintro ⟨h1, h2⟩; exact ⟨fun a ha => h1 _ ⟨a, ha, rfl⟩, h2⟩
  · rintro ⟨h1, h2⟩
    refine ⟨?_, h2⟩
    rintro _ ⟨a, ha, rfl⟩
    exact h1 a ha

/-- the operators on which `nodeE` asks nothing -/
def eTrivial : Op → Bool
  | .pow | .algebraicConst | .not | .toReal | .div | .bvConst | .arrayValue => false
  | _ => true

theorem nodeE_trivial {op : Op} (h : eTrivial op = true) (p : Payload) (args : List Term) : nodeE op p args = true := by
  cases op <;> first | rfl | cases h

/-- accepted by the checker at every node, outside the holes of F06, and of the shape the
constructors give (`allE`) -/
def Good (t : Term) : Prop := t.wt = true ∧ t.noF06 = true ∧ allE t = true

theorem create_inv' {op : Op} {args : List Term} {p : Payload} {t : Term} (h : Mk.create op args p = .ok t) :
    t = .node op args p ∧ (typeOfNode op p (args.map Term.typeOf)).isSome = true := by
  unfold Mk.create at h
  split at h
  · next hs => exact ⟨(Except.ok.inj h).symm, hs⟩
  · cases h

/-- the sorts of a list of accepted arguments -/
theorem arg_sorts (args : List Term) (h : ∀ a ∈ args, a.wt = true) :
    ∃ σs : List Ty, args.map Term.typeOf = σs.map some ∧ args.filterMap Term.typeOf = σs ∧ σs.length = args.length := by
  obtain ⟨σs, hs⟩ := all_some_eq_map (args.map Term.typeOf) (by
    intro x hx
    obtain ⟨a, ha, rfl⟩ := List.mem_map.1 hx
    exact wt_typeOf_isSome a (h a ha))
  refine ⟨σs, hs, filterMap_of_map_some args σs hs, ?_⟩
  have := congrArg List.length hs
  simpa using this.symm

/-- **Generic lemma.** A node `create` returns over `Good` arguments is `Good` as soon as the
node itself is outside the holes. -/
theorem create_good {op : Op} {args : List Term} {p : Payload} {t : Term}
    (h : Mk.create op args p = .ok t) (hargs : ∀ a ∈ args, Good a)
    (hok : ∀ σs : List Ty, σs.length = args.length → args.map Term.typeOf = σs.map some → nodeOk op p σs = true)
    (hE : nodeE op p args = true) :
    Good t := by
  obtain ⟨rfl, hs⟩ := create_inv' h
  obtain ⟨σs, hm, hf, hl⟩ := arg_sorts args (fun a ha => (hargs a ha).1)
  refine ⟨(wt_node op args p).2 ⟨fun a ha => (hargs a ha).1, hs⟩, ?_, ?_⟩
  · refine (noF06_node op args p).2 ⟨fun a ha => (hargs a ha).2.1, ?_⟩
    rw [hf]; exact hok σs hl hm
  · exact (allE_node op args p).2 ⟨fun a ha => (hargs a ha).2.2, hE⟩

/-- operators whose payload carries nothing and whose rule has no sort hole -/
def simpleOp : Op → Bool
  | .boolConst | .intConst | .realConst | .strConst | .forall_ | .exists_
  | .bvNot | .bvNeg | .bvAnd | .bvOr | .bvXor | .bvAdd | .bvSub | .bvMul | .bvUdiv | .bvUrem | .bvLshl | .bvLshr
  | .bvSdiv | .bvSrem | .bvAshr | .bvConcat | .bvComp | .bvExtract | .bvZext | .bvSext | .pow => false
  | _ => true

theorem nodeOk_simple {op : Op} (hs : simpleOp op = true) (p : Payload) (σs : List Ty)
    (ha : arityOk op σs.length = true) : nodeOk op p σs = true := by
  cases op <;> simp [simpleOp] at hs <;> simp [nodeOk, payloadOk, sortsOk, ha]

theorem create_simple_good {op : Op} {args : List Term} {p : Payload} {t : Term} (hs : simpleOp op = true)
    (he : eTrivial op = true)
    (ha : arityOk op args.length = true) (h : Mk.create op args p = .ok t) (hargs : ∀ a ∈ args, Good a) :
    Good t :=
  create_good h hargs (fun σs hl _ => nodeOk_simple hs p σs (by rw [hl]; exact ha)) (nodeE_trivial he p args)

theorem good2 {a b : Term} (ha : Good a) (hb : Good b) : ∀ x ∈ [a, b], Good x := by
  intro x hx; simp at hx; rcases hx with rfl | rfl <;> assumption
theorem good1 {a : Term} (ha : Good a) : ∀ x ∈ [a], Good x := by
  intro x hx; simp at hx; subst hx; exact ha
theorem good3 {a b c : Term} (ha : Good a) (hb : Good b) (hc : Good c) : ∀ x ∈ [a, b, c], Good x := by
  intro x hx; simp at hx; rcases hx with rfl | rfl | rfl <;> assumption

/-! ## constants and symbols -/

theorem good_leaf {op : Op} {p : Payload} (h1 : (typeOfNode op p []).isSome = true) (h2 : nodeOk op p [] = true)
    (h3 : nodeE op p [] = true) : Good (.node op [] p) :=
  ⟨(wt_node op [] p).2 ⟨by simp, h1⟩, (noF06_node op [] p).2 ⟨by simp, h2⟩, (allE_node op [] p).2 ⟨by simp, h3⟩⟩

theorem BoolC_good (v : Bool) : Good (Mk.BoolC v) := good_leaf rfl rfl rfl
theorem IntC_good (n : Int) : Good (Mk.IntC n) := good_leaf rfl rfl rfl
theorem RealC_good (q : Rat) : Good (Mk.RealC q) := good_leaf rfl rfl rfl
theorem StringC_good (s : String) : Good (Mk.StringC s) := good_leaf rfl rfl rfl
theorem bvc_good (v w : Nat) (h : v < 2 ^ w) : Good (Term.bvc v w) :=
  good_leaf rfl rfl (by simp [nodeE, h])
theorem sym_good (s : Sym) (h : s.params = []) : Good (Term.sym s) := by
  refine good_leaf ?_ rfl rfl
  show (if s.params.isEmpty then some s.ret else none).isSome = true
  simp [h]

theorem BV_good {v : Int} {w : Nat} {t : Term} (h : Mk.BV v w = .ok t) : Good t := by
  unfold Mk.BV at h
  split at h; · cases h
  split at h; · cases h
  next hneg =>
  split at h; · cases h
  next hlt =>
  cases h
  refine bvc_good _ _ ?_
  have h0 : 0 ≤ v := by omega
  have : ((v.toNat : Nat) : Int) < ((2 ^ w : Nat) : Int) := by
    rw [Int.toNat_of_nonneg h0]; push_cast; omega
  exact_mod_cast this

/-! ## primitive constructors of fixed arity without payload -/

theorem Implies_good {l r t} (h : Mk.Implies l r = .ok t) (hl : Good l) (hr : Good r) : Good t :=
  create_simple_good rfl rfl rfl h (good2 hl hr)
theorem Iff_good {l r t} (h : Mk.Iff l r = .ok t) (hl : Good l) (hr : Good r) : Good t :=
  create_simple_good rfl rfl rfl h (good2 hl hr)
theorem Minus_good {l r t} (h : Mk.Minus l r = .ok t) (hl : Good l) (hr : Good r) : Good t :=
  create_simple_good rfl rfl rfl h (good2 hl hr)
theorem Equals_good {l r t} (h : Mk.Equals l r = .ok t) (hl : Good l) (hr : Good r) : Good t :=
  create_simple_good rfl rfl rfl h (good2 hl hr)
theorem LE_good {l r t} (h : Mk.LE l r = .ok t) (hl : Good l) (hr : Good r) : Good t :=
  create_simple_good rfl rfl rfl h (good2 hl hr)
theorem LT_good {l r t} (h : Mk.LT l r = .ok t) (hl : Good l) (hr : Good r) : Good t :=
  create_simple_good rfl rfl rfl h (good2 hl hr)
theorem GE_good {l r t} (h : Mk.GE l r = .ok t) (hl : Good l) (hr : Good r) : Good t :=
  create_simple_good rfl rfl rfl h (good2 hr hl)
theorem GT_good {l r t} (h : Mk.GT l r = .ok t) (hl : Good l) (hr : Good r) : Good t :=
  create_simple_good rfl rfl rfl h (good2 hr hl)
theorem Ite_good {c l r t} (h : Mk.Ite c l r = .ok t) (hc : Good c) (hl : Good l) (hr : Good r) : Good t :=
  create_simple_good rfl rfl rfl h (good3 hc hl hr)
theorem BVULT_good {l r t} (h : Mk.BVULT l r = .ok t) (hl : Good l) (hr : Good r) : Good t :=
  create_simple_good rfl rfl rfl h (good2 hl hr)
theorem BVULE_good {l r t} (h : Mk.BVULE l r = .ok t) (hl : Good l) (hr : Good r) : Good t :=
  create_simple_good rfl rfl rfl h (good2 hl hr)
theorem BVSLT_good {l r t} (h : Mk.BVSLT l r = .ok t) (hl : Good l) (hr : Good r) : Good t :=
  create_simple_good rfl rfl rfl h (good2 hl hr)
theorem BVSLE_good {l r t} (h : Mk.BVSLE l r = .ok t) (hl : Good l) (hr : Good r) : Good t :=
  create_simple_good rfl rfl rfl h (good2 hl hr)
theorem BVUGT_good {l r t} (h : Mk.BVUGT l r = .ok t) (hl : Good l) (hr : Good r) : Good t :=
  create_simple_good rfl rfl rfl h (good2 hr hl)
theorem BVUGE_good {l r t} (h : Mk.BVUGE l r = .ok t) (hl : Good l) (hr : Good r) : Good t :=
  create_simple_good rfl rfl rfl h (good2 hr hl)
theorem BVSGT_good {l r t} (h : Mk.BVSGT l r = .ok t) (hl : Good l) (hr : Good r) : Good t :=
  BVSLT_good h hr hl
theorem BVSGE_good {l r t} (h : Mk.BVSGE l r = .ok t) (hl : Good l) (hr : Good r) : Good t :=
  BVSLE_good h hr hl
theorem BVToNatural_good {f t} (h : Mk.BVToNatural f = .ok t) (hf : Good f) : Good t :=
  create_simple_good rfl rfl rfl h (good1 hf)
theorem StrLength_good {f t} (h : Mk.StrLength f = .ok t) (hf : Good f) : Good t :=
  create_simple_good rfl rfl rfl h (good1 hf)
theorem StrToInt_good {f t} (h : Mk.StrToInt f = .ok t) (hf : Good f) : Good t :=
  create_simple_good rfl rfl rfl h (good1 hf)
theorem IntToStr_good {f t} (h : Mk.IntToStr f = .ok t) (hf : Good f) : Good t :=
  create_simple_good rfl rfl rfl h (good1 hf)
theorem StrContains_good {l r t} (h : Mk.StrContains l r = .ok t) (hl : Good l) (hr : Good r) : Good t :=
  create_simple_good rfl rfl rfl h (good2 hl hr)
theorem StrPrefixOf_good {l r t} (h : Mk.StrPrefixOf l r = .ok t) (hl : Good l) (hr : Good r) : Good t :=
  create_simple_good rfl rfl rfl h (good2 hl hr)
theorem StrSuffixOf_good {l r t} (h : Mk.StrSuffixOf l r = .ok t) (hl : Good l) (hr : Good r) : Good t :=
  create_simple_good rfl rfl rfl h (good2 hl hr)
theorem StrCharAt_good {l r t} (h : Mk.StrCharAt l r = .ok t) (hl : Good l) (hr : Good r) : Good t :=
  create_simple_good rfl rfl rfl h (good2 hl hr)
theorem Select_good {l r t} (h : Mk.Select l r = .ok t) (hl : Good l) (hr : Good r) : Good t :=
  create_simple_good rfl rfl rfl h (good2 hl hr)
theorem StrIndexOf_good {a b c t} (h : Mk.StrIndexOf a b c = .ok t) (ha : Good a) (hb : Good b) (hc : Good c) : Good t :=
  create_simple_good rfl rfl rfl h (good3 ha hb hc)
theorem StrReplace_good {a b c t} (h : Mk.StrReplace a b c = .ok t) (ha : Good a) (hb : Good b) (hc : Good c) : Good t :=
  create_simple_good rfl rfl rfl h (good3 ha hb hc)
theorem StrSubstr_good {a b c t} (h : Mk.StrSubstr a b c = .ok t) (ha : Good a) (hb : Good b) (hc : Good c) : Good t :=
  create_simple_good rfl rfl rfl h (good3 ha hb hc)
theorem Store_good {a b c t} (h : Mk.Store a b c = .ok t) (ha : Good a) (hb : Good b) (hc : Good c) : Good t :=
  create_simple_good rfl rfl rfl h (good3 ha hb hc)

/-! ## normalising primitives -/

theorem bind_ok' {α β : Type} {e : Except Mk.Err α} {f : α → Except Mk.Err β} {b : β}
    (h : (e >>= f) = .ok b) : ∃ a, e = .ok a ∧ f a = .ok b := by
  cases e with
  | error x => cases h
  | ok a => exact ⟨a, rfl, h⟩

theorem good_child {op : Op} {args : List Term} {p : Payload} (h : Good (.node op args p)) :
    ∀ a ∈ args, Good a := fun a ha =>
  ⟨((wt_node op args p).1 h.1).1 a ha, ((noF06_node op args p).1 h.2.1).1 a ha,
    ((allE_node op args p).1 h.2.2).1 a ha⟩

/-- a `Good` node whose operator is a numeric constant is that constant -/
theorem good_const_shape {op : Op} {args : List Term} {p : Payload} (hg : Good (.node op args p))
    (hop : op = .intConst ∨ op = .realConst) :
    args = [] ∧ ((op = .intConst ∧ ∃ n, p = .i n) ∨ (op = .realConst ∧ ∃ q, p = .q q)) := by
  have hs := ((wt_node op args p).1 hg.1).2
  have hn := ((noF06_node op args p).1 hg.2.1).2
  have hnil : args = [] := by
    cases args with
    | nil => rfl
    | cons a r =>
      rcases hop with rfl | rfl <;> (exfalso; revert hs; simp only [List.map_cons]; intro hs; cases hs)
  subst hnil
  refine ⟨rfl, ?_⟩
  rcases hop with rfl | rfl
  · left; refine ⟨rfl, ?_⟩
    cases p <;> simp [nodeOk, arityOk, payloadOk] at hn
    exact ⟨_, rfl⟩
  · right; refine ⟨rfl, ?_⟩
    cases p <;> simp [nodeOk, arityOk, payloadOk] at hn
    exact ⟨_, rfl⟩

theorem Not_good {f t} (h : Mk.Not f = .ok t) (hf : Good f) : Good t := by
  unfold Mk.Not at h
  split at h
  · cases h; exact good_child hf _ (by simp)
  · cases h
  · next h1 h2 =>
    refine create_good h (good1 hf) (fun σs hl _ => nodeOk_simple rfl _ σs (by simp [arityOk, hl])) ?_
    cases f with
    | node op args p =>
      have : op ≠ .not := by
        intro e; subst e
        rcases args with _ | ⟨a, _ | ⟨b, r⟩⟩
        · exact h2 _ _ rfl
        · exact h1 _ _ rfl
        · exact h2 _ _ rfl
      simpa [nodeE, Term.op] using this

theorem nary_good {op : Op} (hs : simpleOp op = true) (he : eTrivial op = true)
    (hop : ∀ n, 2 ≤ n → arityOk op n = true)
    {args : List Term} {t : Term} (hlen : 2 ≤ args.length)
    (h : Mk.create op args = .ok t) (hargs : ∀ a ∈ args, Good a) : Good t :=
  create_simple_good hs he (hop _ hlen) h hargs

theorem two_le_of_not_short {α} : ∀ (l : List α), l ≠ [] → (∀ a, l ≠ [a]) → 2 ≤ l.length
  | [], h, _ => absurd rfl h
  | [a], _, h => absurd rfl (h a)
  | _ :: _ :: _, _, _ => by simp

theorem And_good {args t} (h : Mk.And args = .ok t) (hargs : ∀ a ∈ args, Good a) : Good t := by
  unfold Mk.And at h
  split at h
  · cases h; exact BoolC_good true
  · cases h; exact hargs _ (by simp)
  · next h1 h2 =>
    exact nary_good rfl rfl (fun n hn => by simp [arityOk, hn]) (two_le_of_not_short args h1 h2) h hargs

theorem Or_good {args t} (h : Mk.Or args = .ok t) (hargs : ∀ a ∈ args, Good a) : Good t := by
  unfold Mk.Or at h
  split at h
  · cases h; exact BoolC_good false
  · cases h; exact hargs _ (by simp)
  · next h1 h2 =>
    exact nary_good rfl rfl (fun n hn => by simp [arityOk, hn]) (two_le_of_not_short args h1 h2) h hargs

theorem Plus_good {args t} (h : Mk.Plus args = .ok t) (hargs : ∀ a ∈ args, Good a) : Good t := by
  unfold Mk.Plus at h
  split at h
  · cases h
  · cases h; exact hargs _ (by simp)
  · next h1 h2 =>
    exact nary_good rfl rfl (fun n hn => by simp [arityOk, hn]) (two_le_of_not_short args h1 h2) h hargs

theorem Times_good {args t} (h : Mk.Times args = .ok t) (hargs : ∀ a ∈ args, Good a) : Good t := by
  unfold Mk.Times at h
  split at h
  · cases h
  · cases h; exact hargs _ (by simp)
  · next h1 h2 =>
    exact nary_good rfl rfl (fun n hn => by simp [arityOk, hn]) (two_le_of_not_short args h1 h2) h hargs

theorem StrConcat_good {args t} (h : Mk.StrConcat args = .ok t) (hargs : ∀ a ∈ args, Good a) : Good t := by
  unfold Mk.StrConcat at h
  split at h
  · cases h
  · next hl => exact nary_good rfl rfl (fun n hn => by simp [arityOk, hn]) (by omega) h hargs

theorem Div_good {l r t} (h : Mk.Div l r = .ok t) (hl : Good l) (hr : Good r) : Good t := by
  unfold Mk.Div at h
  split at h
  · split at h
    · next hc =>
      refine create_good h (good2 hl hr) (fun σs hlen _ => nodeOk_simple rfl _ σs (by simp [arityOk, hlen])) ?_
      subst hc
      simp [nodeE, Term.real]
    · exact Times_good h (good2 hl (RealC_good _))
  · next hne =>
    refine create_good h (good2 hl hr) (fun σs hlen _ => nodeOk_simple rfl _ σs (by simp [arityOk, hlen])) ?_
    cases r with
    | node op args p =>
      have : op ≠ .realConst := by
        intro e; subst e
        obtain ⟨rfl, hp⟩ := good_const_shape hr (.inr rfl)
        rcases hp with ⟨h0, _⟩ | ⟨_, q, rfl⟩
        · cases h0
        · exact hne _ rfl
      simp [nodeE, Term.op, this]

theorem ToReal_good {f t} (h : Mk.ToReal f = .ok t) (hf : Good f) : Good t := by
  unfold Mk.ToReal at h
  split at h
  · cases h; exact hf
  · split at h
    · cases h; exact RealC_good _
    · next hne =>
      refine create_good h (good1 hf) (fun σs hlen _ => nodeOk_simple rfl _ σs (by simp [arityOk, hlen])) ?_
      cases f with
      | node op args p =>
        have : op ≠ .intConst := by
          intro e; subst e
          obtain ⟨rfl, hp⟩ := good_const_shape hf (.inl rfl)
          rcases hp with ⟨_, n, rfl⟩ | ⟨h0, _⟩
          · exact hne _ rfl
          · cases h0
        simpa [nodeE, Term.op] using this
  · cases h

theorem Function_good {f : Sym} {params t} (h : Mk.Function f params = .ok t) (hp : ∀ a ∈ params, Good a)
    (h0 : params = [] → f.params = []) : Good t := by
  unfold Mk.Function at h
  split at h
  · next he => cases h; exact sym_good f (h0 (by simpa using he))
  · split at h
    · cases h
    · split at h
      · cases h
      · next he _ _ =>
        refine create_simple_good rfl rfl ?_ h hp
        cases params with
        | nil => simp at he
        | cons a r => simp [arityOk]

/-- quantifiers: the binder list must consist of plain symbols (`Mk` — like `typeOfNode` — does not
look at it; the repaired code, /repo f0cd2ee, rejects anything else) -/
theorem ForAll_good {vs : List Sym} {f t} (h : Mk.ForAll vs f = .ok t) (hf : Good f)
    (hv : ∀ v ∈ vs, v.params = []) : Good t := by
  unfold Mk.ForAll at h
  split at h
  · cases h; exact hf
  · next hne =>
    refine create_good h (good1 hf) (fun σs hl _ => ?_) ?_
    have : CreateNode.plainVars vs = true := by
      cases vs with
      | nil => simp at hne
      | cons a r => simpa [CreateNode.plainVars, List.all_eq_true] using hv
    simp [nodeOk, arityOk, payloadOk, sortsOk, hl, this]
    · rfl

theorem Exists_good {vs : List Sym} {f t} (h : Mk.Exists vs f = .ok t) (hf : Good f)
    (hv : ∀ v ∈ vs, v.params = []) : Good t := by
  unfold Mk.Exists at h
  split at h
  · cases h; exact hf
  · next hne =>
    refine create_good h (good1 hf) (fun σs hl _ => ?_) ?_
    have : CreateNode.plainVars vs = true := by
      cases vs with
      | nil => simp at hne
      | cons a r => simpa [CreateNode.plainVars, List.all_eq_true] using hv
    simp [nodeOk, arityOk, payloadOk, sortsOk, hl, this]
    · rfl

/-! ## derived Boolean / arithmetic constructors -/

theorem NotEquals_good {l r t} (h : Mk.NotEquals l r = .ok t) (hl : Good l) (hr : Good r) : Good t := by
  obtain ⟨e, he, hn⟩ := bind_ok' h
  exact Not_good hn (Equals_good he hl hr)

theorem Xor_good {l r t} (h : Mk.Xor l r = .ok t) (hl : Good l) (hr : Good r) : Good t := by
  obtain ⟨e, he, hn⟩ := bind_ok' h
  exact Not_good hn (Iff_good he hl hr)

theorem EqualsOrIff_good {l r t} (h : Mk.EqualsOrIff l r = .ok t) (hl : Good l) (hr : Good r) : Good t := by
  unfold Mk.EqualsOrIff at h
  split at h
  · cases h
  · exact Iff_good h hl hr
  · exact Equals_good h hl hr

theorem Abs_good {f t} (h : Mk.Abs f = .ok t) (hf : Good f) : Good t := by
  unfold Mk.Abs at h
  split at h
  · cases h
  · obtain ⟨c, hc, h⟩ := bind_ok' h
    obtain ⟨m, hm, h⟩ := bind_ok' h
    exact Ite_good h (GT_good hc hf (IntC_good 0)) hf (Minus_good hm (IntC_good 0) hf)
  · obtain ⟨c, hc, h⟩ := bind_ok' h
    obtain ⟨m, hm, h⟩ := bind_ok' h
    exact Ite_good h (GT_good hc hf (RealC_good 0)) hf (Minus_good hm (RealC_good 0) hf)
  · cases h

/-! ## bit-vectors -/

theorem nodeOk_ints1 {op : Op} (hop : op ∈ Spec.bvUnary ∨ op ∈ Spec.bvBinary ∨ op = .bvConcat) (w : Nat) (σs : List Ty)
    (ha : arityOk op σs.length = true) : nodeOk op (.ints [w]) σs = true := by
  rcases hop with hop | hop | rfl
  · simp [Spec.bvUnary] at hop; rcases hop with rfl | rfl <;> simp [nodeOk, payloadOk, sortsOk, ha]
  · simp [Spec.bvBinary] at hop
    rcases hop with rfl | rfl | rfl | rfl | rfl | rfl | rfl | rfl | rfl | rfl | rfl | rfl | rfl <;>
      simp [nodeOk, payloadOk, sortsOk, ha]
  · simp [nodeOk, payloadOk, sortsOk, ha]

theorem bvUn_good {op : Op} (hop : op ∈ Spec.bvUnary) {f t} (h : Mk.bvUn op f = .ok t) (hf : Good f) : Good t := by
  obtain ⟨w, _, h⟩ := bind_ok' h
  have hop' := hop
  simp [Spec.bvUnary] at hop'
  refine create_good h (good1 hf) (fun σs hl _ => nodeOk_ints1 (.inl hop) w σs ?_) ?_
  · rcases hop' with rfl | rfl <;> simp [arityOk, hl]
  · rcases hop' with rfl | rfl <;> rfl

theorem bvBin_good {op : Op} (hop : op ∈ Spec.bvBinary) {l r t} (h : Mk.bvBin op l r = .ok t)
    (hl : Good l) (hr : Good r) : Good t := by
  obtain ⟨w, _, h⟩ := bind_ok' h
  have hop' := hop
  simp [Spec.bvBinary] at hop'
  refine create_good h (good2 hl hr) (fun σs hlen _ => nodeOk_ints1 (.inr (.inl hop)) w σs ?_) ?_
  · rcases hop' with rfl | rfl | rfl | rfl | rfl | rfl | rfl | rfl | rfl | rfl | rfl | rfl | rfl <;> simp [arityOk, hlen]
  · rcases hop' with rfl | rfl | rfl | rfl | rfl | rfl | rfl | rfl | rfl | rfl | rfl | rfl | rfl <;> rfl

theorem BVNot_good {f t} (h : Mk.BVNot f = .ok t) (hf : Good f) : Good t := bvUn_good (by simp [Spec.bvUnary]) h hf
theorem BVNeg_good {f t} (h : Mk.BVNeg f = .ok t) (hf : Good f) : Good t := bvUn_good (by simp [Spec.bvUnary]) h hf
theorem BVXor_good {l r t} (h : Mk.BVXor l r = .ok t) (hl : Good l) (hr : Good r) : Good t :=
  bvBin_good (by simp [Spec.bvBinary]) h hl hr
theorem BVSub_good {l r t} (h : Mk.BVSub l r = .ok t) (hl : Good l) (hr : Good r) : Good t :=
  bvBin_good (by simp [Spec.bvBinary]) h hl hr
theorem BVUDiv_good {l r t} (h : Mk.BVUDiv l r = .ok t) (hl : Good l) (hr : Good r) : Good t :=
  bvBin_good (by simp [Spec.bvBinary]) h hl hr
theorem BVURem_good {l r t} (h : Mk.BVURem l r = .ok t) (hl : Good l) (hr : Good r) : Good t :=
  bvBin_good (by simp [Spec.bvBinary]) h hl hr
theorem BVSDiv_good {l r t} (h : Mk.BVSDiv l r = .ok t) (hl : Good l) (hr : Good r) : Good t :=
  bvBin_good (by simp [Spec.bvBinary]) h hl hr
theorem BVSRem_good {l r t} (h : Mk.BVSRem l r = .ok t) (hl : Good l) (hr : Good r) : Good t :=
  bvBin_good (by simp [Spec.bvBinary]) h hl hr

theorem bvChain_good {op : Op} (hop : op ∈ Spec.bvBinary) : ∀ (rest : List Term) (res t : Term),
    Mk.bvChain op res rest = .ok t → Good res → (∀ a ∈ rest, Good a) → Good t
  | [], res, t, h, hr, _ => by simp [Mk.bvChain] at h; cases h; exact hr
  | a :: rest, res, t, h, hr, hrest => by
    simp only [Mk.bvChain] at h
    obtain ⟨r, hb, h⟩ := bind_ok' h
    exact bvChain_good hop rest r t h (bvBin_good hop hb hr (hrest a (by simp)))
      (fun b hb => hrest b (by simp [hb]))

theorem bvNary_good {op : Op} (hop : op ∈ Spec.bvBinary) {args t} (h : Mk.bvNary op args = .ok t)
    (hargs : ∀ a ∈ args, Good a) : Good t := by
  unfold Mk.bvNary at h
  split at h
  · cases h
  · next a rest => exact bvChain_good hop rest a t h (hargs a (by simp)) (fun b hb => hargs b (by simp [hb]))

theorem BVAnd_good {args t} (h : Mk.BVAnd args = .ok t) (ha : ∀ a ∈ args, Good a) : Good t :=
  bvNary_good (by simp [Spec.bvBinary]) h ha
theorem BVOr_good {args t} (h : Mk.BVOr args = .ok t) (ha : ∀ a ∈ args, Good a) : Good t :=
  bvNary_good (by simp [Spec.bvBinary]) h ha
theorem BVAdd_good {args t} (h : Mk.BVAdd args = .ok t) (ha : ∀ a ∈ args, Good a) : Good t :=
  bvNary_good (by simp [Spec.bvBinary]) h ha
theorem BVMul_good {args t} (h : Mk.BVMul args = .ok t) (ha : ∀ a ∈ args, Good a) : Good t :=
  bvNary_good (by simp [Spec.bvBinary]) h ha

theorem BVNand_good {l r t} (h : Mk.BVNand l r = .ok t) (hl : Good l) (hr : Good r) : Good t := by
  obtain ⟨e, he, hn⟩ := bind_ok' h
  exact BVNot_good hn (BVAnd_good he (good2 hl hr))
theorem BVNor_good {l r t} (h : Mk.BVNor l r = .ok t) (hl : Good l) (hr : Good r) : Good t := by
  obtain ⟨e, he, hn⟩ := bind_ok' h
  exact BVNot_good hn (BVOr_good he (good2 hl hr))
theorem BVXnor_good {l r t} (h : Mk.BVXnor l r = .ok t) (hl : Good l) (hr : Good r) : Good t := by
  obtain ⟨e, he, hn⟩ := bind_ok' h
  exact BVNot_good hn (BVXor_good he hl hr)

theorem BVComp_good {l r t} (h : Mk.BVComp l r = .ok t) (hl : Good l) (hr : Good r) : Good t :=
  create_good h (good2 hl hr) (fun σs hlen _ => by simp [nodeOk, arityOk, payloadOk, sortsOk, hlen]) rfl

theorem concat2_good {l r t} (h : Mk.concat2 l r = .ok t) (hl : Good l) (hr : Good r) : Good t := by
  obtain ⟨wl, _, h⟩ := bind_ok' h
  obtain ⟨wr, _, h⟩ := bind_ok' h
  exact create_good h (good2 hl hr) (fun σs hlen _ => nodeOk_ints1 (.inr (.inr rfl)) _ σs (by simp [arityOk, hlen])) rfl

theorem concatChain_good : ∀ (rest : List Term) (base t : Term),
    Mk.concatChain base rest = .ok t → Good base → (∀ a ∈ rest, Good a) → Good t
  | [], base, t, h, hb, _ => by simp [Mk.concatChain] at h; cases h; exact hb
  | e :: rest, base, t, h, hb, hrest => by
    simp only [Mk.concatChain] at h
    obtain ⟨b, hc, h⟩ := bind_ok' h
    exact concatChain_good rest b t h (concat2_good hc hb (hrest e (by simp))) (fun x hx => hrest x (by simp [hx]))

theorem BVConcat_good {args t} (h : Mk.BVConcat args = .ok t) (ha : ∀ a ∈ args, Good a) : Good t := by
  unfold Mk.BVConcat at h
  split at h
  · next a b rest =>
    obtain ⟨base, hb, h⟩ := bind_ok' h
    exact concatChain_good rest base t h (concat2_good hb (ha a (by simp)) (ha b (by simp)))
      (fun x hx => ha x (by simp [hx]))
  · cases h

theorem repeatChain_good {f : Term} (hf : Good f) : ∀ (n : Nat) (res t : Term),
    Mk.repeatChain f res n = .ok t → Good res → Good t
  | 0, res, t, h, hr => by simp [Mk.repeatChain] at h; cases h; exact hr
  | n + 1, res, t, h, hr => by
    simp only [Mk.repeatChain] at h
    obtain ⟨r, hc, h⟩ := bind_ok' h
    exact repeatChain_good hf n r t h (BVConcat_good hc (good2 hr hf))

theorem BVRepeat_good {f : Term} {count : Int} {t} (h : Mk.BVRepeat f count = .ok t) (hf : Good f) : Good t := by
  unfold Mk.BVRepeat at h
  split at h
  · cases h
  · exact repeatChain_good hf _ f t h hf

theorem BVExtract_good {f : Term} {start : Int} {stop : Option Int} {t} (h : Mk.BVExtract f start stop = .ok t)
    (hf : Good f) : Good t := by
  unfold Mk.BVExtract at h
  obtain ⟨w, _, h⟩ := bind_ok' h
  cases stop <;> simp only at h
  all_goals
    split at h
    · cases h
    · next hse =>
      split at h
      · cases h
      · refine create_good h (good1 hf) (fun σs hlen _ => ?_) rfl
        have hse' := Classical.not_not.1 hse
        simp [nodeOk, arityOk, payloadOk, sortsOk, hlen]
        omega

theorem rotate_good {op : Op} (hop : op = .bvRol ∨ op = .bvRor) {f : Term} {k : Int} {t}
    (h : Mk.rotate op f k = .ok t) (hf : Good f) : Good t := by
  unfold Mk.rotate at h
  obtain ⟨w, _, h⟩ := bind_ok' h
  split at h
  · cases h
  · rcases hop with rfl | rfl <;> exact create_simple_good rfl rfl rfl h (good1 hf)

theorem BVRol_good {f : Term} {k : Int} {t} (h : Mk.BVRol f k = .ok t) (hf : Good f) : Good t :=
  rotate_good (.inl rfl) h hf
theorem BVRor_good {f : Term} {k : Int} {t} (h : Mk.BVRor f k = .ok t) (hf : Good f) : Good t :=
  rotate_good (.inr rfl) h hf

theorem noF06_compOK : (t : Term) → t.noF06 = true → BuildAgree.compOK t = true
  | .node op args p, h => by
    obtain ⟨h1, h2⟩ := (noF06_node op args p).1 h
    rw [BuildAgree.compOK]
    simp only [Bool.and_eq_true, List.all_eq_true, List.mem_map, id, Bool.or_eq_true, bne_iff_ne, ne_eq, beq_iff_eq]
    refine ⟨?_, ?_⟩
    · rintro _ ⟨a, ha, rfl⟩; exact noF06_compOK a (h1 a ha)
    · by_cases hop : op = .bvComp
      · subst hop
        right
        simp only [nodeOk, payloadOk, Bool.and_eq_true] at h2
        cases p <;> (try (simp at h2; done))
        rename_i l
        rcases l with _ | ⟨w, _ | ⟨x, l⟩⟩ <;> (try (simp at h2; done))
        have : w = 1 := by simpa using h2.1.2
        rw [this]
      · exact .inl hop

theorem extend_good {op : Op} (hop : op = .bvZext ∨ op = .bvSext) {f : Term} {k : Int} {t}
    (h : Mk.extend op f k = .ok t) (hf : Good f) : Good t := by
  unfold Mk.extend at h
  obtain ⟨w, hw, h⟩ := bind_ok' h
  split at h
  · cases h
  · obtain ⟨_, hs⟩ := create_inv' h
    refine create_good h (good1 hf) (fun σs hlen hm => ?_) (by rcases hop with rfl | rfl <;> rfl)
    rcases σs with _ | ⟨σ, _ | ⟨x, r⟩⟩
    · simp at hlen
    case cons.cons => simp at hlen
    rw [hm, typeOfNode_eq_tyNode] at hs
    have hty : f.typeOf = some σ := by simpa using hm
    rcases hop with rfl | rfl
    all_goals
      cases σ <;> simp [tyNode] at hs
      rename_i a
      have := BuildAgree.mkWidth_of_typeOf hf.1 (noF06_compOK f hf.2.1) hty
      rw [hw] at this
      cases this
      simp [nodeOk, arityOk, payloadOk, sortsOk]

theorem BVZExt_good {f : Term} {k : Int} {t} (h : Mk.BVZExt f k = .ok t) (hf : Good f) : Good t :=
  extend_good (.inl rfl) h hf
theorem BVSExt_good {f : Term} {k : Int} {t} (h : Mk.BVSExt f k = .ok t) (hf : Good f) : Good t :=
  extend_good (.inr rfl) h hf

theorem shiftAmount_good {l : Term} {r : Mk.Arg} {strict : Bool} {t} (h : Mk.shiftAmount l r strict = .ok t)
    (hr : ∀ u, Mk.asTerm r = some u → Good u) : Good t := by
  unfold Mk.shiftAmount at h
  split at h
  · obtain ⟨w, _, h⟩ := bind_ok' h; exact BV_good h
  · cases h; exact hr _ rfl
  · cases h; exact hr _ rfl
  · cases h

theorem BVLShl_good {l : Term} {r : Mk.Arg} {t} (h : Mk.BVLShl l r = .ok t) (hl : Good l)
    (hr : ∀ u, Mk.asTerm r = some u → Good u) : Good t := by
  obtain ⟨a, ha, h⟩ := bind_ok' h
  exact bvBin_good (by simp [Spec.bvBinary]) h hl (shiftAmount_good ha hr)
theorem BVLShr_good {l : Term} {r : Mk.Arg} {t} (h : Mk.BVLShr l r = .ok t) (hl : Good l)
    (hr : ∀ u, Mk.asTerm r = some u → Good u) : Good t := by
  obtain ⟨a, ha, h⟩ := bind_ok' h
  exact bvBin_good (by simp [Spec.bvBinary]) h hl (shiftAmount_good ha hr)
theorem BVAShr_good {l : Term} {r : Mk.Arg} {t} (h : Mk.BVAShr l r = .ok t) (hl : Good l)
    (hr : ∀ u, Mk.asTerm r = some u → Good u) : Good t := by
  obtain ⟨a, ha, h⟩ := bind_ok' h
  exact bvBin_good (by simp [Spec.bvBinary]) h hl (shiftAmount_good ha hr)

/-! ## cardinality constraints, arrays -/

theorem amoConstraints_good : ∀ (l cs : List Term), Mk.amoConstraints l = .ok cs → (∀ a ∈ l, Good a) →
    ∀ c ∈ cs, Good c
  | [], cs, h, _ => by simp [Mk.amoConstraints] at h; subst h; simp
  | [_], cs, h, _ => by simp [Mk.amoConstraints] at h; subst h; simp
  | a :: b :: rest, cs, h, hl => by
    simp only [Mk.amoConstraints] at h
    obtain ⟨o, ho, h⟩ := bind_ok' h
    obtain ⟨n, hn, h⟩ := bind_ok' h
    obtain ⟨c, hc, h⟩ := bind_ok' h
    obtain ⟨cs', hcs, h⟩ := bind_ok' h
    cases h
    have hrest : ∀ x ∈ b :: rest, Good x := fun x hx => hl x (by simp [hx])
    have hcg := Implies_good hc (hl a (by simp)) (Not_good hn (Or_good ho hrest))
    intro x hx
    rcases List.mem_cons.1 hx with rfl | hx
    · exact hcg
    · exact amoConstraints_good (b :: rest) cs' hcs hrest x hx

theorem AtMostOne_good {args t} (h : Mk.AtMostOne args = .ok t) (ha : ∀ a ∈ args, Good a) : Good t := by
  obtain ⟨cs, hcs, h⟩ := bind_ok' h
  exact And_good h (amoConstraints_good args cs hcs ha)

theorem ExactlyOne_good {args t} (h : Mk.ExactlyOne args = .ok t) (ha : ∀ a ∈ args, Good a) : Good t := by
  obtain ⟨o, ho, h⟩ := bind_ok' h
  obtain ⟨a, haa, h⟩ := bind_ok' h
  exact And_good h (good2 (Or_good ho ha) (AtMostOne_good haa ha))

theorem neqAll_good {a : Term} (hg : Good a) : ∀ (l ns : List Term), Mk.neqAll a l = .ok ns → (∀ b ∈ l, Good b) →
    ∀ n ∈ ns, Good n
  | [], ns, h, _ => by simp [Mk.neqAll] at h; subst h; simp
  | b :: bs, ns, h, hl => by
    simp only [Mk.neqAll] at h
    obtain ⟨e, he, h⟩ := bind_ok' h
    obtain ⟨n, hn, h⟩ := bind_ok' h
    obtain ⟨rest, hrest, h⟩ := bind_ok' h
    cases h
    intro x hx
    rcases List.mem_cons.1 hx with rfl | hx
    · exact Not_good hn (EqualsOrIff_good he hg (hl b (by simp)))
    · exact neqAll_good hg bs rest hrest (fun y hy => hl y (by simp [hy])) x hx

theorem adPairs_good : ∀ (l ps : List Term), Mk.adPairs l = .ok ps → (∀ a ∈ l, Good a) → ∀ p ∈ ps, Good p
  | [], ps, h, _ => by simp [Mk.adPairs] at h; subst h; simp
  | a :: rest, ps, h, hl => by
    simp only [Mk.adPairs] at h
    obtain ⟨xs, hxs, h⟩ := bind_ok' h
    obtain ⟨ys, hys, h⟩ := bind_ok' h
    cases h
    have hrest : ∀ x ∈ rest, Good x := fun x hx => hl x (by simp [hx])
    intro x hx
    rcases List.mem_append.1 hx with hx | hx
    · exact neqAll_good (hl a (by simp)) rest xs hxs hrest x hx
    · exact adPairs_good rest ys hys hrest x hx

theorem AllDifferent_good {args t} (h : Mk.AllDifferent args = .ok t) (ha : ∀ a ∈ args, Good a) : Good t := by
  obtain ⟨ps, hps, h⟩ := bind_ok' h
  exact And_good h (adPairs_good args ps hps ha)

theorem arrayArgs_good {idx : Ty} {d : Term} : ∀ (l : List (Term × Term)) (more : List Term),
    Mk.arrayArgs idx d l = .ok more → (∀ kv ∈ l, Good kv.1 ∧ Good kv.2) → (∀ x ∈ more, Good x) ∧ more.length % 2 = 0
  | [], more, h, _ => by simp [Mk.arrayArgs] at h; subst h; simp
  | (k, v) :: rest, more, h, hl => by
    simp only [Mk.arrayArgs] at h
    split at h
    · cases h
    · split at h
      · split at h
        · exact arrayArgs_good rest more h (fun kv hkv => hl kv (by simp [hkv]))
        · cases h
      · obtain ⟨m, hm, h⟩ := bind_ok' h
        have ih := arrayArgs_good rest m hm (fun kv hkv => hl kv (by simp [hkv]))
        cases h
        refine ⟨?_, by simp only [List.length_cons]; omega⟩
        intro x hx
        simp only [List.mem_cons] at hx
        rcases hx with hx | hx | hx
        · rw [hx]; exact (hl (k, v) (by simp)).1
        · rw [hx]; exact (hl (k, v) (by simp)).2
        · exact ih.1 x hx

theorem dictInsert_fresh (k v : Term) : ∀ (d : List (Term × Term)), k ∉ d.map Prod.fst →
    Build.dictInsert k v d = d ++ [(k, v)]
  | [], _ => rfl
  | (k', v') :: rest, h => by
    simp only [List.map_cons, List.mem_cons, not_or] at h
    simp only [Build.dictInsert]
    rw [if_neg (fun e => h.1 e.symm), dictInsert_fresh k v rest h.2]
    rfl

theorem foldl_dictInsert : ∀ (ps acc : List (Term × Term)), ((acc ++ ps).map Prod.fst).Nodup →
    ps.foldl (fun d kv => Build.dictInsert kv.1 kv.2 d) acc = acc ++ ps
  | [], acc, _ => by simp
  | (k, v) :: rest, acc, h => by
    have hk : k ∉ acc.map Prod.fst := by
      simp only [List.map_append, List.map_cons] at h
      have := (List.nodup_append.1 h).2.2
      intro hm
      exact this k hm k (by simp) rfl
    simp only [List.foldl_cons]
    rw [dictInsert_fresh k v acc hk, foldl_dictInsert rest (acc ++ [(k, v)]) (by simpa using h)]
    simp

theorem pyDict_nodup (ps : List (Term × Term)) (h : (ps.map Prod.fst).Nodup) : Build.pyDict ps = ps := by
  have := foldl_dictInsert ps [] (by simpa using h)
  simpa [Build.pyDict] using this

theorem pairsOf_flat : ∀ (l : List (Term × Term)), Build.pairsOf (l.flatMap (fun kv => [kv.1, kv.2])) = l
  | [] => rfl
  | (k, v) :: rest => by
    simp only [List.flatMap_cons, List.cons_append, List.nil_append, Build.pairsOf, pairsOf_flat rest]

theorem Array_good {idx : Ty} {d : Term} {assigned : List (Term × Term)} {t}
    (h : Mk.Array idx d assigned = .ok t) (hd : Good d) (ha : ∀ kv ∈ assigned, Good kv.1 ∧ Good kv.2)
    (hdict : (assigned.map Prod.fst).Nodup) (hck : ∀ kv ∈ assigned, kv.1.op.isConstant = true) : Good t := by
  obtain ⟨more, hm, h⟩ := bind_ok' h
  obtain ⟨hg, hlen⟩ := arrayArgs_good assigned more hm ha
  have hmore := BuildAgree.array_args assigned more hm
  refine create_good h (fun x hx => ?_) (fun σs hl _ => nodeOk_simple rfl _ σs ?_) ?_
  · rcases List.mem_cons.1 hx with rfl | hx
    · exact hd
    · exact hg x hx
  · simp only [arityOk, hl, List.length_cons, beq_iff_eq]; omega
  · -- the arguments are a dictionary without default-valued pairs, with constant keys
    obtain ⟨l, hl⟩ : ∃ l, l = assigned.filter (fun kv => kv.2 != d) := ⟨_, rfl⟩
    rw [← hl] at hmore
    have hsub : List.Sublist l assigned := hl ▸ List.filter_sublist
    have hnd : (l.map Prod.fst).Nodup := List.Nodup.sublist (List.Sublist.map _ hsub) hdict
    have hp : Build.pairsOf more = l := by rw [hmore]; exact pairsOf_flat l
    have hfil : l.filter (fun kv => decide (kv.2 ≠ d)) = l := by
      apply List.filter_eq_self.2
      intro kv hkv
      have := (List.mem_filter.1 (hl ▸ hkv)).2
      simpa using this
    simp only [nodeE, Bool.and_eq_true, decide_eq_true_eq, List.all_eq_true]
    refine ⟨?_, ?_⟩
    · rw [hp, pyDict_nodup l hnd, hfil, BuildAgree.unpairs_flatMap, hmore]
    · intro kv hkv
      rw [hp] at hkv
      exact hck kv (hsub.subset hkv)

theorem map_ok' {α β : Type} {f : α → β} {e : Except Mk.Err α} {b : β} (h : Except.map f e = .ok b) :
    ∃ a, e = .ok a ∧ b = f a := by
  cases e with
  | error x => cases h
  | ok a => cases h; exact ⟨a, rfl, rfl⟩

/-- `Pow` creates a `pow` node, which is outside `allE` (no semantics, outside `wf`): a single-step
statement with the weaker conclusion, on a numeric base (the non-numeric case is finding F06e) -/
theorem Pow_step_partial {b e t} (h : Mk.Pow b e = .ok t) (hb : Good b) (he : Good e)
    (hnum : b.typeOf = some .int ∨ b.typeOf = some .real) : t.wt = true ∧ t.noF06 = true := by
  unfold Mk.Pow at h
  split at h
  · cases h
  · split at h
    · split at h
      · obtain ⟨q, _, rfl⟩ := map_ok' h; exact ⟨(RealC_good q).1, (RealC_good q).2.1⟩
      · split at h
        · obtain ⟨q, _, rfl⟩ := map_ok' h; exact ⟨(RealC_good q).1, (RealC_good q).2.1⟩
        · cases h
      · cases h
    · obtain ⟨rfl, hs⟩ := create_inv' h
      obtain ⟨σs, hm, hf, hl⟩ := arg_sorts [b, e] (fun a ha => (good2 hb he a ha).1)
      refine ⟨(wt_node _ _ _).2 ⟨fun a ha => (good2 hb he a ha).1, hs⟩, ?_⟩
      refine (noF06_node _ _ _).2 ⟨fun a ha => (good2 hb he a ha).2.1, ?_⟩
      rw [hf]
      rcases σs with _ | ⟨σ, _ | ⟨τ, _ | ⟨x, r⟩⟩⟩
      · simp at hl
      · simp at hl
      case cons.cons.cons => simp at hl
      have hty : b.typeOf = some σ := by simp at hm; exact hm.1
      rcases hnum with hn | hn <;> (rw [hn] at hty; cases hty; simp [nodeOk, arityOk, payloadOk, sortsOk])

/-- `Pow` of two constants folds to a Real constant -/
theorem Pow_const_good {b e t} (h : Mk.Pow b e = .ok t) (hc : Mk.isConstant b = true) : Good t := by
  unfold Mk.Pow at h
  split at h
  · cases h
  · split at h
    · obtain ⟨q, _, rfl⟩ := map_ok' h; exact RealC_good q
    · split at h
      · obtain ⟨q, _, rfl⟩ := map_ok' h; exact RealC_good q
      · cases h
    · cases h

theorem SBV_good {v : Int} {w : Nat} {t} (h : Mk.SBV v w = .ok t) : Good t := by
  unfold Mk.SBV at h
  split at h; · cases h
  split at h; · cases h
  split at h; · cases h
  split at h <;> exact BV_good h

theorem BVOne_good {w t} (h : Mk.BVOne w = .ok t) : Good t := BV_good h
theorem BVZero_good {w t} (h : Mk.BVZero w = .ok t) : Good t := BV_good h

/-- `_MinWrap`/`_MaxWrap` for any comparison constructor that preserves `Good` -/
theorem minMaxWrap_good {le : Term → Term → Mk.R} (hle : ∀ a b c, le a b = .ok c → Good a → Good b → Good c)
    (isMin : Bool) : ∀ (n : Nat) (l : List Term), l.length ≤ n → ∀ t, Mk.minMaxWrap le isMin l = .ok t →
      (∀ a ∈ l, Good a) → Good t
  | 0, l, hn, t, h, _ => by
    cases l with
    | nil => rw [Mk.minMaxWrap.eq_def] at h; cases h
    | cons a r => simp at hn
  | n + 1, l, hn, t, h, hl => by
    rw [Mk.minMaxWrap.eq_def] at h
    split at h
    · cases h
    · cases h; exact hl _ (by simp)
    · next a b =>
      obtain ⟨c, hc, h⟩ := bind_ok' h
      have ha := hl a (by simp); have hb := hl b (by simp)
      have hcg := hle a b c hc ha hb
      split at h
      · exact Ite_good h hcg ha hb
      · exact Ite_good h hcg hb ha
    · next a b c rest =>
      simp only at h
      split at h
      · cases h
      · next x hx =>
        split at h
        · cases h
        · next y hy =>
          obtain ⟨cc, hc, h⟩ := bind_ok' h
          have hlen : (a :: b :: c :: rest).length / 2 ≤ (a :: b :: c :: rest).length := Nat.div_le_self _ _
          have hxg : Good x := minMaxWrap_good hle isMin n _ (by
            simp only [List.length_take, List.length_cons] at hn ⊢; omega) x hx
            (fun u hu => hl u (List.mem_of_mem_take hu))
          have hyg : Good y := minMaxWrap_good hle isMin n _ (by
            simp only [List.length_drop, List.length_cons] at hn ⊢; omega) y hy
            (fun u hu => hl u (List.mem_of_mem_drop hu))
          have hcg := hle x y cc hc hxg hyg
          split at h
          · exact Ite_good h hcg hxg hyg
          · exact Ite_good h hcg hyg hxg

theorem Min_good {args t} (h : Mk.Min args = .ok t) (ha : ∀ a ∈ args, Good a) : Good t :=
  minMaxWrap_good (fun _ _ _ h hl hr => LE_good h hl hr) true _ args (Nat.le_refl _) t h ha
theorem Max_good {args t} (h : Mk.Max args = .ok t) (ha : ∀ a ∈ args, Good a) : Good t :=
  minMaxWrap_good (fun _ _ _ h hl hr => LE_good h hl hr) false _ args (Nat.le_refl _) t h ha
theorem MinBV_good {s : Bool} {args t} (h : Mk.MinBV s args = .ok t) (ha : ∀ a ∈ args, Good a) : Good t := by
  cases s
  · exact minMaxWrap_good (fun _ _ _ h hl hr => BVULE_good h hl hr) true _ args (Nat.le_refl _) t h ha
  · exact minMaxWrap_good (fun _ _ _ h hl hr => BVSLE_good h hl hr) true _ args (Nat.le_refl _) t h ha
theorem MaxBV_good {s : Bool} {args t} (h : Mk.MaxBV s args = .ok t) (ha : ∀ a ∈ args, Good a) : Good t := by
  cases s
  · exact minMaxWrap_good (fun _ _ _ h hl hr => BVULE_good h hl hr) false _ args (Nat.le_refl _) t h ha
  · exact minMaxWrap_good (fun _ _ _ h hl hr => BVSLE_good h hl hr) false _ args (Nat.le_refl _) t h ha

theorem BVURem_good' {l r t} (h : Mk.BVURem l r = .ok t) (hl : Good l) (hr : Good r) : Good t := BVURem_good h hl hr

/-- `BVSMod`: the SMT-LIB abbreviation, constructor call by constructor call -/
theorem BVSMod_good {s t r : Term} (h : Mk.BVSMod s t = .ok r) (hs : Good s) (ht : Good t) : Good r := by
  unfold Mk.BVSMod at h
  obtain ⟨m, _, h⟩ := bind_ok' h
  obtain ⟨zero1, hz1, h⟩ := bind_ok' h
  obtain ⟨one1, ho1, h⟩ := bind_ok' h
  obtain ⟨msbS, hmS, h⟩ := bind_ok' h
  obtain ⟨msbT, hmT, h⟩ := bind_ok' h
  obtain ⟨sPos, hsP, h⟩ := bind_ok' h
  obtain ⟨negS, hnS, h⟩ := bind_ok' h
  obtain ⟨absS, haS, h⟩ := bind_ok' h
  obtain ⟨tPos, htP, h⟩ := bind_ok' h
  obtain ⟨negT, hnT, h⟩ := bind_ok' h
  obtain ⟨absT, haT, h⟩ := bind_ok' h
  obtain ⟨u, hu, h⟩ := bind_ok' h
  obtain ⟨zeroM, hzM, h⟩ := bind_ok' h
  obtain ⟨cond1, hc1, h⟩ := bind_ok' h
  obtain ⟨c2a, h2a, h⟩ := bind_ok' h
  obtain ⟨c2b, h2b, h⟩ := bind_ok' h
  obtain ⟨cond2, hc2, h⟩ := bind_ok' h
  obtain ⟨c3a, h3a, h⟩ := bind_ok' h
  obtain ⟨c3b, h3b, h⟩ := bind_ok' h
  obtain ⟨cond3, hc3, h⟩ := bind_ok' h
  obtain ⟨c4a, h4a, h⟩ := bind_ok' h
  obtain ⟨c4b, h4b, h⟩ := bind_ok' h
  obtain ⟨cond4, hc4, h⟩ := bind_ok' h
  obtain ⟨negU, hnU, h⟩ := bind_ok' h
  obtain ⟨case3, hk3, h⟩ := bind_ok' h
  obtain ⟨case4, hk4, h⟩ := bind_ok' h
  obtain ⟨case5, hk5, h⟩ := bind_ok' h
  obtain ⟨c12, h12, h⟩ := bind_ok' h
  obtain ⟨inner, hin, h⟩ := bind_ok' h
  obtain ⟨mid, hmid, h⟩ := bind_ok' h
  have gz1 := BV_good hz1
  have go1 := BV_good ho1
  have gmS := BVExtract_good hmS hs
  have gmT := BVExtract_good hmT ht
  have gabsS := Ite_good haS (Equals_good hsP gmS gz1) hs (BVNeg_good hnS hs)
  have gabsT := Ite_good haT (Equals_good htP gmT gz1) ht (BVNeg_good hnT ht)
  have gu := BVURem_good hu gabsS gabsT
  have gc1 := Equals_good hc1 gu (BV_good hzM)
  have gc2 := And_good hc2 (good2 (Equals_good h2a gmS gz1) (Equals_good h2b gmT gz1))
  have gc3 := And_good hc3 (good2 (Equals_good h3a gmS go1) (Equals_good h3b gmT gz1))
  have gc4 := And_good hc4 (good2 (Equals_good h4a gmS gz1) (Equals_good h4b gmT go1))
  have gk3 := BVAdd_good hk3 (good2 (BVNeg_good hnU gu) ht)
  have gk4 := BVAdd_good hk4 (good2 gu ht)
  have gk5 := BVNeg_good hk5 gu
  have g12 := Or_good h12 (good2 gc1 gc2)
  have gin := Ite_good hin gc4 gk4 gk5
  have gmid := Ite_good hmid gc3 gk3 gin
  exact Ite_good h g12 gu gmid

/-! ## Everything the constructors build

`Built t`: `t` is obtained from constants and plain symbols by calls of the public constructors
of `Impl/Mk.lean` that returned a formula (one rule per constructor; the rule *is* the list of
constructors covered). Side conditions that are not enforced by `Mk` itself: quantifier binders
are plain symbols (enforced by the repaired code, f0cd2ee, not by `Mk`/`typeOfNode`), `Function`
applied to no parameter names a constant, the assignments of `Array` form a dictionary (pairwise
distinct keys — Python passes a `dict`, `Mk` a list) with constant keys (index sorts that are not
array sorts: what C05's `ConstKeys` asks). `Pow` is covered where it folds two constants; a symbolic
`Pow` creates a `pow` node, which has no semantics and is outside `wf` (single-step statement
`Pow_step_partial`). Not covered: `BV` given as a string (`BVStr`), the infix layer. -/
inductive Built : Term → Prop
  | boolC (v : Bool) : Built (Mk.BoolC v)
  | intC (n : Int) : Built (Mk.IntC n)
  | realC (q : Rat) : Built (Mk.RealC q)
  | stringC (s : String) : Built (Mk.StringC s)
  | symbol (s : Sym) : s.params = [] → Built (Term.sym s)
  | BV {v : Int} {w : Nat} {t : Term} : Mk.BV v w = .ok t → Built t
  | SBV {v : Int} {w : Nat} {t : Term} : Mk.SBV v w = .ok t → Built t
  | BVOne {w : Nat} {t : Term} : Mk.BVOne w = .ok t → Built t
  | BVZero {w : Nat} {t : Term} : Mk.BVZero w = .ok t → Built t
  | Not {f : Term} {t : Term} : Built f → Mk.Not f = .ok t → Built t
  | ToReal {f : Term} {t : Term} : Built f → Mk.ToReal f = .ok t → Built t
  | BVNot {f : Term} {t : Term} : Built f → Mk.BVNot f = .ok t → Built t
  | BVNeg {f : Term} {t : Term} : Built f → Mk.BVNeg f = .ok t → Built t
  | BVToNatural {f : Term} {t : Term} : Built f → Mk.BVToNatural f = .ok t → Built t
  | StrLength {f : Term} {t : Term} : Built f → Mk.StrLength f = .ok t → Built t
  | StrToInt {f : Term} {t : Term} : Built f → Mk.StrToInt f = .ok t → Built t
  | IntToStr {f : Term} {t : Term} : Built f → Mk.IntToStr f = .ok t → Built t
  | Abs {f : Term} {t : Term} : Built f → Mk.Abs f = .ok t → Built t
  | Implies {l r : Term} {t : Term} : Built l → Built r → Mk.Implies l r = .ok t → Built t
  | Iff {l r : Term} {t : Term} : Built l → Built r → Mk.Iff l r = .ok t → Built t
  | Minus {l r : Term} {t : Term} : Built l → Built r → Mk.Minus l r = .ok t → Built t
  | Div {l r : Term} {t : Term} : Built l → Built r → Mk.Div l r = .ok t → Built t
  | Equals {l r : Term} {t : Term} : Built l → Built r → Mk.Equals l r = .ok t → Built t
  | NotEquals {l r : Term} {t : Term} : Built l → Built r → Mk.NotEquals l r = .ok t → Built t
  | GE {l r : Term} {t : Term} : Built l → Built r → Mk.GE l r = .ok t → Built t
  | GT {l r : Term} {t : Term} : Built l → Built r → Mk.GT l r = .ok t → Built t
  | LE {l r : Term} {t : Term} : Built l → Built r → Mk.LE l r = .ok t → Built t
  | LT {l r : Term} {t : Term} : Built l → Built r → Mk.LT l r = .ok t → Built t
  | Xor {l r : Term} {t : Term} : Built l → Built r → Mk.Xor l r = .ok t → Built t
  | EqualsOrIff {l r : Term} {t : Term} : Built l → Built r → Mk.EqualsOrIff l r = .ok t → Built t
  | BVXor {l r : Term} {t : Term} : Built l → Built r → Mk.BVXor l r = .ok t → Built t
  | BVSub {l r : Term} {t : Term} : Built l → Built r → Mk.BVSub l r = .ok t → Built t
  | BVUDiv {l r : Term} {t : Term} : Built l → Built r → Mk.BVUDiv l r = .ok t → Built t
  | BVURem {l r : Term} {t : Term} : Built l → Built r → Mk.BVURem l r = .ok t → Built t
  | BVSDiv {l r : Term} {t : Term} : Built l → Built r → Mk.BVSDiv l r = .ok t → Built t
  | BVSRem {l r : Term} {t : Term} : Built l → Built r → Mk.BVSRem l r = .ok t → Built t
  | BVULT {l r : Term} {t : Term} : Built l → Built r → Mk.BVULT l r = .ok t → Built t
  | BVUGT {l r : Term} {t : Term} : Built l → Built r → Mk.BVUGT l r = .ok t → Built t
  | BVULE {l r : Term} {t : Term} : Built l → Built r → Mk.BVULE l r = .ok t → Built t
  | BVUGE {l r : Term} {t : Term} : Built l → Built r → Mk.BVUGE l r = .ok t → Built t
  | BVSLT {l r : Term} {t : Term} : Built l → Built r → Mk.BVSLT l r = .ok t → Built t
  | BVSGT {l r : Term} {t : Term} : Built l → Built r → Mk.BVSGT l r = .ok t → Built t
  | BVSLE {l r : Term} {t : Term} : Built l → Built r → Mk.BVSLE l r = .ok t → Built t
  | BVSGE {l r : Term} {t : Term} : Built l → Built r → Mk.BVSGE l r = .ok t → Built t
  | BVComp {l r : Term} {t : Term} : Built l → Built r → Mk.BVComp l r = .ok t → Built t
  | BVNand {l r : Term} {t : Term} : Built l → Built r → Mk.BVNand l r = .ok t → Built t
  | BVNor {l r : Term} {t : Term} : Built l → Built r → Mk.BVNor l r = .ok t → Built t
  | BVXnor {l r : Term} {t : Term} : Built l → Built r → Mk.BVXnor l r = .ok t → Built t
  | BVSMod {l r : Term} {t : Term} : Built l → Built r → Mk.BVSMod l r = .ok t → Built t
  | StrContains {l r : Term} {t : Term} : Built l → Built r → Mk.StrContains l r = .ok t → Built t
  | StrPrefixOf {l r : Term} {t : Term} : Built l → Built r → Mk.StrPrefixOf l r = .ok t → Built t
  | StrSuffixOf {l r : Term} {t : Term} : Built l → Built r → Mk.StrSuffixOf l r = .ok t → Built t
  | StrCharAt {l r : Term} {t : Term} : Built l → Built r → Mk.StrCharAt l r = .ok t → Built t
  | Select {l r : Term} {t : Term} : Built l → Built r → Mk.Select l r = .ok t → Built t
  | Ite {a b c : Term} {t : Term} : Built a → Built b → Built c → Mk.Ite a b c = .ok t → Built t
  | StrIndexOf {a b c : Term} {t : Term} : Built a → Built b → Built c → Mk.StrIndexOf a b c = .ok t → Built t
  | StrReplace {a b c : Term} {t : Term} : Built a → Built b → Built c → Mk.StrReplace a b c = .ok t → Built t
  | StrSubstr {a b c : Term} {t : Term} : Built a → Built b → Built c → Mk.StrSubstr a b c = .ok t → Built t
  | Store {a b c : Term} {t : Term} : Built a → Built b → Built c → Mk.Store a b c = .ok t → Built t
  | And {args : List Term} {t : Term} : (∀ a ∈ args, Built a) → Mk.And args = .ok t → Built t
  | Or {args : List Term} {t : Term} : (∀ a ∈ args, Built a) → Mk.Or args = .ok t → Built t
  | Plus {args : List Term} {t : Term} : (∀ a ∈ args, Built a) → Mk.Plus args = .ok t → Built t
  | Times {args : List Term} {t : Term} : (∀ a ∈ args, Built a) → Mk.Times args = .ok t → Built t
  | AtMostOne {args : List Term} {t : Term} : (∀ a ∈ args, Built a) → Mk.AtMostOne args = .ok t → Built t
  | ExactlyOne {args : List Term} {t : Term} : (∀ a ∈ args, Built a) → Mk.ExactlyOne args = .ok t → Built t
  | AllDifferent {args : List Term} {t : Term} : (∀ a ∈ args, Built a) → Mk.AllDifferent args = .ok t → Built t
  | Min {args : List Term} {t : Term} : (∀ a ∈ args, Built a) → Mk.Min args = .ok t → Built t
  | Max {args : List Term} {t : Term} : (∀ a ∈ args, Built a) → Mk.Max args = .ok t → Built t
  | BVAnd {args : List Term} {t : Term} : (∀ a ∈ args, Built a) → Mk.BVAnd args = .ok t → Built t
  | BVOr {args : List Term} {t : Term} : (∀ a ∈ args, Built a) → Mk.BVOr args = .ok t → Built t
  | BVAdd {args : List Term} {t : Term} : (∀ a ∈ args, Built a) → Mk.BVAdd args = .ok t → Built t
  | BVMul {args : List Term} {t : Term} : (∀ a ∈ args, Built a) → Mk.BVMul args = .ok t → Built t
  | BVConcat {args : List Term} {t : Term} : (∀ a ∈ args, Built a) → Mk.BVConcat args = .ok t → Built t
  | StrConcat {args : List Term} {t : Term} : (∀ a ∈ args, Built a) → Mk.StrConcat args = .ok t → Built t
  | MinBV {s : Bool} {args : List Term} {t : Term} : (∀ a ∈ args, Built a) → Mk.MinBV s args = .ok t → Built t
  | MaxBV {s : Bool} {args : List Term} {t : Term} : (∀ a ∈ args, Built a) → Mk.MaxBV s args = .ok t → Built t
  | BVExtract {f : Term} {start : Int} {stop : Option Int} {t : Term} :
      Built f → Mk.BVExtract f start stop = .ok t → Built t
  | BVRol {f : Term} {k : Int} {t : Term} : Built f → Mk.BVRol f k = .ok t → Built t
  | BVRor {f : Term} {k : Int} {t : Term} : Built f → Mk.BVRor f k = .ok t → Built t
  | BVZExt {f : Term} {k : Int} {t : Term} : Built f → Mk.BVZExt f k = .ok t → Built t
  | BVSExt {f : Term} {k : Int} {t : Term} : Built f → Mk.BVSExt f k = .ok t → Built t
  | BVRepeat {f : Term} {k : Int} {t : Term} : Built f → Mk.BVRepeat f k = .ok t → Built t
  | BVLShl {l : Term} {r : Mk.Arg} {t : Term} : Built l → (∀ u, Mk.asTerm r = some u → Built u) →
      Mk.BVLShl l r = .ok t → Built t
  | BVLShr {l : Term} {r : Mk.Arg} {t : Term} : Built l → (∀ u, Mk.asTerm r = some u → Built u) →
      Mk.BVLShr l r = .ok t → Built t
  | BVAShr {l : Term} {r : Mk.Arg} {t : Term} : Built l → (∀ u, Mk.asTerm r = some u → Built u) →
      Mk.BVAShr l r = .ok t → Built t
  | Function {f : Sym} {params : List Term} {t : Term} : (∀ a ∈ params, Built a) → (params = [] → f.params = []) →
      Mk.Function f params = .ok t → Built t
  | ForAll {vs : List Sym} {f : Term} {t : Term} : Built f → (∀ v ∈ vs, v.params = []) →
      Mk.ForAll vs f = .ok t → Built t
  | Exists {vs : List Sym} {f : Term} {t : Term} : Built f → (∀ v ∈ vs, v.params = []) →
      Mk.Exists vs f = .ok t → Built t
  | Array {idx : Ty} {d : Term} {assigned : List (Term × Term)} {t : Term} : Built d →
      (∀ kv ∈ assigned, Built kv.1) → (∀ kv ∈ assigned, Built kv.2) →
      (assigned.map Prod.fst).Nodup → (∀ kv ∈ assigned, kv.1.op.isConstant = true) →
      Mk.Array idx d assigned = .ok t → Built t
  | PowConst {b e : Term} {t : Term} : Mk.isConstant b = true → Mk.Pow b e = .ok t → Built t

/-- **Every formula the public constructors build is accepted by the checker at every node and
lies outside the holes of F06.** -/
theorem built_good {t : Term} (hb : Built t) : Good t := by
  induction hb with
  | boolC v => exact BoolC_good v
  | intC n => exact IntC_good n
  | realC q => exact RealC_good q
  | stringC s => exact StringC_good s
  | symbol s hs => exact sym_good s hs
  | BV h => exact BV_good h
  | SBV h => exact SBV_good h
  | BVOne h => exact BVOne_good h
  | BVZero h => exact BVZero_good h
  | Not _ h ih => exact Not_good h ih
  | ToReal _ h ih => exact ToReal_good h ih
  | BVNot _ h ih => exact BVNot_good h ih
  | BVNeg _ h ih => exact BVNeg_good h ih
  | BVToNatural _ h ih => exact BVToNatural_good h ih
  | StrLength _ h ih => exact StrLength_good h ih
  | StrToInt _ h ih => exact StrToInt_good h ih
  | IntToStr _ h ih => exact IntToStr_good h ih
  | Abs _ h ih => exact Abs_good h ih
  | Implies _ _ h ihl ihr => exact Implies_good h ihl ihr
  | Iff _ _ h ihl ihr => exact Iff_good h ihl ihr
  | Minus _ _ h ihl ihr => exact Minus_good h ihl ihr
  | Div _ _ h ihl ihr => exact Div_good h ihl ihr
  | Equals _ _ h ihl ihr => exact Equals_good h ihl ihr
  | NotEquals _ _ h ihl ihr => exact NotEquals_good h ihl ihr
  | GE _ _ h ihl ihr => exact GE_good h ihl ihr
  | GT _ _ h ihl ihr => exact GT_good h ihl ihr
  | LE _ _ h ihl ihr => exact LE_good h ihl ihr
  | LT _ _ h ihl ihr => exact LT_good h ihl ihr
  | Xor _ _ h ihl ihr => exact Xor_good h ihl ihr
  | EqualsOrIff _ _ h ihl ihr => exact EqualsOrIff_good h ihl ihr
  | BVXor _ _ h ihl ihr => exact BVXor_good h ihl ihr
  | BVSub _ _ h ihl ihr => exact BVSub_good h ihl ihr
  | BVUDiv _ _ h ihl ihr => exact BVUDiv_good h ihl ihr
  | BVURem _ _ h ihl ihr => exact BVURem_good h ihl ihr
  | BVSDiv _ _ h ihl ihr => exact BVSDiv_good h ihl ihr
  | BVSRem _ _ h ihl ihr => exact BVSRem_good h ihl ihr
  | BVULT _ _ h ihl ihr => exact BVULT_good h ihl ihr
  | BVUGT _ _ h ihl ihr => exact BVUGT_good h ihl ihr
  | BVULE _ _ h ihl ihr => exact BVULE_good h ihl ihr
  | BVUGE _ _ h ihl ihr => exact BVUGE_good h ihl ihr
  | BVSLT _ _ h ihl ihr => exact BVSLT_good h ihl ihr
  | BVSGT _ _ h ihl ihr => exact BVSGT_good h ihl ihr
  | BVSLE _ _ h ihl ihr => exact BVSLE_good h ihl ihr
  | BVSGE _ _ h ihl ihr => exact BVSGE_good h ihl ihr
  | BVComp _ _ h ihl ihr => exact BVComp_good h ihl ihr
  | BVNand _ _ h ihl ihr => exact BVNand_good h ihl ihr
  | BVNor _ _ h ihl ihr => exact BVNor_good h ihl ihr
  | BVXnor _ _ h ihl ihr => exact BVXnor_good h ihl ihr
  | BVSMod _ _ h ihl ihr => exact BVSMod_good h ihl ihr
  | StrContains _ _ h ihl ihr => exact StrContains_good h ihl ihr
  | StrPrefixOf _ _ h ihl ihr => exact StrPrefixOf_good h ihl ihr
  | StrSuffixOf _ _ h ihl ihr => exact StrSuffixOf_good h ihl ihr
  | StrCharAt _ _ h ihl ihr => exact StrCharAt_good h ihl ihr
  | Select _ _ h ihl ihr => exact Select_good h ihl ihr
  | Ite _ _ _ h iha ihb ihc => exact Ite_good h iha ihb ihc
  | StrIndexOf _ _ _ h iha ihb ihc => exact StrIndexOf_good h iha ihb ihc
  | StrReplace _ _ _ h iha ihb ihc => exact StrReplace_good h iha ihb ihc
  | StrSubstr _ _ _ h iha ihb ihc => exact StrSubstr_good h iha ihb ihc
  | Store _ _ _ h iha ihb ihc => exact Store_good h iha ihb ihc
  | And _ h ih => exact And_good h ih
  | Or _ h ih => exact Or_good h ih
  | Plus _ h ih => exact Plus_good h ih
  | Times _ h ih => exact Times_good h ih
  | AtMostOne _ h ih => exact AtMostOne_good h ih
  | ExactlyOne _ h ih => exact ExactlyOne_good h ih
  | AllDifferent _ h ih => exact AllDifferent_good h ih
  | Min _ h ih => exact Min_good h ih
  | Max _ h ih => exact Max_good h ih
  | BVAnd _ h ih => exact BVAnd_good h ih
  | BVOr _ h ih => exact BVOr_good h ih
  | BVAdd _ h ih => exact BVAdd_good h ih
  | BVMul _ h ih => exact BVMul_good h ih
  | BVConcat _ h ih => exact BVConcat_good h ih
  | StrConcat _ h ih => exact StrConcat_good h ih
  | MinBV _ h ih => exact MinBV_good h ih
  | MaxBV _ h ih => exact MaxBV_good h ih
  | BVExtract _ h ih => exact BVExtract_good h ih
  | BVRol _ h ih => exact BVRol_good h ih
  | BVRor _ h ih => exact BVRor_good h ih
  | BVZExt _ h ih => exact BVZExt_good h ih
  | BVSExt _ h ih => exact BVSExt_good h ih
  | BVRepeat _ h ih => exact BVRepeat_good h ih
  | BVLShl _ _ h ihl ihr => exact BVLShl_good h ihl ihr
  | BVLShr _ _ h ihl ihr => exact BVLShr_good h ihl ihr
  | BVAShr _ _ h ihl ihr => exact BVAShr_good h ihl ihr
  | Function _ h0 h ih => exact Function_good h ih h0
  | ForAll _ hv h ih => exact ForAll_good h ih hv
  | Exists _ hv h ih => exact Exists_good h ih hv
  | Array _ _ _ hnd hck h ihd ihk ihv => exact Array_good h ihd (fun kv hkv => ⟨ihk kv hkv, ihv kv hkv⟩) hnd hck
  | PowConst hc h => exact Pow_const_good h hc

end C03
end PySMT
