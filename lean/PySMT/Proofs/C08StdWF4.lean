import PySMT.Proofs.C08StdWF3
/-!
# C08/C09: the standard reader only produces terms pySMT's checker accepts (4) — heads that are lists, declared
functions, atoms, `(_ bvN w)`, string literals
-/
namespace PySMT.Parser.Agree
open PySMT PySMT.Parser PySMT.Std PySMT.Sexp

/-! ## `((_ f i…) args)`, `((as const σ) v)` -/

theorem wf_asconst (env : SEnv) (c : String) (sort : Sexp) (hc : symName? c = some "const") (as : List TT) (u : Term)
    (τ : Ty) (hargs : ∀ a ∈ as, WT a.1 a.2)
    (hstd : applyHead env [.atom "as", .atom c, sort] as = .ok (u, τ)) : WT u τ := by
  unfold applyHead at hstd
  split at hstd
  · rename_i heq
    simp at heq
  · rename_i heq
    simp only [List.cons.injEq, Sexp.atom.injEq, and_true, true_and] at heq
    obtain ⟨rfl, rfl⟩ := heq
    simp only [hc, beq_self_eq_true, if_true] at hstd
    cases hs : sortStd env sort with
    | error e => simp [hs] at hstd
    | ok ty =>
    simp only [hs] at hstd
    split at hstd
    · rename_i it et v heq1
      cases heq1
      split at hstd
      · rename_i hv
        cases hstd
        have hv' : v.2 = et := by simpa using hv
        have hV := hargs v (by simp)
        refine wt_terms (σs := [et]) (fun t ht => ?_) (by simp [hV.2, hv']) rfl ?_
        · simp only [List.mem_cons, List.mem_nil_iff, or_false] at ht; subst ht; exact hV.1
        · simp [C03.tyNode, typeOfNode.chk]
      · cases hstd
    · cases hstd
    · cases hstd
  · rename_i h1 h2
    exact absurd rfl (h2 _ _)

theorem wf_rot (f : String) (op : Op) (hf : f = "rotate_left" ∧ op = .bvRol ∨ f = "rotate_right" ∧ op = .bvRor)
    (k : Nat) (as : List TT) (u : Term) (τ : Ty) (hargs : ∀ a ∈ as, WT a.1 a.2)
    (hk : ∀ a ∈ as, ∀ m, a.2 = .bv m → k ≤ m)
    (hstd : applyIndexed f [k] as = .ok (u, τ)) : WT u τ := by
  obtain ⟨a, m, rfl, hm, rfl, rfl⟩ := std_rot f op hf k as u τ hstd
  have hop : op = .bvRol ∨ op = .bvRor := by rcases hf with ⟨_, h⟩ | ⟨_, h⟩ <;> simp [h]
  have hkm := hk a (by simp) m hm
  refine wt_std hargs (by rcases hop with rfl | rfl <;> rfl) ?_
  simp only [List.map_cons, List.map_nil, hm]
  have h1 : ¬ (m < k) := by omega
  rcases hop with rfl | rfl <;> simp [C03.tyNode, h1]

theorem applyHead_wf (env : SEnv) (hd : List Sexp) (hf : fragHead hd = true) (as : List TT) (u : Term) (τ : Ty)
    (hargs : ∀ a ∈ as, WT a.1 a.2)
    (hrot : ∀ f k kk, hd = [.atom "_", .atom f, .atom k] → (f = "rotate_left" ∨ f = "rotate_right") →
      numeral? k = some kk → ∀ a ∈ as, ∀ m, a.2 = .bv m → kk ≤ m)
    (hstd : applyHead env hd as = .ok (u, τ)) : WT u τ := by
  match hd, hf with
  | [.atom u', .atom f, .atom i, .atom j], hf =>
    simp only [fragHead, Bool.and_eq_true, beq_iff_eq] at hf
    obtain ⟨rfl, rfl⟩ := hf
    simp only [applyHead, pyTok_idx.2.2.2.2.1] at hstd
    cases hidx : indices [.atom i, .atom j] with
    | none => simp [hidx] at hstd
    | some ns =>
      obtain ⟨ni, nj, hi, hj, rfl⟩ := indices_two hidx
      simp only [hidx, List.isEmpty_cons, Bool.false_eq_true, if_false] at hstd
      exact wf_extract ni nj as u τ hargs hstd
  | [.atom u', .atom f, x], hf =>
    simp only [fragHead, Bool.or_eq_true, Bool.and_eq_true, beq_iff_eq] at hf
    rcases hf with ⟨⟨rfl, hf⟩, hx⟩ | ⟨⟨rfl, hcst⟩, hsort⟩
    · match x, hx with
      | .atom k, _ =>
        rcases hf with (((rfl | rfl) | rfl) | rfl) | rfl
        · simp only [applyHead, pyTok_idx.2.2.2.2.2.1] at hstd
          cases hidx : indices [.atom k] with
          | none => simp [hidx] at hstd
          | some ns =>
            obtain ⟨nk, hk, rfl⟩ := indices_one hidx
            simp only [hidx, List.isEmpty_cons, Bool.false_eq_true, if_false] at hstd
            exact wf_ext "zero_extend" .bvZext (Or.inl ⟨rfl, rfl⟩) nk as u τ hargs hstd
        · simp only [applyHead, pyTok_idx.2.2.2.2.2.2.1] at hstd
          cases hidx : indices [.atom k] with
          | none => simp [hidx] at hstd
          | some ns =>
            obtain ⟨nk, hk, rfl⟩ := indices_one hidx
            simp only [hidx, List.isEmpty_cons, Bool.false_eq_true, if_false] at hstd
            exact wf_ext "sign_extend" .bvSext (Or.inr ⟨rfl, rfl⟩) nk as u τ hargs hstd
        · simp only [applyHead, pyTok_idx.2.2.2.2.2.2.2] at hstd
          cases hidx : indices [.atom k] with
          | none => simp [hidx] at hstd
          | some ns =>
            obtain ⟨nk, hk, rfl⟩ := indices_one hidx
            simp only [hidx, List.isEmpty_cons, Bool.false_eq_true, if_false] at hstd
            exact wf_repeat nk as u τ hargs hstd
        · simp only [applyHead, pyTok_rot.2.2.1] at hstd
          cases hidx : indices [.atom k] with
          | none => simp [hidx] at hstd
          | some ns =>
            obtain ⟨nk, hk, rfl⟩ := indices_one hidx
            simp only [hidx, List.isEmpty_cons, Bool.false_eq_true, if_false] at hstd
            exact wf_rot "rotate_left" .bvRol (Or.inl ⟨rfl, rfl⟩) nk as u τ hargs (hrot _ _ nk rfl (Or.inl rfl) hk) hstd
        · simp only [applyHead, pyTok_rot.2.2.2] at hstd
          cases hidx : indices [.atom k] with
          | none => simp [hidx] at hstd
          | some ns =>
            obtain ⟨nk, hk, rfl⟩ := indices_one hidx
            simp only [hidx, List.isEmpty_cons, Bool.false_eq_true, if_false] at hstd
            exact wf_rot "rotate_right" .bvRor (Or.inr ⟨rfl, rfl⟩) nk as u τ hargs (hrot _ _ nk rfl (Or.inr rfl) hk) hstd
    · exact wf_asconst env f x hcst as u τ hargs hstd

/-! ## applications of declared functions -/

theorem applyUser_wf (env : SEnv) (hnd : env.defs = []) (f : String) (as : List TT) (u : Term) (τ : Ty) (hne : as ≠ [])
    (hargs : ∀ a ∈ as, WT a.1 a.2) (hstd : applyUser env f as = .ok (u, τ)) : WT u τ := by
  unfold applyUser at hstd
  cases hlf : env.lookupFun f with
  | none =>
    have : env.lookupDef f = none := by simp [SEnv.lookupDef, hnd]
    simp [hlf, this] at hstd
  | some s =>
    simp only [hlf] at hstd
    split at hstd
    · cases hstd
    · split at hstd
      · rename_i hts
        simp only [Except.ok.injEq, Prod.mk.injEq] at hstd
        obtain ⟨rfl, rfl⟩ := hstd
        have hts' : as.map (·.2) = s.params := by simpa using hts
        rw [Term.app]
        refine wt_terms (σs := as.map (·.2)) (fst_wf hargs) (fst_typeOf hargs) ?_ ?_
        · cases as with
          | nil => exact absurd rfl hne
          | cons _ _ => simp [Op.shapeOK]
        · rw [hts']; simp [C03.tyNode]
      · cases hstd

/-! ## names bound in the scope -/

theorem wt_sym (s : Sym) (hp : s.params = []) : WT (Term.sym s) s.ret := WT_of_TOK (tok_sym s hp)

theorem lookupScope_wf (n : String) : ∀ (sc : List Binding) (crossed : List Sym) (t : Term) (ty : Ty), ScopeWF sc →
    lookupScope n sc crossed = some (.ok (t, ty)) → WT t ty
  | [], _, _, _, _, h => by simp [lookupScope] at h
  | .var s :: rest, crossed, t, ty, hs, h => by
    simp only [lookupScope] at h
    simp only [ScopeWF] at hs
    split at h
    · simp only [Option.some.injEq, Except.ok.injEq, Prod.mk.injEq] at h
      obtain ⟨rfl, rfl⟩ := h
      exact wt_sym s hs.1
    · exact lookupScope_wf n rest _ t ty hs.2 h
  | .letb m t' ty' :: rest, crossed, t, ty, hs, h => by
    simp only [lookupScope] at h
    simp only [ScopeWF] at hs
    split at h
    · split at h
      · simp at h
      · simp only [Option.some.injEq, Except.ok.injEq, Prod.mk.injEq] at h
        obtain ⟨rfl, rfl⟩ := h
        exact hs.1
    · exact lookupScope_wf n rest _ t ty hs.2 h

theorem scopeWF_append : ∀ (new sc : List Binding), ScopeWF new → ScopeWF sc → ScopeWF (new ++ sc)
  | [], _, _, h => h
  | .var s :: rest, sc, h1, h2 => by
    simp only [ScopeWF, List.cons_append] at h1 ⊢
    exact ⟨h1.1, scopeWF_append rest sc h1.2 h2⟩
  | .letb _ _ _ :: rest, sc, h1, h2 => by
    simp only [ScopeWF, List.cons_append] at h1 ⊢
    exact ⟨h1.1, scopeWF_append rest sc h1.2 h2⟩

theorem scopeWF_vars : ∀ (syms : List Sym), (∀ s ∈ syms, s.params = []) → ScopeWF (syms.map Binding.var)
  | [], _ => trivial
  | s :: rest, h => by
    simp only [List.map_cons, ScopeWF]
    exact ⟨h s (by simp), scopeWF_vars rest (fun x hx => h x (by simp [hx]))⟩

/-! ## atoms, `(_ bvN w)`, string literals -/

theorem atom_wf (env : SEnv) (hnd : env.defs = []) (sc : List Binding) (hsc : ScopeWF sc) (tok : String)
    (u : Term) (τ : Ty) (hstd : rd env sc (.atom tok) = .ok (u, τ)) : WT u τ := by
  rw [rd] at hstd
  unfold atomTerm at hstd
  cases hnum : numeral? tok with
  | some n =>
    simp only [hnum] at hstd
    split at hstd
    · cases hstd; exact WT_of_TOK (tok_real _)
    · cases hstd; exact WT_of_TOK (tok_int _)
  | none =>
  simp only [hnum] at hstd
  cases hdec : decimal? tok with
  | some q =>
    simp only [hdec, Except.ok.injEq, Prod.mk.injEq] at hstd
    obtain ⟨rfl, rfl⟩ := hstd
    exact WT_of_TOK (tok_real _)
  | none =>
  simp only [hdec] at hstd
  cases hbin : binary? tok with
  | some vw =>
    obtain ⟨v, w⟩ := vw
    obtain ⟨_, _, _, _, hv⟩ := Lit.literal_binary none false tok v w hbin
    simp only [hbin, Except.ok.injEq, Prod.mk.injEq] at hstd
    obtain ⟨rfl, rfl⟩ := hstd
    exact WT_of_TOK (tok_bvc v w hv)
  | none =>
  simp only [hbin] at hstd
  cases hhex : hex? tok with
  | some vw =>
    obtain ⟨v, w⟩ := vw
    obtain ⟨_, _, _, _, hv⟩ := Lit.literal_hex none false tok v w hhex
    simp only [hhex, Except.ok.injEq, Prod.mk.injEq] at hstd
    obtain ⟨rfl, rfl⟩ := hstd
    exact WT_of_TOK (tok_bvc v w hv)
  | none =>
  simp only [hhex] at hstd
  cases hsn : symName? tok with
  | none => simp [hsn] at hstd
  | some n =>
    simp only [hsn] at hstd
    cases hls : lookupScope n sc [] with
    | some r =>
      simp only [hls] at hstd
      subst hstd
      exact lookupScope_wf n sc [] u τ hsc hls
    | none =>
      simp only [hls] at hstd
      split at hstd
      · cases hstd; exact WT_of_TOK tok_tt
      · split at hstd
        · cases hstd; exact WT_of_TOK tok_ff
        · cases hlf : env.lookupFun n with
          | some s =>
            simp only [hlf] at hstd
            split at hstd
            · rename_i hp
              cases hstd
              exact wt_sym s (by simpa using hp)
            · cases hstd
          | none =>
            have : env.lookupDef n = none := by simp [SEnv.lookupDef, hnd]
            simp [hlf, this] at hstd

theorem str_wf (env : SEnv) (sc : List Binding) (lit : String) (u : Term) (τ : Ty)
    (hstd : rd env sc (.str lit) = .ok (u, τ)) : WT u τ := by
  rw [rd] at hstd
  cases h : strConstOf lit with
  | error e => simp [h, Except.map] at hstd
  | ok v =>
    simp only [h, Except.map, Except.ok.injEq, Prod.mk.injEq] at hstd
    obtain ⟨rfl, rfl⟩ := hstd
    exact WT_of_TOK (tok_str v)

theorem bvlit_wf (env : SEnv) (sc : List Binding) (args : List Sexp) (u : Term) (τ : Ty)
    (h : rd env sc (.list (.atom "_" :: args)) = .ok (u, τ)) : WT u τ := by
  rw [rd] at h
  simp (config := { decide := true }) only [if_false, if_true] at h
  unfold bvLitTerm at h
  split at h
  · split at h
    · rename_i v k _ _
      split at h
      · rename_i hk
        cases h
        exact WT_of_TOK (tok_bvc _ k (Nat.mod_lt _ (Nat.pow_pos (by decide))))
      · cases h
    · cases h
  · cases h

end PySMT.Parser.Agree
