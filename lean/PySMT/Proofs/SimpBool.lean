import PySMT.Impl.Simp.Bool
import PySMT.Proofs.SimpBuild
import PySMT.Proofs.SimpBoolAC
/-!
# `RuleOK` for `walk_iff`, `walk_implies`, `walk_ite`, `walk_equals`, `walk_le`, `walk_lt`,
`walk_function`, `walk_toreal`
-/
namespace PySMT.Simp.BoolRules
open PySMT PySMT.Build PySMT.Simp

/-! ## shapes of well-formed nodes -/

theorem args2 {op : Op} {args : List Term} {p : Payload} (hwf : (Term.node op args p).wf = true)
    (h : ∀ n, op.shapeOK p n = true → n = 2) : ∃ a b, args = [a, b] := by
  have := h _ (wf_shape hwf)
  match args, this with
  | [a, b], _ => exact ⟨a, b, rfl⟩

theorem wf_iff_inv {args p τ} (hwf : (Term.node .iff args p).wf = true)
    (hty : (Term.node .iff args p).typeOf = some τ) : ∃ a b, args = [a, b] ∧ BT a ∧ BT b ∧ τ = .bool := by
  obtain ⟨a, b, rfl⟩ := args2 hwf (by intro n h; simpa [Op.shapeOK] using h)
  have := typeOf_iff_iff.mp hty
  exact ⟨a, b, rfl, ⟨wf_args hwf a (by simp), this.2 a (by simp)⟩, ⟨wf_args hwf b (by simp), this.2 b (by simp)⟩, this.1⟩

theorem wf_implies_inv {args p τ} (hwf : (Term.node .implies args p).wf = true)
    (hty : (Term.node .implies args p).typeOf = some τ) : ∃ a b, args = [a, b] ∧ BT a ∧ BT b ∧ τ = .bool := by
  obtain ⟨a, b, rfl⟩ := args2 hwf (by intro n h; simpa [Op.shapeOK] using h)
  have := typeOf_implies_iff.mp hty
  exact ⟨a, b, rfl, ⟨wf_args hwf a (by simp), this.2 a (by simp)⟩, ⟨wf_args hwf b (by simp), this.2 b (by simp)⟩, this.1⟩

theorem isBoolConst_none_or (t : Term) : (∃ b, isBoolConst t = some b) ∨ isBoolConst t = none := by
  cases h : isBoolConst t with
  | none => exact Or.inr rfl
  | some b => exact Or.inl ⟨b, rfl⟩

/-! ## `walk_iff` -/

theorem walkIff_ok : RuleOK .iff walkIff := by
  apply RuleOK.of_res
  intro p args τ hwf hty _
  obtain ⟨sl, sr, rfl, hl, hr, rfl⟩ := wf_iff_inv hwf hty
  have hml : sl ∈ [sl, sr] := by simp
  have hmr : sr ∈ [sl, sr] := by simp
  show Res _ _ (walkIff p [sl, sr])
  unfold walkIff
  simp only
  cases hcl : isBoolConst sl with
  | some l =>
    have el := isBoolConst_some hcl
    cases hcr : isBoolConst sr with
    | some r =>
      have er := isBoolConst_some hcr
      simp only
      refine Res.bool _ (fun I _ _ => ?_)
      rw [eval_iff, el, er]; simp
    | none =>
      simp only
      cases l with
      | true =>
        simp only [if_true]
        refine Res.arg (by simp) (by simp) rfl hmr hr.1 hr.2 (fun I hI _ => ?_)
        rw [eval_iff, el, eval_boolc, Val.isTrue_b]
        rw [eval_bool hr.1 hr.2 hI]; simp
      | false =>
        simp only [Bool.false_eq_true, if_false]
        refine Res.not_arg (by simp) (by simp) rfl hmr hr.1 hr.2 (fun I hI _ => ?_)
        rw [eval_iff, el, eval_boolc, Val.isTrue_b]
        cases (eval I sr).isTrue <;> rfl
  | none =>
    cases hcr : isBoolConst sr with
    | some r =>
      have er := isBoolConst_some hcr
      simp only
      cases r with
      | true =>
        simp only [if_true]
        refine Res.arg (by simp) (by simp) rfl hml hl.1 hl.2 (fun I hI _ => ?_)
        rw [eval_iff, er, eval_boolc, Val.isTrue_b]
        rw [eval_bool hl.1 hl.2 hI]; simp
      | false =>
        simp only [Bool.false_eq_true, if_false]
        refine Res.not_arg (by simp) (by simp) rfl hml hl.1 hl.2 (fun I hI _ => ?_)
        rw [eval_iff, er, eval_boolc, Val.isTrue_b]
        cases (eval I sl).isTrue <;> rfl
    | none =>
      simp only
      split
      · next h =>
        subst h
        rw [tt_eq]
        refine Res.bool _ (fun I _ _ => ?_)
        rw [eval_iff]; simp
      · exact Res.rebuild (by simp) (by simp) rfl hwf (typeOf_iff_iff.mpr (typeOf_iff_iff.mp hty)) rfl (fun _ => rfl)

/-! ## `walk_implies` -/

theorem walkImplies_ok : RuleOK .implies walkImplies := by
  apply RuleOK.of_res
  intro p args τ hwf hty _
  obtain ⟨sl, sr, rfl, hl, hr, rfl⟩ := wf_implies_inv hwf hty
  have hml : sl ∈ [sl, sr] := by simp
  have hmr : sr ∈ [sl, sr] := by simp
  show Res _ _ (walkImplies p [sl, sr])
  unfold walkImplies
  simp only
  cases hcl : isBoolConst sl with
  | some l =>
    have el := isBoolConst_some hcl
    simp only
    cases l with
    | true =>
      simp only [if_true]
      refine Res.arg (by simp) (by simp) rfl hmr hr.1 hr.2 (fun I hI _ => ?_)
      rw [eval_implies, el, eval_boolc, Val.isTrue_b]
      rw [eval_bool hr.1 hr.2 hI]; simp
    | false =>
      simp only [Bool.false_eq_true, if_false]
      rw [tt_eq]
      refine Res.bool _ (fun I _ _ => ?_)
      rw [eval_implies, el]; simp
  | none =>
    simp only
    cases hcr : isBoolConst sr with
    | some r =>
      have er := isBoolConst_some hcr
      simp only
      cases r with
      | true =>
        simp only [if_true]
        rw [tt_eq]
        refine Res.bool _ (fun I _ _ => ?_)
        rw [eval_implies, er]; simp
      | false =>
        simp only [Bool.false_eq_true, if_false]
        refine Res.not_arg (by simp) (by simp) rfl hml hl.1 hl.2 (fun I hI _ => ?_)
        rw [eval_implies, er, eval_boolc, Val.isTrue_b]; simp
    | none =>
      simp only
      split
      · next h =>
        subst h
        rw [tt_eq]
        refine Res.bool _ (fun I _ _ => ?_)
        rw [eval_implies]; cases (eval I sl).isTrue <;> rfl
      · exact Res.rebuild (by simp) (by simp) rfl hwf (typeOf_implies_iff.mpr (typeOf_implies_iff.mp hty)) rfl
          (fun _ => rfl)

/-! ## `walk_ite` -/

theorem typeOf_ite_inv {c a b : Term} {p : Payload} {τ : Ty} (hty : (Term.node .ite [c, a, b] p).typeOf = some τ) :
    c.typeOf = some .bool ∧ a.typeOf = some τ ∧ b.typeOf = some τ := by
  rw [typeOf_node] at hty
  simp only [List.map_cons, List.map_nil] at hty
  cases hc : c.typeOf with
  | none => rw [hc] at hty; cases hty
  | some tc =>
    cases ha : a.typeOf with
    | none => rw [hc, ha] at hty; cases tc <;> cases hty
    | some ta =>
      cases hb : b.typeOf with
      | none => rw [hc, ha, hb] at hty; cases tc <;> cases hty
      | some tb =>
        rw [hc, ha, hb] at hty
        cases tc <;> try (cases hty)
        change (if ta = tb then some ta else none) = some τ at hty
        split at hty
        · next h => subst h; cases hty; exact ⟨rfl, rfl, rfl⟩
        · cases hty

theorem walkIte_ok : RuleOK .ite walkIte := by
  apply RuleOK.of_res
  intro p args τ hwf hty _
  have hs := wf_shape hwf
  simp only [Op.shapeOK, beq_iff_eq] at hs
  match args, hs, hwf, hty with
  | [si, st, se], _, hwf, hty =>
    obtain ⟨hci, hct, hce⟩ := typeOf_ite_inv hty
    have wi := wf_args hwf si (by simp)
    have wt := wf_args hwf st (by simp)
    have we := wf_args hwf se (by simp)
    show Res _ _ (walkIte p [si, st, se])
    unfold walkIte
    simp only
    split
    · next h =>
      subst h
      refine Res.arg (by simp) (by simp) rfl (by simp) wt hct (fun I _ _ => ?_)
      rw [eval_ite]; split <;> rfl
    · cases hc : isBoolConst si with
      | some c =>
        have ec := isBoolConst_some hc
        simp only
        cases c with
        | true =>
          simp only [if_true]
          refine Res.arg (by simp) (by simp) rfl (by simp) wt hct (fun I _ _ => ?_)
          rw [eval_ite, ec]; simp
        | false =>
          simp only [Bool.false_eq_true, if_false]
          refine Res.arg (by simp) (by simp) rfl (by simp) we hce (fun I _ _ => ?_)
          rw [eval_ite, ec]; simp
      | none =>
        simp only
        refine Res.rebuild (by simp) (by simp) rfl hwf ?_ rfl (fun _ => rfl)
        rw [typeOf_node]
        simp only [List.map_cons, List.map_nil, hci, hct, hce]
        show (if τ = τ then some τ else none) = some τ
        simp

/-! ## `walk_le`, `walk_lt` -/

theorem typeOfNode_rel_real {op : Op} (hop : op = .le ∨ op = .lt) (p : Payload) (tb : Ty) :
    typeOfNode op p [some .real, some tb] = if allAre [some tb] .real then some .bool else none := by
  rcases hop with rfl | rfl <;> rfl

theorem typeOfNode_rel_other {op : Op} (hop : op = .le ∨ op = .lt) (p : Payload) (ta tb : Ty) (h : ta ≠ .real) :
    typeOfNode op p [some ta, some tb] = if allAre [some ta, some tb] .int then some .bool else none := by
  rcases hop with rfl | rfl <;> cases ta <;> first | rfl | exact absurd rfl h

/-- the two arguments of a well-typed `le`/`lt` are both Int or both Real -/
theorem typeOf_rel_inv {op : Op} (hop : op = .le ∨ op = .lt) {a b : Term} {p : Payload} {τ : Ty}
    (hwf : (Term.node op [a, b] p).wf = true) (hty : (Term.node op [a, b] p).typeOf = some τ) :
    τ = .bool ∧ ((a.typeOf = some .int ∧ b.typeOf = some .int) ∨ (a.typeOf = some .real ∧ b.typeOf = some .real)) := by
  obtain ⟨ta, ha⟩ := wf_typeOf a (wf_args hwf a (by simp))
  obtain ⟨tb, hb⟩ := wf_typeOf b (wf_args hwf b (by simp))
  rw [typeOf_node] at hty
  simp only [List.map_cons, List.map_nil, ha, hb] at hty
  by_cases hr : ta = .real
  · subst hr
    rw [typeOfNode_rel_real hop] at hty
    obtain ⟨h, rfl⟩ := of_ite_some hty
    simp only [allAre, List.all_cons, List.all_nil, Bool.and_true, beq_iff_eq, Option.some.injEq] at h
    subst h
    exact ⟨rfl, Or.inr ⟨ha, hb⟩⟩
  · rw [typeOfNode_rel_other hop p ta tb hr] at hty
    obtain ⟨h, rfl⟩ := of_ite_some hty
    simp only [allAre, List.all_cons, List.all_nil, Bool.and_true, Bool.and_eq_true, beq_iff_eq,
      Option.some.injEq] at h
    obtain ⟨rfl, rfl⟩ := h
    exact ⟨rfl, Or.inl ⟨ha, hb⟩⟩

/-- a `le`/`lt` node over two terms of one numeric sort is Boolean, whatever its payload -/
theorem typeOf_rel_mk {op : Op} (hop : op = .le ∨ op = .lt) {a b : Term} (p : Payload)
    (h : (a.typeOf = some .int ∧ b.typeOf = some .int) ∨ (a.typeOf = some .real ∧ b.typeOf = some .real)) :
    (Term.node op [a, b] p).typeOf = some .bool := by
  rw [typeOf_node]
  simp only [List.map_cons, List.map_nil]
  rcases hop with rfl | rfl <;> rcases h with ⟨h1, h2⟩ | ⟨h1, h2⟩ <;> rw [h1, h2] <;> rfl

theorem numVal_cases {t : Term} {q : Rat} (h : numVal t = some q) :
    (∃ n : Int, t = Term.int n ∧ q = n) ∨ t = Term.real q := by
  unfold numVal at h
  cases hi : isIntConst t with
  | some n =>
    rw [hi] at h
    simp only [Option.some.injEq] at h
    exact Or.inl ⟨n, isIntConst_some hi, h.symm⟩
  | none =>
    rw [hi] at h
    exact Or.inr (isRealConst_some h)

/-- the comparison of two numeric constants of one sort -/
theorem num_le_lt {sl sr : Term} {l r : Rat} (hl : numVal sl = some l) (hr : numVal sr = some r)
    (hty : (sl.typeOf = some .int ∧ sr.typeOf = some .int) ∨ (sl.typeOf = some .real ∧ sr.typeOf = some .real))
    (I : Interp) :
    Sem.le (eval I sl) (eval I sr) = decide (l ≤ r) ∧ Sem.lt (eval I sl) (eval I sr) = decide (l < r) := by
  rcases numVal_cases hl with ⟨n, rfl, rfl⟩ | rfl <;> rcases numVal_cases hr with ⟨m, rfl, rfl⟩ | rfl
  · simp only [eval_intc, Sem.le, Sem.lt, Rat.intCast_le_intCast, Rat.intCast_lt_intCast]
    exact ⟨trivial, trivial⟩
  · rcases hty with ⟨_, h⟩ | ⟨h, _⟩ <;> simp at h
  · rcases hty with ⟨h, _⟩ | ⟨_, h⟩ <;> simp at h
  · simp only [eval_realc, Sem.le, Sem.lt]
    exact ⟨trivial, trivial⟩

theorem isZero_cases {t : Term} (h : isZero t = true) : t = Term.int 0 ∨ t = Term.real 0 := by
  simp only [isZero, Bool.or_eq_true, beq_iff_eq] at h
  rcases h with h | h
  · exact Or.inl (isIntConst_some h)
  · exact Or.inr (isRealConst_some h)

theorem isMinus_some {t x y : Term} (h : isMinus t = some (x, y)) : ∃ p, t = .node .minus [x, y] p := by
  unfold isMinus at h
  split at h
  · next x' y' p => simp only [Option.some.injEq, Prod.mk.injEq] at h; obtain ⟨rfl, rfl⟩ := h; exact ⟨p, rfl⟩
  · cases h

theorem walkLe_ok : RuleOK .le walkLe := by
  apply RuleOK.of_res
  intro p args τ hwf hty _
  obtain ⟨sl, sr, rfl⟩ := args2 hwf (by intro n h; simpa [Op.shapeOK] using h)
  obtain ⟨rfl, htys⟩ := typeOf_rel_inv (Or.inl rfl) hwf hty
  show Res _ _ (walkLe p [sl, sr])
  unfold walkLe
  simp only
  have generic : Res (.node .le [sl, sr] p) .bool
      (if isZero sl then match isMinus sr with | some (x, y) => le_ y x | none => le_ sl sr else le_ sl sr) := by
    have hself : Res (.node .le [sl, sr] p) .bool (le_ sl sr) :=
      Res.rebuild (by simp) (by simp) rfl hwf (typeOf_rel_mk (Or.inl rfl) _ htys) rfl (fun _ => rfl)
    split
    · next hz =>
      cases hm : isMinus sr with
      | none => exact hself
      | some xy =>
        obtain ⟨x, y⟩ := xy
        obtain ⟨q, rfl⟩ := isMinus_some hm
        simp only
        -- `0 ≤ x - y` becomes `y ≤ x`
        have hwr := wf_args hwf _ (show Term.node .minus [x, y] q ∈ [sl, .node .minus [x, y] q] by simp)
        have hwx := wf_args hwr x (by simp)
        have hwy := wf_args hwr y (by simp)
        have hmty : ∀ σ, (Term.node .minus [x, y] q).typeOf = some σ → (σ = .int ∨ σ = .real) →
            x.typeOf = some σ ∧ y.typeOf = some σ := by
          intro σ h hσ
          rw [typeOf_node, typeOfNode_arith .minus rfl] at h
          split at h
          · next h' => cases h; rw [allAre_map] at h'; exact ⟨h' x (by simp), h' y (by simp)⟩
          · split at h
            · next h' => cases h; rw [allAre_map] at h'; exact ⟨h' x (by simp), h' y (by simp)⟩
            · cases h
        have e : le_ y x = .node .le [y, x] .none := rfl
        rcases isZero_cases hz with rfl | rfl
        · -- integers
          have hσ : (Term.node .minus [x, y] q).typeOf = some .int := by
            rcases htys with ⟨_, h⟩ | ⟨h, _⟩
            · exact h
            · simp at h
          obtain ⟨hx, hy⟩ := hmty _ hσ (Or.inl rfl)
          have hty' : (le_ y x).typeOf = some .bool := by
            rw [e]; first | exact typeOf_rel_mk (Or.inl rfl) _ (Or.inl ⟨hy, hx⟩) | exact typeOf_rel_mk (Or.inl rfl) _ (Or.inr ⟨hy, hx⟩)
          refine Res.of_hyp hty' (wf_mk' (by intro a ha; simp at ha; rcases ha with rfl | rfl <;> assumption) rfl hty')
            (fun I hI _ => ?_) (fun I hI hd => ?_) (fun s hs => ?_)
          rotate_left
          · have hd1 := div0_args_false I .le _ p rfl hd _ (show Term.node .minus [x, y] q ∈ _ by simp)
            have hd2 := div0_args_false I .minus _ q rfl hd1
            rw [e, div0_plain I .le _ _ rfl (by simp)]
            simp only [List.any_cons, List.any_nil, hd2 y (by simp), hd2 x (by simp), Bool.or_self]
          rotate_left
          · obtain ⟨n, hn⟩ := eval_int hwx hx hI
            obtain ⟨m, hm'⟩ := eval_int hwy hy hI
            rw [e, eval_le, eval_le, eval_minus, eval_intc, hn, hm']
            simp only [Sem.sub, Sem.le]
            congr 1
            rw [decide_eq_decide]; omega
          · rw [e] at hs
            obtain ⟨a, ha, hs⟩ := (mem_fv_plain (by simp) (by simp) rfl).mp hs
            refine (mem_fv_plain (by simp) (by simp) rfl).mpr ⟨_, show Term.node .minus [x, y] q ∈ _ by simp, ?_⟩
            refine (mem_fv_plain (by simp) (by simp) rfl).mpr ⟨a, ?_, hs⟩
            simp only [List.mem_cons, List.not_mem_nil, or_false] at ha ⊢
            exact ha.symm
        · -- reals
          have hσ : (Term.node .minus [x, y] q).typeOf = some .real := by
            rcases htys with ⟨h, _⟩ | ⟨_, h⟩
            · simp at h
            · exact h
          obtain ⟨hx, hy⟩ := hmty _ hσ (Or.inr rfl)
          have hty' : (le_ y x).typeOf = some .bool := by
            rw [e]; first | exact typeOf_rel_mk (Or.inl rfl) _ (Or.inl ⟨hy, hx⟩) | exact typeOf_rel_mk (Or.inl rfl) _ (Or.inr ⟨hy, hx⟩)
          refine Res.of_hyp hty' (wf_mk' (by intro a ha; simp at ha; rcases ha with rfl | rfl <;> assumption) rfl hty')
            (fun I hI _ => ?_) (fun I hI hd => ?_) (fun s hs => ?_)
          rotate_left
          · have hd1 := div0_args_false I .le _ p rfl hd _ (show Term.node .minus [x, y] q ∈ _ by simp)
            have hd2 := div0_args_false I .minus _ q rfl hd1
            rw [e, div0_plain I .le _ _ rfl (by simp)]
            simp only [List.any_cons, List.any_nil, hd2 y (by simp), hd2 x (by simp), Bool.or_self]
          rotate_left
          · obtain ⟨n, hn⟩ := eval_real hwx hx hI
            obtain ⟨m, hm'⟩ := eval_real hwy hy hI
            rw [e, eval_le, eval_le, eval_minus, eval_realc, hn, hm']
            simp only [Sem.sub, Sem.le]
            congr 1
            rw [decide_eq_decide]
            exact Rat.le_iff_sub_nonneg m n
          · rw [e] at hs
            obtain ⟨a, ha, hs⟩ := (mem_fv_plain (by simp) (by simp) rfl).mp hs
            refine (mem_fv_plain (by simp) (by simp) rfl).mpr ⟨_, show Term.node .minus [x, y] q ∈ _ by simp, ?_⟩
            refine (mem_fv_plain (by simp) (by simp) rfl).mpr ⟨a, ?_, hs⟩
            simp only [List.mem_cons, List.not_mem_nil, or_false] at ha ⊢
            exact ha.symm
    · exact hself
  cases hl : numVal sl with
  | none => exact generic
  | some l =>
    cases hr : numVal sr with
    | none => exact generic
    | some r =>
      simp only
      refine Res.bool _ (fun I _ _ => ?_)
      rw [eval_le, (num_le_lt hl hr htys I).1]

theorem walkLt_ok : RuleOK .lt walkLt := by
  apply RuleOK.of_res
  intro p args τ hwf hty _
  obtain ⟨sl, sr, rfl⟩ := args2 hwf (by intro n h; simpa [Op.shapeOK] using h)
  obtain ⟨rfl, htys⟩ := typeOf_rel_inv (Or.inr rfl) hwf hty
  show Res _ _ (walkLt p [sl, sr])
  unfold walkLt
  simp only
  have hself : Res (.node .lt [sl, sr] p) .bool (lt_ sl sr) :=
    Res.rebuild (by simp) (by simp) rfl hwf (typeOf_rel_mk (Or.inr rfl) _ htys) rfl (fun _ => rfl)
  cases hl : numVal sl with
  | none => exact hself
  | some l =>
    cases hr : numVal sr with
    | none => exact hself
    | some r =>
      simp only
      refine Res.bool _ (fun I _ _ => ?_)
      rw [eval_lt, (num_le_lt hl hr htys I).2]

/-! ## `walk_function`, `walk_toreal` -/

theorem walkFunction_ok : RuleOK .function walkFunction := by
  apply RuleOK.of_res
  intro p args τ hwf hty _
  show Res _ _ (walkFunction p args)
  unfold walkFunction
  split
  · next f =>
    unfold function_
    split
    · next hemp =>
      -- `Function(f, [])` returns the symbol: excluded by the arity of a well-formed application
      have hs := wf_shape hwf
      have hargs : args = [] := by simpa using hemp
      subst hargs
      simp [Op.shapeOK] at hs
    · exact Res.self hwf hty
  · exact Res.self hwf hty

theorem typeOf_toReal_inv {a : Term} {p : Payload} {τ : Ty} (hty : (Term.node .toReal [a] p).typeOf = some τ) :
    τ = .real ∧ a.typeOf = some .int := by
  rw [typeOf_node] at hty
  have := ite_allAre_iff.mp hty
  exact ⟨this.1, this.2 a (by simp)⟩

theorem walkToReal_ok : RuleOK .toReal walkToReal := by
  apply RuleOK.of_res
  intro p args τ hwf hty _
  have hs := wf_shape hwf
  simp only [Op.shapeOK, beq_iff_eq] at hs
  match args, hs, hwf, hty with
  | [a], _, hwf, hty =>
    obtain ⟨rfl, hta⟩ := typeOf_toReal_inv hty
    have hwa := wf_args hwf a (by simp)
    show Res _ _ (walkToReal p [a])
    unfold walkToReal
    simp only
    cases hc : isIntConst a with
    | some v =>
      have ea := isIntConst_some hc
      simp only [real_]
      refine Res.real _ (fun I _ _ => ?_)
      rw [eval_toReal, ea, eval_intc]; rfl
    | none =>
      simp only
      have e : toReal_ a = .node .toReal [a] .none := by
        unfold toReal_
        rw [hta, hc]
        simp
      rw [e]
      have hty' : (Term.node .toReal [a] .none).typeOf = some .real := by
        rw [typeOf_node, typeOfNode_toReal]
        simp [allAre, hta]
      refine Res.of_hyp hty' (wf_mk' (wf_args hwf) rfl hty') (fun I _ _ => ?_) (fun I _ hd => ?_) (fun s hs => ?_)
      · rw [eval_toReal, eval_toReal]
      · rw [div0_plain I .toReal _ _ rfl (by simp)]
        rw [div0_plain I .toReal _ _ rfl (by simp)] at hd
        exact hd
      · exact (mem_fv_plain (by simp) (by simp) rfl).mpr ((mem_fv_plain (by simp) (by simp) rfl).mp hs)

end PySMT.Simp.BoolRules
