import PySMT.Proofs.C09Round
import PySMT.Proofs.C09FragDag
import PySMT.Proofs.C09RotDag2
/-!
# C09: print → parse returns the very same formula (DAG printer, quantifier-free formulas)

From C07's `readStd_toSexpDag` (the standard reads `toSexpDag t` as `unfoldAVw false t`), `fragS_toSexpDag` (the printed
text — a chain of single-binding `let`s over `.def_k` — lies in the fragment) and C08's agreement theorem.
-/
namespace PySMT.Parser.Agree
open PySMT PySMT.Parser PySMT.Std PySMT.Sexp PySMT.Printer

theorem parse_printDag_id (env : SEnv) (ρ : List (String × Sym)) (Γ : PEnv) (hc : Corr env [] Γ) (hm : MgrLe Γ.mgr ρ)
    (hdf : defFree env) (t : Term) (hP : Printable env [] t = true) (hq : noQuant t = true)
    (hQ : parseOK env ρ t = true) (hN : mgrNormal t = true) :
    readTerm Γ (toSexpDag t) = .ok (unfoldAVw false t) := by
  have hstd : readStd env [] (toSexpDag t) = .ok (unfoldAVw false t) := by
    simp only [readStd, Printer.readStd_toSexpDag env t (dagOK_of_printable' env t hP hq), Except.map]
  have hfrag := fragS_toSexpDag env ρ hdf t hP hq hQ
  have h := (readTerm_agree env ρ Γ hc hm (toSexpDag t) hfrag (rotOK_toSexpDag_full env t hP hq) _ hstd).1
  rw [mkNorm_of_normal _ (mgrNormal_unfold env false t [] hP hN)] at h
  exact h

end PySMT.Parser.Agree
