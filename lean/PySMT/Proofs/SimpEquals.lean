import PySMT.Impl.Simplifier
import PySMT.Proofs.SimpBool
import PySMT.Proofs.SimpArrayEq
/-!
# `RuleOK` for `walk_equals`, on the instances admitted by `Simplifier.equalsGuard`
(array-sorted sides: the extensional comparison of two constant array values, `arrayValuesEq`, is
proved over Int, Real, String, Bool and bit-vector (width ≤ 8) index sorts — `Proofs/SimpArrayEq.lean` —;
over wider bit-vector index sorts it is modelled and checked by K and S only)
-/
namespace PySMT.Simp.BoolRules
open PySMT PySMT.Build PySMT.Simp PySMT.Simplifier

/-- the value a constant payload denotes -/
def constVal : Payload → Val
  | .b v => .b v | .i v => .i v | .q v => .r v | .s v => .s v | .bv v w => .bv w v | _ => .b false

def constForm : Payload → Bool
  | .b _ | .i _ | .q _ | .s _ | .bv _ _ => true | _ => false

theorem constVal_inj {p q : Payload} (hp : constForm p = true) (hq : constForm q = true)
    (h : constVal p = constVal q) : p = q := by
  cases p <;> cases q <;> simp [constForm] at hp hq <;> simp [constVal] at h <;> simp [h]

/-- a well-formed constant node evaluates to its payload -/
theorem const_eval (op : Op) (args : List Term) (p : Payload) (hwf : (Term.node op args p).wf = true)
    (hc : op.isConstant = true) (I : Interp) :
    eval I (.node op args p) = constVal p ∧ constForm p = true := by
  have hs := wf_shape hwf
  cases op <;> simp [Op.isConstant] at hc <;> cases p <;>
    first
    | cases hs
    | (rw [eval_plain I _ args _ (by simp) (by simp) rfl]; exact ⟨rfl, rfl⟩)

theorem isConstant_nonarray {op : Op} {args : List Term} {p : Payload} (h : op ≠ .arrayValue) :
    isConstant (.node op args p) = op.isConstant := by
  rw [isConstant.eq_def]
  cases op <;> first | rfl | exact absurd rfl h

/-- payload-independent characterisation of the type of an equality -/
theorem typeOfNode_equals (p : Payload) (ta tb : Ty) :
    typeOfNode .equals p [some ta, some tb] =
      if ta = .bool then none else if tb = ta then some .bool else none := by
  cases ta
  case bool => rfl
  all_goals
    show (if allAre [some tb] _ then some Ty.bool else none) = _
    simp only [allAre, List.all_cons, List.all_nil, Bool.and_true, beq_iff_eq, Option.some.injEq, reduceCtorEq,
      if_false]

/-- under the guard the array comparison only answers over an index sort on which it is proved -/
theorem equalsGuard_ext {p : Payload} {ts : List (Option Ty)} {sl sr : Term} {idx e : Ty} {b : Bool}
    (hg : equalsGuard p (some (.array idx e) :: ts) = true) (hty : sl.typeOf = some (.array idx e))
    (h : arrayValuesEq sl sr = some b) : idxSize idx = none ∨ (Val.smallDomain idx).isSome = true := by
  unfold arrayValuesEq at h
  rw [hty] at h
  simp only at h
  split at h
  · next hc =>
    simp only [Bool.and_eq_true, Bool.not_eq_true'] at hc
    cases idx with
    | bool => exact Or.inr rfl
    | int | real | str => exact Or.inl rfl
    | bv w =>
      simp only [equalsGuard, hc.2, Bool.or_false, decide_eq_true_eq] at hg
      right
      simp [Val.smallDomain, hg]
    | array _ _ | custom _ => simp [idxSize] at hc
  · cases h

theorem walkEquals_ok : RuleOK .equals { rule := walkEquals, guard := equalsGuard } := by
  apply RuleOK.of_res
  intro p args τ hwf hty hg
  obtain ⟨sl, sr, rfl⟩ := args2 hwf (by intro n h; simpa [Op.shapeOK] using h)
  obtain ⟨ta, ha⟩ := wf_typeOf sl (wf_args hwf sl (by simp))
  obtain ⟨tb, hb⟩ := wf_typeOf sr (wf_args hwf sr (by simp))
  have hty0 := hty
  rw [typeOf_node] at hty
  simp only [List.map_cons, List.map_nil, ha, hb] at hty hg
  rw [typeOfNode_equals] at hty
  split at hty
  · cases hty
  next hnb =>
  obtain ⟨hab, hτ⟩ := of_ite_some hty
  subst hab
  subst hτ
  have wl := wf_args hwf sl (by simp)
  have wr := wf_args hwf sr (List.mem_cons_of_mem _ List.mem_cons_self)
  have hty' : (equals_ sl sr).typeOf = some .bool := by
    show (Term.node .equals [sl, sr] .none).typeOf = _
    rw [typeOf_node]
    simp only [List.map_cons, List.map_nil, ha, hb]
    rw [typeOfNode_equals]
    simp [hnb]
  have hself : Res (.node .equals [sl, sr] p) .bool (equals_ sl sr) :=
    Res.rebuild (by simp) (by simp) rfl hwf hty' rfl (fun _ => rfl)
  have hsame : sl = sr → Res (.node .equals [sl, sr] p) .bool Term.tt := by
    intro h
    subst h
    rw [tt_eq]
    refine Res.bool _ (fun I _ _ => ?_)
    rw [eval_equals]; simp
  show Res _ _ (walkEquals p [sl, sr])
  unfold walkEquals
  simp only
  by_cases harr : ∃ idx e, tb = .array idx e
  · -- array-sorted sides
    obtain ⟨idx, e, rfl⟩ := harr
    -- a scalar constant has no array sort
    have hnc : ∀ t : Term, t.wf = true → t.typeOf = some (.array idx e) → isArrayValue t = false →
        isConstant t = false := by
      intro t htw htt hna
      cases t with
      | node op targs q =>
        have hne : op ≠ .arrayValue := by
          intro h; subst h; simp [isArrayValue, Term.op] at hna
        rw [isConstant_nonarray hne]
        cases hc : op.isConstant with
        | false => rfl
        | true => exact (ArrayRules.isConst_not_array htw hc htt).elim
    split
    · next h => exact hsame h
    · split
      · split
        · next hcc =>
          simp only [Bool.and_eq_true] at hcc
          cases hav : arrayValuesEq sl sr with
          | none => exact hself
          | some b =>
            refine Res.bool _ (fun I hI _ => ?_)
            rw [eval_equals]
            congr 1
            exact ArrayRules.arrayValuesEq_sound wl wr ha hb hcc.1 hcc.2 (equalsGuard_ext hg ha hav) hav I hI
        · exact hself
      · next hna =>
        simp only [Bool.or_eq_true, not_or, Bool.not_eq_true] at hna
        rw [hnc sl wl ha hna.1]
        simp only [Bool.false_and, Bool.false_eq_true, if_false]
        exact hself
  · -- an array value has an array type
    have hnoarr : ∀ t : Term, t.wf = true → t.typeOf = some tb → isArrayValue t = false := by
      intro t htwf htty
      cases t with
      | node op args q =>
        simp only [isArrayValue, Term.op]
        cases hop : (op == Op.arrayValue) with
        | false => rfl
        | true =>
          have : op = .arrayValue := by simpa using hop
          subst this
          rw [typeOf_node] at htty
          obtain ⟨idx, d, rest, _, _, _, rfl⟩ := typeOfNode_arrayValue htty
          exact absurd ⟨_, _, rfl⟩ harr
    split
    · next h => exact hsame h
    · next hne =>
      rw [hnoarr sl wl ha, hnoarr sr wr hb]
      simp only [Bool.or_self, Bool.false_eq_true, if_false]
      split
      · next hcc =>
        simp only [Bool.and_eq_true] at hcc
        cases sl with
        | node o1 a1 p1 =>
          cases sr with
          | node o2 a2 p2 =>
            have n1 : o1 ≠ .arrayValue := by
              intro h; subst h
              have := hnoarr _ wl ha
              simp [isArrayValue, Term.op] at this
            have n2 : o2 ≠ .arrayValue := by
              intro h; subst h
              have := hnoarr _ wr hb
              simp [isArrayValue, Term.op] at this
            rw [isConstant_nonarray n1, isConstant_nonarray n2] at hcc
            refine Res.bool _ (fun I _ _ => ?_)
            have e1 := const_eval o1 a1 p1 wl hcc.1 I
            have e2 := const_eval o2 a2 p2 wr hcc.2 I
            rw [eval_equals, e1.1, e2.1]
            congr 1
            show decide (constVal p1 = constVal p2) = decide (p1 = p2)
            by_cases hpp : p1 = p2
            · simp [hpp]
            · have : constVal p1 ≠ constVal p2 := fun h => hpp (constVal_inj e1.2 e2.2 h)
              simp [hpp, this]
      · exact hself

end PySMT.Simp.BoolRules
