import PySMT.Proofs.C09HR6
/-!
# C09 (human-readable format): concrete members of the fragments (non-vacuity)

Unfolded by hand: `Term.typeOf`, `inHRFrag`, … recurse through `args.map` and do not reduce in `decide`.
One term per operator family: Boolean connectives, arithmetic / relation / if-then-else, quantifier / function application /
equality, array select / store, bit-vectors, strings — and an n-ary conjunction for the larger fragment.
-/
namespace PySMT.HR.Ex
open PySMT PySMT.HR PySMT.HR.RT PySMT.Gen.HROps

/-- a lookup by its constructor, whatever the binding power is -/
theorem of_map {o : Option (String × Nat)} {c : String} (h : o.map Prod.fst = some c) : ∃ l, o = some (c, l) := by
  cases o with
  | none => simp at h
  | some p => obtain ⟨c', l⟩ := p; simp at h; exact ⟨l, by rw [h]⟩

theorem sh_and : shapeOf .and = some (.naryInfix "&") := by decide
theorem sh_not : shapeOf .not = some (.prefixPar "!") := by decide
theorem sh_le : shapeOf .le = some (.naryInfix "<=") := by decide
theorem sh_plus : shapeOf .plus = some (.naryInfix "+") := by decide
theorem sh_ite : shapeOf .ite = some .ite := by decide
theorem sh_equals : shapeOf .equals = some (.naryInfix "=") := by decide
theorem sh_function : shapeOf .function = some .app := by decide
theorem sh_forall : shapeOf .forall_ = some (.quant "forall") := by decide
theorem sh_select : shapeOf .arraySelect = some .select := by decide
theorem sh_store : shapeOf .arrayStore = some .store := by decide
theorem sh_int : shapeOf .intConst = some .const := by decide
theorem sh_str : shapeOf .strConst = some .const := by decide
theorem sh_bvc : shapeOf .bvConst = some .const := by decide
theorem sh_bvUlt : shapeOf .bvUlt = some (.naryInfix "u<") := by decide
theorem sh_bvAdd : shapeOf .bvAdd = some (.naryInfix "+") := by decide
theorem sh_strLength : shapeOf .strLength = some (.call "str.len") := by decide
theorem sh_strConcat : shapeOf .strConcat = some (.call "str.++") := by decide
theorem io_and : ∃ l, infixOf "&" = some ("self.AndOrBVAnd", l) := of_map (by decide)
theorem io_le : ∃ l, infixOf "<=" = some ("mgr.LE", l) := of_map (by decide)
theorem io_plus : ∃ l, infixOf "+" = some ("self.PlusOrBVAdd", l) := of_map (by decide)
theorem io_equals : ∃ l, infixOf "=" = some ("mgr.Equals", l) := of_map (by decide)
theorem io_bvUlt : ∃ l, infixOf "u<" = some ("mgr.BVULT", l) := of_map (by decide)
theorem uo_not : ∃ l, unaryOf "!" = some ("self.NotOrBVNot", l) := of_map (by decide)
theorem qo_forall : ∃ l, quantOf "forall" = some ("mgr.ForAll", l) := of_map (by decide)
theorem fo_strLength : fnOf "str.len" = some "mgr.StrLength" := by decide
theorem fo_strConcat : fnOf "str.++" = some "mgr.StrConcat" := by decide

theorem ty_var (n : String) (τ : Ty) : (Term.var n τ).typeOf = some τ := by
  rw [Term.var, Term.sym, typeOf_node']; rfl
theorem ty_int (n : Int) : (Term.int n).typeOf = some .int := by rw [Term.int, typeOf_node']; rfl
theorem ty_str (s : String) : (Term.str s).typeOf = some .str := by rw [Term.str, typeOf_node']; rfl
theorem ty_bvc (v w : Nat) : (Term.bvc v w).typeOf = some (.bv w) := by rw [Term.bvc, typeOf_node']; rfl

theorem frag_var (n : String) (τ : Ty) (h : hrName n = true) : inHRFrag (Term.var n τ) = true := by
  rw [Term.var, Term.sym, inHRFrag_node]
  simp [fragNode, shapeOf_symbol, Sym.var, h]
theorem frag_int (n : Int) : inHRFrag (Term.int n) = true := by
  rw [Term.int, inHRFrag_node]; simp [fragNode, sh_int]
theorem frag_str (s : String) (h : s.toList.contains '"' = false) : inHRFrag (Term.str s) = true := by
  rw [Term.str, inHRFrag_node]
  simp only [List.map_nil, List.all_nil, Bool.true_and, fragNode, sh_str, h, Bool.not_false]

/-! ## Boolean connectives: `(x & (! y))` -/
def x : Term := Term.var "x" .bool
def y : Term := Term.var "y" .bool
def notY : Term := Term.mkNot y
def t1 : Term := Term.mkAnd [x, notY]

theorem ty_notY : notY.typeOf = some .bool := by
  rw [notY, Term.mkNot, typeOf_node']; simp only [List.map_cons, List.map_nil, y, ty_var]; decide
theorem frag_notY : inHRFrag notY = true := by
  rw [notY, Term.mkNot, inHRFrag_node]
  simp only [List.map_cons, List.map_nil, List.all_cons, List.all_nil, y, frag_var "y" .bool (by decide), id,
    Bool.and_true, Bool.true_and]
  obtain ⟨l, uo⟩ := uo_not
  simp only [fragNode, sh_not, uo, applyUnary, ty_var]
  simp [Mk.Not, Term.var, Term.sym, Mk.create, liftMk, isOk, typeOf_node']
  decide
theorem frag_t1 : InHRFrag t1 := by
  rw [InHRFrag, t1, Term.mkAnd, inHRFrag_node]
  simp only [List.map_cons, List.map_nil, List.all_cons, List.all_nil, x, frag_var "x" .bool (by decide), frag_notY, id,
    Bool.and_true, Bool.true_and]
  obtain ⟨l, io⟩ := io_and
  simp only [fragNode, sh_and, io, applyInfix, ty_var]
  simp [Mk.And, Mk.create, liftMk, isOk, ty_var, ty_notY]
  decide

/-! ## arithmetic, relation, if-then-else: `((i + 1) <= (x ? i : 2))` -/
def i : Term := Term.var "i" .int
def iPlus1 : Term := .node .plus [i, Term.int 1] .none
def iteT : Term := Term.mkIte x i (Term.int 2)
def t2 : Term := .node .le [iPlus1, iteT] .none

theorem ty_iPlus1 : iPlus1.typeOf = some .int := by
  rw [iPlus1, typeOf_node']; simp only [List.map_cons, List.map_nil, i, ty_var, ty_int]; decide
theorem ty_iteT : iteT.typeOf = some .int := by
  rw [iteT, Term.mkIte, typeOf_node']; simp only [List.map_cons, List.map_nil, i, x, ty_var, ty_int]; decide
theorem frag_iPlus1 : inHRFrag iPlus1 = true := by
  rw [iPlus1, inHRFrag_node]
  simp only [List.map_cons, List.map_nil, List.all_cons, List.all_nil, i, frag_var "i" .int (by decide), frag_int, id,
    Bool.and_true, Bool.true_and]
  obtain ⟨l, io⟩ := io_plus
  simp only [fragNode, sh_plus, io, applyInfix, ty_var]
  simp [Mk.Plus, Mk.create, liftMk, isOk, ty_var, ty_int]
  decide
theorem frag_iteT : inHRFrag iteT = true := by
  rw [iteT, Term.mkIte, inHRFrag_node]
  simp only [List.map_cons, List.map_nil, List.all_cons, List.all_nil, i, x, frag_var "i" .int (by decide),
    frag_var "x" .bool (by decide), frag_int, id, Bool.and_true, Bool.true_and]
  simp only [fragNode, sh_ite]
  simp [Mk.Ite, Mk.create, liftMk, isOk, ty_var, ty_int]
  decide
theorem frag_t2 : InHRFrag t2 := by
  rw [InHRFrag, t2, inHRFrag_node]
  simp only [List.map_cons, List.map_nil, List.all_cons, List.all_nil, frag_iPlus1, frag_iteT, id, Bool.and_true,
    Bool.true_and]
  obtain ⟨l, io⟩ := io_le
  simp only [fragNode, sh_le, io, applyInfix]
  simp [Mk.LE, Mk.create, liftMk, isOk, ty_iPlus1, ty_iteT]
  decide

/-! ## quantifier, function application, equality: `(forall i . (f(i) = i))` -/
def fSym : Sym := ⟨"f", [.int], .int⟩
def fi : Term := Term.app fSym [i]
def eqT : Term := Term.mkEq fi i
def t3 : Term := Term.mkForall [Sym.var "i" .int] eqT

theorem ty_fi : fi.typeOf = some .int := by
  rw [fi, Term.app, typeOf_node']; simp only [List.map_cons, List.map_nil, i, ty_var]; decide
theorem ty_eqT : eqT.typeOf = some .bool := by
  rw [eqT, Term.mkEq, typeOf_node']; simp only [List.map_cons, List.map_nil, i, ty_var, ty_fi]; decide
theorem frag_fi : inHRFrag fi = true := by
  rw [fi, Term.app, inHRFrag_node]
  simp only [List.map_cons, List.map_nil, List.all_cons, List.all_nil, i, frag_var "i" .int (by decide), id,
    Bool.and_true, Bool.true_and]
  simp only [fragNode, sh_function]
  simp [Mk.Function, fSym, Mk.create, liftMk, isOk, ty_var]
  decide
theorem frag_eqT : inHRFrag eqT = true := by
  rw [eqT, Term.mkEq, inHRFrag_node]
  simp only [List.map_cons, List.map_nil, List.all_cons, List.all_nil, i, frag_var "i" .int (by decide), frag_fi, id,
    Bool.and_true, Bool.true_and]
  obtain ⟨l, io⟩ := io_equals
  simp only [fragNode, sh_equals, io, applyInfix]
  simp [Mk.Equals, Mk.create, liftMk, isOk, ty_var, ty_fi]
  decide
theorem frag_t3 : InHRFrag t3 := by
  rw [InHRFrag, t3, Term.mkForall, inHRFrag_node]
  simp only [List.map_cons, List.map_nil, List.all_cons, List.all_nil, frag_eqT, id, Bool.and_true, Bool.true_and]
  obtain ⟨l, qo⟩ := qo_forall
  simp only [fragNode, sh_forall, qo, applyQuant]
  simp [symsOf, Term.sym, Mk.ForAll, Mk.create, liftMk, isOk, ty_eqT, Sym.var]
  decide

/-! ## arrays: `a[i := 1][i]` -/
def arr : Term := Term.var "a" (.array .int .int)
def stT : Term := .node .arrayStore [arr, i, Term.int 1] .none
def t4 : Term := .node .arraySelect [stT, i] .none

theorem ty_stT : stT.typeOf = some (.array .int .int) := by
  rw [stT, typeOf_node']; simp only [List.map_cons, List.map_nil, arr, i, ty_var, ty_int]; decide
theorem tight_var (n : String) (τ : Ty) : tight (Term.var n τ) = true := by
  simp [Term.var, Term.sym, tight, shapeOf_symbol]
theorem frag_stT : inHRFrag stT = true := by
  rw [stT, inHRFrag_node]
  simp only [List.map_cons, List.map_nil, List.all_cons, List.all_nil, arr, i, frag_var "a" _ (by decide),
    frag_var "i" .int (by decide), frag_int, id, Bool.and_true, Bool.true_and]
  simp only [fragNode, sh_store, tight_var]
  simp [Mk.Store, Mk.create, liftMk, isOk, ty_var, ty_int]
  decide
theorem frag_t4 : InHRFrag t4 := by
  rw [InHRFrag, t4, inHRFrag_node]
  simp only [List.map_cons, List.map_nil, List.all_cons, List.all_nil, i, frag_var "i" .int (by decide), frag_stT, id,
    Bool.and_true, Bool.true_and]
  have : tight stT = true := by simp [stT, tight, sh_store]
  simp only [fragNode, sh_select, this]
  simp [Mk.Select, Mk.create, liftMk, isOk, ty_var, ty_stT]
  decide

/-! ## bit-vectors: `(b u< (b + 1_4))` -/
def b : Term := Term.var "b" (.bv 4)
def bPlus : Term := .node .bvAdd [b, Term.bvc 1 4] (.ints [4])
def t5 : Term := .node .bvUlt [b, bPlus] .none

theorem iteLeaf_sym (n : Nat) (s : Sym) : Mk.iteLeaf n (Term.sym s) = Term.sym s := by cases n <;> rfl
theorem bvWidth_b : Mk.bvWidth b = .ok 4 := by
  simp [Mk.bvWidth, b, Term.var, iteLeaf_sym]
  rfl
theorem frag_bvc14 : inHRFrag (Term.bvc 1 4) = true := by
  rw [Term.bvc, inHRFrag_node]
  simp [fragNode, sh_bvc, Mk.BV, liftMk, isOk, Term.bvc]
theorem ty_bPlus : bPlus.typeOf = some (.bv 4) := by
  rw [bPlus, typeOf_node']; simp only [List.map_cons, List.map_nil, b, ty_var, ty_bvc]; decide
theorem frag_bPlus : inHRFrag bPlus = true := by
  rw [bPlus, inHRFrag_node]
  simp only [List.map_cons, List.map_nil, List.all_cons, List.all_nil, b, frag_var "b" _ (by decide), frag_bvc14, id,
    Bool.and_true, Bool.true_and]
  obtain ⟨l, io⟩ := io_plus
  simp only [fragNode, sh_bvAdd, io, applyInfix, ty_var]
  have := bvWidth_b
  simp only [b] at this
  simp [Mk.BVAdd, Mk.bvNary, Mk.bvChain, Mk.bvBin, this, bind, Except.bind, Mk.create, liftMk, isOk, ty_var, ty_bvc]
  decide
theorem frag_t5 : InHRFrag t5 := by
  rw [InHRFrag, t5, inHRFrag_node]
  simp only [List.map_cons, List.map_nil, List.all_cons, List.all_nil, b, frag_var "b" _ (by decide), frag_bPlus, id,
    Bool.and_true, Bool.true_and]
  obtain ⟨l, io⟩ := io_bvUlt
  simp only [fragNode, sh_bvUlt, io, applyInfix]
  simp [Mk.BVULT, Mk.create, liftMk, isOk, ty_var, ty_bPlus]
  decide

/-! ## strings: `str.len(str.++(s, "ab"))` -/
def sv : Term := Term.var "s" .str
def cat : Term := .node .strConcat [sv, Term.str "ab"] .none
def t6 : Term := .node .strLength [cat] .none

theorem ty_cat : cat.typeOf = some .str := by
  rw [cat, typeOf_node']; simp only [List.map_cons, List.map_nil, sv, ty_var, ty_str]; decide
theorem frag_cat : inHRFrag cat = true := by
  rw [cat, inHRFrag_node]
  simp only [List.map_cons, List.map_nil, List.all_cons, List.all_nil, sv, frag_var "s" .str (by decide),
    frag_str "ab" (by decide), id, Bool.and_true, Bool.true_and]
  simp only [fragNode, sh_strConcat, fo_strConcat, applyFn]
  simp [Mk.StrConcat, Mk.create, liftMk, isOk, ty_var, ty_str]
  decide
theorem frag_t6 : InHRFrag t6 := by
  rw [InHRFrag, t6, inHRFrag_node]
  simp only [List.map_cons, List.map_nil, List.all_cons, List.all_nil, frag_cat, id, Bool.and_true, Bool.true_and]
  simp only [fragNode, sh_strLength, fo_strLength, applyFn]
  simp [Mk.StrLength, Mk.create, liftMk, isOk, ty_cat]
  decide

/-! ## an n-ary conjunction (the larger fragment): `(x & y & (! y))` is read as `((x & y) & (! y))` -/
def t7 : Term := Term.mkAnd [x, y, notY]
def t7' : Term := Term.mkAnd [Term.mkAnd [x, y], notY]

theorem ty_xy : (Term.mkAnd [x, y]).typeOf = some .bool := by
  rw [Term.mkAnd, typeOf_node']; simp only [List.map_cons, List.map_nil, x, y, ty_var]; decide
theorem regroup_t7 : regroup t7 = t7' := by
  have hx := (frag_subset x (frag_var "x" .bool (by decide))).1
  have hy := (frag_subset y (frag_var "y" .bool (by decide))).1
  have hn := (frag_subset notY frag_notY).1
  rw [t7, Term.mkAnd, regroup_node]
  simp only [List.map_cons, List.map_nil, hx, hy, hn]
  simp [regroupNode, sh_and, groupable, leftNest, t7', Term.mkAnd]
theorem and_xy : applyInfix "self.AndOrBVAnd" x y = .ok (Term.mkAnd [x, y]) := by
  have : (typeOfNode Op.and Payload.none [some Ty.bool, some Ty.bool]).isSome = true := by decide
  simp [applyInfix, x, y, ty_var, Mk.And, Mk.create, liftMk, this, Term.mkAnd]
theorem and_xyn : applyInfix "self.AndOrBVAnd" (Term.mkAnd [x, y]) notY = .ok t7' := by
  have : (typeOfNode Op.and Payload.none [some Ty.bool, some Ty.bool]).isSome = true := by decide
  have ty' : (Term.node .and [x, y] .none).typeOf = some .bool := ty_xy
  simp [applyInfix, ty', ty_notY, Mk.And, Mk.create, liftMk, this, t7', Term.mkAnd]
theorem frag_t7 : InHRFragN t7 := by
  have hx := frag_subset x (frag_var "x" .bool (by decide))
  have hy := frag_subset y (frag_var "y" .bool (by decide))
  have hn := frag_subset notY frag_notY
  rw [InHRFragN, t7, Term.mkAnd, inHRFragN_node]
  simp only [List.map_cons, List.map_nil, List.all_cons, List.all_nil, hx.1, hx.2, hy.1, hy.2, hn.1, hn.2, id,
    Bool.and_true, Bool.true_and]
  obtain ⟨l, io⟩ := io_and
  simp only [fragNodeN, sh_and, io, groupable, applyChain, Bool.true_and, and_xy]
  have := and_xyn
  simp only [Term.mkAnd] at this
  simp [Term.mkAnd, this, isOk, leftNest, t7']

/-! ## existential quantifier: `(exists i . (f(i) = i))` -/
theorem sh_exists : shapeOf .exists_ = some (.quant "exists") := by decide
theorem qo_exists : ∃ l, quantOf "exists" = some ("mgr.Exists", l) := of_map (by decide)
def t8 : Term := Term.mkExists [Sym.var "i" .int] eqT
theorem frag_t8 : InHRFrag t8 := by
  rw [InHRFrag, t8, Term.mkExists, inHRFrag_node]
  simp only [List.map_cons, List.map_nil, List.all_cons, List.all_nil, frag_eqT, id, Bool.and_true, Bool.true_and]
  obtain ⟨l, qo⟩ := qo_exists
  simp only [fragNode, sh_exists, qo, applyQuant]
  simp [symsOf, Term.sym, Mk.Exists, Mk.create, liftMk, isOk, ty_eqT, Sym.var]
  decide

/-! ## prefix minus, concatenation, extraction: `((- b)::b)[0:3]` -/
theorem sh_bvNeg : shapeOf .bvNeg = some (.prefixPar "-") := by decide
theorem sh_bvConcat : shapeOf .bvConcat = some (.naryInfix "::") := by decide
theorem sh_bvExtract : shapeOf .bvExtract = some .extract := by decide
theorem uo_minus : ∃ l, unaryOf "-" = some ("self.UMinusOrBvNeg", l) := of_map (by decide)
theorem io_concat : ∃ l, infixOf "::" = some ("mgr.BVConcat", l) := of_map (by decide)
def negB : Term := .node .bvNeg [b] (.ints [4])
def catB : Term := .node .bvConcat [negB, b] (.ints [8])
def t9 : Term := .node .bvExtract [catB] (.ints [4, 0, 3])

theorem iteLeaf_plain (n : Nat) (op : Op) (as : List Term) (p : Payload) (h : op ≠ .ite) :
    Mk.iteLeaf n (.node op as p) = .node op as p := by
  cases n with
  | zero => rfl
  | succ n =>
    unfold Mk.iteLeaf
    split
    · rfl
    · next heq => cases heq; exact absurd rfl h
    · rfl
theorem ty_negB : negB.typeOf = some (.bv 4) := by
  rw [negB, typeOf_node']; simp only [List.map_cons, List.map_nil, b, ty_var]; decide
theorem ty_catB : catB.typeOf = some (.bv 8) := by
  rw [catB, typeOf_node']; simp only [List.map_cons, List.map_nil, b, ty_var, ty_negB]; decide
theorem bvWidth_negB : Mk.bvWidth negB = .ok 4 := by
  simp [Mk.bvWidth, negB, iteLeaf_plain]; rfl
theorem bvWidth_catB : Mk.bvWidth catB = .ok 8 := by
  simp [Mk.bvWidth, catB, iteLeaf_plain]; rfl
theorem frag_negB : inHRFrag negB = true := by
  rw [negB, inHRFrag_node]
  simp only [List.map_cons, List.map_nil, List.all_cons, List.all_nil, b, frag_var "b" _ (by decide), id,
    Bool.and_true, Bool.true_and]
  obtain ⟨l, uo⟩ := uo_minus
  simp only [fragNode, sh_bvNeg, uo, applyUnary, ty_var]
  have := bvWidth_b
  simp only [b] at this
  simp [Mk.BVNeg, Mk.bvUn, this, bind, Except.bind, Mk.create, liftMk, isOk, ty_var]
  decide
theorem frag_catB : inHRFrag catB = true := by
  rw [catB, inHRFrag_node]
  simp only [List.map_cons, List.map_nil, List.all_cons, List.all_nil, b, frag_var "b" _ (by decide), frag_negB, id,
    Bool.and_true, Bool.true_and]
  obtain ⟨l, io⟩ := io_concat
  simp only [fragNode, sh_bvConcat, io, applyInfix]
  have h1 := bvWidth_b
  simp only [b] at h1
  simp [Mk.BVConcat, Mk.concat2, Mk.concatChain, bvWidth_negB, h1, bind, Except.bind, Mk.create, liftMk, isOk, ty_var,
    ty_negB]
  decide
theorem frag_t9 : InHRFrag t9 := by
  rw [InHRFrag, t9, inHRFrag_node]
  simp only [List.map_cons, List.map_nil, List.all_cons, List.all_nil, frag_catB, id, Bool.and_true, Bool.true_and]
  have ht : tight catB = true := by simp [catB, tight, sh_bvConcat]
  simp only [fragNode, sh_bvExtract, ht, Bool.true_and, applyExtract, Term.int, intConstVal]
  simp [Mk.BVExtract, bvWidth_catB, bind, Except.bind, Mk.create, liftMk, isOk, ty_catB]
  decide

/-! ## more bit-vector infix operators: `((b & b) xor (b << 1_4))` -/
theorem sh_bvAnd : shapeOf .bvAnd = some (.naryInfix "&") := by decide
theorem sh_bvXor : shapeOf .bvXor = some (.naryInfix "xor") := by decide
theorem sh_bvLshl : shapeOf .bvLshl = some (.naryInfix "<<") := by decide
theorem io_xor : ∃ l, infixOf "xor" = some ("mgr.BVXor", l) := of_map (by decide)
theorem io_shl : ∃ l, infixOf "<<" = some ("mgr.BVLShl", l) := of_map (by decide)
def andB : Term := .node .bvAnd [b, b] (.ints [4])
def shlB : Term := .node .bvLshl [b, Term.bvc 1 4] (.ints [4])
def t10 : Term := .node .bvXor [andB, shlB] (.ints [4])
theorem ty_andB : andB.typeOf = some (.bv 4) := by
  rw [andB, typeOf_node']; simp only [List.map_cons, List.map_nil, b, ty_var]; decide
theorem ty_shlB : shlB.typeOf = some (.bv 4) := by
  rw [shlB, typeOf_node']; simp only [List.map_cons, List.map_nil, b, ty_var, ty_bvc]; decide
theorem bvWidth_andB : Mk.bvWidth andB = .ok 4 := by
  simp [Mk.bvWidth, andB, iteLeaf_plain]; rfl
theorem frag_andB : inHRFrag andB = true := by
  rw [andB, inHRFrag_node]
  simp only [List.map_cons, List.map_nil, List.all_cons, List.all_nil, b, frag_var "b" _ (by decide), id,
    Bool.and_true, Bool.true_and]
  obtain ⟨l, io⟩ := io_and
  simp only [fragNode, sh_bvAnd, io, applyInfix, ty_var]
  have := bvWidth_b
  simp only [b] at this
  simp [Mk.BVAnd, Mk.bvNary, Mk.bvChain, Mk.bvBin, this, bind, Except.bind, Mk.create, liftMk, isOk, ty_var]
  decide
theorem frag_shlB : inHRFrag shlB = true := by
  rw [shlB, inHRFrag_node]
  simp only [List.map_cons, List.map_nil, List.all_cons, List.all_nil, b, frag_var "b" _ (by decide), frag_bvc14, id,
    Bool.and_true, Bool.true_and]
  obtain ⟨l, io⟩ := io_shl
  simp only [fragNode, sh_bvLshl, io, applyInfix]
  have := bvWidth_b
  simp only [b] at this
  simp [Mk.BVLShl, Mk.shiftAmount, Mk.bvBin, this, bind, Except.bind, Mk.create, liftMk, isOk, ty_var, ty_bvc]
  decide
theorem frag_t10 : InHRFrag t10 := by
  rw [InHRFrag, t10, inHRFrag_node]
  simp only [List.map_cons, List.map_nil, List.all_cons, List.all_nil, frag_andB, frag_shlB, id, Bool.and_true,
    Bool.true_and]
  obtain ⟨l, io⟩ := io_xor
  simp only [fragNode, sh_bvXor, io, applyInfix]
  simp [Mk.BVXor, Mk.bvBin, bvWidth_andB, bind, Except.bind, Mk.create, liftMk, isOk, ty_andB, ty_shlB]
  decide

/-! ## a constant array: `Array{Int, Int}(0)` -/
theorem sh_arrayValue : shapeOf .arrayValue = some .arrayValue := by decide
def t11 : Term := .node .arrayValue [Term.int 0] (.ty .int)
theorem frag_t11 : InHRFrag t11 := by
  rw [InHRFrag, t11, inHRFrag_node]
  simp only [List.map_cons, List.map_nil, List.all_cons, List.all_nil, frag_int, id, Bool.and_true, Bool.true_and]
  simp only [fragNode, sh_arrayValue, ty_int, readableTy, Bool.true_and]
  simp [Mk.Array, Mk.arrayArgs, bind, Except.bind, Mk.create, liftMk, isOk, ty_int]
  decide

end PySMT.HR.Ex
