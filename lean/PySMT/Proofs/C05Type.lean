import PySMT.Impl.Subst
import PySMT.Proofs.C05Build
import PySMT.Impl.WF
/-!
# C05 — substitution preserves well-typedness and the type (`subst_type`)
-/
namespace PySMT.Subst
open PySMT.Build

/-- a type-correct map: every value is well-typed and has the type of its key -/
def TyMap (σ : TMap) : Prop := ∀ kv ∈ σ, kv.2.wt = true ∧ kv.2.typeOf = kv.1.typeOf

theorem lookup_mem : ∀ {σ : TMap} {t v : Term}, lookup σ t = some v → (t, v) ∈ σ
  | (k, u) :: rest, t, v, h => by
    unfold lookup at h
    by_cases hk : k = t
    · subst hk; simp only [if_true, Option.some.injEq] at h; subst h; simp
    · simp only [hk, if_false] at h
      exact List.mem_cons_of_mem _ (lookup_mem h)

theorem TyMap.restrict {σ : TMap} (h : TyMap σ) (vs : List Sym) : TyMap (restrict σ vs) :=
  fun kv hkv => h kv (List.mem_filter.mp hkv).1

theorem TyMap.bodyMap {σ : TMap} (h : TyMap σ) (op : Op) (p : Payload) : TyMap (bodyMap σ op p) := by
  unfold Subst.bodyMap
  split
  · exact h.restrict _
  · exact h

/-- the interpretation of an application is well-typed of the return type -/
def HandlerTyped (h : FnHandler) : Prop :=
  ∀ f as r, h f as = some r → (∀ a ∈ as, a.wt = true) → as.map Term.typeOf = f.params.map some →
    r.wt = true ∧ r.typeOf = some f.ret

theorem noInterp_typed : HandlerTyped noInterp := by
  intro f as r h; cases h

theorem typeOfNode_function_some {f : Sym} {ts : List (Option Ty)}
    (h : (typeOfNode .function (.sym f) ts).isSome = true) :
    ts = f.params.map some ∧ typeOfNode .function (.sym f) ts = some f.ret := by
  rw [typeOfNode_function_eq] at h ⊢
  simp only at h ⊢
  split at h
  · next hc => exact ⟨hc.2, by rw [if_pos hc]⟩
  · cases h

theorem build_type {h : FnHandler} (hh : HandlerTyped h) {op : Op} {p : Payload} {args as' : List Term}
    (hwt : (Term.node op args p).wt = true) (hn : normalNode op p args = true) (hs : SameTypes args as') :
    (build h op p as').wt = true ∧ (build h op p as').typeOf = (Term.node op args p).typeOf := by
  unfold build
  split
  · next f =>
    split
    · next r hr =>
      have h1 := typeOfNode_function_some (Term.wt_typeOf hwt)
      have := hh f as' r hr hs.wt (by rw [hs.ty]; exact h1.1)
      rw [typeOf_node, h1.2]; exact this
    · exact rebuild_type hwt hn hs
  · exact rebuild_type hwt hn hs

theorem substG_type (ms : Bool) {h : FnHandler} (hh : HandlerTyped h) :
    (t : Term) → ∀ σ : TMap, TyMap σ → t.wt = true → normal t = true →
      (substG ms h σ t).wt = true ∧ (substG ms h σ t).typeOf = t.typeOf
  | .node op args p, σ, hσ, hwt, hn => by
    have ih : ∀ a ∈ args, (substG ms h (bodyMap σ op p) a).wt = true ∧
        (substG ms h (bodyMap σ op p) a).typeOf = a.typeOf :=
      fun a hm => substG_type ms hh a _ (hσ.bodyMap op p) (Term.wt_child hwt a hm) (normal_child hn a hm)
    have hs : SameTypes args (args.map (substG ms h (bodyMap σ op p))) := by
      constructor
      · intro a' ha'
        obtain ⟨a, hm, rfl⟩ := List.mem_map.mp ha'
        exact (ih a hm).1
      · rw [List.map_map]
        exact List.map_congr_left (fun a hm => (ih a hm).2)
    have hb := build_type hh hwt (normal_here hn) hs
    rw [substG]
    cases ms
    · simp only [Bool.false_eq_true, if_false]
      cases hl : lookup σ (.node op args p) with
      | none => exact hb
      | some v => exact hσ _ (lookup_mem hl)
    · simp only [if_true]
      cases hl : lookup σ (build h op p (args.map (substG true h (bodyMap σ op p)))) with
      | none => exact hb
      | some v =>
        have := hσ _ (lookup_mem hl)
        exact ⟨this.1, by rw [this.2]; exact hb.2⟩

/-! ## well-formedness (`Term.wf`) is preserved as well -/

theorem wf_real (q : Rat) : (Term.real q).wf = true := by
  rw [Term.real, Term.wf_node]; exact ⟨by simp, rfl, rfl⟩

/-- `rebuild` on well-formed new children of the old types is well-formed -/
theorem rebuild_wf {op : Op} {p : Payload} {args as' : List Term}
    (hwf : (Term.node op args p).wf = true) (hn : normalNode op p args = true) (hs : SameTypes args as')
    (hwf' : ∀ a ∈ as', a.wf = true) :
    (rebuild op p as').wf = true := by
  have hwt := Term.wf_wt _ hwf
  have ht := (rebuild_type hwt hn hs).1
  obtain ⟨_, hshape, _⟩ := Term.wf_node.mp hwf
  have hsh := rebuild_shape hwt hn hs
  generalize rebuild op p as' = r at ht hsh
  cases hsh with
  | node =>
    rw [Term.wf_node]
    exact ⟨hwf', by rw [hs.length]; exact hshape, Term.wt_typeOf ht⟩
  | notNot b pl ho ha =>
    subst ha
    exact (Term.wf_node.mp (hwf' (.node .not [r] pl) (by simp))).1 r (by simp)
  | toRealConst v ho ha => exact wf_real _
  | divConst a' c ho hc ha =>
    subst ha
    rw [Term.wf_node]
    refine ⟨?_, rfl, Term.wt_typeOf ht⟩
    intro x hx
    simp only [List.mem_cons, List.not_mem_nil, or_false] at hx
    rcases hx with rfl | rfl
    · exact hwf' _ (by simp)
    · exact wf_real _
  | array ho =>
    subst ho
    match as', hwf', ht with
    | [], _, ht =>
      have e : mkArray p [] = .node .arrayValue [] p := rfl
      rw [e] at ht ⊢
      rw [Term.wf_node]
      exact ⟨(fun _ h => nomatch h), rfl, Term.wt_typeOf ht⟩
    | d' :: rest', hwf', ht =>
      rw [mkArray_cons] at ht ⊢
      rw [Term.wf_node]
      refine ⟨?_, rfl, Term.wt_typeOf ht⟩
      intro x hx
      rcases List.mem_cons.mp hx with rfl | hx
      · exact hwf' _ (by simp)
      · obtain ⟨kv, hkv, hx⟩ := mem_unpairs hx
        have := pyDict_all (fun k => k.wf = true) (fun v => v.wf = true)
          (fun q hq => ⟨hwf' _ (List.mem_cons_of_mem _ (mem_pairsOf hq).1),
            hwf' _ (List.mem_cons_of_mem _ (mem_pairsOf hq).2)⟩) kv (List.mem_filter.mp hkv).1
        rcases hx with rfl | rfl
        · exact this.1
        · exact this.2

def HandlerWf (h : FnHandler) : Prop :=
  ∀ f as r, h f as = some r → (∀ a ∈ as, a.wf = true) → as.map Term.typeOf = f.params.map some → r.wf = true

theorem noInterp_wf : HandlerWf noInterp := by intro f as r h; cases h

/-- a well-formed type-correct map -/
def WfMap (σ : TMap) : Prop := ∀ kv ∈ σ, kv.2.wf = true ∧ kv.2.typeOf = kv.1.typeOf

theorem WfMap.tyMap {σ : TMap} (h : WfMap σ) : TyMap σ :=
  fun kv hkv => ⟨Term.wf_wt _ (h kv hkv).1, (h kv hkv).2⟩

theorem WfMap.bodyMap {σ : TMap} (h : WfMap σ) (op : Op) (p : Payload) : WfMap (bodyMap σ op p) := by
  unfold Subst.bodyMap
  split
  · exact fun kv hkv => h kv (List.mem_filter.mp hkv).1
  · exact h

theorem substG_wf (ms : Bool) {h : FnHandler} (hh : HandlerTyped h) (hw : HandlerWf h) :
    (t : Term) → ∀ σ : TMap, WfMap σ → t.wf = true → normal t = true →
      (substG ms h σ t).wf = true
  | .node op args p, σ, hσ, hwf, hn => by
    have hwt := Term.wf_wt _ hwf
    obtain ⟨hchwf, _, _⟩ := Term.wf_node.mp hwf
    have ihw : ∀ a ∈ args, (substG ms h (bodyMap σ op p) a).wf = true :=
      fun a hm => substG_wf ms hh hw a _ (hσ.bodyMap op p) (hchwf a hm) (normal_child hn a hm)
    have iht : ∀ a ∈ args, (substG ms h (bodyMap σ op p) a).wt = true ∧
        (substG ms h (bodyMap σ op p) a).typeOf = a.typeOf :=
      fun a hm => substG_type ms hh a _ (hσ.bodyMap op p).tyMap (Term.wt_child hwt a hm) (normal_child hn a hm)
    have hs : SameTypes args (args.map (substG ms h (bodyMap σ op p))) := by
      constructor
      · intro a' ha'
        obtain ⟨a, hm, rfl⟩ := List.mem_map.mp ha'
        exact (iht a hm).1
      · rw [List.map_map]
        exact List.map_congr_left (fun a hm => (iht a hm).2)
    have hwf' : ∀ a' ∈ args.map (substG ms h (bodyMap σ op p)), a'.wf = true := by
      intro a' ha'
      obtain ⟨a, hm, rfl⟩ := List.mem_map.mp ha'
      exact ihw a hm
    have hb : (build h op p (args.map (substG ms h (bodyMap σ op p)))).wf = true := by
      unfold build
      split
      · split
        · next r hr =>
          have h1 := typeOfNode_function_some (Term.wt_typeOf hwt)
          exact hw _ _ r hr hwf' (by rw [hs.ty]; exact h1.1)
        · exact rebuild_wf hwf (normal_here hn) hs hwf'
      · exact rebuild_wf hwf (normal_here hn) hs hwf'
    rw [substG]
    cases ms
    · simp only [Bool.false_eq_true, if_false]
      cases hl : lookup σ (.node op args p) with
      | none => exact hb
      | some v => exact (hσ _ (lookup_mem hl)).1
    · simp only [if_true]
      cases hl : lookup σ (build h op p (args.map (substG true h (bodyMap σ op p)))) with
      | none => exact hb
      | some v => exact (hσ _ (lookup_mem hl)).1


end PySMT.Subst
