import PySMT.Proofs.C06Infix3
/-!
# C06 — success lemmas used by the non-vacuity `example`s of `Props/C06.lean`
(`Term.typeOf` is defined by well-founded recursion and does not evaluate by `decide`; these
lemmas compute it on the shapes the examples use).
-/
namespace PySMT.C06
open PySMT.Mk

theorem typeOf_node (op : Op) (args : List Term) (p : Payload) :
    (Term.node op args p).typeOf = typeOfNode op p (args.map Term.typeOf) := by
  simp only [Term.typeOf]

theorem typeOf_var (n : String) (t : Ty) : (Term.var n t).typeOf = some t := by
  simp only [Term.var, Term.sym, Term.typeOf, List.map_nil]; rfl

theorem typeOf_int (n : Int) : (Term.int n).typeOf = some .int := by
  simp only [Term.int, Term.typeOf, List.map_nil]; rfl

theorem iteLeaf_sym (n : Nat) (s : Sym) : iteLeaf n (Term.sym s) = Term.sym s := by
  cases n <;> rfl

theorem bvWidth_var (n : String) (w : Nat) : bvWidth (Term.var n (.bv w)) = .ok w := by
  unfold bvWidth Term.var
  rw [iteLeaf_sym]
  rfl

theorem create_eq (op : Op) (args : List Term) (p : Payload)
    (h : (typeOfNode op p (args.map Term.typeOf)).isSome = true) :
    create op args p = .ok (.node op args p) := by
  unfold create; rw [if_pos h]

/-- `create` on two operands of known sorts -/
theorem create2 (op : Op) (a b : Term) (p : Payload) (ta tb : Ty) (ha : a.typeOf = some ta)
    (hb : b.typeOf = some tb) (h : (typeOfNode op p [some ta, some tb]).isSome = true) :
    create op [a, b] p = .ok (.node op [a, b] p) := by
  apply create_eq
  simpa [ha, hb] using h

theorem create1 (op : Op) (a : Term) (p : Payload) (ta : Ty) (ha : a.typeOf = some ta)
    (h : (typeOfNode op p [some ta]).isSome = true) : create op [a] p = .ok (.node op [a] p) := by
  apply create_eq
  simpa [ha] using h

theorem create3 (op : Op) (a b c : Term) (p : Payload) (ta tb tc : Ty) (ha : a.typeOf = some ta)
    (hb : b.typeOf = some tb) (hc : c.typeOf = some tc)
    (h : (typeOfNode op p [some ta, some tb, some tc]).isSome = true) :
    create op [a, b, c] p = .ok (.node op [a, b, c] p) := by
  apply create_eq
  simpa [ha, hb, hc] using h

end PySMT.C06
