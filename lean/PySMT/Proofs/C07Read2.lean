import PySMT.Proofs.C07Read
/-!
# C07 (`read_toSexp`, continued): sorts, binders, applications of declared functions
-/
namespace PySMT.Printer
open PySMT.Std PySMT.Sexp

theorem symName_lits : symName? "Bool" = some "Bool" ∧ symName? "Int" = some "Int" ∧ symName? "Real" = some "Real"
    ∧ symName? "String" = some "String" ∧ symName? "BitVec" = some "BitVec" ∧ symName? "Array" = some "Array"
    ∧ symName? "const" = some "const"
    ∧ symName? "let" = none ∧ symName? "forall" = none ∧ symName? "exists" = none ∧ symName? "!" = none
    ∧ symName? "_" = none ∧ symName? "as" = none ∧ symName? "match" = none ∧ symName? "par" = none := by
  decide +kernel

theorem breakBrace_none : ∀ (cs : List Char), '{' ∉ cs → breakBrace cs = (cs, none)
  | [], _ => rfl
  | c :: cs, h => by
    simp only [List.mem_cons, not_or] at h
    have hc : (c == '{') = false := by
      apply beq_eq_false_iff_ne.2
      exact fun e => h.1 e.symm
    simp [breakBrace, hc, breakBrace_none cs h.2]

/-- a symbol token (of a name that is not reserved) and what `sortStd`/`rd` see of it -/
theorem symTok (n : String) (hch : n.toList.all nameChar = true) (hr : isReserved n = false) :
    ∃ tok, quoteAtom n = .atom tok ∧ symName? tok = some n := by
  obtain ⟨tok, h1, h2⟩ := symName?_sym n hch
  exact ⟨tok, by rw [quoteAtom_eq n hch hr, h1], h2⟩

theorem sortStd_tySexp (env : SEnv) : ∀ (ty : Ty), SortOK env ty = true → sortStd env (tySexp ty) = .ok ty
  | .bool, _ => by simp [tySexp, sortStd, symName_lits.1]
  | .int, _ => by simp [tySexp, sortStd, symName_lits.2.1]
  | .real, _ => by simp [tySexp, sortStd, symName_lits.2.2.1]
  | .str, _ => by simp [tySexp, sortStd, symName_lits.2.2.2.1]
  | .bv w, h => by
    simp only [SortOK, decide_eq_true_eq] at h
    simp [tySexp, sortStd, natAtom, symName_lits.2.2.2.2.1, numeral?_natStr, h]
  | .array i e, h => by
    simp only [SortOK, Bool.and_eq_true] at h
    have hi := sortStd_tySexp env i h.1
    have he := sortStd_tySexp env e h.2
    cases hti : tySexp i <;> cases hte : tySexp e <;>
      simp [tySexp, sortStd, sortStdList, symName_lits.2.2.2.2.2.1, ← hti, ← hte, hi, he]
  | .custom n, h => by
    simp only [SortOK, Bool.and_eq_true, Bool.not_eq_true', beq_iff_eq] at h
    obtain ⟨⟨⟨⟨hbr, hch⟩, hr⟩, hbuiltin⟩, hls⟩ := h
    have hbr' : '{' ∉ n.toList := by simpa using hbr
    simp only [List.contains_cons, List.contains_nil, Bool.or_false, Bool.or_eq_false_iff, beq_eq_false_iff_ne,
      ne_eq] at hbuiltin
    obtain ⟨hB, hI, hR, hS⟩ := hbuiltin
    have hts : tySexp (.custom n) = quoteAtom n := by
      simp only [tySexp]
      cases hl : n.length with
      | zero => simp [nameToSexp, sortAtom, String.ofList_toList]
      | succ k =>
        have hb : ["Int", "Real", "Bool", "String"].contains n = false := by
          simp only [List.contains_cons, List.contains_nil, Bool.or_false, Bool.or_eq_false_iff, beq_eq_false_iff_ne,
            ne_eq]
          exact ⟨hI, hR, hB, hS⟩
        simp only [nameToSexp, breakBrace_none _ hbr', String.ofList_toList, hb, Bool.false_eq_true, if_false, sortAtom]
    obtain ⟨tok, htok, hsn⟩ := symTok n hch hr
    rw [hts, htok]
    have e1 : (n == "Bool") = false := by simpa using hB
    have e2 : (n == "Int") = false := by simpa using hI
    have e3 : (n == "Real") = false := by simpa using hR
    have e4 : (n == "String") = false := by simpa using hS
    simp [sortStd, hsn, e1, e2, e3, e4, hls]

theorem sortStdList_tySexp (env : SEnv) : ∀ (tys : List Ty), (∀ t ∈ tys, SortOK env t = true) →
    sortStdList env (tys.map tySexp) = .ok tys
  | [], _ => rfl
  | t :: ts, h => by
    simp [sortStdList, sortStd_tySexp env t (h t (by simp)),
      sortStdList_tySexp env ts (fun t' ht' => h t' (List.mem_cons_of_mem _ ht'))]

/-- the sorted-variable list of a binder is read back -/
theorem rdSortedVars_vars (env : SEnv) : ∀ (vs : List Sym),
    (∀ v ∈ vs, (nameFine v.name && v.params.isEmpty && SortOK env v.ret) = true) →
    rdSortedVars env (vs.map sortedVar) = .ok vs
  | [], _ => rfl
  | v :: vs, h => by
    have hv := h v (by simp)
    simp only [Bool.and_eq_true, nameFine, Bool.not_eq_true', List.isEmpty_iff] at hv
    obtain ⟨⟨⟨⟨hch, hr⟩, hth⟩, hpar⟩, hso⟩ := hv
    obtain ⟨tok, htok, hsn⟩ := symTok v.name hch hr
    have ih := rdSortedVars_vars env vs (fun v' hv' => h v' (List.mem_cons_of_mem _ hv'))
    have hvar : Sym.var v.name v.ret = v := by
      cases v with
      | mk n ps r => simp only at hpar; subst hpar; rfl
    have hth' : v.name ∉ theorySymbols := by simpa using hth
    simp [List.map_cons, sortedVar, htok, rdSortedVars, hsn, hth', sortStd_tySexp env v.ret hso, ih, hvar]

end PySMT.Printer
