import PySMT.Impl.SmtSolver
/-!
# C17, part 1: replies are read in step with the commands (any solver process)

`Paired S s₀ t s`: the history `t` consists of blocks "command written, its reply read" and leads the
solver from `s₀` to `s`.  Every method of the wrapper preserves "the pipe is empty and the history is
paired" (`Good`), whatever the solver answers and whether or not the method raises.
-/
namespace PySMT.SmtSolver
open PySMT.StrictSolver

variable {S : Solver}

/-! ## running the monad -/
namespace M
variable {α β : Type}
@[simp] theorem run_pure (a : α) (w : WState S) : (pure a : M S α) w = (w, .ok a) := rfl
theorem run_bind (m : M S α) (f : α → M S β) (w : WState S) :
    (m >>= f) w = match m w with
      | (w', .ok a) => f a w'
      | (w', .error e) => (w', .error e) := rfl
theorem bind_ok {m : M S α} {f : α → M S β} {w w' : WState S} {a : α} (h : m w = (w', .ok a)) :
    (m >>= f) w = f a w' := by rw [run_bind, h]
theorem bind_err {m : M S α} {f : α → M S β} {w w' : WState S} {e : Err} (h : m w = (w', .error e)) :
    (m >>= f) w = (w', .error e) := by rw [run_bind, h]
@[simp] theorem run_throw (e : Err) (w : WState S) : (M.throw e : M S α) w = (w, .error e) := rfl
@[simp] theorem run_get (w : WState S) : (M.get : M S _) w = (w, .ok w) := rfl
@[simp] theorem run_modify (f : WState S → WState S) (w : WState S) : M.modify f w = (f w, .ok ()) := rfl
@[simp] theorem run_tryFinally (m : M S α) (fin : WState S → WState S) (w : WState S) :
    M.tryFinally m fin w = (fin (m w).1, (m w).2) := rfl
end M

/-! ## paired histories -/

inductive Paired (S : Solver) : S.σ → List Event → S.σ → Prop
  | nil (s : S.σ) : Paired S s [] s
  | snoc {s₀ s : S.σ} {t : List Event} (c : Cmd) : Paired S s₀ t s →
      Paired S s₀ (t ++ [.send c, .recv (S.respond s c).2]) (S.respond s c).1

/-- readable form: a history is in step when it is a sequence of blocks `send c, recv (reply of the solver to c)`,
    possibly followed by one last command whose reply was not read (only `exit` does that) -/
def inSync (S : Solver) : S.σ → List Event → Prop
  | _, [] => True
  | _, [.send _] => True
  | s, .send c :: .recv r :: rest => r = (S.respond s c).2 ∧ inSync S (S.respond s c).1 rest
  | _, _ => False

theorem inSync_append_pair (s : S.σ) (t : List Event) (s' : S.σ) (h : Paired S s t s') (rest : List Event) :
    inSync S s' rest → inSync S s (t ++ rest) := by
  induction h generalizing rest with
  | nil => simp
  | snoc c _ ih =>
    intro hr
    rw [List.append_assoc]
    apply ih
    simp only [List.cons_append, List.nil_append, inSync]
    exact ⟨trivial, hr⟩

theorem Paired.inSync {s t s'} (h : Paired S s t s') : inSync S s t := by
  have := inSync_append_pair s t s' h [] (by simp [SmtSolver.inSync])
  simpa using this

/-- the pipe is empty and the history is paired -/
structure Good (w : WState S) : Prop where
  queue : w.chan.queue = []
  paired : Paired S S.init w.chan.trace w.chan.solver

/-- an action keeps the pipe in step, whatever its result -/
def Pres {α : Type} (m : M S α) : Prop := ∀ w, Good w → Good (m w).1

theorem pres_pure {α : Type} (a : α) : Pres (pure a : M S α) := fun _ h => h
theorem pres_throw {α : Type} (e : Err) : Pres (M.throw e : M S α) := fun _ h => h
theorem pres_get : Pres (M.get : M S _) := fun _ h => h

theorem pres_bind {α β : Type} {m : M S α} {f : α → M S β} (hm : Pres m) (hf : ∀ a, Pres (f a)) : Pres (m >>= f) := by
  intro w hw
  rw [M.run_bind]
  have := hm w hw
  match h : m w with
  | (w', .ok a) => rw [h] at this; exact hf a w' this
  | (w', .error e) => rw [h] at this; exact this

theorem pres_modify (f : WState S → WState S) (hf : ∀ w, (f w).chan = w.chan) : Pres (M.modify f) := by
  intro w hw
  simp only [M.run_modify]
  exact ⟨by rw [hf]; exact hw.queue, by rw [hf]; exact hw.paired⟩

theorem pres_tryFinally {α : Type} {m : M S α} (fin : WState S → WState S) (hm : Pres m)
    (hf : ∀ w, (fin w).chan = w.chan) : Pres (M.tryFinally m fin) := by
  intro w hw
  simp only [M.run_tryFinally]
  have := hm w hw
  exact ⟨by rw [hf]; exact this.queue, by rw [hf]; exact this.paired⟩

/-- the transaction "write a command, read one reply, continue" -/
theorem pres_send_recv {α : Type} (c : Cmd) (k : Reply → M S α) (hk : ∀ r, Pres (k r)) :
    Pres (send c >>= fun _ => recv >>= k) := by
  intro w hw
  have hq := hw.queue
  simp only [M.run_bind, send, M.run_modify, recv, hq, List.nil_append]
  apply hk
  refine ⟨rfl, ?_⟩
  simp only [List.append_assoc, List.cons_append, List.nil_append]
  exact Paired.snoc c hw.paired

theorem pres_checkSuccess_after_send (c : Cmd) : Pres (sendSilent c : M S Unit) := by
  show Pres (send c >>= fun _ => recv >>= fun r => if r = Reply.success then pure () else M.throw .solverError)
  apply pres_send_recv
  intro r
  split
  · exact pres_pure _
  · exact pres_throw _

theorem pres_declareSort (d : SortDecl) : Pres (declareSort d : M S Unit) :=
  pres_bind (pres_checkSuccess_after_send _) fun _ => pres_bind pres_get fun w => by
    split
    · exact pres_throw _
    · exact pres_modify _ fun _ => rfl

theorem pres_declareVar (s : Sym) : Pres (declareVar s : M S Unit) :=
  pres_bind (pres_checkSuccess_after_send _) fun _ => pres_bind pres_get fun w => by
    split
    · exact pres_throw _
    · exact pres_modify _ fun _ => rfl

theorem pres_declareMissingSorts : ∀ ds : List SortDecl, Pres (declareMissingSorts ds : M S Unit)
  | [] => pres_pure _
  | d :: ds => by
    show Pres (M.get >>= fun w => if inAny w.sorts d then declareMissingSorts ds
      else declareSort d >>= fun _ => declareMissingSorts ds)
    refine pres_bind pres_get fun w => ?_
    split
    · exact pres_declareMissingSorts ds
    · exact pres_bind (pres_declareSort d) fun _ => pres_declareMissingSorts ds

theorem pres_declareMissingVars : ∀ ss : List Sym, Pres (declareMissingVars ss : M S Unit)
  | [] => pres_pure _
  | s :: ss => by
    show Pres (M.get >>= fun w => if inAny w.vars s then declareMissingVars ss
      else declareVar s >>= fun _ => declareMissingVars ss)
    refine pres_bind pres_get fun w => ?_
    split
    · exact pres_declareMissingVars ss
    · exact pres_bind (pres_declareVar s) fun _ => pres_declareMissingVars ss

theorem pres_pushBody (n : Nat) : Pres (pushBody n : M S Unit) :=
  pres_bind (pres_checkSuccess_after_send _) fun _ => pres_modify _ fun _ => rfl

theorem pres_popBody (n : Nat) : Pres (popBody n : M S Unit) :=
  pres_bind (pres_checkSuccess_after_send _) fun _ => pres_bind pres_get fun w =>
    pres_bind (pres_modify _ fun _ => rfl) fun _ => by
      split
      · exact pres_pure _
      · exact pres_throw _

theorem pres_clearPendingPop : Pres (clearPendingPop : M S Unit) := by
  show Pres (M.get >>= fun w => if w.pendingPop = true then
      M.modify (fun w => { w with pendingPop := false }) >>= fun _ => popBody 1 else pure ())
  refine pres_bind pres_get fun w => ?_
  split
  · exact pres_bind (pres_modify _ fun _ => rfl) fun _ => pres_popBody 1
  · exact pres_pure _

theorem pres_push (n : Nat) : Pres (push n : M S Unit) := pres_bind pres_clearPendingPop fun _ => pres_pushBody n
theorem pres_pop (n : Nat) : Pres (pop n : M S Unit) := pres_bind pres_clearPendingPop fun _ => pres_popBody n

theorem pres_resetAssertions : Pres (resetAssertions : M S Unit) :=
  pres_bind pres_clearPendingPop fun _ => pres_bind (pres_checkSuccess_after_send _) fun _ => pres_modify _ fun _ => rfl

theorem pres_addAssertion (e : Expr) : Pres (addAssertion e : M S Unit) :=
  pres_bind pres_clearPendingPop fun _ => pres_bind (pres_declareMissingSorts _) fun _ =>
    pres_bind (pres_declareMissingVars _) fun _ => pres_checkSuccess_after_send _

theorem pres_solve : Pres (solve : M S Bool) := by
  refine pres_bind pres_clearPendingPop fun _ => pres_send_recv _ _ fun r => ?_
  split
  · exact pres_pure _
  · exact pres_pure _
  · exact pres_throw _
  · exact pres_throw _

theorem pres_getValue (e : Expr) : Pres (getValue e : M S String) := by
  refine pres_send_recv _ _ fun r => ?_
  split
  · exact pres_pure _
  · exact pres_throw _

theorem pres_getValues : ∀ ss : List Sym, Pres (getValues ss : M S _)
  | [] => pres_pure _
  | _ :: ss => pres_bind (pres_getValue _) fun _ => pres_bind (pres_getValues ss) fun _ => pres_pure _

theorem pres_getModel : Pres (getModel : M S _) := pres_bind pres_get fun _ => pres_getValues _

theorem pres_isSat (e : Expr) : Pres (isSat e : M S Bool) :=
  pres_bind (pres_push 1) fun _ => pres_tryFinally _ (pres_bind (pres_addAssertion e) fun _ => pres_solve) fun _ => rfl

theorem pres_initBody (logic : String) : Pres (initBody logic : M S Unit) :=
  pres_bind (pres_checkSuccess_after_send _) fun _ => pres_bind (pres_checkSuccess_after_send _) fun _ =>
    pres_bind (pres_checkSuccess_after_send _) fun _ => pres_checkSuccess_after_send _

/-! ## whole objects -/

/-- What holds of the pipe of every object: the pipe is empty and the history paired, or the object was exited and
    the history is a paired one followed by the final `exit`, whose reply is never read. -/
def Synced (w : WState S) : Prop :=
  Good w ∨ (w.dead = true ∧ ∃ t s, Paired S S.init t s ∧ w.chan.trace = t ++ [.send .exit])

theorem outOf_fst {α : Type} (f : α → Out) (r : WState S × Except Err α) : (outOf f r).1 = r.1 := by
  rcases r with ⟨w, _ | _⟩ <;> rfl

theorem good_call (a : Api) (w : WState S) (hw : Good w) : Synced (call a w).1 := by
  cases a with
  | addAssertion e => left; simp only [call, outOf_fst]; exact pres_addAssertion e w hw
  | push n => left; simp only [call, outOf_fst]; exact pres_push n w hw
  | pop n => left; simp only [call, outOf_fst]; exact pres_pop n w hw
  | resetAssertions => left; simp only [call, outOf_fst]; exact pres_resetAssertions w hw
  | solve => left; simp only [call, outOf_fst]; exact pres_solve w hw
  | getValue e => left; simp only [call, outOf_fst]; exact pres_getValue e w hw
  | getModel => left; simp only [call, outOf_fst]; exact pres_getModel w hw
  | isSat e => left; simp only [call, outOf_fst]; exact pres_isSat e w hw
  | isValid e => left; simp only [call, outOf_fst]; exact pres_isSat e w hw
  | isUnsat e => left; simp only [call, outOf_fst]; exact pres_isSat e w hw
  | exit =>
    right
    simp only [call, outOf_fst, exitBody, M.run_bind, send, M.run_modify]
    exact ⟨trivial, _, _, hw.paired, rfl⟩

theorem synced_step (w : WState S) (a : Api) (hw : Synced w) : Synced (step w a).1 := by
  unfold step
  by_cases hd : w.dead = true
  · simp only [hd, if_true]; exact hw
  · simp only [hd]
    rcases hw with hg | ⟨hd', _⟩
    · exact good_call a w hg
    · exact absurd hd' hd

theorem synced_create (S : Solver) (logic : String) : Synced (create S logic) := by
  have hb : Good (blank S) := ⟨rfl, Paired.nil _⟩
  have := pres_initBody logic (blank S) hb
  unfold create
  left
  match h : initBody logic (blank S) with
  | (w, .ok _) => rw [h] at this; exact this
  | (w, .error _) => rw [h] at this; exact ⟨this.queue, this.paired⟩

theorem synced_runFrom : ∀ (ops : List Api) (w : WState S), Synced w → Synced (runFrom w ops).1
  | [], _, h => h
  | a :: as, w, h => synced_runFrom as (step w a).1 (synced_step w a h)

theorem Synced.inSync {w : WState S} (h : Synced w) : SmtSolver.inSync S S.init w.chan.trace := by
  rcases h with hg | ⟨_, t, s, hp, ht⟩
  · exact hg.paired.inSync
  · rw [ht]; exact inSync_append_pair _ _ _ hp _ (by simp [SmtSolver.inSync])

theorem Synced.queue {w : WState S} (h : Synced w) (hd : w.dead = false) : w.chan.queue = [] := by
  rcases h with hg | ⟨hd', _⟩
  · exact hg.queue
  · rw [hd] at hd'; cases hd'

/-! ## the verdict returned is the verdict given -/

/-- `solve` returns `b` only when the solver's own reply to *this* `(check-sat)` was `sat` (for `true`) resp.
    `unsat` (for `false`); that exchange is the last block of the history. -/
theorem solve_faithful (w : WState S) (hw : Good w) (w' : WState S) (b : Bool) (h : solve w = (w', .ok b)) :
    ∃ t s, Paired S S.init t s ∧
      (S.respond s .checkSat).2 = .verdict (if b then .sat else .unsat) ∧
      w'.chan.trace = t ++ [.send .checkSat, .recv (.verdict (if b then .sat else .unsat))] := by
  have hstep : solve w = (clearPendingPop >>= fun _ => send .checkSat >>= fun _ => recv >>= fun ans => match ans with
    | .verdict .sat => pure true
    | .verdict .unsat => pure false
    | .verdict .unknown => M.throw .unknownResult
    | _ => M.throw .solverError) w := rfl
  rw [hstep, M.run_bind] at h
  have hg := pres_clearPendingPop w hw
  match h1 : clearPendingPop w with
  | (w1, .error e) => rw [h1] at h; simp at h
  | (w1, .ok ()) =>
    rw [h1] at h hg
    have hq : w1.chan.queue = [] := hg.queue
    have hp : Paired S S.init w1.chan.trace w1.chan.solver := hg.paired
    simp only [M.run_bind, send, M.run_modify, recv, hq, List.nil_append] at h
    refine ⟨w1.chan.trace, w1.chan.solver, hp, ?_⟩
    generalize (S.respond w1.chan.solver Cmd.checkSat).2 = r at h ⊢
    match r, h with
    | .verdict .sat, h =>
      cases h
      exact ⟨rfl, by simp⟩
    | .verdict .unsat, h =>
      cases h
      exact ⟨rfl, by simp⟩
    | .verdict .unknown, h => simp at h
    | .success, h => simp at h
    | .value _, h => simp at h
    | .error _, h => simp at h

/-- `is_valid` and `is_unsat` are the negation of `is_sat` on the formula they are given (for `is_valid`: the negated one) -/
theorem shortcuts_negate (w : WState S) (e : Expr) :
    (call (.isValid e) w).1 = (call (.isSat e) w).1 ∧ (call (.isUnsat e) w).1 = (call (.isSat e) w).1 ∧
    (∀ b, (call (.isSat e) w).2 = .bool b → (call (.isValid e) w).2 = .bool (!b) ∧ (call (.isUnsat e) w).2 = .bool (!b)) := by
  simp only [call, outOf_fst, true_and]
  intro b
  match isSat e w with
  | (w', .ok b') => simp only [outOf, Out.bool.injEq]; rintro rfl; exact ⟨rfl, rfl⟩
  | (w', .error e') => simp [outOf]

end PySMT.SmtSolver
