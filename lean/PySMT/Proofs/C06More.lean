import PySMT.Proofs.C06Infix3
import PySMT.Proofs.BuildAgree
/-!
# C06 — additions after the independent review (rev-b)

* total `Div` theorem (including a divisor whose value is 0: the `div0r` / `div0i` branch)
* `_denotes` theorems by name for the constructors that are evaluator clauses
  (`Ite`, `Equals`, `Select`, `Store`, `Array`, `BV(n, w)`, the string operations)
* n-ary `BVConcat` stated with `BitVec.++`
* `BVExtract` with the default end, refusal theorems exposing the domains of the integer parameters
* the width lemma from typing, and the theorems restated without `bvWidth … = .ok w` hypotheses
* literal right operands of the infix operators; semantic theorems for the direct methods
-/
namespace PySMT.C06
open PySMT.Mk PySMT.Mk.Infix

/-! ## `Div`, totally -/

theorem evalOp_div (I : Interp) (p : Payload) (a b : Val) : evalOp I .div p [a, b] = Sem.div I a b := rfl

theorem eval_div_node (I : Interp) (a b : Term) (p : Payload) :
    eval I (.node .div [a, b] p) = Sem.div I (eval I a) (eval I b) := by
  rw [eval_op I .div _ _ (by decide) (by decide) (by decide) (by decide)]
  simp only [List.map_cons, List.map_nil, evalOp_div]

/-- **Div, total**: whatever the divisor's value (0 included: then the interpretation's
`div0r` / `div0i` decides, also under the rewrite into `Times(l, 1/c)`, which only fires for a
non-zero constant), the formula has the value of SMT-LIB's `/` (Real) resp. `div` (Int) -/
theorem div_total (I : Interp) {a b t : Term} (h : Mk.Div a b = .ok t) :
    (∀ x y : Rat, eval I a = .r x → eval I b = .r y → eval I t = Sem.div I (.r x) (.r y)) ∧
    (∀ x y : Int, eval I a = .i x → eval I b = .i y → eval I t = Sem.div I (.i x) (.i y)) := by
  have hd := div_denotes I h
  unfold Mk.Div at h
  split at h
  · next c =>
    have hcv : eval I (.node .realConst [] (.q c)) = .r c := by simp [eval_op, evalOp]
    split at h
    · obtain rfl := create_ok h
      exact ⟨fun x y ha hb => by rw [eval_div_node, ha, hb], fun x y ha hb => by rw [eval_div_node, ha, hb]⟩
    · next hc =>
      refine ⟨fun x y ha hb => ?_, fun x y ha hb => ?_⟩
      · have hy : y = c := by rw [hcv] at hb; cases hb; rfl
        subst hy
        rw [hd.1 x y hc ha hb]; simp [Sem.div, hc]
      · rw [hcv] at hb; cases hb
  · obtain rfl := create_ok h
    exact ⟨fun x y ha hb => by rw [eval_div_node, ha, hb], fun x y ha hb => by rw [eval_div_node, ha, hb]⟩

/-! ## constructors that are evaluator clauses, by name -/

theorem ite_denotes' (I : Interp) {c a b t : Term} (h : Mk.Ite c a b = .ok t) :
    eval I t = if truth I c then eval I a else eval I b := ite_eval I h

theorem equals_denotes' (I : Interp) {a b t : Term} (h : Mk.Equals a b = .ok t) :
    eval I t = .b (decide (eval I a = eval I b)) := equals_eval I h

theorem evalOp_select (I : Interp) (p : Payload) (a i : Val) : evalOp I .arraySelect p [a, i] = a.select i := rfl
theorem evalOp_store (I : Interp) (p : Payload) (a i v : Val) : evalOp I .arrayStore p [a, i, v] = a.store i v := rfl

theorem select_denotes' (I : Interp) {a i t : Term} (h : Mk.Select a i = .ok t) :
    eval I t = (eval I a).select (eval I i) := by
  rw [create_ok h, eval_op I .arraySelect _ _ (by decide) (by decide) (by decide) (by decide)]
  simp only [List.map_cons, List.map_nil, evalOp_select]

theorem store_denotes' (I : Interp) {a i v t : Term} (h : Mk.Store a i v = .ok t) :
    eval I t = (eval I a).store (eval I i) (eval I v) := by
  rw [create_ok h, eval_op I .arrayStore _ _ (by decide) (by decide) (by decide) (by decide)]
  simp only [List.map_cons, List.map_nil, evalOp_store]

theorem evalOp_arrayValue (I : Interp) (idx : Ty) (d : Val) (rest : List Val) :
    evalOp I .arrayValue (.ty idx) (d :: rest) = Sem.arrayValue idx d rest := rfl

/-- the pairs `Array` keeps: those whose value is not the default, in the order given -/
def keptPairs (d : Term) (assign : List (Term × Term)) : List Term :=
  (assign.filter (fun kv => kv.2 != d)).flatMap (fun kv => [kv.1, kv.2])

theorem array_denotes' (I : Interp) {idx : Ty} {d t : Term} {assign : List (Term × Term)}
    (h : Mk.Array idx d assign = .ok t) :
    eval I t = Sem.arrayValue idx (eval I d) ((keptPairs d assign).map (eval I)) := by
  obtain ⟨more, hm, h⟩ := bind_ok h
  rw [create_ok h, PySMT.BuildAgree.array_args assign more hm,
    eval_op I .arrayValue _ _ (by decide) (by decide) (by decide) (by decide)]
  simp only [List.map_cons, evalOp_arrayValue]; rfl

/-- `BV(n, w)`, success case: the constant of width `w` whose unsigned value is `n` -/
theorem bv_denotes' (I : Interp) {n : Int} {w : Nat} (hw : 0 < w) (h0 : 0 ≤ n) (h1 : n < 2 ^ w) :
    Mk.BV n w = .ok (Term.bvc n.toNat w) ∧ eval I (Term.bvc n.toNat w) = ofBV (BitVec.ofNat w n.toNat) ∧
      (BitVec.ofNat w n.toNat).toNat = n.toNat := by
  have hlt : n.toNat < 2 ^ w := by
    have : ((2 ^ w : Nat) : Int) = (2 : Int) ^ w := by simp
    omega
  exact ⟨bv_ok hw h0 h1, eval_bvc_ofBV I _ _ hlt, by simp [Nat.mod_eq_of_lt hlt]⟩

/-! ### strings -/

theorem evalOp_strLength (I : Interp) (p : Payload) (a : Val) : evalOp I .strLength p [a] = .i (Sem.sOf a).length := rfl
theorem evalOp_strConcat (I : Interp) (p : Payload) (vs : List Val) : evalOp I .strConcat p vs = Sem.mkS (vs.flatMap Sem.sOf) := rfl
theorem evalOp_strContains (I : Interp) (p : Payload) (a b : Val) :
    evalOp I .strContains p [a, b] = .b (Sem.strContains (Sem.sOf a) (Sem.sOf b)) := rfl
theorem evalOp_strIndexOf (I : Interp) (p : Payload) (a b c : Val) :
    evalOp I .strIndexOf p [a, b, c] = .i (Sem.strIndexOf (Sem.sOf a) (Sem.sOf b) (Sem.iOf c)) := rfl
theorem evalOp_strReplace (I : Interp) (p : Payload) (a b c : Val) :
    evalOp I .strReplace p [a, b, c] = Sem.mkS (Sem.strReplace (Sem.sOf a) (Sem.sOf b) (Sem.sOf c)) := rfl
theorem evalOp_strSubstr (I : Interp) (p : Payload) (a b c : Val) :
    evalOp I .strSubstr p [a, b, c] = Sem.mkS (Sem.strSubstr (Sem.sOf a) (Sem.iOf b) (Sem.iOf c)) := rfl
theorem evalOp_strPrefixOf (I : Interp) (p : Payload) (a b : Val) :
    evalOp I .strPrefixOf p [a, b] = .b (Sem.isPrefix (Sem.sOf a) (Sem.sOf b)) := rfl
theorem evalOp_strSuffixOf (I : Interp) (p : Payload) (a b : Val) :
    evalOp I .strSuffixOf p [a, b] = .b (Sem.isPrefix (Sem.sOf a).reverse (Sem.sOf b).reverse) := rfl
theorem evalOp_strToInt (I : Interp) (p : Payload) (a : Val) : evalOp I .strToInt p [a] = .i (Sem.strToInt (Sem.sOf a)) := rfl
theorem evalOp_intToStr (I : Interp) (p : Payload) (a : Val) : evalOp I .intToStr p [a] = Sem.mkS (Sem.intToStr (Sem.iOf a)) := rfl
theorem evalOp_strCharAt (I : Interp) (p : Payload) (a b : Val) :
    evalOp I .strCharAt p [a, b] = Sem.mkS (Sem.strAt (Sem.sOf a) (Sem.iOf b)) := rfl

/-- the string constructors build the node of their name: its value is the Strings-theory
function of the operand values (the clauses of `Core/Eval.lean`) -/
theorem strings_denote (I : Interp) {a b c t : Term} {as : List Term} :
    (Mk.StrLength a = .ok t → eval I t = .i (Sem.sOf (eval I a)).length) ∧
    (Mk.StrConcat as = .ok t → 2 ≤ as.length ∧ eval I t = Sem.mkS ((as.map (eval I)).flatMap Sem.sOf)) ∧
    (Mk.StrContains a b = .ok t → eval I t = .b (Sem.strContains (Sem.sOf (eval I a)) (Sem.sOf (eval I b)))) ∧
    (Mk.StrIndexOf a b c = .ok t →
      eval I t = .i (Sem.strIndexOf (Sem.sOf (eval I a)) (Sem.sOf (eval I b)) (Sem.iOf (eval I c)))) ∧
    (Mk.StrReplace a b c = .ok t →
      eval I t = Sem.mkS (Sem.strReplace (Sem.sOf (eval I a)) (Sem.sOf (eval I b)) (Sem.sOf (eval I c)))) ∧
    (Mk.StrSubstr a b c = .ok t →
      eval I t = Sem.mkS (Sem.strSubstr (Sem.sOf (eval I a)) (Sem.iOf (eval I b)) (Sem.iOf (eval I c)))) ∧
    (Mk.StrPrefixOf a b = .ok t → eval I t = .b (Sem.isPrefix (Sem.sOf (eval I a)) (Sem.sOf (eval I b)))) ∧
    (Mk.StrSuffixOf a b = .ok t →
      eval I t = .b (Sem.isPrefix (Sem.sOf (eval I a)).reverse (Sem.sOf (eval I b)).reverse)) ∧
    (Mk.StrToInt a = .ok t → eval I t = .i (Sem.strToInt (Sem.sOf (eval I a)))) ∧
    (Mk.IntToStr a = .ok t → eval I t = Sem.mkS (Sem.intToStr (Sem.iOf (eval I a)))) ∧
    (Mk.StrCharAt a b = .ok t → eval I t = Sem.mkS (Sem.strAt (Sem.sOf (eval I a)) (Sem.iOf (eval I b)))) := by
  refine ⟨fun h => ?_, fun h => ?_, fun h => ?_, fun h => ?_, fun h => ?_, fun h => ?_, fun h => ?_,
    fun h => ?_, fun h => ?_, fun h => ?_, fun h => ?_⟩
  · rw [create_ok h, eval_op I .strLength _ _ (by decide) (by decide) (by decide) (by decide)]; rfl
  · unfold Mk.StrConcat at h
    split at h
    · cases h
    · next hl =>
      rw [create_ok h, eval_op I .strConcat _ _ (by decide) (by decide) (by decide) (by decide)]
      exact ⟨by omega, rfl⟩
  · rw [create_ok h, eval_op I .strContains _ _ (by decide) (by decide) (by decide) (by decide)]; rfl
  · rw [create_ok h, eval_op I .strIndexOf _ _ (by decide) (by decide) (by decide) (by decide)]; rfl
  · rw [create_ok h, eval_op I .strReplace _ _ (by decide) (by decide) (by decide) (by decide)]; rfl
  · rw [create_ok h, eval_op I .strSubstr _ _ (by decide) (by decide) (by decide) (by decide)]; rfl
  · rw [create_ok h, eval_op I .strPrefixOf _ _ (by decide) (by decide) (by decide) (by decide)]; rfl
  · rw [create_ok h, eval_op I .strSuffixOf _ _ (by decide) (by decide) (by decide) (by decide)]; rfl
  · rw [create_ok h, eval_op I .strToInt _ _ (by decide) (by decide) (by decide) (by decide)]; rfl
  · rw [create_ok h, eval_op I .intToStr _ _ (by decide) (by decide) (by decide) (by decide)]; rfl
  · rw [create_ok h, eval_op I .strCharAt _ _ (by decide) (by decide) (by decide) (by decide)]; rfl

/-! ## n-ary `BVConcat` with `BitVec.++` -/

/-- a bit-vector of some width -/
abbrev SomeBV := Σ w : Nat, BitVec w

def SomeBV.val (s : SomeBV) : Val := ofBV s.2
def SomeBV.append (s u : SomeBV) : SomeBV := ⟨s.1 + u.1, s.2 ++ u.2⟩

theorem bvConcat_some (s u : SomeBV) : Sem.bvConcat s.val u.val = (s.append u).val :=
  bvConcat_ofBV s.2 u.2

theorem foldl_concat_some (rest : List SomeBV) (acc : SomeBV) :
    (rest.map SomeBV.val).foldl Sem.bvConcat acc.val = (rest.foldl SomeBV.append acc).val := by
  induction rest generalizing acc with
  | nil => rfl
  | cons s rest ih => simp only [List.map_cons, List.foldl_cons, bvConcat_some, ih]

/-- **n-ary BVConcat with `++`**: for operands of arbitrary (different) widths, the value is
`((x₀ ++ x₁) ++ x₂) ++ …` — left-associated, first operand most significant -/
theorem bvConcat_append (I : Interp) {a b : Term} {rest : List Term} {t : Term}
    (h : Mk.BVConcat (a :: b :: rest) = .ok t) (x y : SomeBV) (zs : List SomeBV)
    (ha : eval I a = x.val) (hb : eval I b = y.val) (hr : rest.map (eval I) = zs.map SomeBV.val) :
    eval I t = (zs.foldl SomeBV.append (x.append y)).val := by
  rw [bvConcat_denotes I h, ha, hb, hr, bvConcat_some, foldl_concat_some]

/-! ## `BVExtract`: default end, refusals -/

/-- `BVExtract(f, s)` (default end = width − 1): bits `s … w-1` -/
theorem bvExtract_default (I : Interp) {f t : Term} {s : Int} (h : Mk.BVExtract f s none = .ok t)
    {w : Nat} (hw : bvWidth f = .ok w) (x : BitVec w) (hf : eval I f = ofBV x) :
    0 ≤ s ∧ s < w ∧ eval I t = ofBV (x.extractLsb' s.toNat (w - s.toNat)) := by
  unfold Mk.BVExtract at h
  simp only [hw, bind, Except.bind] at h
  by_cases h1 : (w : Int) - 1 ≥ s ∧ s ≥ 0
  · rw [if_neg (by simpa using h1)] at h
    split at h
    · cases h
    · rw [create_ok h]
      refine ⟨h1.2, by omega, ?_⟩
      have e1 : w - 1 - s.toNat + 1 = w - s.toNat := by omega
      simp [eval_op, evalOp, hf, Sem.bvExtract, ofBV, e1]
  · rw [if_pos (by simpa using h1)] at h; cases h

/-- the slice must satisfy `0 ≤ start ≤ end` and fit the operand: anything else is refused
(`assert` in the code) -/
theorem bvExtract_refused (f : Term) (s e : Int) (w : Nat) (hw : bvWidth f = .ok w)
    (hbad : s < 0 ∨ e < s ∨ e - s + 1 > w) : Mk.BVExtract f s (some e) = .error .assertion := by
  unfold Mk.BVExtract
  simp only [hw, bind, Except.bind]
  by_cases h1 : e ≥ s ∧ s ≥ 0
  · rw [if_neg (by simpa using h1)]
    have : ¬ (e - s + 1 ≤ (w : Int)) := by omega
    rw [if_pos (by simpa using this)]
  · rw [if_pos (by simpa using h1)]

/-- a negative rotation step / extension is refused (by the type checker) -/
theorem rotate_extend_refused (f : Term) (k : Int) (w : Nat) (hw : bvWidth f = .ok w) (hk : k < 0) :
    Mk.BVRol f k = .error .type ∧ Mk.BVRor f k = .error .type ∧
    Mk.BVZExt f k = .error .type ∧ Mk.BVSExt f k = .error .type := by
  simp [Mk.BVRol, Mk.BVRor, Mk.BVZExt, Mk.BVSExt, rotate, extend, hw, hk, bind, Except.bind]

/-- rotations expose their domain: `0 ≤ k ≤ w` (a step above the width is a type error) -/
theorem rotate_domain {op : Op} (hop : op = .bvRol ∨ op = .bvRor) {f t : Term} {k : Int}
    (h : rotate op f k = .ok t) : ∃ w, f.typeOf = some (.bv w) ∧ 0 ≤ k ∧ k ≤ w := by
  obtain ⟨w, _, hk, rfl⟩ := rotate_shape h
  obtain ⟨w', _, h'⟩ := bind_ok h
  simp only [show ¬ k < 0 by omega, if_false] at h'
  obtain ⟨_, hs⟩ := PySMT.BuildAgree.create_inv h'
  simp only [List.map_cons, List.map_nil] at hs
  have hty := PySMT.BuildAgree.rot_type op hop w' k.toNat f hs
  refine ⟨w', hty, hk, ?_⟩
  rw [hty] at hs
  rcases hop with rfl | rfl
  · have : typeOfNode .bvRol (.ints [w', k.toNat]) [some (.bv w')] =
        if w' < k.toNat then none else if w' ≠ w' then none else some (.bv w') := rfl
    rw [this] at hs
    split at hs
    · cases hs
    · omega
  · have : typeOfNode .bvRor (.ints [w', k.toNat]) [some (.bv w')] =
        if w' < k.toNat then none else if w' ≠ w' then none else some (.bv w') := rfl
    rw [this] at hs
    split at hs
    · cases hs
    · omega

/-! ## the width from typing -/

open PySMT.BuildAgree (compOK) in
/-- **width lemma**: on a well-typed term of sort `BV w` (whose `bvComp` nodes carry the payload
`(1,)` the constructor stores — `Term.wt` does not look at that payload), `FNode.bv_width()` is `w` -/
theorem bvWidth_of_typeOf {t : Term} (hwt : t.wt = true) (hc : compOK t = true) {w : Nat}
    (hty : t.typeOf = some (.bv w)) : Mk.bvWidth t = .ok w :=
  PySMT.BuildAgree.mkWidth_of_typeOf hwt hc hty

/-! ## Python literals as right operands of the infix operators -/

/-- what the constant `c`, to which the literal `lit` is promoted at the receiver's sort `τ`, denotes -/
def LitDenotes (I : Interp) (lit : Arg) (τ : Ty) (c : Term) : Prop :=
  match lit, τ with
  | .t x, _ => c = x
  | .sym s, _ => c = Term.sym s
  | .i n, .int => eval I c = .i n
  | .i n, .real => eval I c = .r n
  | .q q, .real => eval I c = .r q
  | .b v, .bool => eval I c = .b v
  | .i n, .bv w => 0 < w ∧ 0 ≤ n ∧ n < 2 ^ w ∧ eval I c = ofBV (BitVec.ofNat w n.toNat)
  | .s v, .bv w => Mk.BVStr v (some w) = .ok c
  | _, _ => False

theorem eval_int (I : Interp) (n : Int) : eval I (Term.int n) = .i n := by
  simp [Term.int, eval_op, evalOp]
theorem eval_real (I : Interp) (q : Rat) : eval I (Term.real q) = .r q := by
  simp [Term.real, eval_op, evalOp]

theorem prepareArg_denotes (I : Interp) {lit : Arg} {τ : Ty} {c : Term} (h : prepareArg lit τ = .ok c) :
    LitDenotes I lit τ c := by
  unfold prepareArg at h
  cases lit with
  | t x => cases h; rfl
  | sym s => cases h; rfl
  | i n =>
    cases τ with
    | int => cases h; exact eval_int I n
    | real => cases h; exact eval_real I n
    | bv w =>
      simp only at h
      obtain ⟨hw, h0, h1, rfl⟩ := bv_ok_inv h
      exact ⟨hw, h0, h1, (bv_denotes' I hw h0 h1).2.1⟩
    | _ => cases h
  | q v =>
    cases τ with
    | real => cases h; exact eval_real I v
    | _ => cases h
  | b v =>
    cases τ with
    | bool => cases h; exact eval_boolConst I v
    | _ => cases h
  | s v =>
    cases τ with
    | bv w => exact h
    | _ => cases h
  | none => cases τ <;> cases h
  | slice lo hi => cases τ <;> cases h
  | ty x => cases τ <;> cases h

/-- **literal right operand**: `a <op> lit` (`x + 5`, `b & True`, `v << 3`, `i.Equals(2)` …) through a
binary entry of the regenerated table is the call on the constant `c` the literal is promoted to
at the receiver's sort, and `c` denotes the literal (`LitDenotes`; for a bit-vector receiver the
literal must satisfy `0 ≤ n < 2^w`) -/
theorem infix_literal_run (I : Interp) {name p : String} {f g : Option String}
    (hl : Gen.Infix.table.lookup name = some ⟨[p], false, [.ret (.infix .self (.var p) f g)]⟩)
    {a t : Term} {lit : Arg} (h : Infix.run Gen.Infix.table name a [lit] = .ok t) :
    ∃ τ c, a.typeOf = some τ ∧ prepareArg lit τ = .ok c ∧
      Infix.run Gen.Infix.table name a [.t c] = .ok t ∧ LitDenotes I lit τ c := by
  rw [run_binary _ _ _ _ _ _ _ hl] at h
  cases hτ : a.typeOf with
  | none => unfold applyInfix at h; rw [hτ] at h; cases h
  | some τ =>
    cases hp : prepareArg lit τ with
    | error e => unfold applyInfix at h; rw [hτ] at h; simp [hp, bind, Except.bind] at h
    | ok c =>
      refine ⟨τ, c, rfl, hp, ?_, prepareArg_denotes I hp⟩
      rw [run_binary _ _ _ _ _ _ _ hl, ← applyInfix_literal hτ lit c hp]
      exact h

/-- … and therefore denotes the Python-named operation applied to the receiver and the literal's constant -/
theorem infix_literal_denotes (I : Interp) {name p : String} {f g : Option String}
    (hl : Gen.Infix.table.lookup name = some ⟨[p], false, [.ret (.infix .self (.var p) f g)]⟩)
    {a t : Term} {lit : Arg} (h : Infix.run Gen.Infix.table name a [lit] = .ok t) :
    ∃ kn kb τ c, pyOp name = some (kn, kb) ∧ a.typeOf = some τ ∧ prepareArg lit τ = .ok c ∧
      LitDenotes I lit τ c ∧
      (τ.isBv = true → ∃ k, kb = some k ∧ k.Denotes I a c t) ∧
      (τ.isBv = false → ∃ k, kn = some k ∧ k.Denotes I a c t) := by
  obtain ⟨τ, c, hτ, hp, hrun, hden⟩ := infix_literal_run I hl h
  obtain ⟨kn, kb, τ', hpy, hτ', h1, h2⟩ := infix_table_denotes I hl hrun
  rw [hτ] at hτ'; cases hτ'
  exact ⟨kn, kb, τ, c, hpy, hτ, hp, hden, h1, h2⟩

/-! ### `lit - a` on integers and reals -/

theorem typeOf_created {op : Op} {args : List Term} {p : Payload} {t : Term} (h : Mk.create op args p = .ok t) :
    t.typeOf = typeOfNode op p (args.map Term.typeOf) := by
  rw [create_ok h]; simp only [Term.typeOf]

theorem typeOf_intc (n : Int) : (Term.int n).typeOf = some .int := by
  simp only [Term.int, Term.typeOf, List.map_nil]; rfl
theorem typeOf_realc (q : Rat) : (Term.real q).typeOf = some .real := by
  simp only [Term.real, Term.typeOf, List.map_nil]; rfl

theorem negModel_typeOf {a m : Term} (h : negModel a = .ok m) :
    (a.typeOf = some .int → m.typeOf = some .int) ∧ (a.typeOf = some .real → m.typeOf = some .real) := by
  unfold negModel at h
  refine ⟨fun hty => ?_, fun hty => ?_⟩
  · rw [hty] at h
    simp only [Ty.isBv, Bool.false_eq_true, if_false] at h
    rw [applyInfix_literal hty (.i (-1)) _ (prepare_int (-1))] at h
    unfold applyInfix at h
    rw [hty] at h
    have h' : Mk.create .times [a, Term.int (-1)] .none = .ok m := h
    rw [typeOf_created h']; simp only [List.map_cons, List.map_nil, hty, typeOf_intc]; rfl
  · rw [hty] at h
    simp only [Ty.isBv, Bool.false_eq_true, if_false] at h
    rw [applyInfix_literal hty (.i (-1)) _ (prepare_real_int (-1))] at h
    unfold applyInfix at h
    rw [hty] at h
    have h' : Mk.create .times [a, Term.real ((-1 : Int) : Rat)] .none = .ok m := h
    rw [typeOf_created h']; simp only [List.map_cons, List.map_nil, hty, typeOf_realc]; rfl

/-- **`n - a`** for a Python integer `n` and an Int-sorted `a` (`a.__rsub__(n)` builds `(-a) + n`) -/
theorem rsub_int_literal (I : Interp) {a t : Term} {n : Int}
    (h : Infix.run Gen.Infix.table "__rsub__" a [.i n] = .ok t) (hty : a.typeOf = some .int)
    (x : Int) (ha : eval I a = .i x) : eval I t = .i (n - x) := by
  rw [run_rsub] at h
  unfold rsubModel at h
  rw [hty] at h
  simp only [Ty.isBv, Bool.false_eq_true, if_false] at h
  obtain ⟨m, hm, h⟩ := bind_ok h
  have em := negModel_int I hm hty x ha
  have tm := (negModel_typeOf hm).1 hty
  rw [applyInfix_literal tm (.i n) _ (prepare_int n)] at h
  unfold applyInfix at h
  rw [tm] at h
  have h' : Mk.Plus [m, Term.int n] = .ok t := h
  have := (plus_denotes I h').1 (-x) [n] (by simp [em, eval_int])
  rw [this]; simp only [List.foldl]; congr 1; omega

/-- **`q - a`** for a Python number `q` (int or Fraction/float) and a Real-sorted `a` -/
theorem rsub_real_literal (I : Interp) {a t : Term} {lit : Arg} {q : Rat}
    (hlit : (∃ n : Int, lit = .i n ∧ q = (n : Rat)) ∨ lit = .q q)
    (h : Infix.run Gen.Infix.table "__rsub__" a [lit] = .ok t) (hty : a.typeOf = some .real)
    (x : Rat) (ha : eval I a = .r x) : eval I t = .r (q - x) := by
  rw [run_rsub] at h
  unfold rsubModel at h
  rw [hty] at h
  simp only [Ty.isBv, Bool.false_eq_true, if_false] at h
  obtain ⟨m, hm, h⟩ := bind_ok h
  have em := negModel_real I hm hty x ha
  have tm := (negModel_typeOf hm).2 hty
  have hp : prepareArg lit .real = .ok (Term.real q) := by
    rcases hlit with ⟨n, rfl, rfl⟩ | rfl
    · exact prepare_real_int n
    · rfl
  rw [applyInfix_literal tm lit _ hp] at h
  unfold applyInfix at h
  rw [tm] at h
  have h' : Mk.Plus [m, Term.real q] = .ok t := h
  have := (plus_denotes I h').2 (-x) [q] (by simp [em, eval_real])
  rw [this]; simp only [List.foldl]; congr 1
  rw [Rat.sub_eq_add_neg, Rat.add_comm]

/-! ## the methods that call the manager function of their name, semantically -/

theorem run_BVRol (a : Term) (k : Int) : Infix.run Gen.Infix.table "BVRol" a [.i k] = Mk.BVRol a k := by
  rw [infix_direct1 (p := "steps") (F := "BVRol") (by rfl)]; rfl
theorem run_BVRor (a : Term) (k : Int) : Infix.run Gen.Infix.table "BVRor" a [.i k] = Mk.BVRor a k := by
  rw [infix_direct1 (p := "steps") (F := "BVRor") (by rfl)]; rfl
theorem run_BVZExt (a : Term) (k : Int) : Infix.run Gen.Infix.table "BVZExt" a [.i k] = Mk.BVZExt a k := by
  rw [infix_direct1 (p := "increase") (F := "BVZExt") (by rfl)]; rfl
theorem run_BVSExt (a : Term) (k : Int) : Infix.run Gen.Infix.table "BVSExt" a [.i k] = Mk.BVSExt a k := by
  rw [infix_direct1 (p := "increase") (F := "BVSExt") (by rfl)]; rfl
theorem run_BVRepeat (a : Term) (k : Int) : Infix.run Gen.Infix.table "BVRepeat" a [.i k] = Mk.BVRepeat a k := by
  rw [infix_direct1 (p := "count") (F := "BVRepeat") (by rfl)]; rfl
theorem run_Select (a i : Term) : Infix.run Gen.Infix.table "Select" a [.t i] = Mk.Select a i := by
  rw [infix_direct1 (p := "index") (F := "Select") (by rfl)]; rfl
theorem run_Store (a i v : Term) : Infix.run Gen.Infix.table "Store" a [.t i, .t v] = Mk.Store a i v := by
  rw [infix_direct2 (p1 := "index") (p2 := "value") (F := "Store") (by rfl)]; rfl
theorem run_BVExtract (a : Term) (s e : Int) :
    Infix.run Gen.Infix.table "BVExtract" a [.i s, .i e] = Mk.BVExtract a s (some e) := by
  rw [infix_direct2 (p1 := "start") (p2 := "stop") (F := "BVExtract") (by rfl)]; rfl

open PySMT.BuildAgree (compOK) in
/-- **the direct methods** `a.BVRol(k)`, `a.BVRor(k)`, `a.BVZExt(k)`, `a.BVSExt(k)`, `a.BVRepeat(k)`,
`a.BVExtract(s, e)`, `arr.Select(i)`, `arr.Store(i, v)` denote the operation of their name, with
the domain of the integer parameter made explicit -/
theorem direct_methods_denote (I : Interp) {a t : Term} {w : Nat} (x : BitVec w) (ha : eval I a = ofBV x) :
    (∀ k, Infix.run Gen.Infix.table "BVRol" a [.i k] = .ok t →
      (∃ w', a.typeOf = some (.bv w') ∧ 0 ≤ k ∧ k ≤ w') ∧ eval I t = ofBV (x.rotateLeft k.toNat)) ∧
    (∀ k, Infix.run Gen.Infix.table "BVRor" a [.i k] = .ok t →
      (∃ w', a.typeOf = some (.bv w') ∧ 0 ≤ k ∧ k ≤ w') ∧ eval I t = ofBV (x.rotateRight k.toNat)) ∧
    (∀ k, a.wt = true → compOK a = true → a.typeOf = some (.bv w) →
      Infix.run Gen.Infix.table "BVZExt" a [.i k] = .ok t → 0 ≤ k ∧ eval I t = ofBV (x.setWidth (w + k.toNat))) ∧
    (∀ k, a.wt = true → compOK a = true → a.typeOf = some (.bv w) →
      Infix.run Gen.Infix.table "BVSExt" a [.i k] = .ok t → 0 ≤ k ∧ eval I t = ofBV (x.signExtend (w + k.toNat))) ∧
    (∀ k, Infix.run Gen.Infix.table "BVRepeat" a [.i k] = .ok t →
      1 ≤ k ∧ eval I t = ofBV (BitVec.replicate k.toNat x)) ∧
    (∀ s e, Infix.run Gen.Infix.table "BVExtract" a [.i s, .i e] = .ok t →
      0 ≤ s ∧ s ≤ e ∧ eval I t = ofBV (x.extractLsb' s.toNat (e.toNat - s.toNat + 1))) := by
  refine ⟨fun k h => ?_, fun k h => ?_, fun k hwt hc hty h => ?_, fun k hwt hc hty h => ?_, fun k h => ?_,
    fun s e h => ?_⟩
  · rw [run_BVRol] at h
    exact ⟨rotate_domain (Or.inl rfl) h, bvRol_denotes I h x ha⟩
  · rw [run_BVRor] at h
    exact ⟨rotate_domain (Or.inr rfl) h, bvRor_denotes I h x ha⟩
  · rw [run_BVZExt] at h
    exact ⟨(extend_shape h).choose_spec.2.1, bvZExt_denotes I h (bvWidth_of_typeOf hwt hc hty) x ha⟩
  · rw [run_BVSExt] at h
    exact ⟨(extend_shape h).choose_spec.2.1, bvSExt_denotes I h (bvWidth_of_typeOf hwt hc hty) x ha⟩
  · rw [run_BVRepeat] at h; exact repeat_denotes I h x ha
  · rw [run_BVExtract] at h; exact bvExtract_denotes I h x ha

theorem method_select_store (I : Interp) {a i v t : Term} :
    (Infix.run Gen.Infix.table "Select" a [.t i] = .ok t → eval I t = (eval I a).select (eval I i)) ∧
    (Infix.run Gen.Infix.table "Store" a [.t i, .t v] = .ok t → eval I t = (eval I a).store (eval I i) (eval I v)) := by
  refine ⟨fun h => ?_, fun h => ?_⟩
  · rw [run_Select] at h; exact select_denotes' I h
  · rw [run_Store] at h; exact store_denotes' I h

/-- `a[lo:]` (default end): bits `lo … w-1` -/
theorem getitem_default_end (I : Interp) {a t : Term} {lo : Option Int} {w : Nat}
    (h : Infix.run Gen.Infix.table "__getitem__" a [.slice lo none] = .ok t)
    (hw : bvWidth a = .ok w) (x : BitVec w) (ha : eval I a = ofBV x) :
    0 ≤ lo.getD 0 ∧ lo.getD 0 < w ∧ eval I t = ofBV (x.extractLsb' (lo.getD 0).toNat (w - (lo.getD 0).toNat)) := by
  rw [run_getitem_slice] at h
  unfold getitemModel at h
  cases hty : a.typeOf with
  | none => rw [hty] at h; cases h
  | some τ =>
    rw [hty] at h
    cases hb : τ.isBv
    · simp [hb] at h
    · simp only [hb, if_true] at h
      exact bvExtract_default I h hw x ha

/-! ## the theorems with a `bvWidth … = .ok w` hypothesis, from typing instead -/

open PySMT.BuildAgree (compOK) in
theorem typed_width_theorems (I : Interp) {s : Term} {w : Nat} (hwt : s.wt = true) (hc : compOK s = true)
    (hty : s.typeOf = some (.bv w)) (x : BitVec w) (hs : eval I s = ofBV x) :
    (∀ {t r : Term} (y : BitVec w), Mk.BVSMod s t = .ok r → eval I t = ofBV y →
      eval I r = ofBV (BitVec.smod x y)) ∧
    (∀ {t : Term} {k : Int}, Mk.BVZExt s k = .ok t → 0 ≤ k ∧ eval I t = ofBV (x.setWidth (w + k.toNat))) ∧
    (∀ {t : Term} {k : Int}, Mk.BVSExt s k = .ok t → 0 ≤ k ∧ eval I t = ofBV (x.signExtend (w + k.toNat))) ∧
    (∀ (o : ShiftOp) {t : Term} {k : Int}, o.mk s (.i k) = .ok t →
      0 ≤ k ∧ k < 2 ^ w ∧ eval I t = ofBV (o.fn x k.toNat)) ∧
    (∀ (o : ShiftOp) (k : Int), (k < 0 ∨ k ≥ 2 ^ w) → o.mk s (.i k) = .error .value) ∧
    (∀ {t : Term} {n : Int}, Infix.run Gen.Infix.table "__rsub__" s [.i n] = .ok t →
      0 ≤ n ∧ n < 2 ^ w ∧ eval I t = ofBV (BitVec.ofNat w n.toNat - x)) ∧
    (∀ {t : Term} {lo : Int}, Mk.BVExtract s lo none = .ok t →
      0 ≤ lo ∧ lo < w ∧ eval I t = ofBV (x.extractLsb' lo.toNat (w - lo.toNat))) := by
  have hw := bvWidth_of_typeOf hwt hc hty
  refine ⟨fun y h ht => ?_, fun h => ?_, fun h => ?_, fun o _ _ h => shiftInt_denotes I o h hw x hs,
    fun o k hk => shiftInt_error o s k w hw hk, fun h => rsub_denotes_bv_int I h hty hw x hs,
    fun h => bvExtract_default I h hw x hs⟩
  · rw [bvsmod_std I h hw x y hs ht, smodStd_eq_smod]
  · exact ⟨(extend_shape h).choose_spec.2.1, bvZExt_denotes I h hw x hs⟩
  · exact ⟨(extend_shape h).choose_spec.2.1, bvSExt_denotes I h hw x hs⟩

end PySMT.C06
