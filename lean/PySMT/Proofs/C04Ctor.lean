import PySMT.Proofs.C04Struct
import PySMT.Proofs.C04Array
/-!
# C04 — what the constructors return (accessors are faithful; spellings of constants)
-/
namespace PySMT.Manager

/-- The structural accessors (`node_type`, `args`, payload accessors) of a node read its
    content; `create_node` returns a node whose content is exactly what it was given. -/
theorem create_content {s s' : Mgr} (hs : Inv s) {c : Content} {i : Nid}
    (h : (create c).run s = (.ok i, s')) : s'.content? i = some c ∧ Inv s' ∧ Ext s s' := by
  rw [create_run] at h
  have hc := createNode_spec c s hs
  rw [h] at hc
  exact ⟨content?_of_mem hc.1 (hc.2.2.1 i rfl), hc.1, hc.2.1⟩

/-- … and no later construction changes what the accessors of an existing node report. -/
theorem content_stable {s s' : Mgr} (hs' : Inv s') (he : Ext s s') {c : Content} {i : Nid}
    (h : (c, i) ∈ s.formulae) : s'.content? i = some c :=
  content?_of_mem hs' (he.sub _ h)

theorem prim_run (p : Prim) (s : Mgr) : (Prog.prim p Prog.pure).run s = p.exec s := by
  simp only [Prog.run]
  cases h : p.exec s with
  | mk r s' => cases r <;> simp

/-- `Real(v)` never fails on a legal spelling and returns the node of the denoted rational. -/
theorem mkReal_spec {s : Mgr} (hs : Inv s) {v : PyNum} {q : Rat} (hv : v.realValue = .ok q)
    (htc : s.tc (realC q) = true) :
    ∃ i s', (mkReal v).run s = (.ok i, s') ∧ (realC q, i) ∈ s'.formulae ∧ Inv s' ∧ Ext s s' := by
  have hsp := realConst_spec v s hs
  simp only [mkReal, prim_run, Prim.exec]
  have hok : ∃ i, (realConst v s).1 = .ok i := by
    unfold realConst
    rw [hv]
    simp only
    split
    · exact ⟨_, rfl⟩
    · obtain ⟨i, hi⟩ := createNode_ok (realC q) s (by simp [realC, Content.ids, Payload.ids]) htc
      generalize createNode (realC q) s = r at hi
      obtain ⟨r1, s1⟩ := r
      simp only at hi
      subst hi
      exact ⟨i, rfl⟩
  obtain ⟨i, hi⟩ := hok
  obtain ⟨q', hq', hm⟩ := hsp.2 i hi
  rw [hv] at hq'
  cases hq'
  refine ⟨i, (realConst v s).2, ?_, hm, hsp.1.inv, hsp.1.ext⟩
  rw [← hi]

/-- **Every numeric spelling of a Real constant is the same node**: whatever `int` / `float` /
    `Fraction` / pair denotes the rational `q`, in whatever order, with any program in between. -/
theorem real_spelling {α : Type} {s : Mgr} (hs : Inv s) {v₁ v₂ : PyNum} {q : Rat}
    (h₁ : v₁.realValue = .ok q) (h₂ : v₂.realValue = .ok q) (htc : s.tc (realC q) = true) (p : Prog α) :
    ∃ i s₁ s₃, (mkReal v₁).run s = (.ok i, s₁) ∧ (mkReal v₂).run (p.run s₁).2 = (.ok i, s₃) := by
  obtain ⟨i, s₁, hr1, hm1, hi1, _⟩ := mkReal_spec hs h₁ htc
  have hp := Prog.run_spec p s₁ hi1
  have htc' : (p.run s₁).2.tc (realC q) = true := by
    rw [Prog.run_tc]
    have := Prog.run_tc (mkReal v₁) s
    rw [hr1] at this
    rw [this]; exact htc
  obtain ⟨j, s₃, hr2, hm2, hi3, he3⟩ := mkReal_spec hp.1 h₂ htc'
  have : i = j := hi3.tfun _ _ _ (he3.sub _ (hp.2.sub _ hm1)) hm2
  subst this
  exact ⟨i, s₁, s₃, hr1, hr2⟩

theorem mkInt_spec {s : Mgr} (hs : Inv s) (n : Int) (htc : s.tc (intC n) = true) :
    ∃ i s', (mkInt (.int n)).run s = (.ok i, s') ∧ (intC n, i) ∈ s'.formulae ∧ Inv s' ∧ Ext s s' := by
  have hsp := intConst_spec (.int n) s hs
  simp only [mkInt, prim_run, Prim.exec]
  have hok : ∃ i, (intConst (.int n) s).1 = .ok i := by
    unfold intConst
    simp only [PyNum.intValue]
    split
    · exact ⟨_, rfl⟩
    · obtain ⟨i, hi⟩ := createNode_ok (intC n) s (by simp [intC, Content.ids, Payload.ids]) htc
      generalize createNode (intC n) s = r at hi
      obtain ⟨r1, s1⟩ := r
      simp only at hi
      subst hi
      exact ⟨i, rfl⟩
  obtain ⟨i, hi⟩ := hok
  obtain ⟨m, hm1, hm⟩ := hsp.2 i hi
  cases hm1
  refine ⟨i, (intConst (.int n) s).2, ?_, hm, hsp.1.inv, hsp.1.ext⟩
  rw [← hi]

/-- `Int(v)` / `Real(v)` reject a `bool` (and any non-number) in *every* state: the outcome
    does not depend on the history (F07 repaired). -/
theorem mkInt_rejects (s : Mgr) {v : PyNum} (h : ∀ n, v ≠ .int n) :
    (mkInt v).run s = (.error .typeError, s) := by
  simp only [mkInt, prim_run, Prim.exec, intConst]
  cases v <;> simp_all [PyNum.intValue]

theorem mkReal_rejects (s : Mgr) {v : PyNum} {e : Err} (h : v.realValue = .error e) :
    (mkReal v).run s = (.error e, s) := by
  simp only [mkReal, prim_run, Prim.exec, realConst, h]

/-! ### bit-vector spellings -/

/-- `BV("#b…")` and `BV("01…")` are, as programs, `BV(int(…, 2), len(…))`. -/
theorem mkBV_str_hash (cs : List Char) {n : Nat} (h : parseBin cs = some n) :
    mkBV (.str (String.ofList ('#' :: 'b' :: cs))) none = mkBV (.int n) (some cs.length) := by
  simp [mkBV, bvBody, h]

theorem binStep_none (l : List Char) : List.foldl binStep none l = none := by
  induction l with
  | nil => rfl
  | cons a t ih => simpa [binStep] using ih

/-- a string starting with `#` is not a binary numeral -/
theorem parseBin_hash (r : List Char) : parseBin ('#' :: 'b' :: r) = none := by
  simp [parseBin, binStep, binStep_none]

theorem bvBody_eq (cs : List Char) (hne : parseBin cs ≠ none) : bvBody cs = cs := by
  unfold bvBody
  split
  next r => exact absurd (parseBin_hash r) hne
  next => rfl

theorem mkBV_str_plain (cs : List Char) {n : Nat} (h : parseBin cs = some n) :
    mkBV (.str (String.ofList cs)) none = mkBV (.int n) (some cs.length) := by
  have hb := bvBody_eq cs (by rw [h]; simp)
  simp only [mkBV, String.toList_ofList, hb, h]

/-- `SBV(n, w)` for a negative `n` in range is `BV(2^w + n, w)` (two's complement). -/
theorem mkSBV_neg {n : Int} {w : Nat} (hw : w ≠ 0) (h1 : -(2 ^ (w - 1) : Int) ≤ n) (h2 : n < 0) :
    mkSBV (.int n) (some w) = mkBV (.int ((2 ^ w : Int) + n)) (some w) := by
  have hpos : (0 : Int) < 2 ^ (w - 1) := Int.pow_pos (by decide)
  simp only [mkSBV, hw, if_false]
  rw [if_neg (by omega), if_neg (by omega), if_neg (by omega)]

theorem mkSBV_nonneg {n : Int} {w : Nat} (hw : w ≠ 0) (h1 : 0 ≤ n) (h2 : n ≤ (2 ^ (w - 1) : Int) - 1) :
    mkSBV (.int n) (some w) = mkBV (.int n) (some w) := by
  have hpos : (0 : Int) < 2 ^ (w - 1) := Int.pow_pos (by decide)
  simp only [mkSBV, hw, if_false]
  rw [if_neg (by omega), if_neg (by omega), if_pos h1]

/-! ### derived accessors of bit-vector constants -/

theorem pow_pred {w : Nat} (hw : w ≠ 0) : 2 ^ w = 2 * 2 ^ (w - 1) := by
  obtain ⟨k, rfl⟩ : ∃ k, w = k + 1 := ⟨w - 1, by omega⟩
  simp [Nat.pow_succ, Nat.mul_comm]

/-- the node built by `SBV(n, w)` reports `n` as its signed value -/
theorem sbv_signed {n : Int} {w : Nat} (hw : w ≠ 0) (h1 : -(2 ^ (w - 1) : Int) ≤ n)
    (h2 : n ≤ (2 ^ (w - 1) : Int) - 1) :
    bvSignedValue (if n < 0 then (2 ^ w : Int) + n else n).toNat w = n := by
  have hp := pow_pred hw
  have hpos : 0 < 2 ^ (w - 1) := Nat.pow_pos (by decide)
  have hpi : ((2 ^ w : Nat) : Int) = 2 * ((2 ^ (w - 1) : Nat) : Int) := by exact_mod_cast hp
  have c1 : ((2 : Int) ^ w) = ((2 ^ w : Nat) : Int) := by simp
  have c2 : ((2 : Int) ^ (w - 1)) = ((2 ^ (w - 1) : Nat) : Int) := by simp
  rw [c2] at h1 h2
  generalize hP : 2 ^ (w - 1) = P at *
  unfold bvSignedValue
  rw [hP]
  split
  next hneg =>
    rw [c1, hpi]
    have ht : ((2 * (P : Int) + n).toNat : Int) = 2 * P + n := Int.toNat_of_nonneg (by omega)
    have hq : (2 * (P : Int) + n).toNat / P % 2 = 1 := by
      have : (2 * (P : Int) + n).toNat = P + (P + n).toNat := by omega
      rw [this]
      have hlt : (P + n).toNat < P := by omega
      rw [Nat.add_div_left _ hpos, Nat.div_eq_of_lt hlt]
    rw [if_pos hq, ht]; omega
  next hnn =>
    have ht : (n.toNat : Int) = n := Int.toNat_of_nonneg (by omega)
    have hq : n.toNat / P % 2 = 0 := by
      rw [Nat.div_eq_of_lt (by omega)]
    rw [if_neg (by omega), ht]

/-! ### documented normalisations return the documented node -/

theorem getC_run {s : Mgr} {i : Nid} {c : Content} (h : s.content? i = some c) {β : Type} (f : Content → Prog β) :
    ((getC i).bind f).run s = (f c).run s := by
  simp [getC, Prog.bind, Prog.run, h]

/-- `Not(Not(x))` is `x` itself. -/
theorem mkNot_not {s s1 : Mgr} (hs : Inv s) {x n : Nid} (h : (mkNot x).run s = (.ok n, s1))
    (hx : ∃ c, s.content? x = some c ∧ c.nodeType ≠ NT.NOT) :
    ∃ s2, (mkNot n).run s1 = (.ok x, s2) := by
  obtain ⟨c, hc, hnt⟩ := hx
  have h' : (create ⟨NT.NOT, [x], .none⟩).run s = (.ok n, s1) := by
    have : (mkNot x).run s = (create ⟨NT.NOT, [x], .none⟩).run s := by
      show ((getC x).bind _).run s = _
      rw [getC_run hc]
      simp [hnt]
    rw [← this]; exact h
  have hcont := create_content hs h'
  refine ⟨s1, ?_⟩
  show ((getC n).bind _).run s1 = _
  rw [getC_run hcont.1]
  simp
  rfl

/-- `GE(a, b)` is the node `LE(b, a)`; `And([a])` is `a`; `And([])` is `TRUE`. -/
theorem mkAnd_single (a : Nid) : mkAnd [a] = pure a := rfl
theorem mkAnd_empty : mkAnd [] = pure trueId := rfl
theorem mkOr_empty : mkOr [] = pure falseId := rfl
theorem mkQuant_empty (nt : Nat) (b : Nid) : mkQuant nt [] b = pure b := rfl
theorem mkFunction_empty (f : Nid) : mkFunction f [] = pure f := rfl

/-! ### array values -/

theorem mkArray_content {s s' : Mgr} (hs : Inv s) {addr : Nid → Nat} {it : Ty} {d i : Nid}
    {assign : List (Nid × Nid)} (h : (mkArray addr it d assign).run s = (.ok i, s')) :
    s'.content? i = some ⟨NT.ARRAY_VALUE, d :: flattenPairs (arrayAssignments addr d assign), .ty it⟩ := by
  simp only [mkArray, Prog.run] at h
  split at h
  · simp [Prog.run] at h
  · exact (create_content hs h).1

/-- **`array_value_get` on a node built by `Array`** is lookup in the given assignments
    (those not equal to the default), else the default — for distinct index objects. -/
theorem array_get_correct {s s' : Mgr} (hs : Inv s) {addr : Nid → Nat} (hinj : ∀ a b, addr a = addr b → a = b)
    {it : Ty} {d i : Nid} {assign : List (Nid × Nid)} (hd : DistinctAddr addr assign)
    (h : (mkArray addr it d assign).run s = (.ok i, s')) (idx : Nid) (hc : s'.isConstant idx = true) :
    arrayValueGet addr s' i idx = .ok ((lookupKey (arrayAssignments addr d assign) idx).getD d) := by
  have hcont := mkArray_content hs h
  simp only [arrayValueGet, hc, hcont]
  rw [arrayGetC_correct hinj (arrayAssignments_sorted hd)]
  simp

end PySMT.Manager
