import PySMT.Proofs.C19Main
/-!
# C19 — the executable successor function is the step relation

`isuccs cfg s` (what `Drivers/C19.lean` explores) lists exactly the `IStep`-successors of `s`.
-/
set_option linter.unusedVariables false
namespace PySMT.Portfolio
variable (cfg : Cfg)

theorem memberSuccs_sound (s t : State) (i : Nat) (h : t ∈ memberSuccs cfg s i) : IStep cfg s t := by
  unfold memberSuccs at h
  split at h
  · rename_i hm
    simp at h; subst h; exact IStep.finish s i hm
  · rename_i m hm
    simp at h; subst h; exact IStep.flush s i m hm
  · rename_i hm
    rcases List.mem_append.mp h with h | h
    · split at h
      · rename_i cs hc
        simp at h; subst h; exact IStep.recvExit s i cs hm hc
      · rename_i q cs hc
        simp at h; subst h; exact IStep.recvQuery s i q cs hm hc
      · simp at h
    · split at h
      · rename_i hk
        simp at h; subst h; exact IStep.serveCrash s i hk hm
      · simp at h
  · rename_i hm
    split at h
    · rename_i hk
      split at h
      · rename_i c cs hc
        simp at h; subst h; exact IStep.lateRecv s i c cs hk hm hc
      · simp at h
    · simp at h
  · simp at h

theorem parentSuccs_sound (s t : State) (h : t ∈ parentSuccs cfg s) : IStep cfg s t := by
  unfold parentSuccs at h
  split at h
  · rename_i hp
    split at h
    · rename_i hq
      split at h
      · rename_i hd
        simp at h; subst h
        exact IStep.allDead s hp hq (by simpa using hd)
      · simp at h
    · rename_i i v q hq
      simp at h; subst h; exact IStep.getAns s i v q hp hq
    · rename_i i e q hq
      split at h
      · rename_i he
        simp at h; subst h; exact IStep.getExnExit s i e q hp he hq
      · rename_i he
        simp at h; subst h; exact IStep.getExnSkip s i e q hp (by simpa using he) hq
  · rename_i v w k hp
    split at h
    · rename_i hk
      simp at h; subst h; exact IStep.killLoser s v w k hp hk
    · rename_i hk
      simp at h; subst h; exact IStep.killLosersDone s v w k hp (by omega)
  · rename_i e k hp
    split at h
    · rename_i hk
      simp at h; subst h; exact IStep.killAllStep s e k hp hk
    · rename_i hk
      simp at h; subst h; exact IStep.killAllDone s e k hp (by omega)
  · rename_i v w q hp
    split at h
    · rename_i j q' r hr
      simp at h; subst h; exact IStep.recvReply s v w q j q' r hp hr
    · rename_i hr
      split at h
      · rename_i hd
        simp at h; subst h
        exact IStep.recvEOF s v w q hp hr (by simpa using hd)
      · simp at h
  · simp at h

theorem isuccs_sound (s t : State) (h : t ∈ isuccs cfg s) : IStep cfg s t := by
  unfold isuccs at h
  rcases List.mem_append.mp h with h | h
  · exact parentSuccs_sound cfg s t h
  · obtain ⟨i, _, hi⟩ := List.mem_flatMap.mp h
    exact memberSuccs_sound cfg s t i hi

theorem mem_isuccs_member (s t : State) (i : Nat) (m : MSt) (hm : s.ms[i]? = some m)
    (h : t ∈ memberSuccs cfg s i) : t ∈ isuccs cfg s := by
  unfold isuccs
  exact List.mem_append_right _ (List.mem_flatMap.mpr ⟨i, List.mem_range.mpr (get_lt hm), h⟩)

theorem isuccs_complete (s t : State) (h : IStep cfg s t) : t ∈ isuccs cfg s := by
  cases h with
  | finish i hm => exact mem_isuccs_member cfg s _ i _ hm (by simp [memberSuccs, hm])
  | flush i m hm => exact mem_isuccs_member cfg s _ i _ hm (by simp [memberSuccs, hm])
  | recvExit i cs hm hc => exact mem_isuccs_member cfg s _ i _ hm (by simp [memberSuccs, hm, hc])
  | recvQuery i q cs hm hc => exact mem_isuccs_member cfg s _ i _ hm (by simp [memberSuccs, hm, hc])
  | serveCrash i hk hm => exact mem_isuccs_member cfg s _ i _ hm (by simp [memberSuccs, hm, hk])
  | recvEOF v w q hp hr hd =>
    refine List.mem_append_left _ ?_
    simp [parentSuccs, hp, hr]
    exact hd
  | lateRecv i c cs hk hm hc => exact mem_isuccs_member cfg s _ i _ hm (by simp [memberSuccs, hm, hc, hk])
  | getAns i v q hp hq => exact List.mem_append_left _ (by simp [parentSuccs, hp, hq])
  | getExnSkip i e q hp he hq => exact List.mem_append_left _ (by simp [parentSuccs, hp, hq, he])
  | getExnExit i e q hp he hq => exact List.mem_append_left _ (by simp [parentSuccs, hp, hq, he])
  | allDead hp hq hd =>
    refine List.mem_append_left _ ?_
    simp [parentSuccs, hp, hq]
    exact hd
  | killLoser v w k hp hk => exact List.mem_append_left _ (by simp [parentSuccs, hp, hk])
  | killLosersDone v w k hp hk =>
    exact List.mem_append_left _ (by simp [parentSuccs, hp, Nat.not_lt.mpr hk])
  | killAllStep e k hp hk => exact List.mem_append_left _ (by simp [parentSuccs, hp, hk])
  | killAllDone e k hp hk =>
    exact List.mem_append_left _ (by simp [parentSuccs, hp, Nat.not_lt.mpr hk])
  | recvReply v w q j q' r hp hr => exact List.mem_append_left _ (by simp [parentSuccs, hp, hr])

/-- the explorer's successor function and the transition relation coincide -/
theorem isuccs_iff (s t : State) : t ∈ isuccs cfg s ↔ IStep cfg s t :=
  ⟨isuccs_sound cfg s t, isuccs_complete cfg s t⟩

/-- a state where the explorer finds no successor is a state where no internal step is possible -/
theorem isuccs_empty_iff (s : State) : (isuccs cfg s).isEmpty = true ↔ ¬ ∃ t, IStep cfg s t := by
  constructor
  · intro h ⟨t, ht⟩
    have := isuccs_complete cfg s t ht
    rw [List.isEmpty_iff.mp h] at this; simp at this
  · intro h
    cases hl : isuccs cfg s with
    | nil => rfl
    | cons t l => exact (h ⟨t, isuccs_sound cfg s t (by rw [hl]; exact List.mem_cons_self)⟩).elim

end PySMT.Portfolio
