import PySMT.Impl.Simplifier
import PySMT.Proofs.SimpBuild
/-!
# Fold completeness (the part of C02 that C01 does not give): interface

`FoldOK op e` : applied to *constant* arguments (scalar constant nodes: Bool, Int, Real,
String, bit-vector constants) the rule returns a constant, provided the node evaluates no
division by zero (`Div(3, 0)` is not folded). `Proofs/SimpFold.lean` proves it for the
Boolean/core and arithmetic families and assembles `fold_complete`.
-/
namespace PySMT.Simp
open PySMT

/-- a scalar constant node -/
def IsConst (t : Term) : Prop := t.op.isConstant = true

structure FoldOK (op : Op) (e : Entry) : Prop where
  fold : ∀ (p : Payload) (args : List Term) (τ : Ty),
    (Term.node op args p).wf = true → (Term.node op args p).typeOf = some τ →
    e.guard p (args.map Term.typeOf) = true → (∀ a ∈ args, IsConst a) →
    ∀ I : Interp, div0 I (.node op args p) = false → IsConst (e.rule p args)

end PySMT.Simp
