import PySMT.Impl.Subst
import PySMT.Spec.Subst
/-!
# C05 — the walker callbacks compute the documented replacement

`substG false` (MGSubstituter) is `mgSpec Build.rebuild`, `substG true` (MSSubstituter) is
`msSpec Build.rebuild`, for every map, every interpretation handler and every term; `interpret` is
`instantiate Build.rebuild`. The specification functions are parametric in the constructor layer; the
content of these theorems is: the post-order callbacks with their lookups (original node for MG, rebuilt
node for MS; restricted map and fresh walk at a binder; interpretation handler at an application) compute
the top-down "outermost key first" / bottom-up "rebuild, then look the result up" recursions over the
same constructor layer.
-/
namespace PySMT.Subst
open PySMT.Build PySMT.SubstSpec

theorem lookup_eq_find : ∀ (σ : TMap) (t : Term), lookup σ t = find σ t
  | [], _ => rfl
  | (k, v) :: rest, t => by
    unfold lookup find
    by_cases h : k = t
    · subst h; simp [List.find?]
    · have : (k == t) = false := by simp [h]
      simp only [h, if_false, List.find?, this]
      exact lookup_eq_find rest t

theorem restrict_eq_below (σ : TMap) (vs : List Sym) : restrict σ vs = below σ vs := rfl

/-- case analysis on the node type shared by the two unfolding lemmas below -/
local macro "spec_cases" op:ident p:ident h:ident : tactic => `(tactic| (
  by_cases h1 : $op = .forall_
  · subst h1; cases $p:ident <;> simp [build, bodyMap, Op.isQuantifier, restrict_eq_below]
  by_cases h2 : $op = .exists_
  · subst h2; cases $p:ident <;> simp [build, bodyMap, Op.isQuantifier, restrict_eq_below]
  by_cases h3 : $op = .function
  · subst h3; cases $p:ident <;> simp [build, bodyMap, Op.isQuantifier]
    cases $h:ident _ _ <;> rfl
  · have hq : Op.isQuantifier $op = false := by cases $op:ident <;> simp_all [Op.isQuantifier]
    simp only [build, bodyMap, hq]
    split <;> simp_all))

theorem mgSpec_node (h : FnHandler) (σ : TMap) (op : Op) (args : List Term) (p : Payload) :
    mgSpec rebuild h σ (.node op args p) =
      (match find σ (.node op args p) with
       | some v => v
       | none => build h op p (args.map (mgSpec rebuild h (bodyMap σ op p)))) := by
  rw [mgSpec.eq_def]
  simp only
  generalize find σ (.node op args p) = o
  cases o with
  | some v => rfl
  | none =>
    simp only
    spec_cases op p h

theorem msSpec_node (h : FnHandler) (σ : TMap) (op : Op) (args : List Term) (p : Payload) :
    msSpec rebuild h σ (.node op args p) =
      (find σ (build h op p (args.map (msSpec rebuild h (bodyMap σ op p))))).getD
        (build h op p (args.map (msSpec rebuild h (bodyMap σ op p)))) := by
  rw [msSpec.eq_def]
  simp only
  have key : (match op, p with
      | .forall_, .qvars vs => rebuild op p (args.map (msSpec rebuild h (below σ vs)))
      | .exists_, .qvars vs => rebuild op p (args.map (msSpec rebuild h (below σ vs)))
      | .function, .sym f => ((h f (args.map (msSpec rebuild h σ))).getD (rebuild op p (args.map (msSpec rebuild h σ))))
      | _, _ => rebuild op p (args.map (msSpec rebuild h σ))) =
      build h op p (args.map (msSpec rebuild h (bodyMap σ op p))) := by
    spec_cases op p h
  exact key ▸ rfl

theorem substG_mg_eq_spec (h : FnHandler) : ∀ (t : Term) (σ : TMap), substG false h σ t = mgSpec rebuild h σ t
  | .node op args p, σ => by
    have ih : ∀ σ', args.map (substG false h σ') = args.map (mgSpec rebuild h σ') :=
      fun σ' => List.map_congr_left (fun a _ => substG_mg_eq_spec h a σ')
    rw [substG, mgSpec_node]
    simp only [Bool.false_eq_true, if_false, lookup_eq_find, ih]
    cases find σ _ <;> rfl

theorem substG_ms_eq_spec (h : FnHandler) : ∀ (t : Term) (σ : TMap), substG true h σ t = msSpec rebuild h σ t
  | .node op args p, σ => by
    have ih : ∀ σ', args.map (substG true h σ') = args.map (msSpec rebuild h σ') :=
      fun σ' => List.map_congr_left (fun a _ => substG_ms_eq_spec h a σ')
    rw [substG, msSpec_node]
    simp only [if_true, lookup_eq_find, ih]
    cases find σ _ <;> rfl

theorem upsert_eq_dictInsert (k v : Term) : ∀ d : TMap, upsert k v d = dictInsert k v d
  | [] => rfl
  | (k', v') :: rest => by
    unfold upsert dictInsert
    split
    · rfl
    · rw [upsert_eq_dictInsert k v rest]

theorem dictOfPairs_eq_pyDict (ps : TMap) : dictOfPairs ps = pyDict ps := by
  unfold dictOfPairs pyDict
  congr 1
  funext d kv
  exact upsert_eq_dictInsert kv.1 kv.2 d

theorem interpret_eq_instantiate (envMs : Bool) (fi : FunInterp) (as : List Term) :
    interpret envMs fi as = instantiate rebuild envMs ⟨fi.formals, fi.body⟩ as := by
  unfold interpret instantiate
  rw [dictOfPairs_eq_pyDict]
  cases envMs
  · simp only [Bool.false_eq_true, if_false]; exact substG_mg_eq_spec _ _ _
  · simp only [if_true]; exact substG_ms_eq_spec _ _ _

def defsOf (ι : IMap) : List (Sym × Def) := ι.map (fun sf => (sf.1, ⟨sf.2.formals, sf.2.body⟩))

theorem handlerOf_eq_appOf (envMs : Bool) : ∀ (ι : IMap), handlerOf envMs ι = appOf rebuild envMs (defsOf ι)
  | [] => rfl
  | (g, fi) :: rest => by
    funext f as
    have ih := congrFun (congrFun (handlerOf_eq_appOf envMs rest) f) as
    unfold handlerOf appOf at ih ⊢
    unfold defsOf at ih ⊢
    by_cases hg : g = f
    · subst hg
      simp [IMap.get, interpret_eq_instantiate]
    · have : (g == f) = false := by simp [hg]
      simp only [IMap.get, hg, if_false, List.map_cons, List.find?, this]
      exact ih

end PySMT.Subst
