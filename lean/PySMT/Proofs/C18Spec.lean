import PySMT.Spec.Opt
/-!
# C18: the executable optimum of the specification is the optimum
-/
namespace PySMT.OptSpec

theorem foldl_opt (d : Sense) (vs : List Int) (acc : Int) :
    let r := vs.foldl (fun acc w => if better d w acc then w else acc) acc
    (r = acc ∨ r ∈ vs) ∧ d.le r acc ∧ ∀ w ∈ vs, d.le r w := by
  induction vs generalizing acc with
  | nil =>
    refine ⟨Or.inl rfl, ?_, by simp⟩
    show d.le acc acc
    cases d <;> simp [Sense.le]
  | cons x xs ih =>
    simp only [List.foldl]
    by_cases hb : better d x acc = true
    · simp only [hb, if_true]
      obtain ⟨h1, h2, h3⟩ := ih x
      have hxa : d.lt x acc := by simpa [better] using hb
      refine ⟨?_, ?_, ?_⟩
      · rcases h1 with h1 | h1
        · exact Or.inr (by rw [h1]; simp)
        · exact Or.inr (by simp [h1])
      · cases d <;> simp only [Sense.le, Sense.lt] at * <;> omega
      · intro w hw
        rcases List.mem_cons.1 hw with rfl | hw
        · exact h2
        · exact h3 w hw
    · have hb' : better d x acc = false := by simpa using hb
      simp only [hb', Bool.false_eq_true, if_false]
      obtain ⟨h1, h2, h3⟩ := ih acc
      have hxa : ¬ d.lt x acc := by simpa [better] using hb'
      refine ⟨?_, h2, ?_⟩
      · rcases h1 with h1 | h1
        · exact Or.inl h1
        · exact Or.inr (by simp [h1])
      · intro w hw
        rcases List.mem_cons.1 hw with rfl | hw
        · cases d <;> simp only [Sense.le, Sense.lt] at * <;> omega
        · exact h3 w hw

/-- `listOpt` (used by the driver's `spec opt` query) returns the optimum of the list -/
theorem listOpt_spec (d : Sense) (vs : List Int) (v : Int) (h : listOpt d vs = some v) :
    v ∈ vs ∧ ∀ w ∈ vs, d.le v w := by
  cases vs with
  | nil => simp [listOpt] at h
  | cons x xs =>
    simp only [listOpt, Option.some.injEq] at h
    obtain ⟨h1, h2, h3⟩ := foldl_opt d xs x
    rw [h] at h1 h2 h3
    refine ⟨?_, ?_⟩
    · rcases h1 with h1 | h1
      · simp [h1]
      · simp [h1]
    · intro w hw
      rcases List.mem_cons.1 hw with rfl | hw
      · exact h2
      · exact h3 w hw

theorem listOpt_none (d : Sense) (vs : List Int) : listOpt d vs = none ↔ vs = [] := by
  cases vs <;> simp [listOpt]

end PySMT.OptSpec
