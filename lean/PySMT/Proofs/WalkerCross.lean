import PySMT.Proofs.WalkerMore

/-! Change of callback on one walker object (review C14 §4.1, C15 §4.1): a one-shot walker
    (`invalidate_memoization = True`) is *blank* between calls -- idle with an empty memo --, whatever the call did
    and whatever its callbacks were; a blank walker is `Idle` for every callback. -/

namespace PySMT.Walker
set_option linter.unusedSectionVars false
set_option linter.unusedSimpArgs false

section
variable {M N R E : Type} [DecidableEq N] [MemoLike M N R] [LawfulMemo M N R]

/-- idle, and nothing memoised -/
structure Blank (s : WState M N) : Prop where
  stack : s.stack = []
  memo : ∀ n, look s.memo n = none

theorem blank_init : Blank (WState.init : WState M N) :=
  ⟨rfl, fun n => by simp [WState.init, LawfulMemo.look_empty]⟩

/-- a blank walker is idle for EVERY callback: there is no entry that could be wrong -/
theorem blank_idle (g : Graph N) (d : N → Bool) (f1 : N → List R → Except E R) (s : WState M N) (h : Blank s) :
    Idle g d f1 s :=
  { closed := { ok := fun n r hr => (by rw [h.memo n] at hr; cases hr)
                down := fun n hn => (by rw [h.memo n] at hn; cases hn) }
    stack := h.stack }

/-- **walk_blank**: a call on a one-shot walker -- ANY callbacks `f` (no relation to earlier ones is needed), any
    budget, any outcome (value, exception of a callback, KeyError, exhausted budget) -- leaves it blank. -/
theorem walk_blank (g : Graph N) (d : N → Bool) (f : List N → N → List R → Except E R) (shortcut : Bool)
    (fuel : Nat) (n : N) (s : WState M N) (hs : s.stack = [])
    (hmiss : (if shortcut then look s.memo n else none) = none) :
    Blank (walk g d f true shortcut fuel n s).2 := by
  rw [walk_miss g d f true shortcut fuel n s hs hmiss, finish_state]
  exact ⟨cleanup_zero_stack _ _, fun x => by simp [cleanup, LawfulMemo.look_empty]⟩

theorem walk_blank_of_blank (g : Graph N) (d : N → Bool) (f : List N → N → List R → Except E R) (shortcut : Bool)
    (fuel : Nat) (n : N) (s : WState M N) (h : Blank s) :
    Blank (walk g d f true shortcut fuel n s).2 :=
  walk_blank g d f shortcut fuel n s h.stack (by cases shortcut <;> simp [h.memo n])

/-- **walk_idle_any_callback** (review C14 §4.1): after a call on a one-shot walker that was `Idle` for `f0`, the
    walker is `Idle` for every other callback `f1`. -/
theorem walk_idle_any_callback (g : Graph N) (d : N → Bool) (f : List N → N → List R → Except E R)
    (f0 f1 : N → List R → Except E R) (shortcut : Bool) (fuel : Nat) (n : N) (s : WState M N)
    (hi : Idle g d f0 s) (hmiss : (if shortcut then look s.memo n else none) = none) :
    Idle g d f1 (walk g d f true shortcut fuel n s).2 :=
  blank_idle g d f1 _ (walk_blank g d f shortcut fuel n s hi.stack hmiss)

/-- **walksF_spec**: calls with *changing* pure callbacks on a one-shot walker: each returns the specification of
    its own callback -- `substitute` with maps σ₁, σ₂, … returns the σᵢ-substitution of the i-th formula. -/
theorem walksF_spec (g : Graph N) (d : N → Bool) (shortcut : Bool) (fuel : Nat) (V : List N)
    (hfuel : 2 * cost g V + 2 ≤ fuel) (qs : List ((N → List R → Except E R) × N))
    (hV : ∀ q ∈ qs, Covers g d q.2 V) (s : WState M N) (hb : Blank s) :
    (walksF g d true shortcut fuel (qs.map (fun q => ((fun _ => q.1 : List N → N → List R → Except E R), q.2))) s).1
      = qs.map (fun q => ofSpec (spec g d q.1 q.2)) ∧
    Blank (walksF g d true shortcut fuel
      (qs.map (fun q => ((fun _ => q.1 : List N → N → List R → Except E R), q.2))) s).2 := by
  induction qs generalizing s with
  | nil => exact ⟨rfl, hb⟩
  | cons q qs ih =>
    have hq := walk_correct g d q.1 true shortcut fuel q.2 s (blank_idle g d q.1 s hb) V (hV q List.mem_cons_self) hfuel
    have hb' := walk_blank_of_blank g d (fun _ => q.1) shortcut fuel q.2 s hb
    obtain ⟨h1, h2⟩ := ih (fun q' h => hV q' (List.mem_cons_of_mem _ h)) _ hb'
    simp only [List.map_cons, walksF]
    exact ⟨by rw [hq, h1], h2⟩

/-- **probe_after_failure_any_callback** (review C15 §4.1): on a one-shot walker (`env.substituter`), after a call
    with ARBITRARY callbacks `fbad` -- an ill-typed substitution raising anywhere, injected faults, ... --, every
    later sequence of calls, each with its own callbacks (other maps), returns exactly what the same sequence returns
    on a newly made walker. -/
theorem probe_after_failure_any_callback (g : Graph N) (d : N → Bool) (fbad : List N → N → List R → Except E R)
    (shortcut : Bool) (fuelBad fuel : Nat) (b : N) (V : List N) (hfuel : 2 * cost g V + 2 ≤ fuel)
    (qs : List ((N → List R → Except E R) × N)) (hV : ∀ q ∈ qs, Covers g d q.2 V) (s : WState M N) (hb : Blank s) :
    (walksF g d true shortcut fuel (qs.map (fun q => ((fun _ => q.1 : List N → N → List R → Except E R), q.2)))
        (walk g d fbad true shortcut fuelBad b s).2).1
      = (walksF g d true shortcut fuel (qs.map (fun q => ((fun _ => q.1 : List N → N → List R → Except E R), q.2)))
        (WState.init : WState M N)).1 := by
  rw [(walksF_spec g d shortcut fuel V hfuel qs hV _ (walk_blank_of_blank g d fbad shortcut fuelBad b s hb)).1,
      (walksF_spec g d shortcut fuel V hfuel qs hV _ blank_init).1]

end
end PySMT.Walker
