import PySMT.Proofs.C10PrenexEq
/-!
# C10 — `prenex_equiv_partial`: the main induction over the walk
-/
namespace PySMT.Rewritings

theorem prenexNode_le (fresh : Nat → String) (op : Op) (args : List Term) (p : Payload) (rs : List PRes) (n : Nat) :
    n ≤ (prenexNode fresh op args p rs n).2 := by
  unfold prenexNode
  split
  · exact Nat.le_refl _
  · exact Nat.le_refl _
  · simp only
    cases allSome rs with
    | none => exact Nat.le_refl _
    | some as => exact conjDisj_le fresh true _ as n
  · simp only
    cases allSome rs with
    | none => exact Nat.le_refl _
    | some as => exact conjDisj_le fresh false _ as n
  · exact Nat.le_refl _
  · exact prenexImplies_le ..
  · exact Nat.le_trans (prenexImplies_le ..) (Nat.le_trans (prenexImplies_le ..) (conjDisj_le fresh true _ _ _))
  · exact Nat.le_trans (prenexImplies_le ..) (Nat.le_trans (prenexImplies_le ..) (conjDisj_le fresh true _ _ _))
  all_goals exact Nat.le_refl _

mutual
theorem prenexW_le (fresh : Nat → String) : (t : Term) → ∀ n : Nat, n ≤ (prenexW fresh t n).2
  | .node op args p, n => by
    rw [prenexW]
    exact Nat.le_trans (prenexL_le fresh args n) (prenexNode_le fresh op args p _ _)
theorem prenexL_le (fresh : Nat → String) : (ts : List Term) → ∀ n : Nat, n ≤ (prenexL fresh ts n).2
  | [], n => Nat.le_refl _
  | a :: as, n => by
    simp only [prenexL]
    exact Nat.le_trans (prenexW_le fresh a n) (prenexL_le fresh as _)
end

/-- what the walk guarantees about one (optional) result -/
def GoodOpt (t : Term) (r : PRes) : Prop :=
  WB t → nodupBinders t = true → ∀ x, r = some x → Good t x

theorem nodupBinders_node (op : Op) (args : List Term) (p : Payload) :
    nodupBinders (.node op args p) =
      ((args.map nodupBinders).all id && (match p with | .qvars vs => nodupB vs | _ => true)) := by
  cases p <;> (rw [nodupBinders] <;> simp)

theorem nodupBinders_child {op : Op} {args : List Term} {p : Payload} (h : nodupBinders (.node op args p) = true) :
    ∀ a ∈ args, nodupBinders a = true := by
  intro a ha
  rw [nodupBinders_node] at h
  simp only [Bool.and_eq_true, List.all_eq_true, List.mem_map] at h
  exact h.1 _ ⟨a, ha, rfl⟩

theorem nodupBinders_vars {op : Op} {args : List Term} {vs : List Sym}
    (h : nodupBinders (.node op args (.qvars vs)) = true) : nodupB vs = true := by
  rw [nodupBinders_node] at h
  simp only [Bool.and_eq_true] at h
  exact h.2

/-- the children's results that are present are good -/
theorem all2_good_of_allSome {args : List Term} {rs : List PRes} (h : All2 GoodOpt args rs) :
    ∀ {as : List (List QBlock × Term)}, allSome rs = some as →
      (∀ a ∈ args, WB a) → (∀ a ∈ args, nodupBinders a = true) → All2 Good args as := by
  induction h with
  | nil =>
    intro as has _ _
    simp only [allSome, Option.some.injEq] at has
    subst has; exact .nil
  | @cons a r args' rs' hab _ ih =>
    intro as has hwb hnd
    cases r with
    | none => simp [allSome] at has
    | some x =>
      simp only [allSome, Option.map_eq_some_iff] at has
      obtain ⟨as', has', rfl⟩ := has
      exact .cons (hab (hwb a (by simp)) (hnd a (by simp)) x rfl)
        (ih has' (fun b hb => hwb b (by simp [hb])) (fun b hb => hnd b (by simp [hb])))

theorem prenexNode_good (fresh : Nat → String) (op : Op) (args : List Term) (p : Payload) (rs : List PRes) (n : Nat)
    (hrs : All2 GoodOpt args rs) (hn : (prenexNode fresh op args p rs n).2 = n) :
    GoodOpt (.node op args p) (prenexNode fresh op args p rs n).1 := by
  intro hwb hnd x hx
  have hndc := nodupBinders_child hnd
  unfold prenexNode at hn hx
  split at hx
  · -- symbol
    simp only at hx
    split at hx
    · cases hx; exact good_atom hwb
    · cases hx
  · cases hx; exact good_atom hwb
  · -- and
    simp only at hx hn
    split at hx
    · next as has =>
      simp only [has] at hn
      cases hx
      have hch := (wb_and _ _).mp hwb
      have hg := all2_good_of_allSome hrs has hch hndc
      have hnc := conjDisj_eq fresh true _ as n hn
      rw [conjDisj_nc fresh true _ as n hnc]
      exact good_conj true hg hnc
    · cases hx
  · -- or
    simp only at hx hn
    split at hx
    · next as has =>
      simp only [has] at hn
      cases hx
      have hch := (wb_or _ _).mp hwb
      have hg := all2_good_of_allSome hrs has hch hndc
      have hnc := conjDisj_eq fresh false _ as n hn
      rw [conjDisj_nc fresh false _ as n hnc]
      exact good_conj false hg hnc
    · cases hx
  · -- not
    next a pl ra =>
    cases hx
    cases hrs with
    | cons h1 _ => exact good_not _ (h1 ((wb_not _ _).mp hwb) (hndc _ (by simp)) _ rfl)
  · -- implies
    next a b pl ra rb =>
    cases hx
    cases hrs with
    | cons h1 h2 =>
    cases h2 with
    | cons h2 _ =>
    obtain ⟨ha, hb⟩ := (wb_implies _ _ _).mp hwb
    exact good_implies fresh n _ (fun s hs => mem_append_left' hs) (fun s hs => mem_append_right' hs)
      (h1 ha (hndc _ (by simp)) _ rfl) (h2 hb (hndc _ (by simp)) _ rfl) hn
  · -- iff
    next a b pl ra rb =>
    cases hx
    cases hrs with
    | cons h1 h2 =>
    cases h2 with
    | cons h2 _ =>
    obtain ⟨ha, hb⟩ := (wb_iff _ _ _).mp hwb
    exact good_iff fresh n _ (h1 ha (hndc _ (by simp)) _ rfl) (h2 hb (hndc _ (by simp)) _ rfl) hn
  · -- ite
    next c a b pl rc ra rb =>
    cases hx
    cases hrs with
    | cons h1 h2 =>
    cases h2 with
    | cons h2 h3 =>
    cases h3 with
    | cons h3 _ =>
    obtain ⟨hc, ha, hb⟩ := (wb_ite _ _ _ _).mp hwb
    exact good_ite fresh n _ (h1 hc (hndc _ (by simp)) _ rfl) (h2 ha (hndc _ (by simp)) _ rfl)
      (h3 hb (hndc _ (by simp)) _ rfl) hn
  · -- function
    simp only at hx
    split at hx
    · cases hx; exact good_atom hwb
    · cases hx
  · -- forall
    next b vs rb =>
    cases hx
    cases hrs with
    | cons h1 _ =>
    exact good_quant false (h1 ((wb_forall _ _).mp hwb) (hndc _ (by simp)) _ rfl) (nodupBinders_vars hnd)
  · -- exists
    next b vs rb =>
    cases hx
    cases hrs with
    | cons h1 _ =>
    exact good_quant true (h1 ((wb_exists _ _).mp hwb) (hndc _ (by simp)) _ rfl) (nodupBinders_vars hnd)
  all_goals first
    | (cases hx; exact good_atom hwb)
    | (simp only at hx; split at hx <;> first | (cases hx; exact good_atom hwb) | cases hx)
    | cases hx

mutual
theorem prenexW_good (fresh : Nat → String) : (t : Term) → ∀ n : Nat, (prenexW fresh t n).2 = n →
    GoodOpt t (prenexW fresh t n).1
  | .node op args p, n, h => by
    rw [prenexW] at h ⊢
    have l1 := prenexL_le fresh args n
    have l2 := prenexNode_le fresh op args p (prenexL fresh args n).1 (prenexL fresh args n).2
    have e1 : (prenexL fresh args n).2 = n := by omega
    rw [e1] at h ⊢
    exact prenexNode_good fresh op args p _ n (prenexL_good fresh args n e1) h
theorem prenexL_good (fresh : Nat → String) : (ts : List Term) → ∀ n : Nat, (prenexL fresh ts n).2 = n →
    All2 GoodOpt ts (prenexL fresh ts n).1
  | [], _, _ => .nil
  | a :: as, n, h => by
    simp only [prenexL] at h ⊢
    have l1 := prenexW_le fresh a n
    have l2 := prenexL_le fresh as (prenexW fresh a n).2
    have e1 : (prenexW fresh a n).2 = n := by omega
    rw [e1] at h ⊢
    exact .cons (prenexW_good fresh a n e1) (prenexL_good fresh as n h)
end

/-- **`prenex_equiv_partial`**: when no bound variable has to be renamed, the prenex normal form
has the value of the input under every interpretation -/
theorem prenex_equiv_noRename (fresh : Nat → String) (t r : Term) (hwf : t.wf = true) (hty : t.typeOf = some .bool)
    (hnd : nodupBinders t = true) (hnr : noRename fresh t = true) (h : prenex fresh t = some r)
    (I : Interp) (hI : I.WF) : eval I r = eval I t := by
  have hwb : WB t := ⟨hwf, hty⟩
  have hn : (prenexW fresh t 0).2 = 0 := by simpa [noRename] using hnr
  unfold prenex at h
  cases hw : (prenexW fresh t 0).1 with
  | none => rw [hw] at h; cases h
  | some x =>
    rw [hw] at h
    simp only [Option.map_some, Option.some.injEq] at h
    subst h
    have hg := prenexW_good fresh t 0 hn hwb hnd x hw
    have hws := wrap_sem x.1 x.2 hg.wb
    rw [hws.1.isB hI, hws.2 I hI, hg.sem I hI, hwb.isB hI]

end PySMT.Rewritings
