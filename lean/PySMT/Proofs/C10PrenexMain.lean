import PySMT.Proofs.C10Merge
/-!
# C10 — `prenex_equiv`: the main induction over the walk (with alpha-renaming)
-/
namespace PySMT.Rewritings

section
variable {fresh : Nat → String}

/-! ## symbols of a term -/

theorem allSyms_node (op : Op) (args : List Term) (p : Payload) :
    allSyms (.node op args p) =
      (match p with | .sym s => [s] | .qvars vs => vs | _ => []) ++ (args.map allSyms).flatten := by
  cases p <;> (rw [allSyms] <;> simp)

theorem allSyms_child {op : Op} {args : List Term} {p : Payload} {a : Term} (ha : a ∈ args) {s : Sym}
    (hs : s ∈ allSyms a) : s ∈ allSyms (.node op args p) := by
  rw [allSyms_node]
  apply List.mem_append_right
  simp only [List.mem_flatten, List.mem_map]
  exact ⟨_, ⟨a, ha, rfl⟩, hs⟩

theorem allSyms_qvars {op : Op} {args : List Term} {vs : List Sym} {s : Sym} (hs : s ∈ vs) :
    s ∈ allSyms (.node op args (.qvars vs)) := by
  rw [allSyms_node]; exact List.mem_append_left _ hs

theorem fv_sub_allSyms : (t : Term) → ∀ s ∈ t.fv, s ∈ allSyms t
  | .node op args p => fun s hs => by
    have hsub : ∀ x ∈ (args.map Term.fv).flatten, x ∈ allSyms (.node op args p) := by
      intro x hx
      simp only [List.mem_flatten, List.mem_map] at hx
      obtain ⟨_, ⟨a, ha, rfl⟩, hxa⟩ := hx
      exact allSyms_child ha (fv_sub_allSyms a x hxa)
    rw [fv_node] at hs
    split at hs
    · simp only [List.mem_cons, List.not_mem_nil, or_false] at hs
      subst hs; rw [allSyms_node]; simp
    · simp only [List.mem_cons] at hs
      rcases hs with rfl | hs
      · rw [allSyms_node]; simp
      · exact hsub s hs
    · exact hsub s (List.mem_filter.mp hs).1
    · exact hsub s (List.mem_filter.mp hs).1
    · exact hsub s hs

/-- no symbol of the term is a name of the supply -/
def Avoids (fresh : Nat → String) (t : Term) : Prop := ∀ s ∈ allSyms t, ∀ k, s.name ≠ fresh k

theorem Avoids.child {op : Op} {args : List Term} {p : Payload} (h : Avoids fresh (.node op args p)) :
    ∀ a ∈ args, Avoids fresh a := fun _ ha s hs => h s (allSyms_child ha hs)

theorem Avoids.fv {t : Term} (h : Avoids fresh t) : ∀ s ∈ t.fv, ∀ k, s.name ≠ fresh k :=
  fun s hs => h s (fv_sub_allSyms t s hs)

theorem plainBinders_node (op : Op) (args : List Term) (p : Payload) :
    plainBinders (.node op args p) =
      ((args.map plainBinders).all id &&
        (match p with | .qvars vs => vs.all (fun v => v.params.isEmpty) | _ => true)) := by
  cases p <;> (rw [plainBinders] <;> simp)

theorem plainBinders_child {op : Op} {args : List Term} {p : Payload} (h : plainBinders (.node op args p) = true) :
    ∀ a ∈ args, plainBinders a = true := by
  intro a ha
  rw [plainBinders_node] at h
  simp only [Bool.and_eq_true, List.all_eq_true, List.mem_map] at h
  exact h.1 _ ⟨a, ha, rfl⟩

theorem plainBinders_vars {op : Op} {args : List Term} {vs : List Sym}
    (h : plainBinders (.node op args (.qvars vs)) = true) : ∀ v ∈ vs, v.params = [] := by
  rw [plainBinders_node] at h
  simp only [Bool.and_eq_true, List.all_eq_true, List.isEmpty_iff] at h
  exact h.2

/-! ## the walker's rules -/

/-- the invariant for a value given as a predicate (virtual formulas `¬a`, `a → b`) -/
structure PInv (fresh : Nat → String) (n : Nat) (val : Interp → Bool) (fvs : List Sym)
    (r : List QBlock × Term) : Prop where
  wb : WB r.2
  sem : ∀ I : Interp, I.WF → qsem r.1 (fun J => truth J r.2) I = val I
  supp : Supp (fvs ++ boundOf r.1) (fun J => truth J r.2)
  qf : r.2.isQF = true
  nd : (boundOf r.1).Nodup
  plain : ∀ s ∈ boundOf r.1, s.params = []
  old : ∀ s ∈ boundOf r.1, Old fresh n s

theorem PInv.toRInv {n : Nat} {val : Interp → Bool} {fvs : List Sym} {r : List QBlock × Term} {t : Term}
    (h : PInv fresh n val fvs r) (hv : ∀ I : Interp, I.WF → val I = truth I t) (hf : ∀ s ∈ fvs, s ∈ t.fv) :
    RInv fresh n t r :=
  ⟨⟨h.wb, fun I hI => by rw [h.sem I hI, hv I hI], h.supp.mono (fun s hs => by
      rcases List.mem_append.mp hs with h1 | h1
      · exact List.mem_append_left _ (hf s h1)
      · exact List.mem_append_right _ h1)⟩, h.qf, h.nd, h.plain, h.old⟩

theorem rinv_atom {n : Nat} {t : Term} (h : WB t) (hqf : t.isQF = true) : RInv fresh n t ([], t) :=
  ⟨⟨h, fun _ _ => rfl, (supp_truth t).mono (fun s hs => List.mem_append_left _ hs)⟩, hqf,
    by simp [boundOf], by simp [boundOf], by simp [boundOf]⟩

theorem fv_not (a : Term) (p : Payload) (s : Sym) : s ∈ (Term.node .not [a] p).fv ↔ s ∈ a.fv := by
  rw [fv_node_plain _ _ _ (by decide) (by decide) (by decide)]
  simp

theorem rinv_not {n : Nat} {t : Term} {r : List QBlock × Term} (p : Payload) (h : RInv fresh n t r) :
    RInv fresh n (.node .not [t] p) (prenexNot r) := by
  have hg := h.good
  have e : prenexNot r = (flipBlocks r.1, mkNot r.2) := rfl
  rw [e]
  have htr : ∀ J : Interp, J.WF → truth J (mkNot r.2) = !truth J r.2 :=
    fun J hJ => truth_of_eval (eval_mkNot hJ hg.wb)
  refine ⟨⟨wb_mkNot hg.wb, fun I hI => ?_, ?_⟩, isQF_mkNot h.qf, by rw [boundOf_flip]; exact h.nd,
    by rw [boundOf_flip]; exact h.plain, by rw [boundOf_flip]; exact h.old⟩
  · simp only
    rw [qsem_congr_wf _ _ (fun J => !truth J r.2) htr I hI, ← qsem_not, hg.sem I hI, truth_not]
  · simp only
    rw [boundOf_flip]
    refine Supp.congr ?_ htr
    intro J J' hJ hJ' hsym hfn hd hr hi
    simp only
    congr 1
    apply hg.supp J J' hJ hJ' _ hfn hd hr hi
    intro s hs
    apply hsym
    rcases List.mem_append.mp hs with h1 | h1
    · exact List.mem_append_left _ ((fv_not t p s).mpr h1)
    · exact List.mem_append_right _ h1

theorem all2_good {n : Nat} {args : List Term} {as : List (List QBlock × Term)}
    (h : All2 (RInv fresh n) args as) : All2 Good args as := by
  induction h with
  | nil => exact .nil
  | cons hab _ ih => exact .cons hab.good ih

/-- `walk_conj_disj` -/
theorem conjDisj_good (hinj : Inj fresh) (c : Bool) {args : List Term} {as : List (List QBlock × Term)}
    {n0 n : Nat} {fvs : List Sym} (hg : All2 (RInv fresh n0) args as) (hn : n0 ≤ n)
    (hfv : ∀ a ∈ args, ∀ s ∈ a.fv, s ∈ fvs) (hfresh : ∀ s ∈ fvs, ∀ k, s.name ≠ fresh k) :
    PInv fresh (conjDisj fresh c fvs as n).2 (fun I => lbop c (args.map (truth I))) fvs
      (conjDisj fresh c fvs as n).1 ∧ n ≤ (conjDisj fresh c fvs as n).2 := by
  obtain ⟨k1, k2, k3⟩ := mergeArgs_good hinj hg fvs n hn
    (fun a ha s hs => hfresh s (hfv a ha s hs)) (fun s hs k _ => hfresh s hs k)
  obtain ⟨e1, e2⟩ := mergeArgs_asRen (fresh := fresh) as fvs n
  have hgood : All2 Good args (asRen fresh as fvs n) := all2_good k1
  obtain ⟨m1, m2, m3⟩ := merge_good c hgood hfv k2
  have each : ∀ r ∈ asRen fresh as fvs n, r.2.isQF = true ∧ (boundOf r.1).Nodup ∧
      (∀ s ∈ boundOf r.1, s.params = []) ∧ ∀ s ∈ boundOf r.1, Old fresh (mergeArgs fresh as fvs n).2.2 s := by
    intro r hr
    obtain ⟨a, _, ha⟩ := k1.mem_right r hr
    exact ⟨ha.qf, ha.nd, ha.plain, ha.old⟩
  have hM : (conjDisj fresh c fvs as n).1 =
      ((asRen fresh as fvs n).flatMap (·.1),
        if c then mkAnd ((asRen fresh as fvs n).map (·.2)) else mkOr ((asRen fresh as fvs n).map (·.2))) := by
    simp only [conjDisj, e1, e2]
  refine ⟨?_, k3⟩
  rw [hM]
  have hbnd : ∀ s ∈ boundOf ((asRen fresh as fvs n).flatMap (·.1)), ∃ r ∈ asRen fresh as fvs n, s ∈ boundOf r.1 :=
    fun s hs => mem_boundOf_flatMap.mp hs
  refine ⟨m1, m2, m3, ?_, nodup_of_noClashArgs _ _ k2 (fun r hr => (each r hr).2.1), ?_, ?_⟩
  · have hall : ∀ m ∈ (asRen fresh as fvs n).map (·.2), m.isQF = true := by
      intro m hm
      obtain ⟨r, hr, rfl⟩ := List.mem_map.mp hm
      exact (each r hr).1
    cases c
    · simp only [Bool.false_eq_true, if_false]; exact isQF_mkOr hall
    · simp only [if_true]; exact isQF_mkAnd hall
  · intro s hs
    obtain ⟨r, hr, hsr⟩ := hbnd s hs
    exact (each r hr).2.2.1 s hsr
  · intro s hs
    obtain ⟨r, hr, hsr⟩ := hbnd s hs
    exact (each r hr).2.2.2 s hsr

theorem mem_fv_of_child {op : Op} (h1 : op ≠ .symbol) (h2 : op ≠ .function) (h3 : op.isQuantifier = false)
    {args : List Term} {p : Payload} {a : Term} (ha : a ∈ args) {s : Sym} (hs : s ∈ a.fv) :
    s ∈ (Term.node op args p).fv := by
  rw [fv_node_plain _ _ _ h1 h2 h3]
  simp only [List.mem_flatten, List.mem_map]
  exact ⟨_, ⟨a, ha, rfl⟩, hs⟩

theorem fv_binary {op : Op} (h1 : op ≠ .symbol) (h2 : op ≠ .function) (h3 : op.isQuantifier = false)
    (a b : Term) (p : Payload) (s : Sym) : s ∈ (Term.node op [a, b] p).fv ↔ s ∈ a.fv ∨ s ∈ b.fv := by
  rw [fv_node_plain _ _ _ h1 h2 h3]
  simp

theorem fv_ite (c a b : Term) (p : Payload) (s : Sym) :
    s ∈ (Term.node .ite [c, a, b] p).fv ↔ s ∈ c.fv ∨ s ∈ a.fv ∨ s ∈ b.fv := by
  rw [fv_node_plain _ _ _ (by decide) (by decide) rfl]
  simp

theorem all2_pair {α β : Type} {R : α → β → Prop} {a1 a2 : α} {b1 b2 : β} (h1 : R a1 b1) (h2 : R a2 b2) :
    All2 R [a1, a2] [b1, b2] := .cons h1 (.cons h2 .nil)

/-- `walk_implies` -/
theorem rinv_implies (hinj : Inj fresh) {a b : Term} {ra rb : List QBlock × Term} {n0 n : Nat} (p : Payload)
    {fvs : List Sym} (ha : RInv fresh n0 a ra) (hb : RInv fresh n0 b rb) (hn : n0 ≤ n)
    (hfa : ∀ s ∈ a.fv, s ∈ fvs) (hfb : ∀ s ∈ b.fv, s ∈ fvs) (hsub : ∀ s ∈ fvs, s ∈ a.fv ∨ s ∈ b.fv)
    (hfresh : ∀ s ∈ fvs, ∀ k, s.name ≠ fresh k) :
    RInv fresh (prenexImplies fresh fvs ra rb n).2 (.node .implies [a, b] p) (prenexImplies fresh fvs ra rb n).1 ∧
      n ≤ (prenexImplies fresh fvs ra rb n).2 := by
  have hg : All2 (RInv fresh n0) [Term.node .not [a] .none, b] [prenexNot ra, rb] :=
    all2_pair (rinv_not .none ha) hb
  have hfv : ∀ x ∈ [Term.node .not [a] .none, b], ∀ s ∈ x.fv, s ∈ fvs := by
    intro x hx s hs
    simp only [List.mem_cons, List.not_mem_nil, or_false] at hx
    rcases hx with rfl | rfl
    · exact hfa s ((fv_not a .none s).mp hs)
    · exact hfb s hs
  obtain ⟨h1, h2⟩ := conjDisj_good hinj false hg hn hfv hfresh
  refine ⟨h1.toRInv (fun I _ => ?_) (fun s hs => ?_), h2⟩
  · simp only [lbop, Bool.false_eq_true, if_false, List.map_cons, List.map_nil, List.any_cons, List.any_nil,
      truth_not, truth_implies, id, Bool.or_false]
  · exact (fv_binary (by decide) (by decide) rfl a b p s).mpr (hsub s hs)

/-- the conjunction of two results (`walk_iff`, `walk_ite`) -/
theorem pinv_and2 (hinj : Inj fresh) {x y : Term} {rx ry : List QBlock × Term} {n0 n : Nat}
    {fvs : List Sym} (hx : RInv fresh n0 x rx) (hy : RInv fresh n0 y ry) (hn : n0 ≤ n)
    (hfx : ∀ s ∈ x.fv, s ∈ fvs) (hfy : ∀ s ∈ y.fv, s ∈ fvs) (hfresh : ∀ s ∈ fvs, ∀ k, s.name ≠ fresh k) :
    PInv fresh (conjDisj fresh true fvs [rx, ry] n).2 (fun I => truth I x && truth I y) fvs
      (conjDisj fresh true fvs [rx, ry] n).1 ∧ n ≤ (conjDisj fresh true fvs [rx, ry] n).2 := by
  have hfv : ∀ t ∈ [x, y], ∀ s ∈ t.fv, s ∈ fvs := by
    intro t ht s hs
    simp only [List.mem_cons, List.not_mem_nil, or_false] at ht
    rcases ht with rfl | rfl
    · exact hfx s hs
    · exact hfy s hs
  obtain ⟨h1, h2⟩ := conjDisj_good hinj true (all2_pair hx hy) hn hfv hfresh
  refine ⟨⟨h1.wb, fun I hI => ?_, h1.supp, h1.qf, h1.nd, h1.plain, h1.old⟩, h2⟩
  rw [h1.sem I hI]
  simp [lbop]

theorem mem_l {s : Sym} {l1 l2 : List Sym} (h : s ∈ l1) : s ∈ l1 ++ l2 := List.mem_append_left _ h
theorem mem_r {s : Sym} {l1 l2 : List Sym} (h : s ∈ l2) : s ∈ l1 ++ l2 := List.mem_append_right _ h

/-! ## binders -/

theorem mem_dedupSyms (s : Sym) : ∀ l : List Sym, s ∈ dedupSyms l ↔ s ∈ l
  | [] => by simp [dedupSyms]
  | x :: xs => by
    rw [dedupSyms]
    split
    · next hc =>
      rw [mem_dedupSyms s xs]
      have : x ∈ xs := by simpa using hc
      constructor
      · exact fun h => List.mem_cons_of_mem _ h
      · intro h
        simp only [List.mem_cons] at h
        rcases h with rfl | h
        · exact this
        · exact h
    · simp only [List.mem_cons, mem_dedupSyms s xs]

theorem dedupSyms_nodup : ∀ l : List Sym, (dedupSyms l).Nodup
  | [] => by simp [dedupSyms]
  | x :: xs => by
    rw [dedupSyms]
    split
    · exact dedupSyms_nodup xs
    · next hc =>
      rw [List.nodup_cons]
      refine ⟨fun h => hc ?_, dedupSyms_nodup xs⟩
      have := (mem_dedupSyms x xs).mp h
      simpa using this

theorem quant_dedup (all : Bool) (k : Interp → Bool) : ∀ (vs : List Sym) (I : Interp), I.WF →
    I.quant all vs k = I.quant all (dedupSyms vs) k
  | [], _, _ => rfl
  | x :: xs, I, hI => by
    rw [dedupSyms]
    split
    · next hc =>
      have hm : x ∈ xs := by simpa using hc
      rw [quant_drop hI all (inv_quant all xs (.inl hm))]
      exact quant_dedup all k xs I hI
    · simp only [Interp.quant]
      have step : ∀ v ∈ I.dom x.ret, (I.bind x v).quant all xs k = (I.bind x v).quant all (dedupSyms xs) k :=
        fun v hv => quant_dedup all k xs _ (hI.bind x v (hI.dom_sort _ v hv))
      rw [list_all_congr step, list_any_congr step]

/-- `walk_quantifier` -/
theorem rinv_quant (isExists : Bool) {n : Nat} {b : Term} {vs : List Sym} {rb : List QBlock × Term}
    (hb : RInv fresh n b rb) (hp : ∀ v ∈ vs, v.params = []) (hold : ∀ v ∈ vs, Old fresh n v) :
    RInv fresh n (.node (if isExists then .exists_ else .forall_) [b] (.qvars vs)) (prenexQuant isExists vs rb) := by
  obtain ⟨qs, m⟩ := rb
  have hg := hb.good
  let nq := (dedupSyms vs).filter (fun v => !(boundOf qs).contains v)
  have hK : ∀ I : Interp, I.WF →
      I.quant (!isExists) nq (qsem qs (fun J => truth J m)) =
        truth I (.node (if isExists then .exists_ else .forall_) [b] (.qvars vs)) := by
    intro I hI
    rw [← quant_filter (!isExists) (boundOf qs) (fun s hs => inv_qsem qs _ hs) (dedupSyms vs) I hI,
      ← quant_dedup _ _ vs I hI,
      quant_congr_wf _ _ (fun J => truth J b) (fun J hJ => hg.sem J hJ) vs I hI]
    cases isExists
    · simp only [Bool.false_eq_true, if_false, Bool.not_false, truth_forall]
    · simp only [if_true, Bool.not_true, truth_exists]
  have hfvq : ∀ s, s ∈ (Term.node (if isExists then Op.exists_ else Op.forall_) [b] (.qvars vs)).fv ↔
      s ∈ b.fv ∧ s ∉ vs := by
    intro s
    cases isExists
    · simp only [Bool.false_eq_true, if_false, fv_forall]
      simp
    · simp only [if_true, fv_exists]
      simp
  have hnq_mem : ∀ s, s ∈ nq ↔ s ∈ vs ∧ s ∉ boundOf qs := by
    intro s
    simp only [nq, List.mem_filter, mem_dedupSyms, Bool.not_eq_eq_eq_not, Bool.not_true, List.contains_eq_mem,
      decide_eq_false_iff_not]
  have hnq_nd : nq.Nodup := (dedupSyms_nodup vs).filter _
  have hpq : prenexQuant isExists vs (qs, m) = if nq.isEmpty then (qs, m) else (qs ++ [(isExists, nq)], m) := rfl
  rw [hpq]
  -- the support of the matrix, in terms of the new node
  have hsupp : ∀ bound' : List Sym, (∀ s ∈ boundOf qs, s ∈ bound') → (∀ s ∈ nq, s ∈ bound') →
      Supp ((Term.node (if isExists then Op.exists_ else Op.forall_) [b] (.qvars vs)).fv ++ bound')
        (fun J => truth J m) := by
    intro bound' h1 h2
    apply hg.supp.mono
    intro s hs
    rcases List.mem_append.mp hs with h | h
    · by_cases hv : s ∈ vs
      · by_cases hbd : s ∈ boundOf qs
        · exact mem_r (h1 s hbd)
        · exact mem_r (h2 s ((hnq_mem s).mpr ⟨hv, hbd⟩))
      · exact mem_l ((hfvq s).mpr ⟨h, hv⟩)
    · exact mem_r (h1 s h)
  by_cases hemp : nq.isEmpty = true
  · rw [if_pos hemp]
    have hnil : nq = [] := List.isEmpty_iff.mp hemp
    refine ⟨⟨hg.wb, fun I hI => ?_, hsupp _ (fun s hs => hs) (fun s hs => by rw [hnil] at hs; cases hs)⟩,
      hb.qf, hb.nd, hb.plain, hb.old⟩
    have := hK I hI
    rw [hnil] at this
    exact this
  · rw [if_neg hemp]
    have hbo : boundOf (qs ++ [(isExists, nq)]) = boundOf qs ++ nq := by simp [boundOf]
    refine ⟨⟨hg.wb, fun I hI => ?_, ?_⟩, hb.qf, ?_, ?_, ?_⟩
    · simp only [qsem_append, qsem]
      exact hK I hI
    · simp only [hbo]
      exact hsupp _ (fun s hs => mem_l hs) (fun s hs => mem_r hs)
    · simp only [hbo]
      rw [List.nodup_append]
      refine ⟨hb.nd, hnq_nd, ?_⟩
      intro a ha c hc e
      subst e
      exact ((hnq_mem a).mp hc).2 ha
    · simp only [hbo]
      intro s hs
      rcases List.mem_append.mp hs with h | h
      · exact hb.plain s h
      · exact hp s ((hnq_mem s).mp h).1
    · simp only [hbo]
      intro s hs
      rcases List.mem_append.mp hs with h | h
      · exact hb.old s h
      · exact hold s ((hnq_mem s).mp h).1

/-! ## the supply counter never decreases -/

theorem mergeBlocks_le : ∀ (qs : List QBlock) (res : List Sym) (m : Term) (n : Nat),
    n ≤ (mergeBlocks fresh qs res m n).2.2.2
  | [], _, _, _ => Nat.le_refl _
  | (q, vs) :: rest, res, m, n => by
    simp only [mergeBlocks]
    exact Nat.le_trans (Nat.le_add_right _ _) (mergeBlocks_le rest _ _ _)

theorem mergeArgs_le : ∀ (as : List (List QBlock × Term)) (res : List Sym) (n : Nat),
    n ≤ (mergeArgs fresh as res n).2.2
  | [], _, _ => Nat.le_refl _
  | (qs, m) :: rest, res, n => by
    simp only [mergeArgs]
    exact Nat.le_trans (mergeBlocks_le qs res m n) (mergeArgs_le rest _ _)

theorem conjDisj_le (isAnd : Bool) (fvs : List Sym) (as : List (List QBlock × Term)) (n : Nat) :
    n ≤ (conjDisj fresh isAnd fvs as n).2 := mergeArgs_le as fvs n

theorem prenexImplies_le (fvs : List Sym) (ra rb : List QBlock × Term) (n : Nat) :
    n ≤ (prenexImplies fresh fvs ra rb n).2 := conjDisj_le false fvs _ n

theorem prenexNode_le (op : Op) (args : List Term) (p : Payload) (rs : List PRes) (n : Nat) :
    n ≤ (prenexNode fresh op args p rs n).2 := by
  unfold prenexNode
  split
  · exact Nat.le_refl _
  · exact Nat.le_refl _
  · simp only
    cases allSome rs with
    | none => exact Nat.le_refl _
    | some as => exact conjDisj_le true _ as n
  · simp only
    cases allSome rs with
    | none => exact Nat.le_refl _
    | some as => exact conjDisj_le false _ as n
  · exact Nat.le_refl _
  · exact prenexImplies_le ..
  · exact Nat.le_trans (prenexImplies_le ..) (Nat.le_trans (prenexImplies_le ..) (conjDisj_le true _ _ _))
  · exact Nat.le_trans (prenexImplies_le ..) (Nat.le_trans (prenexImplies_le ..) (conjDisj_le true _ _ _))
  all_goals exact Nat.le_refl _

mutual
theorem prenexW_le : (t : Term) → ∀ n : Nat, n ≤ (prenexW fresh t n).2
  | .node op args p, n => by
    rw [prenexW]
    exact Nat.le_trans (prenexL_le args n) (prenexNode_le op args p _ _)
theorem prenexL_le : (ts : List Term) → ∀ n : Nat, n ≤ (prenexL fresh ts n).2
  | [], n => Nat.le_refl _
  | a :: as, n => by
    simp only [prenexL]
    exact Nat.le_trans (prenexW_le a n) (prenexL_le as _)
end

/-! ## the main induction -/

/-- what the walk guarantees about one (optional) result at supply counter `n` -/
def GoodOpt (fresh : Nat → String) (n : Nat) (t : Term) (r : PRes) : Prop :=
  WB t → quantInBoolPos t = true → plainBinders t = true → Avoids fresh t → ∀ x, r = some x → RInv fresh n t x

theorem GoodOpt.mono {n n' : Nat} {t : Term} {r : PRes} (h : GoodOpt fresh n t r) (hn : n ≤ n') :
    GoodOpt fresh n' t r := fun h1 h2 h3 h4 x hx => (h h1 h2 h3 h4 x hx).mono hn

theorem all2_mono {n n' : Nat} {ts : List Term} {rs : List PRes} (h : All2 (GoodOpt fresh n) ts rs) (hn : n ≤ n') :
    All2 (GoodOpt fresh n') ts rs := by
  induction h with
  | nil => exact .nil
  | cons hab _ ih => exact .cons (hab.mono hn) ih

theorem all2_rinv_of_allSome {n : Nat} {args : List Term} {rs : List PRes} (h : All2 (GoodOpt fresh n) args rs) :
    ∀ {as : List (List QBlock × Term)}, allSome rs = some as →
      (∀ a ∈ args, WB a ∧ quantInBoolPos a = true ∧ plainBinders a = true ∧ Avoids fresh a) →
      All2 (RInv fresh n) args as := by
  induction h with
  | nil =>
    intro as has _
    simp only [allSome, Option.some.injEq] at has
    subst has; exact .nil
  | @cons a r args' rs' hab _ ih =>
    intro as has hall
    cases r with
    | none => simp [allSome] at has
    | some x =>
      simp only [allSome, Option.map_eq_some_iff] at has
      obtain ⟨as', has', rfl⟩ := has
      obtain ⟨h1, h2, h3, h4⟩ := hall a (by simp)
      exact .cons (hab h1 h2 h3 h4 x rfl) (ih has' (fun b hb => hall b (by simp [hb])))

theorem prenexNode_good (hinj : Inj fresh) (op : Op) (args : List Term) (p : Payload) (rs : List PRes) (n : Nat)
    (hrs : All2 (GoodOpt fresh n) args rs) :
    GoodOpt fresh (prenexNode fresh op args p rs n).2 (.node op args p) (prenexNode fresh op args p rs n).1 := by
  intro hwb hq hpl hav x hx
  have hqc := quantInBoolPos_child hq
  have hplc := plainBinders_child hpl
  have havc := hav.child
  have hfvfresh : ∀ a ∈ args, ∀ s ∈ a.fv, ∀ k, s.name ≠ fresh k := fun a ha => (havc a ha).fv
  unfold prenexNode at hx ⊢
  split at hx
  · -- symbol
    simp only at hx
    split at hx
    · cases hx; exact rinv_atom hwb (quantInBoolPos_atom hq rfl)
    · cases hx
  · cases hx; exact rinv_atom hwb (quantInBoolPos_atom hq rfl)
  · -- and
    simp only at hx ⊢
    split at hx
    · next as has =>
      simp only [has]
      cases hx
      have hch := (wb_and _ _).mp hwb
      have hg := all2_rinv_of_allSome hrs has (fun a ha => ⟨hch a ha, hqc a ha, hplc a ha, havc a ha⟩)
      obtain ⟨h1, _⟩ := conjDisj_good hinj true hg (Nat.le_refl n)
        (fun a ha s hs => mem_fv_of_child (op := .and) (p := p) (by decide) (by decide) rfl ha hs) hav.fv
      exact h1.toRInv (fun I _ => by simp only [lbop, if_true, truth_and, List.all_map]; rfl) (fun s hs => hs)
    · cases hx
  · -- or
    simp only at hx ⊢
    split at hx
    · next as has =>
      simp only [has]
      cases hx
      have hch := (wb_or _ _).mp hwb
      have hg := all2_rinv_of_allSome hrs has (fun a ha => ⟨hch a ha, hqc a ha, hplc a ha, havc a ha⟩)
      obtain ⟨h1, _⟩ := conjDisj_good hinj false hg (Nat.le_refl n)
        (fun a ha s hs => mem_fv_of_child (op := .or) (p := p) (by decide) (by decide) rfl ha hs) hav.fv
      exact h1.toRInv (fun I _ => by
        simp only [lbop, Bool.false_eq_true, if_false, truth_or, List.any_map]; rfl) (fun s hs => hs)
    · cases hx
  · -- not
    next _ a ra =>
    cases hx
    cases hrs with
    | cons h1 _ =>
      exact rinv_not _ (h1 ((wb_not _ _).mp hwb) (hqc _ (by simp)) (hplc _ (by simp)) (havc _ (by simp)) _ rfl)
  · -- implies
    next _ a b ra rb =>
    cases hx
    cases hrs with
    | cons h1 h2 =>
    cases h2 with
    | cons h2 _ =>
    obtain ⟨ha, hb⟩ := (wb_implies _ _ _).mp hwb
    have ga := h1 ha (hqc _ (by simp)) (hplc _ (by simp)) (havc _ (by simp)) _ rfl
    have gb := h2 hb (hqc _ (by simp)) (hplc _ (by simp)) (havc _ (by simp)) _ rfl
    exact (rinv_implies hinj _ ga gb (Nat.le_refl n) (fun s hs => mem_l hs) (fun s hs => mem_r hs)
      (fun s hs => List.mem_append.mp hs)
      (fun s hs => by
        rcases List.mem_append.mp hs with h | h
        · exact hfvfresh a (by simp) s h
        · exact hfvfresh b (by simp) s h)).1
  · -- iff
    next _ a b ra rb =>
    cases hx
    cases hrs with
    | cons h1 h2 =>
    cases h2 with
    | cons h2 _ =>
    obtain ⟨ha, hb⟩ := (wb_iff _ _ _).mp hwb
    have ga := h1 ha (hqc _ (by simp)) (hplc _ (by simp)) (havc _ (by simp)) _ rfl
    have gb := h2 hb (hqc _ (by simp)) (hplc _ (by simp)) (havc _ (by simp)) _ rfl
    have hfr : ∀ s ∈ a.fv ++ b.fv, ∀ k, s.name ≠ fresh k := by
      intro s hs
      rcases List.mem_append.mp hs with h | h
      · exact hfvfresh a (by simp) s h
      · exact hfvfresh b (by simp) s h
    have hfr' : ∀ s ∈ b.fv ++ a.fv, ∀ k, s.name ≠ fresh k := by
      intro s hs
      rcases List.mem_append.mp hs with h | h
      · exact hfvfresh b (by simp) s h
      · exact hfvfresh a (by simp) s h
    obtain ⟨i1, l1⟩ := rinv_implies hinj .none ga gb (Nat.le_refl n) (fun s hs => mem_l hs) (fun s hs => mem_r hs)
      (fun s hs => List.mem_append.mp hs) hfr
    obtain ⟨i2, l2⟩ := rinv_implies hinj .none gb ga l1 (fun s hs => mem_l hs) (fun s hs => mem_r hs)
      (fun s hs => List.mem_append.mp hs) hfr'
    have hfx : ∀ s ∈ (Term.node .implies [a, b] .none).fv, s ∈ a.fv ++ b.fv := by
      intro s hs
      rcases (fv_binary (by decide) (by decide) rfl a b .none s).mp hs with h | h
      · exact mem_l h
      · exact mem_r h
    have hfy : ∀ s ∈ (Term.node .implies [b, a] .none).fv, s ∈ a.fv ++ b.fv := by
      intro s hs
      rcases (fv_binary (by decide) (by decide) rfl b a .none s).mp hs with h | h
      · exact mem_r h
      · exact mem_l h
    obtain ⟨h3, _⟩ := pinv_and2 hinj (i1.mono l2) i2 (Nat.le_refl _) hfx hfy hfr
    refine h3.toRInv (fun I _ => ?_) (fun s hs => ?_)
    · rw [truth_implies, truth_implies, truth_iff]
      cases truth I a <;> cases truth I b <;> rfl
    · exact (fv_binary (by decide) (by decide) rfl a b _ s).mpr (List.mem_append.mp hs)
  · -- ite
    next _ c a b rc ra rb =>
    cases hx
    cases hrs with
    | cons h1 h2 =>
    cases h2 with
    | cons h2 h3 =>
    cases h3 with
    | cons h3 _ =>
    obtain ⟨hc, ha, hb⟩ := (wb_ite _ _ _ _).mp hwb
    have gc := h1 hc (hqc _ (by simp)) (hplc _ (by simp)) (havc _ (by simp)) _ rfl
    have ga := h2 ha (hqc _ (by simp)) (hplc _ (by simp)) (havc _ (by simp)) _ rfl
    have gb := h3 hb (hqc _ (by simp)) (hplc _ (by simp)) (havc _ (by simp)) _ rfl
    have fc := hfvfresh c (by simp); have fa := hfvfresh a (by simp); have fb := hfvfresh b (by simp)
    have hfr1 : ∀ s ∈ c.fv ++ a.fv, ∀ k, s.name ≠ fresh k := by
      intro s hs
      rcases List.mem_append.mp hs with h | h
      · exact fc s h
      · exact fa s h
    have hfr2 : ∀ s ∈ c.fv ++ b.fv, ∀ k, s.name ≠ fresh k := by
      intro s hs
      rcases List.mem_append.mp hs with h | h
      · exact fc s h
      · exact fb s h
    have hfr3 : ∀ s ∈ c.fv ++ a.fv ++ b.fv, ∀ k, s.name ≠ fresh k := by
      intro s hs
      rcases List.mem_append.mp hs with h | h
      · exact hfr1 s h
      · exact fb s h
    obtain ⟨i1, l1⟩ := rinv_implies hinj .none gc ga (Nat.le_refl n) (fun s hs => mem_l hs) (fun s hs => mem_r hs)
      (fun s hs => List.mem_append.mp hs) hfr1
    have gnc : RInv fresh n (Term.node .not [c] .none) (prenexNot rc) := rinv_not .none gc
    obtain ⟨i2, l2⟩ := rinv_implies hinj .none gnc gb l1
      (fun s hs => mem_l ((fv_not c .none s).mp hs)) (fun s hs => mem_r hs)
      (fun s hs => by
        rcases List.mem_append.mp hs with h | h
        · exact .inl ((fv_not c .none s).mpr h)
        · exact .inr h) hfr2
    have hfx : ∀ s ∈ (Term.node .implies [c, a] .none).fv, s ∈ c.fv ++ a.fv ++ b.fv := by
      intro s hs
      rcases (fv_binary (by decide) (by decide) rfl c a .none s).mp hs with h | h
      · exact mem_l (mem_l h)
      · exact mem_l (mem_r h)
    have hfy : ∀ s ∈ (Term.node .implies [Term.node .not [c] .none, b] .none).fv, s ∈ c.fv ++ a.fv ++ b.fv := by
      intro s hs
      rcases (fv_binary (by decide) (by decide) rfl _ b .none s).mp hs with h | h
      · exact mem_l (mem_l ((fv_not c .none s).mp h))
      · exact mem_r h
    obtain ⟨h4, _⟩ := pinv_and2 hinj (i1.mono l2) i2 (Nat.le_refl _) hfx hfy hfr3
    refine h4.toRInv (fun I _ => ?_) (fun s hs => ?_)
    · rw [truth_implies, truth_implies, truth_not, truth_ite]
      cases truth I c <;> cases truth I a <;> cases truth I b <;> rfl
    · refine (fv_ite c a b _ s).mpr ?_
      rcases List.mem_append.mp hs with h | h
      · rcases List.mem_append.mp h with h | h
        · exact .inl h
        · exact .inr (.inl h)
      · exact .inr (.inr h)
  · -- function
    simp only at hx
    split at hx
    · cases hx; exact rinv_atom hwb (quantInBoolPos_atom hq rfl)
    · cases hx
  · -- forall
    next _ b vs rb =>
    cases hx
    cases hrs with
    | cons h1 _ =>
    exact rinv_quant false (h1 ((wb_forall _ _).mp hwb) (hqc _ (by simp)) (hplc _ (by simp)) (havc _ (by simp)) _ rfl)
      (plainBinders_vars hpl) (fun v hv k _ => hav v (allSyms_qvars hv) k)
  · -- exists
    next _ b vs rb =>
    cases hx
    cases hrs with
    | cons h1 _ =>
    exact rinv_quant true (h1 ((wb_exists _ _).mp hwb) (hqc _ (by simp)) (hplc _ (by simp)) (havc _ (by simp)) _ rfl)
      (plainBinders_vars hpl) (fun v hv k _ => hav v (allSyms_qvars hv) k)
  all_goals first
    | (cases hx; exact rinv_atom hwb (quantInBoolPos_atom hq rfl))
    | (simp only at hx; split at hx <;> first | (cases hx; exact rinv_atom hwb (quantInBoolPos_atom hq rfl)) | cases hx)
    | cases hx

mutual
theorem prenexW_good (hinj : Inj fresh) : (t : Term) → ∀ n : Nat,
    GoodOpt fresh (prenexW fresh t n).2 t (prenexW fresh t n).1
  | .node op args p, n => by
    rw [prenexW]
    exact prenexNode_good hinj op args p _ _ (prenexL_good hinj args n)
theorem prenexL_good (hinj : Inj fresh) : (ts : List Term) → ∀ n : Nat,
    All2 (GoodOpt fresh (prenexL fresh ts n).2) ts (prenexL fresh ts n).1
  | [], _ => .nil
  | a :: as, n => by
    simp only [prenexL]
    exact .cons ((prenexW_good hinj a n).mono (prenexL_le as _)) (prenexL_good hinj as _)
end

/-- **`prenex_equiv`**: for every input whose quantifiers occur in Boolean positions, whose binders bind
plain symbols, and every supply of pairwise different names none of which occurs in the input, the prenex
normal form has the value of the input under every interpretation -/
theorem prenex_equiv_main (hinj : Inj fresh) (t r : Term) (hwf : t.wf = true) (hty : t.typeOf = some .bool)
    (hq : quantInBoolPos t = true) (hpl : plainBinders t = true) (hav : Avoids fresh t)
    (h : prenex fresh t = some r) (I : Interp) (hI : I.WF) : eval I r = eval I t := by
  have hwb : WB t := ⟨hwf, hty⟩
  unfold prenex at h
  cases hw : (prenexW fresh t 0).1 with
  | none => rw [hw] at h; cases h
  | some x =>
    rw [hw] at h
    simp only [Option.map_some, Option.some.injEq] at h
    subst h
    have hg := (prenexW_good hinj t 0 hwb hq hpl hav x hw).good
    have hws := wrap_sem x.1 x.2 hg.wb
    rw [hws.1.isB hI, hws.2 I hI, hg.sem I hI, hwb.isB hI]

end

end PySMT.Rewritings
