import PySMT.Proofs.C07Quote
/-!
# C07: the literals the printers write are read back as the constants they stand for
-/
namespace PySMT.Printer
open PySMT.Sexp

def dch (d : Nat) : Char := Char.ofNat (48 + d)

theorem dch_props : ∀ d, d < 10 → isDigit (dch d) = true ∧ digitVal (dch d) = d ∧ ((dch d == '0') = true ↔ d = 0)
    ∧ (dch d == '.') = false := by
  decide

theorem natOfDigits_append (l : List Char) (c : Char) : natOfDigits (l ++ [c]) = natOfDigits l * 10 + digitVal c := by
  simp [natOfDigits, List.foldl_append]

/-- a non-empty list of digits that does not start with `0`, or is exactly `0` -/
def properNum (l : List Char) (n : Nat) : Prop :=
  l.all isDigit = true ∧ natOfDigits l = n ∧ ((n = 0 ∧ l = ['0']) ∨ (0 < n ∧ ∃ c cs, l = c :: cs ∧ (c == '0') = false))

theorem decDigits_proper : ∀ (fuel n : Nat), n < fuel → properNum (decDigits fuel n) n
  | 0, n, h => absurd h (Nat.not_lt_zero _)
  | fuel + 1, n, h => by
    unfold decDigits
    by_cases h10 : n < 10
    · simp only [h10, if_true]
      obtain ⟨hd, hv, hz, _⟩ := dch_props n h10
      refine ⟨by simpa [dch] using hd, by simpa [natOfDigits, dch] using hv, ?_⟩
      by_cases h0 : n = 0
      · subst h0; left; exact ⟨rfl, rfl⟩
      · right
        refine ⟨Nat.pos_of_ne_zero h0, _, _, rfl, ?_⟩
        have : ¬ (dch n == '0') = true := fun h => h0 (hz.1 h)
        simpa [dch] using this
    · simp only [h10, if_false]
      have hlt : n / 10 < fuel := by omega
      obtain ⟨ha, hv, hs⟩ := decDigits_proper fuel (n / 10) hlt
      obtain ⟨hd, hdv, _, _⟩ := dch_props (n % 10) (Nat.mod_lt _ (by decide))
      have hq : 0 < n / 10 := by omega
      refine ⟨?_, ?_, Or.inr ⟨by omega, ?_⟩⟩
      · rw [List.all_append, ha]; simpa [dch] using hd
      · rw [natOfDigits_append, hv]
        have : digitVal (Char.ofNat (48 + n % 10)) = n % 10 := hdv
        rw [this]; omega
      · rcases hs with ⟨h0, _⟩ | ⟨_, c, cs, hl, hc⟩
        · omega
        · exact ⟨c, cs ++ [Char.ofNat (48 + n % 10)], by rw [hl]; rfl, hc⟩
termination_by fuel _ _ => fuel

theorem natChars_proper (n : Nat) : properNum (natChars n) n := decDigits_proper (n + 1) n (Nat.lt_succ_self n)

theorem isNumeralChars_of_proper {l : List Char} {n : Nat} (h : properNum l n) : isNumeralChars l = true := by
  obtain ⟨ha, _, hs⟩ := h
  rcases hs with ⟨_, rfl⟩ | ⟨_, c, cs, rfl, hc⟩
  · rfl
  · simp only [List.all_cons, Bool.and_eq_true] at ha
    unfold isNumeralChars
    split
    · next heq => cases heq
    · rfl
    · next c' cs' _ heq =>
      simp only [List.cons.injEq] at heq
      obtain ⟨rfl, rfl⟩ := heq
      have hc' : c ≠ '0' := by simpa using hc
      simp [ha.1, ha.2, hc']

theorem numeral?_natStr (n : Nat) : numeral? (natStr n) = some n := by
  have h := natChars_proper n
  simp [numeral?, natStr, String.toList_ofList, isNumeralChars_of_proper h, h.2.1]

theorem no_dot_of_digits : ∀ (l : List Char), l.all isDigit = true → ∀ (rest : List Char),
    splitDot (l ++ '.' :: rest) = (l, some rest)
  | [], _, rest => by simp [splitDot]
  | c :: l, h, rest => by
    simp only [List.all_cons, Bool.and_eq_true] at h
    have hc : (c == '.') = false := by
      have := h.1
      simp only [isDigit, Bool.and_eq_true, decide_eq_true_eq] at this
      apply beq_eq_false_iff_ne.2
      intro hcd; subst hcd
      revert this; decide
    simp [splitDot, hc, no_dot_of_digits l h.2 rest]

theorem not_numeral_with_dot (l rest : List Char) : isNumeralChars (l ++ '.' :: rest) = false := by
  cases hn : isNumeralChars (l ++ '.' :: rest) with
  | false => rfl
  | true =>
    have := (numeral_digits hn).2
    rw [List.all_append] at this
    simp only [List.all_cons, Bool.and_eq_true] at this
    have h := this.2.1
    revert h; decide

/-- `str(n) + ".0"` is the decimal that denotes `n` -/
theorem decimal_read (n : Nat) :
    numeral? (String.ofList (natChars n ++ ['.', '0'])) = none ∧
    decimal? (String.ofList (natChars n ++ ['.', '0'])) = some (n : Rat) := by
  have h := natChars_proper n
  have hsd := no_dot_of_digits _ h.1 ['0']
  refine ⟨by simp [numeral?, String.toList_ofList, not_numeral_with_dot], ?_⟩
  have hdec : isDecimalChars (natChars n ++ ['.', '0']) = true := by
    simp [isDecimalChars, hsd, isNumeralChars_of_proper h]
    decide
  simp only [decimal?, String.toList_ofList, hdec, if_true, hsd]
  have hv : natOfDigits (natChars n ++ ['0']) = n * 10 := by
    rw [natOfDigits_append, h.2.1]; rfl
  simp only [hv, List.length_cons, List.length_nil, Option.some.injEq]
  have := Rat.mkRat_mul_right (n := (n : Int)) (d := 1) (a := 10) (by decide)
  simp only [Nat.one_mul] at this
  rw [show ((n * 10 : Nat) : Int) = (n : Int) * ((10 : Nat) : Int) by simp, show (10 : Nat) ^ (0 + 1) = 10 by rfl, this,
    Rat.mkRat_one]
  rfl

/-! ## bit-vector literals -/

def binVal (ds : List Char) : Nat := ds.foldl (fun acc c => acc * 2 + digitVal c) 0

theorem binVal_append (l : List Char) (c : Char) : binVal (l ++ [c]) = binVal l * 2 + digitVal c := by
  simp [binVal, List.foldl_append]

theorem binDigits_props : ∀ (w v : Nat),
    (binDigits w v).length = w ∧ (binDigits w v).all isBinDigit = true ∧ binVal (binDigits w v) = v % 2 ^ w
  | 0, v => by simp [binDigits, binVal, Nat.mod_one]
  | w + 1, v => by
    obtain ⟨hl, ha, hv⟩ := binDigits_props w (v / 2)
    unfold binDigits
    refine ⟨by simp [hl], ?_, ?_⟩
    · rw [List.all_append, ha]
      by_cases h : v % 2 = 1 <;> simp [h, isBinDigit]
    · rw [binVal_append, hv, Nat.pow_succ, Nat.mul_comm (2 ^ w) 2, Nat.mod_mul]
      by_cases h : v % 2 = 1
      · simp only [h, beq_self_eq_true, if_true]
        have : digitVal '1' = 1 := by decide
        rw [this]; omega
      · have h0 : v % 2 = 0 := by omega
        simp only [h0]
        have : digitVal '0' = 0 := by decide
        simp only [Nat.zero_ne_one, beq_iff_eq, if_false, this]
        omega

theorem splitDot_none : ∀ (l : List Char), '.' ∉ l → splitDot l = (l, none)
  | [], _ => rfl
  | c :: l, h => by
    simp only [List.mem_cons, not_or] at h
    have hc : (c == '.') = false := by
      apply beq_eq_false_iff_ne.2
      exact fun e => h.1 e.symm
    simp [splitDot, hc, splitDot_none l h.2]

theorem no_dot_bin {l : List Char} (h : l.all isBinDigit = true) : '.' ∉ l := by
  intro hm
  rw [List.all_eq_true] at h
  have := h _ hm
  revert this; decide

/-- `#b` followed by the `w` binary digits of `v` is the bit-vector literal of value `v` and width `w` -/
theorem binary_read (v w : Nat) (hw : 0 < w) (hv : v < 2 ^ w) :
    let tok := String.ofList ('#' :: 'b' :: binDigits w v)
    numeral? tok = none ∧ decimal? tok = none ∧ binary? tok = some (v, w) := by
  obtain ⟨hl, ha, hval⟩ := binDigits_props w v
  have hne : (binDigits w v).isEmpty = false := by
    cases hb : binDigits w v with
    | nil => rw [hb] at hl; simp at hl; omega
    | cons _ _ => rfl
  have hbin : isBinaryChars ('#' :: 'b' :: binDigits w v) = true := by simp [isBinaryChars, hne, ha]
  refine ⟨?_, ?_, ?_⟩
  · have : isNumeralChars ('#' :: 'b' :: binDigits w v) = false := by
      unfold isNumeralChars
      split
      · rfl
      · next heq => cases heq
      · next c cs _ heq =>
        simp only [List.cons.injEq] at heq
        obtain ⟨rfl, _⟩ := heq
        rfl
    simp [numeral?, String.toList_ofList, this]
  · have hnd : '.' ∉ '#' :: 'b' :: binDigits w v := by
      simp only [List.mem_cons, not_or]
      exact ⟨by decide, by decide, no_dot_bin ha⟩
    simp [decimal?, String.toList_ofList, isDecimalChars, splitDot_none _ hnd]
  · simp only [binary?, String.toList_ofList, hbin, if_true, List.drop_succ_cons, List.drop_zero, Option.some.injEq,
      Prod.mk.injEq]
    exact ⟨by rw [show List.foldl (fun acc c => acc * 2 + digitVal c) 0 (binDigits w v) = binVal (binDigits w v) from rfl,
      hval, Nat.mod_eq_of_lt hv], hl⟩

end PySMT.Printer
