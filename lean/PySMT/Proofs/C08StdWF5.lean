import PySMT.Proofs.C08StdWF4
/-!
# C08/C09: the standard reader only produces terms pySMT's checker accepts (5) — `let`, quantifiers, the induction

`rd_wf`: on the fragment `FragS env ρ` (no `define-fun`s in the environment), in a scope whose entries are well-formed,
every term the standard reader `Std.rd` elaborates is well-formed (`Term.wf`) and pySMT's checker gives it the reader's
sort. `readStd_wf`: the same for `readStd` at top level.
-/
namespace PySMT.Parser.Agree
open PySMT PySMT.Parser PySMT.Std PySMT.Sexp

def WFAt (env : SEnv) (s : Sexp) : Prop :=
  ∀ (sc : List Binding), ScopeWF sc → RotOK env sc s = true → ∀ u τ, rd env sc s = .ok (u, τ) → WT u τ

def WFListAt (env : SEnv) (l : List Sexp) : Prop :=
  ∀ (sc : List Binding), ScopeWF sc → RotOKL env sc l = true → ∀ as, rdList env sc l = .ok as → ∀ a ∈ as, WT a.1 a.2

def WFBindsAt (env : SEnv) (bs : List Sexp) : Prop :=
  ∀ (sc : List Binding), ScopeWF sc → rotBinds env sc bs = true → ∀ new, rdBindings env sc bs = .ok new → ScopeWF new

/-! ## argument lists -/

theorem wfL_nil (env : SEnv) : WFListAt env [] := by
  intro sc _ _ as h
  simp only [rdList, Except.ok.injEq] at h
  subst h
  simp

theorem wfL_cons (env : SEnv) (s : Sexp) (r : List Sexp) (h1 : WFAt env s) (h2 : WFListAt env r) :
    WFListAt env (s :: r) := by
  intro sc hsc hro as h
  rw [RotOKL_cons, Bool.and_eq_true] at hro
  simp only [rdList] at h
  cases hs : rd env sc s with
  | error e => simp [hs] at h
  | ok t =>
    cases hr : rdList env sc r with
    | error e => simp [hs, hr] at h
    | ok ts =>
      simp only [hs, hr, Except.ok.injEq] at h
      subst h
      obtain ⟨u, τ⟩ := t
      intro a ha
      simp only [List.mem_cons] at ha
      rcases ha with rfl | ha
      · exact h1 sc hsc hro.1 u τ hs
      · exact h2 sc hsc hro.2 ts hr a ha

/-! ## applications -/

theorem wf_app (env : SEnv) (f : String) (args : List Sexp) (hf : f ∈ fragOps)
    (har : arityOK f args.length = true) (hmin : minusOK f args = true) (hL : WFListAt env args) :
    WFAt env (.list (.atom f :: args)) := by
  intro sc hsc hro u τ h
  have hfacts := fragOps_facts f hf
  obtain ⟨_, _, _, e1, e2, e3, _⟩ := opTok_unpack hfacts
  rw [RotOK_app env sc f args e1 (by simp [e2, e3])] at hro
  obtain ⟨as, hl, _, hap⟩ := rd_app_inv env sc f hfacts args u τ h
  have hargs := hL sc hsc hro as hl
  have hlen := rdList_length hl
  have hminus : f = "-" → ∀ a, as = [a] → (isNumConst a.1).isSome = true := by
    intro hfm a haa
    subst hfm; subst haa
    match args, hlen, hmin, hl with
    | [x], _, hmin, hl =>
      have hx : minusArgOK x = true := by simpa [minusOK] using hmin
      exact minusArg_const env sc x hx a.1 a.2 (rdList_one hl)
  exact applyTheory_wf f hf as (by rw [hlen]; exact har) hminus hargs u τ hap

theorem wf_user (env : SEnv) (hnd : env.defs = []) (hd : String) (args : List Sexp) (hu : userHead hd = true)
    (hL : WFListAt env args) : WFAt env (.list (.atom hd :: args)) := by
  intro sc hsc hro u τ h
  unfold userHead at hu
  cases hsn : symName? hd with
  | none => simp [hsn] at hu
  | some n =>
    simp only [hsn, Bool.not_eq_true'] at hu
    obtain ⟨e1, e2, e3, _⟩ := sym_not_special hsn
    rw [RotOK_app env sc hd args e1 (by simp [e2, e3])] at hro
    obtain ⟨as, hl, hne, _, hap⟩ := rd_user_inv env sc hd n hsn hu args u τ h
    exact applyUser_wf env hnd n as u τ hne (hL sc hsc hro as hl) hap

theorem wf_headapp (env : SEnv) (hd args : List Sexp) (hf : fragHead hd = true) (hL : WFListAt env args) :
    WFAt env (.list (.list hd :: args)) := by
  intro sc hsc hro u τ h
  rw [RotOK_head, Bool.and_eq_true] at hro
  obtain ⟨as, hl, hap⟩ := rd_head_inv env sc hd args u τ h
  exact applyHead_wf env hd hf as u τ (hL sc hsc hro.2 as hl) (rot_of_headOK env sc hd args as hro.1 hl u τ hap) hap

/-! ## `let` -/

theorem wfB_nil (env : SEnv) : WFBindsAt env [] := by
  intro sc _ _ new h
  simp only [rdBindings, Except.ok.injEq] at h
  subst h
  trivial

theorem wfB_cons (env : SEnv) (x : String) (e : Sexp) (rest : List Sexp) (hE : WFAt env e) (hR : WFBindsAt env rest) :
    WFBindsAt env (.list [.atom x, e] :: rest) := by
  intro sc hsc hro new h
  rw [rotBinds_cons, Bool.and_eq_true] at hro
  simp only [rdBindings] at h
  cases hsn : symName? x with
  | none => simp [hsn] at h
  | some n =>
    simp only [hsn] at h
    split at h
    · cases h
    · cases he : rd env sc e with
      | error err => simp [he] at h
      | ok r =>
        obtain ⟨t, ty⟩ := r
        cases hrb : rdBindings env sc rest with
        | error err => simp [he, hrb] at h
        | ok bs' =>
          simp only [he, hrb, Except.ok.injEq] at h
          subst h
          simp only [ScopeWF]
          exact ⟨hE sc hsc hro.1 t ty he, hR sc hsc hro.2 bs' hrb⟩

theorem wf_let (env : SEnv) (bs : List Sexp) (body : Sexp) (hBs : WFBindsAt env bs) (hB : WFAt env body) :
    WFAt env (.list [.atom "let", .list bs, body]) := by
  intro sc hsc hro u τ h
  rw [RotOK_let, rotLet_eq, Bool.and_eq_true] at hro
  rw [rd_let, rdLet] at h
  cases hrb : rdBindings env sc bs with
  | error e => simp [hrb] at h
  | ok new =>
    simp only [hrb] at h
    split at h
    · cases h
    · split at h
      · cases h
      · have hro2 := hro.2
        simp only [hrb] at hro2
        exact hB (new ++ sc) (scopeWF_append new sc (hBs sc hsc hro.1 new hrb) hsc) hro2 u τ h

/-! ## quantifiers -/

theorem sortedVars_params (env : SEnv) : ∀ (vs : List Sexp) (syms : List Sym), rdSortedVars env vs = .ok syms →
    ∀ s ∈ syms, s.params = []
  | [], syms, h => by
    simp only [rdSortedVars, Except.ok.injEq] at h
    subst h
    simp
  | v :: rest, syms, h => by
    unfold rdSortedVars at h
    split at h
    · rename_i heq; cases heq
    · rename_i x sort rest' heq
      simp only [List.cons.injEq] at heq
      obtain ⟨rfl, rfl⟩ := heq
      split at h
      · cases h
      · split at h
        · cases h
        · cases hs : sortStd env sort with
          | error err => simp [hs] at h
          | ok ty =>
            cases hr : rdSortedVars env rest with
            | error err => simp [hs, hr] at h
            | ok vs' =>
              simp only [hs, hr, Except.ok.injEq] at h
              subst h
              intro s hs'
              simp only [List.mem_cons] at hs'
              rcases hs' with rfl | hs'
              · rfl
              · exact sortedVars_params env rest vs' hr s hs'
    · cases h

theorem wf_quant (env : SEnv) (q : String) (hq : q = "forall" ∨ q = "exists") (vs : List Sexp) (body : Sexp)
    (hB : WFAt env body) : WFAt env (.list [.atom q, .list vs, body]) := by
  intro sc hsc hro u τ h
  rw [RotOK_quant env sc q hq, rotQuant_eq] at hro
  rw [rd_quant env sc q hq, rdQuant] at h
  cases hsv : rdSortedVars env vs with
  | error e => simp [hsv] at h
  | ok syms =>
    simp only [hsv] at h
    split at h
    · cases h
    · split at h
      · cases h
      · cases hb : rd env (syms.reverse.map Binding.var ++ sc) body with
        | error e => simp only [hb] at h; cases h
        | ok r =>
          obtain ⟨b, ty⟩ := r
          simp only [hb] at h
          split at h
          · rename_i hty
            have hty' : ty = .bool := by simpa using hty
            subst hty'
            simp only [Except.ok.injEq, Prod.mk.injEq] at h
            obtain ⟨rfl, rfl⟩ := h
            have hp := sortedVars_params env vs syms hsv
            have hsc' : ScopeWF (syms.reverse.map Binding.var ++ sc) :=
              scopeWF_append _ sc (scopeWF_vars _ (fun s hs => hp s (by simpa using hs))) hsc
            simp only [hsv] at hro
            have hbody := hB _ hsc' hro b .bool hb
            have hop : (if (q == "forall") = true then Op.forall_ else Op.exists_) = .forall_ ∨
                (if (q == "forall") = true then Op.forall_ else Op.exists_) = .exists_ := by
              split
              · exact Or.inl rfl
              · exact Or.inr rfl
            generalize (if (q == "forall") = true then Op.forall_ else Op.exists_) = op at hop ⊢
            refine wt_node (fun a ha => ?_) (by rcases hop with rfl | rfl <;> rfl) ?_
            · simp only [List.mem_cons, List.mem_nil_iff, or_false] at ha; subst ha; exact hbody.1
            · simp only [List.map_cons, List.map_nil, hbody.2]
              rcases hop with rfl | rfl <;> rfl
          · cases h

/-! ## the induction -/

mutual
theorem rd_wfAt (env : SEnv) (ρ : List (String × Sym)) (hnd : env.defs = []) :
    (s : Sexp) → FragS env ρ s = true → WFAt env s
  | .atom tok, _ => fun sc hsc _ u τ h => atom_wf env hnd sc hsc tok u τ h
  | .str lit, _ => fun sc _ _ u τ h => str_wf env sc lit u τ h
  | .list [], hf => by rw [FragS] at hf; cases hf
  | .list (.str _ :: _), hf => by rw [FragS] at hf; cases hf
  | .list (.list hd :: args), hf => by
    rw [FragS] at hf
    simp only [Bool.and_eq_true] at hf
    exact wf_headapp env hd args hf.1 (rd_wfL env ρ hnd args hf.2)
  | .list (.atom hd :: args), hf => by
    rw [FragS] at hf
    by_cases h1 : hd = "let"
    · subst h1
      simp only [beq_self_eq_true, if_true] at hf
      obtain ⟨bs, body, hargs, hb, hbody⟩ := fragLet_inv hf
      have := wf_let env bs body (rd_wfBs env ρ hnd bs hb) (rd_wfAt env ρ hnd body hbody)
      rw [hargs]; exact this
    · have e1 : (hd == "let") = false := by simpa using h1
      simp only [e1, Bool.false_eq_true, if_false] at hf
      by_cases h2 : hd = "forall" ∨ hd = "exists"
      · have e2 : (hd == "forall" || hd == "exists") = true := by
          rcases h2 with rfl | rfl <;> decide
        simp only [e2, if_true] at hf
        obtain ⟨vs, body, hargs, _, hbody⟩ := fragQuant_inv hf
        have := wf_quant env hd h2 vs body (rd_wfAt env ρ hnd body hbody)
        rw [hargs]; exact this
      · have e2 : (hd == "forall" || hd == "exists") = false := by
          simp only [not_or] at h2
          simp [h2.1, h2.2]
        simp only [e2, Bool.false_eq_true, if_false] at hf
        by_cases h3 : hd = "_"
        · subst h3
          intro sc _ _ u τ h
          exact bvlit_wf env sc args u τ h
        · have e3 : (hd == "_") = false := by simpa using h3
          simp only [e3, Bool.false_eq_true, if_false] at hf
          by_cases h4 : fragOps.contains hd = true
          · simp only [h4, if_true, Bool.and_eq_true] at hf
            exact wf_app env hd args (by simpa using h4) hf.1.1 hf.1.2 (rd_wfL env ρ hnd args hf.2)
          · simp only [h4, Bool.false_eq_true, if_false, Bool.and_eq_true] at hf
            exact wf_user env hnd hd args hf.1 (rd_wfL env ρ hnd args hf.2)
termination_by s => sizeOf s
decreasing_by
  all_goals (try subst_vars)
  all_goals simp_wf
  all_goals omega
theorem rd_wfL (env : SEnv) (ρ : List (String × Sym)) (hnd : env.defs = []) :
    (l : List Sexp) → FragL env ρ l = true → WFListAt env l
  | [], _ => wfL_nil env
  | s :: r, hf =>
    wfL_cons env s r (rd_wfAt env ρ hnd s (FragL_cons hf).1) (rd_wfL env ρ hnd r (FragL_cons hf).2)
termination_by l => sizeOf l
decreasing_by
  all_goals (try subst_vars)
  all_goals simp_wf
  all_goals omega
theorem rd_wfBs (env : SEnv) (ρ : List (String × Sym)) (hnd : env.defs = []) :
    (bs : List Sexp) → fragBinds env ρ bs = true → WFBindsAt env bs
  | [], _ => wfB_nil env
  | b :: rest, hf => by
    obtain ⟨x, e, hbe, _, he⟩ := fragBind_inv (fragBinds_cons hf).1
    have := wfB_cons env x e rest (rd_wfAt env ρ hnd e he) (rd_wfBs env ρ hnd rest (fragBinds_cons hf).2)
    rw [hbe]; exact this
termination_by bs => sizeOf bs
decreasing_by
  all_goals (try subst_vars)
  all_goals simp_wf
  all_goals omega
end

/-- On the fragment, in a well-formed scope, the standard reader only produces terms that pySMT's checker accepts, with
the reader's sort. -/
theorem rd_wf (env : SEnv) (ρ : List (String × Sym)) (hnd : env.defs = []) :
    ∀ (s : Sexp), FragS env ρ s = true → ∀ (sc : List Binding), ScopeWF sc → RotOK env sc s = true →
      ∀ u τ, rd env sc s = .ok (u, τ) → WT u τ :=
  fun s hf => rd_wfAt env ρ hnd s hf

theorem readStd_wf (env : SEnv) (ρ : List (String × Sym)) (hnd : env.defs = []) (s : Sexp) (hf : FragS env ρ s = true)
    (hro : RotOK env [] s = true) (u : Term) (h : readStd env [] s = .ok u) : u.wf = true ∧ ∃ τ, u.typeOf = some τ := by
  unfold readStd readStdTy at h
  simp only [List.reverse_nil, List.map_nil] at h
  cases hr : rd env [] s with
  | error e => simp [hr, Except.map] at h
  | ok r =>
    obtain ⟨t, τ⟩ := r
    simp only [hr, Except.map, Except.ok.injEq] at h
    subst h
    have := rd_wf env ρ hnd s hf [] trivial hro t τ hr
    exact ⟨this.1, τ, this.2⟩

end PySMT.Parser.Agree
