import PySMT.Impl.Simplifier
import PySMT.Proofs.SimpBasic
/-!
# The assembling induction, generic in the rule table

For every table `tbl : Op → Option Entry` whose entries are locally correct (`RuleOK`), the
bottom-up application `simpWith tbl` preserves type, well-formedness, value (under the
division-by-zero proviso) and does not invent free symbols, on every well-formed term of the
table's fragment. Adding a rule family = adding `RuleOK` instances; nothing here changes.
-/
namespace PySMT.Simplifier
open PySMT PySMT.Simp

section
variable (tbl : Op → Option Entry) (hok : ∀ op e, tbl op = some e → RuleOK op e)

theorem inFragWith_node {tbl : Op → Option Entry} {op args p} (h : inFragWith tbl (.node op args p) = true) :
    (∃ e, tbl op = some e ∧ e.guard p (args.map Term.typeOf) = true) ∧ ∀ a ∈ args, inFragWith tbl a = true := by
  simp only [inFragWith, Bool.and_eq_true, List.all_eq_true, List.mem_map, id] at h
  refine ⟨?_, fun a ha => h.2 _ ⟨a, ha, rfl⟩⟩
  cases he : tbl op with
  | none => simp [he] at h
  | some e => exact ⟨e, rfl, by simpa [he] using h.1⟩

include hok in
/-- all four components at once (they are proved together: soundness of a node needs the type
preservation of its arguments) -/
theorem simpWith_spec : (t : Term) → t.wf = true → inFragWith tbl t = true →
    ∀ τ, t.typeOf = some τ →
      ((simpWith tbl t).typeOf = some τ ∧ (simpWith tbl t).wf = true) ∧
      (∀ I : Interp, I.WF → div0 I t = false →
        eval I (simpWith tbl t) = eval I t ∧ div0 I (simpWith tbl t) = false) ∧
      (∀ s ∈ (simpWith tbl t).fv, s ∈ t.fv)
  | .node op args p => fun hwf hfrag τ hty => by
    obtain ⟨⟨e, he, hg⟩, hfa⟩ := inFragWith_node hfrag
    have hR := hok op e he
    have ih : ∀ a ∈ args, ∀ σ, a.typeOf = some σ →
        ((simpWith tbl a).typeOf = some σ ∧ (simpWith tbl a).wf = true) ∧
        (∀ I : Interp, I.WF → div0 I a = false →
          eval I (simpWith tbl a) = eval I a ∧ div0 I (simpWith tbl a) = false) ∧
        (∀ s ∈ (simpWith tbl a).fv, s ∈ a.fv) :=
      fun a ha σ hσ => simpWith_spec a (wf_args hwf a ha) (hfa a ha) σ hσ
    have ih' : ∀ a ∈ args, ((simpWith tbl a).typeOf = a.typeOf ∧ (simpWith tbl a).wf = true) ∧
        (∀ I : Interp, I.WF → div0 I a = false →
          eval I (simpWith tbl a) = eval I a ∧ div0 I (simpWith tbl a) = false) ∧
        (∀ s ∈ (simpWith tbl a).fv, s ∈ a.fv) := by
      intro a ha
      obtain ⟨σ, hσ⟩ := wf_typeOf a (wf_args hwf a ha)
      have := ih a ha σ hσ
      rw [hσ]; exact this
    -- the node with simplified arguments
    have htys : (args.map (simpWith tbl)).map Term.typeOf = args.map Term.typeOf := by
      rw [List.map_map]
      exact List.map_congr_left (fun a ha => (ih' a ha).1.1)
    have hty' : (Term.node op (args.map (simpWith tbl)) p).typeOf = some τ := by
      rw [typeOf_node, htys, ← typeOf_node]; exact hty
    have hwf' : (Term.node op (args.map (simpWith tbl)) p).wf = true := by
      refine wf_mk' ?_ ?_ hty'
      · intro a' ha'
        obtain ⟨a, ha, rfl⟩ := List.mem_map.mp ha'
        exact (ih' a ha).1.2
      · rw [List.length_map]; exact wf_shape hwf
    have hg' : e.guard p ((args.map (simpWith tbl)).map Term.typeOf) = true := by rw [htys]; exact hg
    have hsimp : simpWith tbl (.node op args p) = e.rule p (args.map (simpWith tbl)) := by
      rw [simpWith, he]
    rw [hsimp]
    refine ⟨hR.type p _ τ hwf' hty' hg', ?_, ?_⟩
    · intro I hI hd
      have hc := node_congr op args p (simpWith tbl) hwf (fun a ha => (ih' a ha).2.1) I hI hd
      have hs := hR.sound p _ τ hwf' hty' hg' I hI hc.2
      exact ⟨hs.1.trans hc.1, hs.2⟩
    · intro s hs
      exact fv_node_mono op args p (simpWith tbl) (fun a ha => (ih' a ha).2.2) s
        (hR.fv p _ τ hwf' hty' hg' s hs)

end
end PySMT.Simplifier
