import PySMT.Proofs.C09Hyp
import PySMT.Proofs.C07ReadMain
import PySMT.Proofs.C07Sound
/-!
# C09: a term in the manager's normal form stays normal when its array values are unfolded into store chains

`mgrNormal_unfold`: for `Printable` `t`, `mgrNormal t → mgrNormal (unfoldAVw b t)`; hence `mkNorm (unfoldAV t) = unfoldAV t`.
-/
namespace PySMT.Parser.Agree
open PySMT PySMT.Parser PySMT.Std PySMT.Sexp PySMT.Printer

/-- operator, payload and number of arguments of the root -/
def hd (t : Term) : Op × Payload × Nat := (t.op, t.payload, t.args.length)

theorem hd_node (op : Op) (args : List Term) (p : Payload) : hd (.node op args p) = (op, p, args.length) := rfl

/-- the root of a store chain -/
theorem chain_op (ents : List ((Term × Term) × (Term × Term))) : ∀ (base : Term),
    (base.op = .arrayValue ∨ base.op = .arrayStore) →
    ((ents.foldl (fun acc e => Term.node .arrayStore [acc, e.2.1, e.2.2] .none) base).op = .arrayValue ∨
     (ents.foldl (fun acc e => Term.node .arrayStore [acc, e.2.1, e.2.2] .none) base).op = .arrayStore) := by
  induction ents with
  | nil => intro base h; exact h
  | cons e rest ih => intro base _; exact ih _ (Or.inr rfl)

/-- unfolding keeps the root, except that an array value becomes an array value or a store -/
theorem unfold_hd (b : Bool) (a : Term) :
    hd (unfoldAVw b a) = hd a ∨ (a.op = .arrayValue ∧ ((unfoldAVw b a).op = .arrayValue ∨ (unfoldAVw b a).op = .arrayStore)) := by
  match a with
  | .node op args p =>
    by_cases hop : op = .arrayValue
    · subst hop
      right
      refine ⟨rfl, ?_⟩
      unfold unfoldAVw
      dsimp only
      split
      · exact chain_op _ _ (Or.inl rfl)
      · exact Or.inl rfl
    · left
      rw [unfoldAV_plain b op args p hop, hd_node, hd_node, List.length_map]

/-- the three root tests of `rootNorm` depend on the root only -/
theorem notNorm_id_iff (a : Term) : notNorm a = .node .not [a] .none ↔ ¬ (a.op = .not ∧ a.args.length = 1) := by
  match a with
  | .node op args p =>
    constructor
    · intro h ⟨h1, h2⟩
      simp only [Term.op] at h1
      simp only [Term.args] at h2
      subst h1
      match args, h2 with
      | [x], _ =>
        simp only [notNorm] at h
        have := congrArg Term.size h
        simp only [size_node, List.map_cons, List.map_nil, List.sum_cons, List.sum_nil] at this
        omega
    · intro h
      unfold notNorm
      split
      · rename_i x p' heq
        cases heq
        exact absurd ⟨rfl, rfl⟩ h
      · rfl

theorem toRealNorm_id_iff (a : Term) :
    toRealNorm a = .node .toReal [a] .none ↔ ¬ (∃ n, a.op = .intConst ∧ a.args.length = 0 ∧ a.payload = .i n) := by
  match a with
  | .node op args p =>
    constructor
    · intro h ⟨n, h1, h2, h3⟩
      simp only [Term.op] at h1
      simp only [Term.args, List.length_eq_zero_iff] at h2
      simp only [Term.payload] at h3
      subst h1; subst h2; subst h3
      simp [toRealNorm, Term.real] at h
    · intro h
      unfold toRealNorm
      split
      · rename_i n heq
        cases heq
        exact absurd ⟨n, rfl, rfl, rfl⟩ h
      · rfl

theorem term_of_hd {a a' : Term} (h : hd a' = hd a) (h0 : a.args.length = 0) : a' = a := by
  match a, a', h, h0 with
  | .node op args p, .node op' args' p', h, h0 =>
    simp only [hd_node, Prod.mk.injEq] at h
    obtain ⟨rfl, rfl, hl⟩ := h
    simp only [Term.args, List.length_eq_zero_iff] at h0
    subst h0
    simp only [List.length_nil, List.length_eq_zero_iff] at hl
    subst hl
    rfl

theorem isConstant_hd {a a' : Term} (h : hd a' = hd a) : Mk.isConstant a' = Mk.isConstant a := by
  match a, a', h with
  | .node op args p, .node op' args' p', h =>
    simp only [hd_node, Prod.mk.injEq] at h
    simp [Mk.isConstant, h.1]

theorem constNum_hd {a a' : Term} (h : hd a' = hd a) : constNum a' = constNum a := by
  match a, a', h with
  | .node op args p, .node op' args' p', h =>
    simp only [hd_node, Prod.mk.injEq] at h
    obtain ⟨rfl, rfl, _⟩ := h
    cases op' <;> cases p' <;> rfl

theorem realc_hd {a a' : Term} (h : hd a' = hd a) (c : Rat) :
    a' = .node .realConst [] (.q c) ↔ a = .node .realConst [] (.q c) := by
  constructor
  · intro e
    subst e
    exact (term_of_hd h.symm rfl).symm ▸ rfl
  · intro e
    subst e
    exact term_of_hd h rfl

theorem mkDivNorm_hd {a b a' b' : Term} (hb : hd b' = hd b)
    (h : mkDivNorm a b = .node .div [a, b] .none) : mkDivNorm a' b' = .node .div [a', b'] .none := by
  by_cases hc : ∃ c, b' = .node .realConst [] (.q c)
  · obtain ⟨c, rfl⟩ := hc
    have hbe : b = .node .realConst [] (.q c) := (realc_hd hb c).mp rfl
    subst hbe
    by_cases h0 : c = 0
    · simp [mkDivNorm, h0]
    · simp [mkDivNorm, h0] at h
  · unfold mkDivNorm
    split
    · rename_i c; exact absurd ⟨c, rfl⟩ hc
    · rfl

theorem divNorm_hd {a b a' b' : Term} (ha : hd a' = hd a) (hb : hd b' = hd b)
    (h : divNorm a b = .node .div [a, b] .none) : divNorm a' b' = .node .div [a', b'] .none := by
  unfold divNorm at h ⊢
  rw [isConstant_hd ha, isConstant_hd hb, constNum_hd ha, constNum_hd hb]
  by_cases hc : (Mk.isConstant a && Mk.isConstant b) = true
  · simp only [hc, if_true] at h ⊢
    cases hx : constNum a with
    | none => simp only [hx] at h ⊢; exact mkDivNorm_hd hb h
    | some x =>
      cases hy : constNum b with
      | none => simp only [hx, hy] at h ⊢; exact mkDivNorm_hd hb h
      | some y =>
        simp only [hx, hy] at h ⊢
        by_cases hy0 : y ≠ 0
        · simp only [hy0, ne_eq, not_false_eq_true, if_true] at h
          simp [Term.real] at h
        · simp only [hy0, if_false] at h ⊢
          exact mkDivNorm_hd hb h
  · have hc' : (Mk.isConstant a && Mk.isConstant b) = false := by simpa using hc
    simp only [hc', Bool.false_eq_true, if_false] at h ⊢
    exact mkDivNorm_hd hb h

theorem printable_typeOf {env : SEnv} {scope : List Sym} : ∀ {a : Term}, Printable env scope a = true →
    a.typeOf = some (tyD a)
  | .node op args p, h => by
    obtain ⟨τ, _, hty, _⟩ := printable_node env scope op args p h
    simp [tyD, hty]

theorem arrayValue_not_real (args : List Term) (p : Payload) : (Term.node .arrayValue args p).typeOf ≠ some .real := by
  rw [typeOf_node]
  intro h
  cases p <;> try (cases h; done)
  rename_i idx
  cases hm : args.map Term.typeOf with
  | nil => rw [hm] at h; cases h
  | cons x rest =>
    rw [hm] at h
    cases x with
    | none => cases h
    | some d =>
      have e : typeOfNode .arrayValue (.ty idx) (some d :: rest) =
          (if typeOfNode.chk idx d rest then some (.array idx d) else none) := rfl
      rw [e] at h
      split at h <;> cases h

/-- the root test of `rootNorm` survives the unfolding of the arguments -/
theorem rootNorm_unfold (b : Bool) (op : Op) (args : List Term) (p : Payload)
    (hroot : rootNorm op args p = .node op args p)
    (hdiv : op = .div → ∀ x y, args = [x, y] → x.typeOf = some .real ∧ y.typeOf = some .real) :
    rootNorm op (args.map (unfoldAVw b)) p = .node op (args.map (unfoldAVw b)) p := by
  unfold rootNorm at hroot ⊢
  split at hroot
  · -- not
    rename_i a
    simp only [List.map_cons, List.map_nil]
    rw [notNorm_id_iff] at hroot ⊢
    rcases unfold_hd b a with h | ⟨_, h | h⟩
    · simp only [hd, Prod.mk.injEq] at h
      rw [h.1, h.2.2]; exact hroot
    · intro ⟨h1, _⟩; rw [h] at h1; cases h1
    · intro ⟨h1, _⟩; rw [h] at h1; cases h1
  · -- toReal
    rename_i a
    simp only [List.map_cons, List.map_nil]
    rw [toRealNorm_id_iff] at hroot ⊢
    rcases unfold_hd b a with h | ⟨_, h | h⟩
    · simp only [hd, Prod.mk.injEq] at h
      rw [h.1, h.2.1, h.2.2]; exact hroot
    · intro ⟨_, h1, _⟩; rw [h] at h1; cases h1
    · intro ⟨_, h1, _⟩; rw [h] at h1; cases h1
  · -- div
    rename_i x y
    simp only [List.map_cons, List.map_nil]
    obtain ⟨hx, hy⟩ := hdiv rfl x y rfl
    simp only [hx, beq_self_eq_true, if_true] at hroot
    split
    · have hhx : hd (unfoldAVw b x) = hd x := by
        rcases unfold_hd b x with h | ⟨h, _⟩
        · exact h
        · match x, h, hx with
          | .node _ args p, h, hx => simp only [Term.op] at h; subst h; exact absurd hx (arrayValue_not_real _ _)
      have hhy : hd (unfoldAVw b y) = hd y := by
        rcases unfold_hd b y with h | ⟨h, _⟩
        · exact h
        · match y, h, hy with
          | .node _ args p, h, hy => simp only [Term.op] at h; subst h; exact absurd hy (arrayValue_not_real _ _)
      exact divNorm_hd hhx hhy hroot
    · rfl
  · -- every other operator
    rename_i h1 h2 h3
    split
    · rename_i a heq
      match args, heq with
      | [a0], heq => exact (h1 a0 rfl rfl rfl).elim
    · rename_i a heq
      match args, heq with
      | [a0], heq => exact (h2 a0 rfl rfl rfl).elim
    · rename_i x y heq
      match args, heq with
      | [x0, y0], heq => exact (h3 x0 y0 rfl rfl rfl).elim
    · rfl

theorem chain_normal (ents : List ((Term × Term) × (Term × Term))) : ∀ (base : Term), mgrNormal base = true →
    (∀ e ∈ ents, mgrNormal e.2.1 = true ∧ mgrNormal e.2.2 = true) →
    mgrNormal (ents.foldl (fun acc e => Term.node .arrayStore [acc, e.2.1, e.2.2] .none) base) = true := by
  induction ents with
  | nil => intro base h _; exact h
  | cons e rest ih =>
    intro base hb he
    apply ih
    · rw [mgrNormal_node]
      simp only [List.map_cons, List.map_nil, List.all_cons, List.all_nil, id, hb, (he e (by simp)).1,
        (he e (by simp)).2, Bool.and_self, Bool.true_and, decide_eq_true_eq]
      exact rootNorm_plain _ _ _ (by decide) (by decide) (by decide)
    · intro e' he'; exact he e' (List.mem_cons_of_mem _ he')

theorem mgrNormal_unfold (env : SEnv) (b : Bool) : ∀ (t : Term) (scope : List Sym), Printable env scope t = true →
    mgrNormal t = true → mgrNormal (unfoldAVw b t) = true
  | .node op args p, scope, hP, hn => by
    obtain ⟨τ, hS, hty, hcase⟩ := printable_node env scope op args p hP
    rw [mgrNormal_node] at hn
    simp only [Bool.and_eq_true, List.all_map, List.all_eq_true, Function.comp, id, decide_eq_true_eq] at hn
    obtain ⟨hch, hroot⟩ := hn
    have hargsP : ∀ a ∈ args, ∃ sc', Printable env sc' a = true := by
      rcases hcase with ⟨vs, _, _, _, h⟩ | ⟨_, _, _, h⟩
      · exact fun a ha => ⟨_, h a ha⟩
      · exact fun a ha => ⟨_, h a ha⟩
    have ih : ∀ a ∈ args, mgrNormal (unfoldAVw b a) = true := by
      intro a ha
      obtain ⟨sc', hpa⟩ := hargsP a ha
      exact mgrNormal_unfold env b a sc' hpa (hch a ha)
    by_cases hop : op = .arrayValue
    · subst hop
      unfold unfoldAVw
      dsimp only
      split
      · rename_i idx d rest ds restS heq1 heq2
        apply chain_normal
        · rw [mgrNormal_node]
          have hds : mgrNormal ds = true := by
            have : ds ∈ (d :: rest).map (unfoldAVw b) := by rw [heq2]; simp
            simp only [List.mem_map] at this
            obtain ⟨a, ha, rfl⟩ := this
            exact ih a ha
          simp only [List.map_cons, List.map_nil, List.all_cons, List.all_nil, id, hds, Bool.and_self, Bool.true_and,
            decide_eq_true_eq]
          exact rootNorm_plain _ _ _ (by decide) (by decide) (by decide)
        · intro e he
          have he' : e ∈ (pairsOf rest).zip (pairsOf restS) := by
            split at he
            · exact mem_sortBy _ _ _ he
            · exact he
          have h2 := (List.of_mem_zip he').2
          have hm := mem_pairsOf restS e.2 h2
          have hall : ∀ x ∈ restS, mgrNormal x = true := by
            intro x hx
            have : x ∈ (d :: rest).map (unfoldAVw b) := by rw [heq2]; simp [hx]
            simp only [List.mem_map] at this
            obtain ⟨a, ha, rfl⟩ := this
            exact ih a ha
          exact ⟨hall _ hm.1, hall _ hm.2⟩
      · rw [mgrNormal_node]
        simp only [Bool.and_eq_true, List.all_map, List.all_eq_true, Function.comp, id, decide_eq_true_eq]
        exact ⟨fun a ha => ih a ha, rootNorm_plain _ _ _ (by decide) (by decide) (by decide)⟩
    · rw [unfoldAV_plain b op args p hop, mgrNormal_node]
      simp only [Bool.and_eq_true, List.all_map, List.all_eq_true, Function.comp, id, decide_eq_true_eq]
      refine ⟨fun a ha => ih a ha, rootNorm_unfold b op args p hroot ?_⟩
      intro hd' x y hxy
      subst hd'; subst hxy
      simp only [stdTy] at hS
      split at hS
      · rename_i hc
        simp only [Bool.and_eq_true, beq_iff_eq, List.map_cons, List.map_nil, List.cons.injEq, and_true] at hc
        obtain ⟨sx, hpx⟩ := hargsP x (by simp)
        obtain ⟨sy, hpy⟩ := hargsP y (by simp)
        exact ⟨by rw [printable_typeOf hpx, hc.2.1], by rw [printable_typeOf hpy, hc.2.2]⟩
      · cases hS
termination_by t => sizeOf t
decreasing_by
  all_goals simp_wf
  all_goals (have := List.sizeOf_lt_of_mem ha; omega)

/-- for a `Printable` term in the manager's normal form, the store-chain form is normal too -/
theorem mkNorm_unfoldAV (env : SEnv) (t : Term) (hP : Printable env [] t = true) (hn : mgrNormal t = true) :
    mkNorm (unfoldAV t) = unfoldAV t := by
  rw [unfoldAV_eq]
  exact mkNorm_of_normal _ (mgrNormal_unfold env true t [] hP hn)

end PySMT.Parser.Agree
