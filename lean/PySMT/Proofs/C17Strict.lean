import PySMT.Proofs.C17Sync
/-!
# C17, part 2: the wrapper against the strict front end

The invariant `Inv` ties the wrapper's bookkeeping to the state of the strict solver it talks to; every
user-legal API call preserves it, and the strict solver never answers `(error …)`.
-/
namespace PySMT.SmtSolver
open PySMT.StrictSolver

/-! ## scope lemmas about the strict front end (specification side) -/

def scopeSorts (ls : List Level) : List SortDecl := ls.flatMap (·.sorts)

theorem symInScope_iff (ls : List Level) (s : Sym) : symInScope ls s = true ↔ s ∈ scopeSyms ls := by
  simp [symInScope, scopeSyms, List.any_eq_true, List.mem_flatMap]

theorem sortInScope_iff (ls : List Level) (d : SortDecl) : sortInScope ls d = true ↔ d ∈ scopeSorts ls := by
  simp [sortInScope, scopeSorts, List.any_eq_true, List.mem_flatMap]

theorem symNameInScope_iff (ls : List Level) (n : String) :
    symNameInScope ls n = true ↔ ∃ s ∈ scopeSyms ls, s.name = n := by
  simp only [symNameInScope, scopeSyms, List.any_eq_true, List.mem_flatMap, beq_iff_eq]
  constructor
  · rintro ⟨l, hl, s, hs, h⟩; exact ⟨s, ⟨l, hl, hs⟩, h⟩
  · rintro ⟨s, ⟨l, hl, hs⟩, h⟩; exact ⟨l, hl, s, hs, h⟩

theorem sortNameInScope_iff (ls : List Level) (n : String) :
    sortNameInScope ls n = true ↔ ∃ d ∈ scopeSorts ls, d.name = n := by
  simp only [sortNameInScope, scopeSorts, List.any_eq_true, List.mem_flatMap, beq_iff_eq]
  constructor
  · rintro ⟨l, hl, s, hs, h⟩; exact ⟨s, ⟨l, hl, hs⟩, h⟩
  · rintro ⟨s, ⟨l, hl, hs⟩, h⟩; exact ⟨l, hl, s, hs, h⟩

@[simp] theorem scopeSyms_addSort (d : SortDecl) (ls : List Level) : scopeSyms (addSort d ls) = scopeSyms ls := by
  cases ls <;> simp [addSort, scopeSyms]
@[simp] theorem scopeSyms_addAssert (e : Expr) (ls : List Level) : scopeSyms (addAssert e ls) = scopeSyms ls := by
  cases ls <;> simp [addAssert, scopeSyms]
@[simp] theorem scopeSorts_addSym (s : Sym) (ls : List Level) : scopeSorts (addSym s ls) = scopeSorts ls := by
  cases ls <;> simp [addSym, scopeSorts]
@[simp] theorem scopeSorts_addAssert (e : Expr) (ls : List Level) : scopeSorts (addAssert e ls) = scopeSorts ls := by
  cases ls <;> simp [addAssert, scopeSorts]
theorem scopeSyms_addSym (s : Sym) (ls : List Level) (h : ls ≠ []) : scopeSyms (addSym s ls) = s :: scopeSyms ls := by
  cases ls with
  | nil => exact absurd rfl h
  | cons l r => simp [addSym, scopeSyms]
theorem scopeSorts_addSort (d : SortDecl) (ls : List Level) (h : ls ≠ []) : scopeSorts (addSort d ls) = d :: scopeSorts ls := by
  cases ls with
  | nil => exact absurd rfl h
  | cons l r => simp [addSort, scopeSorts]

@[simp] theorem map_syms_addSort (d : SortDecl) (ls : List Level) : (addSort d ls).map (·.syms) = ls.map (·.syms) := by
  cases ls <;> simp [addSort]
@[simp] theorem map_syms_addAssert (e : Expr) (ls : List Level) : (addAssert e ls).map (·.syms) = ls.map (·.syms) := by
  cases ls <;> simp [addAssert]
@[simp] theorem map_sorts_addSym (s : Sym) (ls : List Level) : (addSym s ls).map (·.sorts) = ls.map (·.sorts) := by
  cases ls <;> simp [addSym]
@[simp] theorem map_sorts_addAssert (e : Expr) (ls : List Level) : (addAssert e ls).map (·.sorts) = ls.map (·.sorts) := by
  cases ls <;> simp [addAssert]
theorem map_syms_addSym (s : Sym) (ls : List Level) : (addSym s ls).map (·.syms) = addTop s (ls.map (·.syms)) := by
  cases ls <;> simp [addSym, addTop]
theorem map_sorts_addSort (d : SortDecl) (ls : List Level) : (addSort d ls).map (·.sorts) = addTop d (ls.map (·.sorts)) := by
  cases ls <;> simp [addSort, addTop]

@[simp] theorem length_addSort (d : SortDecl) (ls : List Level) : (addSort d ls).length = ls.length := by
  cases ls <;> simp [addSort]
@[simp] theorem length_addSym (s : Sym) (ls : List Level) : (addSym s ls).length = ls.length := by
  cases ls <;> simp [addSym]
@[simp] theorem length_addAssert (e : Expr) (ls : List Level) : (addAssert e ls).length = ls.length := by
  cases ls <;> simp [addAssert]

theorem ne_nil_of_length {α : Type} {l l' : List α} (h : l'.length = l.length) (hl : l ≠ []) : l' ≠ [] := by
  intro h'; rw [h'] at h; cases l with
  | nil => exact hl rfl
  | cons _ _ => simp at h

theorem inAny_map_syms (ls : List Level) (s : Sym) : inAny (ls.map (·.syms)) s = symInScope ls s := by
  simp [inAny, symInScope, List.any_map, Function.comp_def]
theorem inAny_map_sorts (ls : List Level) (d : SortDecl) : inAny (ls.map (·.sorts)) d = sortInScope ls d := by
  simp [inAny, sortInScope, List.any_map, Function.comp_def]

theorem scopeSyms_drop_subset (n : Nat) (ls : List Level) : ∀ s ∈ scopeSyms (ls.drop n), s ∈ scopeSyms ls := by
  intro s hs
  simp only [scopeSyms, List.mem_flatMap] at hs ⊢
  obtain ⟨l, hl, h⟩ := hs
  exact ⟨l, List.mem_of_mem_drop hl, h⟩
theorem scopeSorts_drop_subset (n : Nat) (ls : List Level) : ∀ s ∈ scopeSorts (ls.drop n), s ∈ scopeSorts ls := by
  intro s hs
  simp only [scopeSorts, List.mem_flatMap] at hs ⊢
  obtain ⟨l, hl, h⟩ := hs
  exact ⟨l, List.mem_of_mem_drop hl, h⟩
@[simp] theorem scopeSyms_replicate (n : Nat) (ls : List Level) :
    scopeSyms (List.replicate n ({} : Level) ++ ls) = scopeSyms ls := by
  induction n with
  | zero => simp
  | succ k ih => simp only [List.replicate_succ, List.cons_append, scopeSyms, List.flatMap_cons] at ih ⊢; simp
@[simp] theorem scopeSorts_replicate (n : Nat) (ls : List Level) :
    scopeSorts (List.replicate n ({} : Level) ++ ls) = scopeSorts ls := by
  induction n with
  | zero => simp
  | succ k ih => simp only [List.replicate_succ, List.cons_append, scopeSorts, List.flatMap_cons] at ih ⊢; simp

/-! ## the invariant -/

/-- The formulas of one environment: one symbol per name, one sort declaration per name
    (`FormulaManager` / `TypeManager` guarantee this; C04). -/
structure Universe where
  sym : Sym → Prop
  sort : SortDecl → Prop
  sym_inj : ∀ s t, sym s → sym t → s.name = t.name → s = t
  sort_inj : ∀ d e, sort d → sort e → d.name = e.name → d = e

/-- a term of the environment: its symbols and sorts belong to the universe, and its sort list covers the sorts
    occurring in the signatures of its symbols (`get_types` expands the types of all symbols) -/
structure ExprOk (U : Universe) (e : Expr) : Prop where
  syms : ∀ s ∈ e.syms, U.sym s
  sorts : ∀ d ∈ e.sorts, U.sort d
  covers : ∀ s ∈ e.syms, ∀ u ∈ s.uses, ∃ d ∈ e.sorts, d.name = u

variable {O : Oracle}

abbrev W (O : Oracle) := WState (Solver.strict O)

abbrev levelsOf (w : W O) : List Level := w.chan.solver.1.levels

structure Inv (U : Universe) (w : W O) : Prop where
  queue : w.chan.queue = []
  alive : w.dead = false
  logic : w.chan.solver.1.logicSet = true
  notExited : w.chan.solver.1.exited = false
  vars : w.vars = (levelsOf w).map (·.syms)
  sorts : w.sorts = (levelsOf w).map (·.sorts)
  nonempty : levelsOf w ≠ []
  pending : w.pendingPop = true → 2 ≤ (levelsOf w).length
  accepted : exec O (State.init, O.init) (stream w) = some w.chan.solver
  usyms : ∀ s ∈ scopeSyms (levelsOf w), U.sym s
  usorts : ∀ d ∈ scopeSorts (levelsOf w), U.sort d

theorem exec_snoc (s₀ s : State × O.ω) (cs : List Cmd) (c : Cmd) (h : exec O s₀ cs = some s)
    (hr : (respond O s c).2.isError = false) : exec O s₀ (cs ++ [c]) = some (respond O s c).1 := by
  induction cs generalizing s₀ with
  | nil => simp only [exec] at h; cases h; simp [exec, hr]
  | cons d ds ih =>
    simp only [exec, List.cons_append] at h ⊢
    split at h
    · cases h
    · rename_i hd; simp only [hd]; exact ih _ h

theorem stream_snoc_pair {S : Solver} (w w' : WState S) (c : Cmd) (r : Reply)
    (h : w'.chan.trace = w.chan.trace ++ [Event.send c, Event.recv r]) : stream w' = stream w ++ [c] := by
  simp [stream, h, List.filterMap_append]

theorem respond_silent (s : State × O.ω) (c : Cmd) (hl : legal s.1 c = true)
    (hc : c ≠ .checkSat) (hg : ∀ e, c ≠ .getValue e) :
    respond O s c = ((next s.1 .unknown c, s.2), .success) := by
  cases c <;> first
    | exact absurd rfl hc
    | exact absurd rfl (hg _)
    | simp only [respond, hl, if_true]

/-- a legal command that is answered `success`, seen from the wrapper -/
theorem sendSilent_strict (w : W O) (c : Cmd) (hq : w.chan.queue = []) (hl : legal w.chan.solver.1 c = true)
    (hc : c ≠ .checkSat) (hg : ∀ e, c ≠ .getValue e) :
    sendSilent c w = ({ w with chan := ⟨(next w.chan.solver.1 .unknown c, w.chan.solver.2), [],
        w.chan.trace ++ [.send c, .recv .success]⟩ }, .ok ()) := by
  have hr : respond O w.chan.solver c = ((next w.chan.solver.1 .unknown c, w.chan.solver.2), .success) :=
    respond_silent _ c hl hc hg
  show (send c >>= fun _ => recv >>= fun r => if r = Reply.success then pure () else M.throw .solverError) w = _
  simp only [M.run_bind, send, M.run_modify, recv, hq, List.nil_append, hr, if_true, List.append_assoc,
    List.cons_append]
  rfl

theorem next_logicSet (st : State) (v : Verdict) (c : Cmd) (h : st.logicSet = true) : (next st v c).logicSet = true := by
  cases c <;> simp [next, h]

theorem next_exited (st : State) (v : Verdict) (c : Cmd) (h : st.exited = false) (hx : c ≠ .exit) :
    (next st v c).exited = false := by
  cases c <;> first | exact absurd rfl hx | simp [next, h]

/-- the object after a legal, silently acknowledged command and a bookkeeping update -/
def silentState (w : W O) (c : Cmd) (vars' : List (List Sym)) (sorts' : List (List SortDecl)) (pp' : Bool) : W O :=
  { vars := vars', sorts := sorts', pendingPop := pp', dead := w.dead,
    chan := ⟨(next w.chan.solver.1 .unknown c, w.chan.solver.2), [], w.chan.trace ++ [.send c, .recv .success]⟩ }

/-- the invariant after a legal, silently acknowledged command and the matching bookkeeping update -/
theorem Inv.afterSilent {U : Universe} {w : W O} (hI : Inv U w) (c : Cmd) (hl : legal w.chan.solver.1 c = true)
    (hc : c ≠ .checkSat) (hg : ∀ e, c ≠ .getValue e) (hx : c ≠ .exit)
    (vars' : List (List Sym)) (sorts' : List (List SortDecl)) (pp' : Bool)
    (hv : vars' = (next w.chan.solver.1 .unknown c).levels.map (·.syms))
    (hs : sorts' = (next w.chan.solver.1 .unknown c).levels.map (·.sorts))
    (hne : (next w.chan.solver.1 .unknown c).levels ≠ [])
    (hp : pp' = true → 2 ≤ (next w.chan.solver.1 .unknown c).levels.length)
    (hus : ∀ s ∈ scopeSyms (next w.chan.solver.1 .unknown c).levels, U.sym s)
    (hud : ∀ d ∈ scopeSorts (next w.chan.solver.1 .unknown c).levels, U.sort d) :
    Inv U (silentState w c vars' sorts' pp') where
  queue := rfl
  alive := hI.alive
  logic := next_logicSet _ _ _ hI.logic
  notExited := next_exited _ _ _ hI.notExited hx
  vars := hv
  sorts := hs
  nonempty := hne
  pending := hp
  accepted := by
    have h := exec_snoc _ _ _ c hI.accepted (by rw [respond_silent _ c hl hc hg]; rfl)
    rw [respond_silent _ c hl hc hg] at h
    rw [stream_snoc_pair w _ c .success rfl]
    exact h
  usyms := hus
  usorts := hud

/-! ## declarations -/

theorem sortName_fresh {U : Universe} {w : W O} (hI : Inv U w) (d : SortDecl) (hd : U.sort d)
    (hn : inAny w.sorts d = false) : sortNameInScope (levelsOf w) d.name = false := by
  cases h : sortNameInScope (levelsOf w) d.name with
  | false => rfl
  | true =>
    obtain ⟨d', hd', hname⟩ := (sortNameInScope_iff _ _).mp h
    have : d' = d := U.sort_inj _ _ (hI.usorts _ hd') hd hname
    subst this
    rw [hI.sorts, inAny_map_sorts, (sortInScope_iff _ _).mpr hd'] at hn
    cases hn

theorem symName_fresh {U : Universe} {w : W O} (hI : Inv U w) (s : Sym) (hs : U.sym s)
    (hn : inAny w.vars s = false) : symNameInScope (levelsOf w) s.name = false := by
  cases h : symNameInScope (levelsOf w) s.name with
  | false => rfl
  | true =>
    obtain ⟨s', hs', hname⟩ := (symNameInScope_iff _ _).mp h
    have : s' = s := U.sym_inj _ _ (hI.usyms _ hs') hs hname
    subst this
    rw [hI.vars, inAny_map_syms, (symInScope_iff _ _).mpr hs'] at hn
    cases hn

theorem declareSort_ok {U : Universe} {w : W O} (hI : Inv U w) (d : SortDecl) (hd : U.sort d)
    (hn : inAny w.sorts d = false) :
    ∃ w', declareSort d w = (w', .ok ()) ∧ Inv U w' ∧ w'.pendingPop = w.pendingPop ∧
      levelsOf w' = addSort d (levelsOf w) ∧ w'.chan.solver.2 = w.chan.solver.2 := by
  have hl : legal w.chan.solver.1 (.declareSort d) = true := by
    have := sortName_fresh hI d hd hn
    simp only [levelsOf] at this
    simp [legal, hI.notExited, hI.logic, this]
  refine ⟨silentState w (.declareSort d) w.vars (addTop d w.sorts) w.pendingPop, ?_, ?_, rfl, rfl, rfl⟩
  · have hne : w.sorts.isEmpty = false := by
      rw [hI.sorts]; cases h : levelsOf w with
      | nil => exact absurd h hI.nonempty
      | cons _ _ => rfl
    show (sendSilent (.declareSort d) >>= fun _ => M.get >>= fun w0 =>
      if w0.sorts.isEmpty then M.throw .indexError
      else M.modify fun w => { w with sorts := addTop d w.sorts }) w = _
    rw [M.bind_ok (sendSilent_strict w _ hI.queue hl (by simp) (by simp)), M.bind_ok (M.run_get _)]
    simp only [hne, Bool.false_eq_true, if_false]
    rfl
  · refine hI.afterSilent (.declareSort d) hl (by simp) (by simp) (by simp) _ _ _ ?_ ?_ ?_ ?_ ?_ ?_
    · simp only [next, map_syms_addSort]; exact hI.vars
    · simp only [next, map_sorts_addSort]; rw [hI.sorts]
    · simp only [next]; exact ne_nil_of_length (length_addSort _ _) hI.nonempty
    · simp only [next, length_addSort]; exact hI.pending
    · simp only [next, scopeSyms_addSort]; exact hI.usyms
    · simp only [next]
      rw [scopeSorts_addSort _ _ (show w.chan.solver.1.levels ≠ [] from hI.nonempty)]
      intro d' hd'
      rcases List.mem_cons.mp hd' with rfl | h
      · exact hd
      · exact hI.usorts _ h

theorem declareVar_ok {U : Universe} {w : W O} (hI : Inv U w) (s : Sym) (hs : U.sym s)
    (hn : inAny w.vars s = false) (hu : ∀ u ∈ s.uses, sortNameInScope (levelsOf w) u = true) :
    ∃ w', declareVar s w = (w', .ok ()) ∧ Inv U w' ∧ w'.pendingPop = w.pendingPop ∧
      levelsOf w' = addSym s (levelsOf w) ∧ w'.chan.solver.2 = w.chan.solver.2 := by
  have hl : legal w.chan.solver.1 (.declareFun s) = true := by
    have := symName_fresh hI s hs hn
    simp only [levelsOf] at this hu
    simp only [legal, hI.notExited, hI.logic, this, Bool.not_false, Bool.true_and, List.all_eq_true]
    exact hu
  refine ⟨silentState w (.declareFun s) (addTop s w.vars) w.sorts w.pendingPop, ?_, ?_, rfl, rfl, rfl⟩
  · have hne : w.vars.isEmpty = false := by
      rw [hI.vars]; cases h : levelsOf w with
      | nil => exact absurd h hI.nonempty
      | cons _ _ => rfl
    show (sendSilent (.declareFun s) >>= fun _ => M.get >>= fun w0 =>
      if w0.vars.isEmpty then M.throw .indexError
      else M.modify fun w => { w with vars := addTop s w.vars }) w = _
    rw [M.bind_ok (sendSilent_strict w _ hI.queue hl (by simp) (by simp)), M.bind_ok (M.run_get _)]
    simp only [hne, Bool.false_eq_true, if_false]
    rfl
  · refine hI.afterSilent (.declareFun s) hl (by simp) (by simp) (by simp) _ _ _ ?_ ?_ ?_ ?_ ?_ ?_
    · simp only [next, map_syms_addSym]; rw [hI.vars]
    · simp only [next, map_sorts_addSym]; exact hI.sorts
    · simp only [next]; exact ne_nil_of_length (length_addSym _ _) hI.nonempty
    · simp only [next, length_addSym]; exact hI.pending
    · simp only [next]
      rw [scopeSyms_addSym _ _ (show w.chan.solver.1.levels ≠ [] from hI.nonempty)]
      intro s' hs'
      rcases List.mem_cons.mp hs' with rfl | h
      · exact hs
      · exact hI.usyms _ h
    · simp only [next, scopeSorts_addSym]; exact hI.usorts

@[simp] theorem map_asserts_addSort (d : SortDecl) (ls : List Level) : (addSort d ls).map (·.asserts) = ls.map (·.asserts) := by
  cases ls <;> simp [addSort]
@[simp] theorem map_asserts_addSym (s : Sym) (ls : List Level) : (addSym s ls).map (·.asserts) = ls.map (·.asserts) := by
  cases ls <;> simp [addSym]

/-- what a block of declarations leaves untouched -/
structure Frame (w w' : W O) : Prop where
  pending : w'.pendingPop = w.pendingPop
  length : (levelsOf w').length = (levelsOf w).length
  asserts : (levelsOf w').map (·.asserts) = (levelsOf w).map (·.asserts)
  oracle : w'.chan.solver.2 = w.chan.solver.2
  symsMono : ∀ s, symInScope (levelsOf w) s = true → symInScope (levelsOf w') s = true
  sortsMono : ∀ d, sortInScope (levelsOf w) d = true → sortInScope (levelsOf w') d = true
  sortNamesMono : ∀ n, sortNameInScope (levelsOf w) n = true → sortNameInScope (levelsOf w') n = true

theorem Frame.refl (w : W O) : Frame w w := ⟨rfl, rfl, rfl, rfl, fun _ h => h, fun _ h => h, fun _ h => h⟩

theorem Frame.trans {w w' w'' : W O} (a : Frame w w') (b : Frame w' w'') : Frame w w'' :=
  ⟨b.pending.trans a.pending, b.length.trans a.length, b.asserts.trans a.asserts, b.oracle.trans a.oracle,
   fun s h => b.symsMono s (a.symsMono s h), fun d h => b.sortsMono d (a.sortsMono d h),
   fun n h => b.sortNamesMono n (a.sortNamesMono n h)⟩

theorem frame_addSort {w w' : W O} (d : SortDecl) (hne : levelsOf w ≠ []) (hp : w'.pendingPop = w.pendingPop)
    (hl : levelsOf w' = addSort d (levelsOf w)) (ho : w'.chan.solver.2 = w.chan.solver.2) : Frame w w' := by
  refine ⟨hp, by rw [hl, length_addSort], by rw [hl, map_asserts_addSort], ho, ?_, ?_, ?_⟩
  · intro s h; rw [symInScope_iff] at h ⊢; rw [hl, scopeSyms_addSort]; exact h
  · intro d' h; rw [sortInScope_iff] at h ⊢; rw [hl, scopeSorts_addSort _ _ hne]; exact List.mem_cons_of_mem _ h
  · intro n h; rw [sortNameInScope_iff] at h ⊢; rw [hl, scopeSorts_addSort _ _ hne]
    obtain ⟨d', hd', hn⟩ := h; exact ⟨d', List.mem_cons_of_mem _ hd', hn⟩

theorem frame_addSym {w w' : W O} (s : Sym) (hne : levelsOf w ≠ []) (hp : w'.pendingPop = w.pendingPop)
    (hl : levelsOf w' = addSym s (levelsOf w)) (ho : w'.chan.solver.2 = w.chan.solver.2) : Frame w w' := by
  refine ⟨hp, by rw [hl, length_addSym], by rw [hl, map_asserts_addSym], ho, ?_, ?_, ?_⟩
  · intro s' h; rw [symInScope_iff] at h ⊢; rw [hl, scopeSyms_addSym _ _ hne]; exact List.mem_cons_of_mem _ h
  · intro d' h; rw [sortInScope_iff] at h ⊢; rw [hl, scopeSorts_addSym]; exact h
  · intro n h; rw [sortNameInScope_iff] at h ⊢; rw [hl, scopeSorts_addSym]; exact h

theorem declareMissingSorts_ok {U : Universe} : ∀ (ds : List SortDecl) {w : W O}, Inv U w → (∀ d ∈ ds, U.sort d) →
    ∃ w', declareMissingSorts ds w = (w', .ok ()) ∧ Inv U w' ∧ Frame w w' ∧
      (levelsOf w').map (·.syms) = (levelsOf w).map (·.syms) ∧
      (∀ d ∈ ds, sortInScope (levelsOf w') d = true)
  | [], w, hI, _ => ⟨w, rfl, hI, Frame.refl w, rfl, by simp⟩
  | d :: ds, w, hI, hU => by
    have hstep : declareMissingSorts (d :: ds) w =
        (if inAny w.sorts d then declareMissingSorts ds else declareSort d >>= fun _ => declareMissingSorts ds) w := rfl
    rw [hstep]
    by_cases hin : inAny w.sorts d = true
    · simp only [hin, if_true]
      obtain ⟨w', h1, h2, h3, h4, h5⟩ := declareMissingSorts_ok ds hI (fun d hd => hU d (List.mem_cons_of_mem _ hd))
      refine ⟨w', h1, h2, h3, h4, ?_⟩
      intro d' hd'
      rcases List.mem_cons.mp hd' with rfl | h
      · apply h3.sortsMono; rw [← inAny_map_sorts, ← hI.sorts]; exact hin
      · exact h5 d' h
    · have hin' : inAny w.sorts d = false := by simpa using hin
      simp only [hin', Bool.false_eq_true, if_false]
      obtain ⟨w1, e1, i1, p1, l1, o1⟩ := declareSort_ok hI d (hU d (List.mem_cons_self ..)) hin'
      have f1 := frame_addSort d hI.nonempty p1 l1 o1
      obtain ⟨w', h1, h2, h3, h4, h5⟩ := declareMissingSorts_ok ds i1 (fun d hd => hU d (List.mem_cons_of_mem _ hd))
      refine ⟨w', ?_, h2, f1.trans h3, ?_, ?_⟩
      · rw [M.bind_ok e1]; exact h1
      · rw [h4, l1, map_syms_addSort]
      · intro d' hd'
        rcases List.mem_cons.mp hd' with rfl | h
        · apply h3.sortsMono; rw [sortInScope_iff, l1, scopeSorts_addSort _ _ hI.nonempty]; exact List.mem_cons_self ..
        · exact h5 d' h

theorem declareMissingVars_ok {U : Universe} : ∀ (ss : List Sym) {w : W O}, Inv U w → (∀ s ∈ ss, U.sym s) →
    (∀ s ∈ ss, ∀ u ∈ s.uses, sortNameInScope (levelsOf w) u = true) →
    ∃ w', declareMissingVars ss w = (w', .ok ()) ∧ Inv U w' ∧ Frame w w' ∧
      (levelsOf w').map (·.sorts) = (levelsOf w).map (·.sorts) ∧
      (∀ s ∈ ss, symInScope (levelsOf w') s = true)
  | [], w, hI, _, _ => ⟨w, rfl, hI, Frame.refl w, rfl, by simp⟩
  | s :: ss, w, hI, hU, hS => by
    have hstep : declareMissingVars (s :: ss) w =
        (if inAny w.vars s then declareMissingVars ss else declareVar s >>= fun _ => declareMissingVars ss) w := rfl
    rw [hstep]
    by_cases hin : inAny w.vars s = true
    · simp only [hin, if_true]
      obtain ⟨w', h1, h2, h3, h4, h5⟩ := declareMissingVars_ok ss hI (fun s hs => hU s (List.mem_cons_of_mem _ hs))
        (fun s hs => hS s (List.mem_cons_of_mem _ hs))
      refine ⟨w', h1, h2, h3, h4, ?_⟩
      intro s' hs'
      rcases List.mem_cons.mp hs' with rfl | h
      · apply h3.symsMono; rw [← inAny_map_syms, ← hI.vars]; exact hin
      · exact h5 s' h
    · have hin' : inAny w.vars s = false := by simpa using hin
      simp only [hin', Bool.false_eq_true, if_false]
      obtain ⟨w1, e1, i1, p1, l1, o1⟩ := declareVar_ok hI s (hU s (List.mem_cons_self ..)) hin'
        (hS s (List.mem_cons_self ..))
      have f1 := frame_addSym s hI.nonempty p1 l1 o1
      obtain ⟨w', h1, h2, h3, h4, h5⟩ := declareMissingVars_ok ss i1 (fun s hs => hU s (List.mem_cons_of_mem _ hs))
        (fun s hs u hu => f1.sortNamesMono u (hS s (List.mem_cons_of_mem _ hs) u hu))
      refine ⟨w', ?_, h2, f1.trans h3, ?_, ?_⟩
      · rw [M.bind_ok e1]; exact h1
      · rw [h4, l1, map_sorts_addSym]
      · intro s' hs'
        rcases List.mem_cons.mp hs' with rfl | h
        · apply h3.symsMono; rw [symInScope_iff, l1, scopeSyms_addSym _ _ hI.nonempty]; exact List.mem_cons_self ..
        · exact h5 s' h

/-! ## stack commands -/

theorem Inv.setPending {U : Universe} {w : W O} (hI : Inv U w) (b : Bool) (hb : b = true → 2 ≤ (levelsOf w).length) :
    Inv U ({ w with pendingPop := b } : W O) :=
  { queue := hI.queue, alive := hI.alive, logic := hI.logic, notExited := hI.notExited, vars := hI.vars,
    sorts := hI.sorts, nonempty := hI.nonempty, pending := hb, accepted := hI.accepted, usyms := hI.usyms,
    usorts := hI.usorts }

theorem popLevels_ok : ∀ (n : Nat) (v : List (List Sym)) (s : List (List SortDecl)), n ≤ v.length → n ≤ s.length →
    popLevels n v s = ((v.drop n, s.drop n), true)
  | 0, _, _, _, _ => rfl
  | _ + 1, [], _, h, _ => by simp at h
  | _ + 1, _ :: _, [], _, h => by simp at h
  | n + 1, _ :: v, _ :: s, hv, hs => by
    simp only [popLevels, List.drop_succ_cons]
    exact popLevels_ok n v s (by simpa using hv) (by simpa using hs)

theorem pushBody_ok {U : Universe} {w : W O} (hI : Inv U w) (n : Nat) :
    ∃ w', pushBody n w = (w', .ok ()) ∧ Inv U w' ∧ w'.pendingPop = w.pendingPop ∧
      levelsOf w' = List.replicate n ({} : Level) ++ levelsOf w ∧ w'.chan.solver.2 = w.chan.solver.2 := by
  have hl : legal w.chan.solver.1 (.push n) = true := by simp [legal, hI.notExited, hI.logic]
  refine ⟨silentState w (.push n) (List.replicate n [] ++ w.vars) (List.replicate n [] ++ w.sorts) w.pendingPop,
    ?_, ?_, rfl, rfl, rfl⟩
  · show (sendSilent (.push n) >>= fun _ => M.modify fun w =>
      { w with vars := List.replicate n [] ++ w.vars, sorts := List.replicate n [] ++ w.sorts }) w = _
    rw [M.bind_ok (sendSilent_strict w _ hI.queue hl (by simp) (by simp))]
    rfl
  · refine hI.afterSilent (.push n) hl (by simp) (by simp) (by simp) _ _ _ ?_ ?_ ?_ ?_ ?_ ?_
    · simp only [next, List.map_append, List.map_replicate]; rw [hI.vars]
    · simp only [next, List.map_append, List.map_replicate]; rw [hI.sorts]
    · simp only [next]; intro h; exact hI.nonempty (List.append_eq_nil_iff.mp h).2
    · simp only [next, List.length_append, List.length_replicate]; intro h; have : 2 ≤ w.chan.solver.1.levels.length := hI.pending h; omega
    · simp only [next, scopeSyms_replicate]; exact hI.usyms
    · simp only [next, scopeSorts_replicate]; exact hI.usorts

theorem popBody_ok {U : Universe} {w : W O} (hI : Inv U w) (n : Nat) (hn : n < (levelsOf w).length)
    (hp : w.pendingPop = false) :
    ∃ w', popBody n w = (w', .ok ()) ∧ Inv U w' ∧ w'.pendingPop = false ∧
      levelsOf w' = (levelsOf w).drop n ∧ w'.chan.solver.2 = w.chan.solver.2 := by
  have hl : legal w.chan.solver.1 (.pop n) = true := by simp [legal, hI.notExited, hI.logic, hn]
  refine ⟨silentState w (.pop n) (w.vars.drop n) (w.sorts.drop n) w.pendingPop, ?_, ?_, hp, rfl, rfl⟩
  · have hpl : popLevels n w.vars w.sorts = ((w.vars.drop n, w.sorts.drop n), true) :=
      popLevels_ok n w.vars w.sorts (by rw [hI.vars, List.length_map]; omega) (by rw [hI.sorts, List.length_map]; omega)
    show (sendSilent (.pop n) >>= fun _ => M.get >>= fun w0 =>
      M.modify (fun w => { w with vars := (popLevels n w0.vars w0.sorts).1.1, sorts := (popLevels n w0.vars w0.sorts).1.2 })
        >>= fun _ => if (popLevels n w0.vars w0.sorts).2 then pure () else M.throw .indexError) w = _
    rw [M.bind_ok (sendSilent_strict w _ hI.queue hl (by simp) (by simp)), M.bind_ok (M.run_get _),
      M.bind_ok (M.run_modify _ _)]
    simp only [hpl, if_true]
    rfl
  · refine hI.afterSilent (.pop n) hl (by simp) (by simp) (by simp) _ _ _ ?_ ?_ ?_ ?_ ?_ ?_
    · simp only [next, List.map_drop]; rw [hI.vars]
    · simp only [next, List.map_drop]; rw [hI.sorts]
    · simp only [next]; intro h
      have : ((levelsOf w).drop n).length = 0 := by rw [h]; rfl
      rw [List.length_drop] at this; omega
    · intro h; rw [hp] at h; cases h
    · simp only [next]; intro s hs; exact hI.usyms s (scopeSyms_drop_subset n _ s hs)
    · simp only [next]; intro d hd; exact hI.usorts d (scopeSorts_drop_subset n _ d hd)

theorem clearPendingPop_ok {U : Universe} {w : W O} (hI : Inv U w) :
    ∃ w', clearPendingPop w = (w', .ok ()) ∧ Inv U w' ∧ w'.pendingPop = false ∧
      levelsOf w' = (if w.pendingPop then (levelsOf w).drop 1 else levelsOf w) ∧
      w'.chan.solver.2 = w.chan.solver.2 := by
  have hstep : clearPendingPop w = (if w.pendingPop = true then
      M.modify (fun w => { w with pendingPop := false }) >>= fun _ => popBody 1 else pure ()) w := rfl
  rw [hstep]
  cases hp : w.pendingPop with
  | false => exact ⟨w, by simp only [Bool.false_eq_true, if_false]; rfl, hI, hp, by simp, rfl⟩
  | true =>
    simp only [if_true]
    have h2 := hI.pending hp
    have hI' : Inv U ({ w with pendingPop := false } : W O) := hI.setPending false (by simp)
    obtain ⟨w', e1, i1, p1, l1, o1⟩ := popBody_ok hI' 1 (by show 1 < (levelsOf w).length; omega) rfl
    refine ⟨w', ?_, i1, p1, by simpa using l1, o1⟩
    rw [M.bind_ok (M.run_modify _ w)]; exact e1

theorem resetBody_ok {U : Universe} {w : W O} (hI : Inv U w) (hp : w.pendingPop = false) :
    ∃ w', (sendSilent .resetAssertions >>= fun _ => M.modify fun w => { w with vars := [[]], sorts := [[]] }) w
        = (w', .ok ()) ∧ Inv U w' ∧ w'.pendingPop = false ∧ levelsOf w' = [({} : Level)] ∧ w'.chan.solver.2 = w.chan.solver.2 := by
  have hl : legal w.chan.solver.1 .resetAssertions = true := by simp [legal, hI.notExited, hI.logic]
  refine ⟨silentState w .resetAssertions [[]] [[]] w.pendingPop, ?_, ?_, hp, rfl, rfl⟩
  · rw [M.bind_ok (sendSilent_strict w _ hI.queue hl (by simp) (by simp))]
    rfl
  · refine hI.afterSilent .resetAssertions hl (by simp) (by simp) (by simp) _ _ _ ?_ ?_ ?_ ?_ ?_ ?_
    · rfl
    · rfl
    · simp [next]
    · intro h; rw [hp] at h; cases h
    · simp [next, scopeSyms]
    · simp [next, scopeSorts]

theorem assert_ok {U : Universe} {w : W O} (hI : Inv U w) (e : Expr) (he : exprInScope (levelsOf w) e = true) :
    ∃ w', sendSilent (.assert e) w = (w', .ok ()) ∧ Inv U w' ∧ w'.pendingPop = w.pendingPop ∧
      levelsOf w' = addAssert e (levelsOf w) ∧ w'.chan.solver.2 = w.chan.solver.2 := by
  have hl : legal w.chan.solver.1 (.assert e) = true := by
    simp only [levelsOf] at he; simp [legal, hI.notExited, hI.logic, he]
  refine ⟨silentState w (.assert e) w.vars w.sorts w.pendingPop, ?_, ?_, rfl, rfl, rfl⟩
  · rw [sendSilent_strict w _ hI.queue hl (by simp) (by simp)]; rfl
  · refine hI.afterSilent (.assert e) hl (by simp) (by simp) (by simp) _ _ _ ?_ ?_ ?_ ?_ ?_ ?_
    · simp only [next, map_syms_addAssert]; exact hI.vars
    · simp only [next, map_sorts_addAssert]; exact hI.sorts
    · simp only [next]; exact ne_nil_of_length (length_addAssert _ _) hI.nonempty
    · simp only [next, length_addAssert]; exact hI.pending
    · simp only [next, scopeSyms_addAssert]; exact hI.usyms
    · simp only [next, scopeSorts_addAssert]; exact hI.usorts

/-! ## API methods -/

/-- the solver's levels once a pending pop has been carried out -/
def clearedLevels (w : W O) : List Level := if w.pendingPop then (levelsOf w).drop 1 else levelsOf w

theorem sortName_of_sortInScope (ls : List Level) (d : SortDecl) (h : sortInScope ls d = true) :
    sortNameInScope ls d.name = true := by
  rw [sortInScope_iff] at h; rw [sortNameInScope_iff]; exact ⟨d, h, rfl⟩

theorem addAssertion_ok {U : Universe} {w : W O} (hI : Inv U w) (e : Expr) (he : ExprOk U e) :
    ∃ w', addAssertion e w = (w', .ok ()) ∧ Inv U w' ∧ w'.pendingPop = false ∧
      (levelsOf w').length = (clearedLevels w).length ∧
      (levelsOf w').map (·.asserts) = (addAssert e (clearedLevels w)).map (·.asserts) ∧
      w'.chan.solver.2 = w.chan.solver.2 := by
  obtain ⟨w1, e1, i1, p1, l1, o1⟩ := clearPendingPop_ok hI
  obtain ⟨w2, e2, i2, f2, _, s2⟩ := declareMissingSorts_ok e.sorts i1 he.sorts
  obtain ⟨w3, e3, i3, f3, _, s3⟩ := declareMissingVars_ok e.syms i2 he.syms (by
    intro s hs u hu
    obtain ⟨d, hd, hname⟩ := he.covers s hs u hu
    rw [← hname]; exact sortName_of_sortInScope _ _ (s2 d hd))
  have hscope : exprInScope (levelsOf w3) e = true := by
    simp only [exprInScope, Bool.and_eq_true, List.all_eq_true]
    exact ⟨s3, fun d hd => f3.sortsMono d (s2 d hd)⟩
  obtain ⟨w4, e4, i4, p4, l4, o4⟩ := assert_ok i3 e hscope
  refine ⟨w4, ?_, i4, ?_, ?_, ?_, ?_⟩
  · show (clearPendingPop >>= fun _ => declareMissingSorts e.sorts >>= fun _ =>
      declareMissingVars e.syms >>= fun _ => sendSilent (.assert e)) w = _
    rw [M.bind_ok e1, M.bind_ok e2, M.bind_ok e3]; exact e4
  · rw [p4, f3.pending, f2.pending]; exact p1
  · rw [l4, length_addAssert, f3.length, f2.length, l1]; rfl
  · have h23 := f3.asserts.trans f2.asserts
    rw [l4]
    have : ∀ (a b : List Level), a.map (·.asserts) = b.map (·.asserts) →
        (addAssert e a).map (·.asserts) = (addAssert e b).map (·.asserts) := by
      intro a b h
      cases a <;> cases b <;> simp_all [addAssert]
    rw [this _ _ h23, l1]; rfl
  · rw [o4, f3.oracle, f2.oracle]; exact o1

theorem push_ok {U : Universe} {w : W O} (hI : Inv U w) (n : Nat) :
    ∃ w', push n w = (w', .ok ()) ∧ Inv U w' ∧ w'.pendingPop = false ∧
      levelsOf w' = List.replicate n ({} : Level) ++ clearedLevels w ∧ w'.chan.solver.2 = w.chan.solver.2 := by
  obtain ⟨w1, e1, i1, p1, l1, o1⟩ := clearPendingPop_ok hI
  obtain ⟨w2, e2, i2, p2, l2, o2⟩ := pushBody_ok i1 n
  refine ⟨w2, ?_, i2, p2.trans p1, by rw [l2, l1]; rfl, o2.trans o1⟩
  show (clearPendingPop >>= fun _ => pushBody n) w = _
  rw [M.bind_ok e1]; exact e2

theorem pop_ok {U : Universe} {w : W O} (hI : Inv U w) (n : Nat) (hn : n < (clearedLevels w).length) :
    ∃ w', pop n w = (w', .ok ()) ∧ Inv U w' ∧ w'.pendingPop = false ∧
      levelsOf w' = (clearedLevels w).drop n ∧ w'.chan.solver.2 = w.chan.solver.2 := by
  obtain ⟨w1, e1, i1, p1, l1, o1⟩ := clearPendingPop_ok hI
  obtain ⟨w2, e2, i2, p2, l2, o2⟩ := popBody_ok i1 n (by rw [l1]; exact hn) p1
  refine ⟨w2, ?_, i2, p2, by rw [l2, l1]; rfl, o2.trans o1⟩
  show (clearPendingPop >>= fun _ => popBody n) w = _
  rw [M.bind_ok e1]; exact e2

theorem resetAssertions_ok {U : Universe} {w : W O} (hI : Inv U w) :
    ∃ w', resetAssertions w = (w', .ok ()) ∧ Inv U w' ∧ w'.pendingPop = false ∧
      levelsOf w' = [({} : Level)] ∧ w'.chan.solver.2 = w.chan.solver.2 := by
  obtain ⟨w1, e1, i1, p1, _, o1⟩ := clearPendingPop_ok hI
  obtain ⟨w2, e2, i2, p2, l2, o2⟩ := resetBody_ok i1 p1
  refine ⟨w2, ?_, i2, p2, l2, o2.trans o1⟩
  show (clearPendingPop >>= fun _ => sendSilent .resetAssertions >>= fun _ =>
    M.modify fun w => { w with vars := [[]], sorts := [[]] }) w = _
  rw [M.bind_ok e1]; exact e2

/-! ## check-sat -/

/-- the object after `(check-sat)` was written and its verdict read -/
def checkedState (w : W O) : W O :=
  { w with chan := ⟨(next w.chan.solver.1 (O.verdict w.chan.solver.2 w.chan.solver.1).1 .checkSat,
                     (O.verdict w.chan.solver.2 w.chan.solver.1).2), [],
                    w.chan.trace ++ [.send .checkSat, .recv (.verdict (O.verdict w.chan.solver.2 w.chan.solver.1).1)]⟩ }

def verdictResult : Verdict → Except Err Bool
  | .sat => .ok true
  | .unsat => .ok false
  | .unknown => .error .unknownResult

theorem respond_checkSat (s : State × O.ω) (hl : legal s.1 .checkSat = true) :
    respond O s .checkSat = ((next s.1 (O.verdict s.2 s.1).1 .checkSat, (O.verdict s.2 s.1).2),
                             .verdict (O.verdict s.2 s.1).1) := by
  simp only [respond, hl, if_true]

theorem Inv.checked {U : Universe} {w : W O} (hI : Inv U w) : Inv U (checkedState w) := by
  have hl : legal w.chan.solver.1 .checkSat = true := by simp [legal, hI.notExited, hI.logic]
  exact {
    queue := rfl, alive := hI.alive, logic := hI.logic, notExited := hI.notExited, vars := hI.vars,
    sorts := hI.sorts, nonempty := hI.nonempty, pending := hI.pending,
    accepted := by
      have h := exec_snoc _ _ _ .checkSat hI.accepted (by rw [respond_checkSat _ hl]; rfl)
      rw [respond_checkSat _ hl] at h
      rw [stream_snoc_pair w _ .checkSat _ rfl]
      exact h
    usyms := hI.usyms, usorts := hI.usorts }

theorem solve_ok {U : Universe} {w : W O} (hI : Inv U w) :
    ∃ w1, clearPendingPop w = (w1, .ok ()) ∧ Inv U w1 ∧ w1.pendingPop = false ∧ levelsOf w1 = clearedLevels w ∧
      w1.chan.solver.2 = w.chan.solver.2 ∧
      solve w = (checkedState w1, verdictResult (O.verdict w1.chan.solver.2 w1.chan.solver.1).1) ∧
      Inv U (checkedState w1) := by
  obtain ⟨w1, e1, i1, p1, l1, o1⟩ := clearPendingPop_ok hI
  refine ⟨w1, e1, i1, p1, l1, o1, ?_, i1.checked⟩
  have hl : legal w1.chan.solver.1 .checkSat = true := by simp [legal, i1.notExited, i1.logic]
  show (clearPendingPop >>= fun _ => send .checkSat >>= fun _ => recv >>= fun ans => match ans with
    | .verdict .sat => pure true
    | .verdict .unsat => pure false
    | .verdict .unknown => M.throw .unknownResult
    | _ => M.throw .solverError) w = _
  rw [M.bind_ok e1]
  simp only [M.run_bind, send, M.run_modify, recv, i1.queue, List.nil_append, respond_checkSat _ hl,
    List.append_assoc, List.cons_append]
  unfold checkedState verdictResult
  cases (O.verdict w1.chan.solver.2 w1.chan.solver.1).1 <;> rfl

/-! ## get-value / get_model -/

/-- the object after `(get-value (e))` was written and the value read -/
def valuedState (w : W O) (e : Expr) : W O :=
  { w with chan := ⟨w.chan.solver, [], w.chan.trace ++
      [.send (.getValue e), .recv (.value (O.value w.chan.solver.2 w.chan.solver.1 e))]⟩ }

theorem respond_getValue (s : State × O.ω) (e : Expr) (hl : legal s.1 (.getValue e) = true) :
    respond O s (.getValue e) = (s, .value (O.value s.2 s.1 e)) := by
  simp only [respond, hl, if_true]

theorem getValue_ok {U : Universe} {w : W O} (hI : Inv U w) (hsat : w.chan.solver.1.satMode = true) (e : Expr)
    (he : exprInScope (levelsOf w) e = true) :
    getValue e w = (valuedState w e, .ok (O.value w.chan.solver.2 w.chan.solver.1 e)) ∧ Inv U (valuedState w e) := by
  have hl : legal w.chan.solver.1 (.getValue e) = true := by
    simp only [levelsOf] at he; simp [legal, hI.notExited, hI.logic, hsat, he]
  constructor
  · show (send (.getValue e) >>= fun _ => recv >>= fun ans => match ans with
      | .value v => pure v
      | _ => M.throw .badValue) w = _
    simp only [M.run_bind, send, M.run_modify, recv, hI.queue, List.nil_append, respond_getValue _ e hl,
      List.append_assoc, List.cons_append]
    rfl
  · exact {
      queue := rfl, alive := hI.alive, logic := hI.logic, notExited := hI.notExited, vars := hI.vars,
      sorts := hI.sorts, nonempty := hI.nonempty, pending := hI.pending,
      accepted := by
        have h := exec_snoc _ _ _ (.getValue e) hI.accepted (by rw [respond_getValue _ e hl]; rfl)
        rw [respond_getValue _ e hl] at h
        rw [stream_snoc_pair w _ (.getValue e) _ rfl]
        exact h
      usyms := hI.usyms, usorts := hI.usorts }

theorem getValues_ok {U : Universe} : ∀ (ss : List Sym) {w : W O}, Inv U w → w.chan.solver.1.satMode = true →
    (∀ s ∈ ss, symInScope (levelsOf w) s = true) →
    ∃ w', getValues ss w = (w', .ok (ss.map fun s => (s, O.value w.chan.solver.2 w.chan.solver.1 (Expr.ofSym s)))) ∧
      Inv U w' ∧ w'.chan.solver = w.chan.solver ∧ w'.pendingPop = w.pendingPop ∧ w'.vars = w.vars ∧ w'.sorts = w.sorts
  | [], w, hI, _, _ => ⟨w, rfl, hI, rfl, rfl, rfl, rfl⟩
  | s :: ss, w, hI, hsat, hin => by
    have he : exprInScope (levelsOf w) (Expr.ofSym s) = true := by
      simp [exprInScope, Expr.ofSym, hin s (List.mem_cons_self ..)]
    obtain ⟨e1, i1⟩ := getValue_ok hI hsat (Expr.ofSym s) he
    obtain ⟨w', e2, i2, hs, hp, hv, hso⟩ := getValues_ok ss (w := valuedState w (Expr.ofSym s)) i1 hsat
      (fun s hs => hin s (List.mem_cons_of_mem _ hs))
    refine ⟨w', ?_, i2, hs, hp, hv, hso⟩
    show (getValue (Expr.ofSym s) >>= fun v => getValues ss >>= fun rest => pure ((s, v) :: rest)) w = _
    rw [M.bind_ok e1, M.bind_ok e2]
    rfl

theorem getModel_ok {U : Universe} {w : W O} (hI : Inv U w) (hsat : w.chan.solver.1.satMode = true) :
    ∃ w', getModel w = (w', .ok ((w.vars.reverse.flatMap id).map fun s =>
        (s, O.value w.chan.solver.2 w.chan.solver.1 (Expr.ofSym s)))) ∧
      Inv U w' ∧ w'.chan.solver = w.chan.solver ∧ w'.pendingPop = w.pendingPop ∧ w'.vars = w.vars ∧ w'.sorts = w.sorts := by
  have hin : ∀ s ∈ w.vars.reverse.flatMap id, symInScope (levelsOf w) s = true := by
    intro s hs
    rw [symInScope_iff]
    simp only [List.mem_flatMap, List.mem_reverse, id] at hs
    obtain ⟨l, hl, hsl⟩ := hs
    rw [hI.vars, List.mem_map] at hl
    obtain ⟨lv, hlv, rfl⟩ := hl
    simp only [scopeSyms, List.mem_flatMap]
    exact ⟨lv, hlv, hsl⟩
  obtain ⟨w', e, r⟩ := getValues_ok (w.vars.reverse.flatMap id) hI hsat hin
  refine ⟨w', ?_, r⟩
  show (M.get >>= fun w => getValues (w.vars.reverse.flatMap id)) w = _
  rw [M.bind_ok (M.run_get w)]; exact e

/-! ## is_sat -/

theorem levels_checkedState (w : W O) : levelsOf (checkedState w) = levelsOf w := rfl

theorem isSat_ok {U : Universe} {w : W O} (hI : Inv U w) (e : Expr) (he : ExprOk U e) :
    ∃ w3 : W O, Inv U w3 ∧ w3.pendingPop = false ∧
      (levelsOf w3).map (·.asserts) = (addAssert e (({} : Level) :: clearedLevels w)).map (·.asserts) ∧
      w3.chan.solver.2 = w.chan.solver.2 ∧
      isSat e w = (({ checkedState w3 with pendingPop := true } : W O),
                   verdictResult (O.verdict w3.chan.solver.2 w3.chan.solver.1).1) ∧
      Inv U ({ checkedState w3 with pendingPop := true } : W O) := by
  obtain ⟨w1, e1, i1, p1, l1, o1⟩ := push_ok hI 1
  have hc1 : clearedLevels w1 = levelsOf w1 := by simp [clearedLevels, p1]
  obtain ⟨w2, e2, i2, p2, len2, a2, o2⟩ := addAssertion_ok i1 e he
  have hc2 : clearedLevels w2 = levelsOf w2 := by simp [clearedLevels, p2]
  obtain ⟨w3, e3, i3, p3, l3, o3, e4, i4⟩ := solve_ok i2
  have hlen : 2 ≤ (levelsOf w3).length := by
    rw [l3, hc2, len2, hc1, l1]
    have : clearedLevels w ≠ [] := by
      obtain ⟨w0, _, i0, _, l0, _⟩ := clearPendingPop_ok hI
      have := i0.nonempty
      rw [l0] at this
      exact this
    cases h : clearedLevels w with
    | nil => exact absurd h this
    | cons _ _ => simp
  refine ⟨w3, i3, p3, ?_, ?_, ?_, ?_⟩
  · rw [l3, hc2, a2, hc1, l1]; rfl
  · rw [o3, o2, o1]
  · show (push 1 >>= fun _ => M.tryFinally (addAssertion e >>= fun _ => solve)
      (fun w => { w with pendingPop := true })) w = _
    rw [M.bind_ok e1, M.run_tryFinally, M.bind_ok e2, e4]
  · exact i4.setPending true (fun _ => by rw [levels_checkedState]; exact hlen)

/-! ## whole objects -/

/-- Preconditions of the API calls (documented by pySMT, or inherent to the text interface):
    `pop` stays within the levels the user pushed (the first level and the level `is_sat` leaves behind are not
    the user's); model values are asked for only in sat mode; `get_value` only mentions symbols in scope (F36);
    formulas come from one environment. -/
def LegalCall (U : Universe) (w : W O) : Api → Prop
  | .addAssertion e => ExprOk U e
  | .push _ => True
  | .pop n => n < (clearedLevels w).length
  | .resetAssertions => True
  | .solve => True
  | .getValue e => w.chan.solver.1.satMode = true ∧ exprInScope (levelsOf w) e = true
  | .getModel => w.chan.solver.1.satMode = true
  | .isSat e => ExprOk U e
  | .isValid e => ExprOk U e
  | .isUnsat e => ExprOk U e
  | .exit => True

/-- every call of the sequence is legal in the state in which it is made (calls on an exited object do nothing) -/
def LegalRun (U : Universe) : W O → List Api → Prop
  | _, [] => True
  | w, a :: as => (w.dead = false → LegalCall U w a) ∧ LegalRun U (step w a).1 as

/-- what survives `exit()` -/
structure Final (w : W O) : Prop where
  vars : w.vars = (levelsOf w).map (·.syms)
  sorts : w.sorts = (levelsOf w).map (·.sorts)
  accepted : exec O (State.init, O.init) (stream w) = some w.chan.solver

theorem Inv.final {U : Universe} {w : W O} (h : Inv U w) : Final w := ⟨h.vars, h.sorts, h.accepted⟩

def GInv (U : Universe) (w : W O) : Prop := Inv U w ∨ (w.dead = true ∧ Final w)

theorem GInv.final {U : Universe} {w : W O} (h : GInv U w) : Final w := by
  rcases h with h | ⟨_, h⟩
  · exact h.final
  · exact h

theorem stream_snoc_send {S : Solver} (w w' : WState S) (c : Cmd)
    (h : w'.chan.trace = w.chan.trace ++ [Event.send c]) : stream w' = stream w ++ [c] := by
  simp [stream, h, List.filterMap_append]

theorem exit_ok {U : Universe} {w : W O} (hI : Inv U w) : (exitBody w).1.dead = true ∧ Final (exitBody w).1 := by
  have hl : legal w.chan.solver.1 .exit = true := by simp [legal, hI.notExited]
  have hr := respond_silent w.chan.solver .exit hl (by simp) (by simp)
  have hs : (exitBody w).1.chan.solver = (next w.chan.solver.1 .unknown .exit, w.chan.solver.2) := by
    show (respond O w.chan.solver .exit).1 = _
    rw [hr]
  refine ⟨rfl, ?_, ?_, ?_⟩
  · show w.vars = (exitBody w).1.chan.solver.1.levels.map (·.syms)
    rw [hs]; exact hI.vars
  · show w.sorts = (exitBody w).1.chan.solver.1.levels.map (·.sorts)
    rw [hs]; exact hI.sorts
  · have h := exec_snoc _ _ _ .exit hI.accepted (by rw [hr]; rfl)
    rw [stream_snoc_send w (exitBody w).1 .exit rfl]
    exact h

theorem call_inv {U : Universe} {w : W O} (hI : Inv U w) (a : Api) (hl : LegalCall U w a) : GInv U (call a w).1 := by
  cases a with
  | addAssertion e =>
    obtain ⟨w', h, i, _⟩ := addAssertion_ok hI e hl
    left; simp only [call, outOf_fst, h]; exact i
  | push n =>
    obtain ⟨w', h, i, _⟩ := push_ok hI n
    left; simp only [call, outOf_fst, h]; exact i
  | pop n =>
    obtain ⟨w', h, i, _⟩ := pop_ok hI n hl
    left; simp only [call, outOf_fst, h]; exact i
  | resetAssertions =>
    obtain ⟨w', h, i, _⟩ := resetAssertions_ok hI
    left; simp only [call, outOf_fst, h]; exact i
  | solve =>
    obtain ⟨w1, _, _, _, _, _, h, i⟩ := solve_ok hI
    left; simp only [call, outOf_fst, h]; exact i
  | getValue e =>
    obtain ⟨h, i⟩ := getValue_ok hI hl.1 e hl.2
    left; simp only [call, outOf_fst, h]; exact i
  | getModel =>
    obtain ⟨w', h, i, _⟩ := getModel_ok hI hl
    left; simp only [call, outOf_fst, h]; exact i
  | isSat e =>
    obtain ⟨w3, _, _, _, _, h, i⟩ := isSat_ok hI e hl
    left; simp only [call, outOf_fst, h]; exact i
  | isValid e =>
    obtain ⟨w3, _, _, _, _, h, i⟩ := isSat_ok hI e hl
    left; simp only [call, outOf_fst, h]; exact i
  | isUnsat e =>
    obtain ⟨w3, _, _, _, _, h, i⟩ := isSat_ok hI e hl
    left; simp only [call, outOf_fst, h]; exact i
  | exit =>
    right; simp only [call, outOf_fst]; exact exit_ok hI

theorem step_ginv {U : Universe} {w : W O} (h : GInv U w) (a : Api) (hl : w.dead = false → LegalCall U w a) :
    GInv U (step w a).1 := by
  unfold step
  rcases h with hI | ⟨hd, hf⟩
  · simp only [hI.alive, Bool.false_eq_true, if_false]
    exact call_inv hI a (hl hI.alive)
  · simp only [hd, if_true]
    exact Or.inr ⟨hd, hf⟩

theorem runFrom_ginv {U : Universe} : ∀ (ops : List Api) (w : W O), GInv U w → LegalRun U w ops → GInv U (runFrom w ops).1
  | [], _, h, _ => h
  | a :: as, w, h, hl => runFrom_ginv as (step w a).1 (step_ginv h a hl.1) hl.2

/-! ## the constructor -/

def createdState (O : Oracle) (logic : String) : W O :=
  { vars := [[]], sorts := [[]], pendingPop := false, dead := false,
    chan := ⟨({ State.init with logicSet := true }, O.init), [],
      [.send (.setOption ":print-success" "true"), .recv .success,
       .send (.setOption ":diagnostic-output-channel" "\"stdout\""), .recv .success,
       .send (.setOption ":produce-models" "true"), .recv .success,
       .send (.setLogic logic), .recv .success]⟩ }

theorem sendSilent_strict' (w : W O) (c : Cmd) (hq : w.chan.queue = []) (hl : legal w.chan.solver.1 c = true)
    (hc : c ≠ .checkSat) (hg : ∀ e, c ≠ .getValue e) :
    sendSilent c w = (silentState w c w.vars w.sorts w.pendingPop, .ok ()) := sendSilent_strict w c hq hl hc hg

theorem create_strict (O : Oracle) (logic : String) : create (Solver.strict O) logic = createdState O logic := by
  let w0 : W O := blank (Solver.strict O)
  let c1 : Cmd := .setOption ":print-success" "true"
  let c2 : Cmd := .setOption ":diagnostic-output-channel" "\"stdout\""
  let c3 : Cmd := .setOption ":produce-models" "true"
  let c4 : Cmd := .setLogic logic
  let w1 : W O := silentState w0 c1 w0.vars w0.sorts w0.pendingPop
  let w2 : W O := silentState w1 c2 w1.vars w1.sorts w1.pendingPop
  let w3 : W O := silentState w2 c3 w2.vars w2.sorts w2.pendingPop
  have e1 : sendSilent c1 w0 = (w1, .ok ()) :=
    sendSilent_strict' w0 c1 rfl (by show legal State.init c1 = true; decide) (by simp [c1]) (by simp [c1])
  have e2 : sendSilent c2 w1 = (w2, .ok ()) :=
    sendSilent_strict' w1 c2 rfl (by show legal State.init c2 = true; decide) (by simp [c2]) (by simp [c2])
  have e3 : sendSilent c3 w2 = (w3, .ok ()) :=
    sendSilent_strict' w2 c3 rfl (by show legal State.init c3 = true; decide) (by simp [c3]) (by simp [c3])
  have e4 : sendSilent c4 w3 = (createdState O logic, .ok ()) :=
    sendSilent_strict' w3 c4 rfl (by show legal State.init c4 = true; rfl) (by simp [c4]) (by simp [c4])
  have : initBody logic (blank (Solver.strict O)) = (createdState O logic, .ok ()) := by
    show (sendSilent c1 >>= fun _ => sendSilent c2 >>= fun _ => sendSilent c3 >>= fun _ => sendSilent c4) w0 = _
    rw [M.bind_ok e1, M.bind_ok e2, M.bind_ok e3, e4]
  unfold create
  rw [this]

theorem inv_created (U : Universe) (O : Oracle) (logic : String) : Inv U (createdState O logic) where
  queue := rfl
  alive := rfl
  logic := rfl
  notExited := rfl
  vars := rfl
  sorts := rfl
  nonempty := by simp [levelsOf, createdState, State.init]
  pending := by intro h; cases h
  accepted := by
    simp only [stream, createdState, List.filterMap_cons, exec]
    rfl
  usyms := by simp [levelsOf, createdState, State.init, scopeSyms]
  usorts := by simp [levelsOf, createdState, State.init, scopeSorts]

end PySMT.SmtSolver
