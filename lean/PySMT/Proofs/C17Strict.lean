import PySMT.Proofs.C17Sync
/-!
# C17, part 2: the wrapper against the strict front end

The invariant `Inv` ties the wrapper's bookkeeping to the state of the strict solver it talks to; every
user-legal API call preserves it, and the strict solver never answers `(error …)`.
-/
namespace PySMT.SmtSolver
open PySMT.StrictSolver

/-! ## scope lemmas about the strict front end (specification side) -/

def scopeSorts (ls : List Level) : List SortDecl := ls.flatMap (·.sorts)

theorem symInScope_iff (ls : List Level) (s : Sym) : symInScope ls s = true ↔ s ∈ scopeSyms ls := by
  simp [symInScope, scopeSyms, List.any_eq_true, List.mem_flatMap]

theorem sortInScope_iff (ls : List Level) (d : SortDecl) : sortInScope ls d = true ↔ d ∈ scopeSorts ls := by
  simp [sortInScope, scopeSorts, List.any_eq_true, List.mem_flatMap]

theorem symNameInScope_iff (ls : List Level) (n : String) :
    symNameInScope ls n = true ↔ ∃ s ∈ scopeSyms ls, s.name = n := by
  simp only [symNameInScope, scopeSyms, List.any_eq_true, List.mem_flatMap, beq_iff_eq]
  constructor
  · rintro ⟨l, hl, s, hs, h⟩; exact ⟨s, ⟨l, hl, hs⟩, h⟩
  · rintro ⟨s, ⟨l, hl, hs⟩, h⟩; exact ⟨l, hl, s, hs, h⟩

theorem sortNameInScope_iff (ls : List Level) (n : String) :
    sortNameInScope ls n = true ↔ ∃ d ∈ scopeSorts ls, d.name = n := by
  simp only [sortNameInScope, scopeSorts, List.any_eq_true, List.mem_flatMap, beq_iff_eq]
  constructor
  · rintro ⟨l, hl, s, hs, h⟩; exact ⟨s, ⟨l, hl, hs⟩, h⟩
  · rintro ⟨s, ⟨l, hl, hs⟩, h⟩; exact ⟨l, hl, s, hs, h⟩

@[simp] theorem scopeSyms_addSort (d : SortDecl) (ls : List Level) : scopeSyms (addSort d ls) = scopeSyms ls := by
  cases ls <;> simp [addSort, scopeSyms]
@[simp] theorem scopeSyms_addAssert (e : Expr) (ls : List Level) : scopeSyms (addAssert e ls) = scopeSyms ls := by
  cases ls <;> simp [addAssert, scopeSyms]
@[simp] theorem scopeSorts_addSym (s : Sym) (ls : List Level) : scopeSorts (addSym s ls) = scopeSorts ls := by
  cases ls <;> simp [addSym, scopeSorts]
@[simp] theorem scopeSorts_addAssert (e : Expr) (ls : List Level) : scopeSorts (addAssert e ls) = scopeSorts ls := by
  cases ls <;> simp [addAssert, scopeSorts]
theorem scopeSyms_addSym (s : Sym) (ls : List Level) (h : ls ≠ []) : scopeSyms (addSym s ls) = s :: scopeSyms ls := by
  cases ls with
  | nil => exact absurd rfl h
  | cons l r => simp [addSym, scopeSyms]
theorem scopeSorts_addSort (d : SortDecl) (ls : List Level) (h : ls ≠ []) : scopeSorts (addSort d ls) = d :: scopeSorts ls := by
  cases ls with
  | nil => exact absurd rfl h
  | cons l r => simp [addSort, scopeSorts]

@[simp] theorem map_syms_addSort (d : SortDecl) (ls : List Level) : (addSort d ls).map (·.syms) = ls.map (·.syms) := by
  cases ls <;> simp [addSort]
@[simp] theorem map_syms_addAssert (e : Expr) (ls : List Level) : (addAssert e ls).map (·.syms) = ls.map (·.syms) := by
  cases ls <;> simp [addAssert]
@[simp] theorem map_sorts_addSym (s : Sym) (ls : List Level) : (addSym s ls).map (·.sorts) = ls.map (·.sorts) := by
  cases ls <;> simp [addSym]
@[simp] theorem map_sorts_addAssert (e : Expr) (ls : List Level) : (addAssert e ls).map (·.sorts) = ls.map (·.sorts) := by
  cases ls <;> simp [addAssert]
theorem map_syms_addSym (s : Sym) (ls : List Level) : (addSym s ls).map (·.syms) = addTop s (ls.map (·.syms)) := by
  cases ls <;> simp [addSym, addTop]
theorem map_sorts_addSort (d : SortDecl) (ls : List Level) : (addSort d ls).map (·.sorts) = addTop d (ls.map (·.sorts)) := by
  cases ls <;> simp [addSort, addTop]

@[simp] theorem length_addSort (d : SortDecl) (ls : List Level) : (addSort d ls).length = ls.length := by
  cases ls <;> simp [addSort]
@[simp] theorem length_addSym (s : Sym) (ls : List Level) : (addSym s ls).length = ls.length := by
  cases ls <;> simp [addSym]
@[simp] theorem length_addAssert (e : Expr) (ls : List Level) : (addAssert e ls).length = ls.length := by
  cases ls <;> simp [addAssert]

theorem ne_nil_of_length {α : Type} {l l' : List α} (h : l'.length = l.length) (hl : l ≠ []) : l' ≠ [] := by
  intro h'; rw [h'] at h; cases l with
  | nil => exact hl rfl
  | cons _ _ => simp at h

theorem inAny_map_syms (ls : List Level) (s : Sym) : inAny (ls.map (·.syms)) s = symInScope ls s := by
  simp [inAny, symInScope, List.any_map, Function.comp_def]
theorem inAny_map_sorts (ls : List Level) (d : SortDecl) : inAny (ls.map (·.sorts)) d = sortInScope ls d := by
  simp [inAny, sortInScope, List.any_map, Function.comp_def]

theorem scopeSyms_drop_subset (n : Nat) (ls : List Level) : ∀ s ∈ scopeSyms (ls.drop n), s ∈ scopeSyms ls := by
  intro s hs
  simp only [scopeSyms, List.mem_flatMap] at hs ⊢
  obtain ⟨l, hl, h⟩ := hs
  exact ⟨l, List.mem_of_mem_drop hl, h⟩
theorem scopeSorts_drop_subset (n : Nat) (ls : List Level) : ∀ s ∈ scopeSorts (ls.drop n), s ∈ scopeSorts ls := by
  intro s hs
  simp only [scopeSorts, List.mem_flatMap] at hs ⊢
  obtain ⟨l, hl, h⟩ := hs
  exact ⟨l, List.mem_of_mem_drop hl, h⟩
@[simp] theorem scopeSyms_replicate (n : Nat) (ls : List Level) : scopeSyms (List.replicate n {} ++ ls) = scopeSyms ls := by
  induction n with
  | zero => simp
  | succ k ih => simp only [List.replicate_succ, List.cons_append, scopeSyms, List.flatMap_cons] at ih ⊢; simpa using ih
@[simp] theorem scopeSorts_replicate (n : Nat) (ls : List Level) : scopeSorts (List.replicate n {} ++ ls) = scopeSorts ls := by
  induction n with
  | zero => simp
  | succ k ih => simp only [List.replicate_succ, List.cons_append, scopeSorts, List.flatMap_cons] at ih ⊢; simpa using ih

end PySMT.SmtSolver
