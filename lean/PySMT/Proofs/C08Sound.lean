import PySMT.Impl.Parser
import PySMT.Spec.SmtlibText
import PySMT.Proofs.C06Bool
/-!
# C08: `readTerm_sound_partial` — the parser model against the standard reader, propositional fragment

Fragment (`PropFrag`, decidable): plain symbol tokens (declared constants, `true`, `false`) under `not`, `and`, `or`
(two or more arguments), `=>` and `xor` (two arguments), nested arbitrarily. For every such text, in corresponding
environments (`EnvRel`: every constant the standard environment declares is bound to the same symbol in the parser's
cache; no definitions), if the parser model accepts and the standard reader accepts, the two terms have the same truth value
under every interpretation. The terms themselves differ (`Not(Not x)` is `x` for pySMT), which is why the statement is
semantic.

Not covered (hence `_partial`): `ite`, `=`, `distinct`, arithmetic, bit-vectors, arrays, strings (they need the typing
invariant `readTerm_wt`, which is not proved), `let`, quantifiers, definitions, annotations; F16 (tolerant numerals) and F17
(capturing application of definitions) are outside the fragment by construction.
-/
namespace PySMT.Parser.Sound
open PySMT PySMT.Parser PySMT.C06 PySMT.Std PySMT.Sexp

def connectives : List String := ["not", "and", "or", "=>", "xor"]

def arityOK (hd : String) (n : Nat) : Bool :=
  if hd == "not" then n == 1 else if hd == "=>" || hd == "xor" then n == 2 else decide (2 ≤ n)

/-- a plain symbol token: not the spelling of a literal, keyword or reserved word, and written without bars -/
def plainSym (tok : String) : Bool :=
  !(isNonSymbolChars tok.toList) && (tok.toList.head? != some '|')

mutual
def PropFrag : Sexp → Bool
  | .atom tok => plainSym tok
  | .str _ => false
  | .list l => PropFragHead l
def PropFragHead : List Sexp → Bool
  | .atom hd :: args => connectives.contains hd && arityOK hd args.length && PropFragL args
  | _ => false
def PropFragL : List Sexp → Bool
  | [] => true
  | s :: r => PropFrag s && PropFragL r
end

/-- corresponding environments -/
structure EnvRel (binds : List (String × Parser.Val)) (env : SEnv) : Prop where
  tt : lookup "true" binds = some (.term Term.tt)
  ff : lookup "false" binds = some (.term Term.ff)
  funs : ∀ n s, n ≠ "true" → n ≠ "false" → env.lookupFun n = some s → s.params = [] →
    lookup n binds = some (.term (Term.sym s))
  nodefs : ∀ n, env.lookupDef n = none

/-! ## tokens -/

theorem plain_facts {tok : String} (h : plainSym tok = true) :
    symName? tok = some tok ∧ numeral? tok = none ∧ decimal? tok = none ∧ binary? tok = none ∧ hex? tok = none := by
  simp only [plainSym, Bool.and_eq_true, Bool.not_eq_true', bne_iff_ne, ne_eq] at h
  obtain ⟨hns, hhd⟩ := h
  have hsb : stripBars tok.toList = none := by
    unfold stripBars
    split
    · next cs heq => exact absurd (by rw [heq]; rfl) hhd
    · rfl
  have hns' := hns
  simp only [isNonSymbolChars, Bool.or_eq_false_iff] at hns'
  obtain ⟨⟨⟨⟨⟨h1, h2⟩, h3⟩, h4⟩, _⟩, _⟩ := hns'
  refine ⟨?_, ?_, ?_, ?_, ?_⟩
  · simp [symName?, hsb, hns, hhd]
  · simp [numeral?, h1]
  · simp [decimal?, h2]
  · simp [binary?, h3]
  · simp [hex?, h4]

theorem pyTok_plain {tok : String} (h : plainSym tok = true) : pyTok tok = tok := by
  simp [pyTok, (plain_facts h).1]

/-! ## the two readers on an atom -/

theorem atom_sound (env : SEnv) (Γ : PEnv) (lone : Bool) (hrel : EnvRel Γ.binds env) (tok : String)
    (hp : plainSym tok = true) (v : Parser.Val) (σ : MgrSt) (t' : Term) (ty : Ty)
    (hpy : rdVal Γ lone (.atom tok) = .ok (v, σ)) (hstd : rd env [] (.atom tok) = .ok (t', ty)) :
    v = .term t' := by
  obtain ⟨hsym, hnum, hdec, hbin, hhex⟩ := plain_facts hp
  have hpt := pyTok_plain hp
  -- the standard reader
  rw [rd] at hstd
  simp only [atomTerm, hnum, hdec, hbin, hhex, hsym, lookupScope] at hstd
  -- the parser
  simp only [rdVal, atomVal, hpt] at hpy
  by_cases h1 : tok = "true"
  · subst h1
    simp only [hrel.tt, Except.map] at hpy
    simp at hstd
    cases hpy; rw [← hstd.1]
  · by_cases h2 : tok = "false"
    · subst h2
      simp only [hrel.ff, Except.map] at hpy
      simp at hstd
      cases hpy; rw [← hstd.1]
    · have h1' : (tok == "true") = false := by simpa using h1
      have h2' : (tok == "false") = false := by simpa using h2
      simp only [h1', h2', Bool.false_eq_true, if_false] at hstd
      cases hf : env.lookupFun tok with
      | none => simp [hf, hrel.nodefs tok] at hstd
      | some s =>
        simp only [hf] at hstd
        by_cases hps : s.params.isEmpty = true
        · simp only [hps, if_true, Except.ok.injEq, Prod.mk.injEq] at hstd
          have := hrel.funs tok s h1 h2 hf (by simpa using hps)
          simp only [this, Except.map] at hpy
          cases hpy; rw [← hstd.1]
        · simp [hps] at hstd

/-! ## manager calls of the five connectives -/

theorem termArgs_map (ts : List Term) : Mk.termArgs (ts.map Mk.Arg.t) = .ok ts := by
  induction ts with
  | nil => rfl
  | cons t rest ih => simp [Mk.termArgs, ih, bind, Except.bind]

theorem termsOf_map (ts : List Term) : termsOf (ts.map Parser.Val.term) = some ts := by
  induction ts with
  | nil => rfl
  | cons t rest ih => simp [termsOf, ih]

theorem call_not (a : Term) : Mk.call "Not" [.t a] = Mk.Not a := by simp [Mk.call, Mk.asTerm]
theorem call_implies (a b : Term) : Mk.call "Implies" [.t a, .t b] = Mk.Implies a b := by simp [Mk.call, Mk.asTerm]
theorem call_xor (a b : Term) : Mk.call "Xor" [.t a, .t b] = Mk.Xor a b := by simp [Mk.call, Mk.asTerm]
theorem call_and (ts : List Term) : Mk.call "And" (ts.map .t) = Mk.And ts := by
  simp [Mk.call, termArgs_map, bind, Except.bind]
theorem call_or (ts : List Term) : Mk.call "Or" (ts.map .t) = Mk.Or ts := by
  simp [Mk.call, termArgs_map, bind, Except.bind]

theorem liftMk_ok {r : Mk.R} {t : Term} (h : liftMk r = .ok t) : r = .ok t := by
  unfold liftMk at h
  split at h
  · cases h; rfl
  · cases h

theorem callMgr_not (a : Term) : callMgr "Not" [a] = liftMk (Mk.Not a) := by
  simp [callMgr, mgrArity, call_not]
theorem callMgr_implies (a b : Term) : callMgr "Implies" [a, b] = liftMk (Mk.Implies a b) := by
  simp [callMgr, mgrArity, call_implies]
theorem callMgr_xor (a b : Term) : callMgr "Xor" [a, b] = liftMk (Mk.Xor a b) := by
  simp [callMgr, mgrArity, call_xor]
theorem callMgr_and (ts : List Term) : callMgr "And" ts = liftMk (Mk.And ts) := by
  simp [callMgr, mgrArity, call_and]
theorem callMgr_or (ts : List Term) : callMgr "Or" ts = liftMk (Mk.Or ts) := by
  simp [callMgr, mgrArity, call_or]

theorem fn_not : (tableLookup "not").bind fnOfEntry = some (.mgr "Not") := by
  have : tableLookup "not" = some (.mgr "Not") := by decide
  simp [this, fnOfEntry]
theorem fn_and : (tableLookup "and").bind fnOfEntry = some (.mgr "And") := by
  have : tableLookup "and" = some (.mgr "And") := by decide
  simp [this, fnOfEntry]
theorem fn_or : (tableLookup "or").bind fnOfEntry = some (.mgr "Or") := by
  have : tableLookup "or" = some (.mgr "Or") := by decide
  simp [this, fnOfEntry]
theorem fn_implies : (tableLookup "=>").bind fnOfEntry = some (.mgr "Implies") := by
  have : tableLookup "=>" = some (.mgr "Implies") := by decide
  simp [this, fnOfEntry]
theorem fn_xor : (tableLookup "xor").bind fnOfEntry = some (.mgr "Xor") := by
  have : tableLookup "xor" = some (.mgr "Xor") := by decide
  simp [this, fnOfEntry]

/-! ## truth values of the nodes the standard reader builds -/

theorem truth_node_and (I : Interp) (ts : List Term) (p : Payload) :
    truth I (.node .and ts p) = ts.all (truth I) := by
  unfold truth
  rw [eval_op I .and _ _ (by decide) (by decide) (by decide) (by decide), evalOp_and]
  simp [isTrue_b, List.all_map, Function.comp_def]

theorem truth_node_or (I : Interp) (ts : List Term) (p : Payload) :
    truth I (.node .or ts p) = ts.any (truth I) := by
  unfold truth
  rw [eval_op I .or _ _ (by decide) (by decide) (by decide) (by decide), evalOp_or]
  simp [isTrue_b, List.any_map, Function.comp_def]

theorem truth_node_implies (I : Interp) (a b : Term) (p : Payload) :
    truth I (.node .implies [a, b] p) = (!truth I a || truth I b) := by
  unfold truth
  rw [eval_op I .implies _ _ (by decide) (by decide) (by decide) (by decide)]
  simp only [List.map_cons, List.map_nil, evalOp_implies, isTrue_b]

theorem truth_node_iff (I : Interp) (a b : Term) (p : Payload) :
    truth I (.node .iff [a, b] p) = (truth I a == truth I b) := by
  unfold truth
  rw [eval_op I .iff _ _ (by decide) (by decide) (by decide) (by decide)]
  simp only [List.map_cons, List.map_nil, evalOp_iff, isTrue_b]

theorem all_congr_map (I : Interp) (ts : List Term) (tts : List (Term × Ty))
    (h : ts.map (truth I) = tts.map (fun p => truth I p.1)) :
    ts.all (truth I) = (tts.map (·.1)).all (truth I) := by
  have h1 : ts.all (truth I) = (ts.map (truth I)).all id := by simp [List.all_map]
  have h2 : (tts.map (·.1)).all (truth I) = (tts.map (fun p => truth I p.1)).all id := by
    simp [List.all_map, Function.comp_def]
  rw [h1, h2, h]

theorem any_congr_map (I : Interp) (ts : List Term) (tts : List (Term × Ty))
    (h : ts.map (truth I) = tts.map (fun p => truth I p.1)) :
    ts.any (truth I) = (tts.map (·.1)).any (truth I) := by
  have h1 : ts.any (truth I) = (ts.map (truth I)).any id := by simp [List.any_map]
  have h2 : (tts.map (·.1)).any (truth I) = (tts.map (fun p => truth I p.1)).any id := by
    simp [List.any_map, Function.comp_def]
  rw [h1, h2, h]

/-! ## one connective applied to corresponding arguments -/

theorem apply_sound (hd : String) (hmem : hd ∈ connectives) (ts : List Term) (tts : List (Term × Ty))
    (har : arityOK hd ts.length = true) (hlen : ts.length = tts.length)
    (htr : ∀ I, ts.map (truth I) = tts.map (fun p => truth I p.1))
    (f : Fn) (hf : (tableLookup hd).bind fnOfEntry = some f)
    (v : Parser.Val) (hpy : applyFn f (ts.map .term) = .ok v)
    (t' : Term) (ty : Ty) (hstd : applyTheory hd tts = .ok (t', ty)) :
    ∃ t, v = .term t ∧ ∀ I, truth I t = truth I t' := by
  simp only [connectives, List.mem_cons, List.mem_nil_iff, or_false] at hmem
  rcases hmem with rfl | rfl | rfl | rfl | rfl
  · -- not
    have hfn : f = .mgr "Not" := by
      rw [fn_not] at hf; exact (Option.some.inj hf).symm
    subst hfn
    have hl : ts.length = 1 := by simpa [arityOK] using har
    match ts, tts, hl, hlen with
    | [a], [(a', tya)], _, _ =>
      simp only [applyFn, List.map_cons, List.map_nil, termsOf, Option.map, callMgr_not, Except.map] at hpy
      cases hr : liftMk (Mk.Not a) with
      | error e => simp [hr] at hpy
      | ok t =>
        simp only [hr, Except.ok.injEq] at hpy
        refine ⟨t, hpy.symm, fun I => ?_⟩
        rw [not_truth I (liftMk_ok hr)]
        simp only [applyTheory] at hstd
        split at hstd
        · cases hstd
          have := htr I
          simp only [List.map_cons, List.map_nil, List.cons.injEq, and_true] at this
          simp [Std.node, truth_node_not, this]
        · cases hstd
  · -- and
    have hfn : f = .mgr "And" := by
      rw [fn_and] at hf; exact (Option.some.inj hf).symm
    subst hfn
    simp only [applyFn, termsOf_map, Option.map, callMgr_and, Except.map] at hpy
    cases hr : liftMk (Mk.And ts) with
    | error e => simp [hr] at hpy
    | ok t =>
      simp only [hr, Except.ok.injEq] at hpy
      refine ⟨t, hpy.symm, fun I => ?_⟩
      rw [and_truth I (liftMk_ok hr)]
      simp only [applyTheory] at hstd
      split at hstd
      · cases hstd
        simp only [Std.node, if_true, beq_self_eq_true]
        rw [truth_node_and]
        exact all_congr_map I ts tts (htr I)
      · cases hstd
  · -- or
    have hfn : f = .mgr "Or" := by
      rw [fn_or] at hf; exact (Option.some.inj hf).symm
    subst hfn
    simp only [applyFn, termsOf_map, Option.map, callMgr_or, Except.map] at hpy
    cases hr : liftMk (Mk.Or ts) with
    | error e => simp [hr] at hpy
    | ok t =>
      simp only [hr, Except.ok.injEq] at hpy
      refine ⟨t, hpy.symm, fun I => ?_⟩
      rw [or_truth I (liftMk_ok hr)]
      simp only [applyTheory] at hstd
      split at hstd
      · cases hstd
        have hne : ("or" == "and") = false := by decide
        simp only [Std.node, hne, Bool.false_eq_true, if_false]
        rw [truth_node_or]
        exact any_congr_map I ts tts (htr I)
      · cases hstd
  · -- =>
    have hfn : f = .mgr "Implies" := by
      rw [fn_implies] at hf; exact (Option.some.inj hf).symm
    subst hfn
    have hl : ts.length = 2 := by simpa [arityOK] using har
    match ts, tts, hl, hlen with
    | [a, b], [(a', tya), (b', tyb)], _, _ =>
      simp only [applyFn, List.map_cons, List.map_nil, termsOf, Option.map, callMgr_implies, Except.map] at hpy
      cases hr : liftMk (Mk.Implies a b) with
      | error e => simp [hr] at hpy
      | ok t =>
        simp only [hr, Except.ok.injEq] at hpy
        refine ⟨t, hpy.symm, fun I => ?_⟩
        rw [implies_truth I (liftMk_ok hr)]
        simp only [applyTheory] at hstd
        split at hstd
        · simp only [List.reverse_cons, List.reverse_nil, List.nil_append, List.cons_append, List.foldl_cons,
            List.foldl_nil, Except.ok.injEq, Prod.mk.injEq] at hstd
          have := htr I
          simp only [List.map_cons, List.map_nil, List.cons.injEq, and_true] at this
          rw [← hstd.1]
          simp [Std.node, truth_node_implies, this.1, this.2]
        · cases hstd
  · -- xor
    have hfn : f = .mgr "Xor" := by
      rw [fn_xor] at hf; exact (Option.some.inj hf).symm
    subst hfn
    have hl : ts.length = 2 := by simpa [arityOK] using har
    match ts, tts, hl, hlen with
    | [a, b], [(a', tya), (b', tyb)], _, _ =>
      simp only [applyFn, List.map_cons, List.map_nil, termsOf, Option.map, callMgr_xor, Except.map] at hpy
      cases hr : liftMk (Mk.Xor a b) with
      | error e => simp [hr] at hpy
      | ok t =>
        simp only [hr, Except.ok.injEq] at hpy
        refine ⟨t, hpy.symm, fun I => ?_⟩
        rw [xor_truth I (liftMk_ok hr)]
        simp only [applyTheory] at hstd
        split at hstd
        · simp only [leftFold, List.foldlM_cons, List.foldlM_nil, bind, Except.bind, pure, Except.pure,
            Except.ok.injEq, Prod.mk.injEq] at hstd
          have := htr I
          simp only [List.map_cons, List.map_nil, List.cons.injEq, and_true] at this
          rw [← hstd.1, truth_node_not, truth_node_iff, this.1, this.2]
          cases truth I a' <;> cases truth I b' <;> rfl
        · cases hstd

/-! ## the two readers on a compound term of the fragment -/

theorem rdArgs_length : ∀ (Γ : PEnv) (args : List Sexp) (vals : List Parser.Val) (σ : MgrSt),
    rdArgs Γ args = .ok (vals, σ) → vals.length = args.length
  | _, [], vals, σ, h => by
    simp only [rdArgs, Except.ok.injEq, Prod.mk.injEq] at h
    simp [← h.1]
  | Γ, s :: rest, vals, σ, h => by
    simp only [rdArgs] at h
    cases h1 : rdVal Γ false s with
    | error e => simp [h1] at h
    | ok r1 =>
      obtain ⟨v1, σ1⟩ := r1
      simp only [h1] at h
      cases h2 : rdArgs { Γ with mgr := σ1 } rest with
      | error e => simp [h2] at h
      | ok r2 =>
        obtain ⟨vs, σ2⟩ := r2
        simp only [h2, Except.ok.injEq, Prod.mk.injEq] at h
        rw [← h.1]
        simp [rdArgs_length _ rest vs σ2 h2]

theorem rdVal_conn (Γ : PEnv) (lone : Bool) (hd : String) (args : List Sexp) (hmem : hd ∈ connectives) :
    ∃ f, (tableLookup hd).bind fnOfEntry = some f ∧
      rdVal Γ lone (.list (.atom hd :: args)) =
        (match rdArgs Γ args with
         | .ok (vals, σ) => (applyFn f vals).map (fun v => (v, σ))
         | .error e => .error e) := by
  simp only [connectives, List.mem_cons, List.mem_nil_iff, or_false] at hmem
  rcases hmem with rfl | rfl | rfl | rfl | rfl
  · refine ⟨.mgr "Not", fn_not, ?_⟩
    have hp : pyTok "not" = "not" := by decide
    have ht : tableLookup "not" = some (.mgr "Not") := by decide
    rw [rdVal]; simp only [hp, ht, fnOfEntry]; rfl
  · refine ⟨.mgr "And", fn_and, ?_⟩
    have hp : pyTok "and" = "and" := by decide
    have ht : tableLookup "and" = some (.mgr "And") := by decide
    rw [rdVal]; simp only [hp, ht, fnOfEntry]; rfl
  · refine ⟨.mgr "Or", fn_or, ?_⟩
    have hp : pyTok "or" = "or" := by decide
    have ht : tableLookup "or" = some (.mgr "Or") := by decide
    rw [rdVal]; simp only [hp, ht, fnOfEntry]; rfl
  · refine ⟨.mgr "Implies", fn_implies, ?_⟩
    have hp : pyTok "=>" = "=>" := by decide
    have ht : tableLookup "=>" = some (.mgr "Implies") := by decide
    rw [rdVal]; simp only [hp, ht, fnOfEntry]; rfl
  · refine ⟨.mgr "Xor", fn_xor, ?_⟩
    have hp : pyTok "xor" = "xor" := by decide
    have ht : tableLookup "xor" = some (.mgr "Xor") := by decide
    rw [rdVal]; simp only [hp, ht, fnOfEntry]; rfl

theorem rd_conn (env : SEnv) (hd : String) (args : List Sexp) (hmem : hd ∈ connectives) :
    rd env [] (.list (.atom hd :: args)) =
      (match rdList env [] args with
       | .error e => .error e
       | .ok as => if as.isEmpty then .error "application without arguments" else applyTheory hd as) := by
  simp only [connectives, List.mem_cons, List.mem_nil_iff, or_false] at hmem
  rcases hmem with rfl | rfl | rfl | rfl | rfl <;>
  · rw [rd]
    simp (config := { decide := true }) only [Bool.false_eq_true, if_false, Bool.or_self]
    have hs : ∀ x ∈ ["not", "and", "or", "=>", "xor"], symName? x = some x := by decide
    first
      | (rw [hs _ (by decide)]
         cases rdList env [] args with
         | error e => rfl
         | ok as =>
           simp only [applySym, lookupScope, Option.isSome_none, Bool.false_eq_true, if_false]
           simp (config := { decide := true }) only [if_true])

mutual
theorem sound (env : SEnv) (lone : Bool) : (s : Sexp) → PropFrag s = true → ∀ (Γ : PEnv), EnvRel Γ.binds env →
    ∀ (v : Parser.Val) (σ : MgrSt) (t' : Term) (ty : Ty), rdVal Γ lone s = .ok (v, σ) → rd env [] s = .ok (t', ty) →
    ∃ t, v = .term t ∧ ∀ I, truth I t = truth I t'
  | .atom tok, hfr, Γ, hrel, v, σ, t', ty, hpy, hstd => by
    have hp : plainSym tok = true := by simpa [PropFrag] using hfr
    exact ⟨t', atom_sound env Γ lone hrel tok hp v σ t' ty hpy hstd, fun _ => rfl⟩
  | .str _, hfr, _, _, _, _, _, _, _, _ => by simp [PropFrag] at hfr
  | .list [], hfr, _, _, _, _, _, _, _, _ => by simp [PropFrag, PropFragHead] at hfr
  | .list (.str _ :: _), hfr, _, _, _, _, _, _, _, _ => by simp [PropFrag, PropFragHead] at hfr
  | .list (.list _ :: _), hfr, _, _, _, _, _, _, _, _ => by simp [PropFrag, PropFragHead] at hfr
  | .list (.atom hd :: args), hfr, Γ, hrel, v, σ, t', ty, hpy, hstd => by
    simp only [PropFrag, PropFragHead, Bool.and_eq_true, List.contains_iff_mem] at hfr
    obtain ⟨⟨hmem, har⟩, hargs⟩ := hfr
    obtain ⟨f, hf, heq⟩ := rdVal_conn Γ lone hd args hmem
    rw [heq] at hpy
    rw [rd_conn env hd args hmem] at hstd
    cases hra : rdArgs Γ args with
    | error e => simp [hra] at hpy
    | ok r =>
      obtain ⟨vals, σ1⟩ := r
      simp only [hra] at hpy
      cases hrl : rdList env [] args with
      | error e => simp [hrl] at hstd
      | ok tts =>
        simp only [hrl] at hstd
        obtain ⟨ts, hvals, hlen, htr⟩ := soundL env args hargs Γ hrel vals σ1 tts hra hrl
        have hl2 : ts.length = args.length := by
          have := rdArgs_length Γ args vals σ1 hra
          rw [hvals, List.length_map] at this; exact this
        subst hvals
        cases hap : applyFn f (ts.map .term) with
        | error e => simp [hap, Except.map] at hpy
        | ok v1 =>
          simp only [hap, Except.map, Except.ok.injEq, Prod.mk.injEq] at hpy
          by_cases hemp : tts.isEmpty = true
          · simp [hemp] at hstd
          · simp only [hemp, Bool.false_eq_true, if_false] at hstd
            obtain ⟨t, hv, ht⟩ := apply_sound hd hmem ts tts (hl2 ▸ har) hlen htr f hf v1 hap t' ty hstd
            exact ⟨t, by rw [← hpy.1, hv], ht⟩
theorem soundL (env : SEnv) : (l : List Sexp) → PropFragL l = true → ∀ (Γ : PEnv), EnvRel Γ.binds env →
    ∀ (vals : List Parser.Val) (σ : MgrSt) (tts : List (Term × Ty)), rdArgs Γ l = .ok (vals, σ) →
    rdList env [] l = .ok tts →
    ∃ ts : List Term, vals = ts.map Parser.Val.term ∧ ts.length = tts.length ∧
      ∀ I, ts.map (truth I) = tts.map (fun p => truth I p.1)
  | [], _, Γ, _, vals, σ, tts, hpy, hstd => by
    simp only [rdArgs, Except.ok.injEq, Prod.mk.injEq] at hpy
    simp only [rdList, Except.ok.injEq] at hstd
    exact ⟨[], by simp [← hpy.1], by simp [← hstd], fun _ => by simp [← hstd]⟩
  | s :: rest, hfr, Γ, hrel, vals, σ, tts, hpy, hstd => by
    simp only [PropFragL, Bool.and_eq_true] at hfr
    simp only [rdArgs] at hpy
    simp only [rdList] at hstd
    cases h1 : rdVal Γ false s with
    | error e => simp [h1] at hpy
    | ok r1 =>
      obtain ⟨v1, σ1⟩ := r1
      simp only [h1] at hpy
      cases h2 : rdArgs { Γ with mgr := σ1 } rest with
      | error e => simp [h2] at hpy
      | ok r2 =>
        obtain ⟨vs, σ2⟩ := r2
        simp only [h2, Except.ok.injEq, Prod.mk.injEq] at hpy
        cases h3 : rd env [] s with
        | error e => simp [h3] at hstd
        | ok tt1 =>
          obtain ⟨t1', ty1⟩ := tt1
          cases h4 : rdList env [] rest with
          | error e => simp [h3, h4] at hstd
          | ok tts2 =>
            simp only [h3, h4, Except.ok.injEq] at hstd
            obtain ⟨t1, hv1, ht1⟩ := sound env false s hfr.1 Γ hrel v1 σ1 t1' ty1 h1 h3
            obtain ⟨ts2, hvs, hlen, htr⟩ := soundL env rest hfr.2 { Γ with mgr := σ1 } hrel vs σ2 tts2 h2 h4
            refine ⟨t1 :: ts2, ?_, ?_, fun I => ?_⟩
            · rw [← hpy.1, hv1, hvs]; rfl
            · rw [← hstd]; simp [hlen]
            · rw [← hstd]; simp [ht1 I, htr I]
end

/-- **Soundness of the parser model on the propositional fragment**: whenever both the parser model and the standard
reader accept the text, the two terms have the same truth value under every interpretation. -/
theorem readTerm_sound (env : SEnv) (Γ : PEnv) (hrel : EnvRel Γ.binds env) (s : Sexp) (hfr : PropFrag s = true)
    (t t' : Term) (hpy : readTerm Γ s = .ok t) (hstd : readStd env [] s = .ok t') :
    ∀ I, truth I t = truth I t' := by
  unfold readTerm at hpy
  have hs : readStd env [] s = (rd env [] s).map (·.1) := by simp [readStd, readStdTy]
  rw [hs] at hstd
  cases h1 : rdVal Γ true s with
  | error e => simp [h1] at hpy
  | ok r =>
    obtain ⟨v, σ⟩ := r
    cases h2 : rd env [] s with
    | error e => simp [h2, Except.map] at hstd
    | ok tt =>
      obtain ⟨t2, ty⟩ := tt
      simp only [h2, Except.map, Except.ok.injEq] at hstd
      obtain ⟨t3, hv, ht⟩ := sound env true s hfr Γ hrel v σ t2 ty h1 h2
      subst hv
      simp only [h1, Except.ok.injEq] at hpy
      subst hpy; subst hstd
      exact ht

end PySMT.Parser.Sound
