/-
C13, "never handed to … a logic that cannot express it": the solver/logic selection of the Factory and the
`set-logic` of a generated script (models in Impl/FactorySelect.lean).
-/
import PySMT.Impl.FactorySelect
import PySMT.Proofs.C13Typed
namespace PySMT.FactorySelect
open PySMT PySMT.Logics PySMT.TheoryOracle PySMT.Features

theorem liftErr_ok {r : Except PyErr Logic} {c : Logic} (h : liftErr r = .ok c) : r = .ok c := by
  cases r with
  | ok l => simp only [liftErr, Except.ok.injEq] at h; rw [h]
  | error e => cases e <;> simp [liftErr] at h

theorem finish_ok {cls S : SolverClass} {g L : Logic} (h : finish cls g = .ok (S, L)) :
    S = cls ∧ IsClosest Logic.le cls.logics g L := by
  unfold finish at h
  split at h
  · rename_i c hc
    simp only [Except.ok.injEq, Prod.mk.injEq] at h
    obtain ⟨rfl, rfl⟩ := h
    exact ⟨rfl, get_closer_logic_spec _ _ _ (liftErr_ok hc)⟩
  · cases h

theorem bind_ok {ε α β : Type} {x : Except ε α} {f : α → Except ε β} {b : β} (h : x.bind f = .ok b) :
    ∃ a, x = .ok a ∧ f a = .ok b := by
  cases x with
  | ok a => exact ⟨a, rfl, h⟩
  | error e => cases h

theorem pickFavorite_mem {prefs : List String} {sl solvers : List SolverClass} {cls : SolverClass}
    (h : pickFavorite prefs sl solvers = .ok cls) : cls ∈ sl := by
  unfold pickFavorite at h
  split at h
  · split at h
    · rename_i s hs
      cases h
      exact List.mem_of_find?_eq_some hs
    · cases h
  · cases h

/-- whatever `_get_solver_class` returns: the class is one of the given ones (the named one, if a name was
given), and the logic is a closest logic of *that class's* `LOGICS` for the effective target -- the requested
logic if there is one, else the default logic (no name) or the class's most generic / the default logic -/
theorem getSolverClass_spec {sl : List SolverClass} {prefs : List String} {d : Logic}
    {name : Option String} {logic : Option Logic} {S : SolverClass} {L : Logic}
    (h : getSolverClass sl prefs d name logic = .ok (S, L)) :
    S ∈ sl ∧ (∀ n, name = some n → S.name = n) ∧
    ∃ eff, (∀ g, logic = some g → eff = g) ∧ (name = Option.none → logic = Option.none → eff = d) ∧
      IsClosest Logic.le S.logics eff L := by
  unfold getSolverClass at h
  split at h
  · cases h
  · cases name with
    | some n =>
      simp only at h
      split at h
      · cases h
      · rename_i cls hfind
        split at h
        · cases h
        · obtain ⟨g, hg, hfin⟩ := bind_ok h
          obtain ⟨rfl, hc⟩ := finish_ok hfin
          refine ⟨List.mem_of_find?_eq_some hfind, ?_, ⟨g, ?_, ?_, hc⟩⟩
          · intro n' hn'
            cases hn'
            simpa using List.find?_some hfind
          · intro g' hg'
            subst hg'
            simp only [effLogic, Except.ok.injEq] at hg
            exact hg.symm
          · intro h0; cases h0
    | none =>
      simp only at h
      split at h
      · cases h
      · obtain ⟨cls, hpick, hfin⟩ := bind_ok h
        obtain ⟨rfl, hc⟩ := finish_ok hfin
        refine ⟨pickFavorite_mem hpick, ?_, ⟨logic.getD d, ?_, ?_, hc⟩⟩
        · intro n hn; cases hn
        · intro g hg; subst hg; rfl
        · intro _ hl; subst hl; rfl

/-- … in particular the logic the solver is created with can express the requested logic -/
theorem getSolverClass_covers {sl : List SolverClass} {prefs : List String} {d g : Logic}
    {name : Option String} {S : SolverClass} {L : Logic}
    (h : getSolverClass sl prefs d name (some g) = .ok (S, L)) :
    L ∈ S.logics ∧ Logic.le g L = true ∧ L.covers g = true := by
  obtain ⟨_, _, eff, he, _, hc⟩ := getSolverClass_spec h
  have := he g rfl
  subst this
  exact ⟨hc.1, hc.2.1, Logic.le_covers _ _ hc.2.1⟩

/-- the `set-logic` of a generated script can express the formula -/
theorem scriptLogic_covers (t : Term) (τ : Ty) (L : Logic) (ht : Spec.HasType t τ) (hp : noPow t = true)
    (h : scriptLogic t = .ok L) :
    Covers L.theory (features t) ∧ (hasQuant t = true → L.quantifier_free = false) := by
  unfold scriptLogic at h
  split at h
  · cases h
  · rename_i f hf
    obtain ⟨_, hcov, hq⟩ := getLogic_spec t f hf
    have hfull : Covers f.theory (features t) := hcov.trans (covers_of_hasType t τ ht hp)
    split at h
    · rename_i s hs
      cases h
      have hle := (get_closer_smtlib_logic_spec f L hs).2.1
      have hc := Logic.le_covers _ _ hle
      simp only [Logic.covers, Bool.and_eq_true] at hc
      refine ⟨((covers_iff _ _).1 hc.1).trans hfull, ?_⟩
      intro hquant
      have hfq := hq hquant
      have := hc.2
      simp only [hfq, Bool.false_or, Bool.not_eq_true'] at this
      exact this
    · cases h
      exact ⟨hfull, hq⟩
    · cases h

end PySMT.FactorySelect
