import PySMT.Impl.HR
/-!
# C09 (human-readable format): table facts and the one-step lemmas of the Pratt parser model

Everything the round-trip proof (`C09HR2`–`C09HR4`) needs to know about the regenerated table `Gen/HROps.lean` is collected
here, proved by `decide` over the table: a change of a spelling, of a constructor or of a binding power in `/repo` that
invalidates an assumption of the proof breaks one of these lemmas.
-/
namespace PySMT.HR.RT
open PySMT PySMT.HR PySMT.Gen.HROps

/-! ## table facts -/

/-- the binding-power assumptions of the proof, per token: every infix operator binds (`0 <`), nothing that is passed on as
a right binding power reaches the postfix tokens `(` (200) and `[` (300), and no infix operator binds tighter than the prefix
operators that are printed without an outer parenthesis (`ToReal(x)`, `bv2nat(x)`: 100). -/
def kindOKb : Kind → Bool
  | .infix _ l => decide (0 < l ∧ l ≤ 100)
  | .infixUnary _ _ l ul => decide (0 < l ∧ l ≤ 100 ∧ ul ≤ 100)
  | .unary _ l => decide (l ≤ 100)
  | .quant _ l => decide (l ≤ 100)
  | _ => true

theorem tokens_ok : Gen.HROps.tokens.all (fun e => kindOKb e.2) = true := by decide

theorem lookup_mem {α β : Type} [BEq α] [LawfulBEq α] : ∀ (l : List (α × β)) (a : α) (b : β),
    l.lookup a = some b → (a, b) ∈ l
  | [], _, _, h => by simp [List.lookup] at h
  | (k, v) :: es, a, b, h => by
    simp only [List.lookup] at h
    split at h
    · next heq =>
      have : a = k := by simpa using heq
      cases h; subst this; exact List.mem_cons_self
    · exact List.mem_cons_of_mem _ (lookup_mem es a b h)

theorem kindOf_ok {s : String} {k : Kind} (h : kindOf s = some k) : kindOKb k = true := by
  have hm := lookup_mem _ _ _ h
  have := List.all_eq_true.mp tokens_ok _ hm
  simpa using this

theorem infixOf_kind {s c : String} {l : Nat} (h : infixOf s = some (c, l)) :
    kindOf s = some (.infix c l) ∨ ∃ u ul, kindOf s = some (.infixUnary c u l ul) := by
  unfold infixOf at h
  split at h
  · next hk => cases h; exact Or.inl hk
  · next hk => cases h; exact Or.inr ⟨_, _, hk⟩
  · cases h

theorem infix_lbp {s c : String} {l : Nat} (h : infixOf s = some (c, l)) : 0 < l ∧ l ≤ 100 ∧ lbp (.op s) = l := by
  rcases infixOf_kind h with hk | ⟨u, ul, hk⟩
  · have := kindOf_ok hk
    simp only [kindOKb, decide_eq_true_eq] at this
    exact ⟨this.1, this.2, by simp [lbp, hk, kindLbp]⟩
  · have := kindOf_ok hk
    simp only [kindOKb, decide_eq_true_eq] at this
    exact ⟨this.1, this.2.1, by simp [lbp, hk, kindLbp]⟩

theorem unaryOf_kind {s c : String} {l : Nat} (h : unaryOf s = some (c, l)) :
    kindOf s = some (.unary c l) ∨ ∃ b bl, kindOf s = some (.infixUnary b c bl l) := by
  unfold unaryOf at h
  split at h
  · next hk => cases h; exact Or.inl hk
  · next hk => cases h; exact Or.inr ⟨_, _, hk⟩
  · cases h

theorem unary_lbp {s c : String} {l : Nat} (h : unaryOf s = some (c, l)) : l ≤ 100 := by
  rcases unaryOf_kind h with hk | ⟨b, bl, hk⟩
  · have := kindOf_ok hk
    simpa [kindOKb] using this
  · have := kindOf_ok hk
    simp only [kindOKb, decide_eq_true_eq] at this
    exact this.2.2

theorem quantOf_kind {s c : String} {l : Nat} (h : quantOf s = some (c, l)) : kindOf s = some (.quant c l) := by
  unfold quantOf at h
  split at h
  · next hk => cases h; exact hk
  · cases h

theorem quant_lbp {s c : String} {l : Nat} (h : quantOf s = some (c, l)) : l ≤ 100 := by
  have := kindOf_ok (quantOf_kind h)
  simpa [kindOKb] using this

theorem fnOf_kind {s c : String} (h : fnOf s = some c) : ∃ l, kindOf s = some (.fnCall c l) := by
  unfold fnOf at h
  split at h
  · next hk => cases h; exact ⟨_, hk⟩
  · cases h

/-- the punctuation the model spells literally -/
theorem kindOf_lpar : kindOf "(" = some (.punct "OpenPar" 200) := by decide
theorem kindOf_rpar : kindOf ")" = some (.punct "ClosePar" 0) := by decide
theorem kindOf_lbrak : kindOf "[" = some (.punct "OpenBrak" 300) := by decide
theorem kindOf_rbrak : kindOf "]" = some (.punct "CloseBrak" 0) := by decide
theorem kindOf_rbrace : kindOf "}" = some (.punct "CloseBrace" 0) := by decide
theorem kindOf_comma : kindOf "," = some (.punct "ExprComma" 0) := by decide
theorem kindOf_dot : kindOf "." = some (.punct "ExprDot" 0) := by decide
theorem kindOf_colon : kindOf ":" = some (.punct "ExprElse" 0) := by decide
theorem kindOf_assign : kindOf ":=" = some (.punct "ArrStore" 0) := by decide
theorem kindOf_question : kindOf "?" = some (.punct "ExprIf" 5) := by decide
theorem kindOf_array : kindOf "Array{" = some (.punct "OpenArrayTypeTok" 5) := by decide
theorem kindOf_int : kindOf "Int" = some (.tyTok "IntTypeTok") := by decide
theorem kindOf_real : kindOf "Real" = some (.tyTok "RealTypeTok") := by decide
theorem kindOf_bool : kindOf "Bool" = some (.tyTok "BoolTypeTok") := by decide
theorem kindOf_true : kindOf "True" = some (.const "TRUE") := by decide
theorem kindOf_false : kindOf "False" = some (.const "FALSE") := by decide

theorem lbp_lpar : lbp lpar = 200 := by decide
theorem lbp_rpar : lbp rpar = 0 := by decide
theorem lbp_lbrak : lbp lbrak = 300 := by decide
theorem lbp_rbrak : lbp rbrak = 0 := by decide
theorem lbp_comma : lbp comma = 0 := by decide
theorem lbp_dot : lbp (.op ".") = 0 := by decide
theorem lbp_colon : lbp (.op ":") = 0 := by decide
theorem lbp_assign : lbp (.op ":=") = 0 := by decide
theorem lbp_question : lbp (.op "?") = 5 := by decide
theorem infixOf_question : infixOf "?" = none := by decide
theorem infixOf_lpar : infixOf "(" = none := by decide
theorem infixOf_lbrak : infixOf "[" = none := by decide
theorem punctOf_question : punctOf "?" = some ("ExprIf", 5) := by decide
theorem punctOf_lpar : punctOf "(" = some ("OpenPar", 200) := by decide
theorem punctOf_lbrak : punctOf "[" = some ("OpenBrak", 300) := by decide

theorem hrName_reserved {n : String} (h : hrName n = true) : reservedName n = false := by
  unfold hrName at h
  simp only [Bool.and_eq_true, Bool.not_eq_true'] at h
  exact h.1

/-- the shapes of the hand-modelled forms, as the regenerated printer table gives them -/
theorem shapeOf_symbol : shapeOf .symbol = some .sym := by decide

/-- the prefix operators printed without an outer parenthesis bind at least as tightly as every infix operator -/
theorem unaryCall_spelling {op : Op} {s : String} (h : shapeOf op = some (.unaryCall s)) : s = "ToReal" ∨ s = "bv2nat" := by
  unfold shapeOf at h
  split at h
  · cases h
  · split at h
    · cases op <;> simp [customShape] at h <;> simp [← h]
    · cases h
  · cases h

theorem shape_sym_op {op : Op} (h : shapeOf op = some .sym) : op = .symbol := by
  unfold shapeOf at h
  split at h
  · cases h
  · split at h
    · cases op <;> simp [customShape] at h <;> rfl
    · cases h
  · cases h

theorem unaryOf_toReal : unaryOf "ToReal" = some ("mgr.ToReal", 100) := by decide
theorem unaryOf_bv2nat : unaryOf "bv2nat" = some ("mgr.BVToNatural", 100) := by decide

theorem unaryCall_lbp {op : Op} {s c : String} {l : Nat} (h : shapeOf op = some (.unaryCall s))
    (hu : unaryOf s = some (c, l)) : l = 100 := by
  rcases unaryCall_spelling h with rfl | rfl
  · rw [unaryOf_toReal] at hu; cases hu; rfl
  · rw [unaryOf_bv2nat] at hu; cases hu; rfl

/-! ## "eventually" -/

/-- from fuel `n0` on, `expression(rbp)` on `toks` returns `r` -/
def EvExpr (rbp : Nat) (toks : List Tok) (n0 : Nat) (r : Term × List Tok) : Prop :=
  ∀ n, n0 ≤ n → expr n rbp toks = .ok r
/-- from fuel `n0` on, the `while` loop entered with `left` returns `r` -/
def EvLoop (rbp : Nat) (left : Term) (toks : List Tok) (n0 : Nat) (r : Term × List Tok) : Prop :=
  ∀ n, n0 ≤ n → loop n rbp left toks = .ok r
def EvParams (toks : List Tok) (n0 : Nat) (r : List Term × List Tok) : Prop :=
  ∀ n, n0 ≤ n → params n toks = .ok r

def headLbp : List Tok → Nat
  | [] => 0
  | t :: _ => lbp t

/-! ## unfolding the parser -/

theorem expr_succ (n rbp : Nat) (t : Tok) (rest : List Tok) :
    expr (n + 1) rbp (t :: rest) =
      match nud (expr n) (params n) (pType n) t rest with
      | .error e => .error e
      | .ok (left, rest1) => loop n rbp left rest1 := by
  rw [expr]; rfl

theorem loop_nil (n rbp : Nat) (left : Term) : loop (n + 1) rbp left [] = .ok (left, []) := by
  rw [loop]

theorem loop_cons (n rbp : Nat) (left : Term) (t : Tok) (rest : List Tok) :
    loop (n + 1) rbp left (t :: rest) =
      if rbp < lbp t then
        match led (expr n) (params n) t left rest with
        | .error e => .error e
        | .ok (left1, rest1) => loop n rbp left1 rest1
      else .ok (left, t :: rest) := by
  rw [loop]; rfl

theorem params_succ (n : Nat) (toks : List Tok) :
    params (n + 1) toks =
      match expr n 0 toks with
      | .error e => .error e
      | .ok (r, rest) =>
        match rest with
        | .op s :: rest1 =>
          if s = "," then
            (match params n rest1 with
             | .error e => .error e
             | .ok (rs, rest2) => .ok (r :: rs, rest2))
          else .ok ([r], rest)
        | _ => .ok ([r], rest) := by
  rw [params]; rfl

/-- the loop stops at a token that does not bind more tightly than `rbp` -/
theorem loop_stop (n rbp : Nat) (left : Term) (rest : List Tok) (h : headLbp rest ≤ rbp) :
    loop (n + 1) rbp left rest = .ok (left, rest) := by
  cases rest with
  | nil => exact loop_nil n rbp left
  | cons t rest =>
    rw [loop_cons, if_neg]
    simp only [headLbp] at h
    omega

theorem ev_loop_stop (rbp : Nat) (left : Term) (rest : List Tok) (h : headLbp rest ≤ rbp) :
    EvLoop rbp left rest 1 (left, rest) := by
  intro n hn
  obtain ⟨m, rfl⟩ : ∃ m, n = m + 1 := ⟨n - 1, by omega⟩
  exact loop_stop m rbp left rest h

/-- one step of the loop: the next token binds -/
theorem loop_step (n rbp : Nat) (left : Term) (t : Tok) (rest : List Tok) (h : rbp < lbp t) :
    loop (n + 1) rbp left (t :: rest) =
      match led (expr n) (params n) t left rest with
      | .error e => .error e
      | .ok (left1, rest1) => loop n rbp left1 rest1 := by
  rw [loop_cons, if_pos h]

/-! ## `nud` of the tokens -/

theorem nud_lpar (ex : Ex) (ps : Ps) (pt : Pt) (rest : List Tok) : nud ex ps pt lpar rest = nudPar ex rest := by
  simp [nud, nudOp, kindOf_lpar]

theorem nud_int (ex : Ex) (ps : Ps) (pt : Pt) (n : Int) (rest : List Tok) :
    nud ex ps pt (.int n) rest = .ok (Term.int n, rest) := rfl
theorem nud_real (ex : Ex) (ps : Ps) (pt : Pt) (q : Rat) (rest : List Tok) :
    nud ex ps pt (.real q) rest = .ok (Term.real q, rest) := rfl
theorem nud_str (ex : Ex) (ps : Ps) (pt : Pt) (s : String) (rest : List Tok) :
    nud ex ps pt (.str s) rest = .ok (Term.str s, rest) := rfl
theorem nud_ident (ex : Ex) (ps : Ps) (pt : Pt) (s : Sym) (rest : List Tok) :
    nud ex ps pt (.ident s) rest = .ok (Term.sym s, rest) := rfl

theorem nud_unary (ex : Ex) (ps : Ps) (pt : Pt) {s c : String} {l : Nat} (h : unaryOf s = some (c, l)) (rest : List Tok) :
    nud ex ps pt (.op s) rest = nudUnary ex c l rest := by
  rcases unaryOf_kind h with hk | ⟨b, bl, hk⟩ <;> simp [nud, nudOp, hk]

theorem nud_fn (ex : Ex) (ps : Ps) (pt : Pt) {s c : String} (h : fnOf s = some c) (rest : List Tok) :
    nud ex ps pt (.op s) rest = nudFn ps c rest := by
  obtain ⟨l, hk⟩ := fnOf_kind h
  simp [nud, nudOp, hk]

theorem nud_quant (ex : Ex) (ps : Ps) (pt : Pt) {s c : String} {l : Nat} (h : quantOf s = some (c, l)) (rest : List Tok) :
    nud ex ps pt (.op s) rest = nudQuant ex ps c l rest := by
  simp [nud, nudOp, quantOf_kind h]

theorem nud_array (ex : Ex) (ps : Ps) (pt : Pt) (rest : List Tok) :
    nud ex ps pt (.op "Array{") rest = nudArray ex pt rest := by
  simp [nud, nudOp, kindOf_array]

theorem nud_true (ex : Ex) (ps : Ps) (pt : Pt) (rest : List Tok) :
    nud ex ps pt (.op "True") rest = .ok (Term.tt, rest) := by
  simp [nud, nudOp, kindOf_true]

theorem nud_false (ex : Ex) (ps : Ps) (pt : Pt) (rest : List Tok) :
    nud ex ps pt (.op "False") rest = .ok (Term.ff, rest) := by
  simp [nud, nudOp, kindOf_false]

/-! ## `led` of the tokens -/

theorem led_infix (ex : Ex) (ps : Ps) {s c : String} {l : Nat} (h : infixOf s = some (c, l)) (left : Term) (rest : List Tok) :
    led ex ps (.op s) left rest = ledInfix ex c l left rest := by
  simp [led, h]

theorem led_question (ex : Ex) (ps : Ps) (left : Term) (rest : List Tok) :
    led ex ps (.op "?") left rest = ledIte ex 5 left rest := by
  simp [led, infixOf_question, punctOf_question]

theorem led_lpar (ex : Ex) (ps : Ps) (left : Term) (rest : List Tok) :
    led ex ps lpar left rest = ledCall ps left rest := by
  simp [led, infixOf_lpar, punctOf_lpar]

theorem led_lbrak (ex : Ex) (ps : Ps) (left : Term) (rest : List Tok) :
    led ex ps lbrak left rest = ledBrak ex left rest := by
  simp [led, infixOf_lbrak, punctOf_lbrak]

theorem expect_hit (s : String) (rest : List Tok) : expect s (.op s :: rest) = .ok rest := by
  simp [expect]

/-! ## the printer -/

theorem hrTokens_node (op : Op) (args : List Term) (p : Payload) :
    hrTokens (.node op args p) = nodeToks op p args (args.map hrTokens) := by
  rw [hrTokens]

theorem inHRFrag_node (op : Op) (args : List Term) (p : Payload) :
    inHRFrag (.node op args p) = ((args.map inHRFrag).all id && fragNode op args p) := by
  rw [inHRFrag]

theorem isOk_eq {r : Except Err Term} {t : Term} (h : isOk r t = true) : r = .ok t := by
  unfold isOk at h
  split at h
  · simp only [decide_eq_true_eq] at h; subst h; rfl
  · cases h

end PySMT.HR.RT
