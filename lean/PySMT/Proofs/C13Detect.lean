/-
C13, detection part: the modelled `TheoryOracle` (Impl/TheoryOracle.lean) enables every *intrinsic* feature
of a formula (Spec/Features.lean, `featuresIntrinsic`), produces well-formed theories only, and the logic
`get_logic` returns covers those features and allows quantifiers when the formula has some.

Proof shape: every `walk_*` rule is "combine the children's theories, then switch flags on"; so
(1) the result of a rule covers every child's theory (`rule_mono`), (2) it covers what the node needs by
itself (`rule_own`), and the theorem follows by recursion over the term.
-/
import PySMT.Impl.TheoryOracle
import PySMT.Spec.Features
import PySMT.Proofs.C13Table
namespace PySMT.TheoryOracle
open PySMT PySMT.Logics PySMT.Features

/-- `covers` as ten implications -/
structure Covers (h n : Theory) : Prop where
  arrays : n.arrays = true → h.arrays = true
  arrays_const : n.arrays_const = true → h.arrays_const = true
  bit_vectors : n.bit_vectors = true → h.bit_vectors = true
  floating_point : n.floating_point = true → h.floating_point = true
  integer_arithmetic : n.integer_arithmetic = true → h.integer_arithmetic = true
  real_arithmetic : n.real_arithmetic = true → h.real_arithmetic = true
  uninterpreted : n.uninterpreted = true → h.uninterpreted = true
  custom_type : n.custom_type = true → h.custom_type = true
  strings : n.strings = true → h.strings = true
  nonlinear : n.linear = false → h.linear = false

theorem bool_imp : ∀ a b : Bool, ((!a || b) = true) = (a = true → b = true) := by decide
theorem bool_imp' : ∀ a b : Bool, ((a || !b) = true) = (a = false → b = false) := by decide

theorem covers_iff (h n : Theory) : h.covers n = true ↔ Covers h n := by
  simp only [Theory.covers, Bool.and_eq_true, bool_imp, bool_imp']
  constructor
  · intro ⟨⟨⟨⟨⟨⟨⟨⟨⟨h1, h2⟩, h3⟩, h4⟩, h5⟩, h6⟩, h7⟩, h8⟩, h9⟩, h10⟩
    exact ⟨h1, h2, h3, h4, h5, h6, h7, h8, h9, h10⟩
  · intro ⟨h1, h2, h3, h4, h5, h6, h7, h8, h9, h10⟩
    exact ⟨⟨⟨⟨⟨⟨⟨⟨⟨h1, h2⟩, h3⟩, h4⟩, h5⟩, h6⟩, h7⟩, h8⟩, h9⟩, h10⟩

theorem Covers.trans {a b c : Theory} (h1 : Covers a b) (h2 : Covers b c) : Covers a c := by
  constructor <;> intro h
  · exact h1.arrays (h2.arrays h)
  · exact h1.arrays_const (h2.arrays_const h)
  · exact h1.bit_vectors (h2.bit_vectors h)
  · exact h1.floating_point (h2.floating_point h)
  · exact h1.integer_arithmetic (h2.integer_arithmetic h)
  · exact h1.real_arithmetic (h2.real_arithmetic h)
  · exact h1.uninterpreted (h2.uninterpreted h)
  · exact h1.custom_type (h2.custom_type h)
  · exact h1.strings (h2.strings h)
  · exact h1.nonlinear (h2.nonlinear h)

theorem Covers.none (h : Theory) : Covers h Features.none := by
  constructor <;> simp [Features.none]

theorem Covers.join {h a b : Theory} (h1 : Covers h a) (h2 : Covers h b) : Covers h (Features.join a b) := by
  constructor <;> simp only [Features.join, Bool.or_eq_true, Bool.and_eq_false_iff] <;> intro x
  all_goals first
    | exact x.elim h1.arrays h2.arrays
    | exact x.elim h1.arrays_const h2.arrays_const
    | exact x.elim h1.bit_vectors h2.bit_vectors
    | exact x.elim h1.floating_point h2.floating_point
    | exact x.elim h1.integer_arithmetic h2.integer_arithmetic
    | exact x.elim h1.real_arithmetic h2.real_arithmetic
    | exact x.elim h1.uninterpreted h2.uninterpreted
    | exact x.elim h1.custom_type h2.custom_type
    | exact x.elim h1.strings h2.strings
    | exact x.elim h1.nonlinear h2.nonlinear

theorem Covers.joinAll {h : Theory} {l : List Theory} (hl : ∀ x ∈ l, Covers h x) : Covers h (Features.joinAll l) := by
  induction l with
  | nil => exact Covers.none h
  | cons a l ih =>
    simp only [Features.joinAll, List.foldr_cons]
    exact Covers.join (hl a List.mem_cons_self) (ih (fun x hx => hl x (List.mem_cons_of_mem _ hx)))

theorem Covers.refl (a : Theory) : Covers a a := by constructor <;> exact id

/-- the translated `combine` covers both arguments -/
theorem combine_covers_left (a b : Theory) : Covers (a.combine b) a := by
  constructor <;> simp only [Theory.combine] <;> intro h <;> simp [h]
theorem combine_covers_right (a b : Theory) : Covers (a.combine b) b := by
  constructor <;> simp only [Theory.combine] <;> intro h <;> simp [h]

theorem foldl_combine_covers (l : List Theory) : ∀ a : Theory,
    Covers (l.foldl Theory.combine a) a ∧ ∀ x ∈ l, Covers (l.foldl Theory.combine a) x := by
  induction l with
  | nil => intro a; exact ⟨Covers.refl a, fun x hx => by cases hx⟩
  | cons b l ih =>
    intro a
    obtain ⟨h1, h2⟩ := ih (a.combine b)
    refine ⟨h1.trans (combine_covers_left a b), ?_⟩
    intro x hx
    rcases List.mem_cons.1 hx with rfl | hx
    · exact h1.trans (combine_covers_right a x)
    · exact h2 x hx

theorem foldCombine_covers {l : List Theory} {x : Theory} (hx : x ∈ l) : Covers (foldCombine l) x := by
  cases l with
  | nil => cases hx
  | cons a rest =>
    simp only [foldCombine]
    rcases List.mem_cons.1 hx with rfl | hx
    · exact (foldl_combine_covers rest x).1
    · exact (foldl_combine_covers rest a).2 x hx

theorem combineList_covers {l : List Theory} {x : Theory} (hx : x ∈ l) : Covers (combineList l) x := by
  match l, hx with
  | [a], hx => simp only [combineList, Theory.copy_eq]; simp at hx; subst hx; exact Covers.refl _
  | [], hx => cases hx
  | a :: b :: rest, hx => simp only [combineList]; exact foldCombine_covers hx

/-! flag updates only add -/
theorem set_linear_false_covers (t : Theory) : Covers (t.set_linear false) t := by
  constructor <;> simp only [Theory.set_linear, Theory.copy] <;> intro h <;> simp [h]
theorem set_dl_covers (t : Theory) (v : Bool) : Covers (t.set_difference_logic v) t := by
  rcases t with ⟨a1, a2, a3, a4, ia, ra, id, rd, l, u, c, s⟩
  constructor <;> simp only [Theory.set_difference_logic, Theory.copy] <;> intro h <;>
    (cases ia <;> cases ra <;> simp_all)
theorem set_strings_true_covers (t : Theory) : Covers (t.set_strings true) t := by
  constructor <;> simp only [Theory.set_strings, Theory.copy] <;> intro h <;> simp [h]
theorem set_lira_true_covers (t : Theory) : Covers (t.set_lira true) t := by
  constructor <;> simp only [Theory.set_lira, Theory.copy] <;> intro h <;> simp [h]
theorem with_int_covers (t : Theory) : Covers (withInt t) t := by
  constructor <;> intro h <;> simp [withInt, h]
theorem with_uf_covers (t : Theory) : Covers (withUF t) t := by
  constructor <;> intro h <;> simp [withUF, h]
theorem with_arrays_covers (t : Theory) : Covers (withConstArrays t) t := by
  constructor <;> intro h <;> simp [withConstArrays, h]

/-! ### sorts and symbols -/

theorem T0_covers_none : Covers T0 Features.none := Covers.none _

theorem tft_covers : (τ : Ty) → Covers (theoryFromType τ) (ofSort τ)
  | .bool => Covers.none _
  | .int => by constructor <;> simp [theoryFromType, ofSort, Features.none, Theory.default]
  | .real => by constructor <;> simp [theoryFromType, ofSort, Features.none, Theory.default]
  | .str => by constructor <;> simp [theoryFromType, ofSort, Features.none, Theory.default]
  | .bv _ => by constructor <;> simp [theoryFromType, ofSort, Features.none, Theory.default]
  | .custom _ => by constructor <;> simp [theoryFromType, ofSort, Features.none, Theory.default]
  | .array i e => by
    have hi := tft_covers i
    have he := tft_covers e
    simp only [theoryFromType, ofSort]
    generalize theoryFromType i = ti at hi ⊢
    generalize theoryFromType e = te at he ⊢
    have hA : Covers ({ T0 with arrays := true } : Theory) { Features.none with arrays := true } := by
      constructor <;> simp [Features.none, Theory.default]
    generalize ({ T0 with arrays := true } : Theory) = A at hA ⊢
    have h1 : Covers ((A.combine ti).combine te) (A.combine ti) := combine_covers_left _ _
    have h2 : Covers ((A.combine ti).combine te) te := combine_covers_right _ _
    have h3 : Covers (A.combine ti) A := combine_covers_left _ _
    have h4 : Covers (A.combine ti) ti := combine_covers_right _ _
    exact Covers.join (h1.trans (h3.trans hA)) (Covers.join (h1.trans (h4.trans hi)) (h2.trans he))

theorem symTheory_covers (s : Sym) (h : s.isFn = false) : Covers (symTheory s) (ofSym s) := by
  simp only [symTheory, ofSym, h, Bool.false_eq_true, if_false]
  exact tft_covers s.ret

theorem foldl_sym_covers (vs : List Sym) : ∀ t : Theory,
    Covers (vs.foldl (fun acc v => acc.combine (symTheory v)) t) t ∧
    ∀ v ∈ vs, Covers (vs.foldl (fun acc v => acc.combine (symTheory v)) t) (symTheory v) := by
  induction vs with
  | nil => intro t; exact ⟨Covers.refl t, fun x hx => by cases hx⟩
  | cons b l ih =>
    intro t
    obtain ⟨h1, h2⟩ := ih (t.combine (symTheory b))
    refine ⟨h1.trans (combine_covers_left _ _), ?_⟩
    intro x hx
    rcases List.mem_cons.1 hx with rfl | hx
    · exact h1.trans (combine_covers_right _ _)
    · exact h2 x hx

/-! ### (1) every rule covers its children's theories -/

/-- arity of leaves and unary operators, as a property of the number of children -/
def opShape (op : Op) (n : Nat) : Prop :=
  match op with
  | .boolConst | .intConst | .realConst | .algebraicConst | .strConst | .bvConst | .symbol => n = 0
  | .toReal | .intToStr | .bvToNatural | .forall_ | .exists_ => n = 1
  | .pow => False
  | _ => True

theorem funBase_covers {ths : List Theory} {x : Theory} (hx : x ∈ ths) : Covers (funBase ths) x := by
  match ths, hx with
  | [a], hx => simp only [funBase, Theory.copy_eq]; simp at hx; subst hx; exact Covers.refl _
  | [], hx => cases hx
  | a :: b :: rest, hx => exact foldCombine_covers (l := a :: b :: rest) hx

theorem headD_single {ths : List Theory} (h : ths.length = 1) {x : Theory} (hx : x ∈ ths) :
    ths.headD T0 = x := by
  cases ths with
  | nil => simp at h
  | cons a rest =>
    cases rest with
    | nil => simp at hx; subst hx; rfl
    | cons b r => simp at h

section
variable (p : Payload) (args : List Term) (ths : List Theory) {x : Theory} (hx : x ∈ ths)
include hx

theorem mono_function : Covers (rule .function p args ths) x := by
  simp only [rule]
  refine (with_uf_covers _).trans ?_
  split
  · exact (combine_covers_left _ _).trans (funBase_covers hx)
  · exact funBase_covers hx
theorem mono_toReal (hs : ths.length = 1) : Covers (rule .toReal p args ths) x := by
  simp only [rule, headD_single hs hx]; exact set_lira_true_covers x
theorem mono_intToStr (hs : ths.length = 1) : Covers (rule .intToStr p args ths) x := by
  simp only [rule, headD_single hs hx]; exact set_strings_true_covers x
theorem mono_bvToNatural (hs : ths.length = 1) : Covers (rule .bvToNatural p args ths) x := by
  simp only [rule, headD_single hs hx, Theory.copy_eq]; exact with_int_covers x
theorem mono_strLength : Covers (rule .strLength p args ths) x := by
  simp only [rule]; exact (combine_covers_left _ _).trans (combineList_covers hx)
theorem mono_strIndexOf : Covers (rule .strIndexOf p args ths) x := by
  simp only [rule]; exact (combine_covers_left _ _).trans (combineList_covers hx)
theorem mono_strToInt : Covers (rule .strToInt p args ths) x := by
  simp only [rule]; exact (combine_covers_left _ _).trans (combineList_covers hx)
theorem mono_times : Covers (rule .times p args ths) x := by
  simp only [rule]
  refine (set_dl_covers _ _).trans ?_
  split
  · exact (set_linear_false_covers _).trans (foldCombine_covers hx)
  · exact foldCombine_covers hx
theorem mono_plus : Covers (rule .plus p args ths) x := by
  simp only [rule]; exact (set_dl_covers _ _).trans (foldCombine_covers hx)
theorem mono_arrayValue : Covers (rule .arrayValue p args ths) x := by
  simp only [rule]
  refine (with_arrays_covers _).trans ?_
  split
  · exact (combine_covers_left _ _).trans (combineList_covers hx)
  · exact combineList_covers hx
theorem mono_div : Covers (rule .div p args ths) x := by
  simp only [rule]
  refine (set_dl_covers _ _).trans ?_
  simp only [divCore]
  split
  · split
    · exact (set_linear_false_covers _).trans (foldCombine_covers hx)
    · split
      · exact (set_linear_false_covers _).trans (foldCombine_covers hx)
      · exact (combine_covers_left _ _).trans (foldCombine_covers hx)
  · exact foldCombine_covers hx
theorem mono_forall (hs : ths.length = 1) : Covers (rule .forall_ p args ths) x := by
  simp only [rule, headD_single hs hx]
  split
  · exact (foldl_sym_covers _ _).1
  · exact Covers.refl _
theorem mono_exists (hs : ths.length = 1) : Covers (rule .exists_ p args ths) x := by
  simp only [rule, headD_single hs hx]
  split
  · exact (foldl_sym_covers _ _).1
  · exact Covers.refl _
end

theorem rule_mono (op : Op) (p : Payload) (args : List Term) (ths : List Theory)
    (hs : opShape op ths.length) {x : Theory} (hx : x ∈ ths) : Covers (rule op p args ths) x := by
  cases op
  case function => exact mono_function p args ths hx
  case toReal => exact mono_toReal p args ths hx hs
  case intToStr => exact mono_intToStr p args ths hx hs
  case bvToNatural => exact mono_bvToNatural p args ths hx hs
  case pow => exact absurd hs (by simp [opShape])
  case strLength => exact mono_strLength p args ths hx
  case strIndexOf => exact mono_strIndexOf p args ths hx
  case strToInt => exact mono_strToInt p args ths hx
  case times => exact mono_times p args ths hx
  case plus => exact mono_plus p args ths hx
  case arrayValue => exact mono_arrayValue p args ths hx
  case div => exact mono_div p args ths hx
  case forall_ => exact mono_forall p args ths hx hs
  case exists_ => exact mono_exists p args ths hx hs
  all_goals first
    | exact combineList_covers hx
    | (simp only [opShape] at hs; exact absurd hx (by rw [List.length_eq_zero_iff.1 hs]; simp))

/-! ### (2) every rule covers what its node needs by itself -/

/-- node-level part of `firstOrder` -/
def nodeFO (op : Op) (p : Payload) : Prop :=
  match op, p with
  | .symbol, .sym s => s.isFn = false
  | .forall_, .qvars vs => ∀ v ∈ vs, v.isFn = false
  | .exists_, .qvars vs => ∀ v ∈ vs, v.isFn = false
  | _, _ => True

theorem hasFreeVars_eq_nonConstant : hasFreeVars = nonConstant := rfl

theorem qvars_covers (vs : List Sym) (t : Theory) (h : ∀ v ∈ vs, v.isFn = false) :
    Covers (vs.foldl (fun acc v => acc.combine (symTheory v)) t) (Features.joinAll (vs.map ofSym)) := by
  apply Covers.joinAll
  intro x hx
  obtain ⟨v, hv, rfl⟩ := List.mem_map.1 hx
  exact ((foldl_sym_covers vs t).2 v hv).trans (symTheory_covers v (h v hv))

section
variable (p : Payload) (args : List Term) (f : Term → Theory)

theorem own_symbol (hfo : nodeFO .symbol p) : Covers (rule .symbol p args (args.map f)) (intrinsic .symbol p args) := by
  cases p
  case sym s =>
    simp only [rule, intrinsic]
    refine Covers.join ?_ (symTheory_covers s hfo)
    constructor <;> simp [Features.none, isIntValuedOp]
  all_goals (constructor <;> simp [intrinsic, Features.join, Features.none, isIntValuedOp])

theorem own_function : Covers (rule .function p args (args.map f)) (intrinsic .function p args) := by
  cases p
  case sym s =>
    simp only [rule, intrinsic]
    refine Covers.join ?_ ((with_uf_covers _).trans ((combine_covers_right _ _).trans (tft_covers s.ret)))
    constructor <;> simp [Features.none, isIntValuedOp, withUF]
  all_goals (constructor <;> simp [rule, intrinsic, Features.join, Features.none, isIntValuedOp, withUF])

theorem own_toReal : Covers (rule .toReal p args (args.map f)) (intrinsic .toReal p args) := by
  constructor <;> simp [rule, intrinsic, Features.join, Features.none, isIntValuedOp, Theory.set_lira, Theory.copy]

theorem own_intToStr : Covers (rule .intToStr p args (args.map f)) (intrinsic .intToStr p args) := by
  constructor <;> simp [rule, intrinsic, Features.join, Features.none, isIntValuedOp, Theory.set_strings, Theory.copy]

theorem own_strLength : Covers (rule .strLength p args (args.map f)) (intrinsic .strLength p args) := by
  refine (combine_covers_right _ _).trans ?_
  constructor <;> simp [intrinsic, Features.join, Features.none, isIntValuedOp, intTheory, Theory.default]
theorem own_strIndexOf : Covers (rule .strIndexOf p args (args.map f)) (intrinsic .strIndexOf p args) := by
  refine (combine_covers_right _ _).trans ?_
  constructor <;> simp [intrinsic, Features.join, Features.none, isIntValuedOp, intTheory, Theory.default]
theorem own_strToInt : Covers (rule .strToInt p args (args.map f)) (intrinsic .strToInt p args) := by
  refine (combine_covers_right _ _).trans ?_
  constructor <;> simp [intrinsic, Features.join, Features.none, isIntValuedOp, intTheory, Theory.default]
theorem own_bvToNatural : Covers (rule .bvToNatural p args (args.map f)) (intrinsic .bvToNatural p args) := by
  constructor <;> simp [rule, intrinsic, Features.join, Features.none, isIntValuedOp, withInt]

theorem own_arrayValue : Covers (rule .arrayValue p args (args.map f)) (intrinsic .arrayValue p args) := by
  cases p
  case ty idx =>
    simp only [rule, intrinsic]
    refine Covers.join ?_ ((with_arrays_covers _).trans ((combine_covers_right _ _).trans (tft_covers idx)))
    constructor <;> simp [Features.none, isIntValuedOp, withConstArrays]
  all_goals (constructor <;> simp [rule, intrinsic, Features.join, Features.none, isIntValuedOp, withConstArrays])

theorem own_forall (hfo : nodeFO .forall_ p) : Covers (rule .forall_ p args (args.map f)) (intrinsic .forall_ p args) := by
  cases p
  case qvars vs =>
    simp only [rule, intrinsic]
    refine Covers.join ?_ (qvars_covers vs _ hfo)
    constructor <;> simp [Features.none, isIntValuedOp]
  all_goals (constructor <;> simp [intrinsic, Features.join, Features.none, isIntValuedOp])

theorem own_exists (hfo : nodeFO .exists_ p) : Covers (rule .exists_ p args (args.map f)) (intrinsic .exists_ p args) := by
  cases p
  case qvars vs =>
    simp only [rule, intrinsic]
    refine Covers.join ?_ (qvars_covers vs _ hfo)
    constructor <;> simp [Features.none, isIntValuedOp]
  all_goals (constructor <;> simp [intrinsic, Features.join, Features.none, isIntValuedOp])

theorem set_dl_linear (t : Theory) (v : Bool) : (t.set_difference_logic v).linear = t.linear := by
  rcases t with ⟨a1, a2, a3, a4, ia, ra, id, rd, l, u, c, s⟩
  simp only [Theory.set_difference_logic, Theory.copy]
  cases ia <;> cases ra <;> rfl

theorem own_times : Covers (rule .times p args (args.map f)) (intrinsic .times p args) := by
  constructor <;> simp only [intrinsic, Features.join, Features.none, isIntValuedOp] <;> intro h
  all_goals try (simp at h; done)
  -- the non-linearity flag
  simp only [rule, set_dl_linear, hasFreeVars_eq_nonConstant]
  have h2 : (args.filter nonConstant).length > 1 := by
    have : 2 ≤ (args.filter nonConstant).length := by simpa using h
    omega
  simp [h2, Theory.set_linear, Theory.copy]

theorem own_div : Covers (rule .div p args (args.map f)) (intrinsic .div p args) := by
  constructor <;> simp only [intrinsic, Features.join, Features.none, isIntValuedOp] <;> intro h
  all_goals try (simp at h; done)
  match args, h with
  | [a, d], h =>
    have hd : hasFreeVars d = true := by simpa [hasFreeVars_eq_nonConstant] using h
    simp [rule, divCore, set_dl_linear, hd, Theory.set_linear, Theory.copy]
  | [], h => simp at h
  | [_], h => simp at h
  | _ :: _ :: _ :: _, h => simp at h
end

theorem rule_own (op : Op) (p : Payload) (args : List Term) (f : Term → Theory)
    (hs : opShape op args.length) (hfo : nodeFO op p) :
    Covers (rule op p args (args.map f)) (intrinsic op p args) := by
  cases op
  case symbol => exact own_symbol p args f hfo
  case function => exact own_function p args f
  case toReal => exact own_toReal p args f
  case intToStr => exact own_intToStr p args f
  case strLength => exact own_strLength p args f
  case strIndexOf => exact own_strIndexOf p args f
  case strToInt => exact own_strToInt p args f
  case bvToNatural => exact own_bvToNatural p args f
  case arrayValue => exact own_arrayValue p args f
  case forall_ => exact own_forall p args f hfo
  case exists_ => exact own_exists p args f hfo
  case times => exact own_times p args f
  case div => exact own_div p args f
  case pow => exact absurd hs (by simp [opShape])
  all_goals
    (constructor <;> simp [rule, intrinsic, Features.join, Features.none, isIntValuedOp, Theory.default])

/-! ### the detection theorem -/

theorem all_map_id {α : Type} {g : α → Bool} {l : List α} (h : (l.map g).all id = true) : ∀ a ∈ l, g a = true := by
  intro a ha
  have := List.all_eq_true.1 h (g a) (List.mem_map_of_mem ha)
  simpa using this

theorem shape_of_shapeOk {op : Op} {args : List Term} {p : Payload} (h : shapeOk (.node op args p) = true) :
    opShape op args.length ∧ ∀ a ∈ args, shapeOk a = true := by
  rw [shapeOk] at h
  simp only [Bool.and_eq_true] at h
  obtain ⟨h1, h2⟩ := h
  refine ⟨?_, all_map_id h2⟩
  clear h2
  cases op <;> simp_all [opShape, nodeShape]

theorem fo_of_firstOrder {op : Op} {args : List Term} {p : Payload} (h : firstOrder (.node op args p) = true) :
    nodeFO op p ∧ ∀ a ∈ args, firstOrder a = true := by
  rw [firstOrder] at h
  simp only [Bool.and_eq_true] at h
  obtain ⟨h1, h2⟩ := h
  refine ⟨?_, all_map_id h2⟩
  clear h2
  cases op <;> cases p <;> simp_all [nodeFO, nodeFirstOrder]

/-- the theory computed for a formula enables every intrinsic feature of the formula -/
theorem theoryOf_covers : (t : Term) → firstOrder t = true → shapeOk t = true →
    Covers (theoryOf t) (featuresIntrinsic t)
  | .node op args p, hfo, hsh => by
    obtain ⟨hs, hsc⟩ := shape_of_shapeOk hsh
    obtain ⟨hn, hfc⟩ := fo_of_firstOrder hfo
    simp only [theoryOf, featuresIntrinsic]
    refine Covers.join (rule_own op p args theoryOf hs hn) (Covers.joinAll ?_)
    intro x hx
    obtain ⟨a, ha, rfl⟩ := List.mem_map.1 hx
    have ih := theoryOf_covers a (hfc a ha) (hsc a ha)
    exact (rule_mono op p args (args.map theoryOf) (by simpa using hs) (List.mem_map_of_mem ha)).trans ih

/-! ### the oracle only produces well-formed theories -/

theorem T0_wf : T0.wf = true := by decide

theorem with_flag_wf_aux : ∀ (t : Theory), t.wf = true →
    (withInt t).wf = true ∧ (withUF t).wf = true ∧ (withConstArrays t).wf = true := by
  intro t
  cases t
  simp only [withInt, withUF, withConstArrays, Theory.wf]
  decide +revert

theorem tft_wf : (τ : Ty) → (theoryFromType τ).wf = true
  | .bool => by decide
  | .int => by decide
  | .real => by decide
  | .str => by decide
  | .bv _ => by simp only [theoryFromType]; decide
  | .custom _ => by simp only [theoryFromType]; decide
  | .array i e => by
    simp only [theoryFromType]
    exact Theory.combine_wf _ _ (Theory.combine_wf _ _ (by decide) (tft_wf i)) (tft_wf e)

theorem symTheory_wf (s : Sym) : (symTheory s).wf = true := by
  simp only [symTheory]
  split
  · decide
  · exact tft_wf _

theorem foldl_combine_wf (l : List Theory) : ∀ a : Theory, a.wf = true → (∀ x ∈ l, x.wf = true) →
    (l.foldl Theory.combine a).wf = true := by
  induction l with
  | nil => intro a ha _; exact ha
  | cons b l ih =>
    intro a ha h
    exact ih _ (Theory.combine_wf a b ha (h b List.mem_cons_self)) (fun x hx => h x (List.mem_cons_of_mem _ hx))

theorem foldCombine_wf {l : List Theory} (h : ∀ x ∈ l, x.wf = true) : (foldCombine l).wf = true := by
  cases l with
  | nil => exact T0_wf
  | cons a rest =>
    exact foldl_combine_wf rest a (h a List.mem_cons_self) (fun x hx => h x (List.mem_cons_of_mem _ hx))

theorem combineList_wf {l : List Theory} (h : ∀ x ∈ l, x.wf = true) : (combineList l).wf = true := by
  cases l with
  | nil => exact T0_wf
  | cons a rest =>
    cases rest with
    | nil => simp only [combineList, Theory.copy_eq]; exact h a List.mem_cons_self
    | cons b r => exact foldCombine_wf h

theorem funBase_wf {l : List Theory} (h : ∀ x ∈ l, x.wf = true) : (funBase l).wf = true := by
  cases l with
  | nil => exact T0_wf
  | cons a rest =>
    cases rest with
    | nil => simp only [funBase, Theory.copy_eq]; exact h a List.mem_cons_self
    | cons b r => exact foldCombine_wf (l := a :: b :: r) h

theorem headD_wf {l : List Theory} (h : ∀ x ∈ l, x.wf = true) : (l.headD T0).wf = true := by
  cases l with
  | nil => exact T0_wf
  | cons a rest => exact h a List.mem_cons_self

theorem foldl_sym_wf (vs : List Sym) : ∀ t : Theory, t.wf = true →
    (vs.foldl (fun acc v => acc.combine (symTheory v)) t).wf = true := by
  induction vs with
  | nil => intro t h; exact h
  | cons v l ih => intro t h; exact ih _ (Theory.combine_wf _ _ h (symTheory_wf v))

theorem rule_wf (op : Op) (p : Payload) (args : List Term) (ths : List Theory)
    (h : ∀ x ∈ ths, x.wf = true) : (rule op p args ths).wf = true := by
  cases op
  case symbol => simp only [rule]; split; exact symTheory_wf _; exact T0_wf
  case function =>
    simp only [rule]
    refine (with_flag_wf_aux _ ?_).2.1
    split
    · exact Theory.combine_wf _ _ (funBase_wf h) (tft_wf _)
    · exact funBase_wf h
  case toReal => simp only [rule]; exact Theory.set_lira_wf _ true (headD_wf h) (.inl rfl)
  case intToStr => simp only [rule]; exact Theory.set_strings_wf _ true (headD_wf h)
  case pow =>
    simp only [rule]
    exact Theory.set_difference_logic_wf _ false (Theory.set_linear_wf _ false (headD_wf h))
  case bvToNatural =>
    simp only [rule, Theory.copy_eq]; exact (with_flag_wf_aux _ (headD_wf h)).1
  case strLength => simp only [rule]; exact Theory.combine_wf _ _ (combineList_wf h) (by decide)
  case strIndexOf => simp only [rule]; exact Theory.combine_wf _ _ (combineList_wf h) (by decide)
  case strToInt => simp only [rule]; exact Theory.combine_wf _ _ (combineList_wf h) (by decide)
  case times =>
    simp only [rule]
    apply Theory.set_difference_logic_wf
    split
    · exact Theory.set_linear_wf _ false (foldCombine_wf h)
    · exact foldCombine_wf h
  case plus => simp only [rule]; exact Theory.set_difference_logic_wf _ false (foldCombine_wf h)
  case arrayValue =>
    simp only [rule]
    refine (with_flag_wf_aux _ ?_).2.2
    split
    · exact Theory.combine_wf _ _ (combineList_wf h) (tft_wf _)
    · exact combineList_wf h
  case div =>
    simp only [rule]
    apply Theory.set_difference_logic_wf
    simp only [divCore]
    split
    · rename_i a d ta td
      split
      · exact Theory.set_linear_wf _ false (foldCombine_wf h)
      · split
        · exact Theory.set_linear_wf _ false (foldCombine_wf h)
        · exact Theory.combine_wf _ _ (foldCombine_wf h) (h td (by simp))
    · exact foldCombine_wf h
  case forall_ =>
    simp only [rule]; split
    · exact foldl_sym_wf _ _ (headD_wf h)
    · exact headD_wf h
  case exists_ =>
    simp only [rule]; split
    · exact foldl_sym_wf _ _ (headD_wf h)
    · exact headD_wf h
  all_goals first
    | exact combineList_wf h
    | (simp only [rule]; decide)

/-- whatever the formula, the detected theory is well formed (so `combine_ub` applies to it, and the
assertions inside `walk_plus` cannot fire) -/
theorem theoryOf_wf : (t : Term) → (theoryOf t).wf = true
  | .node op args p => by
    simp only [theoryOf]
    apply rule_wf
    intro x hx
    obtain ⟨a, ha, rfl⟩ := List.mem_map.1 hx
    exact theoryOf_wf a

/-! ### `get_logic` -/

theorem getLogic_spec (t : Term) (L : Logic) (h : getLogic t = .ok L) :
    L ∈ PYSMT_LOGICS ∧ Covers L.theory (theoryOf t) ∧ (hasQuant t = true → L.quantifier_free = false) := by
  have hs := get_closer_pysmt_logic_spec _ L h
  have hc := Logic.le_covers _ _ hs.2.1
  simp only [Logic.covers, Bool.and_eq_true] at hc
  refine ⟨hs.1, (covers_iff _ _).1 hc.1, ?_⟩
  intro hq
  have hq' : t.isQF = false := by simpa [hasQuant] using hq
  have := hc.2
  simp only [hq', Bool.false_or, Bool.not_eq_true'] at this
  exact this

/-- the logic `get_logic` returns enables every intrinsic feature of the formula, and is a quantified
logic when the formula contains a quantifier -/
theorem getLogic_covers (t : Term) (L : Logic) (hf : inFragment t = true) (h : getLogic t = .ok L) :
    Covers L.theory (featuresIntrinsic t) ∧ (hasQuant t = true → L.quantifier_free = false) := by
  obtain ⟨_, h2, h3⟩ := getLogic_spec t L h
  simp only [inFragment, Bool.and_eq_true] at hf
  exact ⟨h2.trans (theoryOf_covers t hf.1 hf.2), h3⟩

end PySMT.TheoryOracle
