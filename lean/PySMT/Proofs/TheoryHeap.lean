import PySMT.Impl.TheoryHeap

/-! Heap model of `TheoryOracle`: every rule leaves the allocated cells alone, returns an object whose value is c13's
    `TheoryOracle.rule`, and (for well-shaped nodes) a *new* object. -/

namespace PySMT.TheoryHeap
open PySMT PySMT.Logics PySMT.TheoryOracle
set_option linter.unusedSimpArgs false

/-- `h'` extends `h`: more cells, the allocated ones unchanged -/
def Ext (h h' : Heap) : Prop := h.next ≤ h'.next ∧ ∀ i, i < h.next → h'.cells i = h.cells i

theorem Ext.refl (h : Heap) : Ext h h := ⟨Nat.le_refl _, fun _ _ => rfl⟩
theorem Ext.trans {a b c : Heap} (h1 : Ext a b) (h2 : Ext b c) : Ext a c :=
  ⟨Nat.le_trans h1.1 h2.1, fun i hi => by rw [h2.2 i (Nat.lt_of_lt_of_le hi h1.1), h1.2 i hi]⟩

/-- the result is an allocated object with value `val`; the cells allocated in `h0` are untouched -/
def PostV (h0 : Heap) (val : Theory) (r : Nat × Heap) : Prop :=
  Ext h0 r.2 ∧ r.1 < r.2.next ∧ r.2.cells r.1 = val

/-- ... and it is an object that did not exist in `h0` -/
def Post (h0 : Heap) (val : Theory) (r : Nat × Heap) : Prop :=
  PostV h0 val r ∧ h0.next ≤ r.1

theorem copy_eq (t : Theory) : t.copy = t := by cases t; rfl

theorem new_post (h0 h : Heap) (v : Theory) (he : Ext h0 h) : Post h0 v (h.new v) := by
  refine ⟨⟨⟨?_, ?_⟩, ?_, ?_⟩, ?_⟩
  · simp only [Heap.new]; have := he.1; omega
  · intro i hi
    have := he.1
    simp only [Heap.new]
    rw [if_neg (by omega)]; exact he.2 i hi
  · simp [Heap.new]
  · simp [Heap.new]
  · simp only [Heap.new]; exact he.1

theorem mutate_post (h0 : Heap) (val : Theory) (a : Nat) (h : Heap) (f : Theory → Theory)
    (hp : Post h0 val (a, h)) : Post h0 (f val) (a, h.mutate a f) := by
  obtain ⟨⟨he, ha, hv⟩, hf⟩ := hp
  simp only at he ha hv hf
  refine ⟨⟨⟨?_, ?_⟩, ?_, ?_⟩, hf⟩
  · exact he.1
  · intro i hi
    simp only [Heap.mutate]
    rw [if_neg (by omega)]; exact he.2 i hi
  · exact ha
  · simp [Heap.mutate, hv]

theorem copy_post (h0 h : Heap) (a : Nat) (he : Ext h0 h) : Post h0 (h.cells a) (copyO h a) := by
  have := new_post h0 h (h.cells a).copy he
  rw [copy_eq] at this; exact this

theorem combine_post (h0 h : Heap) (a b : Nat) (he : Ext h0 h) :
    Post h0 ((h.cells a).combine (h.cells b)) (combineO h a b) := new_post h0 h _ he

theorem fold_post (h0 : Heap) (rest : List Nat) (hr : ∀ b ∈ rest, b < h0.next) :
    ∀ (h : Heap) (a : Nat), Ext h0 h → a < h.next →
      PostV h0 ((rest.map h0.cells).foldl Theory.combine (h.cells a)) (foldO h a rest) ∧
      (rest ≠ [] → h0.next ≤ (foldO h a rest).1) := by
  induction rest with
  | nil => intro h a he ha; exact ⟨⟨he, ha, rfl⟩, fun hne => absurd rfl hne⟩
  | cons b rest ih =>
    intro h a he ha
    have hb : b < h0.next := hr b List.mem_cons_self
    obtain ⟨⟨he1, ha1, hv1⟩, hf1⟩ := combine_post h0 h a b he
    have ih' := ih (fun b' hb' => hr b' (List.mem_cons_of_mem _ hb')) (combineO h a b).2 (combineO h a b).1 he1 ha1
    simp only [foldO, List.map_cons, List.foldl_cons]
    rw [hv1, he.2 b hb] at ih'
    refine ⟨ih'.1, fun _ => ?_⟩
    cases rest with
    | nil => simp only [foldO]; exact hf1
    | cons c rest' => exact ih'.2 (by simp)

theorem walkCombine_post (h0 : Heap) (as : List Nat) (hv : ∀ a ∈ as, a < h0.next) :
    Post h0 (combineList (as.map h0.cells)) (walkCombineO h0 as) := by
  match as, hv with
  | [], _ => exact new_post h0 h0 T0 (Ext.refl _)
  | [a], _ => simp only [walkCombineO, List.map, combineList]; rw [copy_eq]; exact copy_post h0 h0 a (Ext.refl _)
  | a :: b :: rest, hv =>
    have := fold_post h0 (b :: rest) (fun x hx => hv x (List.mem_cons_of_mem _ hx)) h0 a (Ext.refl _)
      (hv a List.mem_cons_self)
    simp only [walkCombineO, List.map_cons, combineList, foldCombine]
    exact ⟨this.1, this.2 (by simp)⟩

theorem quant_post (h0 : Heap) (vs : List Sym) :
    ∀ (h : Heap) (a : Nat), Ext h0 h → a < h.next →
      PostV h0 (vs.foldl (fun acc v => acc.combine (symTheory v)) (h.cells a)) (quantO h a vs) ∧
      (vs ≠ [] → h0.next ≤ (quantO h a vs).1) := by
  induction vs with
  | nil => intro h a he ha; exact ⟨⟨he, ha, rfl⟩, fun hne => absurd rfl hne⟩
  | cons v vs ih =>
    intro h a he ha
    obtain ⟨⟨he1, ha1, hv1⟩, hf1⟩ := new_post h0 h (symTheory v) he
    obtain ⟨⟨he2, ha2, hv2⟩, hf2⟩ := combine_post h0 (h.new (symTheory v)).2 a (h.new (symTheory v)).1 he1
    have ih' := ih _ _ he2 ha2
    simp only [quantO, List.foldl_cons]
    have hcell : (h.new (symTheory v)).2.cells a = h.cells a := by
      simp only [Heap.new]; rw [if_neg (by omega)]
    rw [hv2, hv1, hcell] at ih'
    refine ⟨ih'.1, fun _ => ?_⟩
    cases vs with
    | nil => simp only [quantO]; exact hf2
    | cons c rest' => exact ih'.2 (by simp)

theorem cellHd_eq (h0 : Heap) (as : List Nat) : cellHd h0 as = (as.map h0.cells).headD T0 := by
  cases as <;> rfl

theorem objHd_post (h0 : Heap) (as : List Nat) (hv : ∀ a ∈ as, a < h0.next) :
    PostV h0 ((as.map h0.cells).headD T0) (objHd h0 as) := by
  cases as with
  | nil => exact (new_post h0 h0 T0 (Ext.refl _)).1
  | cons a rest => exact ⟨Ext.refl _, hv a List.mem_cons_self, rfl⟩

/-- a `set_*` / `copy` / `combine` applied to an object: a new object -/
theorem new_of (h0 : Heap) (val : Theory) (r : Nat × Heap) (hp : PostV h0 val r) (f : Theory → Theory) :
    Post h0 (f val) (r.2.new (f (r.2.cells r.1))) := by
  rw [hp.2.2]; exact new_post h0 r.2 (f val) hp.1

theorem foldBase_post (h0 : Heap) (as : List Nat) (hv : ∀ a ∈ as, a < h0.next) :
    PostV h0 (foldCombine (as.map h0.cells)) (foldBaseO h0 as) ∧
    (as.length ≠ 1 → h0.next ≤ (foldBaseO h0 as).1) := by
  cases as with
  | nil => exact ⟨(new_post h0 h0 T0 (Ext.refl _)).1, fun _ => (new_post h0 h0 T0 (Ext.refl _)).2⟩
  | cons a rest =>
    have := fold_post h0 rest (fun x hx => hv x (List.mem_cons_of_mem _ hx)) h0 a (Ext.refl _)
      (hv a List.mem_cons_self)
    simp only [List.map_cons, foldCombine, foldBaseO]
    refine ⟨this.1, fun hl => this.2 ?_⟩
    intro h; subst h; simp at hl

theorem funBase_post (h0 : Heap) (as : List Nat) (hv : ∀ a ∈ as, a < h0.next) :
    Post h0 (funBase (as.map h0.cells)) (funBaseO h0 as) := by
  match as, hv with
  | [], _ => exact new_post h0 h0 T0 (Ext.refl _)
  | [a], _ => simp only [List.map, funBase, funBaseO]; rw [copy_eq]; exact copy_post h0 h0 a (Ext.refl _)
  | a :: b :: rest, hv =>
    have := fold_post h0 (b :: rest) (fun x hx => hv x (List.mem_cons_of_mem _ hx)) h0 a (Ext.refl _)
      (hv a List.mem_cons_self)
    simp only [List.map_cons, funBase, funBaseO]
    exact ⟨this.1, this.2 (by simp)⟩

/-- nodes at which the rule's result is necessarily a new object -/
def freshShape (op : Op) (p : Payload) (as : List Nat) : Bool :=
  match op with
  | .forall_ | .exists_ => (match p with | .qvars (_ :: _) => true | _ => false)
  | _ => true

end PySMT.TheoryHeap
