import PySMT.Proofs.SimpMain
import PySMT.Proofs.SimpPerm
import PySMT.Proofs.SimpTotal
/-!
# The implementation's argument orders are covered

`walk_and`/`walk_or` return `And(set)`/`Or(set)` and `walk_times` returns the product sorted by
node id: the order of the arguments of these three results is a function of the run (set
iteration order, creation order of nodes), not of the formula. `simpWithR tbl ρ` applies an
arbitrary re-ordering `ρ` of the top-level `and`/`or`/`times` arguments, or of the bound variables
of a top-level quantifier (`walk_forall`/`walk_exists` return `ForAll(set, body)`), after **every**
rule application; all components hold for every such `ρ`. With `ρ = id` this is `simpWith`.
Not covered: the order of the (key, value) pairs of an array value (`FormulaManager.Array` sorts them
by `id()`): there is no `eval`-invariance lemma for permuted pairs yet.
-/
namespace PySMT.Simplifier
open PySMT PySMT.Simp

/-! ## the order of bound variables does not matter -/

theorem all_all_comm {α β} (l₁ : List α) (l₂ : List β) (f : α → β → Bool) :
    (l₁.all fun a => l₂.all fun b => f a b) = (l₂.all fun b => l₁.all fun a => f a b) := by
  rw [Bool.eq_iff_iff]
  simp only [List.all_eq_true]
  exact ⟨fun h b hb a ha => h a ha b hb, fun h a ha b hb => h b hb a ha⟩

theorem any_any_comm {α β} (l₁ : List α) (l₂ : List β) (f : α → β → Bool) :
    (l₁.any fun a => l₂.any fun b => f a b) = (l₂.any fun b => l₁.any fun a => f a b) := by
  rw [Bool.eq_iff_iff]
  simp only [List.any_eq_true]
  exact ⟨fun ⟨a, ha, b, hb, h⟩ => ⟨b, hb, a, ha, h⟩, fun ⟨b, hb, a, ha, h⟩ => ⟨a, ha, b, hb, h⟩⟩

theorem bind_comm (I : Interp) {x y : Sym} (hxy : x ≠ y) (v w : Val) :
    (I.bind y v).bind x w = (I.bind x w).bind y v := by
  simp only [Interp.bind]
  congr 1
  funext s
  by_cases h1 : s = x
  · subst h1; simp [hxy]
  · by_cases h2 : s = y
    · subst h2; simp [h1]
    · simp [h1, h2]

/-- **quantifier evaluation is invariant under permutation of the bound variables** (repeated
variables included: swapping two equal neighbours is the identity, swapping two distinct ones
commutes the two `bind`s) -/
theorem quant_perm (all : Bool) (k : Interp → Bool) {vs vs' : List Sym} (h : vs.Perm vs') :
    ∀ I : Interp, I.quant all vs k = I.quant all vs' k := by
  induction h with
  | nil => intro I; rfl
  | cons x _ ih => intro I; simp only [Interp.quant, ih]
  | swap x y l =>
    intro I
    by_cases hxy : x = y
    · subst hxy; rfl
    · simp only [Interp.quant]
      have hd1 : ∀ v, (I.bind y v).dom = I.dom := fun _ => rfl
      have hd2 : ∀ w, (I.bind x w).dom = I.dom := fun _ => rfl
      cases all
      · simp only [Bool.false_eq_true, if_false, hd1, hd2]
        rw [any_any_comm]
        simp only [bind_comm I hxy]
      · simp only [if_true, hd1, hd2]
        rw [all_all_comm]
        simp only [bind_comm I hxy]
  | trans _ _ ih1 ih2 => intro I; rw [ih1, ih2]

/-! ## the re-orderings -/

/-- `g` is `r` up to an order the implementation does not determine: the arguments of a top
`and` / `or` / `times` node permuted (`And(set)`, `Or(set)`, product sorted by node id), or the bound
variables of a top quantifier permuted (`ForAll(set, body)`) -/
def PermTop (r g : Term) : Prop :=
  g = r ∨
  (∃ (o : Op) (l₁ l₂ : List Term) (q : Payload),
    (o = .and ∨ o = .or ∨ o = .times) ∧ r = .node o l₁ q ∧ g = .node o l₂ q ∧ l₁.Perm l₂) ∨
  (∃ (o : Op) (b : Term) (vs vs' : List Sym),
    o.isQuantifier = true ∧ r = .node o [b] (.qvars vs) ∧ g = .node o [b] (.qvars vs') ∧ vs.Perm vs')

/-- a re-ordering changes neither type, well-formedness, value, proviso nor free symbols -/
theorem permTop_facts {τ : Ty} {r g : Term} (hwf : r.wf = true) (hty : r.typeOf = some τ) (hp : PermTop r g) :
    g.typeOf = some τ ∧ g.wf = true ∧
    (∀ I : Interp, I.WF → eval I g = eval I r ∧ div0 I g = div0 I r) ∧ (∀ s, s ∈ g.fv ↔ s ∈ r.fv) := by
  rcases hp with rfl | ⟨o, l₁, l₂, q, ho, rfl, rfl, hperm⟩ | ⟨o, b, vs, vs', hq, rfl, rfl, hperm⟩
  · exact ⟨hty, hwf, fun _ _ => ⟨rfl, rfl⟩, fun _ => Iff.rfl⟩
  · have hplain : o ≠ .symbol ∧ o ≠ .function ∧ o.isQuantifier = false ∧ o ≠ .div := by
      rcases ho with rfl | rfl | rfl <;> exact ⟨by simp, by simp, rfl, by simp⟩
    have hty' : (Term.node o l₂ q).typeOf = some τ := by
      rcases ho with rfl | rfl | rfl
      · have := typeOf_and_iff.mp hty
        exact typeOf_and_iff.mpr ⟨this.1, fun a ha => this.2 a (hperm.mem_iff.mpr ha)⟩
      · have := typeOf_or_iff.mp hty
        exact typeOf_or_iff.mpr ⟨this.1, fun a ha => this.2 a (hperm.mem_iff.mpr ha)⟩
      · exact typeOf_perm_times hperm hty
    have hwf' : (Term.node o l₂ q).wf = true := by
      refine wf_mk' (fun a ha => wf_args hwf a (hperm.mem_iff.mpr ha)) ?_ hty'
      rw [← hperm.length_eq]; exact wf_shape hwf
    refine ⟨hty', hwf', fun I hI => ⟨?_, (div0_perm_plain I o hplain.2.2.1 hplain.2.2.2 q hperm).symm⟩,
      fun s => (fv_perm_plain o hplain.1 hplain.2.1 hplain.2.2.1 q hperm s).symm⟩
    rcases ho with rfl | rfl | rfl
    · exact (eval_perm_and I _ _ q hperm).symm
    · exact (eval_perm_or I _ _ q hperm).symm
    · exact (eval_perm_times I hI hperm hwf).symm
  · have hty' : (Term.node o [b] (.qvars vs')).typeOf = some τ := by
      rw [typeOf_node] at hty ⊢
      cases o <;> simp [Op.isQuantifier] at hq
      · rw [typeOfNode_forall_eq] at hty ⊢; exact hty
      · rw [typeOfNode_exists_eq] at hty ⊢; exact hty
    have hwf' : (Term.node o [b] (.qvars vs')).wf = true := by
      refine wf_mk' (wf_args hwf) ?_ hty'
      cases o <;> simp [Op.isQuantifier] at hq <;> rfl
    refine ⟨hty', hwf', fun I _ => ⟨?_, ?_⟩, fun s => ?_⟩
    · cases o <;> simp [Op.isQuantifier] at hq
      · rw [eval_forall, eval_forall, quant_perm true _ hperm]
      · rw [eval_exists, eval_exists, quant_perm false _ hperm]
    · rw [div0_quant I o hq, div0_quant I o hq, quant_perm false _ hperm]
    · rw [fv_node, fv_node]
      cases o <;> simp [Op.isQuantifier] at hq <;>
        simp only [List.mem_filter, List.contains_eq_mem, hperm.mem_iff]

theorem Res.perm {t : Term} {τ : Ty} {r g : Term} (h : Res t τ r) (hp : PermTop r g) : Res t τ g := by
  obtain ⟨f1, f2, f3, f4⟩ := permTop_facts h.wf h.type hp
  refine ⟨f1, f2, fun I hI hd => ?_, fun I hI hT => ?_, fun s hs => h.fv s ((f4 s).mp hs)⟩
  · obtain ⟨e, d⟩ := h.sound I hI hd
    exact ⟨(f3 I hI).1.trans e, (f3 I hI).2.trans d⟩
  · exact (f3 I hI).1.trans (h.total I hI hT)

/-- bottom-up rule application with a re-ordering `ρ` after every rule -/
def simpWithR (tbl : Op → Option Entry) (ρ : Term → Term) : Term → Term
  | .node op args p =>
    match tbl op with
    | some e => ρ (e.rule p (args.map (simpWithR tbl ρ)))
    | none => .node op (args.map (simpWithR tbl ρ)) p

theorem simpWithR_spec (tbl : Op → Option Entry) (hok : ∀ op e, tbl op = some e → RuleOK op e)
    (ρ : Term → Term) (hρ : ∀ r, PermTop r (ρ r)) :
    (t : Term) → t.wf = true → inFragWith tbl t = true → ∀ τ, t.typeOf = some τ →
      ((simpWithR tbl ρ t).typeOf = some τ ∧ (simpWithR tbl ρ t).wf = true) ∧
      (∀ I : Interp, I.WF → div0 I t = false →
        eval I (simpWithR tbl ρ t) = eval I t ∧ div0 I (simpWithR tbl ρ t) = false) ∧
      (∀ s ∈ (simpWithR tbl ρ t).fv, s ∈ t.fv) ∧
      (∀ I : Interp, I.WF → I.Tot → eval I (simpWithR tbl ρ t) = eval I t)
  | .node op args p => fun hwf hfrag τ hty => by
    obtain ⟨⟨e, he, hg⟩, hfa⟩ := inFragWith_node hfrag
    have hR := hok op e he
    have ih' : ∀ a ∈ args, ((simpWithR tbl ρ a).typeOf = a.typeOf ∧ (simpWithR tbl ρ a).wf = true) ∧
        (∀ I : Interp, I.WF → div0 I a = false →
          eval I (simpWithR tbl ρ a) = eval I a ∧ div0 I (simpWithR tbl ρ a) = false) ∧
        (∀ s ∈ (simpWithR tbl ρ a).fv, s ∈ a.fv) ∧
        (∀ I : Interp, I.WF → I.Tot → eval I (simpWithR tbl ρ a) = eval I a) := by
      intro a ha
      obtain ⟨σ, hσ⟩ := wf_typeOf a (wf_args hwf a ha)
      have := simpWithR_spec tbl hok ρ hρ a (wf_args hwf a ha) (hfa a ha) σ hσ
      rw [hσ]; exact this
    have htys : (args.map (simpWithR tbl ρ)).map Term.typeOf = args.map Term.typeOf := by
      rw [List.map_map]
      exact List.map_congr_left (fun a ha => (ih' a ha).1.1)
    have hty' : (Term.node op (args.map (simpWithR tbl ρ)) p).typeOf = some τ := by
      rw [typeOf_node, htys, ← typeOf_node]; exact hty
    have hwf' : (Term.node op (args.map (simpWithR tbl ρ)) p).wf = true := by
      refine wf_mk' ?_ ?_ hty'
      · intro a' ha'
        obtain ⟨a, ha, rfl⟩ := List.mem_map.mp ha'
        exact (ih' a ha).1.2
      · rw [List.length_map]; exact wf_shape hwf
    have hg' : e.guard p ((args.map (simpWithR tbl ρ)).map Term.typeOf) = true := by rw [htys]; exact hg
    have hsimp : simpWithR tbl ρ (.node op args p) = ρ (e.rule p (args.map (simpWithR tbl ρ))) := by
      rw [simpWithR, he]
    rw [hsimp]
    -- the rule result is correct for the node with simplified arguments, and so is its re-ordering
    have hres : Res (.node op (args.map (simpWithR tbl ρ)) p) τ (e.rule p (args.map (simpWithR tbl ρ))) :=
      ⟨(hR.type p _ τ hwf' hty' hg').1, (hR.type p _ τ hwf' hty' hg').2, hR.sound p _ τ hwf' hty' hg',
        hR.total p _ τ hwf' hty' hg', hR.fv p _ τ hwf' hty' hg'⟩
    have hres' := Res.perm hres (hρ _)
    refine ⟨⟨hres'.type, hres'.wf⟩, ?_, ?_, ?_⟩
    · intro I hI hd
      have hc := node_congr op args p (simpWithR tbl ρ) hwf (fun a ha => (ih' a ha).2.1) I hI hd
      have hs := hres'.sound I hI hc.2
      exact ⟨hs.1.trans hc.1, hs.2⟩
    · intro s hs
      exact fv_node_mono op args p (simpWithR tbl ρ) (fun a ha => (ih' a ha).2.2.1) s (hres'.fv s hs)
    · intro I hI hT
      rw [hres'.total I hI hT]
      exact node_congr_tot op args p (simpWithR tbl ρ) hwf (fun a ha => (ih' a ha).2.2.2) I hI hT

end PySMT.Simplifier
