import PySMT.Proofs.SimpMain
import PySMT.Proofs.SimpPerm
/-!
# The implementation's argument orders are covered

`walk_and`/`walk_or` return `And(set)`/`Or(set)` and `walk_times` returns the product sorted by
node id: the order of the arguments of these three results is a function of the run (set
iteration order, creation order of nodes), not of the formula. `simpWithR tbl ρ` applies an
arbitrary re-ordering `ρ` of the top-level `and`/`or`/`times` arguments after **every** rule
application; the four components hold for every such `ρ`. With `ρ = id` this is `simpWith`.
-/
namespace PySMT.Simplifier
open PySMT PySMT.Simp

/-- `g` is `r` with the arguments of its top node (an `and`, `or` or `times`) permuted -/
def PermTop (r g : Term) : Prop :=
  g = r ∨ ∃ (o : Op) (l₁ l₂ : List Term) (q : Payload),
    (o = .and ∨ o = .or ∨ o = .times) ∧ r = .node o l₁ q ∧ g = .node o l₂ q ∧ l₁.Perm l₂

theorem Res.perm {t : Term} {τ : Ty} {r g : Term} (h : Res t τ r) (hp : PermTop r g) : Res t τ g := by
  rcases hp with rfl | ⟨o, l₁, l₂, q, ho, rfl, rfl, hperm⟩
  · exact h
  · have hplain : o ≠ .symbol ∧ o ≠ .function ∧ o.isQuantifier = false ∧ o ≠ .div := by
      rcases ho with rfl | rfl | rfl <;> exact ⟨by simp, by simp, rfl, by simp⟩
    have hty : (Term.node o l₂ q).typeOf = some τ := by
      rcases ho with rfl | rfl | rfl
      · have := typeOf_and_iff.mp h.type
        exact typeOf_and_iff.mpr ⟨this.1, fun a ha => this.2 a (hperm.mem_iff.mpr ha)⟩
      · have := typeOf_or_iff.mp h.type
        exact typeOf_or_iff.mpr ⟨this.1, fun a ha => this.2 a (hperm.mem_iff.mpr ha)⟩
      · exact typeOf_perm_times hperm h.type
    have hwf : (Term.node o l₂ q).wf = true := by
      refine wf_mk' (fun a ha => wf_args h.wf a (hperm.mem_iff.mpr ha)) ?_ hty
      rw [← hperm.length_eq]; exact wf_shape h.wf
    refine ⟨hty, hwf, fun I hI hd => ?_, fun s hs => ?_⟩
    · obtain ⟨e, d⟩ := h.sound I hI hd
      refine ⟨?_, by rw [← div0_perm_plain I o hplain.2.2.1 hplain.2.2.2 q hperm]; exact d⟩
      rw [← e]
      rcases ho with rfl | rfl | rfl
      · exact (eval_perm_and I _ _ q hperm).symm
      · exact (eval_perm_or I _ _ q hperm).symm
      · exact (eval_perm_times I hI hperm h.wf).symm
    · exact h.fv s ((fv_perm_plain o hplain.1 hplain.2.1 hplain.2.2.1 q hperm s).mpr hs)

/-- bottom-up rule application with a re-ordering `ρ` after every rule -/
def simpWithR (tbl : Op → Option Entry) (ρ : Term → Term) : Term → Term
  | .node op args p =>
    match tbl op with
    | some e => ρ (e.rule p (args.map (simpWithR tbl ρ)))
    | none => .node op (args.map (simpWithR tbl ρ)) p

theorem simpWithR_spec (tbl : Op → Option Entry) (hok : ∀ op e, tbl op = some e → RuleOK op e)
    (ρ : Term → Term) (hρ : ∀ r, PermTop r (ρ r)) :
    (t : Term) → t.wf = true → inFragWith tbl t = true → ∀ τ, t.typeOf = some τ →
      ((simpWithR tbl ρ t).typeOf = some τ ∧ (simpWithR tbl ρ t).wf = true) ∧
      (∀ I : Interp, I.WF → div0 I t = false →
        eval I (simpWithR tbl ρ t) = eval I t ∧ div0 I (simpWithR tbl ρ t) = false) ∧
      (∀ s ∈ (simpWithR tbl ρ t).fv, s ∈ t.fv)
  | .node op args p => fun hwf hfrag τ hty => by
    obtain ⟨⟨e, he, hg⟩, hfa⟩ := inFragWith_node hfrag
    have hR := hok op e he
    have ih' : ∀ a ∈ args, ((simpWithR tbl ρ a).typeOf = a.typeOf ∧ (simpWithR tbl ρ a).wf = true) ∧
        (∀ I : Interp, I.WF → div0 I a = false →
          eval I (simpWithR tbl ρ a) = eval I a ∧ div0 I (simpWithR tbl ρ a) = false) ∧
        (∀ s ∈ (simpWithR tbl ρ a).fv, s ∈ a.fv) := by
      intro a ha
      obtain ⟨σ, hσ⟩ := wf_typeOf a (wf_args hwf a ha)
      have := simpWithR_spec tbl hok ρ hρ a (wf_args hwf a ha) (hfa a ha) σ hσ
      rw [hσ]; exact this
    have htys : (args.map (simpWithR tbl ρ)).map Term.typeOf = args.map Term.typeOf := by
      rw [List.map_map]
      exact List.map_congr_left (fun a ha => (ih' a ha).1.1)
    have hty' : (Term.node op (args.map (simpWithR tbl ρ)) p).typeOf = some τ := by
      rw [typeOf_node, htys, ← typeOf_node]; exact hty
    have hwf' : (Term.node op (args.map (simpWithR tbl ρ)) p).wf = true := by
      refine wf_mk' ?_ ?_ hty'
      · intro a' ha'
        obtain ⟨a, ha, rfl⟩ := List.mem_map.mp ha'
        exact (ih' a ha).1.2
      · rw [List.length_map]; exact wf_shape hwf
    have hg' : e.guard p ((args.map (simpWithR tbl ρ)).map Term.typeOf) = true := by rw [htys]; exact hg
    have hsimp : simpWithR tbl ρ (.node op args p) = ρ (e.rule p (args.map (simpWithR tbl ρ))) := by
      rw [simpWithR, he]
    rw [hsimp]
    -- the rule result is correct for the node with simplified arguments, and so is its re-ordering
    have hres : Res (.node op (args.map (simpWithR tbl ρ)) p) τ (e.rule p (args.map (simpWithR tbl ρ))) :=
      ⟨(hR.type p _ τ hwf' hty' hg').1, (hR.type p _ τ hwf' hty' hg').2, hR.sound p _ τ hwf' hty' hg',
        hR.fv p _ τ hwf' hty' hg'⟩
    have hres' := Res.perm hres (hρ _)
    refine ⟨⟨hres'.type, hres'.wf⟩, ?_, ?_⟩
    · intro I hI hd
      have hc := node_congr op args p (simpWithR tbl ρ) hwf (fun a ha => (ih' a ha).2.1) I hI hd
      have hs := hres'.sound I hI hc.2
      exact ⟨hs.1.trans hc.1, hs.2⟩
    · intro s hs
      exact fv_node_mono op args p (simpWithR tbl ρ) (fun a ha => (ih' a ha).2.2) s (hres'.fv s hs)

end PySMT.Simplifier
