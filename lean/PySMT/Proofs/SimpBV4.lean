import PySMT.Proofs.SimpBV1
/-!
# `RuleOK` for `walk_bv_udiv`, `_urem`, `_lshl`, `_lshr` (every width; division by zero included)
-/
namespace PySMT.Simp.BVRules
open PySMT PySMT.Build PySMT.Simp

theorem isBin_udiv : IsBin .bvUdiv (fun _ x y => BitVec.smtUDiv x y) :=
  ⟨rfl, by simp, by simp, rfl, fun _ => rfl, fun _ _ _ _ => rfl⟩
theorem isBin_urem : IsBin .bvUrem (fun _ x y => BitVec.umod x y) :=
  ⟨rfl, by simp, by simp, rfl, fun _ => rfl, fun _ _ _ _ => rfl⟩
theorem isBin_lshl : IsBin .bvLshl (fun _ x y => x <<< y.toNat) :=
  ⟨rfl, by simp, by simp, rfl, fun _ => rfl, fun _ _ _ _ => rfl⟩
theorem isBin_lshr : IsBin .bvLshr (fun _ x y => x >>> y.toNat) :=
  ⟨rfl, by simp, by simp, rfl, fun _ => rfl, fun _ _ _ _ => rfl⟩

theorem walkBvUdiv_ok : RuleOK .bvUdiv walkBvUdiv := by
  refine RuleOK.of_res fun p args τ hwf hty _ => ?_
  obtain ⟨a, b, w, rfl, rfl, c⟩ := bin_ctx isBin_udiv (shape2 fun _ _ => rfl) hwf hty
  show Res _ _ (walkBvUdiv p [a, b])
  unfold walkBvUdiv
  simp only [c.hpw]
  split
  · next rhs h2 =>
    obtain ⟨rfl, hr⟩ := c.constB h2
    split
    · next h0 =>
      subst h0
      exact c.const _ fun I hI => by rw [bvVal_bvc, spec_udiv (c.ltA hI) hr, if_pos rfl]
    · next h0 =>
      split
      · next h1 =>
        subst h1
        exact c.left fun I hI => by rw [bvVal_bvc, spec_udiv (c.ltA hI) hr, if_neg h0, Nat.div_one]
      · split
        · next lhs h1 =>
          obtain ⟨rfl, hl⟩ := c.constA h1
          exact c.const _ fun I hI => by rw [bvVal_bvc, bvVal_bvc, spec_udiv hl hr, if_neg h0, div_mod_lt hl]
        · exact c.rebuild
  · exact c.rebuild

theorem walkBvUrem_ok : RuleOK .bvUrem walkBvUrem := by
  refine RuleOK.of_res fun p args τ hwf hty _ => ?_
  obtain ⟨a, b, w, rfl, rfl, c⟩ := bin_ctx isBin_urem (shape2 fun _ _ => rfl) hwf hty
  show Res _ _ (walkBvUrem p [a, b])
  unfold walkBvUrem
  simp only [c.hpw]
  split
  · next rhs h2 =>
    obtain ⟨rfl, hr⟩ := c.constB h2
    split
    · next h0 =>
      subst h0
      exact c.left fun I hI => by rw [bvVal_bvc, spec_urem (c.ltA hI) hr, Nat.mod_zero]
    · split
      · next h1 =>
        subst h1
        exact c.const 0 fun I hI => by rw [bvVal_bvc, spec_urem (c.ltA hI) hr, Nat.mod_one]
      · split
        · next lhs h1 =>
          obtain ⟨rfl, hl⟩ := c.constA h1
          exact c.const _ fun I hI => by rw [bvVal_bvc, bvVal_bvc, spec_urem hl hr]
        · exact c.rebuild
  · split
    · next h1 =>
      obtain ⟨rfl, hl⟩ := c.constA h1
      exact c.const 0 fun I hI => by rw [bvVal_bvc, spec_urem hl (c.ltB hI), Nat.zero_mod]
    · exact c.rebuild

theorem walkBvLshl_ok : RuleOK .bvLshl walkBvLshl := by
  refine RuleOK.of_res fun p args τ hwf hty _ => ?_
  obtain ⟨a, b, w, rfl, rfl, c⟩ := bin_ctx isBin_lshl (shape2 fun _ _ => rfl) hwf hty
  show Res _ _ (walkBvLshl p [a, b])
  unfold walkBvLshl
  simp only [c.widthA]
  split
  · next rhs h2 =>
    obtain ⟨rfl, hr⟩ := c.constB h2
    split
    · next h0 =>
      subst h0
      exact c.left fun I hI => by
        rw [bvVal_bvc, spec_shl (c.ltA hI) hr, Nat.shiftLeft_zero, Nat.mod_eq_of_lt (c.ltA hI)]
    · split
      · next hge =>
        exact c.const 0 fun I hI => by rw [bvVal_bvc, spec_shl (c.ltA hI) hr, shl_big hge]
      · split
        · next lhs h1 =>
          obtain ⟨rfl, hl⟩ := c.constA h1
          exact c.const _ fun I hI => by rw [bvVal_bvc, bvVal_bvc, spec_shl hl hr]
        · exact c.rebuild
  · split
    · next h1 =>
      obtain ⟨e, hl⟩ := c.constA h1
      exact c.left fun I hI => by
        rw [e, bvVal_bvc, spec_shl hl (c.ltB hI), Nat.zero_shiftLeft, Nat.zero_mod]
    · exact c.rebuild

theorem walkBvLshr_ok : RuleOK .bvLshr walkBvLshr := by
  refine RuleOK.of_res fun p args τ hwf hty _ => ?_
  obtain ⟨a, b, w, rfl, rfl, c⟩ := bin_ctx isBin_lshr (shape2 fun _ _ => rfl) hwf hty
  show Res _ _ (walkBvLshr p [a, b])
  unfold walkBvLshr
  simp only [c.widthA]
  split
  · next rhs h2 =>
    obtain ⟨rfl, hr⟩ := c.constB h2
    split
    · next h0 =>
      subst h0
      exact c.left fun I hI => by rw [bvVal_bvc, spec_shr (c.ltA hI) hr, Nat.shiftRight_zero]
    · split
      · next hge =>
        exact c.const 0 fun I hI => by rw [bvVal_bvc, spec_shr (c.ltA hI) hr, shr_big (c.ltA hI) hge]
      · split
        · next lhs h1 =>
          obtain ⟨rfl, hl⟩ := c.constA h1
          exact c.const _ fun I hI => by rw [bvVal_bvc, bvVal_bvc, spec_shr hl hr, shr_mod_lt hl]
        · exact c.rebuild
  · split
    · next h1 =>
      obtain ⟨e, hl⟩ := c.constA h1
      exact c.left fun I hI => by
        rw [e, bvVal_bvc, spec_shr hl (c.ltB hI), Nat.zero_shiftRight]
    · exact c.rebuild

end PySMT.Simp.BVRules
