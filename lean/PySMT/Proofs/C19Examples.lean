import PySMT.Proofs.C19Exec
import PySMT.Proofs.C19Outcome
/-!
# C19 — concrete runs (used by the non-vacuity examples of `Props/C19.lean`)

`pickD cfg s cs` follows, from `s`, the schedule that always takes the `cs[k]`-th enabled internal step (and stays
where it is when there is no such step), so the state it computes is reachable whenever `s` is.
-/
namespace PySMT.Portfolio

def pickD (cfg : Cfg) : State → List Nat → State
  | s, [] => s
  | s, k :: ks => match (isuccs cfg s)[k]? with
    | some t => pickD cfg t ks
    | none => s

theorem reach_pickD (cfg : Cfg) (cs : List Nat) : ∀ s, Reach cfg s → Reach cfg (pickD cfg s cs) := by
  induction cs with
  | nil => intro s h; exact h
  | cons k ks ih =>
    intro s h
    unfold pickD
    split
    · rename_i t ht
      exact ih t (Reach.step s t h (Step.internal s t (isuccs_sound cfg s t (List.mem_of_getElem? ht))))
    · exact h

/-- two members, the first answers "sat", the second answers unknown; `exit_on_exception` off -/
def cfgTU : Cfg := { n := 2, eoe := false, beh := fun _ i => if i = 0 then .answer true else .raise .unknown, os := { killAtomic := true } }
/-- two members that both fail -/
def cfgRU (eoe : Bool) : Cfg :=
  { n := 2, eoe := eoe, beh := fun _ i => if i = 0 then .raise .solverError else .raise .unknown, os := { killAtomic := true } }
/-- two members that both answer "sat"; `atomic` = assumption A1 -/
def cfgTT (atomic : Bool) : Cfg := { n := 2, eoe := false, beh := fun _ _ => .answer true, os := { killAtomic := atomic } }

theorem reach_fresh_init (cfg : Cfg) : Reach cfg (fresh cfg init) :=
  Reach.step init _ Reach.init (Step.user init _ (UStep.solveStart init rfl))

/-- cfgTT: both members finish and flush (so both are blocked in `recv` on the shared control pipe), then the parent
    takes member 0's answer, terminates member 1 and returns -/
def ttReturned (atomic : Bool) : State := pickD (cfgTT atomic) (fresh (cfgTT atomic) init) [0, 0, 1, 1, 0, 0, 0, 0]

def askState (s : State) (v : Bool) (w q : Nat) : State := { s with ctrl := s.ctrl ++ [.query q], p := .awaiting v w q }

theorem reach_ask (cfg : Cfg) (s : State) (h : Reach cfg s) (v : Bool) (w q : Nat) (hp : s.p = .returned v w) :
    Reach cfg (askState s v w q) :=
  Reach.step s _ h (Step.user s _ (UStep.ask s v w q hp))

/-- with A1: the query is received by the winner and answered -/
def ttServed : State := pickD (cfgTT true) (askState (ttReturned true) true 0 0) [0, 0]

/-- without A1: the terminated member 1 swallows the query; nobody will ever answer -/
def ttStuck : State := pickD (cfgTT false) (askState (ttReturned false) true 0 0) [1]

/-- both members answer "sat" and the winner may die afterwards (fault `serveCrash`) -/
def cfgTTc : Cfg := { n := 2, eoe := false, beh := fun _ _ => .answer true, os := { killAtomic := true, serveCrash := true } }
def ttcReturned : State := pickD cfgTTc (fresh cfgTTc init) [0, 0, 2, 2, 0, 0, 0, 0]

theorem reach_ttReturned (atomic : Bool) : Reach (cfgTT atomic) (ttReturned atomic) :=
  reach_pickD _ _ _ (reach_fresh_init _)

theorem reach_ttServed : Reach (cfgTT true) ttServed :=
  reach_pickD _ _ _ (reach_ask _ _ (reach_ttReturned true) true 0 0 (by decide))

theorem reach_ttStuck : Reach (cfgTT false) ttStuck :=
  reach_pickD _ _ _ (reach_ask _ _ (reach_ttReturned false) true 0 0 (by decide))

/-- the winner dies while the parent waits for its reply; the parent's `recv` ends with EOF -/
def ttcEOF : State := pickD cfgTTc (askState ttcReturned true 0 0) [1, 0]

theorem reach_ttcEOF : Reach cfgTTc ttcEOF :=
  reach_pickD _ _ _ (reach_ask _ _ (reach_pickD _ _ _ (reach_fresh_init _)) true 0 0 (by decide))

end PySMT.Portfolio
