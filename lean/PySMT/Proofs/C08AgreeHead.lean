import PySMT.Proofs.C08AgreeApp
/-!
# C08/C09 agreement: unary minus of literals, `(_ bvN w)`, indexed operators and `(as const σ)` in head position
-/
namespace PySMT.Parser.Agree
open PySMT PySMT.Parser PySMT.Std PySMT.Sexp

/-! ## numeric literals -/

theorem numLit_const (env : SEnv) (sc : List Binding) (x : Sexp) (hx : isNumLit x = true) (u : Term) (τ : Ty)
    (h : rd env sc x = .ok (u, τ)) :
    (∃ n : Nat, u = Term.int n ∧ τ = .int) ∨ (∃ q : Rat, u = Term.real q ∧ τ = .real) := by
  match x, hx with
  | .atom tok, hx =>
    rw [rd] at h
    unfold atomTerm at h
    cases hn : numeral? tok with
    | some n =>
      simp only [hn] at h
      split at h
      · cases h; exact Or.inr ⟨_, rfl, rfl⟩
      · cases h; exact Or.inl ⟨_, rfl, rfl⟩
    | none =>
      simp only [hn] at h
      cases hd : decimal? tok with
      | some q => simp only [hd] at h; cases h; exact Or.inr ⟨_, rfl, rfl⟩
      | none => simp [isNumLit, hn, hd] at hx

theorem nonzeroLit_real (env : SEnv) (sc : List Binding) (x : Sexp) (hx : isNonzeroLit x = true) (q : Rat)
    (h : rd env sc x = .ok (Term.real q, .real)) : q ≠ 0 := by
  match x, hx with
  | .atom tok, hx =>
    rw [rd] at h
    unfold atomTerm at h
    simp only [isNonzeroLit] at hx
    cases hn : numeral? tok with
    | some n =>
      simp only [hn, bne_iff_ne, ne_eq] at h hx
      split at h
      · simp only [Term.real, Except.ok.injEq, Prod.mk.injEq, Term.node.injEq, Payload.q.injEq, true_and, and_true] at h
        rw [← h]
        intro h0
        apply hx
        have : ((n : Int) : Rat) = ((0 : Int) : Rat) := by simpa using h0
        have := Rat.intCast_inj.mp this
        omega
      · simp [Term.real, Term.int] at h
    | none =>
      simp only [hn] at h hx
      cases hd : decimal? tok with
      | some q' =>
        simp only [hd, bne_iff_ne, ne_eq, Term.real, Except.ok.injEq, Prod.mk.injEq, Term.node.injEq, Payload.q.injEq,
          true_and, and_true] at h hx
        rw [← h]; exact hx
      | none => simp [hd] at hx

theorem nonzero_numLit {x : Sexp} (h : isNonzeroLit x = true) : isNumLit x = true := by
  match x, h with
  | .atom tok, h =>
    simp only [isNonzeroLit] at h
    simp only [isNumLit]
    cases hn : numeral? tok with
    | some n => simp
    | none =>
      cases hd : decimal? tok with
      | some q => simp
      | none => simp [hn, hd] at h

theorem isNumConst_int (n : Int) : isNumConst (Term.int n) = some (.inl n) := rfl
theorem isNumConst_realc (q : Rat) : isNumConst (Term.real q) = some (.inr q) := rfl

theorem div_facts : opTokFacts "/" = true := by decide +kernel

/-- what the standard reads for the argument of a unary minus in the fragment is a numeric constant -/
theorem minusArg_const (env : SEnv) (sc : List Binding) (x : Sexp) (hx : minusArgOK x = true) (u : Term) (τ : Ty)
    (h : rd env sc x = .ok (u, τ)) : (isNumConst u).isSome = true := by
  match x, hx with
  | .atom tok, hx =>
    rcases numLit_const env sc (.atom tok) (by simpa [minusArgOK] using hx) u τ h with ⟨n, rfl, _⟩ | ⟨q, rfl, _⟩
    · rfl
    · rfl
  | .list [.atom hd, a, b], hx =>
    simp only [minusArgOK, Bool.and_eq_true, beq_iff_eq] at hx
    obtain ⟨⟨rfl, ha⟩, hb⟩ := hx
    obtain ⟨as, hl, _, hap⟩ := rd_app_inv env sc "/" div_facts [a, b] u τ h
    simp only [rdList] at hl
    cases h1 : rd env sc a with
    | error e => simp [h1] at hl
    | ok r1 =>
      cases h2 : rd env sc b with
      | error e => simp [h1, h2] at hl
      | ok r2 =>
        simp only [h1, h2, Except.ok.injEq] at hl
        subst hl
        obtain ⟨u1, t1⟩ := r1
        obtain ⟨u2, t2⟩ := r2
        simp only [applyTheory, List.length_cons, List.length_nil, leftFold, List.foldlM_cons, List.foldlM_nil, bind,
          Except.bind, pure, Except.pure] at hap
        simp (config := { decide := true }) only [if_true] at hap
        cases hr : realDiv (u1, t1) (u2, t2) with
        | error e => simp [hr] at hap
        | ok r =>
          simp only [hr, Except.ok.injEq] at hap
          subst hap
          unfold realDiv at hr
          split at hr
          · rename_i hc
            simp only [Bool.and_eq_true, beq_iff_eq] at hc
            obtain ⟨rfl, rfl⟩ := hc
            rcases numLit_const env sc a ha u1 _ h1 with ⟨n, _, ht⟩ | ⟨q1, rfl, _⟩
            · cases ht
            · rcases numLit_const env sc b (nonzero_numLit hb) u2 _ h2 with ⟨n, _, ht⟩ | ⟨q2, rfl, _⟩
              · cases ht
              · have hq2 := nonzeroLit_real env sc b hb q2 h2
                simp only [isNumConst_realc, ne_eq, hq2, not_false_eq_true, if_true] at hr
                cases hr
                rfl
          · cases hr

/-! ## `(_ bvN w)` -/

theorem agree_bvlit (env : SEnv) (sc : List Binding) (Γ : PEnv) (lone : Bool) (args : List Sexp)
    (hok : bvLitOK args = true) (u : Term) (τ : Ty) (h : rd env sc (.list (.atom "_" :: args)) = .ok (u, τ)) :
    rdVal Γ lone (.list (.atom "_" :: args)) = .ok (.term (mkNorm u), Γ.mgr) ∧ TOK (mkNorm u) τ := by
  rw [rd] at h
  simp (config := { decide := true }) only [if_false, if_true] at h
  have hp : pyTok "_" = "_" := by decide
  have ht : tableLookup "_" = some (.handler "_smtlib_underscore") := by decide
  have hrv : rdVal Γ lone (.list (.atom "_" :: args)) = (underscore args).map (fun v => (v, Γ.mgr)) := by
    rw [rdVal]
    simp only [hp, ht]
    simp (config := { decide := true }) only [if_false, if_true]
  match args, hok, h with
  | [.atom lit, .atom w], hok, h =>
    obtain ⟨v, k, hl, hw, hk, rfl, rfl, hlt, _⟩ := Lit.underscore_bvLit lit w u τ h
    have hv : v < 2 ^ k := by simpa [bvLitOK, hl, hw] using hok
    obtain ⟨he, hu⟩ := hlt hv
    rw [hrv, hu, he, mkNorm_bvc]
    exact ⟨rfl, tok_bvc v k hv⟩
  | [], _, h => simp [bvLitTerm] at h
  | [_], _, h => simp [bvLitTerm] at h
  | [.str _, _], _, h => simp [bvLitTerm] at h
  | [.list _, _], _, h => simp [bvLitTerm] at h
  | [.atom _, .str _], _, h => simp [bvLitTerm] at h
  | [.atom _, .list _], _, h => simp [bvLitTerm] at h
  | _ :: _ :: _ :: _, _, h => simp [bvLitTerm] at h

end PySMT.Parser.Agree
