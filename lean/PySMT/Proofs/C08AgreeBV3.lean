import PySMT.Proofs.C08AgreeBV2
/-!
# C08/C09 agreement, operator families: fixed-size bit-vectors (3) — the n-ary forms

The standard declares `bvand bvor bvadd bvmul` (and `bvxor`, which pySMT's `BVXor` takes with two arguments only)
`:left-assoc`, and `concat` is read left-associatively too; `FormulaManager.BVAnd(*args)` etc. chain their arguments from
the left as well, and `BVRepeat` concatenates from the left. So the readings agree for every number of arguments.
-/
namespace PySMT.Parser.Agree
open PySMT PySMT.Parser PySMT.Std PySMT.Sexp

/-! ## `bvand`, `bvor`, `bvadd`, `bvmul` with two or more arguments -/

def bvNaryMethods : List (String × String) := [("bvand","BVAnd"),("bvor","BVOr"),("bvadd","BVAdd"),("bvmul","BVMul")]

/-- `List.foldlM (Std.bvBin op)` against `Mk.bvChain op` -/
theorem chain_agree (op : Op) (hop : isBvBinOp op = true) :
    ∀ (rest : List TT) (acc : TT) (u : Term) (τ : Ty), TOK (mkNorm acc.1) acc.2 →
      (∀ a ∈ rest, TOK (mkNorm a.1) a.2) → rest.foldlM (Std.bvBin op) acc = .ok (u, τ) →
      Mk.bvChain op (mkNorm acc.1) (nargs rest) = .ok (mkNorm u) ∧ TOK (mkNorm u) τ
  | [], acc, u, τ, hacc, _, h => by
    simp only [List.foldlM_nil, pure, Except.pure, Except.ok.injEq] at h
    subst h
    exact ⟨rfl, hacc⟩
  | b :: rest, acc, u, τ, hacc, hrest, h => by
    simp only [List.foldlM_cons, bind, Except.bind] at h
    cases hr : Std.bvBin op acc b with
    | error e => rw [hr] at h; cases h
    | ok r =>
      obtain ⟨u0, τ0⟩ := r
      rw [hr] at h
      obtain ⟨w, _, _, _, _, h1, h2⟩ := bvBin_agree op hop acc b u0 τ0 hacc (hrest b (by simp)) hr
      obtain ⟨h3, h4⟩ := chain_agree op hop rest (u0, τ0) u τ h2 (fun a ha => hrest a (by simp [ha])) h
      refine ⟨?_, h4⟩
      simp only [nargs_cons, Mk.bvChain, h1, bind, Except.bind]
      exact h3

/-- the standard's reading of the left-associative operators -/
def stdNary (f : String) (op : Op) (args : List TT) : Except String TT :=
  if args.length ≥ 2 then leftFold (Std.bvBin op) args else .error (f ++ ": arguments expected")

theorem std_bvand (as : List TT) : applyTheory "bvand" as = stdNary "bvand" .bvAnd as := rfl
theorem std_bvor (as : List TT) : applyTheory "bvor" as = stdNary "bvor" .bvOr as := rfl
theorem std_bvadd (as : List TT) : applyTheory "bvadd" as = stdNary "bvadd" .bvAdd as := rfl
theorem std_bvmul (as : List TT) : applyTheory "bvmul" as = stdNary "bvmul" .bvMul as := rfl

theorem callMgr_bvand_n (ts : List Term) : callMgr "BVAnd" ts = liftMk (Mk.bvNary .bvAnd ts) := by
  simp [callMgr, mgrArity, Mk.call, Sound.termArgs_map, bind, Except.bind, Mk.BVAnd]
theorem callMgr_bvor_n (ts : List Term) : callMgr "BVOr" ts = liftMk (Mk.bvNary .bvOr ts) := by
  simp [callMgr, mgrArity, Mk.call, Sound.termArgs_map, bind, Except.bind, Mk.BVOr]
theorem callMgr_bvadd_n (ts : List Term) : callMgr "BVAdd" ts = liftMk (Mk.bvNary .bvAdd ts) := by
  simp [callMgr, mgrArity, Mk.call, Sound.termArgs_map, bind, Except.bind, Mk.BVAdd]
theorem callMgr_bvmul_n (ts : List Term) : callMgr "BVMul" ts = liftMk (Mk.bvNary .bvMul ts) := by
  simp [callMgr, mgrArity, Mk.call, Sound.termArgs_map, bind, Except.bind, Mk.BVMul]

theorem nary_agree (f m : String) (op : Op) (hop : isBvBinOp op = true)
    (hcall : ∀ ts, callMgr m ts = liftMk (Mk.bvNary op ts))
    (as : List TT) (u : Term) (τ : Ty) (hargs : ∀ a ∈ as, TOK (mkNorm a.1) a.2)
    (hstd : stdNary f op as = .ok (u, τ)) : Agrees (.mgr m) as u τ := by
  unfold stdNary at hstd
  split at hstd
  · match as, hargs, hstd with
    | [], _, hstd => cases hstd
    | a :: rest, hargs, hstd =>
      simp only [leftFold] at hstd
      obtain ⟨h1, h2⟩ := chain_agree op hop rest a u τ (hargs a (by simp)) (fun x hx => hargs x (by simp [hx])) hstd
      refine ⟨?_, h2⟩
      rw [applyFn_mgr, hcall]
      simp only [nargs_cons, Mk.bvNary, h1]; rfl
  · cases hstd

theorem ag_bvnary (f m : String) (hf : (f, m) ∈ bvNaryMethods) (as : List TT) (u : Term) (τ : Ty)
    (hargs : ∀ a ∈ as, TOK (mkNorm a.1) a.2)
    (hstd : applyTheory f as = .ok (u, τ)) : Agrees (.mgr m) as u τ := by
  simp only [bvNaryMethods, List.mem_cons, Prod.mk.injEq, List.not_mem_nil, or_false] at hf
  rcases hf with ⟨rfl, rfl⟩ | ⟨rfl, rfl⟩ | ⟨rfl, rfl⟩ | ⟨rfl, rfl⟩
  · rw [std_bvand] at hstd; exact nary_agree _ _ .bvAnd rfl callMgr_bvand_n as u τ hargs hstd
  · rw [std_bvor] at hstd; exact nary_agree _ _ .bvOr rfl callMgr_bvor_n as u τ hargs hstd
  · rw [std_bvadd] at hstd; exact nary_agree _ _ .bvAdd rfl callMgr_bvadd_n as u τ hargs hstd
  · rw [std_bvmul] at hstd; exact nary_agree _ _ .bvMul rfl callMgr_bvmul_n as u τ hargs hstd

/-! ## `concat` with two or more arguments -/

/-- `List.foldlM bvConcat2` against `Mk.concatChain` -/
theorem concatChain_agree :
    ∀ (rest : List TT) (acc : TT) (u : Term) (τ : Ty), TOK (mkNorm acc.1) acc.2 →
      (∀ a ∈ rest, TOK (mkNorm a.1) a.2) → rest.foldlM bvConcat2 acc = .ok (u, τ) →
      Mk.concatChain (mkNorm acc.1) (nargs rest) = .ok (mkNorm u) ∧ TOK (mkNorm u) τ
  | [], acc, u, τ, hacc, _, h => by
    simp only [List.foldlM_nil, pure, Except.pure, Except.ok.injEq] at h
    subst h
    exact ⟨rfl, hacc⟩
  | b :: rest, acc, u, τ, hacc, hrest, h => by
    simp only [List.foldlM_cons, bind, Except.bind] at h
    cases hr : bvConcat2 acc b with
    | error e => rw [hr] at h; cases h
    | ok r =>
      obtain ⟨u0, τ0⟩ := r
      rw [hr] at h
      obtain ⟨h1, h2⟩ := concat2_agree acc b u0 τ0 hacc (hrest b (by simp)) hr
      obtain ⟨h3, h4⟩ := concatChain_agree rest (u0, τ0) u τ h2 (fun a ha => hrest a (by simp [ha])) h
      refine ⟨?_, h4⟩
      simp only [nargs_cons, Mk.concatChain, h1, bind, Except.bind]
      exact h3

theorem callMgr_concat_n (ts : List Term) : callMgr "BVConcat" ts = liftMk (Mk.BVConcat ts) := by
  simp [callMgr, mgrArity, Mk.call, Sound.termArgs_map, bind, Except.bind]

theorem ag_concat_nary (as : List TT) (u : Term) (τ : Ty) (hargs : ∀ a ∈ as, TOK (mkNorm a.1) a.2)
    (hstd : applyTheory "concat" as = .ok (u, τ)) : Agrees (.mgr "BVConcat") as u τ := by
  simp only [applyTheory] at hstd
  split at hstd
  · match as, hargs, hstd with
    | [], _, hstd => cases hstd
    | [_], _, hstd => rename_i hl; simp at hl
    | a :: b :: rest, hargs, hstd =>
      simp only [leftFold] at hstd
      obtain ⟨h1, h2⟩ := concatChain_agree (b :: rest) a u τ (hargs a (by simp))
        (fun x hx => hargs x (List.mem_cons_of_mem _ hx)) hstd
      refine ⟨?_, h2⟩
      rw [applyFn_mgr, callMgr_concat_n]
      simp only [nargs_cons, Mk.concatChain] at h1
      simp only [nargs_cons, Mk.BVConcat, h1]; rfl
  · cases hstd

/-! ## `(_ repeat k)` -/

theorem applyFn_rep (k : Int) (x : Term) :
    applyFn (.rep k) ([x].map .term) = (liftMk (Mk.BVRepeat x k)).map Parser.Val.term := rfl

theorem std_repeat (k : Nat) (as : List TT) (u : Term) (τ : Ty)
    (h : applyIndexed "repeat" [k] as = .ok (u, τ)) :
    ∃ a, as = [a] ∧ 1 ≤ k ∧ leftFold bvConcat2 (List.replicate k a) = .ok (u, τ) := by
  match as, h with
  | [], h => cases h
  | _ :: _ :: _, h => cases h
  | [a], h =>
    simp only [applyIndexed] at h
    split at h
    · split at h
      · rename_i hk
        exact ⟨a, rfl, hk, h⟩
      · cases h
    · cases h

theorem BVConcat_two (x y : Term) : Mk.BVConcat [x, y] = Mk.concat2 x y := by
  simp only [Mk.BVConcat, Mk.concatChain, bind, Except.bind]
  cases Mk.concat2 x y <;> rfl

/-- `List.foldlM bvConcat2` over `n` copies against `Mk.repeatChain` -/
theorem repeatChain_agree (a : TT) (ha : TOK (mkNorm a.1) a.2) :
    ∀ (n : Nat) (acc : TT) (u : Term) (τ : Ty), TOK (mkNorm acc.1) acc.2 →
      (List.replicate n a).foldlM bvConcat2 acc = .ok (u, τ) →
      Mk.repeatChain (mkNorm a.1) (mkNorm acc.1) n = .ok (mkNorm u) ∧ TOK (mkNorm u) τ
  | 0, acc, u, τ, hacc, h => by
    simp only [List.replicate_zero, List.foldlM_nil, pure, Except.pure, Except.ok.injEq] at h
    subst h
    exact ⟨rfl, hacc⟩
  | n + 1, acc, u, τ, hacc, h => by
    simp only [List.replicate_succ, List.foldlM_cons, bind, Except.bind] at h
    cases hr : bvConcat2 acc a with
    | error e => rw [hr] at h; cases h
    | ok r =>
      obtain ⟨u0, τ0⟩ := r
      rw [hr] at h
      obtain ⟨h1, h2⟩ := concat2_agree acc a u0 τ0 hacc ha hr
      obtain ⟨h3, h4⟩ := repeatChain_agree a ha n (u0, τ0) u τ h2 h
      refine ⟨?_, h4⟩
      simp only [Mk.repeatChain, BVConcat_two, h1, bind, Except.bind]
      exact h3

theorem ag_repeat (k : Nat) (as : List TT) (u : Term) (τ : Ty) (hargs : ∀ a ∈ as, TOK (mkNorm a.1) a.2)
    (hstd : applyIndexed "repeat" [k] as = .ok (u, τ)) : Agrees (.rep (k : Int)) as u τ := by
  obtain ⟨a, rfl, hk, h⟩ := std_repeat k as u τ hstd
  have ha := hargs a (by simp)
  obtain ⟨n, rfl⟩ : ∃ n, k = n + 1 := ⟨k - 1, by omega⟩
  simp only [List.replicate_succ, leftFold] at h
  obtain ⟨h1, h2⟩ := repeatChain_agree a ha n a u τ ha h
  refine ⟨?_, h2⟩
  simp only [nargs_cons, nargs_nil]
  rw [applyFn_rep]
  have hlt : ¬ (((n + 1 : Nat) : Int) < 1) := by omega
  have hn : (((n + 1 : Nat) : Int) - 1).toNat = n := by omega
  simp only [Mk.BVRepeat, hlt, if_false, hn, h1]; rfl

end PySMT.Parser.Agree
