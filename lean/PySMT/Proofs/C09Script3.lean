import PySMT.Proofs.C09Script2
import PySMT.Proofs.C09DagRound
/-!
# C09: print → parse for the SCRIPT of a formula — any assertion text of the fragment; the DAG form

`script_print_parse_text`: the commands of `scriptOfFormula` around an arbitrary assertion text `a` that the standard reads
as the Bool term `u` (in the environment of the declarations), in the fragment of the agreement theorem: the parser reads
the declarations and `assert (mkNorm u)`. `script_print_parse_dag_exact`: the instance for the DAG printer's text
(`serialize(daggify=True)`, the default), for quantifier-free formulas without rotations.
-/
namespace PySMT.Parser.Agree
open PySMT PySMT.Parser PySMT.Std PySMT.Sexp PySMT.Printer

theorem script_print_parse_text (logic : String) (ρ : List (String × Sym)) (t : Term) (hs : ScriptOK logic t = true)
    (hl : logicOK logic = true) (henv : envOK (scriptEnv logic t) = true)
    (hρ : ∀ s ∈ t.fv.eraseDups, ρ.lookup s.name = some s)
    (a : Sexp) (u : Term) (hrd : rd (scriptEnv logic t) [] a = .ok (u, .bool))
    (hfrag : FragS (scriptEnv logic t) ρ a = true) (hrot : RotOK (scriptEnv logic t) [] a = true) :
    script PEnv.init ([Sexp.list [.atom "set-logic", atomOfText logic]] ++ (sortDecls t).map declareSort
        ++ t.fv.eraseDups.map declareFun ++ [.list [.atom "assert", a], .list [.atom "check-sat"]])
      = .ok ([Command.setLogic ((logicEntry logic).map (·.1))]
          ++ (sortDecls t).map (fun d => Command.declareSort d.1 d.2)
          ++ t.fv.eraseDups.map (Command.declare "declare-fun")
          ++ [Command.assert (mkNorm u), Command.plain "check-sat" []]) := by
  obtain ⟨e1, e2, hcorr⟩ := envAfter_decls logic t hs hl henv
  have hm : MgrLe (pSt ((logicEntry logic).map (·.2)) (sortDecls t).reverse t.fv.eraseDups.reverse).mgr ρ :=
    mgrLe_pSt ρ _ _ _ (fun s hs' => hρ s (by simpa using hs'))
  obtain ⟨σ', hv, _, htok⟩ := agree (scriptEnv logic t) ρ a hfrag [] _ true hcorr hm hrot u .bool hrd
  have hassert : cmd (pSt ((logicEntry logic).map (·.2)) (sortDecls t).reverse t.fv.eraseDups.reverse)
      (.list [.atom "assert", a]) = .ok ({ pSt ((logicEntry logic).map (·.2)) (sortDecls t).reverse
        t.fv.eraseDups.reverse with mgr := σ' }, .assert (mkNorm u)) := by
    rw [cmd_assert_eq]
    simp only [cmdAssert, readTermSt, hv, htok.ty, beq_self_eq_true, if_true]
  obtain ⟨c1, _⟩ := script_append _ [.list [.atom "assert", a], .list [.atom "check-sat"]] _ _ _ e1 e2
  rw [c1, script_cons_ok hassert, script_cons_ok (cmd_checkSat _)]
  simp [script, Except.map]

/-- **Print → parse round trip for the script of a formula, DAG form** (`serialize(daggify=True)`, pySMT's default), for
a quantifier-free formula without `rotate_left`/`rotate_right`; `defFree`: no declared sort is named like one of the
printer's `.def_k`. The assertion is read as the formula with array values as store chains in argument order. -/
theorem script_print_parse_dag_exact (logic : String) (ρ : List (String × Sym)) (t : Term)
    (hs : ScriptOK logic t = true) (hl : logicOK logic = true) (henv : envOK (scriptEnv logic t) = true)
    (hρ : ∀ s ∈ t.fv.eraseDups, ρ.lookup s.name = some s) (hdf : defFree (scriptEnv logic t))
    (hq : noQuant t = true) (hnr : noRot t = true)
    (hQ : parseOK (scriptEnv logic t) ρ t = true) (hN : mgrNormal t = true) :
    script PEnv.init (scriptOfFormula logic true t)
      = .ok ([Command.setLogic ((logicEntry logic).map (·.1))]
          ++ (sortDecls t).map (fun d => Command.declareSort d.1 d.2)
          ++ t.fv.eraseDups.map (Command.declare "declare-fun")
          ++ [Command.assert (unfoldAVw false t), Command.plain "check-sat" []]) := by
  obtain ⟨hbool, hP⟩ := scriptOK_parts hs
  have hrd := Printer.readStd_toSexpDag (scriptEnv logic t) t (dagOK_of_printable' _ t hP hq)
  have hτ : tyD t = .bool := by simp [tyD, hbool]
  rw [hτ] at hrd
  simp only [readStdTy, List.reverse_nil, List.map_nil] at hrd
  have h := script_print_parse_text logic ρ t hs hl henv hρ (toSexpDag t) (unfoldAVw false t) hrd
    (fragS_toSexpDag _ ρ hdf t hP hq hQ) (rotOK_toSexpDag _ t hP hq hnr)
  rw [mkNorm_of_normal _ (mgrNormal_unfold _ false t [] hP hN)] at h
  simp only [scriptOfFormula, if_true]
  exact h

end PySMT.Parser.Agree
