import PySMT.Proofs.C02Exact
import PySMT.Proofs.C05Sem
/-!
# C02 with the code's own substitution step (`MGSubstituter`, the model of C05)

`EagerModel.get_value` computes `simplify(substituter.substitute(f, assignment))`, where the
substituter rebuilds every node through the `FormulaManager` constructors. `Model.substAsg` is that
step (`Subst.substMG`, Impl/Subst.lean). This file proves for it what `Proofs/C02Model.lean` proves for
the in-place replacement `substConst`:

* `substAsg_spec` : type, well-formedness and fragment are preserved, and under every well-formed
  interpretation that extends the assignment value and division-by-zero proviso are preserved
  (value: the substitution lemma of C05, `Subst.subst_sem`; the rest by the case analysis
  `Build.Shape` of what a constructor can return);
* `ground_substAsg` : a total assignment of constants makes an evaluable term ground;
* `exact_core'` : `simp (substAsg σ f) = constOf (eval (interpOf σ) f)`.

Hypotheses beyond those of `substConst_spec`: `Build.normal f` and `Subst.ConstKeys f` — the normal form
of the constructors (what every formula built by a `FormulaManager` satisfies and what rebuilding
relies on), and an assignment that is well-formed binding by binding (`AsgWF`: a Python `dict` has
one binding per key, so this is `AsgOK`).
-/
namespace PySMT.Model
open PySMT PySMT.Simp PySMT.Simplifier PySMT.Subst PySMT.Build PySMT.SubstSpec

/-- every binding maps a (non-function) symbol to a well-formed scalar constant of its sort -/
def AsgWF (σ : Asg) : Prop :=
  ∀ kv ∈ σ, kv.1.params = [] ∧ kv.2.wf = true ∧ kv.2.typeOf = some kv.1.ret ∧ kv.2.op.isConstant = true

theorem get_eq : ∀ (σ : Asg) (s : Sym), Asg.get σ s = SMap.get σ s
  | [], _ => rfl
  | (k, v) :: rest, s => by
    simp only [Asg.get, SMap.get]
    split
    · rfl
    · exact get_eq rest s

theorem toTMap_eq (σ : Asg) : Asg.toTMap σ = SMap.toTMap σ := rfl

theorem AsgWF.ok {σ : Asg} (h : AsgWF σ) : AsgOK σ := by
  intro s c hg
  rw [get_eq] at hg
  have := h _ (Subst.get_mem hg)
  exact ⟨this.2.1, this.2.2.1, this.2.2.2⟩

theorem AsgWF.smapOK {σ : Asg} (h : AsgWF σ) : SMapOK σ :=
  fun kv hkv => ⟨(h kv hkv).1, (h kv hkv).2.1, (h kv hkv).2.2.1⟩

theorem AsgWF.append {σ : Asg} (h : AsgWF σ) {s : Sym} {d : Term} (hs : s.params = [])
    (hd : d.wf = true ∧ d.typeOf = some s.ret ∧ d.op.isConstant = true) : AsgWF (σ ++ [(s, d)]) := by
  intro kv hkv
  rcases List.mem_append.mp hkv with hkv | hkv
  · exact h kv hkv
  · simp only [List.mem_singleton] at hkv
    subst hkv
    exact ⟨hs, hd⟩

/-- completion keeps the assignment well-formed -/
theorem complete_wf : ∀ (syms : List Sym) (σ σ' : Asg), AsgWF σ → complete σ syms = some σ' → AsgWF σ'
  | [], σ, σ', h, hc => by
    simp only [complete, Option.some.injEq] at hc
    subst hc; exact h
  | s :: rest, σ, σ', h, hc => by
    rw [complete] at hc
    cases hg : σ.get s with
    | some c => rw [hg] at hc; exact complete_wf rest σ σ' h hc
    | none =>
      rw [hg] at hc
      simp only at hc
      split at hc
      · next hp =>
        cases hd : defaultOf s.ret with
        | none => rw [hd] at hc; cases hc
        | some d =>
          rw [hd] at hc
          exact complete_wf rest _ σ' (h.append (by simpa using hp) (defaultOf_ok hd)) hc
      · cases hc

/-! ## the substitution step, node by node -/

/-- `substAsg` is the most-general walk without interpretations -/
theorem substAsg_eq (σ : Asg) (t : Term) : substAsg σ t = substG false noInterp (SMap.toTMap σ) t := rfl

theorem build_noInterp (op : Op) (p : Payload) (as : List Term) : build noInterp op p as = rebuild op p as := by
  unfold build
  split
  · rfl
  · rfl

/-- a node that is not a key is rebuilt from the substituted children -/
theorem substAsg_node (σ : Asg) (op : Op) (args : List Term) (p : Payload) (hq : op.isQuantifier = false) :
    substAsg σ (.node op args p) =
      match lookup (SMap.toTMap σ) (.node op args p) with
      | some v => v
      | none => rebuild op p (args.map (substAsg σ)) := by
  rw [substAsg_eq, substG]
  simp only [Bool.false_eq_true, if_false, bodyMap_nq _ p hq, build_noInterp]
  rfl

theorem substAsg_symbol (σ : Asg) (s : Sym) :
    substAsg σ (.node .symbol [] (.sym s)) = (σ.get s).getD (.node .symbol [] (.sym s)) := by
  rw [substAsg_node σ .symbol [] (.sym s) rfl]
  have : lookup (SMap.toTMap σ) (.node .symbol [] (.sym s)) = SMap.get σ s := lookup_toTMap_sym σ s
  rw [this, get_eq]
  cases SMap.get σ s <;> rfl

theorem substAsg_other (σ : Asg) (op : Op) (args : List Term) (p : Payload) (hq : op.isQuantifier = false)
    (hs : op ≠ .symbol) : substAsg σ (.node op args p) = rebuild op p (args.map (substAsg σ)) := by
  rw [substAsg_node σ op args p hq, lookup_toTMap_ne σ _ (not_sym_of_op hs)]

/-- a well-formed symbol node has the payload `.sym s` and no argument -/
theorem wf_symbol_inv {args : List Term} {p : Payload} (hwf : (Term.node .symbol args p).wf = true) :
    ∃ s, p = .sym s ∧ args = [] := by
  have hp : ∃ s, p = .sym s := by
    have := wf_tyNode hwf
    cases p <;> first | exact ⟨_, rfl⟩ | (exfalso; revert this; rw [typeOfNode_symbol_eq]; simp)
  obtain ⟨s, rfl⟩ := hp
  refine ⟨s, rfl, ?_⟩
  have hs := wf_shape hwf
  cases args with
  | nil => rfl
  | cons a r => cases hs

theorem noCapture_qf (σ : SMap) : (t : Term) → qf t = true → NoCapture σ t = true
  | .node op args p => fun h => by
    obtain ⟨hq, ha⟩ := qf_node h
    rw [NoCapture_nq σ args p hq]
    simp only [List.all_eq_true, List.mem_map, id]
    rintro _ ⟨a, ha', rfl⟩
    exact noCapture_qf σ a (ha a ha')

theorem normal_qf_child {op args p} (h : normal (.node op args p) = true) : ∀ a ∈ args, normal a = true :=
  normal_child h

/-- under an interpretation that extends the assignment, updating with the assigned values changes nothing -/
theorem updSyms_extends (I : Interp) (σ : Asg) (h : Extends I σ) : updSyms I σ = I := by
  have : (updSyms I σ).sym = I.sym := by
    funext x
    simp only [updSyms]
    cases hg : SMap.get σ x with
    | none => rfl
    | some v => exact h x v (by rw [get_eq]; exact hg)
  cases I
  simp only [updSyms] at this ⊢
  rw [this]

/-- **value**: the substitution lemma of C05, for an interpretation that extends the assignment -/
theorem substAsg_eval_gen (σ : Asg) (hok : SMapOK σ) (t : Term) (hwf : t.wf = true) (hqf : qf t = true)
    (hn : normal t = true) (hck : ConstKeys t = true) (I : Interp) (hI : I.WF) (hext : Extends I σ) :
    eval I (substAsg σ t) = eval I t := by
  rw [substAsg_eq, subst_sem false t σ I hI hwf hn hck hok (noCapture_qf σ t hqf) (fun e => by cases e),
    updSyms_extends I σ hext]

theorem substAsg_eval (σ : Asg) (hσ : AsgWF σ) (t : Term) (hwf : t.wf = true) (hqf : qf t = true)
    (hn : normal t = true) (hck : ConstKeys t = true) (I : Interp) (hI : I.WF) (hext : Extends I σ) :
    eval I (substAsg σ t) = eval I t :=
  substAsg_eval_gen σ hσ.smapOK t hwf hqf hn hck I hI hext

/-! ## what a constructor returns keeps the fragment, the proviso and groundness -/

/-- a property of terms that holds for the raw node over the new children, is inherited by the
operand of a negation, holds for real constants, for products with a real constant and for the
rebuilt array value holds for whatever the constructor returns -/
theorem shape_ind (P : Term → Prop) {op : Op} {p : Payload} {as' : List Term} {r : Term} (hs : Shape op p as' r)
    (hnode : P (.node op as' p))
    (hnot : ∀ b pl, as' = [.node .not [b] pl] → P b)
    (hreal : ∀ v : Int, P (Term.real v))
    (hdiv : ∀ a' c, as' = [a', .node .realConst [] (.q c)] → P (.node .times [a', Term.real (1 / c)] .none))
    (harr : op = .arrayValue → P (mkArray p as')) : P r := by
  cases hs with
  | node => exact hnode
  | notNot b pl ho ha => exact hnot r pl ha
  | toRealConst v ho ha => exact hreal v
  | divConst a' c ho hc ha => exact hdiv a' c ha
  | array ho => exact harr ho

theorem inFrag_real (q : Rat) : inFrag (Term.real q) = true :=
  frag_node (e := keep .realConst) rfl rfl (by simp)

/-- the members of a rebuilt array value are members of the new children -/
theorem mem_mkArray {d : Term} {rest : List Term} {x : Term}
    (hx : x ∈ d :: unpairs ((pyDict (pairsOf rest)).filter (fun kv => kv.2 ≠ d)))
    (P : Term → Prop) (hP : ∀ a ∈ d :: rest, P a) : P x := by
  rcases List.mem_cons.mp hx with rfl | hx
  · exact hP _ (by simp)
  · obtain ⟨kv, hkv, hx⟩ := mem_unpairs hx
    have := pyDict_all P P
      (fun q hq => ⟨hP _ (List.mem_cons_of_mem _ (mem_pairsOf hq).1), hP _ (List.mem_cons_of_mem _ (mem_pairsOf hq).2)⟩)
      kv (List.mem_filter.mp hkv).1
    rcases hx with rfl | rfl
    · exact this.1
    · exact this.2

/-- the main lemma about the substitution step, for any symbol-keyed well-formed type-correct assignment
whose values are in the fragment and contain no division (`hv`) -/
theorem substAsg_spec_gen (σ : Asg) (hok : SMapOK σ)
    (hv : ∀ s c, σ.get s = some c → inFrag c = true ∧ ∀ I : Interp, div0 I c = false) :
    (t : Term) → t.wf = true → qf t = true → inFrag t = true →
    normal t = true → ConstKeys t = true → ∀ τ, t.typeOf = some τ →
      ((substAsg σ t).wf = true ∧ (substAsg σ t).typeOf = some τ ∧ inFrag (substAsg σ t) = true) ∧
      ∀ I : Interp, I.WF → Extends I σ → div0 I t = false →
        eval I (substAsg σ t) = eval I t ∧ div0 I (substAsg σ t) = false
  | .node op args p => fun hwf hqf hfr hn hck τ hty => by
    have hwt := Term.wf_wt _ hwf
    have hwfS : (substAsg σ (.node op args p)).wf = true :=
      substG_wf false noInterp_typed noInterp_wf _ _ hok.wfMap hwf hn
    have htyS : (substAsg σ (.node op args p)).typeOf = some τ := by
      rw [substAsg_eq, (substG_type false noInterp_typed _ _ hok.wfMap.tyMap hwt hn).2]; exact hty
    have hev : ∀ I : Interp, I.WF → Extends I σ → eval I (substAsg σ (.node op args p)) = eval I (.node op args p) :=
      fun I hI hext => substAsg_eval_gen σ hok _ hwf hqf hn hck I hI hext
    obtain ⟨hq, hqa⟩ := qf_node hqf
    obtain ⟨⟨e, he, hg⟩, hfa⟩ := inFragWith_node hfr
    by_cases hsym : op = .symbol
    · subst hsym
      obtain ⟨s, rfl, rfl⟩ := wf_symbol_inv hwf
      rw [substAsg_symbol] at hwfS htyS hev ⊢
      cases hget : σ.get s with
      | none => exact ⟨⟨hwf, hty, hfr⟩, fun I _ _ hd => ⟨rfl, hd⟩⟩
      | some c =>
        rw [hget] at hwfS htyS hev
        simp only [Option.getD_some] at hwfS htyS hev ⊢
        obtain ⟨cfr, cd⟩ := hv s c hget
        exact ⟨⟨hwfS, htyS, cfr⟩, fun I hI hext _ => ⟨hev I hI hext, cd I⟩⟩
    · rw [substAsg_other σ op args p hq hsym] at hwfS htyS hev ⊢
      -- the children
      have ih : ∀ a ∈ args, ((substAsg σ a).wf = true ∧ (substAsg σ a).typeOf = a.typeOf ∧
          inFrag (substAsg σ a) = true) ∧
          ∀ I : Interp, I.WF → Extends I σ → div0 I a = false →
            eval I (substAsg σ a) = eval I a ∧ div0 I (substAsg σ a) = false := by
        intro a ha
        obtain ⟨σa, hσa⟩ := wf_typeOf a (wf_args hwf a ha)
        have := substAsg_spec_gen σ hok hv a (wf_args hwf a ha) (hqa a ha) (hfa a ha) (normal_child hn a ha)
          (ConstKeys_child hck a ha) σa hσa
        rw [hσa]; exact this
      have htys : (args.map (substAsg σ)).map Term.typeOf = args.map Term.typeOf := by
        rw [List.map_map]
        exact List.map_congr_left (fun a ha => (ih a ha).1.2.1)
      have hst : SameTypes args (args.map (substAsg σ)) := by
        refine ⟨?_, htys⟩
        intro a' ha'
        obtain ⟨a, ha, rfl⟩ := List.mem_map.mp ha'
        exact Term.wf_wt _ (ih a ha).1.1
      have hshape := rebuild_shape hwt (normal_here hn) hst
      have hfrS : ∀ a' ∈ args.map (substAsg σ), inFrag a' = true := by
        intro a' ha'
        obtain ⟨a, ha, rfl⟩ := List.mem_map.mp ha'
        exact (ih a ha).1.2.2
      refine ⟨⟨hwfS, htyS, ?_⟩, fun I hI hext hd => ⟨hev I hI hext, ?_⟩⟩
      · -- fragment
        refine shape_ind (fun r => inFrag r = true) hshape ?_ ?_ (fun v => inFrag_real _) ?_ ?_
        · exact frag_node he (by rw [htys]; exact hg) hfrS
        · intro b pl hb
          have := hfrS (.node .not [b] pl) (by rw [hb]; simp)
          exact (inFragWith_node this).2 b (by simp)
        · intro a' c ha'
          refine frag_node (e := ArithRules.walkTimes) rfl rfl ?_
          intro x hx
          simp only [List.mem_cons, List.not_mem_nil, or_false] at hx
          rcases hx with rfl | rfl
          · exact hfrS _ (by rw [ha']; simp)
          · exact inFrag_real _
        · intro ho
          subst ho
          match hargs : args.map (substAsg σ), hfrS with
          | [], _ => exact frag_node he (by rw [← hargs, htys]; exact hg) (by simp)
          | d' :: rest', hfrS' =>
            rw [mkArray_cons]
            refine frag_node he ?_ (fun x hx => mem_mkArray hx (fun y => inFrag y = true) hfrS')
            -- the guard of `arrayValue` looks at the payload only
            simp only [ruleOf, Option.some.injEq] at he
            subst he
            have hg' := hg
            cases p <;> first | rfl | exact hg'
      · -- proviso
        have hargs0 := div0_args_false I op args p hq hd
        have hdS : ∀ a' ∈ args.map (substAsg σ), div0 I a' = false := by
          intro a' ha'
          obtain ⟨a, ha, rfl⟩ := List.mem_map.mp ha'
          exact ((ih a ha).2 I hI hext (hargs0 a ha)).2
        have hnode := (node_congr_plain op args p (substAsg σ) hwf hq I hd
          (fun a ha hda => (ih a ha).2 I hI hext hda)).2
        refine shape_ind (fun r => div0 I r = false) hshape hnode ?_ (fun v => div0_real I _) ?_ ?_
        · intro b pl hb
          have := hdS (.node .not [b] pl) (by rw [hb]; simp)
          exact div0_args_false I .not [b] pl rfl this b (by simp)
        · intro a' c ha'
          rw [div0_plain I .times _ _ rfl (by simp)]
          simp only [List.any_cons, List.any_nil, Bool.or_false, div0_real]
          exact hdS a' (by rw [ha']; simp)
        · intro ho
          subst ho
          match hargs : args.map (substAsg σ), hdS with
          | [], _ =>
            show div0 I (.node .arrayValue [] p) = false
            rw [div0_plain I .arrayValue _ _ rfl (by simp)]; rfl
          | d' :: rest', hdS' =>
            rw [mkArray_cons, div0_plain I .arrayValue _ _ rfl (by simp), List.any_eq_false]
            intro x hx
            have := mem_mkArray hx (fun y => div0 I y = false) hdS'
            simp [this]

/-- the main lemma about the substitution step, for assignments of scalar constants -/
theorem substAsg_spec (σ : Asg) (hσ : AsgWF σ) (t : Term) (hwf : t.wf = true) (hqf : qf t = true)
    (hfr : inFrag t = true) (hn : normal t = true) (hck : ConstKeys t = true) (τ : Ty) (hty : t.typeOf = some τ) :
      ((substAsg σ t).wf = true ∧ (substAsg σ t).typeOf = some τ ∧ inFrag (substAsg σ t) = true) ∧
      ∀ I : Interp, I.WF → Extends I σ → div0 I t = false →
        eval I (substAsg σ t) = eval I t ∧ div0 I (substAsg σ t) = false :=
  substAsg_spec_gen σ hσ.smapOK (fun s c hg => by
    obtain ⟨cw, _, cc⟩ := hσ.ok s c hg
    obtain ⟨cfr, _, cd⟩ := const_facts c cw cc
    exact ⟨cfr, cd⟩) t hwf hqf hfr hn hck τ hty

/-- substituting a total assignment of constants into an evaluable term gives a ground term -/
theorem ground_substAsg (σ : Asg) (hσ : AsgWF σ) : (t : Term) → t.wf = true → evaluable t = true →
    normal t = true → (∀ s ∈ t.fv, (σ.get s).isSome = true) → ground (substAsg σ t) = true
  | .node op args p => fun hwf hev hn htot => by
    have hwt := Term.wf_wt _ hwf
    obtain ⟨⟨hf, hav, hq⟩, hea⟩ := evaluable_node hev
    by_cases hsym : op = .symbol
    · subst hsym
      obtain ⟨s, rfl, rfl⟩ := wf_symbol_inv hwf
      rw [substAsg_symbol]
      have hs : s ∈ (Term.node .symbol [] (.sym s)).fv := by rw [fv_symbol]; simp
      cases hg : σ.get s with
      | none => have := htot s hs; rw [hg] at this; cases this
      | some c =>
        simp only [Option.getD_some]
        obtain ⟨cw, _, cc⟩ := hσ.ok s c hg
        cases c with
        | node o as q =>
          simp only [Term.op] at cc
          have hs' := wf_shape cw
          have has : as = [] := by
            cases o <;> simp [Op.isConstant] at cc <;> cases q <;>
              first
              | cases hs'
              | (cases as with
                 | nil => rfl
                 | cons a r => cases hs')
          subst has
          rw [ground]
          cases o <;> simp [Op.isConstant] at cc <;> rfl
    · rw [substAsg_other σ op args p hq hsym]
      have ihg : ∀ a' ∈ args.map (substAsg σ), ground a' = true := by
        intro a' ha'
        obtain ⟨a, ha, rfl⟩ := List.mem_map.mp ha'
        refine ground_substAsg σ hσ a (wf_args hwf a ha) (hea a ha) (normal_child hn a ha) (fun s hs => htot s ?_)
        exact mem_fv_child op args p a ha s hs hsym (fun vs _ hq' => by rw [hq] at hq'; cases hq')
      have hst : SameTypes args (args.map (substAsg σ)) := by
        constructor
        · intro a' ha'
          obtain ⟨a, ha, rfl⟩ := List.mem_map.mp ha'
          exact Term.wf_wt _ (substG_wf false noInterp_typed noInterp_wf a _ hσ.smapOK.wfMap (wf_args hwf a ha)
            (normal_child hn a ha))
        · rw [List.map_map]
          exact List.map_congr_left (fun a ha =>
            (substG_type false noInterp_typed a _ hσ.smapOK.wfMap.tyMap (Term.wt_child hwt a ha) (normal_child hn a ha)).2)
      have hshape := rebuild_shape hwt (normal_here hn) hst
      have gnode : ∀ (o : Op) (as : List Term) (q : Payload), o ≠ .symbol → o ≠ .function → o ≠ .arrayValue →
          o.isQuantifier = false → (∀ a ∈ as, ground a = true) → ground (.node o as q) = true := by
        intro o as q h1 h2 h3 h4 h5
        rw [ground]
        have e1 : (o != Op.symbol) = true := by simpa using h1
        have e2 : (o != Op.function) = true := by simpa using h2
        have e3 : (o != Op.arrayValue) = true := by simpa using h3
        simp only [e1, e2, e3, h4, Bool.not_false, Bool.and_self, Bool.true_and, List.all_eq_true, List.mem_map, id]
        rintro _ ⟨a, ha, rfl⟩
        exact h5 a ha
      have greal : ∀ q : Rat, ground (Term.real q) = true := fun q => by rw [Term.real, ground]; rfl
      refine shape_ind (fun r => ground r = true) hshape (gnode op _ p hsym hf hav hq ihg) ?_ (fun v => greal _) ?_
        (fun ho => absurd ho hav)
      · intro b pl hb
        have := ihg (.node .not [b] pl) (by rw [hb]; simp)
        exact (ground_node this).2 b (by simp)
      · intro a' c ha'
        refine gnode .times _ _ (by simp) (by simp) (by simp) rfl ?_
        intro x hx
        simp only [List.mem_cons, List.not_mem_nil, or_false] at hx
        rcases hx with rfl | rfl
        · exact ihg _ (by rw [ha']; simp)
        · exact greal _

/-- an evaluable term has no array value: `ConstKeys` holds -/
theorem constKeys_evaluable : (t : Term) → evaluable t = true → ConstKeys t = true
  | .node op args p => fun h => by
    obtain ⟨⟨_, hav, _⟩, ha⟩ := evaluable_node h
    rw [ConstKeys_node]
    have e : (op != Op.arrayValue) = true := by simpa using hav
    simp only [e, Bool.true_or, Bool.and_true, List.all_eq_true, List.mem_map, id]
    rintro _ ⟨a, ha', rfl⟩
    exact constKeys_evaluable a (ha a ha')

/-- the core of exactness, with the code's substitution step -/
theorem exact_core' (σ : Asg) (hσ : AsgWF σ) (f : Term) (τ : Ty) (hwf : f.wf = true) (hev : evaluable f = true)
    (hfr : inFrag f = true) (hn : normal f = true) (hty : f.typeOf = some τ)
    (htot : ∀ s ∈ f.fv, (σ.get s).isSome = true) (hd : div0 (interpOf σ) f = false) :
    simp (substAsg σ f) = constOf (eval (interpOf σ) f) ∧ (simp (substAsg σ f)).op.isConstant = true ∧
      Build.isConstant (simp (substAsg σ f)) = true := by
  have hI := interpOf_wf σ hσ.ok
  obtain ⟨⟨gw, gty, gfr⟩, gs⟩ := substAsg_spec σ hσ f hwf (evaluable_qf f hev) hfr hn (constKeys_evaluable f hev) τ hty
  obtain ⟨ge, gd⟩ := gs (interpOf σ) hI (interpOf_extends σ hσ.ok) hd
  have hg := ground_substAsg σ hσ f hwf hev hn htot
  have hc : (simp (substAsg σ f)).op.isConstant = true := fold_complete _ τ gw gfr gty hg _ hI gd
  obtain ⟨⟨_, sw⟩, ss, _⟩ := simp_spec _ gw gfr τ gty
  have e1 := (ss _ hI gd).1
  refine ⟨?_, hc, ?_⟩
  · rw [← ge, ← e1]
    exact const_constOf _ sw hc _
  · cases hsimp : simp (substAsg σ f) with
    | node o as q =>
      rw [hsimp] at hc
      simp only [Term.op] at hc
      rw [BoolRules.isConstant_nonarray (by intro h; subst h; cases hc)]
      exact hc

/-- `get_value'` without completion is sound (the analogue of `getValue_sound_aux`) -/
theorem getValue'_sound_aux (σ : Asg) (hσ : AsgWF σ) (f : Term) (τ : Ty) (hwf : f.wf = true) (hqf : qf f = true)
    (hfr : inFrag f = true) (hn : normal f = true) (hck : ConstKeys f = true) (hty : f.typeOf = some τ) (c : Term)
    (h : (let r := simp (substAsg σ f); if Build.isConstant r then some r else none) = some c) :
    Build.isConstant c = true ∧ c.typeOf = some τ ∧
      ∀ I : Interp, I.WF → Extends I σ → div0 I f = false → eval I f = eval I c := by
  simp only at h
  split at h
  · next hc =>
    cases h
    obtain ⟨⟨sw, sty, sfr⟩, hs⟩ := substAsg_spec σ hσ f hwf hqf hfr hn hck τ hty
    have hsp := simp_spec _ sw sfr τ sty
    refine ⟨hc, hsp.1.1, fun I hI hext hd => ?_⟩
    obtain ⟨e1, d1⟩ := hs I hI hext hd
    rw [(hsp.2.1 I hI d1).1, e1]
  · cases h

end PySMT.Model

namespace PySMT.Model
open PySMT PySMT.Simp PySMT.Simplifier PySMT.Subst PySMT.Build PySMT.SubstSpec

/-- exactness of `getValue'` (any completion mode) from `exact_core'` -/
theorem getValue'_exact (completion : Bool) (σ : Asg) (hσ : AsgWF σ) (f : Term) (τ : Ty)
    (hwf : f.wf = true) (hev : evaluable f = true) (hfr : inFrag f = true) (hn : normal f = true)
    (hty : f.typeOf = some τ) (htot : ∀ s ∈ f.fv, (σ.get s).isSome = true) (hd : div0 (interpOf σ) f = false) :
    getValue' completion σ f = some (constOf (eval (interpOf σ) f)) := by
  obtain ⟨e, _, hc⟩ := exact_core' σ hσ f τ hwf hev hfr hn hty htot hd
  have hcomp : (if completion then complete σ f.fv else some σ) = some σ := by
    cases completion
    · rfl
    · simp only [if_true]; exact complete_of_total f.fv σ htot
  rw [e] at hc
  simp only [getValue', hcomp, e, hc, if_true]

/-- exactness of `getValue'` with completion of a partial assignment -/
theorem completion'_exact (σ : Asg) (hσ : AsgWF σ) (f : Term) (τ : Ty)
    (hwf : f.wf = true) (hev : evaluable f = true) (hfr : inFrag f = true) (hn : normal f = true)
    (hty : f.typeOf = some τ)
    (hmiss : ∀ s ∈ f.fv, σ.get s = none → s.params = [] ∧ (defaultOf s.ret).isSome = true)
    (hd : div0 (interpOf σ) f = false) :
    ∃ σ', complete σ f.fv = some σ' ∧ simp (substAsg σ' f) = constOf (eval (interpOf σ) f) ∧
      Build.isConstant (simp (substAsg σ' f)) = true := by
  obtain ⟨σ', h1, h2, h3, h4, h5⟩ := complete_spec f.fv σ hmiss
  have hσ' := complete_wf f.fv σ σ' hσ h1
  have hI : interpOf σ' = interpOf σ := interpOf_complete σ σ' f.fv h2 h3 h5
  obtain ⟨e, _, hc⟩ := exact_core' σ' hσ' f τ hwf hev hfr hn hty h4 (by rw [hI]; exact hd)
  rw [hI] at e
  exact ⟨σ', h1, e, hc⟩

/-- the same for the in-place model -/
theorem completion_exact (σ : Asg) (hσ : AsgOK σ) (f : Term) (τ : Ty)
    (hwf : f.wf = true) (hev : evaluable f = true) (hfr : inFrag f = true) (hty : f.typeOf = some τ)
    (hmiss : ∀ s ∈ f.fv, σ.get s = none → s.params = [] ∧ (defaultOf s.ret).isSome = true)
    (hd : div0 (interpOf σ) f = false) :
    ∃ σ', complete σ f.fv = some σ' ∧ simp (substConst σ' f) = constOf (eval (interpOf σ) f) ∧
      Build.isConstant (simp (substConst σ' f)) = true := by
  obtain ⟨σ', h1, h2, h3, h4, h5⟩ := complete_spec f.fv σ hmiss
  obtain ⟨hσ', _⟩ := complete_ok f.fv σ σ' hσ h1
  have hI : interpOf σ' = interpOf σ := interpOf_complete σ σ' f.fv h2 h3 h5
  obtain ⟨e, _, hc⟩ := exact_core σ' hσ' f τ hwf hev hfr hty h4 (by rw [hI]; exact hd)
  rw [hI] at e
  exact ⟨σ', h1, e, hc⟩

end PySMT.Model
