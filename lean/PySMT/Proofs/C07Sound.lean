import PySMT.Proofs.C07ReadMain
import PySMT.Proofs.SimpArrayVal
/-!
# C07: `read_toSexp`, `print_sound`
-/
namespace PySMT.Printer
open PySMT.Std PySMT.Sexp

theorem unfoldAV_eq : ∀ (t : Term), unfoldAV t = unfoldAVw true t
  | .node op args p => by
    have hmap : args.map unfoldAV = args.map (unfoldAVw true) :=
      List.map_congr_left (fun a _ => unfoldAV_eq a)
    unfold unfoldAV unfoldAVw
    simp only [hmap, if_true]
termination_by t => sizeOf t
decreasing_by
  simp_wf
  rename_i h
  have := List.sizeOf_lt_of_mem h
  omega

/-- **The standard's reading of the tree printer's output is the formula itself** (an array value being read as the
chain of stores it is printed as): for every term that satisfies the hypotheses `Printable` (well-typed with canonical
payloads, names speakable and unambiguous, plain declared sorts, none of the known findings F10/F11/F44/F46) in an
environment `env` that declares its free symbols. -/
theorem read_toSexp (env : SEnv) (t : Term) (h : Printable env [] t = true) :
    readStd env [] (toSexp t) = .ok (unfoldAV t) := by
  have hr := reads_all treeSpell treeSpell_std env t [] (fun _ hs => by simp at hs) h
  simp only [readStd, readStdTy, List.reverse_nil, List.map_nil, toSexp]
  have := hr.2
  simp only [List.map_nil] at this
  rw [this, unfoldAV_eq]
  rfl

/-- … and it has the formula's sort -/
theorem read_toSexp_sort (env : SEnv) (t : Term) (h : Printable env [] t = true) :
    ∃ τ, t.typeOf = some τ ∧ readStdTy env [] (toSexp t) = .ok (unfoldAV t, τ) := by
  have hr := reads_all treeSpell treeSpell_std env t [] (fun _ hs => by simp at hs) h
  refine ⟨tyD t, hr.1, ?_⟩
  simp only [readStdTy, List.reverse_nil, List.map_nil, toSexp]
  have := hr.2
  simp only [List.map_nil] at this
  rw [this, unfoldAV_eq]
  rfl

/-! ## the unfolded term has the same value -/

theorem arrayValue_pairs (idx : Ty) (d : Val) : ∀ (l : List Val),
    Sem.arrayValue idx d l = (pairsOf l).foldr (fun kv acc => acc.store kv.1 kv.2) (.aconst idx d)
  | [] => rfl
  | [_] => rfl
  | k :: v :: rest => by simp [Sem.arrayValue, pairsOf, arrayValue_pairs idx d rest]

theorem foldr_congr_mem {α β} (f g : α → β → β) (b : β) : ∀ (l : List α), (∀ x ∈ l, ∀ acc, f x acc = g x acc) →
    List.foldr f b l = List.foldr g b l
  | [], _ => rfl
  | x :: l, h => by
    simp only [List.foldr_cons]
    rw [foldr_congr_mem f g b l (fun y hy => h y (List.mem_cons_of_mem _ hy)), h x (by simp)]

theorem eval_store (I : Interp) (a k v : Term) :
    eval I (Term.node .arrayStore [a, k, v] .none) = (eval I a).store (eval I k) (eval I v) := by
  simp only [eval_node, evalNode, List.map_cons, List.map_nil, evalOp]

theorem eval_constArr (I : Interp) (idx : Ty) (d : Term) :
    eval I (Term.node .arrayValue [d] (.ty idx)) = .aconst idx (eval I d) := by
  simp only [eval_node, evalNode, List.map_cons, List.map_nil, evalOp, Sem.arrayValue]

theorem eval_arrayValue (I : Interp) (idx : Ty) (d : Term) (rest : List Term) :
    eval I (Term.node .arrayValue (d :: rest) (.ty idx)) =
      (pairsOf rest).foldr (fun kv acc => acc.store (eval I kv.1) (eval I kv.2)) (.aconst idx (eval I d)) := by
  simp only [eval_node, evalNode, List.map_cons, evalOp]
  rw [List.map_map, arrayValue_pairs, pairsOf_map, List.foldr_map]
  rfl

theorem eval_storeChain (I : Interp) : ∀ (l : List (Term × Term)) (acc : Term),
    eval I (l.foldl (fun acc kv => Term.node .arrayStore [acc, kv.1, kv.2] .none) acc)
      = l.foldl (fun a kv => a.store (eval I kv.1) (eval I kv.2)) (eval I acc)
  | [], _ => rfl
  | kv :: l, acc => by
    simp only [List.foldl_cons]
    rw [eval_storeChain I l, eval_store]

/-! ### any order of the assignments denotes the same array (keys: distinct values of a non-array sort) -/

theorem insertBy_perm {α} (key : α → String) (x : α) : ∀ (acc : List α), (insertBy key x acc).Perm (x :: acc)
  | [] => List.Perm.refl _
  | y :: ys => by
    simp only [insertBy]
    split
    · exact List.Perm.refl _
    · exact ((insertBy_perm key x ys).cons y).trans (List.Perm.swap x y ys)

theorem sortBy_perm {α} (key : α → String) (l : List α) : (sortBy key l).Perm l := by
  unfold sortBy
  have : ∀ (r acc : List α), (List.foldl (fun acc x => insertBy key x acc) acc r).Perm (r ++ acc) := by
    intro r
    induction r with
    | nil => intro acc; exact List.Perm.refl _
    | cons x r ih =>
      intro acc
      simp only [List.foldl_cons]
      refine (ih _).trans ?_
      refine (List.Perm.append_left r (insertBy_perm key x acc)).trans ?_
      simpa using (List.perm_middle (a := x) (l₁ := r) (l₂ := acc))
  have h := this l.reverse []
  simp only [List.append_nil] at h
  exact h.trans (List.reverse_perm l)

/-- the value of a chain of stores, innermost last -/
def storesR (idx : Ty) (d : Val) (P : List (Val × Val)) : Val :=
  P.foldr (fun kv acc => acc.store kv.1 kv.2) (.aconst idx d)

theorem storesR_spec {idx : Ty} (ord : KeyOrd (fun v => v.hasSort idx = true)) (d : Val) :
    ∀ (P : List (Val × Val)), (∀ kv ∈ P, kv.1.hasSort idx = true) →
      Val.CanonV idx (storesR idx d P) ∧
      (∀ j, j.hasSort idx = true → (storesR idx d P).select j = Val.lookupEnt j d P) ∧
      (Val.smallDomain idx = none → (storesR idx d P).arrDefault = d)
  | [], _ => ⟨Val.CanonV.aconst idx d, fun _ _ => rfl, fun _ => rfl⟩
  | (k, v) :: rest, h => by
    obtain ⟨h1, h2, h3⟩ := storesR_spec ord d rest (fun kv hkv => h kv (List.mem_cons_of_mem _ hkv))
    obtain ⟨s1, s2, s3⟩ := Val.CanonV.store ord v h1 (h (k, v) (by simp))
    refine ⟨s1, ?_, fun hn => ?_⟩
    · intro j hj
      show (Val.store (storesR idx d rest) k v).select j = _
      rw [s2 j hj, h2 j hj, Val.lookupEnt_cons]
    · show (Val.store (storesR idx d rest) k v).arrDefault = _
      rw [s3 hn, h3 hn]

theorem lookupEnt_perm (j d : Val) {P Q : List (Val × Val)} (hp : P.Perm Q) (hn : Val.KeysNodup P) :
    Val.lookupEnt j d P = Val.lookupEnt j d Q := by
  have hnq : Val.KeysNodup Q := (List.Perm.pairwise_iff (fun h => fun e => h e.symm) hp).1 hn
  by_cases hex : ∃ kv ∈ P, kv.1 = j
  · obtain ⟨kv, hkv, rfl⟩ := hex
    rw [Val.lookupEnt_mem d P hn kv hkv, Val.lookupEnt_mem d Q hnq kv (hp.mem_iff.1 hkv)]
  · have h1 : ∀ kv ∈ P, kv.1 ≠ j := fun kv hkv e => hex ⟨kv, hkv, e⟩
    have h2 : ∀ kv ∈ Q, kv.1 ≠ j := fun kv hkv => h1 kv (hp.mem_iff.2 hkv)
    rw [Val.lookupEnt_notin j d P h1, Val.lookupEnt_notin j d Q h2]

/-- store chains over the same constant array with the same assignments in any order are the same value -/
theorem storesR_perm {idx : Ty} (hidx : idx.scalar = true) (d : Val) {P Q : List (Val × Val)} (hp : P.Perm Q)
    (hk : ∀ kv ∈ P, kv.1.hasSort idx = true) (hn : Val.KeysNodup P) : storesR idx d P = storesR idx d Q := by
  have ord := keyOrd idx hidx
  have hkq : ∀ kv ∈ Q, kv.1.hasSort idx = true := fun kv hkv => hk kv (hp.mem_iff.2 hkv)
  obtain ⟨a1, a2, a3⟩ := storesR_spec ord d P hk
  obtain ⟨b1, b2, b3⟩ := storesR_spec ord d Q hkq
  refine Val.CanonV.ext ord a1 b1 (fun hsd => by rw [a3 hsd, b3 hsd]) (fun j hj => ?_)
  rw [a2 j hj, b2 j hj, lookupEnt_perm j d hp hn]

theorem eval_const {t : Term} {v : Val} (h : constVal t = some v) (I : Interp) : eval I t = v := by
  unfold constVal at h
  split at h <;> simp only [Option.some.injEq, reduceCtorEq] at h <;> subst h <;>
    simp only [eval_node, evalNode, List.map_nil, evalOp]

theorem pairwiseNe_spec : ∀ (l : List Val), pairwiseNe l = true → l.Pairwise (· ≠ ·)
  | [], _ => List.Pairwise.nil
  | x :: xs, h => by
    simp only [pairwiseNe, Bool.and_eq_true, Bool.not_eq_true'] at h
    refine List.Pairwise.cons ?_ (pairwiseNe_spec xs h.2)
    intro y hy e
    subst e
    have := h.1
    simp only [List.contains_eq_mem, decide_eq_false_iff_not] at this
    exact this hy

/-- **An array value and the chain of stores it is printed as (in either printer's order) have the same value**, when the
keys of every array value are pairwise different constants of a non-array index sort (`avGuard`). -/
theorem eval_unfoldAVw (srt : Bool) : ∀ (t : Term), avGuard t = true → ∀ I, eval I (unfoldAVw srt t) = eval I t
  | .node op args p, h, I => by
    rw [avGuard.eq_def] at h
    simp only [Bool.and_eq_true, List.all_map, List.all_eq_true, Function.comp, id] at h
    obtain ⟨hargs, hnode⟩ := h
    have ih : ∀ a ∈ args, ∀ J, eval J (unfoldAVw srt a) = eval J a := fun a ha J => eval_unfoldAVw srt a (hargs a ha) J
    have hmap : (args.map (unfoldAVw srt)).map (fun a J => eval J a) = args.map (fun a J => eval J a) := by
      rw [List.map_map]
      apply List.map_congr_left
      intro a ha
      funext J
      exact ih a ha J
    unfold unfoldAVw
    dsimp only
    split
    · next idx d rest ds restS hm =>
      simp only [List.map_cons, List.cons.injEq] at hm
      obtain ⟨rfl, rfl⟩ := hm
      simp only [Bool.and_eq_true, List.all_eq_true] at hnode
      obtain ⟨⟨hscal, hkeys⟩, hne⟩ := hnode
      have hidx : idx.scalar = true := by cases idx <;> simp_all [Ty.scalar]
      -- the assignments in the printer's order
      let S : List (Term × Term) := if srt then sortBy (fun kv => hrStr kv.1) (pairsOf rest) else pairsOf rest
      have hSperm : S.Perm (pairsOf rest) := by
        show (if srt then _ else _ : List (Term × Term)).Perm _
        cases srt
        · exact List.Perm.refl _
        · exact sortBy_perm _ _
      have hents : (if srt then sortBy (fun e : (Term × Term) × (Term × Term) => hrStr e.1.1)
          ((pairsOf rest).zip (pairsOf (rest.map (unfoldAVw srt)))) else (pairsOf rest).zip (pairsOf (rest.map (unfoldAVw srt))))
          = S.map (fun kv => (kv, (unfoldAVw srt kv.1, unfoldAVw srt kv.2))) := by
        rw [pairsOf_map, zip_map_self]
        show _ = (if srt then _ else _ : List (Term × Term)).map _
        cases srt
        · rfl
        · exact sortBy_map _ _ _ (fun _ => rfl) _
      rw [hents, List.foldl_map]
      have hfm := List.foldl_map (f := fun kv : Term × Term => (unfoldAVw srt kv.1, unfoldAVw srt kv.2))
        (g := fun (acc : Term) (kv : Term × Term) => Term.node Op.arrayStore [acc, kv.1, kv.2] Payload.none)
        (l := S) (init := Term.node Op.arrayValue [unfoldAVw srt d] (Payload.ty idx))
      have hfun : (fun (acc : Term) (kv : Term × Term) =>
            Term.node Op.arrayStore [acc, (kv, unfoldAVw srt kv.1, unfoldAVw srt kv.2).2.1,
              (kv, unfoldAVw srt kv.1, unfoldAVw srt kv.2).2.2] Payload.none)
          = (fun acc kv => Term.node Op.arrayStore [acc, (unfoldAVw srt kv.1, unfoldAVw srt kv.2).1,
              (unfoldAVw srt kv.1, unfoldAVw srt kv.2).2] Payload.none) := rfl
      rw [hfun, ← hfm, eval_storeChain, List.foldl_map, eval_constArr, eval_arrayValue, ih d (by simp) I]
      -- both sides are store chains over the same constant array
      have evp : ∀ kv ∈ pairsOf rest, eval I (unfoldAVw srt kv.1) = eval I kv.1 ∧ eval I (unfoldAVw srt kv.2) = eval I kv.2 := by
        intro kv hkv
        have ⟨h1, h2⟩ := mem_pairsOf rest kv hkv
        exact ⟨ih kv.1 (List.mem_cons_of_mem _ h1) I, ih kv.2 (List.mem_cons_of_mem _ h2) I⟩
      have hL : List.foldl (fun a kv => Val.store a (eval I (unfoldAVw srt kv.1)) (eval I (unfoldAVw srt kv.2)))
            (Val.aconst idx (eval I d)) S
          = storesR idx (eval I d) (S.reverse.map (fun kv => (eval I kv.1, eval I kv.2))) := by
        rw [storesR, List.foldr_map, ← List.foldl_reverse, List.reverse_reverse]
        have : ∀ (l : List (Term × Term)) (acc : Val), (∀ kv ∈ l, kv ∈ pairsOf rest) →
            List.foldl (fun a kv => Val.store a (eval I (unfoldAVw srt kv.1)) (eval I (unfoldAVw srt kv.2))) acc l
              = List.foldl (fun a kv => Val.store a (eval I kv.1) (eval I kv.2)) acc l := by
          intro l
          induction l with
          | nil => intro acc _; rfl
          | cons kv l ihl =>
            intro acc hl
            simp only [List.foldl_cons]
            rw [(evp kv (hl kv (by simp))).1, (evp kv (hl kv (by simp))).2]
            exact ihl _ (fun x hx => hl x (List.mem_cons_of_mem _ hx))
        exact this S _ (fun kv hkv => hSperm.mem_iff.1 hkv)
      have hR : List.foldr (fun kv acc => Val.store acc (eval I kv.1) (eval I kv.2)) (Val.aconst idx (eval I d)) (pairsOf rest)
          = storesR idx (eval I d) ((pairsOf rest).map (fun kv => (eval I kv.1, eval I kv.2))) := by
        rw [storesR, List.foldr_map]
      rw [hL, hR]
      have hperm : (S.reverse.map (fun kv => (eval I kv.1, eval I kv.2))).Perm
          ((pairsOf rest).map (fun kv => (eval I kv.1, eval I kv.2))) :=
        ((List.reverse_perm S).trans hSperm).map _
      -- keys: values of the index sort, pairwise different
      have hkv : ∀ kv ∈ pairsOf rest, ∃ v, constVal kv.1 = some v ∧ v.hasSort idx = true := by
        intro kv hkv
        have := hkeys kv hkv
        cases hc : constVal kv.1 with
        | none => rw [hc] at this; simp at this
        | some v => rw [hc] at this; exact ⟨v, rfl, this⟩
      have hkeysR : ∀ kv ∈ (pairsOf rest).map (fun kv => (eval I kv.1, eval I kv.2)), kv.1.hasSort idx = true := by
        intro kv hkv'
        simp only [List.mem_map] at hkv'
        obtain ⟨x, hx, rfl⟩ := hkv'
        obtain ⟨v, hv, hs⟩ := hkv x hx
        simp only [eval_const hv I, hs]
      have hnodR : Val.KeysNodup ((pairsOf rest).map (fun kv => (eval I kv.1, eval I kv.2))) := by
        have hpw := pairwiseNe_spec _ hne
        rw [List.pairwise_map] at hpw
        unfold Val.KeysNodup
        rw [List.pairwise_map]
        refine List.Pairwise.imp_of_mem ?_ hpw
        intro x y hx hy hxy
        obtain ⟨vx, hvx, _⟩ := hkv x hx
        obtain ⟨vy, hvy, _⟩ := hkv y hy
        simp only [eval_const hvx I, eval_const hvy I]
        simpa [hvx, hvy] using hxy
      have hpermS := hperm.symm
      rw [← storesR_perm hidx (eval I d) hpermS hkeysR hnodR]
    · rw [eval_node, eval_node, hmap]
termination_by t => sizeOf t
decreasing_by
  all_goals
    simp_wf
    have := List.sizeOf_lt_of_mem ha
    omega

/-- **Tree printing is sound**: the text of `to_smtlib(f, daggify=False)`, read with the standard's semantics, has the
sort of `f` and, under every interpretation, the value of `f`.

`_partial` only in its hypotheses: `Printable` excludes instances of parametric sorts and the terms of the known findings
F10, F11, F44, F45, F46; `avGuard` is the natural guard on array values (keys pairwise different constants of a non-array
index sort — what `FormulaManager.Array` builds). -/
theorem print_sound_partial (env : SEnv) (t : Term) (h : Printable env [] t = true) (hg : avGuard t = true) :
    ∃ t' τ, readStdTy env [] (toSexp t) = .ok (t', τ) ∧ t.typeOf = some τ ∧ ∀ I, eval I t' = eval I t := by
  obtain ⟨τ, hty, hrd⟩ := read_toSexp_sort env t h
  exact ⟨unfoldAV t, τ, hrd, hty, fun I => by rw [unfoldAV_eq]; exact eval_unfoldAVw true t hg I⟩

end PySMT.Printer
