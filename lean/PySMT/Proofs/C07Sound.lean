import PySMT.Proofs.C07ReadMain
/-!
# C07: `read_toSexp`, `print_sound`
-/
namespace PySMT.Printer
open PySMT.Std PySMT.Sexp

/-- **The standard's reading of the tree printer's output is the formula itself** (an array value being read as the
chain of stores it is printed as): for every term that satisfies the hypotheses `Printable` (well-typed with canonical
payloads, names speakable and unambiguous, plain declared sorts, none of the known findings F10/F11/F44/F46) in an
environment `env` that declares its free symbols. -/
theorem read_toSexp (env : SEnv) (t : Term) (h : Printable env [] t = true) :
    readStd env [] (toSexp t) = .ok (unfoldAV t) := by
  have hr := reads_all treeSpell treeSpell_std env t [] (fun _ hs => by simp at hs) h
  simp only [readStd, readStdTy, List.reverse_nil, List.map_nil, toSexp]
  have := hr.2
  simp only [List.map_nil] at this
  rw [this]
  rfl

/-- … and it has the formula's sort -/
theorem read_toSexp_sort (env : SEnv) (t : Term) (h : Printable env [] t = true) :
    ∃ τ, t.typeOf = some τ ∧ readStdTy env [] (toSexp t) = .ok (unfoldAV t, τ) := by
  have hr := reads_all treeSpell treeSpell_std env t [] (fun _ hs => by simp at hs) h
  refine ⟨tyD t, hr.1, ?_⟩
  simp only [readStdTy, List.reverse_nil, List.map_nil, toSexp]
  have := hr.2
  simp only [List.map_nil] at this
  exact this

/-! ## the unfolded term has the same value -/

theorem arrayValue_pairs (idx : Ty) (d : Val) : ∀ (l : List Val),
    Sem.arrayValue idx d l = (pairsOf l).foldr (fun kv acc => acc.store kv.1 kv.2) (.aconst idx d)
  | [] => rfl
  | [_] => rfl
  | k :: v :: rest => by simp [Sem.arrayValue, pairsOf, arrayValue_pairs idx d rest]

theorem foldr_congr_mem {α β} (f g : α → β → β) (b : β) : ∀ (l : List α), (∀ x ∈ l, ∀ acc, f x acc = g x acc) →
    List.foldr f b l = List.foldr g b l
  | [], _ => rfl
  | x :: l, h => by
    simp only [List.foldr_cons]
    rw [foldr_congr_mem f g b l (fun y hy => h y (List.mem_cons_of_mem _ hy)), h x (by simp)]

theorem eval_store (I : Interp) (a k v : Term) :
    eval I (Term.node .arrayStore [a, k, v] .none) = (eval I a).store (eval I k) (eval I v) := by
  simp only [eval_node, evalNode, List.map_cons, List.map_nil, evalOp]

theorem eval_constArr (I : Interp) (idx : Ty) (d : Term) :
    eval I (Term.node .arrayValue [d] (.ty idx)) = .aconst idx (eval I d) := by
  simp only [eval_node, evalNode, List.map_cons, List.map_nil, evalOp, Sem.arrayValue]

theorem eval_arrayValue (I : Interp) (idx : Ty) (d : Term) (rest : List Term) :
    eval I (Term.node .arrayValue (d :: rest) (.ty idx)) =
      (pairsOf rest).foldr (fun kv acc => acc.store (eval I kv.1) (eval I kv.2)) (.aconst idx (eval I d)) := by
  simp only [eval_node, evalNode, List.map_cons, evalOp]
  rw [List.map_map, arrayValue_pairs, pairsOf_map, List.foldr_map]
  rfl

theorem eval_storeChain (I : Interp) : ∀ (l : List (Term × Term)) (acc : Term),
    eval I (l.foldl (fun acc kv => Term.node .arrayStore [acc, kv.1, kv.2] .none) acc)
      = l.foldl (fun a kv => a.store (eval I kv.1) (eval I kv.2)) (eval I acc)
  | [], _ => rfl
  | kv :: l, acc => by
    simp only [List.foldl_cons]
    rw [eval_storeChain I l, eval_store]

theorem eval_unfoldAV : ∀ (t : Term), avOrdered t = true → ∀ I, eval I (unfoldAV t) = eval I t
  | .node op args p, h, I => by
    rw [avOrdered.eq_def] at h
    simp only [Bool.and_eq_true, List.all_map, List.all_eq_true, Function.comp, id] at h
    obtain ⟨hargs, hnode⟩ := h
    have ih : ∀ a ∈ args, ∀ J, eval J (unfoldAV a) = eval J a := fun a ha J => eval_unfoldAV a (hargs a ha) J
    have hmap : (args.map unfoldAV).map (fun a J => eval J a) = args.map (fun a J => eval J a) := by
      rw [List.map_map]
      apply List.map_congr_left
      intro a ha
      funext J
      exact ih a ha J
    unfold unfoldAV
    dsimp only
    split
    · next idx d rest ds restS hm =>
      simp only [List.map_cons, List.cons.injEq] at hm
      obtain ⟨rfl, rfl⟩ := hm
      have hS : sortBy (fun e : Term × Term => hrStr e.1) (pairsOf rest) = (pairsOf rest).reverse := by
        simpa using hnode
      rw [pairsOf_map, zip_map_self]
      have hsm := sortBy_map (α := Term × Term) (β := (Term × Term) × (Term × Term)) (fun kv => hrStr kv.1)
        (fun e => hrStr e.1.1) (fun x => (x, unfoldAV x.1, unfoldAV x.2)) (fun _ => rfl) (pairsOf rest)
      rw [hsm, hS, List.foldl_map]
      have hfm := List.foldl_map (f := fun kv : Term × Term => (unfoldAV kv.1, unfoldAV kv.2))
        (g := fun (acc : Term) (kv : Term × Term) => Term.node Op.arrayStore [acc, kv.1, kv.2] Payload.none)
        (l := (pairsOf rest).reverse) (init := Term.node Op.arrayValue [unfoldAV d] (Payload.ty idx))
      rw [← hfm, eval_storeChain, List.foldl_map, List.foldl_reverse, eval_constArr, eval_arrayValue, ih d (by simp) I]
      apply foldr_congr_mem
      intro kv hkv acc
      have ⟨h1, h2⟩ := mem_pairsOf rest kv hkv
      rw [ih kv.1 (List.mem_cons_of_mem _ h1) I, ih kv.2 (List.mem_cons_of_mem _ h2) I]
    · rw [eval_node, eval_node, hmap]
termination_by t => sizeOf t
decreasing_by
  all_goals
    simp_wf
    have := List.sizeOf_lt_of_mem ha
    omega

/-- **Tree printing is sound**: the text of `to_smtlib(f, daggify=False)`, read with the standard's semantics, has the sort of `f` and, under
every interpretation, the value of `f`.

`_partial`: (1) `avOrdered` — an array value with two or more assignments must list them in the order in which the printed
chain of stores applies them (the equality of the two orders needs commutation of `Val.store` on distinct keys, not proved);
(2) `Printable` excludes instances of parametric sorts and the terms of the known findings F10, F11, F44, F45, F46. -/
theorem print_sound_partial (env : SEnv) (t : Term) (h : Printable env [] t = true) (ho : avOrdered t = true) :
    ∃ t' τ, readStdTy env [] (toSexp t) = .ok (t', τ) ∧ t.typeOf = some τ ∧ ∀ I, eval I t' = eval I t := by
  obtain ⟨τ, hty, hrd⟩ := read_toSexp_sort env t h
  exact ⟨unfoldAV t, τ, hrd, hty, fun I => eval_unfoldAV t ho I⟩

end PySMT.Printer
