import PySMT.Impl.TreeWalker

/-! `TreeWalker.walk`: visits = size of the TREE expansion (not of the DAG), at most twice as many loop iterations,
    and an explicit stack of generators never longer than the nesting depth. -/

namespace PySMT.TreeWalker
open PySMT.Walker
set_option linter.unusedSimpArgs false

variable {N : Type}

theorem attach_map_val' {α β : Type} (l : List α) (f : α → β) :
    l.attach.map (fun c => f c.1) = l.map f := by
  simp [List.map_attach_eq_pmap, List.pmap_eq_map]

theorem tsize_eq (g : Graph N) (gen : N → Bool) (n : N) :
    tsize g gen n = if gen n then 1 + ((g.children n).map (tsize g gen)).sum else 1 := by
  rw [tsize, attach_map_val' (g.children n) (tsize g gen)]

theorem height_eq (g : Graph N) (gen : N → Bool) (n : N) :
    height g gen n = if gen n then 1 + listMax ((g.children n).map (height g gen)) else 1 := by
  rw [height, attach_map_val' (g.children n) (height g gen)]

theorem titer_nil (g : Graph N) (gen : N → Bool) (k : Nat) (s : TState N) (h : s.stack = []) :
    titer g gen k s = s := by
  cases k with
  | zero => rfl
  | succ k => unfold titer; rw [h]

theorem titer_succ (g : Graph N) (gen : N → Bool) (k : Nat) (s : TState N) :
    titer g gen (k + 1) s = titer g gen k (tstep g gen s) := by
  cases h : s.stack with
  | nil =>
    have : tstep g gen s = s := by unfold tstep; rw [h]
    rw [this, titer_nil g gen _ s h, titer_nil g gen _ s h]
  | cons a t => rw [titer]; rw [h]

theorem titer_add (g : Graph N) (gen : N → Bool) (a b : Nat) (s : TState N) :
    titer g gen (a + b) s = titer g gen b (titer g gen a s) := by
  induction a generalizing s with
  | zero => simp [titer]
  | succ a ih => rw [Nat.succ_add, titer_succ, titer_succ, ih]

/-- sum of the tree sizes of a frame -/
def fsize (g : Graph N) (gen : N → Bool) (cs : List N) : Nat := (cs.map (tsize g gen)).sum

/-- a frame `cs` on top of `rest` is consumed in at most `2·fsize cs + 1` iterations, which visit `fsize cs` nodes -/
theorem run_frame (g : Graph N) (gen : N → Bool) : ∀ k (cs : List N), (∀ c ∈ cs, g.rank c < k) →
    ∀ (rest : List (List N)) (vis : List N) (st : Nat),
    ∃ j vis', j ≤ 2 * fsize g gen cs + 1 ∧
      titer g gen j ⟨cs :: rest, vis, st⟩ = ⟨rest, vis', st + j⟩ ∧ vis'.length = vis.length + fsize g gen cs := by
  intro k
  induction k with
  | zero =>
    intro cs hcs rest vis st
    cases cs with
    | nil => exact ⟨1, vis, by simp [fsize], by simp [titer, tstep], by simp [fsize]⟩
    | cons c cs => exact absurd (hcs c List.mem_cons_self) (Nat.not_lt_zero _)
  | succ k ih =>
    intro cs
    induction cs with
    | nil => intro _ rest vis st; exact ⟨1, vis, by simp [fsize], by simp [titer, tstep], by simp [fsize]⟩
    | cons c cs ihc =>
      intro hcs rest vis st
      have hcs' : ∀ c' ∈ cs, g.rank c' < k + 1 := fun c' h => hcs c' (List.mem_cons_of_mem _ h)
      by_cases hg : gen c = true
      · have hch : ∀ x ∈ g.children c, g.rank x < k := by
          intro x hx
          have := g.acyclic c x hx
          have := hcs c List.mem_cons_self
          omega
        obtain ⟨j1, v1, b1, e1, l1⟩ := ih (g.children c) hch (cs :: rest) (c :: vis) (st + 1)
        obtain ⟨j2, v2, b2, e2, l2⟩ := ihc hcs' rest v1 (st + 1 + j1)
        refine ⟨1 + j1 + j2, v2, ?_, ?_, ?_⟩
        · simp only [fsize, List.map_cons, List.sum_cons] at b1 b2 ⊢
          rw [tsize_eq g gen c]; simp only [hg, if_true]
          omega
        · rw [titer_add, titer_add]
          have h1 : titer g gen 1 ⟨(c :: cs) :: rest, vis, st⟩ = ⟨g.children c :: cs :: rest, c :: vis, st + 1⟩ := by
            simp [titer, tstep, hg]
          rw [h1, e1, e2]
          simp only [Nat.add_assoc]
        · rw [l2, l1]
          simp only [fsize, List.map_cons, List.sum_cons, List.length_cons]
          rw [tsize_eq g gen c]; simp only [hg, if_true]; omega
      · have hg' : gen c = false := by simpa using hg
        obtain ⟨j2, v2, b2, e2, l2⟩ := ihc hcs' rest (c :: vis) (st + 1)
        refine ⟨1 + j2, v2, ?_, ?_, ?_⟩
        · simp only [fsize, List.map_cons, List.sum_cons] at b2 ⊢
          rw [tsize_eq g gen c]; simp only [hg', Bool.false_eq_true, if_false]; omega
        · rw [titer_add]
          have h1 : titer g gen 1 ⟨(c :: cs) :: rest, vis, st⟩ = ⟨cs :: rest, c :: vis, st + 1⟩ := by
            simp [titer, tstep, hg']
          rw [h1, e2]
          simp only [Nat.add_assoc]
        · rw [l2]
          simp only [fsize, List.map_cons, List.sum_cons, List.length_cons]
          rw [tsize_eq g gen c]; simp only [hg', Bool.false_eq_true, if_false]; omega

/-- **tree_walk_visits** (C20, tree.py): `TreeWalker.walk` terminates with an empty stack, invokes exactly
    `tsize root` walk functions -- the size of the TREE expansion: a sub-formula shared k times is walked k times,
    so the tree printers are *not* linear in the DAG -- and needs at most `2·tsize root` loop iterations. -/
theorem tree_walk_visits (g : Graph N) (gen : N → Bool) (root : N) (fuel : Nat)
    (hfuel : 2 * tsize g gen root ≤ fuel) :
    (twalk g gen fuel root).stack = [] ∧ (twalk g gen fuel root).visits.length = tsize g gen root ∧
    (twalk g gen fuel root).steps ≤ 2 * tsize g gen root := by
  unfold twalk
  by_cases hg : gen root = true
  · simp only [hg, if_true]
    obtain ⟨j, v, b, e, l⟩ := run_frame g gen (g.rank root) (g.children root)
      (fun c hc => g.acyclic root c hc) [] [root] 0
    have hts : tsize g gen root = 1 + fsize g gen (g.children root) := by
      rw [tsize_eq]; simp [hg, fsize]
    have hj : j ≤ fuel := by omega
    obtain ⟨c, rfl⟩ := Nat.exists_eq_add_of_le hj
    rw [titer_add, e, titer_nil g gen c _ rfl]
    refine ⟨rfl, ?_, ?_⟩
    · simp only [l, List.length_cons, List.length_nil]; omega
    · simp only; omega
  · have hg' : gen root = false := by simpa using hg
    simp only [hg', Bool.false_eq_true, if_false]
    rw [tsize_eq]; simp [hg']

/-! ### the explicit stack is never deeper than the nesting -/

theorem le_listMax (x : Nat) (l : List Nat) (h : x ∈ l) : x ≤ listMax l := by
  induction l with
  | nil => cases h
  | cons a l ih =>
    simp only [listMax]
    rcases List.mem_cons.mp h with rfl | h'
    · exact Nat.le_max_left _ _
    · exact Nat.le_trans (ih h') (Nat.le_max_right _ _)

theorem height_pos (g : Graph N) (gen : N → Bool) (n : N) : 1 ≤ height g gen n := by
  rw [height_eq]; split <;> omega

theorem height_child (g : Graph N) (gen : N → Bool) (n c : N) (hg : gen n = true) (hc : c ∈ g.children n) :
    height g gen c + 1 ≤ height g gen n := by
  rw [height_eq g gen n]; simp only [hg, if_true]
  have := le_listMax (height g gen c) ((g.children n).map (height g gen)) (List.mem_map.mpr ⟨c, hc, rfl⟩)
  omega

/-- every frame sits at a level its nodes' heights allow -/
def Fits (g : Graph N) (gen : N → Bool) (H : Nat) : List (List N) → Prop
  | [] => True
  | fr :: rest => rest.length + 1 ≤ H ∧ (∀ c ∈ fr, height g gen c + rest.length + 1 ≤ H) ∧ Fits g gen H rest

theorem fits_len (g : Graph N) (gen : N → Bool) (H : Nat) (st : List (List N)) (h : Fits g gen H st) :
    st.length ≤ H := by
  cases st with
  | nil => exact Nat.zero_le _
  | cons fr rest => simp only [List.length_cons]; exact h.1

theorem tstep_fits (g : Graph N) (gen : N → Bool) (H : Nat) (s : TState N) (h : Fits g gen H s.stack) :
    Fits g gen H (tstep g gen s).stack := by
  unfold tstep
  cases hs : s.stack with
  | nil => simp only [hs]; rw [hs] at h; exact h
  | cons fr rest =>
    rw [hs] at h
    obtain ⟨h1, h2, h3⟩ := h
    cases fr with
    | nil => exact h3
    | cons c cs =>
      have hcs : Fits g gen H (cs :: rest) := ⟨h1, fun c' hc' => h2 c' (List.mem_cons_of_mem _ hc'), h3⟩
      simp only []
      by_cases hg : gen c = true
      · simp only [hg, if_true]
        have hc := h2 c List.mem_cons_self
        have hp := height_pos g gen c
        refine ⟨by simp only [List.length_cons]; omega, ?_, hcs⟩
        intro k hk
        have := height_child g gen c k hg hk
        simp only [List.length_cons]; omega
      · simp only [hg, if_false]; exact hcs

theorem titer_fits (g : Graph N) (gen : N → Bool) (H : Nat) (k : Nat) (s : TState N) (h : Fits g gen H s.stack) :
    Fits g gen H (titer g gen k s).stack := by
  induction k generalizing s with
  | zero => exact h
  | succ k ih => rw [titer_succ]; exact ih _ (tstep_fits g gen H s h)

/-- **tree_walk_stack** (C20, tree.py): at every moment of the loop the explicit stack of generators holds at most
    `height root` frames -- the nesting depth --; the loop itself (`titer`) is an iteration, no call depth grows. -/
theorem tree_walk_stack (g : Graph N) (gen : N → Bool) (root : N) (hg : gen root = true) (i : Nat) :
    (titer g gen i ⟨[g.children root], [root], 0⟩).stack.length ≤ height g gen root := by
  apply fits_len g gen
  apply titer_fits
  refine ⟨by simp only [List.length_nil]; exact height_pos g gen root, ?_, trivial⟩
  intro c hc
  have := height_child g gen root c hg hc
  simp only [List.length_nil]; omega

end PySMT.TreeWalker
