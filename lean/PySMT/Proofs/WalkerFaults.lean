import PySMT.Proofs.WalkerCross

/-! Crash points outside the callbacks (`_get_children`, `_get_key`; review C15 §4.2): the `finally` block of `walk`
    restores the walker whatever raised, wherever. -/

namespace PySMT.Walker
set_option linter.unusedSectionVars false
set_option linter.unusedSimpArgs false

section
variable {M N R E : Type} [DecidableEq N] [MemoLike M N R] [LawfulMemo M N R]

theorem pushUntil_none (m : M) (cs : List N) : (pushUntil (E := E) Faults.none m cs).2 = none := by
  induction cs with
  | nil => rfl
  | cons c cs ih => simp only [pushUntil, Faults.none]; exact ih

theorem faultAt_none (g : Graph N) (d : N → Bool) (s : WState M N) : faultAt (E := E) g d Faults.none s = none := by
  unfold faultAt
  cases hs : s.stack with
  | nil => rfl
  | cons hd tl =>
    rcases hd with ⟨b, n⟩
    cases b
    · simp only []
      by_cases hd' : d n = true
      · simp [hd', Faults.none]
      · simp only [hd', if_false, Bool.false_eq_true]
        simp only [Faults.none]
        have := pushUntil_none (E := E) s.memo (g.children n)
        simp only [Faults.none] at this
        rw [this]
    · simp [Faults.none]

/-- without faults the extended machine is the machine of the other theorems -/
theorem stepF_none (g : Graph N) (d : N → Bool) (f : List N → N → List R → Except E R) (s : WState M N) :
    stepF g d f Faults.none s = step g d f s := by
  unfold stepF; rw [faultAt_none]

theorem iterF_none (g : Graph N) (d : N → Bool) (f : List N → N → List R → Except E R) (k : Nat) (s : WState M N) :
    iterF g d f Faults.none k s = iter g d f k s := by
  induction k generalizing s with
  | zero => rfl
  | succ k ih =>
    unfold iterF iter
    cases s.stack with
    | nil => rfl
    | cons a t =>
      simp only [stepF_none]
      cases step g d f s with
      | run s' => exact ih s'
      | fail e s' => rfl

theorem walkF_none (g : Graph N) (d : N → Bool) (f : List N → N → List R → Except E R) (inval shortcut : Bool)
    (fuel : Nat) (n : N) (s : WState M N) :
    walkF g d f Faults.none inval shortcut fuel n s = walk g d f inval shortcut fuel n s := by
  unfold walkF walk
  simp only [iterF_none]

theorem faultAt_memo (g : Graph N) (d : N → Bool) (flt : Faults N E) (s : WState M N) (e : Err E) (s' : WState M N)
    (h : faultAt g d flt s = some (e, s')) : s'.memo = s.memo := by
  unfold faultAt at h
  cases hs : s.stack with
  | nil => rw [hs] at h; cases h
  | cons hd tl =>
    rw [hs] at h
    rcases hd with ⟨b, n⟩
    cases b
    · simp only [] at h
      by_cases hd' : d n = true
      · simp only [hd', if_true] at h
        cases hk : flt.key n with
        | none => rw [hk] at h; cases h
        | some e' => rw [hk] at h; cases h; rfl
      · simp only [hd', if_false, Bool.false_eq_true] at h
        cases hc : flt.children n with
        | some e' => rw [hc] at h; cases h; rfl
        | none =>
          rw [hc] at h
          simp only [] at h
          cases hp : (pushUntil flt s.memo (g.children n)).2 with
          | none => rw [hp] at h; cases h
          | some e' => rw [hp] at h; cases h; rfl
    · simp only [] at h
      cases hk : flt.key n with
      | none => rw [hk] at h; cases h
      | some e' => rw [hk] at h; cases h; rfl

theorem iterF_closed (g : Graph N) (d : N → Bool) (f : List N → N → List R → Except E R)
    (f0 : N → List R → Except E R) (hf : Refines f f0) (flt : Faults N E) (k : Nat) (s : WState M N)
    (hc : Closed g d f0 s.memo) (hs : StackOK d s.stack) :
    Closed g d f0 (iterF g d f flt k s).state.memo := by
  induction k generalizing s with
  | zero => exact hc
  | succ k ih =>
    unfold iterF
    cases hst : s.stack with
    | nil => exact hc
    | cons a t =>
      simp only []
      unfold stepF
      cases hfa : faultAt g d flt s with
      | some p =>
        obtain ⟨e, s'⟩ := p
        simp only [Res.state]
        rw [faultAt_memo g d flt s e s' hfa]; exact hc
      | none =>
        simp only []
        obtain ⟨h1, h2, _⟩ := step_inv g d f f0 hf s hc hs
        cases hstep : step g d f s with
        | fail e s' => rw [hstep] at h1; exact h1
        | run s' => rw [hstep] at h1 h2; exact ih s' h1 h2

theorem walkF_state (g : Graph N) (d : N → Bool) (f : List N → N → List R → Except E R) (flt : Faults N E)
    (inval shortcut : Bool) (fuel : Nat) (n : N) (s : WState M N) (hs : s.stack = [])
    (h : (if shortcut then look s.memo n else none) = none) :
    (walkF g d f flt inval shortcut fuel n s).2 = cleanup inval 0 (iterF g d f flt fuel (root n s)).state := by
  unfold walkF
  rw [h]
  simp only [hs, List.length_nil]
  unfold root
  cases iterF g d f flt fuel ⟨[(false, n)], s.memo, s.trace, s.pushes + 1, s.iters⟩ with
  | fail e s2 => rfl
  | run s2 =>
    simp only [Res.state]
    cases s2.stack with
    | nil => simp only []; cases look s2.memo n <;> rfl
    | cons _ _ => rfl

/-- **walkF_post** (C15 §4.2): the callbacks may raise, and so may `_get_children` and `_get_key` -- after
    `(True, formula)` was pushed, after some of the children were pushed, before the callback --: whatever the
    outcome, `walk` leaves the walker idle with a correct memo, blank for a one-shot walker. -/
theorem walkF_post (g : Graph N) (d : N → Bool) (f : List N → N → List R → Except E R)
    (f0 : N → List R → Except E R) (hf : Refines f f0) (flt : Faults N E) (inval shortcut : Bool) (fuel : Nat)
    (n : N) (s : WState M N) (hi : Idle g d f0 s) :
    Idle g d f0 (walkF g d f flt inval shortcut fuel n s).2 ∧
    (inval = true → (if shortcut then look s.memo n else none) = none →
      Blank (walkF g d f flt inval shortcut fuel n s).2) := by
  cases h : (if shortcut then look s.memo n else none) with
  | some r =>
    have : walkF g d f flt inval shortcut fuel n s = (.ok r, s) := by unfold walkF; rw [h]
    rw [this]
    exact ⟨hi, fun _ h' => by cases h'⟩
  | none =>
    rw [walkF_state g d f flt inval shortcut fuel n s hi.stack h]
    have hcl := iterF_closed g d f f0 hf flt fuel (root n s) hi.closed (stackOK_root d n)
    refine ⟨⟨cleanup_closed g d f0 _ _ _ hcl, cleanup_zero_stack _ _⟩, ?_⟩
    intro hinv _
    subst hinv
    exact ⟨cleanup_zero_stack _ _, fun x => by simp [cleanup, LawfulMemo.look_empty]⟩

/-- hence every later sequence of calls returns what it returns without the failing call (as
    `probe_after_failure_eq`, now for failures anywhere in the loop) -/
theorem probe_after_failure_anywhere (g : Graph N) (d : N → Bool) (f0 : N → List R → Except E R)
    (fbad : List N → N → List R → Except E R) (hbad : Refines fbad f0) (flt : Faults N E) (inval shortcut : Bool)
    (fuelBad fuel : Nat) (b : N) (V : List N) (hfuel : 2 * cost g V + 2 ≤ fuel) (qs : List N)
    (hV : ∀ q ∈ qs, Covers g d q V) (s : WState M N) (hi : Idle g d f0 s) :
    (walks g d (fun _ => f0) inval shortcut fuel qs (walkF g d fbad flt inval shortcut fuelBad b s).2).1
      = (walks g d (fun _ => f0) inval shortcut fuel qs s).1 := by
  have hi' := (walkF_post g d fbad f0 hbad flt inval shortcut fuelBad b s hi).1
  rw [(walks_spec g d f0 inval shortcut fuel V hfuel qs hV _ hi').1,
      (walks_spec g d f0 inval shortcut fuel V hfuel qs hV _ hi).1]

end
end PySMT.Walker
