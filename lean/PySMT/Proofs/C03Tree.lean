import PySMT.Proofs.C03NodeSound
/-!
# C03 — `Term.typeOf` / `Term.wt` against `HasType`, by recursion on the term
-/
namespace PySMT
namespace C03
open Spec CreateNode

theorem typeOf_node (op : Op) (args : List Term) (p : Payload) :
    (Term.node op args p).typeOf = typeOfNode op p (args.map Term.typeOf) := by
  rw [Term.typeOf.eq_def]

theorem wt_node (op : Op) (args : List Term) (p : Payload) :
    (Term.node op args p).wt = true ↔
      (∀ a ∈ args, a.wt = true) ∧ (typeOfNode op p (args.map Term.typeOf)).isSome = true := by
  rw [Term.wt.eq_def]
  simp only [Bool.and_eq_true, List.all_eq_true, List.mem_map, id]
  constructor
  · rintro ⟨h1, h2⟩; exact ⟨fun a ha => h1 _ ⟨a, ha, rfl⟩, h2⟩
  · rintro ⟨h1, h2⟩
    refine ⟨?_, h2⟩
    rintro _ ⟨a, ha, rfl⟩
    exact h1 a ha

theorem noF06_node (op : Op) (args : List Term) (p : Payload) :
    (Term.node op args p).noF06 = true ↔
      (∀ a ∈ args, a.noF06 = true) ∧ nodeOk op p (args.filterMap Term.typeOf) = true := by
  rw [Term.noF06.eq_def]
  simp only [Bool.and_eq_true, List.all_eq_true, List.mem_map, id]
  constructor
  · rintro ⟨h1, h2⟩; exact ⟨fun a ha => h1 _ ⟨a, ha, rfl⟩, h2⟩
  · rintro ⟨h1, h2⟩
    refine ⟨?_, h2⟩
    rintro _ ⟨a, ha, rfl⟩
    exact h1 a ha

theorem rotInRange_node (op : Op) (args : List Term) (p : Payload) :
    (Term.node op args p).rotInRange = true ↔
      (∀ a ∈ args, a.rotInRange = true) ∧ rotNodeOk op p = true := by
  rw [Term.rotInRange.eq_def]
  simp only [Bool.and_eq_true, List.all_eq_true, List.mem_map, id]
  constructor
  · rintro ⟨h1, h2⟩; exact ⟨fun a ha => h1 _ ⟨a, ha, rfl⟩, h2⟩
  · rintro ⟨h1, h2⟩
    refine ⟨?_, h2⟩
    rintro _ ⟨a, ha, rfl⟩
    exact h1 a ha

/-- a `wt` term has a type -/
theorem wt_typeOf_isSome : (t : Term) → t.wt = true → t.typeOf.isSome = true
  | .node op args p, h => by
    rw [typeOf_node]; exact ((wt_node op args p).1 h).2

/-- transfer of a list of argument sorts from one sort function to another -/
theorem map_transfer {f g : Term → Option Ty} : ∀ (as : List Term) (σs : List Ty),
    (∀ a ∈ as, ∀ σ, f a = some σ → g a = some σ) → as.map f = σs.map some → as.map g = σs.map some
  | [], [], _, _ => rfl
  | [], _ :: _, _, h => by simp at h
  | _ :: _, [], _, h => by simp at h
  | a :: as, σ :: σs, ih, h => by
    simp only [List.map_cons, List.cons.injEq] at h ⊢
    exact ⟨ih a (by simp) σ h.1, map_transfer as σs (fun b hb => ih b (by simp [hb])) h.2⟩

/-- every list of `some`s is the image of a list -/
theorem all_some_eq_map : ∀ (l : List (Option Ty)), (∀ x ∈ l, x.isSome = true) → ∃ σs : List Ty, l = σs.map some
  | [], _ => ⟨[], rfl⟩
  | none :: _, h => by have := h none (by simp); simp at this
  | some σ :: rest, h => by
    obtain ⟨σs, hs⟩ := all_some_eq_map rest (fun x hx => h x (by simp [hx]))
    exact ⟨σ :: σs, by simp [hs]⟩

theorem filterMap_of_map_some {f : Term → Option Ty} : ∀ (as : List Term) (σs : List Ty),
    as.map f = σs.map some → as.filterMap f = σs
  | [], [], _ => rfl
  | [], _ :: _, h => by simp at h
  | _ :: _, [], h => by simp at h
  | a :: as, σ :: σs, h => by
    simp only [List.map_cons, List.cons.injEq] at h
    simp only [List.filterMap_cons, h.1]
    rw [filterMap_of_map_some as σs h.2]

/-- completeness on the characterisation -/
theorem complete_sortOf : (t : Term) → (τ : Ty) → t.rotInRange = true → t.sortOf = some τ →
    t.typeOf = some τ ∧ t.wt = true
  | .node op args p, τ, hr, h => by
    obtain ⟨hra, hrn⟩ := (rotInRange_node op args p).1 hr
    obtain ⟨σs, hs, hsig⟩ := (Term.sortOf_node op args p τ).1 h
    have ih : ∀ a ∈ args, ∀ σ, a.sortOf = some σ → a.typeOf = some σ ∧ a.wt = true :=
      fun a ha σ hσ => complete_sortOf a σ (hra a ha) hσ
    have hts : args.map Term.typeOf = σs.map some :=
      map_transfer args σs (fun a ha σ hσ => (ih a ha σ hσ).1) hs
    have hnode := node_complete hrn (sig_of_sigOf hsig)
    have hwt : ∀ a ∈ args, a.wt = true := by
      intro a ha
      have : (a.sortOf).isSome = true := by
        have hm : a.sortOf ∈ args.map Term.sortOf := List.mem_map.2 ⟨a, ha, rfl⟩
        rw [hs] at hm
        obtain ⟨σ, _, hσ⟩ := List.mem_map.1 hm
        rw [← hσ]; rfl
      obtain ⟨σ, hσ⟩ := Option.isSome_iff_exists.1 this
      exact (ih a ha σ hσ).2
    refine ⟨by rw [typeOf_node, hts]; exact hnode, (wt_node op args p).2 ⟨hwt, ?_⟩⟩
    rw [hts, hnode]; rfl

/-- soundness on the characterisation, outside the holes -/
theorem sound_sortOf : (t : Term) → (τ : Ty) → t.noF06 = true → t.wt = true → t.typeOf = some τ →
    t.sortOf = some τ
  | .node op args p, τ, hn, hw, h => by
    obtain ⟨hna, hnn⟩ := (noF06_node op args p).1 hn
    obtain ⟨hwa, _⟩ := (wt_node op args p).1 hw
    obtain ⟨σs, hts⟩ := all_some_eq_map (args.map Term.typeOf) (by
      intro x hx
      obtain ⟨a, ha, rfl⟩ := List.mem_map.1 hx
      exact wt_typeOf_isSome a (hwa a ha))
    have ih : ∀ a ∈ args, ∀ σ, a.typeOf = some σ → a.sortOf = some σ :=
      fun a ha σ hσ => sound_sortOf a σ (hna a ha) (hwa a ha) hσ
    have hss : args.map Term.sortOf = σs.map some := map_transfer args σs ih hts
    rw [filterMap_of_map_some args σs hts] at hnn
    rw [typeOf_node, hts] at h
    exact (Term.sortOf_node op args p τ).2 ⟨σs, hss, node_sound hnn h⟩

end C03
end PySMT
