import PySMT.Proofs.C08AgreeTop
import PySMT.Proofs.C08StdWF5
/-!
# C08: soundness of the parser model on the fragment, unconditional form

`readStd_wf` (the standard reader only produces terms pySMT's checker accepts, `Proofs/C08StdWF*.lean`) discharges the
well-formedness hypothesis of `readTerm_sound_of_wf`.
-/
namespace PySMT.Parser.Agree
open PySMT PySMT.Parser PySMT.Std PySMT.Sexp

/-- **Soundness on the fragment.** In corresponding environments, whenever the standard reader accepts a text of the
fragment with result `u`, the parser model accepts it too, and the term `t` it returns is well-formed, has the sort of `u`
and, under every well-formed interpretation, the value of `u`; syntactically `t = mkNorm u`. -/
theorem readTerm_sound (env : SEnv) (ρ : List (String × Sym)) (Γ : PEnv) (hc : Corr env [] Γ) (hm : MgrLe Γ.mgr ρ)
    (s : Sexp) (hf : FragS env ρ s = true) (hro : RotOK env [] s = true) (u : Term) (h : readStd env [] s = .ok u) :
    ∃ t, readTerm Γ s = .ok t ∧ t = mkNorm u ∧ t.wf = true ∧ t.typeOf = u.typeOf ∧
      ∀ I : Interp, I.WF → eval I t = eval I u := by
  have hwf := (readStd_wf env ρ hc.nodefs s hf hro u h).1
  obtain ⟨t, h1, h2, h3, h4⟩ := readTerm_sound_of_wf env ρ Γ hc hm s hf hro u h hwf
  have : t = mkNorm u := by
    have := (readTerm_agree env ρ Γ hc hm s hf hro u h).1
    rw [h1] at this
    exact Except.ok.inj this
  exact ⟨t, h1, this, h2, h3, h4⟩

/-- the form of the property: **whenever the parser accepts** (and the standard gives the text a meaning), the term it
returns denotes exactly what the standard says -/
theorem readTerm_sound_accept (env : SEnv) (ρ : List (String × Sym)) (Γ : PEnv) (hc : Corr env [] Γ) (hm : MgrLe Γ.mgr ρ)
    (s : Sexp) (hf : FragS env ρ s = true) (hro : RotOK env [] s = true) (t u : Term) (hpy : readTerm Γ s = .ok t)
    (hstd : readStd env [] s = .ok u) :
    t.wf = true ∧ t.typeOf = u.typeOf ∧ ∀ I : Interp, I.WF → eval I t = eval I u := by
  obtain ⟨t', h1, _, h2, h3, h4⟩ := readTerm_sound env ρ Γ hc hm s hf hro u hstd
  rw [hpy] at h1
  cases h1
  exact ⟨h2, h3, h4⟩

end PySMT.Parser.Agree
