import PySMT.Proofs.SimpBVArith
/-!
# `RuleOK` for `walk_bv_ult`, `_ule`, `_slt`, `_sle`, `_comp` (every width)
-/
namespace PySMT.Simp.BVRules
open PySMT PySMT.Build PySMT.Simp

/-- close a goal whose typing hypothesis computes to `none = some _` -/
local macro "tinv " h:ident : tactic => `(tactic| try (cases $h:ident; done))

/-! ## the four comparisons -/

def IsRel (op : Op) (g : (w : Nat) → BitVec w → BitVec w → Bool) : Prop :=
  (op = .bvUlt ∨ op = .bvUle ∨ op = .bvSlt ∨ op = .bvSle) ∧
    ∀ (I : Interp) (p : Payload) (x y : Val), evalOp I op p [x, y] = .b (Sem.bvRel g x y)

theorem isRel_ult : IsRel .bvUlt (fun _ x y => x.ult y) := ⟨Or.inl rfl, fun _ _ _ _ => rfl⟩
theorem isRel_ule : IsRel .bvUle (fun _ x y => x.ule y) := ⟨Or.inr (Or.inl rfl), fun _ _ _ _ => rfl⟩
theorem isRel_slt : IsRel .bvSlt (fun _ x y => x.slt y) := ⟨Or.inr (Or.inr (Or.inl rfl)), fun _ _ _ _ => rfl⟩
theorem isRel_sle : IsRel .bvSle (fun _ x y => x.sle y) := ⟨Or.inr (Or.inr (Or.inr rfl)), fun _ _ _ _ => rfl⟩

theorem rel_facts {op : Op} (hop : op = .bvUlt ∨ op = .bvUle ∨ op = .bvSlt ∨ op = .bvSle) :
    op ≠ .symbol ∧ op ≠ .function ∧ op.isQuantifier = false ∧ (∀ p n, op.shapeOK p n = (n == 2)) := by
  rcases hop with rfl | rfl | rfl | rfl <;> exact ⟨by simp, by simp, rfl, fun _ _ => rfl⟩

theorem typeOfNode_bvRel {op : Op} (hop : op = .bvUlt ∨ op = .bvUle ∨ op = .bvSlt ∨ op = .bvSle)
    {p : Payload} {ta tb : Option Ty} {τ : Ty} (h : typeOfNode op p [ta, tb] = some τ) :
    ∃ w, ta = some (.bv w) ∧ tb = some (.bv w) ∧ τ = .bool := by
  rcases hop with rfl | rfl | rfl | rfl
  all_goals
    cases ta with
    | none => cases h
    | some t =>
      cases t <;> tinv h
      rename_i w
      obtain ⟨hall, rfl⟩ := of_ite_some h
      exact ⟨w, rfl, allAre_one.mp hall, rfl⟩

theorem typeOfNode_bvRel_mk {op : Op} (hop : op = .bvUlt ∨ op = .bvUle ∨ op = .bvSlt ∨ op = .bvSle)
    (p : Payload) (w : Nat) : typeOfNode op p [some (.bv w), some (.bv w)] = some .bool := by
  rcases hop with rfl | rfl | rfl | rfl
  all_goals
    show (if allAre [some (.bv w)] (.bv w) then some Ty.bool else none) = some .bool
    rw [if_pos (allAre_one.mpr rfl)]

structure Rel (op : Op) (g : (w : Nat) → BitVec w → BitVec w → Bool) (a b : Term) (p : Payload) (w : Nat) :
    Prop where
  isRel : IsRel op g
  hwf : (Term.node op [a, b] p).wf = true
  wa : a.wf = true
  wb : b.wf = true
  ta : a.typeOf = some (.bv w)
  tb : b.typeOf = some (.bv w)

theorem rel_ctx {op : Op} {g} (hr : IsRel op g) {p : Payload} {args : List Term} {τ : Ty}
    (hwf : (Term.node op args p).wf = true) (hty : (Term.node op args p).typeOf = some τ) :
    ∃ a b w, args = [a, b] ∧ τ = .bool ∧ Rel op g a b p w := by
  obtain ⟨_, _, _, hsh⟩ := rel_facts hr.1
  have hs := wf_shape hwf
  rw [hsh] at hs
  have hs : args.length = 2 := by simpa using hs
  match args, hs, hwf, hty with
  | [a, b], _, hwf, hty =>
    rw [typeOf_node] at hty
    obtain ⟨w, ha, hb, rfl⟩ := typeOfNode_bvRel hr.1 hty
    exact ⟨a, b, w, rfl, rfl, ⟨hr, hwf, wf_args hwf a (by simp), wf_args hwf b (by simp), ha, hb⟩⟩

namespace Rel
variable {op : Op} {g : (w : Nat) → BitVec w → BitVec w → Bool} {a b : Term} {p : Payload} {w : Nat}

theorem constA (c : Rel op g a b p w) {v : Nat} (h : isBvConst a = some v) : a = Term.bvc v w ∧ v < 2 ^ w :=
  const_of h c.wa c.ta
theorem constB (c : Rel op g a b p w) {v : Nat} (h : isBvConst b = some v) : b = Term.bvc v w ∧ v < 2 ^ w :=
  const_of h c.wb c.tb
theorem ltA (c : Rel op g a b p w) {I : Interp} (hI : I.WF) : bvVal I a < 2 ^ w := (bvVal_spec c.wa c.ta hI).2
theorem ltB (c : Rel op g a b p w) {I : Interp} (hI : I.WF) : bvVal I b < 2 ^ w := (bvVal_spec c.wb c.tb hI).2

theorem eval (c : Rel op g a b p w) {I : Interp} (hI : I.WF) :
    eval I (.node op [a, b] p) = .b (specRel g w (bvVal I a) (bvVal I b)) := by
  obtain ⟨h1, h2, h3, _⟩ := rel_facts c.isRel.1
  rw [eval_args2 I op a b p h1 h2 h3, c.isRel.2, (bvVal_spec c.wa c.ta hI).1, (bvVal_spec c.wb c.tb hI).1]
  rfl

theorem const (c : Rel op g a b p w) (v : Bool)
    (h : ∀ I : Interp, I.WF → specRel g w (bvVal I a) (bvVal I b) = v) :
    Res (.node op [a, b] p) .bool (Term.bool v) :=
  Res.bool v fun I hI _ => by rw [c.eval hI, h I hI]

theorem rebuild (c : Rel op g a b p w) : Res (.node op [a, b] p) .bool (bvRel op a b) := by
  obtain ⟨h1, h2, h3, hsh⟩ := rel_facts c.isRel.1
  unfold bvRel
  refine Res.rebuild h1 h2 h3 c.hwf ?_ (by rw [hsh]; rfl)
    (fun I => by simp only [List.map_cons, List.map_nil]; rw [c.isRel.2, c.isRel.2])
  rw [typeOf_node]
  simp only [List.map_cons, List.map_nil, c.ta, c.tb]
  exact typeOfNode_bvRel_mk c.isRel.1 _ w

end Rel

theorem walkBvUlt_ok : RuleOK .bvUlt walkBvUlt := by
  refine RuleOK.of_res fun p args τ hwf hty _ => ?_
  obtain ⟨a, b, w, rfl, rfl, c⟩ := rel_ctx isRel_ult hwf hty
  show Res _ _ (walkBvUlt p [a, b])
  unfold walkBvUlt
  simp only
  split
  · next e =>
    subst e
    exact c.const false fun I hI => specRel_self_ult _ _
  · split
    · next rhs h2 =>
      obtain ⟨rfl, hr⟩ := c.constB h2
      split
      · next h0 =>
        subst h0
        exact c.const false fun I hI => by rw [bvVal_bvc, spec_ult (c.ltA hI) hr]; simp
      · split
        · next lhs h1 =>
          obtain ⟨rfl, hl⟩ := c.constA h1
          exact c.const _ fun I hI => by rw [bvVal_bvc, bvVal_bvc, spec_ult hl hr]
        · exact c.rebuild
    · exact c.rebuild

theorem walkBvUle_ok : RuleOK .bvUle walkBvUle := by
  refine RuleOK.of_res fun p args τ hwf hty _ => ?_
  obtain ⟨a, b, w, rfl, rfl, c⟩ := rel_ctx isRel_ule hwf hty
  show Res _ _ (walkBvUle p [a, b])
  unfold walkBvUle
  simp only
  split
  · next e =>
    subst e
    exact c.const true fun I hI => specRel_self_ule _ _
  · split
    · next lhs h1 =>
      obtain ⟨rfl, hl⟩ := c.constA h1
      split
      · next h0 =>
        subst h0
        exact c.const true fun I hI => by rw [bvVal_bvc, spec_ule hl (c.ltB hI)]; simp
      · split
        · next rhs h2 =>
          obtain ⟨rfl, hr⟩ := c.constB h2
          exact c.const _ fun I hI => by rw [bvVal_bvc, bvVal_bvc, spec_ule hl hr]
        · exact c.rebuild
    · exact c.rebuild

theorem walkBvSlt_ok : RuleOK .bvSlt walkBvSlt := by
  refine RuleOK.of_res fun p args τ hwf hty _ => ?_
  obtain ⟨a, b, w, rfl, rfl, c⟩ := rel_ctx isRel_slt hwf hty
  show Res _ _ (walkBvSlt p [a, b])
  unfold walkBvSlt
  simp only
  split
  · next l r h1 h2 =>
    obtain ⟨rfl, hl⟩ := c.constA h1
    obtain ⟨rfl, hr⟩ := c.constB h2
    rw [bvWidth_bvc, bvWidth_bvc]
    exact c.const _ fun I hI => by rw [bvVal_bvc, bvVal_bvc, spec_slt hl hr]
  · split
    · next e =>
      subst e
      exact c.const false fun I hI => specRel_self_slt _ _
    · exact c.rebuild

theorem walkBvSle_ok : RuleOK .bvSle walkBvSle := by
  refine RuleOK.of_res fun p args τ hwf hty _ => ?_
  obtain ⟨a, b, w, rfl, rfl, c⟩ := rel_ctx isRel_sle hwf hty
  show Res _ _ (walkBvSle p [a, b])
  unfold walkBvSle
  simp only
  split
  · next l r h1 h2 =>
    obtain ⟨rfl, hl⟩ := c.constA h1
    obtain ⟨rfl, hr⟩ := c.constB h2
    rw [bvWidth_bvc, bvWidth_bvc]
    exact c.const _ fun I hI => by rw [bvVal_bvc, bvVal_bvc, spec_sle hl hr]
  · split
    · next e =>
      subst e
      exact c.const true fun I hI => specRel_self_sle _ _
    · exact c.rebuild

/-! ## `bvComp` -/

theorem eval_bvComp (I : Interp) (a b : Term) (p : Payload) :
    eval I (.node .bvComp [a, b] p) = Sem.bvComp (eval I a) (eval I b) := by
  rw [eval_args2 I .bvComp a b p (by simp) (by simp) rfl]; rfl

theorem walkBvComp_ok : RuleOK .bvComp walkBvComp := by
  refine RuleOK.of_res fun p args τ hwf hty _ => ?_
  have hs := wf_shape hwf
  simp only [Op.shapeOK, beq_iff_eq] at hs
  match args, hs, hwf, hty with
  | [a, b], _, hwf, hty =>
    have hty0 := hty
    rw [typeOf_node] at hty
    obtain ⟨w, hts, rfl⟩ := typeOfNode_bvComp hty
    simp only [List.map_cons, List.map_nil, List.cons.injEq, and_true] at hts
    obtain ⟨ta, tb⟩ := hts
    have wa := wf_args hwf a (by simp)
    have wb := wf_args hwf b (by simp)
    have hev : ∀ I : Interp, I.WF → eval I (.node .bvComp [a, b] p) =
        .bv 1 (if bvVal I a = bvVal I b then 1 else 0) := by
      intro I hI
      rw [eval_bvComp, (bvVal_spec wa ta hI).1, (bvVal_spec wb tb hI).1]
      simp only [Sem.bvComp, Nat.mod_eq_of_lt (bvVal_spec wa ta hI).2, Nat.mod_eq_of_lt (bvVal_spec wb tb hI).2]
    show Res _ _ (walkBvComp p [a, b])
    unfold walkBvComp
    simp only
    split
    · next e =>
      subst e
      exact Res.bvc (by decide) fun I hI => by rw [hev I hI]; simp
    · next hne =>
      split
      · next hc =>
        simp only [Bool.and_eq_true, Option.isSome_iff_exists] at hc
        obtain ⟨⟨va, h1⟩, ⟨vb, h2⟩⟩ := hc
        obtain ⟨rfl, hl⟩ := const_of h1 wa ta
        obtain ⟨rfl, hr⟩ := const_of h2 wb tb
        have : va ≠ vb := fun e => hne (by rw [e])
        exact Res.bvc (by decide) fun I hI => by rw [hev I hI, bvVal_bvc, bvVal_bvc, if_neg this]
      · unfold bvComp_
        refine Res.rebuild (by simp) (by simp) rfl hwf ?_ rfl (fun I => rfl)
        rw [typeOf_node]
        simp only [List.map_cons, List.map_nil, ta, tb]
        show (if w = w then some (Ty.bv 1) else none) = some (.bv 1)
        rw [if_pos rfl]

end PySMT.Simp.BVRules
