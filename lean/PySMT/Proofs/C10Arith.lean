import PySMT.Core.Eval
import PySMT.Impl.Rewritings.Times
/-!
# C10 — sums and products of values: the algebra behind `TimesDistributor`

`NumK R` presents a semiring by its laws together with its embedding into `Val`
(instances: `Int` through `.i`, `Rat` through `.r`); the lemmas relate the n-ary sum /
product of the reference semantics (`Sem.sum`, `Sem.prod`: folds from the first element) to
right folds, and prove the distribution of a product of sums over the Cartesian product.
-/
namespace PySMT.Rewritings

structure NumK (R : Type) where
  add : R → R → R
  mul : R → R → R
  zero : R
  one : R
  m1 : R
  inj : R → Val
  out : Val → R
  out_inj : ∀ r, out (inj r) = r
  add_assoc : ∀ a b c, add (add a b) c = add a (add b c)
  add_zero : ∀ a, add a zero = a
  zero_add : ∀ a, add zero a = a
  mul_assoc : ∀ a b c, mul (mul a b) c = mul a (mul b c)
  mul_one : ∀ a, mul a one = a
  one_mul : ∀ a, mul one a = a
  mul_zero : ∀ a, mul a zero = zero
  zero_mul : ∀ a, mul zero a = zero
  left_distrib : ∀ a b c, mul a (add b c) = add (mul a b) (mul a c)
  right_distrib : ∀ a b c, mul (add a b) c = add (mul a c) (mul b c)
  sem_add : ∀ a b, Sem.add (inj a) (inj b) = inj (add a b)
  sem_mul : ∀ a b, Sem.mul (inj a) (inj b) = inj (mul a b)
  sem_sub : ∀ a b, Sem.sub (inj a) (inj b) = inj (add a (mul m1 b))

def intK : NumK Int where
  add := (· + ·)
  mul := (· * ·)
  zero := 0
  one := 1
  m1 := -1
  inj := Val.i
  out := Sem.iOf
  out_inj := fun _ => rfl
  add_assoc := Int.add_assoc
  add_zero := Int.add_zero
  zero_add := Int.zero_add
  mul_assoc := Int.mul_assoc
  mul_one := Int.mul_one
  one_mul := Int.one_mul
  mul_zero := Int.mul_zero
  zero_mul := Int.zero_mul
  left_distrib := Int.mul_add
  right_distrib := Int.add_mul
  sem_add := fun _ _ => rfl
  sem_mul := fun _ _ => rfl
  sem_sub := fun a b => by
    show Val.i (a - b) = Val.i (a + -1 * b)
    congr 1; omega

def rOf : Val → Rat | .r v => v | _ => 0

def ratK : NumK Rat where
  add := (· + ·)
  mul := (· * ·)
  zero := 0
  one := 1
  m1 := -1
  inj := Val.r
  out := rOf
  out_inj := fun _ => rfl
  add_assoc := Rat.add_assoc
  add_zero := Rat.add_zero
  zero_add := Rat.zero_add
  mul_assoc := Rat.mul_assoc
  mul_one := Rat.mul_one
  one_mul := Rat.one_mul
  mul_zero := Rat.mul_zero
  zero_mul := Rat.zero_mul
  left_distrib := Rat.mul_add
  right_distrib := Rat.add_mul
  sem_add := fun _ _ => rfl
  sem_mul := fun _ _ => rfl
  sem_sub := fun a b => by
    show Val.r (a - b) = Val.r (a + -1 * b)
    congr 1
    rw [Rat.sub_eq_add_neg, Rat.neg_mul, Rat.one_mul]

namespace NumK
variable {R : Type} (K : NumK R)

def lsum (l : List R) : R := l.foldr K.add K.zero
def lprod (l : List R) : R := l.foldr K.mul K.one

@[simp] theorem lsum_nil : K.lsum [] = K.zero := rfl
@[simp] theorem lsum_cons (a : R) (l : List R) : K.lsum (a :: l) = K.add a (K.lsum l) := rfl
@[simp] theorem lprod_nil : K.lprod [] = K.one := rfl
@[simp] theorem lprod_cons (a : R) (l : List R) : K.lprod (a :: l) = K.mul a (K.lprod l) := rfl

theorem lsum_append (l1 l2 : List R) : K.lsum (l1 ++ l2) = K.add (K.lsum l1) (K.lsum l2) := by
  induction l1 with
  | nil => simp [K.zero_add]
  | cons a l ih => simp [ih, K.add_assoc]

theorem lsum_flatten (ls : List (List R)) : K.lsum ls.flatten = K.lsum (ls.map K.lsum) := by
  induction ls with
  | nil => rfl
  | cons l ls ih => simp [lsum_append, ih]

theorem lsum_map_mul_left (c : R) (l : List R) : K.lsum (l.map (K.mul c)) = K.mul c (K.lsum l) := by
  induction l with
  | nil => simp [K.mul_zero]
  | cons a l ih => simp [ih, K.left_distrib]

theorem lsum_map_mul_right (c : R) (l : List R) :
    K.lsum (l.map (fun x => K.mul x c)) = K.mul (K.lsum l) c := by
  induction l with
  | nil => simp [K.zero_mul]
  | cons a l ih => simp [ih, K.right_distrib]

/-- folding from the first element (as `Sem.sum` does) is the right fold -/
theorem foldl_add (l : List R) (a : R) :
    (l.map K.inj).foldl Sem.add (K.inj a) = K.inj (K.add a (K.lsum l)) := by
  induction l generalizing a with
  | nil => simp [K.add_zero]
  | cons b l ih => simp only [List.map_cons, List.foldl_cons, K.sem_add, ih, lsum_cons, K.add_assoc]

theorem foldl_mul (l : List R) (a : R) :
    (l.map K.inj).foldl Sem.mul (K.inj a) = K.inj (K.mul a (K.lprod l)) := by
  induction l generalizing a with
  | nil => simp [K.mul_one]
  | cons b l ih => simp only [List.map_cons, List.foldl_cons, K.sem_mul, ih, lprod_cons, K.mul_assoc]

theorem sem_sum (l : List R) (h : l ≠ []) : Sem.sum (l.map K.inj) = K.inj (K.lsum l) := by
  match l, h with
  | a :: l, _ => simp only [List.map_cons, Sem.sum, foldl_add, lsum_cons]

theorem sem_prod (l : List R) (h : l ≠ []) : Sem.prod (l.map K.inj) = K.inj (K.lprod l) := by
  match l, h with
  | a :: l, _ => simp only [List.map_cons, Sem.prod, foldl_mul, lprod_cons]

/-- **distribution**: the sum over the Cartesian product of the products is the product of the sums -/
theorem lsum_cartesian : ∀ Ls : List (List R),
    K.lsum ((cartesian Ls).map K.lprod) = K.lprod (Ls.map K.lsum)
  | [] => by simp [cartesian, K.add_zero]
  | L :: Ls => by
    have ih := lsum_cartesian Ls
    simp only [cartesian, List.map_flatMap, List.map_map, List.map_cons, lprod_cons]
    rw [List.flatMap_def, lsum_flatten, List.map_map]
    have : (K.lsum ∘ fun x => List.map (K.lprod ∘ fun q => x :: q) (cartesian Ls)) =
        fun x => K.mul x (K.lprod (Ls.map K.lsum)) := by
      funext x
      simp only [Function.comp]
      rw [← ih, ← lsum_map_mul_left, List.map_map]
      rfl
    rw [this, lsum_map_mul_right]

end NumK

theorem cartesian_map {α β} (f : α → β) : ∀ Ls : List (List α),
    cartesian (Ls.map (List.map f)) = (cartesian Ls).map (List.map f)
  | [] => rfl
  | L :: Ls => by
    simp only [List.map_cons, cartesian, cartesian_map f Ls, List.flatMap_map, List.map_flatMap, List.map_map]
    rfl

theorem cartesian_length {α} : ∀ (Ls : List (List α)) (q : List α), q ∈ cartesian Ls → q.length = Ls.length
  | [], q, h => by simp [cartesian] at h; subst h; rfl
  | L :: Ls, q, h => by
    simp only [cartesian, List.mem_flatMap, List.mem_map] at h
    obtain ⟨x, _, q', hq', rfl⟩ := h
    simp [cartesian_length Ls q' hq']

theorem cartesian_mem {α} : ∀ (Ls : List (List α)) (q : List α), q ∈ cartesian Ls →
    ∀ x ∈ q, ∃ L ∈ Ls, x ∈ L
  | [], q, h, x, hx => by simp [cartesian] at h; subst h; cases hx
  | L :: Ls, q, h, x, hx => by
    simp only [cartesian, List.mem_flatMap, List.mem_map] at h
    obtain ⟨y, hy, q', hq', rfl⟩ := h
    simp only [List.mem_cons] at hx
    rcases hx with rfl | hx
    · exact ⟨L, by simp, hy⟩
    · obtain ⟨L', hL', hx'⟩ := cartesian_mem Ls q' hq' x hx
      exact ⟨L', by simp [hL'], hx'⟩

theorem cartesian_ne_nil {α} : ∀ (Ls : List (List α)), (∀ L ∈ Ls, L ≠ []) → cartesian Ls ≠ []
  | [], _ => by simp [cartesian]
  | L :: Ls, h => by
    have hL : L ≠ [] := h L (by simp)
    have ih := cartesian_ne_nil Ls (fun L' hL' => h L' (by simp [hL']))
    obtain ⟨x, hx⟩ := List.exists_mem_of_ne_nil L hL
    obtain ⟨q, hq⟩ := List.exists_mem_of_ne_nil _ ih
    have : (x :: q) ∈ cartesian (L :: Ls) := by
      simp only [cartesian, List.mem_flatMap, List.mem_map]
      exact ⟨x, hx, q, hq, rfl⟩
    exact List.ne_nil_of_mem this

end PySMT.Rewritings
