import PySMT.Proofs.C04Ctor
/-!
# C04 — `normalize` / `FormulaContextualizer`: the copy is structurally identical, and in the
same manager the rebuild is the identity
-/
namespace PySMT.Manager

/-- `b` (a node of `tgt`) is a faithful copy of `a` (a node of `src`) -/
structure Copy (src tgt : Mgr) (a b : Nid) : Prop where
  spos : 0 < a
  slt : a < src.nextId
  pos : 0 < b
  lt : b < tgt.nextId
  eq : tgt.struct b = src.struct a

theorem Copy.mono {src tgt tgt' : Mgr} (ht : Inv tgt) (ht' : Inv tgt') (he : Ext tgt tgt') {a b : Nid}
    (h : Copy src tgt a b) : Copy src tgt' a b :=
  ⟨h.spos, h.slt, h.pos, Nat.lt_of_lt_of_le h.lt he.next,
   by rw [struct_stable ht ht' he (b + 1) b (by omega) h.pos h.lt, h.eq]⟩

/-- every node created between `tgt` and `tgt'` is the copy of some node of `src` -/
def NewCopies (src tgt tgt' : Mgr) : Prop :=
  ∀ b, tgt.nextId ≤ b → b < tgt'.nextId → ∃ a, 0 < a ∧ a < src.nextId ∧ tgt'.struct b = src.struct a

theorem NewCopies.refl (src tgt : Mgr) : NewCopies src tgt tgt := by
  intro b h1 h2; omega

theorem NewCopies.trans {src t0 t1 t2 : Mgr} (h1i : Inv t1) (h2i : Inv t2) (e12 : Ext t1 t2)
    (h01 : NewCopies src t0 t1) (h12 : NewCopies src t1 t2) (hn : 0 < t0.nextId) : NewCopies src t0 t2 := by
  intro b hb1 hb2
  by_cases h : b < t1.nextId
  · obtain ⟨a, a0, a1, ha⟩ := h01 b hb1 h
    exact ⟨a, a0, a1, by rw [struct_stable h1i h2i e12 (b + 1) b (by omega) (by omega) h, ha]⟩
  · exact h12 b (by omega) hb2

/-- `k` is in the sub-DAG of `i` that the walker visits (children, transitively) -/
inductive InDag (s : Mgr) (i : Nid) : Nid → Prop
  | root : InDag s i i
  | child {j k : Nid} {c : Content} : InDag s i j → (c, j) ∈ s.formulae → k ∈ c.args → InDag s i k

/-- What one `walk_*` callback must achieve for the source node `(c, i)`, given faithful
    copies `g a` of its children.  `same = true` is the rebuild inside the source manager
    itself (the target then extends the source). -/
def RecSpec (src : Mgr) (addr : Nid → Nat) (same : Bool) (c : Content) (i : Nid) : Prop :=
  (c, i) ∈ src.formulae → ∀ (tgt : Mgr) (g : Nid → Nid), Inv tgt → (same = true → Ext src tgt) →
    (∀ a ∈ c.args, Copy src tgt a (g a)) →
    ∀ r tgt', (reconstruct src addr c (c.args.map g)).run tgt = (r, tgt') →
      Inv tgt' ∧ Ext tgt tgt' ∧ NewCopies src tgt tgt' ∧ ∀ j, r = .ok j → Copy src tgt' i j

/-- the memo maps nodes of the source managers (`srcs k`, keyed `(k, node)`) to faithful copies -/
def MemoOK (srcs : Nat → Mgr) (tgt : Mgr) (memo : Memo) : Prop :=
  ∀ k a b, assoc (k, a) memo = some b → Copy (srcs k) tgt a b

theorem MemoOK.mono {srcs : Nat → Mgr} {tgt tgt' : Mgr} (ht : Inv tgt) (ht' : Inv tgt') (he : Ext tgt tgt')
    {memo : Memo} (h : MemoOK srcs tgt memo) : MemoOK srcs tgt' memo :=
  fun k a b hab => (h k a b hab).mono ht ht' he

/-- result of a traversal step of source `k0`: state facts hold whatever the outcome; on
    success the memo only grew, is still faithful and covers what had to be visited -/
structure WalkOK (srcs : Nat → Mgr) (k0 : Nat) (tgt tgt' : Mgr) (memo : Memo) (r : Except Err Memo)
    (covered : List Nid) : Prop where
  inv : Inv tgt'
  ext : Ext tgt tgt'
  new : NewCopies (srcs k0) tgt tgt'
  ok : ∀ memo', r = .ok memo' →
    MemoOK srcs tgt' memo' ∧ (∀ key b, assoc key memo = some b → assoc key memo' = some b) ∧
    (∀ a ∈ covered, (assoc (k0, a) memo').isSome)

theorem foldMemo_spec {srcs : Nat → Mgr} (k0 : Nat) (same : Bool) (f : Nid → Memo → Prog Memo)
    (l : List Nid)
    (hf : ∀ a ∈ l, ∀ (tgt : Mgr) (memo : Memo), Inv tgt → (same = true → Ext (srcs k0) tgt) → MemoOK srcs tgt memo →
      ∀ r tgt', (f a memo).run tgt = (r, tgt') → WalkOK srcs k0 tgt tgt' memo r [a]) :
    ∀ (tgt : Mgr) (memo : Memo), Inv tgt → (same = true → Ext (srcs k0) tgt) → MemoOK srcs tgt memo →
      ∀ r tgt', (foldMemo f l memo).run tgt = (r, tgt') → WalkOK srcs k0 tgt tgt' memo r l := by
  induction l with
  | nil =>
    intro tgt memo ht _ hm r tgt' hrun
    simp only [foldMemo, pure, Prog.run, Prod.mk.injEq] at hrun
    obtain ⟨rfl, rfl⟩ := hrun
    exact ⟨ht, Ext.refl _, NewCopies.refl _ _, fun memo' h => by cases h; exact ⟨hm, fun _ _ h => h, by simp⟩⟩
  | cons a t ih =>
    intro tgt memo ht hsame hm r tgt' hrun
    simp only [foldMemo, bind] at hrun
    rw [Prog.run_bind] at hrun
    cases h1 : (f a memo).run tgt with
    | mk r1 t1 =>
      have w1 := hf a (by simp) tgt memo ht hsame hm r1 t1 h1
      rw [h1] at hrun
      cases r1 with
      | error e =>
        simp only [Prod.mk.injEq] at hrun
        obtain ⟨rfl, rfl⟩ := hrun
        exact ⟨w1.inv, w1.ext, w1.new, by simp⟩
      | ok m1 =>
        simp only at hrun
        obtain ⟨hm1, hsub1, hcov1⟩ := w1.ok m1 rfl
        have w2 := ih (fun x hx => hf x (List.mem_cons_of_mem _ hx)) t1 m1 w1.inv
          (fun h => (hsame h).trans w1.ext) hm1 r tgt' hrun
        have hpos : 0 < tgt.nextId := Nat.zero_lt_of_lt (ht.range _ _ ht.tt).2
        refine ⟨w2.inv, w1.ext.trans w2.ext, NewCopies.trans w1.inv w2.inv w2.ext w1.new w2.new hpos, ?_⟩
        intro memo' hr
        obtain ⟨hm2, hsub2, hcov2⟩ := w2.ok memo' hr
        refine ⟨hm2, fun x y h => hsub2 x y (hsub1 x y h), ?_⟩
        intro x hx
        rcases List.mem_cons.mp hx with rfl | hx
        · have := hcov1 x (by simp)
          obtain ⟨y, hy⟩ := Option.isSome_iff_exists.mp this
          rw [hsub2 _ y hy]; rfl
        · exact hcov2 x hx

/-- **The traversal returns faithful copies** provided every callback does (`RecSpec`) — for
    any faithful memo it starts from, whichever sources filled it. -/
theorem normAux_spec {srcs : Nat → Mgr} (k0 : Nat) (hsrc : Inv (srcs k0)) (addr : Nid → Nat) (same : Bool)
    (root : Nid)
    (hrec : ∀ c k, (c, k) ∈ (srcs k0).formulae → InDag (srcs k0) root k → RecSpec (srcs k0) addr same c k) :
    ∀ (fuel : Nat) (i : Nid), i < fuel → 0 < i → i < (srcs k0).nextId → InDag (srcs k0) root i →
      ∀ (tgt : Mgr) (memo : Memo), Inv tgt → (same = true → Ext (srcs k0) tgt) → MemoOK srcs tgt memo →
        ∀ r tgt', (normAux (srcs k0) k0 addr fuel i memo).run tgt = (r, tgt') →
          WalkOK srcs k0 tgt tgt' memo r [i] := by
  intro fuel
  induction fuel with
  | zero => intro i h; omega
  | succ fuel ih =>
    intro i hfuel i0 i1 hb tgt memo ht hsame hm r tgt' hrun
    simp only [normAux] at hrun
    split at hrun
    next b hb' =>
      simp only [pure, Prog.run, Prod.mk.injEq] at hrun
      obtain ⟨rfl, rfl⟩ := hrun
      exact ⟨ht, Ext.refl _, NewCopies.refl _ _, fun memo' h => by
        cases h; exact ⟨hm, fun _ _ h => h, by simp [hb']⟩⟩
    next hnone =>
      obtain ⟨c, hc⟩ := hsrc.full i i0 i1
      rw [content?_of_mem hsrc hc] at hrun
      simp only [bind] at hrun
      rw [Prog.run_bind] at hrun
      -- children
      have hkids : ∀ a ∈ c.args.reverse, ∀ (tgt : Mgr) (memo : Memo), Inv tgt →
          (same = true → Ext (srcs k0) tgt) → MemoOK srcs tgt memo →
          ∀ r tgt', (normAux (srcs k0) k0 addr fuel a memo).run tgt = (r, tgt') →
            WalkOK srcs k0 tgt tgt' memo r [a] := by
        intro a ha
        have ha' : a ∈ c.ids := by simp [Content.ids]; left; simpa using ha
        have hcl := hsrc.closed c i hc a ha'
        exact ih a (by omega) hcl.1 (by omega) (InDag.child hb hc (by simpa using ha))
      cases h1 : (foldMemo (normAux (srcs k0) k0 addr fuel) c.args.reverse memo).run tgt with
      | mk r1 t1 =>
        have w1 := foldMemo_spec k0 same (normAux (srcs k0) k0 addr fuel) c.args.reverse hkids tgt memo ht hsame hm
          r1 t1 h1
        rw [h1] at hrun
        cases r1 with
        | error e =>
          simp only [Prod.mk.injEq] at hrun
          obtain ⟨rfl, rfl⟩ := hrun
          exact ⟨w1.inv, w1.ext, w1.new, by simp⟩
        | ok m1 =>
          simp only at hrun
          obtain ⟨hm1, hsub1, hcov1⟩ := w1.ok m1 rfl
          rw [Prog.run_bind] at hrun
          cases h2 : (reconstruct (srcs k0) addr c (c.args.map fun a => (assoc (k0, a) m1).getD 0)).run t1 with
          | mk r2 t2 =>
            have hcopies : ∀ a ∈ c.args, Copy (srcs k0) t1 a ((assoc (k0, a) m1).getD 0) := by
              intro a ha
              have := hcov1 a (by simpa using ha)
              obtain ⟨y, hy⟩ := Option.isSome_iff_exists.mp this
              rw [hy]; exact hm1 k0 a y hy
            have w2 := hrec c i hc hb hc t1 _ w1.inv (fun h => (hsame h).trans w1.ext) hcopies r2 t2 h2
            obtain ⟨hi2, he2, hn2, hcp2⟩ := w2
            rw [h2] at hrun
            have hpos : 0 < tgt.nextId := Nat.zero_lt_of_lt (ht.range _ _ ht.tt).2
            cases r2 with
            | error e =>
              simp only [Prod.mk.injEq] at hrun
              obtain ⟨rfl, rfl⟩ := hrun
              exact ⟨hi2, w1.ext.trans he2, NewCopies.trans w1.inv hi2 he2 w1.new hn2 hpos, by simp⟩
            | ok j =>
              simp only [pure, Prog.run, Prod.mk.injEq] at hrun
              obtain ⟨rfl, rfl⟩ := hrun
              refine ⟨hi2, w1.ext.trans he2, NewCopies.trans w1.inv hi2 he2 w1.new hn2 hpos, ?_⟩
              intro memo' hm'
              cases hm'
              refine ⟨?_, ?_, ?_⟩
              · intro k a b hab
                simp only [assoc] at hab
                split at hab
                next heq =>
                  cases hab
                  simp only [Prod.mk.injEq] at heq
                  obtain ⟨rfl, rfl⟩ := heq
                  exact hcp2 j rfl
                next => exact (hm1 k a b hab).mono w1.inv hi2 he2
              · intro key b hab
                simp only [assoc]
                split
                next heq => rw [heq, hnone] at hab; cases hab
                next => exact hsub1 key b hab
              · intro a ha
                simp only [List.mem_singleton] at ha
                subst ha
                simp [assoc]

/-- `normalize` with a persistent memo returns a faithful copy and creates nothing but copies,
    and hands back a faithful memo — if every callback on the nodes up to `i` meets its
    specification. -/
theorem normalizeM_spec {srcs : Nat → Mgr} (k0 : Nat) (hsrc : Inv (srcs k0)) (addr : Nid → Nat) (same : Bool)
    {i : Nid} (i0 : 0 < i) (i1 : i < (srcs k0).nextId)
    (hrec : ∀ c k, (c, k) ∈ (srcs k0).formulae → InDag (srcs k0) i k → RecSpec (srcs k0) addr same c k)
    {tgt : Mgr} (ht : Inv tgt) (hsame : same = true → Ext (srcs k0) tgt) {memo : Memo}
    (hm : MemoOK srcs tgt memo) {r : Except Err (Memo × Nid)} {tgt' : Mgr}
    (hrun : (normalizeM (srcs k0) k0 addr i memo).run tgt = (r, tgt')) :
    Inv tgt' ∧ Ext tgt tgt' ∧ NewCopies (srcs k0) tgt tgt' ∧
      ∀ memo' j, r = .ok (memo', j) → Copy (srcs k0) tgt' i j ∧ MemoOK srcs tgt' memo' := by
  simp only [normalizeM, bind] at hrun
  rw [Prog.run_bind] at hrun
  cases h1 : (normAux (srcs k0) k0 addr (i + 1) i memo).run tgt with
  | mk r1 t1 =>
    have w := normAux_spec k0 hsrc addr same i hrec (i + 1) i (by omega) i0 i1 InDag.root tgt memo ht hsame
      hm r1 t1 h1
    rw [h1] at hrun
    cases r1 with
    | error e =>
      simp only [Prod.mk.injEq] at hrun
      obtain ⟨rfl, rfl⟩ := hrun
      exact ⟨w.inv, w.ext, w.new, by simp⟩
    | ok m =>
      simp only at hrun
      obtain ⟨hm', _, hcov⟩ := w.ok m rfl
      split at hrun
      next b hb =>
        simp only [pure, Prog.run, Prod.mk.injEq] at hrun
        obtain ⟨rfl, rfl⟩ := hrun
        exact ⟨w.inv, w.ext, w.new, fun memo' j hj => by cases hj; exact ⟨hm' k0 i b hb, hm'⟩⟩
      next hnone =>
        simp only [failP, Prog.run, Prod.mk.injEq] at hrun
        obtain ⟨rfl, rfl⟩ := hrun
        exact ⟨w.inv, w.ext, w.new, by simp⟩

end PySMT.Manager
