import PySMT.Proofs.C11Cnf
import PySMT.Impl.Rewritings.PolCNF
/-!
# C11 — the polarity encoding `PolCNF.encP`

* `encP_lit`, `encP_sub` : same literal as `CNF.enc`, a subset of its clauses — completeness is inherited.
* `encP_sound` : under any interpretation satisfying the clauses of polarity `pol`,
  `literal → formula` (`pol = true`) resp. `formula → literal` (`pol = false`).
-/
namespace PySMT.PolCNF
open PySMT.CNF

/-! ## equations of `enc` / `encP` per shape -/

section equations
variable (E : Env)

theorem enc_and_one (a : Term) (p : Payload) : enc E (.node .and [a] p) = enc E a := by
  rw [enc.eq_def]
theorem enc_or_one (a : Term) (p : Payload) : enc E (.node .or [a] p) = enc E a := by
  rw [enc.eq_def]

theorem enc_and_many (args : List Term) (p : Payload) (h : ∀ a, args = [a] → False) :
    enc E (.node .and args p) =
      (Term.sym (E.key (.node .and args p)),
        ((Term.sym (E.key (.node .and args p)) :: (args.map (enc E)).map (fun r => negLit E r.1)) ::
          (args.map (enc E)).map (fun r => [r.1, Term.mkNot (Term.sym (E.key (.node .and args p)))]))
            ++ ((args.map (enc E)).map (·.2)).flatten) := by
  rw [enc.eq_def]; simp only

theorem enc_or_many (args : List Term) (p : Payload) (h : ∀ a, args = [a] → False) :
    enc E (.node .or args p) =
      (Term.sym (E.key (.node .or args p)),
        ((Term.mkNot (Term.sym (E.key (.node .or args p))) :: (args.map (enc E)).map (·.1)) ::
          (args.map (enc E)).map (fun r => [Term.sym (E.key (.node .or args p)), negLit E r.1]))
            ++ ((args.map (enc E)).map (·.2)).flatten) := by
  rw [enc.eq_def]; simp only

theorem enc_not (a : Term) (p : Payload) :
    enc E (.node .not [a] p) =
      (if isTrueC (enc E a).1 then (Term.ff, [])
       else if isFalseC (enc E a).1 then (Term.tt, [])
       else (negLit E (enc E a).1, (enc E a).2)) := by
  rw [enc.eq_def]

theorem enc_implies (a b : Term) (p : Payload) :
    enc E (.node .implies [a, b] p) =
      (Term.sym (E.key (.node .implies [a, b] p)),
        [[negLit E (enc E a).1, (enc E b).1, Term.mkNot (Term.sym (E.key (.node .implies [a, b] p)))],
         [(enc E a).1, Term.sym (E.key (.node .implies [a, b] p))],
         [negLit E (enc E b).1, Term.sym (E.key (.node .implies [a, b] p))]] ++ (enc E a).2 ++ (enc E b).2) := by
  rw [enc.eq_def]

theorem enc_iff (a b : Term) (p : Payload) :
    enc E (.node .iff [a, b] p) =
      (Term.sym (E.key (.node .iff [a, b] p)),
        [[negLit E (enc E a).1, negLit E (enc E b).1, Term.sym (E.key (.node .iff [a, b] p))],
         [negLit E (enc E a).1, (enc E b).1, Term.mkNot (Term.sym (E.key (.node .iff [a, b] p)))],
         [(enc E a).1, negLit E (enc E b).1, Term.mkNot (Term.sym (E.key (.node .iff [a, b] p)))],
         [(enc E a).1, (enc E b).1, Term.sym (E.key (.node .iff [a, b] p))]] ++ (enc E a).2 ++ (enc E b).2) := by
  rw [enc.eq_def]

theorem enc_ite (i th el : Term) (p : Payload) :
    enc E (.node .ite [i, th, el] p) =
      (if ph (.node .ite [i, th, el] p) then (.node .ite [i, th, el] p, [])
       else
        (Term.sym (E.key (.node .ite [i, th, el] p)),
          [[negLit E (enc E i).1, negLit E (enc E th).1, Term.sym (E.key (.node .ite [i, th, el] p))],
           [negLit E (enc E i).1, (enc E th).1, Term.mkNot (Term.sym (E.key (.node .ite [i, th, el] p)))],
           [(enc E i).1, negLit E (enc E el).1, Term.sym (E.key (.node .ite [i, th, el] p))],
           [(enc E i).1, (enc E el).1, Term.mkNot (Term.sym (E.key (.node .ite [i, th, el] p)))]]
            ++ (enc E i).2 ++ (enc E th).2 ++ (enc E el).2)) := by
  rw [enc.eq_def]

theorem enc_default (op : Op) (args : List Term) (p : Payload)
    (h1 : op = .and → False) (h2 : op = .or → False)
    (h5 : ∀ a, op = .not → args = [a] → False) (h6 : ∀ a b, op = .implies → args = [a, b] → False)
    (h7 : ∀ a b, op = .iff → args = [a, b] → False) (h8 : ∀ a b c, op = .ite → args = [a, b, c] → False) :
    enc E (.node op args p) = (.node op args p, []) := by
  rw [enc.eq_def]; simp only
  split <;> simp_all

end equations

/-! ## same literal, fewer clauses -/

theorem encP_lit (E : Env) : (g : Term) → ∀ pol, (encP E g pol).1 = (enc E g).1
  | .node op args p => by
    intro pol
    have ih : ∀ a ∈ args, ∀ pol, (encP E a pol).1 = (enc E a).1 := fun a _ => encP_lit E a
    revert ih
    rw [encP.eq_def]; simp only
    split <;> intro ih
    · rw [enc_and_one]; exact ih _ (by simp) pol
    · next h => rw [enc_and_many E _ _ h]
    · rw [enc_or_one]; exact ih _ (by simp) pol
    · next h => rw [enc_or_many E _ _ h]
    · next a =>
      rw [enc_not, ih a (by simp)]
      split
      · rfl
      · split <;> rfl
    · rw [enc_implies]
    · rw [enc_iff]
    · rw [enc_ite]
      split <;> rfl
    · next h1 h2 _ _ h5 h6 h7 h8 => rw [enc_default E _ _ _ h1 h2 h5 h6 h7 h8]

theorem mem_flatten_map_of {α} {f g : α → List Clause} {l : List α} {c : Clause}
    (h : ∀ a ∈ l, ∀ c ∈ f a, c ∈ g a) (hc : c ∈ (l.map f).flatten) : c ∈ (l.map g).flatten := by
  simp only [List.mem_flatten, List.mem_map] at hc ⊢
  obtain ⟨cs, ⟨a, ha, rfl⟩, hcc⟩ := hc
  exact ⟨g a, ⟨a, ha, rfl⟩, h a ha c hcc⟩

theorem encP_sub (E : Env) : (g : Term) → ∀ pol, ∀ c ∈ (encP E g pol).2, c ∈ (enc E g).2
  | .node op args p => by
    intro pol
    have ih : ∀ a ∈ args, ∀ pol, ∀ c ∈ (encP E a pol).2, c ∈ (enc E a).2 := fun a _ => encP_sub E a
    have hl : ∀ a : Term, ∀ pol, (encP E a pol).1 = (enc E a).1 := fun a => encP_lit E a
    revert ih
    rw [encP.eq_def]; simp only
    split <;> intro ih
    · rw [enc_and_one]; exact ih _ (by simp) pol
    · next h =>
      rw [enc_and_many E _ _ h]
      simp only [List.map_map, Function.comp_def, hl]
      intro c hc
      rcases List.mem_append.mp hc with hc | hc
      · split at hc
        · exact List.mem_append_left _ (List.mem_cons_of_mem _ hc)
        · simp only [List.mem_cons, List.mem_nil_iff, or_false] at hc
          subst hc
          exact List.mem_append_left _ List.mem_cons_self
      · exact List.mem_append_right _ (mem_flatten_map_of (fun a ha c hc => ih a ha pol c hc) hc)
    · rw [enc_or_one]; exact ih _ (by simp) pol
    · next h =>
      rw [enc_or_many E _ _ h]
      simp only [List.map_map, Function.comp_def, hl]
      intro c hc
      rcases List.mem_append.mp hc with hc | hc
      · split at hc
        · simp only [List.mem_cons, List.mem_nil_iff, or_false] at hc
          subst hc
          exact List.mem_append_left _ List.mem_cons_self
        · exact List.mem_append_left _ (List.mem_cons_of_mem _ hc)
      · exact List.mem_append_right _ (mem_flatten_map_of (fun a ha c hc => ih a ha pol c hc) hc)
    · next a =>
      rw [enc_not, hl]
      split
      · simp
      · split
        · simp
        · exact ih a (by simp) _
    · next a b =>
      rw [enc_implies]
      simp only [hl]
      intro c hc
      simp only [List.append_assoc, List.mem_append] at hc ⊢
      rcases hc with hc | hc | hc
      · left
        split at hc <;> simp only [List.mem_cons, List.mem_nil_iff, or_false] at hc ⊢
        · exact Or.inl hc
        · rcases hc with rfl | rfl
          · exact Or.inr (Or.inl rfl)
          · exact Or.inr (Or.inr rfl)
      · exact Or.inr (Or.inl (ih a (by simp) _ c hc))
      · exact Or.inr (Or.inr (ih b (by simp) _ c hc))
    · next a b =>
      rw [enc_iff]
      simp only [hl]
      intro c hc
      simp only [List.append_assoc, List.mem_append] at hc ⊢
      rcases hc with hc | hc | hc | hc | hc
      · exact Or.inl hc
      · exact Or.inr (Or.inl (ih a (by simp) _ c hc))
      · exact Or.inr (Or.inl (ih a (by simp) _ c hc))
      · exact Or.inr (Or.inr (ih b (by simp) _ c hc))
      · exact Or.inr (Or.inr (ih b (by simp) _ c hc))
    · next i th el =>
      rw [enc_ite]
      split
      · simp
      · simp only [hl]
        intro c hc
        simp only [List.append_assoc, List.mem_append] at hc ⊢
        rcases hc with hc | hc | hc | hc | hc
        · left
          split at hc <;> simp only [List.mem_cons, List.mem_nil_iff, or_false] at hc ⊢
          · rcases hc with rfl | rfl
            · exact Or.inr (Or.inl rfl)
            · exact Or.inr (Or.inr (Or.inr rfl))
          · rcases hc with rfl | rfl
            · exact Or.inl rfl
            · exact Or.inr (Or.inr (Or.inl rfl))
        · exact Or.inr (Or.inl (ih i (by simp) _ c hc))
        · exact Or.inr (Or.inl (ih i (by simp) _ c hc))
        · exact Or.inr (Or.inr (Or.inl (ih th (by simp) _ c hc)))
        · exact Or.inr (Or.inr (Or.inr (ih el (by simp) _ c hc)))
    · simp

/-! ## soundness -/

/-- `pol = true`: literal → formula; `pol = false`: formula → literal -/
def Rel (pol : Bool) (l g : Bool) : Prop := if pol then (l = true → g = true) else (g = true → l = true)

theorem Rel.refl (pol : Bool) (x : Bool) : Rel pol x x := by cases pol <;> simp [Rel]

theorem Rel.not {pol : Bool} {l g : Bool} (h : Rel (!pol) l g) : Rel pol (!l) (!g) := by
  cases pol <;> cases l <;> cases g <;> simp_all [Rel]

theorem Rel.both {l g : Bool} (h1 : Rel true l g) (h2 : Rel false l g) : l = g := by
  cases l <;> cases g <;> simp_all [Rel]

theorem rel_both_of {pol : Bool} {l g : Bool} (h1 : Rel pol l g) (h2 : Rel (!pol) l g) : l = g := by
  cases pol
  · exact Rel.both h2 h1
  · exact Rel.both h1 h2

theorem encP_const_clauses (E : Env) (hs : SimpSym E.simp) (g : Term) (pol : Bool)
    (h : isTrueC (encP E g pol).1 = true ∨ isFalseC (encP E g pol).1 = true) : (encP E g pol).2 = [] := by
  rw [encP_lit] at h
  have := enc_const_clauses E hs g h
  cases hc : (encP E g pol).2 with
  | nil => rfl
  | cons c cs =>
    have := encP_sub E g pol c (by rw [hc]; exact List.mem_cons_self)
    simp_all

theorem encP_sound (E : Env) (hs : SimpSym E.simp) (J : Interp) (hσ : SimpSoundAt E.simp J) :
    (g : Term) → ∀ pol, holdsAll J (encP E g pol).2 → Rel pol (tv J (encP E g pol).1) (tv J g)
  | .node op args p => by
    intro pol
    have ih : ∀ a ∈ args, ∀ pol, holdsAll J (encP E a pol).2 → Rel pol (tv J (encP E a pol).1) (tv J a) :=
      fun a _ => encP_sound E hs J hσ a
    have hcc : ∀ a : Term, ∀ pol, isTrueC (encP E a pol).1 = true ∨ isFalseC (encP E a pol).1 = true →
        (encP E a pol).2 = [] := fun a pol => encP_const_clauses E hs a pol
    revert ih
    rw [encP.eq_def]; simp only
    split <;> intro ih
    · next a =>
      intro h
      have := ih a (by simp) pol h
      rwa [tv_and, List.all_cons, List.all_nil, Bool.and_true]
    · -- n-ary and
      intro h
      simp only [List.map_map, Function.comp_def] at h
      obtain ⟨h0, h2⟩ := holdsAll_append.mp h
      have ih' : ∀ a ∈ args, Rel pol (tv J (encP E a pol).1) (tv J a) := fun a ha =>
        ih a ha pol (holdsAll_flatten.mp h2 _ (List.mem_map.mpr ⟨a, ha, rfl⟩))
      rw [tv_and]
      cases pol
      · simp only [Bool.false_eq_true, if_false] at h0
        have h0' := (holds_and_main hσ (Term.sym (E.key (.node .and args p)))
          (args.map (fun a => (encP E a false).1))).mp
          (by simpa only [List.map_map, Function.comp_def] using h0 _ List.mem_cons_self)
        simp only [Rel, Bool.false_eq_true, if_false]
        intro hall
        apply h0'
        rw [List.all_map, List.all_eq_true]
        intro a ha
        exact (ih' a ha) (List.all_eq_true.mp hall a ha)
      · simp only [if_true] at h0
        have h1' := (holds_and_side (I := J) (Term.sym (E.key (.node .and args p)))
          (args.map (fun a => (encP E a true).1))).mp (by
            intro l hl
            obtain ⟨a, ha, rfl⟩ := List.mem_map.mp hl
            exact (holdsAll_map_iff _ _).mp h0 a ha)
        simp only [Rel, if_true]
        intro hk
        have := h1' hk
        rw [List.all_map, List.all_eq_true] at this
        rw [List.all_eq_true]
        intro a ha
        exact (ih' a ha) (this a ha)
    · next a =>
      intro h
      have := ih a (by simp) pol h
      rwa [tv_or, List.any_cons, List.any_nil, Bool.or_false]
    · -- n-ary or
      intro h
      simp only [List.map_map, Function.comp_def] at h
      obtain ⟨h0, h2⟩ := holdsAll_append.mp h
      have ih' : ∀ a ∈ args, Rel pol (tv J (encP E a pol).1) (tv J a) := fun a ha =>
        ih a ha pol (holdsAll_flatten.mp h2 _ (List.mem_map.mpr ⟨a, ha, rfl⟩))
      rw [tv_or]
      cases pol
      · simp only [Bool.false_eq_true, if_false] at h0
        have h1' := (holds_or_side hσ (Term.sym (E.key (.node .or args p)))
          (args.map (fun a => (encP E a false).1))).mp (by
            intro l hl
            obtain ⟨a, ha, rfl⟩ := List.mem_map.mp hl
            exact (holdsAll_map_iff _ _).mp h0 a ha)
        simp only [Rel, Bool.false_eq_true, if_false]
        intro hany
        apply h1'
        obtain ⟨a, ha, hv⟩ := List.any_eq_true.mp hany
        rw [List.any_map]
        exact List.any_eq_true.mpr ⟨a, ha, (ih' a ha) hv⟩
      · simp only [if_true] at h0
        have h0' := (holds_or_main (I := J) (Term.sym (E.key (.node .or args p)))
          (args.map (fun a => (encP E a true).1))).mp (h0 _ List.mem_cons_self)
        simp only [Rel, if_true]
        intro hk
        have := h0' hk
        rw [List.any_map] at this
        obtain ⟨a, ha, hv⟩ := List.any_eq_true.mp this
        exact List.any_eq_true.mpr ⟨a, ha, (ih' a ha) hv⟩
    · next a =>
      split
      · next hc =>
        intro _
        have := ih a (by simp) (!pol) (by rw [hcc a _ (Or.inl hc)]; exact holdsAll_nil)
        rw [tv_of_isTrueC hc] at this
        have := Rel.not this
        simpa [tv_not] using this
      · split
        · next hc =>
          intro _
          have := ih a (by simp) (!pol) (by rw [hcc a _ (Or.inr hc)]; exact holdsAll_nil)
          rw [tv_of_isFalseC hc] at this
          have := Rel.not this
          simpa [tv_not] using this
        · intro h
          rw [tv_negLit hσ, tv_not]
          exact Rel.not (ih a (by simp) (!pol) h)
    · next a b =>
      intro h
      simp only [holdsAll_append] at h
      obtain ⟨⟨h0, ha⟩, hb⟩ := h
      have iha := ih a (by simp) _ ha
      have ihb := ih b (by simp) _ hb
      rw [tv_implies]
      cases pol
      · simp only [Bool.false_eq_true, if_false] at h0
        have c1 := h0 _ List.mem_cons_self
        have c2 := h0 _ (List.mem_cons_of_mem _ List.mem_cons_self)
        simp only [holds, List.any_cons, List.any_nil, tv_negLit hσ] at c1 c2
        revert iha ihb c1 c2
        simp only [Rel, Bool.not_false, Bool.false_eq_true, if_false, if_true]
        cases tv J (Term.sym (E.key (Term.node Op.implies [a, b] p))) <;> cases tv J a <;> cases tv J b <;>
          cases tv J (encP E a true).1 <;> cases tv J (encP E b false).1 <;> simp
      · simp only [if_true] at h0
        have c1 := h0 _ List.mem_cons_self
        simp only [holds, List.any_cons, List.any_nil, tv_negLit hσ, tv_mkNot] at c1
        revert iha ihb c1
        simp only [Rel, Bool.not_true, Bool.false_eq_true, if_false, if_true]
        cases tv J (Term.sym (E.key (Term.node Op.implies [a, b] p))) <;> cases tv J a <;> cases tv J b <;>
          cases tv J (encP E a false).1 <;> cases tv J (encP E b true).1 <;> simp
    · next a b =>
      intro h
      simp only [holdsAll_append] at h
      obtain ⟨⟨⟨⟨h0, hap⟩, han⟩, hbp⟩, hbn⟩ := h
      have ea : tv J (encP E a pol).1 = tv J a := by
        have h1 := ih a (by simp) pol hap
        have h2 := ih a (by simp) (!pol) han
        rw [encP_lit E a (!pol), ← encP_lit E a pol] at h2
        exact rel_both_of h1 h2
      have eb : tv J (encP E b pol).1 = tv J b := by
        have h1 := ih b (by simp) pol hbp
        have h2 := ih b (by simp) (!pol) hbn
        rw [encP_lit E b (!pol), ← encP_lit E b pol] at h2
        exact rel_both_of h1 h2
      have c1 := h0 _ List.mem_cons_self
      have c2 := h0 _ (List.mem_cons_of_mem _ List.mem_cons_self)
      have c3 := h0 _ (List.mem_cons_of_mem _ (List.mem_cons_of_mem _ List.mem_cons_self))
      have c4 := h0 _ (List.mem_cons_of_mem _ (List.mem_cons_of_mem _ (List.mem_cons_of_mem _ List.mem_cons_self)))
      simp only [holds, List.any_cons, List.any_nil, tv_negLit hσ, tv_mkNot, ea, eb] at c1 c2 c3 c4
      rw [tv_iff_node]
      have : tv J (Term.sym (E.key (Term.node Op.iff [a, b] p))) = (tv J a == tv J b) := by
        revert c1 c2 c3 c4
        cases tv J (Term.sym (E.key (Term.node Op.iff [a, b] p))) <;> cases tv J a <;> cases tv J b <;> simp
      rw [this]
      exact Rel.refl _ _
    · next i th el =>
      split
      · intro _; exact Rel.refl _ _
      · intro h
        simp only [holdsAll_append] at h
        obtain ⟨⟨⟨⟨h0, hip⟩, hin⟩, ht⟩, he⟩ := h
        have ei : tv J (encP E i pol).1 = tv J i := by
          have h1 := ih i (by simp) pol hip
          have h2 := ih i (by simp) (!pol) hin
          rw [encP_lit E i (!pol), ← encP_lit E i pol] at h2
          exact rel_both_of h1 h2
        have iht := ih th (by simp) _ ht
        have ihe := ih el (by simp) _ he
        rw [tv_ite]
        cases pol
        · simp only [Bool.false_eq_true, if_false] at h0
          have c1 := h0 _ List.mem_cons_self
          have c2 := h0 _ (List.mem_cons_of_mem _ List.mem_cons_self)
          simp only [holds, List.any_cons, List.any_nil, tv_negLit hσ, ei] at c1 c2
          revert iht ihe c1 c2
          simp only [Rel, Bool.false_eq_true, if_false]
          cases tv J (Term.sym (E.key (Term.node Op.ite [i, th, el] p))) <;> cases tv J i <;> cases tv J th <;>
            cases tv J el <;> cases tv J (encP E th false).1 <;> cases tv J (encP E el false).1 <;> simp
        · simp only [if_true] at h0
          have c1 := h0 _ List.mem_cons_self
          have c2 := h0 _ (List.mem_cons_of_mem _ List.mem_cons_self)
          simp only [holds, List.any_cons, List.any_nil, tv_negLit hσ, tv_mkNot, ei] at c1 c2
          revert iht ihe c1 c2
          simp only [Rel, if_true]
          cases tv J (Term.sym (E.key (Term.node Op.ite [i, th, el] p))) <;> cases tv J i <;> cases tv J th <;>
            cases tv J el <;> cases tv J (encP E th true).1 <;> cases tv J (encP E el true).1 <;> simp
    · intro _; exact Rel.refl _ _

/-! ## the two directions for `PolCNF.convert` -/

theorem convert_complete (E : Env) (u : Sym → Option Term) (I : Interp) (t : Term) (R : List Clause)
    (hk : ∀ h ∈ boolNodes t, wantsKey h = true → u (E.key h) = some h) (hf : ∀ s ∈ t.fv, u s = none)
    (hσ : SimpSound E.simp t I) (hR : convert E t = some R) (hI : tv I t = true) :
    holdsAll (ext u I) R := by
  unfold convert at hR
  split at hR
  · cases hR
  · cases hR
    have hσ' := hσ _ (ext_sameOn I t hf)
    have := enc_complete E u I hσ' t hk hf
    refine finish_complete E _ _ _ hσ' (holdsAll_mono (encP_sub E t true) this.2) ?_
    rw [encP_lit, this.1, hI]

theorem convert_sound (E : Env) (hs : SimpSym E.simp) (t : Term) (J : Interp) (R : List Clause)
    (hfresh : ∀ h ∈ boolNodes t, wantsKey h = true → E.key h ∉ t.fv) (hσ : SimpSound E.simp t J)
    (hR : convert E t = some R) (h : holdsAll J R) : tv J t = true := by
  unfold convert at hR
  split at hR
  · cases hR
  · cases hR
    by_cases hcs : (encP E t true).2 = []
    · rw [hcs] at h
      have h1 : tv J (encP E t true).1 = true := by
        have := h [(encP E t true).1] (by simp [finish])
        simpa [holds] using this
      have := encP_sound E hs J hσ.self t true (by rw [hcs]; exact holdsAll_nil)
      exact this h1
    · rcases enc_form E hs t with h0 | ⟨g, hg, hwk, hform⟩
      · exfalso
        apply hcs
        cases hc : (encP E t true).2 with
        | nil => rfl
        | cons c cs =>
          have := encP_sub E t true c (by rw [hc]; exact List.mem_cons_self)
          rw [h0] at this; cases this
      · have hk := hfresh g hg hwk
        rw [← encP_lit E t true] at hform
        obtain ⟨v, hsame, hall, htl⟩ := finish_sound_key E hs t J _ _ (E.key g) hk hform
          (fun v => allLits_mono (encP_sub E t true)
            (enc_stable E hs J (E.key g) v hσ.self (hσ _ (SameOn.bind t J _ v hk)) t hk).2) hcs h
        rw [hsame.tv]
        exact encP_sound E hs _ (hσ _ hsame) t true hall htl
end PySMT.PolCNF
