import PySMT.Proofs.C08AgreeMain
/-!
# C08/C09: the standard reader only produces terms pySMT's checker accepts (1) — definitions, Core theory, arithmetic

`WT t τ`: `t` is well-formed (`Term.wf`: every node has the shape a `FormulaManager` constructor gives it and is accepted
by `SimpleTypeChecker`) and the checker gives it the sort `τ`. This file: the helpers and the theory symbols
`not and or => xor = distinct ite + * - / <= < >= > to_real`, one lemma per family, on the arities of the fragment.
-/
namespace PySMT.Parser.Agree
open PySMT PySMT.Parser PySMT.Std PySMT.Sexp

/-- well-formed, of sort `τ` -/
def WT (t : Term) (τ : Ty) : Prop := t.wf = true ∧ t.typeOf = some τ

/-- every entry of the standard's scope is well-formed: binder variables are constants, let-bound terms have their sort -/
def ScopeWF : List Binding → Prop
  | [] => True
  | .var s :: rest => s.params = [] ∧ ScopeWF rest
  | .letb _ t ty :: rest => WT t ty ∧ ScopeWF rest

theorem WT_of_TOK {t : Term} {τ : Ty} (h : TOK t τ) : WT t τ := ⟨h.wf, h.ty⟩

/-! ## helpers -/

theorem wt_node {op : Op} {args : List Term} {p : Payload} {τ : Ty}
    (hargs : ∀ a ∈ args, a.wf = true) (hsh : op.shapeOK p args.length = true)
    (hty : typeOfNode op p (args.map Term.typeOf) = some τ) : WT (.node op args p) τ :=
  ⟨Term.wf_node.mpr ⟨hargs, hsh, by rw [hty]; rfl⟩, by rw [typeOf_node, hty]⟩

theorem fst_typeOf {as : List TT} (h : ∀ a ∈ as, WT a.1 a.2) :
    (as.map (·.1)).map Term.typeOf = (as.map (·.2)).map some := by
  simp only [List.map_map]
  exact List.map_congr_left (fun a ha => by simp [Function.comp, (h a ha).2])

theorem fst_wf {as : List TT} (h : ∀ a ∈ as, WT a.1 a.2) : ∀ t ∈ as.map (·.1), t.wf = true := by
  intro t ht
  simp only [List.mem_map] at ht
  obtain ⟨a, ha, rfl⟩ := ht
  exact (h a ha).1

/-- the node the standard builds from elaborated arguments -/
theorem wt_std {op : Op} {as : List TT} {p : Payload} {τ : Ty} (h : ∀ a ∈ as, WT a.1 a.2)
    (hsh : op.shapeOK p as.length = true) (hty : C03.tyNode op p (as.map (·.2)) = some τ) :
    WT (Std.node op as p) τ := by
  unfold Std.node
  exact wt_node (fst_wf h) (by rw [List.length_map]; exact hsh) (by rw [tyNode_of (fst_typeOf h)]; exact hty)

theorem wt1 {a : TT} (ha : WT a.1 a.2) : ∀ x ∈ [a], WT x.1 x.2 := by
  intro x hx; simp only [List.mem_cons, List.mem_nil_iff, or_false] at hx; subst hx; exact ha
theorem wt2 {a b : TT} (ha : WT a.1 a.2) (hb : WT b.1 b.2) : ∀ x ∈ [a, b], WT x.1 x.2 := by
  intro x hx; simp only [List.mem_cons, List.mem_nil_iff, or_false] at hx
  rcases hx with rfl | rfl
  · exact ha
  · exact hb
theorem wt3 {a b c : TT} (ha : WT a.1 a.2) (hb : WT b.1 b.2) (hc : WT c.1 c.2) : ∀ x ∈ [a, b, c], WT x.1 x.2 := by
  intro x hx; simp only [List.mem_cons, List.mem_nil_iff, or_false] at hx
  rcases hx with rfl | rfl | rfl
  · exact ha
  · exact hb
  · exact hc

/-- a node on explicitly given terms (not `Std.node`) -/
theorem wt_terms {op : Op} {ts : List Term} {σs : List Ty} {p : Payload} {τ : Ty}
    (hwf : ∀ t ∈ ts, t.wf = true) (hty : ts.map Term.typeOf = σs.map some)
    (hsh : op.shapeOK p ts.length = true) (h : C03.tyNode op p σs = some τ) : WT (.node op ts p) τ :=
  wt_node hwf hsh (by rw [tyNode_of hty]; exact h)

/-! ## `and`, `or`, `not` -/

theorem wf_and (as : List TT) (u : Term) (τ : Ty) (hargs : ∀ a ∈ as, WT a.1 a.2)
    (hstd : applyTheory "and" as = .ok (u, τ)) : WT u τ := by
  simp only [applyTheory] at hstd
  split at hstd
  · rename_i hc
    simp only [Bool.and_eq_true, decide_eq_true_eq, ge_iff_le] at hc
    cases hstd
    have hall : ∀ a ∈ as, a.2 = .bool := allTy_iff.mp hc.2
    simp only [if_true, beq_self_eq_true]
    exact wt_std hargs rfl (by simp only [C03.tyNode, allAre_snd hall, if_true])
  · cases hstd

theorem wf_or (as : List TT) (u : Term) (τ : Ty) (hargs : ∀ a ∈ as, WT a.1 a.2)
    (hstd : applyTheory "or" as = .ok (u, τ)) : WT u τ := by
  simp only [applyTheory] at hstd
  split at hstd
  · rename_i hc
    simp only [Bool.and_eq_true, decide_eq_true_eq, ge_iff_le] at hc
    cases hstd
    have hall : ∀ a ∈ as, a.2 = .bool := allTy_iff.mp hc.2
    have hne : ("or" == "and") = false := by decide
    simp only [hne, Bool.false_eq_true, if_false]
    exact wt_std hargs rfl (by simp only [C03.tyNode, allAre_snd hall, if_true])
  · cases hstd

theorem wf_not (as : List TT) (u : Term) (τ : Ty) (hargs : ∀ a ∈ as, WT a.1 a.2)
    (hstd : applyTheory "not" as = .ok (u, τ)) : WT u τ := by
  simp only [applyTheory] at hstd
  split at hstd
  · rename_i a
    split at hstd
    · rename_i hb
      cases hstd
      have hb' : a.2 = .bool := by simpa using hb
      exact wt_std hargs rfl (by simp [C03.tyNode, allAre, hb'])
    · cases hstd
  · cases hstd

/-! ## `=>`, `xor` (two arguments) -/

theorem wf_implies (a b : TT) (u : Term) (τ : Ty) (ha : WT a.1 a.2) (hb : WT b.1 b.2)
    (hstd : applyTheory "=>" [a, b] = .ok (u, τ)) : WT u τ := by
  simp only [applyTheory] at hstd
  split at hstd
  · rename_i hc
    simp only [Bool.and_eq_true, allTy, List.all_cons, List.all_nil, Bool.and_true, beq_iff_eq] at hc
    simp only [List.reverse_cons, List.reverse_nil, List.nil_append, List.cons_append, List.foldl_cons,
      List.foldl_nil, Except.ok.injEq, Prod.mk.injEq] at hstd
    obtain ⟨rfl, rfl⟩ := hstd
    exact wt_std (wt2 ha hb) rfl (by simp [C03.tyNode, allAre, hc.2.1, hc.2.2])
  · cases hstd

theorem wf_xor (a b : TT) (u : Term) (τ : Ty) (ha : WT a.1 a.2) (hb : WT b.1 b.2)
    (hstd : applyTheory "xor" [a, b] = .ok (u, τ)) : WT u τ := by
  simp only [applyTheory] at hstd
  split at hstd
  · rename_i hc
    simp only [Bool.and_eq_true, allTy, List.all_cons, List.all_nil, Bool.and_true, beq_iff_eq] at hc
    simp only [leftFold, List.foldlM_cons, List.foldlM_nil, bind, Except.bind, pure, Except.pure,
      Except.ok.injEq, Prod.mk.injEq] at hstd
    obtain ⟨rfl, rfl⟩ := hstd
    have hiff : WT (Std.node .iff [a, b]) .bool :=
      wt_std (wt2 ha hb) rfl (by simp [C03.tyNode, allAre, hc.2.1, hc.2.2])
    have : WT (Std.node .not [(Std.node .iff [a, b], Ty.bool)]) .bool :=
      wt_std (wt1 hiff) rfl (by simp [C03.tyNode, allAre])
    exact this
  · cases hstd

/-! ## `=` and `distinct` (two arguments) -/

theorem wf_mkEq (a b : TT) (ha : WT a.1 a.2) (hb : WT b.1 b.2) (hab : b.2 = a.2) : WT (mkEqTerm a b) .bool := by
  by_cases hbool : a.2 = .bool
  · simp only [mkEqTerm, hbool, beq_self_eq_true, if_true]
    exact wt_std (op := .iff) (wt2 ha hb) rfl (by simp [C03.tyNode, allAre, hab, hbool])
  · have hne : (a.2 == Ty.bool) = false := by simpa using hbool
    simp only [mkEqTerm, hne, Bool.false_eq_true, if_false]
    refine wt_std (op := .equals) (wt2 ha hb) rfl ?_
    simp only [List.map_cons, List.map_nil, hab]
    cases h : a.2 <;> first | exact absurd h hbool | simp [C03.tyNode, allAre]

theorem wf_eq (a b : TT) (u : Term) (τ : Ty) (ha : WT a.1 a.2) (hb : WT b.1 b.2)
    (hstd : applyTheory "=" [a, b] = .ok (u, τ)) : WT u τ := by
  simp only [applyTheory] at hstd
  split at hstd
  · rename_i hc
    simp only [allTy, List.all_cons, List.all_nil, Bool.and_true, beq_self_eq_true, Bool.true_and, beq_iff_eq] at hc
    simp only [chainPairs, List.map_cons, List.map_nil, conj, Except.ok.injEq, Prod.mk.injEq] at hstd
    obtain ⟨rfl, rfl⟩ := hstd
    exact wf_mkEq a b ha hb hc
  · cases hstd

theorem wf_distinct (a b : TT) (u : Term) (τ : Ty) (ha : WT a.1 a.2) (hb : WT b.1 b.2)
    (hstd : applyTheory "distinct" [a, b] = .ok (u, τ)) : WT u τ := by
  simp only [applyTheory] at hstd
  split at hstd
  · rename_i hc
    simp only [allTy, List.all_cons, List.all_nil, Bool.and_true, beq_self_eq_true, Bool.true_and, beq_iff_eq] at hc
    simp only [allPairs, List.map_cons, List.map_nil, List.append_nil, conj, Except.ok.injEq, Prod.mk.injEq] at hstd
    obtain ⟨rfl, rfl⟩ := hstd
    have h := wf_mkEq a b ha hb hc
    have : WT (Std.node .not [(mkEqTerm a b, Ty.bool)]) .bool :=
      wt_std (wt1 h) rfl (by simp [C03.tyNode, allAre])
    exact this
  · cases hstd

/-! ## `ite` -/

theorem wf_ite (as : List TT) (u : Term) (τ : Ty) (hargs : ∀ a ∈ as, WT a.1 a.2)
    (hstd : applyTheory "ite" as = .ok (u, τ)) : WT u τ := by
  simp only [applyTheory] at hstd
  split at hstd
  · rename_i c a b
    split at hstd
    · rename_i hc
      simp only [Bool.and_eq_true, beq_iff_eq] at hc
      cases hstd
      exact wt_std hargs rfl (by simp [C03.tyNode, hc.1, ← hc.2])
    · cases hstd
  · cases hstd

/-! ## `+`, `*` -/

theorem wf_plus (as : List TT) (u : Term) (τ : Ty) (hargs : ∀ a ∈ as, WT a.1 a.2)
    (hstd : applyTheory "+" as = .ok (u, τ)) : WT u τ := by
  simp only [applyTheory] at hstd
  split at hstd
  · rename_i hc
    have hc' : 2 ≤ as.length := by simpa using hc
    cases hat : arithTy as with
    | error e => simp [hat, Except.map] at hstd
    | ok t =>
      obtain ⟨ht, hall⟩ := arithTy_inv hat
      simp only [hat, Except.map, beq_self_eq_true, if_true, Except.ok.injEq, Prod.mk.injEq] at hstd
      obtain ⟨rfl, rfl⟩ := hstd
      have hne : as ≠ [] := by intro e; subst e; simp at hc'
      exact wt_std hargs (by simp [Op.shapeOK, hc']) (tyNode_sum .plus (Or.inl rfl) as t ht hne hall)
  · cases hstd

theorem wf_times (as : List TT) (u : Term) (τ : Ty) (hargs : ∀ a ∈ as, WT a.1 a.2)
    (hstd : applyTheory "*" as = .ok (u, τ)) : WT u τ := by
  simp only [applyTheory] at hstd
  split at hstd
  · rename_i hc
    have hc' : 2 ≤ as.length := by simpa using hc
    cases hat : arithTy as with
    | error e => simp [hat, Except.map] at hstd
    | ok t =>
      obtain ⟨ht, hall⟩ := arithTy_inv hat
      have hne' : ("*" == "+") = false := by decide
      simp only [hat, Except.map, hne', Bool.false_eq_true, if_false, Except.ok.injEq, Prod.mk.injEq] at hstd
      obtain ⟨rfl, rfl⟩ := hstd
      have hne : as ≠ [] := by intro e; subst e; simp at hc'
      exact wt_std hargs (by simp [Op.shapeOK, hc']) (tyNode_sum .times (Or.inr (Or.inl rfl)) as t ht hne hall)
  · cases hstd

/-! ## `-` -/

theorem wf_minus2 (a b : TT) (u : Term) (τ : Ty) (ha : WT a.1 a.2) (hb : WT b.1 b.2)
    (hstd : applyTheory "-" [a, b] = .ok (u, τ)) : WT u τ := by
  simp only [applyTheory, leftFold, List.foldlM_cons, List.foldlM_nil, bind, Except.bind, pure, Except.pure] at hstd
  cases hs : arithSub a b with
  | error e => simp [hs] at hstd
  | ok r =>
    simp only [hs, Except.ok.injEq] at hstd
    subst hstd
    unfold arithSub at hs
    split at hs
    · rename_i hc
      simp only [Bool.and_eq_true, Bool.or_eq_true, beq_iff_eq] at hc
      cases hs
      have hall : ∀ x ∈ [a, b], x.2 = a.2 := by
        intro x hx; simp only [List.mem_cons, List.mem_nil_iff, or_false] at hx
        rcases hx with rfl | rfl
        · rfl
        · exact hc.1.symm
      exact wt_std (wt2 ha hb) rfl (tyNode_sum .minus (Or.inr (Or.inr (Or.inl rfl))) [a, b] a.2 hc.2 (by simp) hall)
    · cases hs

theorem wf_minus1 (a : TT) (u : Term) (τ : Ty) (hc : (isNumConst a.1).isSome = true)
    (hstd : applyTheory "-" [a] = .ok (u, τ)) : WT u τ := by
  simp only [applyTheory] at hstd
  cases h : isNumConst a.1 with
  | none => simp [h] at hc
  | some v =>
    cases v with
    | inl n =>
      simp only [h, Except.ok.injEq, Prod.mk.injEq] at hstd
      obtain ⟨rfl, rfl⟩ := hstd
      exact WT_of_TOK (tok_int _)
    | inr r =>
      simp only [h, Except.ok.injEq, Prod.mk.injEq] at hstd
      obtain ⟨rfl, rfl⟩ := hstd
      exact WT_of_TOK (tok_real _)

/-! ## `/` (two arguments) -/

theorem wf_div (a b : TT) (u : Term) (τ : Ty) (ha : WT a.1 a.2) (hb : WT b.1 b.2)
    (hstd : applyTheory "/" [a, b] = .ok (u, τ)) : WT u τ := by
  simp only [applyTheory, List.length_cons, List.length_nil, leftFold, List.foldlM_cons, List.foldlM_nil, bind,
    Except.bind, pure, Except.pure] at hstd
  simp (config := { decide := true }) only [if_true] at hstd
  cases hr : realDiv a b with
  | error e => simp [hr] at hstd
  | ok r =>
    simp only [hr, Except.ok.injEq] at hstd
    subst hstd
    unfold realDiv at hr
    split at hr
    · rename_i hc
      simp only [Bool.and_eq_true, beq_iff_eq] at hc
      have hnode : WT (Std.node .div [a, b]) .real :=
        wt_std (wt2 ha hb) rfl (by simp [C03.tyNode, allAre, hc.1, hc.2])
      split at hr
      · split at hr
        · cases hr; exact WT_of_TOK (tok_real _)
        · cases hr; exact hnode
      · cases hr; exact hnode
    · cases hr

/-! ## `<= < >= >` (two arguments) -/

theorem wf_rel (f : String) (hf : f = "<=" ∨ f = "<" ∨ f = ">=" ∨ f = ">") (a b : TT) (u : Term) (τ : Ty)
    (ha : WT a.1 a.2) (hb : WT b.1 b.2) (hstd : applyTheory f [a, b] = .ok (u, τ)) : WT u τ := by
  obtain ⟨t, ht, hat, hbt, rfl, rfl⟩ := rel_inv hf hstd
  have key : ∀ (op : Op), op = .le ∨ op = .lt → ∀ x y : TT, WT x.1 x.2 → WT y.1 y.2 → x.2 = t → y.2 = t →
      WT (Std.node op [x, y]) .bool := by
    intro op hop x y hx hy hxt hyt
    refine wt_std (wt2 hx hy) (by rcases hop with rfl | rfl <;> rfl) ?_
    simp only [List.map_cons, List.map_nil, hxt, hyt]
    exact tyNode_rel op hop t ht
  have hop : (if (f == "<=" || f == ">=") = true then Op.le else Op.lt) = .le ∨
      (if (f == "<=" || f == ">=") = true then Op.le else Op.lt) = .lt := by
    split
    · exact Or.inl rfl
    · exact Or.inr rfl
  simp only
  split
  · exact key _ hop b a hb ha hbt hat
  · exact key _ hop a b ha hb hat hbt

/-! ## `to_real` -/

theorem wf_toreal (as : List TT) (u : Term) (τ : Ty) (hargs : ∀ a ∈ as, WT a.1 a.2)
    (hstd : applyTheory "to_real" as = .ok (u, τ)) : WT u τ := by
  simp only [applyTheory] at hstd
  split at hstd
  · rename_i a
    split at hstd
    · rename_i hb
      cases hstd
      have hb' : a.2 = .int := by simpa using hb
      exact wt_std hargs rfl (by simp [C03.tyNode, allAre, hb'])
    · cases hstd
  · cases hstd

end PySMT.Parser.Agree
