import PySMT.Proofs.C10Basic
import PySMT.Impl.Rewritings.Shannon
/-!
# C10 — rebuilding a node from rewritten children, substitution of Boolean symbols in
quantifier-free terms (the instance of the substitution lemma the two QE procedures need)
-/
namespace PySMT.Rewritings

/-! ## quantifier-freeness -/

theorem isQF_node (op : Op) (args : List Term) (p : Payload) :
    (Term.node op args p).isQF = (!op.isQuantifier && args.all Term.isQF) := by
  unfold Term.isQF
  rw [Term.subterms, List.all_cons]
  congr 1
  induction args with
  | nil => rfl
  | cons a l ih => simp [List.all_append, ih]

theorem isQF_tt : Term.tt.isQF = true := by rw [Term.tt, isQF_node]; rfl
theorem isQF_ff : Term.ff.isQF = true := by rw [Term.ff, isQF_node]; rfl
theorem isQF_bool (b : Bool) : (Term.bool b).isQF = true := by rw [Term.bool, isQF_node]; rfl

theorem isQF_mkAnd {as : List Term} (h : ∀ a ∈ as, a.isQF = true) : (mkAnd as).isQF = true := by
  match as, h with
  | [], _ => exact isQF_tt
  | [a], h => exact h a (by simp)
  | a :: b :: rest, h =>
    rw [show mkAnd (a :: b :: rest) = .node .and (a :: b :: rest) .none from rfl, isQF_node]
    simp only [Op.isQuantifier, Bool.not_false, Bool.true_and]
    exact List.all_eq_true.mpr h

theorem isQF_mkOr {as : List Term} (h : ∀ a ∈ as, a.isQF = true) : (mkOr as).isQF = true := by
  match as, h with
  | [], _ => exact isQF_ff
  | [a], h => exact h a (by simp)
  | a :: b :: rest, h =>
    rw [show mkOr (a :: b :: rest) = .node .or (a :: b :: rest) .none from rfl, isQF_node]
    simp only [Op.isQuantifier, Bool.not_false, Bool.true_and]
    exact List.all_eq_true.mpr h

theorem isQF_mkNot {t : Term} (h : t.isQF = true) : (mkNot t).isQF = true := by
  rcases mkNot_cases t with ⟨a, p, rfl, h2⟩ | h2
  · rw [h2]
    rw [isQF_node] at h
    simpa [Op.isQuantifier] using h
  · rw [h2, isQF_node]
    simpa [Op.isQuantifier] using h

/-! ## `rebuild` -/

/-- the operators whose constructor normalises -/
def special : Op → Bool
  | .not | .and | .or | .forall_ | .exists_ => true
  | _ => false

theorem rebuild_plain {op : Op} (h : special op = false) (args : List Term) (p : Payload) :
    rebuild op args p = .node op args p := by
  unfold rebuild
  split <;> simp_all [special]

theorem rebuild_not (a : Term) (p : Payload) : rebuild .not [a] p = mkNot a := rfl
theorem rebuild_and (as : List Term) (p : Payload) : rebuild .and as p = mkAnd as := by
  unfold rebuild; split <;> simp_all
theorem rebuild_or (as : List Term) (p : Payload) : rebuild .or as p = mkOr as := by
  unfold rebuild; split <;> simp_all

/-- the rewritten children `g a` are well-formed and have the sorts of the old ones -/
def SameSorts (g : Term → Term) (args : List Term) : Prop :=
  ∀ a ∈ args, (g a).wf = true ∧ (g a).typeOf = a.typeOf

theorem SameSorts.types {g : Term → Term} {args : List Term} (h : SameSorts g args) :
    (args.map g).map Term.typeOf = args.map Term.typeOf := by
  rw [List.map_map]
  exact List.map_congr_left (fun a ha => (h a ha).2)

theorem SameSorts.wb {g : Term → Term} {args : List Term} (h : SameSorts g args)
    (hb : ∀ a ∈ args, WB a) : ∀ x ∈ args.map g, WB x := by
  intro x hx
  obtain ⟨a, ha, rfl⟩ := List.mem_map.mp hx
  exact ⟨(h a ha).1, by rw [(h a ha).2]; exact (hb a ha).2⟩

/-- **rebuilding preserves well-formedness and the sort** (operators other than binders) -/
theorem rebuild_wf {op : Op} {args : List Term} {p : Payload} {g : Term → Term}
    (hq : op.isQuantifier = false) (hwf : (Term.node op args p).wf = true) (hs : SameSorts g args) :
    (rebuild op (args.map g) p).wf = true ∧
      (rebuild op (args.map g) p).typeOf = (Term.node op args p).typeOf := by
  by_cases hsp : special op = false
  · rw [rebuild_plain hsp]
    obtain ⟨_, hshape, hty⟩ := Term.wf_node.mp hwf
    constructor
    · rw [Term.wf_node]
      refine ⟨fun x hx => ?_, by rw [List.length_map]; exact hshape, by rw [hs.types]; exact hty⟩
      obtain ⟨a, ha, rfl⟩ := List.mem_map.mp hx
      exact (hs a ha).1
    · rw [typeOf_node, typeOf_node, hs.types]
  · have hbool : (Term.node op args p).typeOf = some .bool := by
      have hty := (Term.wf_node.mp hwf).2.2
      rw [typeOf_node]
      cases op <;> simp [special, Op.isQuantifier] at hsp hq <;>
        (rw [typeOfNode_conn (by simp)] at hty ⊢; split at hty <;> simp_all)
    have hwb : WB (.node op args p) := ⟨hwf, hbool⟩
    rw [hbool]
    cases op <;> simp [special, Op.isQuantifier] at hsp hq
    case and => rw [rebuild_and]; exact wb_mkAnd (hs.wb ((wb_and _ _).mp hwb))
    case or => rw [rebuild_or]; exact wb_mkOr (hs.wb ((wb_or _ _).mp hwb))
    case not =>
      obtain ⟨a, rfl⟩ := wf_not_args hwf
      simp only [List.map_cons, List.map_nil, rebuild_not]
      exact wb_mkNot (hs.wb (fun x hx => by simp at hx; subst hx; exact (wb_not _ _).mp hwb) _ (by simp))

/-- **rebuilding preserves quantifier-freeness** -/
theorem rebuild_qf {op : Op} {args : List Term} {p : Payload} {g : Term → Term}
    (hq : op.isQuantifier = false) (hwf : (Term.node op args p).wf = true)
    (hg : ∀ a ∈ args, (g a).isQF = true) : (rebuild op (args.map g) p).isQF = true := by
  have hl : ∀ x ∈ args.map g, x.isQF = true := by
    intro x hx
    obtain ⟨a, ha, rfl⟩ := List.mem_map.mp hx
    exact hg a ha
  by_cases hsp : special op = false
  · rw [rebuild_plain hsp, isQF_node, hq]
    simpa using hl
  · cases op <;> simp [special, Op.isQuantifier] at hsp hq
    case and => rw [rebuild_and]; exact isQF_mkAnd hl
    case or => rw [rebuild_or]; exact isQF_mkOr hl
    case not =>
      obtain ⟨a, rfl⟩ := wf_not_args hwf
      simp only [List.map_cons, List.map_nil, rebuild_not]
      exact isQF_mkNot (hl _ (by simp))

/-- **value of a rebuilt node** (operators other than binders and symbols): if the rewritten
children have, under `I`, the values the old children have under `I'`, the rebuilt node has
under `I` the value the old node has under `I'`. -/
theorem rebuild_eval {op : Op} {args : List Term} {p : Payload} {g : Term → Term} {I I' : Interp}
    (hq : op.isQuantifier = false) (hsym : op ≠ .symbol)
    (hwf : (Term.node op args p).wf = true) (hs : SameSorts g args)
    (hI : I.WF) (hI' : I'.WF) (hfn : I.fn = I'.fn) (hr : I.div0r = I'.div0r) (hi : I.div0i = I'.div0i)
    (hev : ∀ a ∈ args, eval I (g a) = eval I' a) :
    eval I (rebuild op (args.map g) p) = eval I' (.node op args p) := by
  have hmap : (args.map g).map (eval I) = args.map (eval I') := by
    rw [List.map_map]
    exact List.map_congr_left (fun a ha => hev a ha)
  by_cases hsp : special op = false
  · rw [rebuild_plain hsp]
    by_cases hfun : op = .function
    · subst hfun
      cases p with
      | sym s => rw [eval_function, eval_function, hfn, hmap]
      | _ => rw [eval_node, eval_node, evalNode_function, evalNode_function]
    · rw [eval_plain I op _ p hsym hfun hq, eval_plain I' op _ p hsym hfun hq, evalOp_congr I I' hr hi, hmap]
  · have hbool : (Term.node op args p).typeOf = some .bool := by
      have hty := (Term.wf_node.mp hwf).2.2
      rw [typeOf_node]
      cases op <;> simp [special, Op.isQuantifier] at hsp hq <;>
        (rw [typeOfNode_conn (by simp)] at hty ⊢; split at hty <;> simp_all)
    have hwb : WB (.node op args p) := ⟨hwf, hbool⟩
    have tr : ∀ a ∈ args, truth I (g a) = truth I' a := fun a ha => by simp only [truth, hev a ha]
    cases op <;> simp [special, Op.isQuantifier] at hsp hq
    case and =>
      rw [rebuild_and, eval_mkAnd hI (hs.wb ((wb_and _ _).mp hwb)), eval_and', List.all_map]
      congr 1
      exact list_all_congr (fun a ha => tr a ha)
    case or =>
      rw [rebuild_or, eval_mkOr hI (hs.wb ((wb_or _ _).mp hwb)), eval_or', List.any_map]
      congr 1
      exact list_any_congr (fun a ha => tr a ha)
    case not =>
      obtain ⟨a, rfl⟩ := wf_not_args hwf
      simp only [List.map_cons, List.map_nil, rebuild_not]
      have hwa : WB (g a) := hs.wb (fun x hx => by simp at hx; subst hx; exact (wb_not _ _).mp hwb) _ (by simp)
      rw [eval_mkNot hI hwa, eval_not, tr a (by simp)]

/-! ## substitution of Boolean symbols in quantifier-free terms -/

/-- a map from (non-function) symbols to well-formed terms of the symbol's sort -/
def SubOK (σ : List (Term × Term)) : Prop :=
  ∀ kv ∈ σ, ∃ v : Sym, kv.1 = Term.sym v ∧ v.params = [] ∧ kv.2.wf = true ∧ kv.2.typeOf = some v.ret

/-- `I` with the substituted symbols re-interpreted by the values of their replacements -/
def updT (I : Interp) (σ : List (Term × Term)) : Interp :=
  { I with sym := fun s => match lookupT σ (Term.sym s) with
                         | some g => eval I g
                         | none => I.sym s }

theorem lookupT_mem {σ : List (Term × Term)} {t r : Term} (h : lookupT σ t = some r) : (t, r) ∈ σ := by
  unfold lookupT at h
  cases hf : σ.find? (fun kv => kv.1 == t) with
  | none => rw [hf] at h; cases h
  | some kv =>
    rw [hf] at h
    have h1 := List.find?_some hf
    have h2 := List.mem_of_find?_eq_some hf
    simp only [Option.map_some, Option.some.injEq] at h
    have : kv = (t, r) := by
      cases kv with
      | mk k v => simp only [beq_iff_eq] at h1; simp only at h; subst h1; subst h; rfl
    rw [← this]; exact h2

theorem sym_inj {s v : Sym} (h : Term.sym s = Term.sym v) : s = v := by
  simp only [Term.sym, Term.node.injEq, Payload.sym.injEq] at h
  exact h.2.2

theorem typeOf_sym {v : Sym} (h : v.params = []) : (Term.sym v).typeOf = some v.ret := by
  rw [Term.sym, typeOf_node, typeOfNode_symbol_eq]
  simp [h]

theorem updT_wf {I : Interp} (hI : I.WF) {σ : List (Term × Term)} (hσ : SubOK σ) : (updT I σ).WF := by
  refine ⟨fun s => ?_, hI.fn, hI.dom_ne, hI.dom_sort⟩
  simp only [updT]
  cases hl : lookupT σ (Term.sym s) with
  | none => exact hI.sym s
  | some g =>
    obtain ⟨v, hk, _, hgw, hgt⟩ := hσ _ (lookupT_mem hl)
    have : s = v := sym_inj hk
    subst this
    simp only
    exact eval_hasSort g hgw _ hgt I hI

theorem substT_nonquant {σ : List (Term × Term)} {op : Op} {args : List Term} {p : Payload}
    (hq : op.isQuantifier = false) (hl : lookupT σ (.node op args p) = none) :
    substT σ (.node op args p) = rebuild op (args.map (substT σ)) p := by
  have hb : bodyMap σ op p = σ := by
    unfold bodyMap
    split <;> simp_all [Op.isQuantifier]
  rw [substT, hl, hb]

/-- **Substitution lemma** for Boolean symbols in a quantifier-free term: the result is
well-formed of the same sort, quantifier-free when the replacements are, and its value under
`I` is the value of the term under `I` with the symbols re-interpreted. -/
theorem substT_spec {σ : List (Term × Term)} (hσ : SubOK σ) : (t : Term) → t.wf = true → t.isQF = true →
    ((substT σ t).wf = true ∧ (substT σ t).typeOf = t.typeOf) ∧
    ((∀ kv ∈ σ, kv.2.isQF = true) → (substT σ t).isQF = true) ∧
    ∀ I : Interp, I.WF → eval I (substT σ t) = eval (updT I σ) t
  | .node op args p => fun hwf hqf => by
    rw [isQF_node] at hqf
    simp only [Bool.and_eq_true, Bool.not_eq_eq_eq_not, Bool.not_true, List.all_eq_true] at hqf
    obtain ⟨hq, hch⟩ := hqf
    have hchwf := (Term.wf_node.mp hwf).1
    have ih : ∀ a ∈ args, ((substT σ a).wf = true ∧ (substT σ a).typeOf = a.typeOf) ∧
        ((∀ kv ∈ σ, kv.2.isQF = true) → (substT σ a).isQF = true) ∧
        ∀ I : Interp, I.WF → eval I (substT σ a) = eval (updT I σ) a :=
      fun a ha => substT_spec hσ a (hchwf a ha) (hch a ha)
    cases hl : lookupT σ (.node op args p) with
    | some r =>
      obtain ⟨v, hk, hpar, hrw, hrt⟩ := hσ _ (lookupT_mem hl)
      simp only at hk hrw hrt
      have hsub : substT σ (.node op args p) = r := by rw [substT, hl]
      rw [hsub]
      refine ⟨⟨hrw, by rw [hrt, hk, typeOf_sym hpar]⟩, fun h => h _ (lookupT_mem hl), fun I _ => ?_⟩
      have hl' : lookupT σ (Term.sym v) = some r := by rw [← hk]; exact hl
      rw [hk, show eval (updT I σ) (Term.sym v) = (updT I σ).sym v from eval_symbol _ v []]
      simp only [updT, hl']
    | none =>
      rw [substT_nonquant hq hl]
      have hs : SameSorts (substT σ) args := fun a ha => (ih a ha).1
      by_cases hsym : op = .symbol
      · subst hsym
        have hargs := Term.wt_symbol_args (Term.wf_wt _ hwf)
        subst hargs
        simp only [List.map_nil]
        rw [rebuild_plain rfl]
        refine ⟨⟨hwf, rfl⟩, fun _ => by rw [isQF_node]; rfl, fun I _ => ?_⟩
        obtain ⟨_, s, rfl, _⟩ := typeOfNode_symbol (Term.wt_typeOf (Term.wf_wt _ hwf))
        rw [eval_symbol, eval_symbol]
        simp only [updT]
        have : lookupT σ (Term.sym s) = none := hl
        rw [this]
      · refine ⟨rebuild_wf hq hwf hs, fun h => rebuild_qf hq hwf (fun a ha => (ih a ha).2.1 h), fun I hI => ?_⟩
        exact rebuild_eval hq hsym hwf hs hI (updT_wf hI hσ) rfl rfl rfl (fun a ha => (ih a ha).2.2 I hI)

end PySMT.Rewritings
