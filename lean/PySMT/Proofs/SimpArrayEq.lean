import PySMT.Proofs.SimpArray
/-!
# The array branch of `walk_equals`: the extensional comparison of two constant array values
(`BoolRules.arrayValuesEq`)

`arrayValuesEq_sound` : if the comparison answers `b`, then `b` is the truth value of the equality
under every well-formed interpretation.
* Over an infinite index sort (Int, Real, String) there is always an index that neither value assigns
  (`exists_fresh`), so two values with the same assignments are equal iff their defaults are.
* Over a finite index sort (Bool, bit-vectors) the method counts: the defaults do not matter iff all
  `idx_size` indices are assigned (`exists_not_mem_of_length_lt`, the pigeonhole principle on
  duplicate-free lists). The answer "equal although the defaults differ" is the truth value of the
  reference semantics only where the canonical array values are extensional: `Val.smallDomain` (Bool,
  bit-vectors of width ≤ 8). Over a wider bit-vector index sort two values that assign all `2^w ≥ 512`
  indices identically and differ in their (unreachable) defaults are different canonical values; these
  sorts stay outside the proved fragment (`Simplifier.equalsGuard`).
-/
namespace PySMT.Simp.ArrayRules
open PySMT PySMT.Build PySMT.Simp PySMT.Simp.BoolRules

/-! ## an index outside a finite set of indices -/

/-- a size measure that separates the fresh index from the given ones -/
def vsize : Val → Nat
  | .i n => n.natAbs
  | .r q => q.num.natAbs
  | .s v => v.length
  | _ => 0

/-- an index of size `N` -/
def freshIdx (idx : Ty) (N : Nat) : Val :=
  match idx with
  | .int => .i N
  | .real => .r N
  | _ => .s (String.ofList (List.replicate N 'a'))

theorem freshIdx_spec {idx : Ty} (h : idxSize idx = none) (N : Nat) :
    vsize (freshIdx idx N) = N ∧ (freshIdx idx N).hasSort idx = true := by
  cases idx <;> simp only [idxSize, reduceCtorEq] at h
  · exact ⟨by simp [freshIdx, vsize], rfl⟩
  · exact ⟨by simp [freshIdx, vsize, Rat.num_natCast], rfl⟩
  · exact ⟨by simp [freshIdx, vsize], rfl⟩

theorem vsize_le_sum : ∀ (vs : List Val) (v : Val), v ∈ vs → vsize v ≤ (vs.map vsize).sum
  | x :: xs, v, h => by
    rw [List.map_cons, List.sum_cons]
    rcases List.mem_cons.mp h with rfl | h
    · omega
    · have := vsize_le_sum xs v h; omega

theorem exists_fresh {idx : Ty} (h : idxSize idx = none) (vs : List Val) :
    ∃ j, j.hasSort idx = true ∧ j ∉ vs := by
  obtain ⟨h1, h2⟩ := freshIdx_spec h ((vs.map vsize).sum + 1)
  refine ⟨_, h2, fun hm => ?_⟩
  have := vsize_le_sum vs _ hm
  omega

/-! ## constant array values -/

theorem isConstant_arrayValue (args : List Term) (q : Payload) :
    isConstant (.node .arrayValue args q) = (args.map isConstant).all id := by
  rw [isConstant.eq_def]

theorem idxSize_scalar {idx : Ty} (h : (idxSize idx != some 0) = true) : idx.scalar = true := by
  cases idx <;> first | rfl | (simp [idxSize] at h)

/-- the facts about a constant array-value node with a scalar index sort and a scalar element sort -/
theorem constAV {idx e : Ty} {d : Term} {rest : List Term} {q : Payload}
    (hwf : (Term.node .arrayValue (d :: rest) q).wf = true)
    (hty : (Term.node .arrayValue (d :: rest) q).typeOf = some (.array idx e))
    (hidx : idx.scalar = true) (he : e.scalar = true)
    (hc : isConstant (.node .arrayValue (d :: rest) q) = true) :
    q = .ty idx ∧ AVFacts0 (.node .arrayValue (d :: rest) q) idx e d rest ∧ KeyT d ∧
      ∀ kv ∈ pairs rest, KeyT kv.2 := by
  rw [isConstant_arrayValue] at hc
  simp only [List.all_eq_true, List.mem_map, id, forall_exists_index, and_imp, forall_apply_eq_imp_iff₂] at hc
  obtain ⟨hq, F⟩ := avFacts0 hwf hty hidx (fun kv hkv => hc kv.1 (by simp [(mem_of_mem_pairs hkv).1]))
  refine ⟨hq, F, ⟨F.dsub.wf, isConstant_scalar F.dty he (hc d (by simp))⟩, ?_⟩
  intro kv hkv
  exact ⟨(F.psub kv hkv).2.wf, isConstant_scalar (F.pty kv hkv).2 he (hc kv.2 (by simp [(mem_of_mem_pairs hkv).2]))⟩

/-- `array_value_get` returns the default or an assigned value: a scalar constant -/
theorem getT_keyT {d i : Term} {ps : List (Term × Term)} (hd : KeyT d) (hps : ∀ kv ∈ ps, KeyT kv.2) :
    KeyT (getT d i ps) := by
  rcases getT_result d i ps with h | ⟨kv, hkv, h⟩
  · rw [h]; exact hd
  · rw [h]; exact hps kv hkv

theorem ite_some_cases {c : Prop} [Decidable c] {x y b : Bool} (h : (if c then some x else some y) = some b) :
    (c ∧ b = x) ∨ (¬ c ∧ b = y) := by
  split at h
  · next hc => exact Or.inl ⟨hc, (Option.some.inj h).symm⟩
  · next hc => exact Or.inr ⟨hc, (Option.some.inj h).symm⟩

/-! ## counting -/

/-- pigeonhole: a duplicate-free list is not covered by a shorter list -/
theorem exists_not_mem_of_length_lt {α : Type} [DecidableEq α] : ∀ (l₁ l₂ : List α), l₂.Nodup →
    l₁.length < l₂.length → ∃ x ∈ l₂, x ∉ l₁
  | [], l₂, _, h => by
    match l₂, h with
    | x :: _, _ => exact ⟨x, by simp, by simp⟩
  | a :: t, l₂, hn, h => by
    have hn' : (l₂.erase a).Nodup := List.Nodup.sublist List.erase_sublist hn
    have hl : t.length < (l₂.erase a).length := by
      rw [List.length_erase]
      split <;> simp only [List.length_cons] at h <;> omega
    obtain ⟨x, hx, hxt⟩ := exists_not_mem_of_length_lt t (l₂.erase a) hn' hl
    have := (List.Nodup.mem_erase_iff hn).mp hx
    exact ⟨x, this.2, by simp [this.1, hxt]⟩

theorem nodup_eraseDups {α : Type} [DecidableEq α] : ∀ (n : Nat) (l : List α), l.length ≤ n → l.eraseDups.Nodup
  | _, [], _ => by simp
  | 0, a :: as, h => by simp at h
  | n + 1, a :: as, h => by
    rw [List.eraseDups_cons, List.nodup_cons]
    refine ⟨?_, nodup_eraseDups n _ ?_⟩
    · intro hm
      rw [List.mem_eraseDups, List.mem_filter] at hm
      simp at hm
    · have := List.length_filter_le (fun b => !b == a) as
      simp only [List.length_cons] at h
      omega

/-- the indices of a finite index sort: a duplicate-free list of `idx_size` values -/
theorem finDom {idx : Ty} {n : Nat} (h : idxSize idx = some n) (h0 : (idxSize idx != some 0) = true) :
    ∃ dom : List Val, dom.Nodup ∧ dom.length = n ∧ ∀ j, j.hasSort idx = true ↔ j ∈ dom := by
  cases idx <;> simp only [idxSize, Option.some.injEq, reduceCtorEq] at h <;>
    try (simp [idxSize] at h0; done)
  · subst h
    refine ⟨[.b false, .b true], by simp, rfl, fun j => ⟨fun hj => ?_, fun hj => ?_⟩⟩
    · obtain ⟨b, rfl⟩ := Val.hasSort_bool hj
      cases b <;> simp
    · simp only [List.mem_cons, List.not_mem_nil, or_false] at hj
      rcases hj with rfl | rfl <;> rfl
  · next w =>
    subst h
    refine ⟨(List.range (2 ^ w)).map (Val.bv w), ?_, by simp, fun j => ⟨fun hj => ?_, fun hj => ?_⟩⟩
    · exact List.Pairwise.map _ (fun a b hab e => hab (by cases e; rfl)) List.nodup_range
    · obtain ⟨m, rfl, hm⟩ := Val.hasSort_bv hj
      exact List.mem_map.mpr ⟨m, List.mem_range.mpr hm, rfl⟩
    · obtain ⟨m, hm, rfl⟩ := List.mem_map.mp hj
      exact Val.hasSort_bv_mk (List.mem_range.mp hm)

/-- the comparison of `walk_equals` on two constant array values decides their equality, over an
infinite index sort and over a finite index sort on which the canonical array values are extensional
(`Val.smallDomain`: Bool and bit-vectors of width ≤ 8) -/
theorem arrayValuesEq_sound {sl sr : Term} {idx e : Ty}
    (hwl : sl.wf = true) (hwr : sr.wf = true)
    (htl : sl.typeOf = some (.array idx e)) (htr : sr.typeOf = some (.array idx e))
    (hcl : isConstant sl = true) (hcr : isConstant sr = true)
    (hext : idxSize idx = none ∨ (Val.smallDomain idx).isSome = true)
    {b : Bool} (h : arrayValuesEq sl sr = some b) (I : Interp) (hI : I.WF) :
    decide (eval I sl = eval I sr) = b := by
  unfold arrayValuesEq at h
  rw [htl] at h
  simp only at h
  split at h
  case isFalse => cases h
  next hcond =>
  simp only [Bool.and_eq_true, Bool.not_eq_true'] at hcond
  have hidx : idx.scalar = true := idxSize_scalar hcond.1
  have he : e.scalar = true := by
    have := hcond.2
    cases e <;> first | rfl | (simp [Ty.isArray] at this)
  split at h
  case h_2 => cases h
  next dl restl ql dr restr qr =>
  obtain ⟨hql, Fl, Dl, Vl⟩ := constAV hwl htl hidx he hcl
  obtain ⟨hqr, Fr, Dr, Vr⟩ := constAV hwr htr hidx he hcr
  subst hql
  subst hqr
  obtain ⟨l1, l2, l3⟩ := Fl.sem hidx I hI
  obtain ⟨r1, r2, r3⟩ := Fr.sem hidx I hI
  rw [eval_arrayValue, eval_arrayValue]
  simp only [arrayValueGet_getT] at h
  -- the keys of both sides
  generalize hK : ((pairs restl).map (·.1) ++ (pairs restr).map (·.1)).eraseDups = K at h
  have hKn : K.Nodup := by rw [← hK]; exact nodup_eraseDups _ _ (Nat.le_refl _)
  have hKl : ∀ kv ∈ pairs restl, kv.1 ∈ K := by
    intro kv hkv
    rw [← hK, List.mem_eraseDups]
    exact List.mem_append.mpr (Or.inl (List.mem_map_of_mem (f := (·.1)) hkv))
  have hKr : ∀ kv ∈ pairs restr, kv.1 ∈ K := by
    intro kv hkv
    rw [← hK, List.mem_eraseDups]
    exact List.mem_append.mpr (Or.inr (List.mem_map_of_mem (f := (·.1)) hkv))
  have hkeys : ∀ i ∈ K, KeyT i ∧ i.typeOf = some idx := by
    intro i hi
    rw [← hK, List.mem_eraseDups, List.mem_append] at hi
    rcases hi with hi | hi
    · obtain ⟨kv, hkv, rfl⟩ := List.mem_map.mp hi
      exact ⟨Fl.keyT kv hkv, (Fl.pty kv hkv).1⟩
    · obtain ⟨kv, hkv, rfl⟩ := List.mem_map.mp hi
      exact ⟨Fr.keyT kv hkv, (Fr.pty kv hkv).1⟩
  have hvs : ∀ j ∈ K.map (eval I), j.hasSort idx = true := by
    intro j hj
    obtain ⟨i, hi, rfl⟩ := List.mem_map.mp hj
    exact eval_hasSort i (hkeys i hi).1.1 idx (hkeys i hi).2 I hI
  -- look-up of an index that no key denotes: the default
  have uncovered : ∀ j, j ∉ K.map (eval I) →
      Val.lookupEnt j (eval I dl) ((pairs restl).map (E I)) = eval I dl ∧
      Val.lookupEnt j (eval I dr) ((pairs restr).map (E I)) = eval I dr := by
    intro j hj
    constructor
    · apply Val.lookupEnt_notin
      intro kv hkv e
      obtain ⟨kv', hkv', rfl⟩ := List.mem_map.mp hkv
      exact hj (List.mem_map.mpr ⟨kv'.1, hKl kv' hkv', e⟩)
    · apply Val.lookupEnt_notin
      intro kv hkv e
      obtain ⟨kv', hkv', rfl⟩ := List.mem_map.mp hkv
      exact hj (List.mem_map.mpr ⟨kv'.1, hKr kv' hkv', e⟩)
  rcases ite_some_cases h with ⟨hany, hb⟩ | ⟨hany, hb⟩
  · -- some key has different values
    subst hb
    obtain ⟨i, hi, hne⟩ := List.any_eq_true.mp hany
    have hne' : getT dl i (pairs restl) ≠ getT dr i (pairs restr) := by simpa using hne
    rw [decide_eq_false_iff_not]
    intro heq
    apply hne'
    apply (getT_keyT Dl Vl).inj (getT_keyT Dr Vr) I
    have hji := eval_hasSort i (hkeys i hi).1.1 idx (hkeys i hi).2 I hI
    rw [lookup_find I dl i (hkeys i hi).1 (pairs restl) Fl.keyT,
      lookup_find I dr i (hkeys i hi).1 (pairs restr) Fr.keyT, ← l2 _ hji, ← r2 _ hji, heq]
  · have hall : ∀ i ∈ K, getT dl i (pairs restl) = getT dr i (pairs restr) := by
      intro i hi
      rw [Bool.not_eq_true, List.any_eq_false] at hany
      simpa using hany i hi
    -- look-up of an index that some key denotes: the same on both sides
    have covered : ∀ j ∈ K.map (eval I),
        Val.lookupEnt j (eval I dl) ((pairs restl).map (E I)) =
          Val.lookupEnt j (eval I dr) ((pairs restr).map (E I)) := by
      intro j hj
      obtain ⟨i, hi, rfl⟩ := List.mem_map.mp hj
      rw [← lookup_find I dl i (hkeys i hi).1 (pairs restl) Fl.keyT,
        ← lookup_find I dr i (hkeys i hi).1 (pairs restr) Fr.keyT, hall i hi]
    -- an index outside the keys separates two values with different defaults
    have differ : eval I dl ≠ eval I dr → (∃ j, j.hasSort idx = true ∧ j ∉ K.map (eval I)) →
        Sem.arrayValue idx (eval I dl) (restl.map (eval I)) ≠ Sem.arrayValue idx (eval I dr) (restr.map (eval I)) := by
      rintro hdne ⟨j, hj, hjn⟩ heq
      have e1 := l2 j hj
      rw [heq, r2 j hj, (uncovered j hjn).1, (uncovered j hjn).2] at e1
      exact hdne e1.symm
    by_cases hdd : dl = dr
    · -- same default: equal
      subst hdd
      have hb' : b = true := by rw [hb]; simp
      subst hb'
      rw [decide_eq_true_eq]
      refine Val.CanonV.ext (keyOrd idx hidx) l1 r1 (fun hn => by rw [l3 hn, r3 hn]) (fun j hj => ?_)
      rw [l2 j hj, r2 j hj]
      by_cases hk : j ∈ K.map (eval I)
      · exact covered j hk
      · rw [(uncovered j hk).1, (uncovered j hk).2]
    · have hbf : (dl == dr) = false := by simpa using hdd
      have hdne : eval I dl ≠ eval I dr := fun e => hdd (Dl.inj Dr I e)
      rw [hbf, Bool.false_or] at hb
      cases hsz : idxSize idx with
      | none =>
        -- infinite index sort: some index is not assigned
        have hb' : b = false := by rw [hb, hsz]; rfl
        subst hb'
        rw [decide_eq_false_iff_not]
        exact differ hdne (exists_fresh hsz _)
      | some n =>
        obtain ⟨dom, hdn, hdl, hdm⟩ := finDom hsz hcond.1
        have hvn : (K.map (eval I)).Nodup := by
          rw [List.Nodup, List.pairwise_map]
          refine List.Pairwise.imp_of_mem ?_ hKn
          intro a c ha hc hac e
          exact hac ((hkeys a ha).1.inj (hkeys c hc).1 I e)
        have hsub : ∀ j ∈ K.map (eval I), j ∈ dom := fun j hj => (hdm j).mp (hvs j hj)
        have hle : (K.map (eval I)).length ≤ dom.length := by
          apply Nat.le_of_not_lt
          intro hlt
          obtain ⟨x, hx, hxn⟩ := exists_not_mem_of_length_lt dom (K.map (eval I)) hvn hlt
          exact hxn (hsub x hx)
        rw [List.length_map] at hle
        by_cases hfull : K.length = n
        · -- every index is assigned: equal whatever the defaults
          have hb' : b = true := by rw [hb, hsz, hfull]; simp
          subst hb'
          rw [decide_eq_true_eq]
          have hcov : ∀ j, j.hasSort idx = true → j ∈ K.map (eval I) := by
            intro j hj
            apply Classical.byContradiction
            intro hjn
            have hn' : (j :: K.map (eval I)).Nodup := List.nodup_cons.mpr ⟨hjn, hvn⟩
            obtain ⟨x, hx, hxn⟩ := exists_not_mem_of_length_lt dom (j :: K.map (eval I)) hn'
              (by rw [List.length_cons, List.length_map]; omega)
            rcases List.mem_cons.mp hx with rfl | hx
            · exact hxn ((hdm _).mp hj)
            · exact hxn (hsub x hx)
          have hsm : Val.smallDomain idx ≠ none := by
            rcases hext with h' | h'
            · rw [hsz] at h'; cases h'
            · intro e'; rw [e'] at h'; cases h'
          refine Val.CanonV.ext (keyOrd idx hidx) l1 r1 (fun hn => absurd hn hsm) (fun j hj => ?_)
          rw [l2 j hj, r2 j hj]
          exact covered j (hcov j hj)
        · -- some index is not assigned
          have hb' : b = false := by
            rw [hb, hsz]
            simpa using fun e : n = K.length => hfull e.symm
          subst hb'
          rw [decide_eq_false_iff_not]
          apply differ hdne
          obtain ⟨x, hx, hxn⟩ := exists_not_mem_of_length_lt (K.map (eval I)) dom hdn
            (by rw [List.length_map]; omega)
          exact ⟨x, (hdm x).mpr hx, hxn⟩

end PySMT.Simp.ArrayRules
