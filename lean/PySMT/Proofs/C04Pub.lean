import PySMT.Proofs.C04World
/-!
# C04 — everything the public constructors build is `Normal`
-/
namespace PySMT.Manager
set_option linter.unusedVariables false

/-- every node of the manager has a content the public constructors produce -/
def NState (s : Mgr) (addr : Nid → Nat) : Prop := ∀ c k, (c, k) ∈ s.formulae → Normal s addr true c

theorem valid_mem {s : Mgr} (hs : Inv s) {a : Nid} (a0 : 0 < a) (a1 : a < s.nextId) {s' : Mgr} (hs' : Inv s')
    (he : Ext s s') {c : Content} (h : (c, a) ∈ s'.formulae) : (c, a) ∈ s.formulae := by
  obtain ⟨d, hd⟩ := hs.full a a0 a1
  rw [hs'.tinj _ _ _ h (he.sub _ hd)]; exact hd

theorem bvWidth_stable {s s' : Mgr} (hs : Inv s) (hs' : Inv s') (he : Ext s s') {a : Nid} (a0 : 0 < a)
    (a1 : a < s.nextId) : s'.bvWidth a = s.bvWidth a := bvWidth_copy hs hs' (copy_self hs hs' he a0 a1)

theorem typeOf_stable {s s' : Mgr} (hs : Inv s) (hs' : Inv s') (he : Ext s s') {a : Nid} (a0 : 0 < a)
    (a1 : a < s.nextId) : s'.typeOf a = s.typeOf a := typeOf_copy hs hs' (copy_self hs hs' he a0 a1)

theorem isConstant_stable {s s' : Mgr} (hs : Inv s) (hs' : Inv s') (he : Ext s s') {a : Nid} (a0 : 0 < a)
    (a1 : a < s.nextId) : s'.isConstant a = s.isConstant a :=
  isConstant_copy hs hs' (copy_self hs hs' he a0 a1)

/-- normality of a content whose references exist is not affected by later constructions -/
theorem Normal.mono {s s' : Mgr} (hs : Inv s) (hs' : Inv s') (he : Ext s s') {addr : Nid → Nat} {b : Bool}
    {c : Content} (hv : ∀ j ∈ c.ids, 0 < j ∧ j < s.nextId) (h : Normal s addr b c) : Normal s' addr b c := by
  have V : ∀ {x : Nid}, x ∈ c.ids → 0 < x ∧ x < s.nextId := fun hx => hv _ hx
  cases h with
  | base hb =>
    refine .base ?_
    cases hb with
    | plain h args => exact .plain h args
    | nary h a b t => exact .nary h a b t
    | strConcat a b t => exact .strConcat a b t
    | algebraic tag => exact .algebraic tag
    | bvComp x y => exact .bvComp x y
    | bvConst hw h => exact .bvConst hw h
    | real q => exact .real q
    | int n => exact .int n
    | str x => exact .str x
    | bool b => exact .bool b
    | symbol n t => exact .symbol n t
    | not a hna =>
      have va := V (x := a) (by simp [Content.ids])
      exact .not a (fun ca hca => hna ca (valid_mem hs va.1 va.2 hs' he hca))
    | quant hnt body v vs hsym =>
      exact .quant hnt body v vs (fun x hx => by
        obtain ⟨n, t, h⟩ := hsym x hx
        exact ⟨n, t, he.sub _ h⟩)
    | function a args f hf har => exact .function a args f (he.sub _ hf) har
  | bvUn h x hw =>
    have vx := V (x := x) (by simp [Content.ids])
    exact .bvUn h x (by rw [bvWidth_stable hs hs' he vx.1 vx.2]; exact hw)
  | bvBin h x y hw =>
    have vx := V (x := x) (by simp [Content.ids])
    exact .bvBin h x y (by rw [bvWidth_stable hs hs' he vx.1 vx.2]; exact hw)
  | bvConcat x y hl hr =>
    have vx := V (x := x) (by simp [Content.ids])
    have vy := V (x := y) (by simp [Content.ids])
    exact .bvConcat x y (by rw [bvWidth_stable hs hs' he vx.1 vx.2]; exact hl)
      (by rw [bvWidth_stable hs hs' he vy.1 vy.2]; exact hr)
  | bvExtract x hw h1 h2 h3 =>
    have vx := V (x := x) (by simp [Content.ids])
    exact .bvExtract x (by rw [bvWidth_stable hs hs' he vx.1 vx.2]; exact hw) h1 h2 h3
  | bvRot h x steps hw =>
    have vx := V (x := x) (by simp [Content.ids])
    exact .bvRot h x steps (by rw [bvWidth_stable hs hs' he vx.1 vx.2]; exact hw)
  | bvExt h x inc hw =>
    have vx := V (x := x) (by simp [Content.ids])
    exact .bvExt h x inc (by rw [bvWidth_stable hs hs' he vx.1 vx.2]; exact hw)
  | toReal x hty hnc =>
    have vx := V (x := x) (by simp [Content.ids])
    exact .toReal x (by rw [typeOf_stable hs hs' he vx.1 vx.2]; exact hty)
      (fun cx hcx => hnc cx (valid_mem hs vx.1 vx.2 hs' he hcx))
  | div x y hy =>
    have vy := V (x := y) (by simp [Content.ids])
    exact .div x y (fun cy hcy => hy cy (valid_mem hs vy.1 vy.2 hs' he hcy))
  | pow b e hce hcb =>
    have vb := V (x := b) (by simp [Content.ids])
    have ve := V (x := e) (by simp [Content.ids])
    exact .pow b e (by rw [isConstant_stable hs hs' he ve.1 ve.2]; exact hce)
      (by rw [isConstant_stable hs hs' he vb.1 vb.2]; exact hcb)
  | array hsame it d ps hsort hnd hconst =>
    refine .array hsame it d ps hsort hnd (fun kv hkv => ?_)
    have vk := V (x := kv.1) (by
      simp only [Content.ids, Payload.ids, List.append_nil, List.mem_cons]
      exact Or.inr (mem_flattenPairs_key hkv))
    rw [isConstant_stable hs hs' he vk.1 vk.2]; exact hconst kv hkv

theorem NState.mono_nodes {s s' : Mgr} (hs : Inv s) (hs' : Inv s') (he : Ext s s') {addr : Nid → Nat}
    (h : NState s addr) : ∀ c k, (c, k) ∈ s.formulae → Normal s' addr true c := by
  intro c k hc
  refine (h c k hc).mono hs hs' he (fun j hj => ?_)
  have := hs.closed c k hc j hj
  exact ⟨this.1, Nat.lt_trans this.2 (hs.range _ _ hc).2⟩

/-- `create_node` of a normal content keeps the state normal -/
theorem createNode_nstate {s : Mgr} (hs : Inv s) {addr : Nid → Nat} (hn : NState s addr) (c : Content)
    (hc : (∀ j ∈ c.ids, 0 < j ∧ j < s.nextId) → Normal s addr true c) :
    NState (createNode c s).2 addr := by
  have hsp := createNode_spec c s hs
  have hnx := createNode_next c s
  intro d k hd
  by_cases hk : k < s.nextId
  · have hpos := (hsp.1.range _ _ hd).1
    exact hn.mono_nodes hs hsp.1 hsp.2.1 d k (valid_mem hs hpos hk hsp.1 hsp.2.1 hd)
  · rcases hnx with h | ⟨h1, h2⟩
    · have := (hsp.1.range _ _ hd).2; omega
    · have hk' : k = s.nextId := by have := (hsp.1.range _ _ hd).2; omega
      subst hk'
      have hmem := h2
      have hdc : d = c := hsp.1.tinj _ _ _ hd hmem
      subst hdc
      have hv : ∀ j ∈ d.ids, 0 < j ∧ j < s.nextId := fun j hj => hsp.1.closed d _ hmem j hj
      exact (hc hv).mono hs hsp.1 hsp.2.1 hv

/-- programs that keep every node normal -/
def PubOK (addr : Nid → Nat) {α : Type} (p : Prog α) : Prop :=
  ∀ s, Inv s → NState s addr → NState (p.run s).2 addr

theorem PubOK.pure {addr : Nid → Nat} {α : Type} (a : α) : PubOK addr (Prog.pure a) := fun _ _ h => h
theorem PubOK.pure' {addr : Nid → Nat} {α : Type} (a : α) : PubOK addr (Pure.pure a : Prog α) := fun _ _ h => h
theorem PubOK.fail {addr : Nid → Nat} {α : Type} (e : Err) : PubOK addr (failP e : Prog α) := fun _ _ h => h

theorem PubOK.bind {addr : Nid → Nat} {α β : Type} {p : Prog α} {f : α → Prog β} (hp : PubOK addr p)
    (hf : ∀ a, PubOK addr (f a)) : PubOK addr (p.bind f) := by
  intro s hs hn
  rw [Prog.run_bind]
  have h1 := hp s hs hn
  have hi := (Prog.run_spec p s hs).1
  cases hr : p.run s with
  | mk r s1 =>
    rw [hr] at h1 hi
    cases r with
    | error e => exact h1
    | ok a => exact hf a s1 hi h1

theorem PubOK.bind' {addr : Nid → Nat} {α β : Type} {p : Prog α} {f : α → Prog β} (hp : PubOK addr p)
    (hf : ∀ a, PubOK addr (f a)) : PubOK addr (p >>= f) := PubOK.bind hp hf

theorem PubOK.read {addr : Nid → Nat} {α : Type} {k : Mgr → Prog α} (hk : ∀ s, Inv s → NState s addr →
    NState ((k s).run s).2 addr) : PubOK addr (Prog.read k) := fun s hs hn => hk s hs hn

/-- `create c` when `c` is normal in every state where its references exist -/
theorem PubOK.create {addr : Nid → Nat} {c : Content}
    (hc : ∀ s, Inv s → (∀ j ∈ c.ids, 0 < j ∧ j < s.nextId) → Normal s addr true c) : PubOK addr (create c) := by
  intro s hs hn
  rw [create_run]
  exact createNode_nstate hs hn c (hc s hs)

/-- a program that reads the state and then behaves like `q s` there -/
theorem PubOK.of_run {addr : Nid → Nat} {α : Type} {p : Prog α}
    (h : ∀ s, Inv s → NState s addr → ∃ q : Prog α, PubOK addr q ∧ p.run s = q.run s) : PubOK addr p := by
  intro s hs hn
  obtain ⟨q, hq, he⟩ := h s hs hn
  rw [he]; exact hq s hs hn

/-- a step that adds at most the returned node, whose content is normal -/
theorem step_nstate {s s' : Mgr} (hs : Inv s) (hs' : Inv s') (he : Ext s s') {addr : Nid → Nat}
    (hn : NState s addr) {c : Content} (hnext : NewIs s s' c) (hc : Normal s' addr true c) :
    NState s' addr := by
  intro d k hd
  by_cases hk : k < s.nextId
  · have hpos := (hs'.range _ _ hd).1
    exact hn.mono_nodes hs hs' he d k (valid_mem hs hpos hk hs' he hd)
  · rcases hnext with h | ⟨h1, h2⟩
    · have := (hs'.range _ _ hd).2; omega
    · have hk' : k = s.nextId := by have := (hs'.range _ _ hd).2; omega
      subst hk'
      rw [hs'.tinj _ _ _ hd h2]; exact hc

theorem pub_symbol (addr : Nid → Nat) (n : String) (t : Ty) : PubOK addr (mkSymbol n t) := by
  intro s hs hn
  rw [mkSymbol, prim_run]
  simp only [Prim.exec]
  have hsp := symbolPrim_spec n t s hs
  exact step_nstate hs hsp.1.inv hsp.1.ext hn (symbolPrim_next n t s) (.base (.symbol n t))

theorem pub_real (addr : Nid → Nat) (v : PyNum) : PubOK addr (mkReal v) := by
  intro s hs hn
  rw [mkReal, prim_run]
  simp only [Prim.exec]
  have hsp := realConst_spec v s hs
  cases hv : v.realValue with
  | error e =>
    have : realConst v s = (.error e, s) := by simp [realConst, hv]
    rw [this]; exact hn
  | ok q =>
    exact step_nstate hs hsp.1.inv hsp.1.ext hn (realConst_next v s hv) (.base (.real q))

theorem pub_int (addr : Nid → Nat) (v : PyNum) : PubOK addr (mkInt v) := by
  intro s hs hn
  rw [mkInt, prim_run]
  simp only [Prim.exec]
  have hsp := intConst_spec v s hs
  cases v with
  | int n =>
    exact step_nstate hs hsp.1.inv hsp.1.ext hn (intConst_next n s) (.base (.int n))
  | _ => simpa [intConst, PyNum.intValue] using hn

theorem pub_string (addr : Nid → Nat) (v : PyStr) : PubOK addr (mkString v) := by
  cases v with
  | other => exact PubOK.fail _
  | str x =>
    intro s hs hn
    rw [mkString, prim_run]
    simp only [Prim.exec]
    have hsp := strConst_spec x s hs
    exact step_nstate hs hsp.1.inv hsp.1.ext hn (strConst_next x s) (.base (.str x))

theorem pub_bool (addr : Nid → Nat) (v : PyNum) : PubOK addr (mkBool v) := by
  cases v <;> first | exact PubOK.pure' _ | exact PubOK.fail _

theorem pub_plain (addr : Nid → Nat) {nt : Nat} (h : nt ∈ plainNTs) (args : List Nid) : PubOK addr (mkPlain nt args) :=
  PubOK.create (fun _ _ _ => .base (.plain h args))

theorem pub_nary (addr : Nid → Nat) {nt : Nat} (h : nt = NT.AND ∨ nt = NT.OR ∨ nt = NT.PLUS ∨ nt = NT.TIMES)
    (e : Prog Nid) (he : PubOK addr e) : ∀ l, PubOK addr (mkNary nt e l)
  | [] => he
  | [a] => PubOK.pure' a
  | a :: b :: t => PubOK.create (fun _ _ _ => .base (.nary h a b t))

theorem pub_and (addr : Nid → Nat) (l : List Nid) : PubOK addr (mkAnd l) :=
  pub_nary addr (Or.inl rfl) _ (PubOK.pure' _) l
theorem pub_or (addr : Nid → Nat) (l : List Nid) : PubOK addr (mkOr l) :=
  pub_nary addr (Or.inr (Or.inl rfl)) _ (PubOK.pure' _) l
theorem pub_plus (addr : Nid → Nat) (l : List Nid) : PubOK addr (mkPlus l) :=
  pub_nary addr (Or.inr (Or.inr (Or.inl rfl))) _ (PubOK.fail _) l
theorem pub_times (addr : Nid → Nat) (l : List Nid) : PubOK addr (mkTimes l) :=
  pub_nary addr (Or.inr (Or.inr (Or.inr rfl))) _ (PubOK.fail _) l

theorem pub_strConcat (addr : Nid → Nat) : ∀ l, PubOK addr (mkStrConcat l)
  | [] => by simpa [mkStrConcat] using PubOK.fail (addr := addr) (α := Nid) Err.typeError
  | [a] => by simpa [mkStrConcat] using PubOK.fail (addr := addr) (α := Nid) Err.typeError
  | a :: b :: t => by
    have : mkStrConcat (a :: b :: t) = create ⟨NT.STR_CONCAT, a :: b :: t, .none⟩ := by simp [mkStrConcat]
    rw [this]; exact PubOK.create (fun _ _ _ => .base (.strConcat a b t))

theorem pub_algebraic (addr : Nid → Nat) (tag : String) : PubOK addr (mkAlgebraic tag) :=
  PubOK.create (fun _ _ _ => .base (.algebraic tag))

theorem pub_bvComp (addr : Nid → Nat) (x y : Nid) : PubOK addr (mkBVComp x y) :=
  PubOK.create (fun _ _ _ => .base (.bvComp x y))

/-- `getC i >>= f`: enough to treat every content the node may have -/
theorem PubOK.getC {addr : Nid → Nat} {α : Type} (i : Nid) {f : Content → Prog α}
    (hf : ∀ s c, Inv s → NState s addr → s.content? i = some c → NState ((f c).run s).2 addr) :
    PubOK addr ((getC i).bind f) := by
  intro s hs hn
  cases hc : s.content? i with
  | none => simpa [PySMT.Manager.getC, Prog.bind, Prog.run, hc] using hn
  | some c => rw [getC_run hc]; exact hf s c hs hn hc

/-- `create c` in a state where `c` is normal -/
theorem create_nstate_at {s : Mgr} (hs : Inv s) {addr : Nid → Nat} (hn : NState s addr) {c : Content}
    (hc : Normal s addr true c) : NState ((create c).run s).2 addr := by
  rw [create_run]; exact createNode_nstate hs hn c (fun _ => hc)

theorem pub_not (addr : Nid → Nat) (x : Nid) : PubOK addr (mkNot x) := by
  apply PubOK.getC
  intro s c hs hn hc
  split
  · split
    · exact hn
    · exact hn
  next hnt =>
    refine create_nstate_at hs hn (.base (.not x (fun ca hca => ?_)))
    rw [hs.tinj _ _ _ hca (content?_mem hc)]; exact hnt

theorem PubOK.bvw {addr : Nid → Nat} {α : Type} (i : Nid) {f : Nat → Prog α}
    (hf : ∀ s w, Inv s → NState s addr → s.bvWidth i = some w → NState ((f w).run s).2 addr) :
    PubOK addr ((PySMT.Manager.bvw i).bind f) := by
  intro s hs hn
  cases hw : s.bvWidth i with
  | none => simpa [PySMT.Manager.bvw, Prog.bind, Prog.run, hw] using hn
  | some w => rw [bvw_run hw]; exact hf s w hs hn hw

theorem pub_bvUn (addr : Nid → Nat) {nt : Nat} (h : nt ∈ bvUnNTs) (x : Nid) : PubOK addr (mkBVUn nt x) :=
  PubOK.bvw x (fun _ _ hs hn hw => create_nstate_at hs hn (.bvUn h x hw))

theorem pub_bvBin (addr : Nid → Nat) {nt : Nat} (h : nt ∈ bvBinNTs) (x y : Nid) : PubOK addr (mkBVBin nt x y) :=
  PubOK.bvw x (fun _ _ hs hn hw => create_nstate_at hs hn (.bvBin h x y hw))

theorem pub_bvRot (addr : Nid → Nat) {nt : Nat} (h : nt = NT.BV_ROL ∨ nt = NT.BV_ROR) (x : Nid) (n : Int) :
    PubOK addr (mkBVRot nt x n) :=
  PubOK.bvw x (fun _ _ hs hn hw => create_nstate_at hs hn (.bvRot h x n hw))

theorem pub_bvExt (addr : Nid → Nat) {nt : Nat} (h : nt = NT.BV_ZEXT ∨ nt = NT.BV_SEXT) (x : Nid) (n : Int) :
    PubOK addr (mkBVExt nt x n) :=
  PubOK.bvw x (fun _ _ hs hn hw => create_nstate_at hs hn (.bvExt h x n hw))

theorem pub_bvConcat2 (addr : Nid → Nat) (x y : Nid) : PubOK addr (mkBVConcat2 x y) :=
  PubOK.bvw x (fun s wl hs hn hl => by
    show NState (((PySMT.Manager.bvw y).bind _).run s).2 addr
    cases hr : s.bvWidth y with
    | none => simpa [PySMT.Manager.bvw, Prog.bind, Prog.run, hr] using hn
    | some wr =>
      rw [bvw_run hr]
      exact create_nstate_at hs hn (.bvConcat x y hl hr))

theorem pub_bvExtract (addr : Nid → Nat) (x : Nid) (st : Int) (en : Option Int) :
    PubOK addr (mkBVExtract x st en) :=
  PubOK.bvw x (fun s w hs hn hw => by
    simp only
    split
    next hc =>
      split
      next hsz => exact create_nstate_at hs hn (.bvExtract x hw hc.1 hc.2 hsz)
      next => exact hn
    next => exact hn)

theorem pub_bvConst (addr : Nid → Nat) (v : BvVal) (w : Option Nat) : PubOK addr (mkBV v w) := by
  have key : ∀ (n : Int) (w : Option Nat), PubOK addr
      (match w with
       | none => (failP .valueError : Prog Nid)
       | some w =>
         if w = 0 then failP .valueError
         else if n < 0 then failP .valueError
         else if n ≥ 2 ^ w then failP .valueError
         else create ⟨NT.BV_CONSTANT, [], .bv n.toNat w⟩) := by
    intro n w
    cases w with
    | none => exact PubOK.fail _
    | some w =>
      simp only
      split
      · exact PubOK.fail _
      next hw =>
        split
        · exact PubOK.fail _
        next h0 =>
          split
          · exact PubOK.fail _
          next hlt =>
            refine PubOK.create (fun _ _ _ => .base (.bvConst hw ?_))
            have : (n.toNat : Int) = n := Int.toNat_of_nonneg (by omega)
            have h2 : ((2 ^ w : Nat) : Int) = (2 : Int) ^ w := by simp
            omega
  unfold mkBV
  cases v with
  | int n => exact key n w
  | other =>
    cases w with
    | none => exact PubOK.fail _
    | some w => simp only; split <;> exact PubOK.fail _
  | str x =>
    simp only
    split
    · exact PubOK.fail _
    next n hn =>
      cases w with
      | none => exact key n (some _)
      | some w =>
        simp only
        split
        · exact key n (some _)
        · exact PubOK.fail _

theorem plain_IFF : NT.IFF ∈ plainNTs := by simp [plainNTs]
theorem plain_EQUALS : NT.EQUALS ∈ plainNTs := by simp [plainNTs]

theorem pub_xor (addr : Nid → Nat) (a b : Nid) : PubOK addr (mkXor a b) :=
  PubOK.bind' (pub_plain addr plain_IFF _) (fun i => pub_not addr i)

theorem pub_notEquals (addr : Nid → Nat) (a b : Nid) : PubOK addr (mkNotEquals a b) :=
  PubOK.bind' (pub_plain addr plain_EQUALS _) (fun i => pub_not addr i)

theorem pub_equalsOrIff (addr : Nid → Nat) (l r : Nid) : PubOK addr (mkEqualsOrIff l r) := by
  intro s hs hn
  simp only [mkEqualsOrIff, typeOfP, bind]
  rw [read_run]
  cases s.typeOf l with
  | none => simpa [Prog.bind, Prog.run] using hn
  | some t =>
    simp only [Prog.bind]
    split
    · exact pub_plain addr plain_IFF _ s hs hn
    · exact pub_plain addr plain_EQUALS _ s hs hn

theorem pub_function (addr : Nid → Nat) (f : Nid) (ps : List Nid) : PubOK addr (mkFunction f ps) := by
  unfold mkFunction
  split
  · exact PubOK.pure' _
  next hne =>
    apply PubOK.getC
    intro s c hs hn hc
    obtain ⟨nt, args, pl⟩ := c
    cases pl <;> try exact hn
    next n t =>
      cases t <;> try exact hn
      next rt tps =>
        simp only
        split
        next hlen =>
          cases ps with
          | nil => simp at hne
          | cons a rest =>
            refine create_nstate_at hs hn (.base (.function a rest f (n := n) (rt := rt) (ps := tps) ?_ hlen))
            have hN := hn _ _ (content?_mem hc)
            cases hN with
            | base hb =>
              cases hb with
              | symbol _ _ => exact content?_mem hc
        · exact hn

theorem pub_bvFold (addr : Nid → Nat) {nt : Nat} (h : nt ∈ bvBinNTs) : ∀ (l : List Nid) (res : Nid),
    PubOK addr (bvFold nt res l)
  | [], res => PubOK.pure' res
  | a :: t, res => PubOK.bind' (pub_bvBin addr h res a) (fun r => pub_bvFold addr h t r)

theorem pub_bvNary (addr : Nid → Nat) {nt : Nat} (h : nt ∈ bvBinNTs) : ∀ l, PubOK addr (mkBVNary nt l)
  | [] => PubOK.fail _
  | a :: t => pub_bvFold addr h t a

theorem pub_bvShift (addr : Nid → Nat) {nt : Nat} (h : nt ∈ bvBinNTs) (l : Nid) (r : BvArg) :
    PubOK addr (mkBVShift nt l r) := by
  cases r with
  | node r => exact pub_bvBin addr h l r
  | other => exact PubOK.fail _
  | int n =>
    exact PubOK.bvw l (fun s w hs hn _ =>
      PubOK.bind' (pub_bvConst addr (.int n) (some w)) (fun r => pub_bvBin addr h l r) s hs hn)

/-! ### composite constructors -/

theorem plain_IMPLIES : NT.IMPLIES ∈ plainNTs := by simp [plainNTs]
theorem plain_ITE : NT.ITE ∈ plainNTs := by simp [plainNTs]

theorem pub_atMostOneAux (addr : Nid → Nat) : ∀ l, PubOK addr (atMostOneAux l)
  | [] => PubOK.pure' _
  | [_] => PubOK.pure' _
  | e :: b :: rest =>
    PubOK.bind' (pub_or addr _) fun o => PubOK.bind' (pub_not addr o) fun n =>
      PubOK.bind' (pub_plain addr plain_IMPLIES _) fun imp =>
        PubOK.bind' (pub_atMostOneAux addr (b :: rest)) fun cs => PubOK.pure' _

theorem pub_atMostOne (addr : Nid → Nat) (l : List Nid) : PubOK addr (mkAtMostOne l) :=
  PubOK.bind' (pub_atMostOneAux addr l) fun cs => pub_and addr cs

theorem pub_exactlyOne (addr : Nid → Nat) (l : List Nid) : PubOK addr (mkExactlyOne l) :=
  PubOK.bind' (pub_or addr l) fun o => PubOK.bind' (pub_atMostOne addr l) fun a => pub_and addr _

theorem pub_allDiffRow (addr : Nid → Nat) (a : Nid) : ∀ l, PubOK addr (allDiffRow a l)
  | [] => PubOK.pure' _
  | b :: t =>
    PubOK.bind' (pub_equalsOrIff addr a b) fun e => PubOK.bind' (pub_not addr e) fun n =>
      PubOK.bind' (pub_allDiffRow addr a t) fun r => PubOK.pure' _

theorem pub_allDiffAux (addr : Nid → Nat) : ∀ l, PubOK addr (allDiffAux l)
  | [] => PubOK.pure' _
  | a :: t =>
    PubOK.bind' (pub_allDiffRow addr a t) fun row => PubOK.bind' (pub_allDiffAux addr t) fun rest => PubOK.pure' _

theorem pub_allDifferent (addr : Nid → Nat) (l : List Nid) : PubOK addr (mkAllDifferent l) :=
  PubOK.bind' (pub_allDiffAux addr l) fun cs => pub_and addr cs

theorem pub_ite (addr : Nid → Nat) (c a b : Nid) : PubOK addr (create ⟨NT.ITE, [c, a, b], .none⟩) :=
  pub_plain addr plain_ITE [c, a, b]

theorem pub_minMaxAux (addr : Nid → Nat) (isMin : Bool) (le : Nid → Nid → Prog Nid)
    (hle : ∀ a b, PubOK addr (le a b)) : ∀ (fuel : Nat) (l : List Nid), PubOK addr (minMaxAux isMin le fuel l)
  | 0, _ => PubOK.fail _
  | fuel + 1, [] => PubOK.fail _
  | fuel + 1, [a] => PubOK.pure' a
  | fuel + 1, [a, b] => by
    simp only [minMaxAux]
    refine PubOK.bind' (hle a b) fun c => ?_
    cases isMin <;> exact pub_ite addr _ _ _
  | fuel + 1, a :: b :: c :: t => by
    simp only [minMaxAux]
    refine PubOK.bind' (pub_minMaxAux addr isMin le hle fuel _) fun x => ?_
    refine PubOK.bind' (pub_minMaxAux addr isMin le hle fuel _) fun y => ?_
    refine PubOK.bind' (hle x y) fun z => ?_
    cases isMin <;> exact pub_ite addr _ _ _

theorem pub_minMax (addr : Nid → Nat) (isMin : Bool) {leNT : Nat} (h : leNT ∈ plainNTs) (l : List Nid) :
    PubOK addr (mkMinMax isMin leNT l) :=
  pub_minMaxAux addr isMin _ (fun a b => pub_plain addr h [a, b]) _ l

theorem pub_concatFold (addr : Nid → Nat) : ∀ (l : List Nid) (res : Nid), PubOK addr (concatFold res l)
  | [], res => PubOK.pure' res
  | a :: t, res => PubOK.bind' (pub_bvConcat2 addr res a) fun r => pub_concatFold addr t r

theorem pub_bvConcat (addr : Nid → Nat) : ∀ l, PubOK addr (mkBVConcat l)
  | [] => PubOK.fail _
  | [_] => PubOK.fail _
  | a :: b :: t => PubOK.bind' (pub_bvConcat2 addr a b) fun r => pub_concatFold addr t r

theorem pub_bvNotOf (addr : Nid → Nat) {nt : Nat} (h : nt ∈ bvBinNTs) (l r : Nid) : PubOK addr (mkBVNotOf nt l r) := by
  refine PubOK.bind' ?_ fun x => pub_bvUn addr (by simp [bvUnNTs]) x
  split
  · exact pub_bvBin addr h l r
  · exact pub_bvNary addr h _

theorem pub_bvRepeat_go (addr : Nid → Nat) (f : Nid) : ∀ (n : Nat) (res : Nid), PubOK addr (mkBVRepeat.go f res n)
  | 0, res => PubOK.pure' res
  | n + 1, res => PubOK.bind' (pub_bvConcat addr _) fun r => pub_bvRepeat_go addr f n r

theorem pub_bvRepeat (addr : Nid → Nat) (f : Nid) (count : Int) : PubOK addr (mkBVRepeat f count) :=
  pub_bvRepeat_go addr f _ f

theorem pub_sbv (addr : Nid → Nat) (v : BvVal) (w : Option Nat) : PubOK addr (mkSBV v w) := by
  unfold mkSBV
  cases v with
  | int n =>
    cases w with
    | none => exact PubOK.fail _
    | some w =>
      simp only
      repeat (first | exact PubOK.fail _ | exact pub_bvConst addr _ _ | split)
  | str x => exact pub_bvConst addr _ _
  | other => exact pub_bvConst addr _ _

theorem pub_bvPy (addr : Nid → Nat) (v : BvVal) (w : PyWidth) : PubOK addr (mkBVpy v w) := by
  unfold mkBVpy
  repeat (first | exact PubOK.fail _ | exact pub_bvConst addr _ _ | split)

theorem pub_sbvPy (addr : Nid → Nat) (v : BvVal) (w : PyWidth) : PubOK addr (mkSBVpy v w) := by
  unfold mkSBVpy
  repeat (first | exact PubOK.fail _ | exact pub_sbv addr _ _ | exact pub_bvPy addr _ _ | split)

theorem pub_bvRotPy (addr : Nid → Nat) {nt : Nat} (h : nt = NT.BV_ROL ∨ nt = NT.BV_ROR) (x : Nid) (n : Option Int) :
    PubOK addr (mkBVRotPy nt x n) := by
  cases n with
  | none => exact PubOK.fail _
  | some n => exact pub_bvRot addr h x n

theorem pub_bvExtPy (addr : Nid → Nat) {nt : Nat} (h : nt = NT.BV_ZEXT ∨ nt = NT.BV_SEXT) (x : Nid) (n : Option Int) :
    PubOK addr (mkBVExtPy nt x n) := by
  cases n with
  | none => exact PubOK.fail _
  | some n => exact pub_bvExt addr h x n

/-- a step that creates no node keeps the state normal -/
theorem nstate_same_next {s s' : Mgr} (hs : Inv s) (hs' : Inv s') (he : Ext s s') (hnx : s'.nextId = s.nextId)
    {addr : Nid → Nat} (hn : NState s addr) : NState s' addr := by
  intro d k hd
  have hr := hs'.range _ _ hd
  exact hn.mono_nodes hs hs' he d k (valid_mem hs hr.1 (by omega) hs' he hd)

theorem PubOK.setFresh {addr : Nid → Nat} {α : Type} (n : Nat) {k : Nid → Prog α} (hk : ∀ i, PubOK addr (k i)) :
    PubOK addr (Prog.prim (.setFresh n) k) := by
  intro s hs hn
  simp only [Prog.run, Prim.exec]
  have hi : Inv { s with fresh := n } := hs.congr rfl rfl rfl rfl rfl rfl
  exact hk 0 _ hi (nstate_same_next hs hi ⟨fun _ h => h, Nat.le_refl _⟩ rfl hn)

theorem PubOK.internTy {addr : Nid → Nat} {α : Type} (t : Ty) {k : Nid → Prog α} (hk : ∀ i, PubOK addr (k i)) :
    PubOK addr (Prog.prim (.internTy t) k) := by
  intro s hs hn
  simp only [Prog.run, Prim.exec]
  have h1 := internTyPrim_spec t s hs
  cases hi : internTyPrim t s with
  | mk r s1 =>
    rw [hi] at h1
    have hnx : s1.nextId = s.nextId := by
      unfold internTyPrim at hi
      split at hi <;> (cases hi; rfl)
    have hn1 := nstate_same_next hs h1.inv h1.ext hnx hn
    cases r with
    | error e => exact hn1
    | ok u => exact hk u s1 h1.inv hn1

theorem pub_fresh (addr : Nid → Nat) (t : Ty) (pre post : String) : PubOK addr (mkFreshSymbol t pre post) :=
  PubOK.read (fun s hs hn => PubOK.setFresh _ (fun _ => pub_symbol addr _ t) s hs hn)

theorem pub_toReal (addr : Nid → Nat) (f : Nid) : PubOK addr (mkToReal f) := by
  intro s hs hn
  simp only [mkToReal, typeOfP, bind]
  rw [read_run]
  cases hty : s.typeOf f with
  | none => simpa [Prog.bind, Prog.run] using hn
  | some t =>
    simp only [Prog.bind]
    split
    · exact hn
    next hnr =>
      split
      next hti =>
        subst hti
        cases hc : s.content? f with
        | none => simpa [PySMT.Manager.getC, Prog.bind, Prog.run, hc] using hn
        | some c =>
          rw [getC_run hc]
          split
          · split
            · exact pub_real addr _ s hs hn
            · exact hn
          next hnc =>
            refine create_nstate_at hs hn (.toReal f hty (fun cx hcx => ?_))
            rw [hs.tinj _ _ _ hcx (content?_mem hc)]; exact hnc
      · exact hn

theorem pub_div (addr : Nid → Nat) (l r : Nid) : PubOK addr (mkDiv l r) := by
  intro s hs hn
  show NState (((getC r).bind _).run s).2 addr
  cases hc : s.content? r with
  | none => simpa [PySMT.Manager.getC, Prog.bind, Prog.run, hc] using hn
  | some c =>
    rw [getC_run hc]
    simp only
    split
    next hz =>
      refine create_nstate_at hs hn (.div l r (fun cy hcy => ?_))
      rw [hs.tinj _ _ _ hcy (content?_mem hc)]
      simp only [Bool.or_eq_true, Bool.and_eq_true, decide_eq_true_eq, beq_iff_eq] at hz
      rcases hz with ⟨_, h2⟩ | ⟨h1, _⟩
      · exact Or.inr h2
      · exact Or.inl (by rw [h1]; decide)
    next hz =>
      split
      next hr =>
        split
        · exact PubOK.bind' (pub_real addr _) (fun inv => pub_times addr _) s hs hn
        · exact hn
      next hr =>
        refine create_nstate_at hs hn (.div l r (fun cy hcy => ?_))
        rw [hs.tinj _ _ _ hcy (content?_mem hc)]
        exact Or.inl hr

theorem pub_pow (addr : Nid → Nat) (b e : Nid) : PubOK addr (mkPow b e) := by
  intro s hs hn
  simp only [mkPow, isConstP, bind]
  rw [read_run]
  simp only [Prog.bind]
  cases he : s.isConstant e with
  | false => exact PubOK.fail _ s hs hn
  | true =>
    simp only [Bool.not_true, Bool.false_eq_true, if_false]
    simp only [Prog.run]
    cases hb : s.isConstant b with
    | false =>
      simp only [Bool.false_eq_true, if_false]
      exact create_nstate_at hs hn (.pow b e he hb)
    | true =>
      simp only [if_true]
      refine PubOK.getC b (fun s1 cb hs1 hn1 _ => ?_) s hs hn
      refine PubOK.getC e (fun s2 ce hs2 hn2 _ => ?_) s1 hs1 hn1
      split
      · split
        · exact pub_real addr _ s2 hs2 hn2
        · exact hn2
      · split
        · exact pub_real addr _ s2 hs2 hn2
        · exact hn2
      · exact hn2

theorem pub_bvSMod (addr : Nid → Nat) (x y : Nid) : PubOK addr (mkBVSMod x y) := by
  have hneg : NT.BV_NEG ∈ bvUnNTs := by simp [bvUnNTs]
  have hurem : NT.BV_UREM ∈ bvBinNTs := by simp [bvBinNTs]
  have hadd : NT.BV_ADD ∈ bvBinNTs := by simp [bvBinNTs]
  unfold mkBVSMod
  refine PubOK.bvw x (fun st m hs hn _ => ?_)
  suffices h : PubOK addr (α := Nid) _ from h st hs hn
  refine PubOK.bind' (pub_bvConst addr _ _) (fun _ => ?_)
  refine PubOK.bind' (pub_bvConst addr _ _) (fun _ => ?_)
  refine PubOK.bind' (pub_bvExtract addr _ _ _) (fun _ => ?_)
  refine PubOK.bind' (pub_bvExtract addr _ _ _) (fun _ => ?_)
  refine PubOK.bind' (pub_plain addr plain_EQUALS _) (fun _ => ?_)
  refine PubOK.bind' (pub_bvUn addr hneg _) (fun _ => ?_)
  refine PubOK.bind' (pub_plain addr plain_ITE _) (fun _ => ?_)
  refine PubOK.bind' (pub_plain addr plain_EQUALS _) (fun _ => ?_)
  refine PubOK.bind' (pub_bvUn addr hneg _) (fun _ => ?_)
  refine PubOK.bind' (pub_plain addr plain_ITE _) (fun _ => ?_)
  refine PubOK.bind' (pub_bvBin addr hurem _ _) (fun _ => ?_)
  refine PubOK.bind' (pub_bvConst addr _ _) (fun _ => ?_)
  refine PubOK.bind' (pub_plain addr plain_EQUALS _) (fun _ => ?_)
  refine PubOK.bind' (pub_plain addr plain_EQUALS _) (fun _ => ?_)
  refine PubOK.bind' (pub_plain addr plain_EQUALS _) (fun _ => ?_)
  refine PubOK.bind' (pub_and addr _) (fun _ => ?_)
  refine PubOK.bind' (pub_plain addr plain_EQUALS _) (fun _ => ?_)
  refine PubOK.bind' (pub_plain addr plain_EQUALS _) (fun _ => ?_)
  refine PubOK.bind' (pub_and addr _) (fun _ => ?_)
  refine PubOK.bind' (pub_plain addr plain_EQUALS _) (fun _ => ?_)
  refine PubOK.bind' (pub_plain addr plain_EQUALS _) (fun _ => ?_)
  refine PubOK.bind' (pub_and addr _) (fun _ => ?_)
  refine PubOK.bind' (pub_bvUn addr hneg _) (fun _ => ?_)
  refine PubOK.bind' (pub_bvNary addr hadd _) (fun _ => ?_)
  refine PubOK.bind' (pub_bvNary addr hadd _) (fun _ => ?_)
  refine PubOK.bind' (pub_bvUn addr hneg _) (fun _ => ?_)
  refine PubOK.bind' (pub_or addr _) (fun _ => ?_)
  refine PubOK.bind' (pub_plain addr plain_ITE _) (fun _ => ?_)
  refine PubOK.bind' (pub_plain addr plain_ITE _) (fun _ => ?_)
  exact pub_plain addr plain_ITE _

/-- Constructor calls covered so far by the public-constructor invariant. -/
inductive IsPub (addr : Nid → Nat) : Prog Nid → Prop
  | symbol (n : String) (t : Ty) : IsPub addr (mkSymbol n t)
  | real (v : PyNum) : IsPub addr (mkReal v)
  | int (v : PyNum) : IsPub addr (mkInt v)
  | string (v : PyStr) : IsPub addr (mkString v)
  | bool (v : PyNum) : IsPub addr (mkBool v)
  | plain {nt : Nat} (h : nt ∈ plainNTs) (args : List Nid) : IsPub addr (mkPlain nt args)
  | and (l : List Nid) : IsPub addr (mkAnd l)
  | or (l : List Nid) : IsPub addr (mkOr l)
  | plus (l : List Nid) : IsPub addr (mkPlus l)
  | times (l : List Nid) : IsPub addr (mkTimes l)
  | strConcat (l : List Nid) : IsPub addr (mkStrConcat l)
  | algebraic (tag : String) : IsPub addr (mkAlgebraic tag)
  | not (x : Nid) : IsPub addr (mkNot x)
  | xor (a b : Nid) : IsPub addr (mkXor a b)
  | notEquals (a b : Nid) : IsPub addr (mkNotEquals a b)
  | equalsOrIff (a b : Nid) : IsPub addr (mkEqualsOrIff a b)
  | function (f : Nid) (ps : List Nid) : IsPub addr (mkFunction f ps)
  | bv (v : BvVal) (w : Option Nat) : IsPub addr (mkBV v w)
  | bvUn {nt : Nat} (h : nt ∈ bvUnNTs) (x : Nid) : IsPub addr (mkBVUn nt x)
  | bvBin {nt : Nat} (h : nt ∈ bvBinNTs) (x y : Nid) : IsPub addr (mkBVBin nt x y)
  | bvNary {nt : Nat} (h : nt ∈ bvBinNTs) (l : List Nid) : IsPub addr (mkBVNary nt l)
  | bvShift {nt : Nat} (h : nt ∈ bvBinNTs) (l : Nid) (r : BvArg) : IsPub addr (mkBVShift nt l r)
  | bvRot {nt : Nat} (h : nt = NT.BV_ROL ∨ nt = NT.BV_ROR) (x : Nid) (n : Int) : IsPub addr (mkBVRot nt x n)
  | bvExt {nt : Nat} (h : nt = NT.BV_ZEXT ∨ nt = NT.BV_SEXT) (x : Nid) (n : Int) : IsPub addr (mkBVExt nt x n)
  | bvConcat2 (x y : Nid) : IsPub addr (mkBVConcat2 x y)
  | bvExtract (x : Nid) (st : Int) (en : Option Int) : IsPub addr (mkBVExtract x st en)
  | bvComp (x y : Nid) : IsPub addr (mkBVComp x y)
  | fresh (t : Ty) (pre post : String) : IsPub addr (mkFreshSymbol t pre post)
  | toReal (f : Nid) : IsPub addr (mkToReal f)
  | div (l r : Nid) : IsPub addr (mkDiv l r)
  | pow (b e : Nid) : IsPub addr (mkPow b e)
  | minMax (isMin : Bool) {leNT : Nat} (h : leNT ∈ plainNTs) (l : List Nid) : IsPub addr (mkMinMax isMin leNT l)
  | atMostOne (l : List Nid) : IsPub addr (mkAtMostOne l)
  | exactlyOne (l : List Nid) : IsPub addr (mkExactlyOne l)
  | allDifferent (l : List Nid) : IsPub addr (mkAllDifferent l)
  | bvConcat (l : List Nid) : IsPub addr (mkBVConcat l)
  | bvNotOf {nt : Nat} (h : nt ∈ bvBinNTs) (l r : Nid) : IsPub addr (mkBVNotOf nt l r)
  | bvSMod (x y : Nid) : IsPub addr (mkBVSMod x y)
  | bvRepeat (f : Nid) (n : Int) : IsPub addr (mkBVRepeat f n)
  | sbv (v : BvVal) (w : Option Nat) : IsPub addr (mkSBV v w)
  | bvPy (v : BvVal) (w : PyWidth) : IsPub addr (mkBVpy v w)
  | sbvPy (v : BvVal) (w : PyWidth) : IsPub addr (mkSBVpy v w)
  | bvRotPy {nt : Nat} (h : nt = NT.BV_ROL ∨ nt = NT.BV_ROR) (x : Nid) (n : Option Int) : IsPub addr (mkBVRotPy nt x n)
  | bvExtPy {nt : Nat} (h : nt = NT.BV_ZEXT ∨ nt = NT.BV_SEXT) (x : Nid) (n : Option Int) : IsPub addr (mkBVExtPy nt x n)
  | ret (i : Nid) : IsPub addr (pure i)
  | reject (e : Err) : IsPub addr (failP e)
  | internTy (t : Ty) : IsPub addr (Prog.prim (.internTy t) Prog.pure)

theorem IsPub.ok {addr : Nid → Nat} {p : Prog Nid} (h : IsPub addr p) : PubOK addr p := by
  cases h with
  | symbol n t => exact pub_symbol addr n t
  | real v => exact pub_real addr v
  | int v => exact pub_int addr v
  | string v => exact pub_string addr v
  | bool v => exact pub_bool addr v
  | plain h args => exact pub_plain addr h args
  | and l => exact pub_and addr l
  | or l => exact pub_or addr l
  | plus l => exact pub_plus addr l
  | times l => exact pub_times addr l
  | strConcat l => exact pub_strConcat addr l
  | algebraic tag => exact pub_algebraic addr tag
  | not x => exact pub_not addr x
  | xor a b => exact pub_xor addr a b
  | notEquals a b => exact pub_notEquals addr a b
  | equalsOrIff a b => exact pub_equalsOrIff addr a b
  | function f ps => exact pub_function addr f ps
  | bv v w => exact pub_bvConst addr v w
  | bvUn h x => exact pub_bvUn addr h x
  | bvBin h x y => exact pub_bvBin addr h x y
  | bvNary h l => exact pub_bvNary addr h l
  | bvShift h l r => exact pub_bvShift addr h l r
  | bvRot h x n => exact pub_bvRot addr h x n
  | bvExt h x n => exact pub_bvExt addr h x n
  | bvConcat2 x y => exact pub_bvConcat2 addr x y
  | bvExtract x st en => exact pub_bvExtract addr x st en
  | bvComp x y => exact pub_bvComp addr x y
  | fresh t pre post => exact pub_fresh addr t pre post
  | toReal f => exact pub_toReal addr f
  | div l r => exact pub_div addr l r
  | pow b e => exact pub_pow addr b e
  | minMax isMin h l => exact pub_minMax addr isMin h l
  | atMostOne l => exact pub_atMostOne addr l
  | exactlyOne l => exact pub_exactlyOne addr l
  | allDifferent l => exact pub_allDifferent addr l
  | bvConcat l => exact pub_bvConcat addr l
  | bvNotOf h l r => exact pub_bvNotOf addr h l r
  | bvSMod x y => exact pub_bvSMod addr x y
  | bvRepeat f n => exact pub_bvRepeat addr f n
  | sbv v w => exact pub_sbv addr v w
  | bvPy v w => exact pub_bvPy addr v w
  | sbvPy v w => exact pub_sbvPy addr v w
  | bvRotPy h x n => exact pub_bvRotPy addr h x n
  | bvExtPy h x n => exact pub_bvExtPy addr h x n
  | ret i => exact PubOK.pure' i
  | reject e => exact PubOK.fail e
  | internTy t => exact PubOK.internTy t (fun i => PubOK.pure i)

theorem arrayCheck_const {s : Mgr} {it : Ty} {d : Nid} : ∀ {l : List (Nid × Nid)},
    arrayCheck s it d l = none → ∀ kv ∈ l, s.isConstant kv.1 = true
  | [], _, kv, hkv => by cases hkv
  | (k, v) :: t, h, kv, hkv => by
    simp only [arrayCheck] at h
    split at h
    · cases h
    next hk =>
      split at h
      · cases h
      · rcases List.mem_cons.mp hkv with rfl | h'
        · simpa using hk
        · exact arrayCheck_const h kv h'

/-- Constructor calls whose documented precondition refers to the current state:
    `ForAll/Exists` over symbols, `Array` over a dict (distinct index objects). -/
inductive IsPubAt (addr : Nid → Nat) (s : Mgr) : Prog Nid → Prop
  | pub {p : Prog Nid} (h : IsPub addr p) : IsPubAt addr s p
  | quant {nt : Nat} (hnt : nt = NT.FORALL ∨ nt = NT.EXISTS) (vs : List Nid) (body : Nid)
      (hsym : ∀ x ∈ vs, ∃ n t, (symC n t, x) ∈ s.formulae) : IsPubAt addr s (mkQuant nt vs body)
  | array (it : Ty) (d : Nid) (assign : List (Nid × Nid)) (hd : DistinctAddr addr assign) :
      IsPubAt addr s (mkArray addr it d assign)

theorem IsPubAt.ok {addr : Nid → Nat} {s : Mgr} {p : Prog Nid} (h : IsPubAt addr s p) (hs : Inv s)
    (hn : NState s addr) : NState (p.run s).2 addr := by
  cases h with
  | pub h => exact h.ok s hs hn
  | quant hnt vs body hsym =>
    cases vs with
    | nil => exact hn
    | cons v t =>
      simp only [mkQuant, List.isEmpty_cons, Bool.false_eq_true, if_false]
      exact create_nstate_at hs hn (.base (.quant hnt body v t hsym))
  | array it d assign hd =>
    simp only [mkArray, Prog.run]
    split
    · exact hn
    next hchk =>
      refine create_nstate_at hs hn (.array rfl it d _ (arrayAssignments_sorted hd)
        (fun kv hkv => (mem_arrayAssignments.mp hkv).2) (fun kv hkv => ?_))
      have hmem : kv ∈ sortByAddr addr assign := by
        have := (mem_arrayAssignments (addr := addr) (d := d)).mp hkv
        exact mem_sortByAddr.mpr this.1
      exact arrayCheck_const hchk kv hmem

/-- manager states reached through the public constructors only (`normalize` as a step of the
    history is not included yet) -/
inductive PubReach (addr : Nid → Nat) : Mgr → Prop
  | init (tc : Content → Bool) : PubReach addr (Mgr.initWith tc)
  | step {s : Mgr} (p : Prog Nid) (hp : IsPubAt addr s p) : PubReach addr s → PubReach addr (p.run s).2

theorem nstate_init (addr : Nid → Nat) (tc : Content → Bool) : NState (Mgr.initWith tc) addr := by
  intro c k hc
  simp only [Mgr.initWith, List.mem_cons, Prod.mk.injEq, List.not_mem_nil, or_false] at hc
  rcases hc with ⟨rfl, _⟩ | ⟨rfl, _⟩
  · exact .base (.bool false)
  · exact .base (.bool true)

theorem PubReach.spec {addr : Nid → Nat} {s : Mgr} (h : PubReach addr s) : Reachable s ∧ NState s addr := by
  induction h with
  | init tc => exact ⟨Reachable.init tc, nstate_init addr tc⟩
  | step p hp _ ih => exact ⟨Reachable.step p ih.1, hp.ok ih.1.inv ih.2⟩

/-- no array value: normal also for the copy into another manager -/
theorem Normal.to_false {s : Mgr} {addr : Nid → Nat} {c : Content} (h : Normal s addr true c)
    (hna : c.nodeType ≠ NT.ARRAY_VALUE) : Normal s addr false c := by
  cases h with
  | base hb => exact .base hb
  | bvUn h x hw => exact .bvUn h x hw
  | bvBin h x y hw => exact .bvBin h x y hw
  | bvConcat x y hl hr => exact .bvConcat x y hl hr
  | bvExtract x hw h1 h2 h3 => exact .bvExtract x hw h1 h2 h3
  | bvRot h x steps hw => exact .bvRot h x steps hw
  | bvExt h x inc hw => exact .bvExt h x inc hw
  | toReal x hty hnc => exact .toReal x hty hnc
  | div x y hy => exact .div x y hy
  | pow b e he hb => exact .pow b e he hb
  | array _ it d ps _ _ _ => exact absurd rfl hna

end PySMT.Manager
