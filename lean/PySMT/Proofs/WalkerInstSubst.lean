import PySMT.Proofs.WalkerInst
import PySMT.Impl.Subst

/-! `Substituter` (push override at quantifiers) as an instance of `walk_eq_fold_direct`. -/

namespace PySMT.Walker
open PySMT.Subst

/-- `Substituter`'s callbacks for a map `σ`; at a quantifier (push override: a fresh sub-substituter walks the body
    with the restricted map, then `walk_forall/exists`) the whole nested computation is the callback. -/
def substCb (ms : Bool) (h : FnHandler) (σ : TMap) (n : Term) (rs : List Term) : Term :=
  if n.op.isQuantifier then substG ms h σ n
  else
    let built := build h n.op n.payload rs
    if ms then (match lookup σ built with | some v => v | none => built)
    else (match lookup σ n with | some v => v | none => built)

theorem bodyMap_nonquant (σ : TMap) (op : Op) (p : Payload) (h : op.isQuantifier = false) : bodyMap σ op p = σ := by
  simp [bodyMap, h]

theorem substG_fold (ms : Bool) (h : FnHandler) (σ : TMap) (t : Term) :
    substG ms h σ t = if t.op.isQuantifier then substCb ms h σ t []
                      else substCb ms h σ t (t.args.map (substG ms h σ)) := by
  cases t with
  | node op args p =>
    cases hq : op.isQuantifier with
    | true => simp [substCb, Term.op, hq]
    | false =>
      simp only [Term.op, hq, Bool.false_eq_true, if_false, substCb, Term.args, Term.payload]
      rw [substG, bodyMap_nonquant σ op p hq]
      cases ms with
      | true =>
        simp only [if_true]
        cases lookup σ (build h op p (List.map (substG true h σ) args)) <;> rfl
      | false =>
        simp only [Bool.false_eq_true, if_false]
        cases lookup σ (Term.node op args p) <;> rfl

/-- **substitute_walk_eq_partial**: a `Substituter` walk with map `σ` (one-shot memo, push override at quantifiers)
    returns the recursive model `substG ms h σ t` of C05.
    `_partial`: at a quantifier the code starts a *fresh* sub-substituter on the body with the restricted map and then
    calls `walk_forall/exists`; here that nested computation is the callback itself (`substCb` at a quantifier is
    `substG` of the quantified node), i.e. the nested walk is assumed -- not proved -- to compute its own recursive
    model.  (It does by this very theorem applied to the body, by induction on the quantifier depth; the induction
    is not carried out.)  Below quantifier-free terms the statement is unconditional. -/
theorem substitute_walk_eq_partial {M E : Type} [MemoLike M Term Term] [LawfulMemo M Term Term]
    (ms : Bool) (h : FnHandler) (σ : TMap) (inval shortcut : Bool) (fuel : Nat) (t : Term) (s : WState M Term)
    (hi : FoldIdle (fun n => n.op.isQuantifier) (substG ms h σ) s) (hfuel : 2 * t.size ≤ fuel) :
    let r := walk termGraph (fun n => n.op.isQuantifier) (fun _ => cbOf (E := E) (substCb ms h σ))
               inval shortcut fuel t s
    r.1 = .ok (substG ms h σ t) ∧ FoldIdle (fun n => n.op.isQuantifier) (substG ms h σ) r.2 :=
  walk_eq_fold_direct (fun n => n.op.isQuantifier) (substCb ms h σ) (substG ms h σ) (substG_fold ms h σ)
    inval shortcut fuel t s hi hfuel

end PySMT.Walker
