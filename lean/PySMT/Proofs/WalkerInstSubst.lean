import PySMT.Proofs.WalkerInst
import PySMT.Proofs.WalkerCross
import PySMT.Impl.Subst

/-! `Substituter` (push override at quantifiers) as an instance of `walk_eq_fold_direct`. -/

namespace PySMT.Walker
open PySMT.Subst

/-- `Substituter`'s callbacks for a map `σ`; at a quantifier (push override: a fresh sub-substituter walks the body
    with the restricted map, then `walk_forall/exists`) the whole nested computation is the callback. -/
def substCb (ms : Bool) (h : FnHandler) (σ : TMap) (n : Term) (rs : List Term) : Term :=
  if n.op.isQuantifier then substG ms h σ n
  else
    let built := build h n.op n.payload rs
    if ms then (match lookup σ built with | some v => v | none => built)
    else (match lookup σ n with | some v => v | none => built)

theorem bodyMap_nonquant (σ : TMap) (op : Op) (p : Payload) (h : op.isQuantifier = false) : bodyMap σ op p = σ := by
  simp [bodyMap, h]

theorem substG_fold (ms : Bool) (h : FnHandler) (σ : TMap) (t : Term) :
    substG ms h σ t = if t.op.isQuantifier then substCb ms h σ t []
                      else substCb ms h σ t (t.args.map (substG ms h σ)) := by
  cases t with
  | node op args p =>
    cases hq : op.isQuantifier with
    | true => simp [substCb, Term.op, hq]
    | false =>
      simp only [Term.op, hq, Bool.false_eq_true, if_false, substCb, Term.args, Term.payload]
      rw [substG, bodyMap_nonquant σ op p hq]
      cases ms with
      | true =>
        simp only [if_true]
        cases lookup σ (build h op p (List.map (substG true h σ) args)) <;> rfl
      | false =>
        simp only [Bool.false_eq_true, if_false]
        cases lookup σ (Term.node op args p) <;> rfl

/-- **substitute_walk_eq_partial**: a `Substituter` walk with map `σ` (one-shot memo, push override at quantifiers)
    returns the recursive model `substG ms h σ t` of C05.
    `_partial`: at a quantifier the code starts a *fresh* sub-substituter on the body with the restricted map and then
    calls `walk_forall/exists`; here that nested computation is the callback itself (`substCb` at a quantifier is
    `substG` of the quantified node), i.e. the nested walk is assumed -- not proved -- to compute its own recursive
    model.  (It does by this very theorem applied to the body, by induction on the quantifier depth; the induction
    is not carried out.)  Below quantifier-free terms the statement is unconditional. -/
theorem substitute_walk_eq_partial {M E : Type} [MemoLike M Term Term] [LawfulMemo M Term Term]
    (ms : Bool) (h : FnHandler) (σ : TMap) (inval shortcut : Bool) (fuel : Nat) (t : Term) (s : WState M Term)
    (hi : FoldIdle (fun n => n.op.isQuantifier) (substG ms h σ) s) (hfuel : dagBound t ≤ fuel) :
    let r := walk termGraph (fun n => n.op.isQuantifier) (fun _ => cbOf (E := E) (substCb ms h σ))
               inval shortcut fuel t s
    r.1 = .ok (substG ms h σ t) ∧ (r.2.iters ≤ s.iters + dagBound t ∧ r.2.pushes ≤ s.pushes + dagBound t) ∧
    FoldIdle (fun n => n.op.isQuantifier) (substG ms h σ) r.2 :=
  walk_eq_fold_direct (fun n => n.op.isQuantifier) (substCb ms h σ) (substG ms h σ) (substG_fold ms h σ)
    inval shortcut fuel t s hi hfuel

theorem foldIdle_of_blank {M R : Type} [MemoLike M Term R] [LawfulMemo M Term R] (d : Term → Bool) (F : Term → R)
    (s : WState M Term) (hb : Blank s) : FoldIdle d F s :=
  { ok := fun n r hr => (by rw [hb.memo n] at hr; cases hr)
    down := fun n hn => (by rw [hb.memo n] at hn; cases hn)
    stack := hb.stack }

/-- **substitute_maps_indep_partial** (C14; review §4.1): the environment's one substituter object (one-shot memo)
    used with maps σ₁, σ₂, … in a row: the i-th call returns `substG … σᵢ tᵢ` -- the result for its own map, not
    influenced by the maps used before -- and leaves the substituter blank.
    `_partial` for the same reason as `substitute_walk_eq_partial` (the nested sub-substituter at quantifiers). -/
theorem substitute_maps_indep_partial {M E : Type} [MemoLike M Term Term] [LawfulMemo M Term Term]
    (ms : Bool) (h : FnHandler) (shortcut : Bool) (fuel : Nat) (qs : List (TMap × Term))
    (hfuel : ∀ q ∈ qs, dagBound q.2 ≤ fuel) (s : WState M Term) (hb : Blank s) :
    (walksF termGraph (fun n => n.op.isQuantifier) true shortcut fuel
        (qs.map (fun q => ((fun _ => cbOf (E := E) (substCb ms h q.1)), q.2))) s).1
      = qs.map (fun q => WOut.ok (substG ms h q.1 q.2)) ∧
    Blank (walksF termGraph (fun n => n.op.isQuantifier) true shortcut fuel
        (qs.map (fun q => ((fun _ => cbOf (E := E) (substCb ms h q.1)), q.2))) s).2 := by
  induction qs generalizing s with
  | nil => exact ⟨rfl, hb⟩
  | cons q qs ih =>
    have hq := (walk_eq_fold_direct (E := E) (fun n => n.op.isQuantifier) (substCb ms h q.1) (substG ms h q.1)
      (substG_fold ms h q.1) true shortcut fuel q.2 s (foldIdle_of_blank _ _ s hb) (hfuel q List.mem_cons_self)).1
    have hb' := walk_blank_of_blank termGraph (fun n => n.op.isQuantifier)
      (fun _ => cbOf (E := E) (substCb ms h q.1)) shortcut fuel q.2 s hb
    obtain ⟨h1, h2⟩ := ih (fun q' hq' => hfuel q' (List.mem_cons_of_mem _ hq')) _ hb'
    simp only [List.map_cons, walksF]
    exact ⟨by rw [hq, h1], h2⟩

/-- **probe_after_failed_substitute_partial** (C15; review §4.1): the exact scenario of the property text.  After a
    `substitute` on the shared substituter that failed -- ANY callbacks `fbad`: an ill-typed map raising deep in the
    DAG, an injected fault --, substitutions with other maps return what they return on a new substituter. -/
theorem probe_after_failed_substitute_partial {M E : Type} [MemoLike M Term Term] [LawfulMemo M Term Term]
    (ms : Bool) (h : FnHandler) (fbad : List Term → Term → List Term → Except E Term) (shortcut : Bool)
    (fuelBad fuel : Nat) (b : Term) (qs : List (TMap × Term)) (hfuel : ∀ q ∈ qs, dagBound q.2 ≤ fuel)
    (s : WState M Term) (hb : Blank s) :
    (walksF termGraph (fun n => n.op.isQuantifier) true shortcut fuel
        (qs.map (fun q => ((fun _ => cbOf (E := E) (substCb ms h q.1)), q.2)))
        (walk termGraph (fun n => n.op.isQuantifier) fbad true shortcut fuelBad b s).2).1
      = qs.map (fun q => WOut.ok (substG ms h q.1 q.2)) :=
  (substitute_maps_indep_partial ms h shortcut fuel qs hfuel _
    (walk_blank_of_blank termGraph _ fbad shortcut fuelBad b s hb)).1

end PySMT.Walker
