import PySMT.Proofs.C09RotDag
import PySMT.Proofs.C09RotTree
import PySMT.Proofs.C07DagSound
/-!
# C09: the side condition `RotOK` of the agreement theorem (C08) for what the DAG printer writes, rotations included

`rotOK_toSexpDag_full`: the DAG printer's text of a quantifier-free `Printable` formula satisfies `RotOK`, with no
restriction on `rotate_left` / `rotate_right` nodes (`C09RotDag.lean` covers only formulas without such nodes).

The width of the operand of a rotation is what the *standard reader* finds for the memoized text of the operand — possibly
a generated name `.def_k` — in the scope of the `let` bindings written so far. So the proof rides on the memoization
invariant `InvL` of C07 (`Proofs/C07DagRun.lean`): `InvR` adds to it

* `rmemo`: every memoized text satisfies `RotOK` in the scope of the bindings written so far and in every later scope
  (`RValid`, the companion of C07's `Valid`); for a node written inline this is `rotOK_node` (C09RotTree) with the `Reads`
  facts of the children from `Valid`;
* `rchain`: the right-hand sides of the bindings written so far, oldest first, satisfy `RotOK` each in the scope that
  `readBinds` builds from the earlier ones (`RotChain`).

`rotOK_letChain` turns `RotChain` and the key's `RotOK` in the final scope into `RotOK` of the let chain.
-/
namespace PySMT.Parser.Agree
open PySMT PySMT.Parser PySMT.Std PySMT.Sexp PySMT.Printer

/-! ## one `let` with one binding: `rdBindings` against C07's `readBinds` -/

theorem rotBinds_nil (env : SEnv) (sc : List Binding) : rotBinds env sc [] = true := by rw [rotBinds]

/-- the scope extension that `rdBindings` computes for `((dn e))` is the one `readBinds` describes -/
theorem readBinds_of_rdBindings (env : SEnv) (sc : List Binding) (dn : String) (e : Sexp) (new : List Binding)
    (h : rdBindings env sc [.list [.atom dn, e]] = .ok new) : readBinds env sc [(dn, e)] = .ok (new ++ sc) := by
  simp only [rdBindings, readBinds] at h ⊢
  cases hs : symName? dn with
  | none => rw [hs] at h; cases h
  | some n =>
    rw [hs] at h
    simp only [] at h ⊢
    by_cases hth : theorySymbols.contains n = true
    · simp only [hth, if_true] at h; cases h
    · simp only [hth, Bool.false_eq_true, if_false] at h ⊢
      cases hr : rd env sc e with
      | error err => rw [hr] at h; cases h
      | ok r =>
        obtain ⟨t, ty⟩ := r
        rw [hr] at h
        simp only [Except.ok.injEq] at h
        subst h
        rfl

theorem readBinds_cons_eq (env : SEnv) (sc : List Binding) (dn : String) (e : Sexp) (rest : List (String × Sexp)) :
    readBinds env sc ((dn, e) :: rest) =
      match readBinds env sc [(dn, e)] with
      | .ok sc' => readBinds env sc' rest
      | .error err => .error err :=
  readBinds_append env [(dn, e)] rest sc

/-! ## the chain condition -/

/-- processing the bindings oldest first, each right-hand side satisfies `RotOK` in the scope built from the earlier ones -/
def RotChain (env : SEnv) : List Binding → List (String × Sexp) → Prop
  | _, [] => True
  | sc, (dn, e) :: rest =>
    RotOK env sc e = true ∧ ∀ sc', readBinds env sc [(dn, e)] = .ok sc' → RotChain env sc' rest

theorem rotChain_append (env : SEnv) : ∀ (l1 l2 : List (String × Sexp)) (sc : List Binding), RotChain env sc l1 →
    (∀ sc', readBinds env sc l1 = .ok sc' → RotChain env sc' l2) → RotChain env sc (l1 ++ l2)
  | [], _, sc, _, h2 => h2 sc rfl
  | (dn, e) :: l1, l2, sc, h1, h2 => by
    refine ⟨h1.1, fun sc' hsc' => rotChain_append env l1 l2 sc' (h1.2 sc' hsc') (fun sc'' h'' => h2 sc'' ?_)⟩
    rw [readBinds_cons_eq, hsc']
    exact h''

/-- **the let chain**: if the right-hand sides satisfy the chain condition and the key satisfies `RotOK` in the final scope,
the nested single-binding `let`s satisfy `RotOK` -/
theorem rotOK_letChain (env : SEnv) : ∀ (binds : List (String × Sexp)) (sc : List Binding) (key : Sexp),
    RotChain env sc binds → (∀ sc', readBinds env sc binds = .ok sc' → RotOK env sc' key = true) →
    RotOK env sc (letChain binds key) = true
  | [], sc, _, _, hk => hk sc rfl
  | (dn, e) :: rest, sc, key, hc, hk => by
    rw [letChain, RotOK_let, rotLet_eq, rotBinds_cons, hc.1, rotBinds_nil]
    simp only [Bool.and_self, Bool.true_and]
    cases hb : rdBindings env sc [.list [.atom dn, e]] with
    | error err => rfl
    | ok new =>
      simp only []
      have hrb := readBinds_of_rdBindings env sc dn e new hb
      apply rotOK_letChain env rest (new ++ sc) key (hc.2 _ hrb)
      intro sc' hsc'
      apply hk
      rw [readBinds_cons_eq, hrb]
      exact hsc'

/-! ## `RotOK` of a memoized text in all later scopes -/

/-- the memoized S-expression `m` satisfies `RotOK` in the scope `L` and in every later scope (companion of `Valid`) -/
def RValid (env : SEnv) (names : List String) (n : Nat) (L : LS) (m : Sexp) : Prop :=
  ∀ L', Ext names n L L' → RotOK env (toSc L') m = true

theorem RValid.mono {env : SEnv} {names : List String} {n n1 : Nat} {L L1 : LS} {m : Sexp}
    (h : RValid env names n L m) (he : Ext names n L L1) (hn : n ≤ n1) : RValid env names n1 L1 m :=
  fun L' h' => h L' (he.trans h' hn)

theorem rvalid_atom (env : SEnv) (names : List String) (n : Nat) (L : LS) (a : String) :
    RValid env names n L (.atom a) := fun _ _ => RotOK_atom env _ a

theorem bindNames_cons_atom (n : String) (e : Sexp) (b : List (Sexp × Sexp)) :
    Printer.bindNames ((Sexp.atom n, e) :: b) = (n, e) :: Printer.bindNames b := rfl

/-- C07's invariant, and: every memoized text and every right-hand side satisfies the rotation side condition where the
standard reads it -/
structure InvR (sp : Spell) (env : SEnv) (names : List String) (t : Term) (L : LS) (st : DSt) : Prop where
  inv : InvL sp env names t L st
  rmemo : ∀ sm ∈ st.memo, RValid env names st.seed L sm.2
  rchain : RotChain env [] (Printer.bindNames st.binds).reverse

theorem rvalid_memoGet {env : SEnv} {names : List String} {n : Nat} {L : LS} {memo : List (Term × Sexp)}
    (h : ∀ sm ∈ memo, RValid env names n L sm.2) (a : Term) : RValid env names n L (memoGet memo a) := by
  unfold memoGet
  cases hl : memo.lookup a with
  | none => exact rvalid_atom env names n L _
  | some m => exact h (a, m) (mem_of_lookup a m memo hl)

section
variable (sp : Spell) (hsp : SpellStd sp) (env : SEnv) (names : List String) (t : Term)
include hsp

/-- **one node**: what the DAG printer writes for the expanded node on top of the stack, from the memoized results of its
arguments, satisfies `RotOK` in the scope of the bindings written so far and in every later scope -/
theorem rvalid_node {L : LS} {st : DSt} (inv : InvR sp env names t L st) (op : Op) (args : List Term) (p : Payload)
    (rest : List (Bool × Term)) (hst : st.stack = (true, .node op args p) :: rest) :
    RValid env names st.seed L (nodeSexp sp false op p args (args.map (memoGet st.memo))) := by
  intro L' hext
  have hok : DagOK names env (.node op args p) = true := inv.inv.stack (true, .node op args p) (by rw [hst]; simp)
  obtain ⟨hq, ⟨τ, hS, hty⟩, hnok, _, hargs⟩ := dagOK_node hok
  have h1 : op ≠ .forall_ := by intro e; subst e; simp [Op.isQuantifier] at hq
  have h2 : op ≠ .exists_ := by intro e; subst e; simp [Op.isQuantifier] at hq
  have hkids := kids_valid sp env names t inv.inv op args p rest hst
  exact rotOK_node sp hsp env (toSc L') false (memoGet st.memo) [] op args p τ h1 h2
    (fun a _ => rvalid_memoGet inv.rmemo a L' hext)
    (fun a ha => ⟨dagOK_typed (hargs a ha), hkids a ha L' hext⟩) hty hS hnok

/-- `inv_pop_let` of C07 with the new scope made explicit -/
theorem inv_pop_let_scope {L : LS} {st : DSt} (inv : InvL sp env names t L st) (op : Op) (args : List Term) (p : Payload)
    (rest : List (Bool × Term)) (hst : st.stack = (true, .node op args p) :: rest) :
    InvL sp env names t
      ((nextFree names (names.length + 1) st.seed, unfoldAVw false (.node op args p), tyD (.node op args p)) :: L)
      (bindNew names st rest (.node op args p) (nodeSexp sp false op p args (args.map (memoGet st.memo)))) := by
  have hok : DagOK names env (.node op args p) = true := inv.stack (true, .node op args p) (by rw [hst]; simp)
  have hkids := kids_valid sp env names t inv op args p rest hst
  let k := nextFree names (names.length + 1) st.seed
  have hk1 : st.seed ≤ k := (nextFree_spec names (names.length + 1) st.seed).2.1
  have hk2 : defName k ∉ names := nextFree_fresh names st.seed
  let s := Term.node op args p
  let e := nodeSexp sp false op p args (args.map (memoGet st.memo))
  have hrd : rd env (toSc L) e = .ok (U false s) :=
    node_valid sp hsp env names op args p hok L inv.fresh (memoGet st.memo)
      (fun a ha => hkids a ha L (Ext.refl names st.seed L))
  have hext : Ext names st.seed L ((k, unfoldAVw false s, tyD s) :: L) :=
    ⟨[(k, unfoldAVw false s, tyD s)], rfl, by simpa using ⟨hk1, hk2⟩⟩
  refine ⟨?_, bindNew_ok names st rest _ _ inv.bok, ?_, ?_,
    fun e he => inv.stack e (by rw [hst]; exact List.mem_cons_of_mem _ he), ?_, ?_⟩
  · show readBinds env [] (Printer.bindNames ((Sexp.atom (defName k), e) :: st.binds)).reverse = _
    simp only [Printer.bindNames, List.map_cons, List.reverse_cons]
    rw [readBinds_append]
    have hb := inv.binds
    simp only [Printer.bindNames] at hb
    rw [hb]
    simp only [readBinds, defName_symName, defName_not_theory, Bool.false_eq_true, if_false, hrd, U]
    rfl
  · intro x hx
    rcases List.mem_cons.1 hx with rfl | hx
    · exact hk2
    · exact inv.fresh x hx
  · intro sm hsm
    rcases List.mem_cons.1 hsm with rfl | hsm
    · exact ⟨hok, valid_defName env names k L s (tyD s) rfl⟩
    · exact ⟨(inv.memo sm hsm).1, (inv.memo sm hsm).2.mono hext (by show st.seed ≤ k + 1; omega)⟩
  · have h := inv.avail
    rw [hst] at h
    refine StackOK.mono rest [s] [] ?_ h.2
    intro c hc
    rcases hc with hc | hc
    · exact Or.inl (lookup_cons_isSome _ _ _ _ hc)
    · have : c = s := by simpa using hc
      subst this; exact Or.inl (by show ((List.lookup _ ((s, _) :: st.memo))).isSome = true; rw [Printer.lookup_cons_self]; rfl)
  · rcases inv.root with h | ⟨e', he, het⟩
    · exact Or.inl (lookup_cons_isSome _ _ _ _ h)
    · rw [hst] at he
      rcases List.mem_cons.1 he with rfl | he
      · simp only at het; subst het
        exact Or.inl (by show ((List.lookup _ ((s, _) :: st.memo))).isSome = true; rw [Printer.lookup_cons_self]; rfl)
      · exact Or.inr ⟨e', he, het⟩

/-- an operator printed through a `let` -/
theorem invR_pop_let {L : LS} {st : DSt} (inv : InvR sp env names t L st) (op : Op) (args : List Term) (p : Payload)
    (rest : List (Bool × Term)) (hst : st.stack = (true, .node op args p) :: rest) :
    ∃ L', InvR sp env names t L' (bindNew names st rest (.node op args p)
      (nodeSexp sp false op p args (args.map (memoGet st.memo)))) := by
  have hnode := rvalid_node sp hsp env names t inv op args p rest hst
  have hk1 : st.seed ≤ nextFree names (names.length + 1) st.seed := (nextFree_spec names (names.length + 1) st.seed).2.1
  have hk2 : defName (nextFree names (names.length + 1) st.seed) ∉ names := nextFree_fresh names st.seed
  have hext : Ext names st.seed L
      ((nextFree names (names.length + 1) st.seed, unfoldAVw false (.node op args p), tyD (.node op args p)) :: L) :=
    ⟨[(_, _, _)], rfl, by simpa using ⟨hk1, hk2⟩⟩
  refine ⟨_, inv_pop_let_scope sp hsp env names t inv.inv op args p rest hst, ?_, ?_⟩
  · intro sm hsm
    rcases List.mem_cons.1 hsm with rfl | hsm
    · exact rvalid_atom env names _ _ _
    · exact (inv.rmemo sm hsm).mono hext (by show st.seed ≤ _ + 1; omega)
  · show RotChain env [] (Printer.bindNames ((Sexp.atom (defName _), _) :: st.binds)).reverse
    rw [bindNames_cons_atom, List.reverse_cons]
    apply rotChain_append env _ _ _ inv.rchain
    intro sc' hsc'
    rw [inv.inv.binds] at hsc'
    simp only [Except.ok.injEq] at hsc'
    subst hsc'
    exact ⟨hnode L (Ext.refl names st.seed L), fun _ _ => trivial⟩

/-- an inline operator -/
theorem invR_pop_inline {L : LS} {st : DSt} (inv : InvR sp env names t L st) (op : Op) (args : List Term) (p : Payload)
    (rest : List (Bool × Term)) (hst : st.stack = (true, .node op args p) :: rest) :
    InvR sp env names t L
      { st with stack := rest, memo := (Term.node op args p, nodeSexp sp false op p args (args.map (memoGet st.memo))) :: st.memo } := by
  refine ⟨inv_pop_inline sp hsp env names t inv.inv op args p rest hst, ?_, inv.rchain⟩
  intro sm hsm
  rcases List.mem_cons.1 hsm with rfl | hsm
  · exact rvalid_node sp hsp env names t inv op args p rest hst
  · exact inv.rmemo sm hsm

/-- one iteration of the work loop preserves the invariant -/
theorem dagStep_invR (sub : Term → Sexp) {L : LS} {st : DSt} (inv : InvR sp env names t L st) :
    ∃ L', InvR sp env names t L' (dagStep sp names sub st) := by
  unfold dagStep
  split
  · exact ⟨L, inv⟩
  · next expanded op args p rest hst =>
    dsimp only
    split
    · next hexp =>
      subst hexp
      split
      · next hm => exact ⟨L, inv_pop_memoized sp env names t inv.inv _ rest hst hm, inv.rmemo, inv.rchain⟩
      · split
        · exact invR_pop_let sp hsp env names t inv op args p rest hst
        · exact ⟨L, invR_pop_inline sp hsp env names t inv op args p rest hst⟩
    · next hexp =>
      have hexp' : expanded = false := by simpa using hexp
      subst hexp'
      split
      · next hq =>
        have hok : DagOK names env (.node op args p) = true := inv.inv.stack (false, .node op args p) (by rw [hst]; simp)
        have := (dagOK_node hok).1
        rw [hq] at this
        exact absurd this (by simp)
      · exact ⟨L, inv_expand sp env names t inv.inv op args p rest hst, inv.rmemo, inv.rchain⟩

theorem dagLoop_invR (sub : Term → Sexp) : ∀ (fuel : Nat) {L : LS} {st : DSt}, InvR sp env names t L st →
    ∃ L', InvR sp env names t L' (dagLoop sp names sub fuel st)
  | 0, L, _, inv => ⟨L, inv⟩
  | fuel + 1, L, st, inv => by
    unfold dagLoop
    split
    · exact ⟨L, inv⟩
    · obtain ⟨L', inv'⟩ := dagStep_invR sp hsp env names t sub inv
      exact dagLoop_invR sub fuel inv'

end

/-! ## the DAG printer -/

/-- the side condition for a quantifier-free formula that satisfies `DagOK` -/
theorem rotOK_toSexpDag_dagOK (env : SEnv) (t : Term) (hok : DagOK (dagNames t) env t = true) :
    RotOK env [] (toSexpDag t) = true := by
  unfold toSexpDag dagFuel
  obtain ⟨n, hn, hle⟩ : ∃ n, 8 * t.size + 16 = n + 1 ∧ 2 * t.size ≤ n := ⟨8 * t.size + 15, by omega, by omega⟩
  rw [hn, dagPrint]
  generalize hsub : dagPrint dagSpell n = sub
  have hinitL : InvL dagSpell env (dagNames t) t [] { stack := [(false, t)], memo := [], seed := 0, binds := [] } := by
    refine ⟨rfl, fun _ h => by simp at h, fun _ h => by simp at h, fun _ h => by simp at h, ?_, ?_, ?_⟩
    · intro e he
      have : e = (false, t) := by simpa using he
      subst this; exact hok
    · exact ⟨fun h => by simp at h, trivial⟩
    · exact Or.inr ⟨(false, t), by simp, rfl⟩
  have hinit : InvR dagSpell env (dagNames t) t [] { stack := [(false, t)], memo := [], seed := 0, binds := [] } :=
    ⟨hinitL, fun _ h => by simp at h, trivial⟩
  obtain ⟨L, inv⟩ := dagLoop_invR dagSpell dagSpell_std env (dagNames t) t sub n hinit
  have hdone := dagLoop_done dagSpell (dagNames t) sub n
    { stack := [(false, t)], memo := [], seed := 0, binds := [] }
    (by simp [stackWeight, entryWeight]; omega)
  show RotOK env [] (letWrap (dagLoop dagSpell (dagNames t) sub n
      { stack := [(false, t)], memo := [], seed := 0, binds := [] }).binds
    (memoGet (dagLoop dagSpell (dagNames t) sub n { stack := [(false, t)], memo := [], seed := 0, binds := [] }).memo t)) = _
  generalize dagLoop dagSpell (dagNames t) sub n { stack := [(false, t)], memo := [], seed := 0, binds := [] } = st
    at inv hdone ⊢
  have hchain := letWrap_eq_chain (Printer.bindNames st.binds) (memoGet st.memo t)
  rw [bindNames_map inv.inv.bok] at hchain
  rw [hchain]
  apply rotOK_letChain env _ [] _ inv.rchain
  intro sc' hsc'
  rw [inv.inv.binds] at hsc'
  simp only [Except.ok.injEq] at hsc'
  subst hsc'
  exact rvalid_memoGet inv.rmemo t L (Ext.refl _ _ _)

/-- **The side condition of the agreement theorem holds for the DAG printer's text** of every quantifier-free `Printable`
formula, rotations included: `rotOK_toSexpDag` without the hypothesis `noRot t`. -/
theorem rotOK_toSexpDag_full (env : SEnv) (t : Term) (hP : Printer.Printable env [] t = true)
    (hq : Printer.noQuant t = true) : RotOK env [] (Printer.toSexpDag t) = true :=
  rotOK_toSexpDag_dagOK env t (dagOK_of_printable' env t hP hq)

end PySMT.Parser.Agree
