import PySMT.Proofs.C09Logic
import PySMT.Proofs.C08Script3
/-!
# C08: the logic name is irrelevant for texts without a numeral in term position

`Corr env sc Γ` demands `Γ.intArith.getD true = !env.realsOnly`. After `(set-logic QF_BV)` (also `QF_UF`, `QF_AX`, `QF_ABV`,
`QF_AUFBV`, `BV`, …) the parser model has `intArith = some false` (a numeral would be read as a Real) while the standard
reads numerals as Int: `logicOK "QF_BV" = false`, and neither the term-level theorems (`readTerm_sound`) nor the
script-level refinement (`step_setLogic`, `decls_refine`, `assert_after_decls`) can be instantiated for such a script.

The logic name enters the standard reader only in `Std.atomTerm` (a numeral token is Int or Real by `env.realsOnly`).
This file makes "texts without a numeral in term position do not care" a theorem, as `Proofs/C09Logic.lean` did for the
printer side:

* `numFreeS` (decidable): atoms that are not numerals, string literals, indexed identifiers `(_ tok …)` whose elements are
  all atoms (`(_ bv1 8)`, `(_ extract 3 1)`, `(_ BitVec 8)`), lists of numeral-free elements. (The restriction "all atoms" on
  `(_ …)` is needed for `RotOK`, which — unlike `rd` — descends into every list: `rotOK_needs_atoms`.)
* `rd_logic_swap`, `rdList_logic_swap`, `rdBindings_logic_swap`, `readStdTy_logic_swap`, `readStd_logic_swap`: the standard's
  reading of a numeral-free text is the same under every logic name; `sortStd_logic`, `rdSortedVars_logic`: sorts never
  depend on it; `fragS_logic` (no hypothesis), `rotOK_logic` (numeral-free texts).
* `readTerm_sound_numfree`: `readTerm_sound` with the standard's reading taken under the script's REAL logic, the parser's
  environment corresponding to it up to the logic name.
* script level: `swapSt`, `RefinesL`; the declaration commands other than `set-logic` commute with renaming the logic
  (`stepStd_swap`, `runStdFrom_swap`), their side conditions and expected `Command`s do not depend on it (`declCmdOK_swap`,
  `declCommand_swap`, `declCmdsOK_swap`, `declCommands_swap`); `decls_refineL`; `step_setLogic_swap` (ANY logic name the
  standard accepts); `decls_refine_swap_from`, `decls_refine_swap` (`set-logic L` followed by declarations);
  `stepAssert_swap`, `step_assert_numfree`, `assert_after_decls_numfree`.
* `BVScript`: the script `(set-logic QF_BV) (declare-fun v () (_ BitVec 8)) (declare-const w (_ BitVec 8))
  (assert (bvult v (bvadd w (_ bv1 8))))` end to end (`script_QF_BV`), and the numeral `1` as the witness that `numFreeS`
  is needed (`parser_reads_real`, `std_reads_int`).
-/
namespace PySMT.Parser.Agree
open PySMT PySMT.Parser PySMT.Std PySMT.Sexp

/-! ## numeral-free texts -/

def isAtom : Sexp → Bool
  | .atom _ => true
  | _ => false

/-- an indexed identifier `(_ tok …)`: the reserved word `_` followed by atoms only (`(_ bv1 8)`, `(_ extract 3 1)`,
`(_ BitVec 8)`): its numerals are indices, not terms -/
def indexedId : List Sexp → Bool
  | .atom h :: r => h == "_" && r.all isAtom
  | _ => false

mutual
/-- no numeral in term position: an atom that is not a numeral, a string literal, an indexed identifier `(_ …)`, or a
list all of whose elements are numeral-free -/
def numFreeS : Sexp → Bool
  | .atom tok => (numeral? tok).isNone
  | .str _ => true
  | .list xs => indexedId xs || numFreeL xs
def numFreeL : List Sexp → Bool
  | [] => true
  | s :: r => numFreeS s && numFreeL r
end

/-- numeral-free: a `let` with a binary literal, a quantifier over `(_ BitVec 8)`, an `extract` -/
example : numFreeS (.list [.atom "let", .list [.list [.atom "y", .atom "#b1"]],
    .list [.atom "forall", .list [.list [.atom "x", .list [.atom "_", .atom "BitVec", .atom "8"]]],
      .list [.atom "=", .list [.list [.atom "_", .atom "extract", .atom "0", .atom "0"], .atom "x"], .atom "y"]]]) = true
    ∧ numFreeS (.list [.atom "+", .atom "x", .atom "1"]) = false := by
  decide +kernel

/-! ## sorts do not depend on the logic name -/

mutual
theorem sortStd_logic (env : SEnv) (l : String) : (s : Sexp) → sortStd { env with logic := l } s = sortStd env s
  | .atom tok => by simp only [sortStd]; rfl
  | .str _ => by simp only [sortStd]
  | .list [] => by simp only [sortStd]
  | .list (.str _ :: _) => by simp only [sortStd]
  | .list (.list _ :: _) => by simp only [sortStd]
  | .list (.atom h :: args) => by
    have ih := sortStdList_logic env l args
    rw [sortStd.eq_def, sortStd.eq_def env]
    split
    · rfl
    · rfl
    · rfl
    · rename_i heq; cases heq; simp only [ih]; rfl
    · rfl
termination_by s => sizeOf s
decreasing_by
  all_goals (try subst_vars)
  all_goals simp_wf
  all_goals omega
theorem sortStdList_logic (env : SEnv) (l : String) :
    (ss : List Sexp) → sortStdList { env with logic := l } ss = sortStdList env ss
  | [] => by simp only [sortStdList]
  | s :: r => by simp only [sortStdList, sortStd_logic env l s, sortStdList_logic env l r]
termination_by ss => sizeOf ss
decreasing_by
  all_goals (try subst_vars)
  all_goals simp_wf
  all_goals omega
end

theorem rdSortedVars_logic (env : SEnv) (l : String) :
    (vs : List Sexp) → rdSortedVars { env with logic := l } vs = rdSortedVars env vs
  | [] => by simp only [rdSortedVars]
  | v :: rest => by
    have ih := rdSortedVars_logic env l rest
    rw [rdSortedVars.eq_def, rdSortedVars.eq_def env]
    split
    · rfl
    · rename_i heq; cases heq; simp only [ih, sortStd_logic]
    · rfl

/-! ## the pieces of the reader that do not recurse -/

theorem atomTerm_logic (env : SEnv) (l : String) (sc : List Binding) (tok : String) (h : numeral? tok = none) :
    atomTerm { env with logic := l } sc tok = atomTerm env sc tok := by
  unfold atomTerm
  simp only [h]
  rfl

theorem applySym_logic (env : SEnv) (l : String) (sc : List Binding) (f : String) (as : List TT) :
    applySym { env with logic := l } sc f as = applySym env sc f as := rfl

theorem applyHead_logic (env : SEnv) (l : String) (hd : List Sexp) (as : List TT) :
    applyHead { env with logic := l } hd as = applyHead env hd as := by
  unfold applyHead
  simp only [sortStd_logic]

theorem rdLet_congr (env : SEnv) (l : String) (sc : List Binding) (args : List Sexp)
    (h : ∀ bs body, args = [.list bs, body] →
      rdBindings { env with logic := l } sc bs = rdBindings env sc bs ∧
      ∀ new, rd { env with logic := l } (new ++ sc) body = rd env (new ++ sc) body) :
    rdLet { env with logic := l } sc args = rdLet env sc args := by
  rw [rdLet.eq_def, rdLet.eq_def env]
  split
  · rename_i bs body
    obtain ⟨h1, h2⟩ := h bs body rfl
    simp only [h1, h2]
  · rfl

theorem rdQuant_congr (env : SEnv) (l : String) (sc : List Binding) (b : Bool) (args : List Sexp)
    (h : ∀ vs body, args = [.list vs, body] → ∀ sc', rd { env with logic := l } sc' body = rd env sc' body) :
    rdQuant { env with logic := l } sc b args = rdQuant env sc b args := by
  rw [rdQuant.eq_def, rdQuant.eq_def env]
  split
  · rename_i vs body
    simp only [rdSortedVars_logic, h vs body rfl]
  · rfl

theorem rdAnnot_congr (env : SEnv) (l : String) (sc : List Binding) (args : List Sexp)
    (h : ∀ t r, args = t :: r → rd { env with logic := l } sc t = rd env sc t) :
    rdAnnot { env with logic := l } sc args = rdAnnot env sc args := by
  rw [rdAnnot.eq_def, rdAnnot.eq_def env]
  split
  · exact h _ _ rfl
  · rfl

theorem rdAs_congr (env : SEnv) (l : String) (sc : List Binding) (args : List Sexp)
    (h : ∀ x sort, args = [x, sort] → rd { env with logic := l } sc x = rd env sc x) :
    rdAs { env with logic := l } sc args = rdAs env sc args := by
  rw [rdAs.eq_def, rdAs.eq_def env]
  split
  · rename_i x sort
    simp only [h x sort rfl, sortStd_logic]
  · rfl

theorem rdBindings_headU (env : SEnv) (sc : List Binding) (bs : List Sexp) (h : indexedId bs = true) :
    rdBindings env sc bs = .error "ill-formed let binding" := by
  match bs, h with
  | .atom t :: r, _ =>
    rw [rdBindings.eq_def]

theorem numFreeS_list (xs : List Sexp) : numFreeS (.list xs) = (indexedId xs || numFreeL xs) := by rw [numFreeS]
theorem numFreeL_cons (s : Sexp) (r : List Sexp) : numFreeL (s :: r) = (numFreeS s && numFreeL r) := by rw [numFreeL]
theorem numFreeS_atom (tok : String) : numFreeS (.atom tok) = (numeral? tok).isNone := by rw [numFreeS]

theorem numFreeL_cons_inv {s : Sexp} {r : List Sexp} (h : numFreeL (s :: r) = true) :
    numFreeS s = true ∧ numFreeL r = true := by
  rw [numFreeL_cons, Bool.and_eq_true] at h; exact h

theorem symName_underscore : symName? "_" = none := by decide +kernel

/-! ## the reader -/

mutual
theorem rd_logic_swap (env : SEnv) (l : String) :
    (s : Sexp) → numFreeS s = true → ∀ sc, rd { env with logic := l } sc s = rd env sc s
  | .atom tok, h, sc => by
    rw [numFreeS_atom, Option.isNone_iff_eq_none] at h
    rw [rd, rd]
    exact atomTerm_logic env l sc tok h
  | .str lit, _, sc => by rw [rd, rd]
  | .list [], _, sc => by rw [rd, rd]
  | .list (.str _ :: _), _, sc => by rw [rd, rd]
  | .list (.list hd :: args), h, sc => by
    have hargs : numFreeL args = true := by
      rw [numFreeS_list] at h
      have : indexedId (.list hd :: args) = false := rfl
      rw [this, Bool.false_or] at h
      exact (numFreeL_cons_inv h).2
    rw [rd, rd, rdList_logic_swap env l args hargs sc]
    simp only [applyHead_logic]
  | .list (.atom hd :: args), h, sc => by
    by_cases hu : hd = "_"
    · subst hu
      rw [rd, rd]
      simp (config := { decide := true }) only [if_true, if_false]
    · have ha : numFreeL args = true := by
        rw [numFreeS_list] at h
        have : (hd == "_") = false := by simpa using hu
        simp only [indexedId, this, Bool.false_and, Bool.false_or] at h
        exact (numFreeL_cons_inv h).2
      have e1 : rdLet { env with logic := l } sc args = rdLet env sc args :=
        rdLet_congr env l sc args (fun bs body he => by
          have hb : numFreeS (.list bs) = true ∧ numFreeS body = true := by
            rw [he] at ha
            exact ⟨(numFreeL_cons_inv ha).1, (numFreeL_cons_inv (numFreeL_cons_inv ha).2).1⟩
          refine ⟨?_, fun new => rd_logic_swap env l body hb.2 (new ++ sc)⟩
          cases hh : indexedId bs with
          | true => rw [rdBindings_headU _ sc bs hh, rdBindings_headU _ sc bs hh]
          | false =>
            have := hb.1
            rw [numFreeS_list, hh, Bool.false_or] at this
            exact rdBindings_logic_swap env l bs this sc)
      have e2 : ∀ b, rdQuant { env with logic := l } sc b args = rdQuant env sc b args := fun b =>
        rdQuant_congr env l sc b args (fun vs body he sc' => by
          have hb : numFreeS body = true := by
            rw [he] at ha
            exact (numFreeL_cons_inv (numFreeL_cons_inv ha).2).1
          exact rd_logic_swap env l body hb sc')
      have e3 : rdAnnot { env with logic := l } sc args = rdAnnot env sc args :=
        rdAnnot_congr env l sc args (fun t r he => by
          have hb : numFreeS t = true := by
            rw [he] at ha
            exact (numFreeL_cons_inv ha).1
          exact rd_logic_swap env l t hb sc)
      have e4 : rdAs { env with logic := l } sc args = rdAs env sc args :=
        rdAs_congr env l sc args (fun x sort he => by
          have hb : numFreeS x = true := by
            rw [he] at ha
            exact (numFreeL_cons_inv ha).1
          exact rd_logic_swap env l x hb sc)
      have e5 := rdList_logic_swap env l args ha sc
      rw [rd, rd]
      simp only [e1, e2, e3, e4, e5, applySym_logic]
termination_by s => sizeOf s
decreasing_by
  all_goals (try subst_vars)
  all_goals simp_wf
  all_goals omega
theorem rdList_logic_swap (env : SEnv) (l : String) :
    (ss : List Sexp) → numFreeL ss = true → ∀ sc, rdList { env with logic := l } sc ss = rdList env sc ss
  | [], _, sc => by rw [rdList, rdList]
  | s :: r, h, sc => by
    rw [rdList, rdList, rd_logic_swap env l s (numFreeL_cons_inv h).1 sc,
      rdList_logic_swap env l r (numFreeL_cons_inv h).2 sc]
termination_by ss => sizeOf ss
decreasing_by
  all_goals (try subst_vars)
  all_goals simp_wf
  all_goals omega
theorem rdBindings_logic_swap (env : SEnv) (l : String) :
    (bs : List Sexp) → numFreeL bs = true → ∀ sc, rdBindings { env with logic := l } sc bs = rdBindings env sc bs
  | [], _, sc => by rw [rdBindings, rdBindings]
  | b :: rest, h, sc => by
    have ih := rdBindings_logic_swap env l rest (numFreeL_cons_inv h).2 sc
    have ihb : ∀ x e, b = .list [.atom x, e] → x ≠ "_" → rd { env with logic := l } sc e = rd env sc e :=
      fun x e he hx => by
        have hb := (numFreeL_cons_inv h).1
        rw [he, numFreeS_list] at hb
        have : (x == "_") = false := by simpa using hx
        simp only [indexedId, this, Bool.false_and, Bool.false_or] at hb
        exact rd_logic_swap env l e (numFreeL_cons_inv (numFreeL_cons_inv hb).2).1 sc
    rw [rdBindings.eq_def, rdBindings.eq_def env]
    split
    · rfl
    · rename_i x e rest' heq
      cases heq
      by_cases hx : x = "_"
      · subst hx
        simp only [symName_underscore]
      · simp only [ihb x e rfl hx, ih]
    · rfl
termination_by bs => sizeOf bs
decreasing_by
  all_goals (try subst_vars)
  all_goals simp_wf
  all_goals omega
end

theorem readStdTy_logic_swap (env : SEnv) (l : String) (bound : List Sym) (s : Sexp) (h : numFreeS s = true) :
    readStdTy { env with logic := l } bound s = readStdTy env bound s :=
  rd_logic_swap env l s h _

/-- **the standard's reading of a numeral-free text does not depend on the logic name** -/
theorem readStd_logic_swap (env : SEnv) (l : String) (bound : List Sym) (s : Sexp) (h : numFreeS s = true) :
    readStd { env with logic := l } bound s = readStd env bound s := by
  unfold readStd
  rw [readStdTy_logic_swap env l bound s h]

/-! ## the fragment `FragS` does not mention the logic name -/

theorem fragVars_logic (env : SEnv) (l : String) (ρ : List (String × Sym)) :
    (vs : List Sexp) → fragVars { env with logic := l } ρ vs = fragVars env ρ vs
  | [] => by simp only [fragVars]
  | v :: rest => by
    have ih := fragVars_logic env l ρ rest
    rw [fragVars.eq_def, fragVars.eq_def env]
    split
    · rfl
    · rename_i heq; cases heq; simp only [ih, sortStd_logic]; rfl
    · rfl

theorem letNameOK_logic (env : SEnv) (l : String) (x : String) :
    letNameOK { env with logic := l } x = letNameOK env x := rfl

mutual
theorem fragS_logic (env : SEnv) (l : String) (ρ : List (String × Sym)) :
    (s : Sexp) → FragS { env with logic := l } ρ s = FragS env ρ s
  | .atom _ => by rw [FragS, FragS]
  | .str _ => by rw [FragS, FragS]
  | .list [] => by rw [FragS, FragS]
  | .list (.str _ :: _) => by rw [FragS, FragS]
  | .list (.list hd :: args) => by rw [FragS, FragS, fragL_logic env l ρ args]
  | .list (.atom hd :: args) => by
    rw [FragS, FragS]
    simp only [fragL_logic env l ρ args, fragLet_logic env l ρ args, fragQuant_logic env l ρ args]
termination_by s => sizeOf s
decreasing_by
  all_goals (try subst_vars)
  all_goals simp_wf
  all_goals omega
theorem fragL_logic (env : SEnv) (l : String) (ρ : List (String × Sym)) :
    (ss : List Sexp) → FragL { env with logic := l } ρ ss = FragL env ρ ss
  | [] => by rw [FragL, FragL]
  | s :: r => by rw [FragL, FragL, fragS_logic env l ρ s, fragL_logic env l ρ r]
termination_by ss => sizeOf ss
decreasing_by
  all_goals (try subst_vars)
  all_goals simp_wf
  all_goals omega
theorem fragLet_logic (env : SEnv) (l : String) (ρ : List (String × Sym)) :
    (ss : List Sexp) → fragLet { env with logic := l } ρ ss = fragLet env ρ ss
  | [] => by rw [fragLet, fragLet]
  | bs :: rest => by rw [fragLet, fragLet, fragLetB_logic env l ρ bs, fragBody_logic env l ρ rest]
termination_by ss => sizeOf ss
decreasing_by
  all_goals (try subst_vars)
  all_goals simp_wf
  all_goals omega
theorem fragLetB_logic (env : SEnv) (l : String) (ρ : List (String × Sym)) :
    (s : Sexp) → fragLetB { env with logic := l } ρ s = fragLetB env ρ s
  | .list bs => by rw [fragLetB, fragLetB, fragBinds_logic env l ρ bs]
  | .atom _ => by simp only [fragLetB]
  | .str _ => by simp only [fragLetB]
termination_by s => sizeOf s
decreasing_by
  all_goals (try subst_vars)
  all_goals simp_wf
  all_goals omega
theorem fragBody_logic (env : SEnv) (l : String) (ρ : List (String × Sym)) :
    (ss : List Sexp) → fragBody { env with logic := l } ρ ss = fragBody env ρ ss
  | [body] => by rw [fragBody, fragBody, fragS_logic env l ρ body]
  | [] => by simp only [fragBody]
  | _ :: _ :: _ => by simp only [fragBody]
termination_by ss => sizeOf ss
decreasing_by
  all_goals (try subst_vars)
  all_goals simp_wf
  all_goals omega
theorem fragBinds_logic (env : SEnv) (l : String) (ρ : List (String × Sym)) :
    (ss : List Sexp) → fragBinds { env with logic := l } ρ ss = fragBinds env ρ ss
  | [] => by rw [fragBinds, fragBinds]
  | b :: rest => by rw [fragBinds, fragBinds, fragBind_logic env l ρ b, fragBinds_logic env l ρ rest]
termination_by ss => sizeOf ss
decreasing_by
  all_goals (try subst_vars)
  all_goals simp_wf
  all_goals omega
theorem fragBind_logic (env : SEnv) (l : String) (ρ : List (String × Sym)) :
    (b : Sexp) → fragBind { env with logic := l } ρ b = fragBind env ρ b
  | b => by
    have ih : ∀ x e, b = .list [.atom x, e] → FragS { env with logic := l } ρ e = FragS env ρ e :=
      fun x e he => fragS_logic env l ρ e
    rw [fragBind.eq_def, fragBind.eq_def env]
    split
    · rename_i x e
      rw [ih x e rfl, letNameOK_logic]
    · rfl
termination_by b => sizeOf b
decreasing_by
  all_goals (try subst_vars)
  all_goals simp_wf
  all_goals omega
theorem fragQuant_logic (env : SEnv) (l : String) (ρ : List (String × Sym)) :
    (ss : List Sexp) → fragQuant { env with logic := l } ρ ss = fragQuant env ρ ss
  | [] => by rw [fragQuant, fragQuant]
  | vs :: rest => by
    have ih := fragBody_logic env l ρ rest
    cases vs with
    | list vl => simp only [fragQuant, fragVars_logic, ih]
    | atom _ => simp only [fragQuant, ih]
    | str _ => simp only [fragQuant, ih]
termination_by ss => sizeOf ss
decreasing_by
  all_goals (try subst_vars)
  all_goals simp_wf
  all_goals omega
end

/-! ## the side condition `RotOK` of a numeral-free text does not depend on the logic name -/

theorem indexedId_inv {xs : List Sexp} (h : indexedId xs = true) : ∃ r, xs = .atom "_" :: r ∧ r.all isAtom = true := by
  match xs, h with
  | .atom t :: r, h =>
    simp only [indexedId, Bool.and_eq_true, beq_iff_eq] at h
    exact ⟨r, by rw [h.1], h.2⟩

theorem numFreeS_list_inv {xs : List Sexp} (h : numFreeS (.list xs) = true) :
    (∃ r, xs = .atom "_" :: r ∧ r.all isAtom = true) ∨ numFreeL xs = true := by
  rw [numFreeS_list, Bool.or_eq_true] at h
  rcases h with h | h
  · exact Or.inl (indexedId_inv h)
  · exact Or.inr h

theorem rotOK_atom (env : SEnv) (sc : List Binding) (e : Sexp) (h : isAtom e = true) : RotOK env sc e = true := by
  cases e with
  | atom _ => rw [RotOK]
  | str _ => cases h
  | list _ => cases h

theorem rotOKL_atoms (env : SEnv) (sc : List Binding) :
    (args : List Sexp) → args.all isAtom = true → RotOKL env sc args = true
  | [], _ => by rw [RotOKL]
  | e :: r, h => by
    simp only [List.all_cons, Bool.and_eq_true] at h
    rw [RotOKL_cons, rotOK_atom env sc e h.1, rotOKL_atoms env sc r h.2]
    rfl

theorem rotBinds_atoms (env : SEnv) (sc : List Binding) :
    (bs : List Sexp) → bs.all isAtom = true → rotBinds env sc bs = true
  | [], _ => by rw [rotBinds]
  | e :: r, h => by
    simp only [List.all_cons, Bool.and_eq_true] at h
    rw [rotBinds, rotBinds_atoms env sc r h.2]
    cases e with
    | atom _ => simp only [rotBind, Bool.and_self]
    | str _ => cases h.1
    | list _ => cases h.1

theorem rotHeadOK_logic (env : SEnv) (l : String) (sc : List Binding) (hd args : List Sexp)
    (h : numFreeL args = true) :
    rotHeadOK { env with logic := l } sc hd args = rotHeadOK env sc hd args := by
  unfold rotHeadOK
  split
  · rename_i u f k x
    rw [rd_logic_swap env l x (numFreeL_cons_inv h).1 sc]
  · rfl

/-- why an indexed identifier must consist of atoms to count as numeral-free: `RotOK` descends into every list, also
into the (ill-formed) `(_ foo ((_ rotate_left 5) (ite (= 1 1.0) #b1 #b0)))`, and there the logic name matters -/
theorem rotOK_needs_atoms :
    RotOK { logic := "QF_LRA" } [] (.list [.atom "_", .atom "foo", .list [.list [.atom "_", .atom "rotate_left", .atom "5"],
      .list [.atom "ite", .list [.atom "=", .atom "1", .atom "1.0"], .atom "#b1", .atom "#b0"]]]) = false ∧
    RotOK { logic := "ALL" } [] (.list [.atom "_", .atom "foo", .list [.list [.atom "_", .atom "rotate_left", .atom "5"],
      .list [.atom "ite", .list [.atom "=", .atom "1", .atom "1.0"], .atom "#b1", .atom "#b0"]]]) = true := by
  decide +kernel

mutual
theorem rotOK_logic (env : SEnv) (l : String) :
    (s : Sexp) → numFreeS s = true → ∀ sc, RotOK { env with logic := l } sc s = RotOK env sc s
  | .atom _, _, sc => by rw [RotOK, RotOK]
  | .str _, _, sc => by rw [RotOK, RotOK]
  | .list [], _, sc => by rw [RotOK, RotOK]
  | .list (.str _ :: _), _, sc => by rw [RotOK, RotOK]
  | .list (.list hd :: args), h, sc => by
    have hargs : numFreeL args = true := by
      rw [numFreeS_list] at h
      have : indexedId (.list hd :: args) = false := rfl
      rw [this, Bool.false_or] at h
      exact (numFreeL_cons_inv h).2
    rw [RotOK_head, RotOK_head, rotHeadOK_logic env l sc hd args hargs, rotOKL_logic env l args hargs sc]
  | .list (.atom hd :: args), h, sc => by
    rcases numFreeS_list_inv h with ⟨r, he, hr⟩ | h
    · simp only [List.cons.injEq, Sexp.atom.injEq] at he
      obtain ⟨rfl, rfl⟩ := he
      rw [RotOK_app _ sc "_" args (by decide) (by decide), RotOK_app _ sc "_" args (by decide) (by decide),
        rotOKL_atoms _ sc args hr, rotOKL_atoms _ sc args hr]
    · have ha := (numFreeL_cons_inv h).2
      rw [RotOK, RotOK]
      simp only [rotLet_logic env l args ha sc, rotQuant_logic env l args ha sc, rotOKL_logic env l args ha sc]
termination_by s => sizeOf s
decreasing_by
  all_goals (try subst_vars)
  all_goals simp_wf
  all_goals omega
theorem rotOKL_logic (env : SEnv) (l : String) :
    (ss : List Sexp) → numFreeL ss = true → ∀ sc, RotOKL { env with logic := l } sc ss = RotOKL env sc ss
  | [], _, sc => by rw [RotOKL, RotOKL]
  | s :: r, h, sc => by
    rw [RotOKL_cons, RotOKL_cons, rotOK_logic env l s (numFreeL_cons_inv h).1 sc,
      rotOKL_logic env l r (numFreeL_cons_inv h).2 sc]
termination_by ss => sizeOf ss
decreasing_by
  all_goals (try subst_vars)
  all_goals simp_wf
  all_goals omega
theorem rotLet_logic (env : SEnv) (l : String) :
    (ss : List Sexp) → numFreeL ss = true → ∀ sc, rotLet { env with logic := l } sc ss = rotLet env sc ss
  | ss, h, sc => by
    have ih : ∀ bs body, ss = [.list bs, body] →
        rotBinds { env with logic := l } sc bs = rotBinds env sc bs ∧
        rdBindings { env with logic := l } sc bs = rdBindings env sc bs ∧
        ∀ new, RotOK { env with logic := l } (new ++ sc) body = RotOK env (new ++ sc) body := by
      intro bs body he
      have hb : numFreeS (.list bs) = true ∧ numFreeS body = true := by
        rw [he] at h
        exact ⟨(numFreeL_cons_inv h).1, (numFreeL_cons_inv (numFreeL_cons_inv h).2).1⟩
      refine ⟨?_, ?_, fun new => rotOK_logic env l body hb.2 (new ++ sc)⟩
      · rcases numFreeS_list_inv hb.1 with ⟨r, hbs, hr⟩ | hbs
        · have hall : bs.all isAtom = true := by rw [hbs]; simp only [List.all_cons, isAtom, hr, Bool.and_self]
          rw [rotBinds_atoms _ sc bs hall, rotBinds_atoms _ sc bs hall]
        · exact rotBinds_logic env l bs hbs sc
      · rcases numFreeS_list_inv hb.1 with ⟨r, hbs, hr⟩ | hbs
        · have hid : indexedId bs = true := by rw [hbs]; simp only [indexedId, beq_self_eq_true, hr, Bool.and_self]
          rw [rdBindings_headU _ sc bs hid, rdBindings_headU _ sc bs hid]
        · exact rdBindings_logic_swap env l bs hbs sc
    rw [rotLet.eq_def, rotLet.eq_def env]
    split
    · rename_i sc' bs body
      obtain ⟨h1, h2, h3⟩ := ih bs body rfl
      simp only [h1, h2, h3]
    · rfl
termination_by ss => sizeOf ss
decreasing_by
  all_goals (try subst_vars)
  all_goals simp_wf
  all_goals omega
theorem rotBinds_logic (env : SEnv) (l : String) :
    (bs : List Sexp) → numFreeL bs = true → ∀ sc, rotBinds { env with logic := l } sc bs = rotBinds env sc bs
  | [], _, sc => by rw [rotBinds, rotBinds]
  | b :: rest, h, sc => by
    have ih := rotBinds_logic env l rest (numFreeL_cons_inv h).2 sc
    have ihb : ∀ x e, b = .list [.atom x, e] → RotOK { env with logic := l } sc e = RotOK env sc e := by
      intro x e he
      have hb := (numFreeL_cons_inv h).1
      rw [he] at hb
      rcases numFreeS_list_inv hb with ⟨r, hbs, hr⟩ | hbs
      · simp only [List.cons.injEq, Sexp.atom.injEq] at hbs
        obtain ⟨_, rfl⟩ := hbs
        have hae : isAtom e = true := by simpa using hr
        rw [rotOK_atom _ sc e hae, rotOK_atom _ sc e hae]
      · exact rotOK_logic env l e (numFreeL_cons_inv (numFreeL_cons_inv hbs).2).1 sc
    rw [rotBinds, rotBinds, ih, rotBind.eq_def, rotBind.eq_def env]
    split
    · rename_i sc' x e
      rw [ihb x e rfl]
    · rfl
termination_by bs => sizeOf bs
decreasing_by
  all_goals (try subst_vars)
  all_goals simp_wf
  all_goals omega
theorem rotQuant_logic (env : SEnv) (l : String) :
    (ss : List Sexp) → numFreeL ss = true → ∀ sc, rotQuant { env with logic := l } sc ss = rotQuant env sc ss
  | ss, h, sc => by
    have ih : ∀ vs body, ss = [.list vs, body] → ∀ sc', RotOK { env with logic := l } sc' body = RotOK env sc' body := by
      intro vs body he sc'
      rw [he] at h
      exact rotOK_logic env l body (numFreeL_cons_inv (numFreeL_cons_inv h).2).1 sc'
    rw [rotQuant.eq_def, rotQuant.eq_def env]
    split
    · rename_i sc' vs body
      simp only [rdSortedVars_logic, ih vs body rfl]
    · rfl
termination_by ss => sizeOf ss
decreasing_by
  all_goals (try subst_vars)
  all_goals simp_wf
  all_goals omega
end

/-! ## term level: soundness relative to the script's real logic -/

/-- **Soundness for numeral-free texts, whatever the logic name.** As `readTerm_sound`, with the standard's reading taken
under the real logic `env.logic`, while the parser's environment `Γ` corresponds to `env` only up to the logic name
(`Corr { env with logic := l } [] Γ`: after `(set-logic QF_BV)` the parser's numeral flag is the one of `l = "QF_LRA"`). -/
theorem readTerm_sound_numfree (env : SEnv) (l : String) (ρ : List (String × Sym)) (Γ : PEnv)
    (hc : Corr { env with logic := l } [] Γ) (hm : MgrLe Γ.mgr ρ) (s : Sexp) (hn : numFreeS s = true)
    (hf : FragS env ρ s = true) (hro : RotOK env [] s = true) (u : Term) (h : readStd env [] s = .ok u) :
    ∃ t, readTerm Γ s = .ok t ∧ t = mkNorm u ∧ t.wf = true ∧ t.typeOf = u.typeOf ∧
      ∀ I : Interp, I.WF → eval I t = eval I u :=
  readTerm_sound { env with logic := l } ρ Γ hc hm s (by rw [fragS_logic]; exact hf)
    (by rw [rotOK_logic env l s hn]; exact hro) u (by rw [readStd_logic_swap env l [] s hn]; exact h)

/-! ## script level: the declaration commands commute with renaming the logic -/

/-- the state with the logic name replaced -/
def swapSt (l : String) (st : StdState) : StdState := { st with env := { st.env with logic := l } }

theorem swapSt_env (l : String) (st : StdState) : (swapSt l st).env = { st.env with logic := l } := rfl
theorem swapSt_live (l : String) (st : StdState) : (swapSt l st).live = st.live := rfl

/-- the parser's environment refines the standard's state up to the logic name -/
def RefinesL (ρ : List (String × Sym)) (l : String) (st : StdState) (Γ : PEnv) : Prop :=
  Refines ρ { st with env := { st.env with logic := l } } Γ

theorem refinesL_iff (ρ : List (String × Sym)) (l : String) (st : StdState) (Γ : PEnv) :
    RefinesL ρ l st Γ ↔ Refines ρ (swapSt l st) Γ := Iff.rfl

theorem declareSortIn_swap (l : String) (st : StdState) (n : String) (ar : Nat) :
    declareSortIn (swapSt l st) n ar = (declareSortIn st n ar).map (swapSt l) := by
  unfold declareSortIn
  show (if (predefinedSorts.contains n || (st.env.lookupSort n).isSome || (st.env.lookupAlias n).isSome) = true
    then _ else _) = _
  split <;> rfl

theorem declareSymIn_swap (l : String) (st : StdState) (n : String) (ps : List Sexp) (r : Sexp) :
    declareSymIn (swapSt l st) n ps r = (declareSymIn st n ps r).map (swapSt l) := by
  unfold declareSymIn
  simp only [swapSt_env, sortStd_logic, sortStdList_logic]
  show (if st.env.nameTaken n = true then _ else _) = _
  split
  · rfl
  · cases sortStdList st.env ps <;> cases sortStd st.env r <;> rfl

theorem stepDeclareSort_swap (l : String) (st : StdState) (args : List Sexp) :
    stepDeclareSort (swapSt l st) args = (stepDeclareSort st args).map (swapSt l) := by
  unfold stepDeclareSort
  split
  · split
    · exact declareSortIn_swap l st _ _
    · rfl
  · split
    · exact declareSortIn_swap l st _ _
    · rfl
  · rfl

theorem stepDeclareFun_swap (l : String) (st : StdState) (args : List Sexp) :
    stepDeclareFun (swapSt l st) args = (stepDeclareFun st args).map (swapSt l) := by
  unfold stepDeclareFun
  split
  · split
    · exact declareSymIn_swap l st _ _ _
    · rfl
  · rfl

theorem stepDeclareConst_swap (l : String) (st : StdState) (args : List Sexp) :
    stepDeclareConst (swapSt l st) args = (stepDeclareConst st args).map (swapSt l) := by
  unfold stepDeclareConst
  split
  · split
    · exact declareSymIn_swap l st _ _ _
    · rfl
  · rfl

theorem stepDefineSort_swap (l : String) (st : StdState) (args : List Sexp) :
    stepDefineSort (swapSt l st) args = (stepDefineSort st args).map (swapSt l) := by
  unfold stepDefineSort
  split
  · split
    · rfl
    · simp only [swapSt_env, sortStd_logic]
      show (if (predefinedSorts.contains _ || (st.env.lookupSort _).isSome || (st.env.lookupAlias _).isSome) = true
        then _ else _) = _
      split
      · rfl
      · cases sortStd st.env _ <;> rfl
  · rfl
  · rfl

/-- the declaration commands of `declCmdOK` other than `set-logic` -/
def declHeads : List String := ["declare-sort", "declare-fun", "declare-const", "define-sort", "set-info", "set-option"]

def declHead : Sexp → Bool
  | .list (.atom c :: _) => declHeads.contains c
  | _ => false

theorem declHead_inv {c : Sexp} (h : declHead c = true) : ∃ hd args, c = .list (.atom hd :: args) ∧
    (hd = "declare-sort" ∨ hd = "declare-fun" ∨ hd = "declare-const" ∨ hd = "define-sort" ∨ hd = "set-info" ∨
      hd = "set-option") := by
  match c, h with
  | .list (.atom hd :: args), h =>
    refine ⟨hd, args, rfl, ?_⟩
    simpa [declHead, declHeads] using h

/-- (a) **the declaration commands commute with renaming the logic** -/
theorem stepStd_swap (l : String) (st : StdState) (c : Sexp) (h : declHead c = true) :
    stepStd (swapSt l st) c = (stepStd st c).map (swapSt l) := by
  obtain ⟨hd, args, rfl, hh⟩ := declHead_inv h
  rcases hh with rfl | rfl | rfl | rfl | rfl | rfl
  · rw [stepStd_declareSort, stepStd_declareSort]; exact stepDeclareSort_swap l st args
  · rw [stepStd_declareFun, stepStd_declareFun]; exact stepDeclareFun_swap l st args
  · rw [stepStd_declareConst, stepStd_declareConst]; exact stepDeclareConst_swap l st args
  · rw [stepStd_defineSort, stepStd_defineSort]; exact stepDefineSort_swap l st args
  · rw [stepStd_setInfo, stepStd_setInfo]; rfl
  · rw [stepStd_setOption, stepStd_setOption]; rfl

theorem declSym_logic (env : SEnv) (l : String) (n : String) (ps : List Sexp) (r : Sexp) :
    declSym { env with logic := l } n ps r = declSym env n ps r := by
  simp only [declSym, sortStd_logic, sortStdList_logic]

theorem declSymOK_logic (ρ : List (String × Sym)) (env : SEnv) (l : String) (n : String) (ps : List Sexp) (r : Sexp) :
    declSymOK ρ { env with logic := l } n ps r = declSymOK ρ env n ps r := by
  simp only [declSymOK, declSym_logic]
  rfl

/-- the `Command` expected from the parser does not depend on the logic name (any command) -/
theorem declCommand_swap (l : String) (st : StdState) (c : Sexp) : declCommand (swapSt l st) c = declCommand st c := by
  unfold declCommand
  simp only [swapSt_env, declSym_logic, sortStd_logic]

/-- the side condition of a declaration command other than `set-logic` does not depend on the logic name -/
theorem declCmdOK_swap (ρ : List (String × Sym)) (l : String) (st : StdState) (c : Sexp) (h : declHead c = true) :
    declCmdOK ρ (swapSt l st) c = declCmdOK ρ st c := by
  obtain ⟨hd, args, rfl, hh⟩ := declHead_inv h
  have hne : (hd == "set-logic") = false := by
    rcases hh with rfl | rfl | rfl | rfl | rfl | rfl <;> decide
  unfold declCmdOK
  simp only [hne, Bool.false_eq_true, if_false, swapSt_env, declSymOK_logic]
  rfl

theorem runStdFrom_swap (l : String) : ∀ (cs : List Sexp) (st : StdState) (k : Nat), cs.all declHead = true →
    runStdFrom (swapSt l st) k cs = (runStdFrom st k cs).map (swapSt l)
  | [], st, k, _ => rfl
  | c :: rest, st, k, h => by
    simp only [List.all_cons, Bool.and_eq_true] at h
    rw [runStdFrom, runStdFrom, stepStd_swap l st c h.1]
    cases hs : stepStd st c with
    | error e => rfl
    | ok st1 =>
      simp only [Except.map]
      exact runStdFrom_swap l rest st1 (k + 1) h.2

theorem declCmdsOK_swap (ρ : List (String × Sym)) (l : String) : ∀ (cs : List Sexp) (st : StdState),
    cs.all declHead = true → declCmdsOK ρ (swapSt l st) cs = declCmdsOK ρ st cs
  | [], st, _ => rfl
  | c :: rest, st, h => by
    simp only [List.all_cons, Bool.and_eq_true] at h
    rw [declCmdsOK, declCmdsOK, stepStd_swap l st c h.1, declCmdOK_swap ρ l st c h.1]
    cases hs : stepStd st c with
    | error e => rfl
    | ok st1 =>
      simp only [Except.map]
      rw [declCmdsOK_swap ρ l rest st1 h.2]

theorem declCommands_swap (l : String) : ∀ (cs : List Sexp) (st : StdState),
    cs.all declHead = true → declCommands (swapSt l st) cs = declCommands st cs
  | [], st, _ => rfl
  | c :: rest, st, h => by
    simp only [List.all_cons, Bool.and_eq_true] at h
    rw [declCommands, declCommands, stepStd_swap l st c h.1, declCommand_swap l st c]
    cases hs : stepStd st c with
    | error e => rfl
    | ok st1 =>
      simp only [Except.map]
      rw [declCommands_swap l rest st1 h.2]

/-- `decls_refine` up to the logic name, for declaration commands other than `set-logic` -/
theorem decls_refineL (ρ : List (String × Sym)) (l : String) (cs : List Sexp) (st st' : StdState) (k : Nat) (Γ : PEnv)
    (hds : cs.all declHead = true) (hok : declCmdsOK ρ st cs = true) (hrun : runStdFrom st k cs = .ok st')
    (hr : RefinesL ρ l st Γ) :
    ∃ Γ', envAfter Γ cs = .ok Γ' ∧ script Γ cs = .ok (declCommands st cs) ∧ RefinesL ρ l st' Γ' := by
  have hrun' : runStdFrom (swapSt l st) k cs = .ok (swapSt l st') := by
    rw [runStdFrom_swap l cs st k hds, hrun]; rfl
  have hok' : declCmdsOK ρ (swapSt l st) cs = true := by rw [declCmdsOK_swap ρ l cs st hds]; exact hok
  obtain ⟨Γ', h1, h2, h3⟩ := decls_refine ρ cs (swapSt l st) (swapSt l st') k Γ hok' hrun' hr
  rw [declCommands_swap l cs st hds] at h2
  exact ⟨Γ', h1, h2, h3⟩

/-! ## `set-logic` with ANY logic name -/

/-- the command `(set-logic tok)` -/
def setLogicCmd (tok : String) : Sexp := .list [.atom "set-logic", .atom tok]

/-- (b) **`set-logic L` for any logic name the standard accepts** — no `logicOK L`. The parser's environment afterwards
refines the standard's state up to the logic name: with `swapLogic L` (`ALL` or `QF_LRA`, the standard's logic that reads
numerals the way the parser's flag says) in place of `L`. `hro`: the logic before was not a Reals-only one (used only
when pySMT does not know `L`, and then leaves its flag as it was). -/
theorem step_setLogic_swap (ρ : List (String × Sym)) (st st' : StdState) (Γ : PEnv) (tok : String)
    (hro : st.env.realsOnly = false) (hstd : stepStd st (setLogicCmd tok) = .ok st') (hr : Refines ρ st Γ) :
    ∃ Γ' n, symName? tok = some n ∧
      cmd Γ (setLogicCmd tok) = .ok (Γ', .setLogic ((logicEntry n).map (·.1))) ∧
      declCommand st (setLogicCmd tok) = .setLogic ((logicEntry n).map (·.1)) ∧
      st' = { st with env := { st.env with logic := n }, logicSet := true } ∧
      RefinesL ρ (swapLogic n) st' Γ' := by
  unfold setLogicCmd at hstd ⊢
  rw [stepStd_setLogic] at hstd
  rw [cmd_setLogic_eq]
  simp (config := { decide := true }) only [declCommand, if_true, if_false]
  cases hsn : symName? tok with
  | none =>
    simp only [stepSetLogic, hsn] at hstd
    split at hstd <;> cases hstd
  | some n =>
    simp only [stepSetLogic, hsn] at hstd
    split at hstd
    · cases hstd
    · simp only [Except.ok.injEq] at hstd
      subst hstd
      have hia := swapLogic_ia n
      have hcs : cmdSetLogic Γ [.atom tok] =
          (match logicEntry n with
           | some (nm, ia) => .ok ({ Γ with intArith := some ia }, .setLogic (some nm))
           | none => .ok (Γ, .setLogic none)) := by
        simp only [cmdSetLogic, toksOf, tokOf, pyTok_of_symName hsn, logicEntry]
        generalize List.find? (fun e => lower e.fst == lower n) Gen.ParserOps.logics = r
        cases r with
        | none => rfl
        | some e => obtain ⟨a, b⟩ := e; rfl
      rw [hcs, pyTok_of_symName hsn]
      refine ⟨(match logicEntry n with | some (_, ia) => { Γ with intArith := some ia } | none => Γ), n, rfl, ?_,
        rfl, rfl, ?_⟩
      · cases logicEntry n with
        | none => rfl
        | some e => obtain ⟨nm, ia⟩ := e; rfl
      · cases hle : logicEntry n with
        | none =>
          rw [hle] at hia
          have hkeep : Γ.intArith.getD true = !(realsOnlyLogics.contains (swapLogic n)) := by
            rw [hr.corr.logic, hro]
            simpa using hia
          exact ⟨corr_setLogic hr.corr (swapLogic n) Γ.intArith hkeep, hr.mgr, hr.sorts0⟩
        | some e =>
          obtain ⟨nm, ia⟩ := e
          rw [hle] at hia
          exact ⟨corr_setLogic hr.corr (swapLogic n) (some ia) hia, hr.mgr, hr.sorts0⟩

/-- the side condition of `(set-logic tok)` followed by the declaration commands `ds`: `declCmdsOK` of `ds` in the
standard's state after the `set-logic` — nothing is asked of the logic name -/
def declCmdsOKL (ρ : List (String × Sym)) (st : StdState) (tok : String) (ds : List Sexp) : Bool :=
  match stepStd st (setLogicCmd tok) with
  | .ok st1 => declCmdsOK ρ st1 ds
  | .error _ => true

/-- (c) **`set-logic L` (any `L`) followed by declarations**, from a state the parser's environment refines. -/
theorem decls_refine_swap_from (ρ : List (String × Sym)) (tok : String) (ds : List Sexp) (st st' : StdState) (k : Nat)
    (Γ : PEnv) (hro : st.env.realsOnly = false) (hds : ds.all declHead = true)
    (hok : declCmdsOKL ρ st tok ds = true) (hrun : runStdFrom st k (setLogicCmd tok :: ds) = .ok st')
    (hr : Refines ρ st Γ) :
    ∃ Γ' n, symName? tok = some n ∧ envAfter Γ (setLogicCmd tok :: ds) = .ok Γ' ∧
      script Γ (setLogicCmd tok :: ds) = .ok (declCommands st (setLogicCmd tok :: ds)) ∧
      RefinesL ρ (swapLogic n) st' Γ' := by
  rw [runStdFrom] at hrun
  cases hstep : stepStd st (setLogicCmd tok) with
  | error e => simp [hstep] at hrun
  | ok st1 =>
    simp only [hstep] at hrun
    simp only [declCmdsOKL, hstep] at hok
    obtain ⟨Γ1, n, hn, hcmd, hdc, _, hr1⟩ := step_setLogic_swap ρ st st1 Γ tok hro hstep hr
    obtain ⟨Γ', h1, h2, h3⟩ := decls_refineL ρ (swapLogic n) ds st1 st' (k + 1) Γ1 hds hok hrun hr1
    refine ⟨Γ', n, hn, ?_, ?_, h3⟩
    · rw [envAfter_cons_ok hcmd, h1]
    · rw [script_cons_ok hcmd, h2, declCommands, hstep, hdc]
      rfl

/-- (c) from the initial states -/
theorem decls_refine_swap (ρ : List (String × Sym)) (tok : String) (ds : List Sexp) (st' : StdState)
    (hds : ds.all declHead = true) (hok : declCmdsOKL ρ StdState.init tok ds = true)
    (hrun : runStd (setLogicCmd tok :: ds) = .ok st') :
    ∃ Γ' n, symName? tok = some n ∧ envAfter PEnv.init (setLogicCmd tok :: ds) = .ok Γ' ∧
      script PEnv.init (setLogicCmd tok :: ds) = .ok (declCommands StdState.init (setLogicCmd tok :: ds)) ∧
      RefinesL ρ (swapLogic n) st' Γ' :=
  decls_refine_swap_from ρ tok ds StdState.init st' 0 PEnv.init (by decide +kernel) hds hok hrun (refines_init ρ)

/-! ## `assert` of a numeral-free text -/

theorem stepAssert_swap (l : String) (st : StdState) (s : Sexp) (hn : numFreeS s = true) :
    stepStd (swapSt l st) (.list [.atom "assert", s]) = (stepStd st (.list [.atom "assert", s])).map (swapSt l) := by
  rw [stepStd_assert, stepStd_assert]
  simp only [stepAssert, swapSt_env, readStdTy_logic_swap st.env l [] s hn]
  cases readStdTy st.env [] s with
  | error e => rfl
  | ok r =>
    obtain ⟨tm, ty⟩ := r
    by_cases hb : (ty == Ty.bool) = true
    · simp only [hb, if_true]
      show (match st.asserts with | top :: rest => _ | [] => _) = _
      cases st.asserts <;> rfl
    · simp only [hb]
      rfl

/-- **`assert` of a numeral-free text in environments that correspond up to the logic name.** -/
theorem step_assert_numfree (ρ : List (String × Sym)) (l : String) (st st'' : StdState) (Γ : PEnv) (s : Sexp)
    (hr : RefinesL ρ l st Γ) (hn : numFreeS s = true)
    (hf : FragS st.env ρ s = true) (hro : RotOK st.env [] s = true)
    (hstd : stepStd st (.list [.atom "assert", s]) = .ok st'') :
    ∃ u σ', readStd st.env [] s = .ok u ∧ st''.env = st.env ∧ st''.live = st.live ++ [u] ∧
      cmd Γ (.list [.atom "assert", s]) = .ok ({ Γ with mgr := σ' }, .assert (mkNorm u)) ∧
      Corr { st''.env with logic := l } [] { Γ with mgr := σ' } ∧ MgrLe σ' ρ ∧
      (mkNorm u).wf = true ∧ (mkNorm u).typeOf = some .bool ∧ u.typeOf = some .bool ∧
      ∀ I : Interp, I.WF → eval I (mkNorm u) = eval I u := by
  have hstd' : stepStd (swapSt l st) (.list [.atom "assert", s]) = .ok (swapSt l st'') := by
    rw [stepAssert_swap l st s hn, hstd]; rfl
  have hf' : FragS (swapSt l st).env ρ s = true := by rw [swapSt_env, fragS_logic]; exact hf
  have hro' : RotOK (swapSt l st).env [] s = true := by rw [swapSt_env, rotOK_logic _ l s hn]; exact hro
  obtain ⟨u, σ', g1, g2, g3, g4, g5, g6, g7, g8, g9, g10⟩ :=
    step_assert ρ (swapSt l st) (swapSt l st'') Γ s hr.corr hr.mgr hf' hro' hstd'
  rw [swapSt_env, readStd_logic_swap _ l [] s hn] at g1
  have henv : st''.env = st.env := by
    rw [stepStd_assert] at hstd
    simp only [stepAssert] at hstd
    split at hstd
    · split at hstd
      · split at hstd <;> (cases hstd; rfl)
      · cases hstd
    · cases hstd
  exact ⟨u, σ', g1, henv, g3, g4, g5, g6, g7, g8, g9, g10⟩

/-- (d) **`set-logic L` (any `L`), declarations, then `(assert s)` for a numeral-free text `s` of the fragment.**
Whenever the standard accepts the script, the parser model (started in `PEnv.init`) accepts it; its last command is the
assertion of `mkNorm u`, where `u` is the standard's reading of `s` under the script's real logic `L`: well-formed,
Boolean, same value under every well-formed interpretation. -/
theorem assert_after_decls_numfree (ρ : List (String × Sym)) (tok : String) (ds : List Sexp) (s : Sexp)
    (st' st'' : StdState) (hds : ds.all declHead = true) (hok : declCmdsOKL ρ StdState.init tok ds = true)
    (hrun : runStd (setLogicCmd tok :: ds) = .ok st') (hn : numFreeS s = true)
    (hf : FragS st'.env ρ s = true) (hro : RotOK st'.env [] s = true)
    (hstd : runStd (setLogicCmd tok :: ds ++ [.list [.atom "assert", s]]) = .ok st'') :
    ∃ u, readStd st'.env [] s = .ok u ∧ st''.live = st'.live ++ [u] ∧
      script PEnv.init (setLogicCmd tok :: ds ++ [.list [.atom "assert", s]])
        = .ok (declCommands StdState.init (setLogicCmd tok :: ds) ++ [.assert (mkNorm u)]) ∧
      (mkNorm u).wf = true ∧ (mkNorm u).typeOf = some .bool ∧
      ∀ I : Interp, I.WF → eval I (mkNorm u) = eval I u := by
  obtain ⟨Γ', n, _, h1, h2, hr⟩ := decls_refine_swap ρ tok ds st' hds hok hrun
  unfold runStd at hrun hstd
  obtain ⟨st1, e1, e2⟩ := runStdFrom_append (setLogicCmd tok :: ds) _ _ _ _ hstd
  rw [hrun] at e1
  cases e1
  have hstep := runStdFrom_single e2
  obtain ⟨u, σ', g1, _, g3, g4, _, _, g7, g8, _, g10⟩ :=
    step_assert_numfree ρ (swapLogic n) st' st'' Γ' s hr hn hf hro hstep
  refine ⟨u, g1, g3, ?_, g7, g8, g10⟩
  obtain ⟨c1, _⟩ := script_append (setLogicCmd tok :: ds) [.list [.atom "assert", s]] _ _ _ h1 h2
  rw [c1, script_cons_ok g4]
  simp [script, Except.map]

/-! ## a fully instantiated `QF_BV` script

`(set-logic QF_BV) (declare-fun v () (_ BitVec 8)) (declare-const w (_ BitVec 8)) (assert (bvult v (bvadd w (_ bv1 8))))` -/

namespace BVScript

def bv8 : Sexp := .list [.atom "_", .atom "BitVec", .atom "8"]

/-- the declarations -/
def ds : List Sexp :=
  [.list [.atom "declare-fun", .atom "v", .list [], bv8],
   .list [.atom "declare-const", .atom "w", bv8]]

/-- `(bvult v (bvadd w (_ bv1 8)))` -/
def asrt : Sexp :=
  .list [.atom "bvult", .atom "v", .list [.atom "bvadd", .atom "w", .list [.atom "_", .atom "bv1", .atom "8"]]]

/-- the script header: `set-logic QF_BV` and the declarations -/
def cs : List Sexp := setLogicCmd "QF_BV" :: ds

def vS : Sym := ⟨"v", [], .bv 8⟩
def wS : Sym := ⟨"w", [], .bv 8⟩
def rho : List (String × Sym) := [("v", vS), ("w", wS)]

/-- the standard's reading of the assertion: `v <u w + 1` on 8 bits -/
def tU : Term := .node .bvUlt [Term.sym vS, .node .bvAdd [Term.sym wS, Term.bvc 1 8] (.ints [8])] .none

/-- the standard's state after the header -/
def st : StdState := match runStd cs with | .ok st => st | .error _ => default

theorem st_run : runStd cs = .ok st := by
  have hacc : (runStd cs).toBool = true := by decide +kernel
  unfold st
  cases h : runStd cs with
  | error e => rw [h] at hacc; cases hacc
  | ok st => rfl

/-- the script's logic is one where pySMT's and the standard's reading of numerals differ: `step_setLogic`,
`decls_refine`, `assert_after_decls` do not apply -/
theorem logic_not_ok : logicOK "QF_BV" = false ∧ declCmdOK rho StdState.init (setLogicCmd "QF_BV") = false ∧
    st.env.logic = "QF_BV" ∧ st.env.realsOnly = false := by
  decide +kernel

/-- the standard accepts the whole script -/
theorem std_accepts : (runStd (cs ++ [.list [.atom "assert", asrt]])).toBool = true := by decide +kernel

/-- all the hypotheses of `assert_after_decls_numfree` -/
theorem hyps : ds.all declHead = true ∧ declCmdsOKL rho StdState.init "QF_BV" ds = true ∧ numFreeS asrt = true ∧
    FragS st.env rho asrt = true ∧ RotOK st.env [] asrt = true := by
  decide +kernel

theorem read_asrt : readStd st.env [] asrt = .ok tU :=
  ok_of_toOption (by decide +kernel)

theorem mkNorm_tU : mkNorm tU = tU :=
  mkNorm_of_normal tU (by simp [tU, Term.sym, Term.bvc, mgrNormal, rootNorm])

deriving instance DecidableEq for Std.FunDef, Std.SEnv, Std.StdState

def s1 : StdState := { env := { logic := "QF_BV" }, logicSet := true }
def s2 : StdState := { s1 with env := { s1.env with funs := [vS] } }

theorem step1 : stepStd StdState.init (setLogicCmd "QF_BV") = .ok s1 := ok_of_toOption (by decide +kernel)
theorem step2 : stepStd s1 (.list [.atom "declare-fun", .atom "v", .list [], bv8]) = .ok s2 :=
  ok_of_toOption (by decide +kernel)
theorem step3 : (stepStd s2 (.list [.atom "declare-const", .atom "w", bv8])).toBool = true := by decide +kernel

theorem commands_cs : declCommands StdState.init cs =
    [.setLogic (some "QF_BV"), .declare "declare-fun" vS, .declare "declare-const" wS] := by
  have hp : pyTok "QF_BV" = "QF_BV" ∧ pyTok "v" = "v" ∧ pyTok "w" = "w" := by decide +kernel
  have h : (logicEntry "QF_BV").map (·.1) = some "QF_BV" := by decide +kernel
  have hv : declSym s1.env "v" [] bv8 = vS := by decide +kernel
  have hw : declSym s2.env "w" [] bv8 = wS := by decide +kernel
  obtain ⟨s3, h3⟩ := ok_of_toBool step3
  simp only [cs, ds, declCommands, step1, step2, h3]
  simp (config := { decide := true }) only [setLogicCmd, declCommand, if_true, if_false, hp, h, hv, hw]

/-- **The `QF_BV` script, end to end.** `logicOK "QF_BV"` is false (`logic_not_ok`), the standard accepts the script
(`std_accepts`); by `assert_after_decls_numfree` the parser model's `script` returns the four commands, the assertion
being the standard's reading `tU` (= `mkNorm tU`) of the text under `QF_BV`: well-formed, Boolean. -/
theorem script_QF_BV :
    script PEnv.init (cs ++ [.list [.atom "assert", asrt]])
      = .ok [.setLogic (some "QF_BV"), .declare "declare-fun" vS, .declare "declare-const" wS, .assert tU] ∧
    readStd st.env [] asrt = .ok tU ∧ tU.wf = true ∧ tU.typeOf = some .bool := by
  obtain ⟨st'', h⟩ := ok_of_toBool std_accepts
  obtain ⟨u, h1, _, h3, h4, h5, _⟩ := assert_after_decls_numfree rho "QF_BV" ds asrt st st'' hyps.1 hyps.2.1 st_run
    hyps.2.2.1 hyps.2.2.2.1 hyps.2.2.2.2 h
  rw [read_asrt] at h1
  cases h1
  rw [mkNorm_tU] at h3 h4 h5
  refine ⟨?_, read_asrt, h4, h5⟩
  have hc := commands_cs
  unfold cs at hc
  rw [hc] at h3
  exact h3

/-- the hypotheses of `decls_refine_swap` / `step_setLogic_swap` / `readTerm_sound_numfree` are satisfiable: the parser's
environment after the header corresponds to the standard's up to the logic name (`QF_LRA` for `QF_BV`), and
`readTerm_sound_numfree` applies to the assertion text -/
example : ∃ Γ, envAfter PEnv.init cs = .ok Γ ∧ RefinesL rho "QF_LRA" st Γ ∧ Γ.intArith.getD true = false ∧
    ∃ t, readTerm Γ asrt = .ok t ∧ t = mkNorm tU ∧ t.wf = true ∧ t.typeOf = tU.typeOf ∧
      ∀ I : Interp, I.WF → eval I t = eval I tU := by
  obtain ⟨Γ, n, hn, h1, _, hr⟩ := decls_refine_swap rho "QF_BV" ds st hyps.1 hyps.2.1 st_run
  have : symName? "QF_BV" = some "QF_BV" := by decide +kernel
  rw [this] at hn
  cases hn
  rw [BVEx.swapLogic_QF_BV.1] at hr
  refine ⟨Γ, h1, hr, ?_, readTerm_sound_numfree st.env "QF_LRA" rho Γ hr.corr hr.mgr asrt hyps.2.2.1 hyps.2.2.2.1
    hyps.2.2.2.2 tU read_asrt⟩
  rw [hr.corr.logic]
  decide +kernel

example : ∃ Γ' n, symName? "QF_BV" = some n ∧
    cmd PEnv.init (setLogicCmd "QF_BV") = .ok (Γ', .setLogic ((logicEntry n).map (·.1))) ∧
    declCommand StdState.init (setLogicCmd "QF_BV") = .setLogic ((logicEntry n).map (·.1)) ∧
    s1 = { StdState.init with env := { StdState.init.env with logic := n }, logicSet := true } ∧
    RefinesL rho (swapLogic n) s1 Γ' :=
  step_setLogic_swap rho StdState.init s1 PEnv.init "QF_BV" (by decide +kernel) step1 (refines_init rho)

/-! ### the hypothesis `numFreeS` is needed -/

/-- after `(set-logic QF_BV)` the parser model's numeral flag is "no integer arithmetic" … -/
theorem flag_QF_BV : (envAfter PEnv.init [setLogicCmd "QF_BV"]).toOption.map (·.intArith) = some (some false) := by
  decide +kernel

/-- … so it reads the numeral `1` as the Real constant 1 … -/
theorem parser_reads_real : readTerm { PEnv.init with intArith := some false } (.atom "1") = .ok (Term.real 1) :=
  ok_of_toOption (by decide +kernel)

/-- … whereas the standard under `QF_BV` reads the Int constant 1: the atom `1` is not `numFreeS`, and the two readings
differ (so `readTerm_sound_numfree`, whose conclusion gives the sort of the standard's reading, cannot hold for it) -/
theorem std_reads_int : readStd { logic := "QF_BV" } [] (.atom "1") = .ok (Term.int 1) ∧ numFreeS (.atom "1") = false ∧
    mkNorm (Term.int 1) ≠ Term.real 1 :=
  ⟨ok_of_toOption (by decide +kernel), by decide +kernel, by
    rw [Term.int, mkNorm_plain _ _ _ (by decide) (by decide) (by decide)]
    decide +kernel⟩

/-- `rd_logic_swap` fails for the numeral: the reading depends on the logic name -/
example : readStd { logic := "QF_LRA" } [] (.atom "1") ≠ readStd { logic := "QF_BV" } [] (.atom "1") := by
  intro h
  have h1 : (readStd { logic := "QF_LRA" } [] (.atom "1")).toOption = some (Term.real 1) := by decide +kernel
  have h2 : (readStd { logic := "QF_BV" } [] (.atom "1")).toOption = some (Term.int 1) := by decide +kernel
  rw [h, h2] at h1
  revert h1
  decide +kernel

end BVScript

end PySMT.Parser.Agree
