import PySMT.Impl.Parser
import PySMT.Impl.Printer
import PySMT.Proofs.C07Num
/-!
# C09: constants are printed to text that the parser model reads back as the very same constant
-/
namespace PySMT.Parser
open PySMT.Sexp PySMT.Printer

theorem typeOf_int' (n : Int) : (Term.int n).typeOf = some .int := by
  rw [Term.int, Term.typeOf]; rfl

theorem takeDigits_all : ∀ (l : List Char), l.all isDigit = true → takeDigits l = (l, [])
  | [], _ => rfl
  | c :: cs, h => by
    simp only [List.all_cons, Bool.and_eq_true] at h
    simp [takeDigits, h.1, takeDigits_all cs h.2]

theorem pyTok_natStr (n : Nat) : pyTok (natStr n) = natStr n := by
  have h := natChars_proper n
  have hnum : isNumeralChars (natChars n) = true := isNumeralChars_of_proper h
  have hhead : (natChars n).head? ≠ some '|' := by
    rcases h.2.2 with ⟨_, hl⟩ | ⟨_, c, cs, hl, _⟩
    · rw [hl]; decide
    · have hd : isDigit c = true := by
        have := h.1; rw [hl] at this; simp only [List.all_cons, Bool.and_eq_true] at this; exact this.1
      rw [hl]; simp only [List.head?_cons, ne_eq, Option.some.injEq]
      intro hc; subst hc; simp [isDigit] at hd
  have hs : stripBars (natChars n) = none := by
    unfold stripBars
    split
    · next cs heq => exact absurd (by rw [heq]; rfl) hhead
    · rfl
  simp [pyTok, symName?, natStr, String.toList_ofList, hs, isNonSymbolChars, hnum]

theorem pyFraction_natStr (n : Nat) : pyFraction? (natStr n) = some (some (((n : Int) : Rat))) := by
  have h := natChars_proper n
  have hall := h.1
  obtain ⟨c, cs, hl, hd⟩ : ∃ c cs, natChars n = c :: cs ∧ isDigit c = true := by
    rcases h.2.2 with ⟨_, hl⟩ | ⟨_, c, cs, hl, _⟩
    · exact ⟨'0', [], hl, rfl⟩
    · refine ⟨c, cs, hl, ?_⟩
      have := h.1; rw [hl] at this; simp only [List.all_cons, Bool.and_eq_true] at this; exact this.1
  have hm : c ≠ '-' := by intro hc; subst hc; simp [isDigit] at hd
  have hp : c ≠ '+' := by intro hc; subst hc; simp [isDigit] at hd
  have htd : takeDigits (c :: cs) = (c :: cs, []) := takeDigits_all _ (hl ▸ hall)
  have hv : natOfDigits (c :: cs) = n := hl ▸ h.2.1
  unfold pyFraction?
  simp only [natStr, String.toList_ofList, hl]
  split
  · next heq => simp only [List.cons.injEq] at heq; exact absurd heq.1 hm
  · next heq => simp only [List.cons.injEq] at heq; exact absurd heq.1 hp
  · simp [htd, digitsVal, hv]

/-- the hypothesis under which numerals are read as numerals: no symbol of the environment is spelled like one
(the name proviso of the property) -/
def NumeralsFree (Γ : PEnv) : Prop := ∀ k : Nat, lookup (natStr k) Γ.binds = none

theorem rdVal_nat (Γ : PEnv) (h : NumeralsFree Γ) (hl : Γ.intArith.getD true = true) (lone : Bool) (n : Nat) :
    rdVal Γ lone (natAtom n) = .ok (.term (Term.int n), Γ.mgr) := by
  have hden : ((n : Int) : Rat).den = 1 := by simp
  have hnum : ((n : Int) : Rat).num = n := by simp
  have hdot : (natStr n).toList.contains '.' = false := by
    have hall := (natChars_proper n).1
    simp only [natStr, String.toList_ofList]
    rw [Bool.eq_false_iff]
    intro hc
    have hc' : '.' ∈ natChars n := by simpa using hc
    have := List.all_eq_true.mp hall _ hc'
    simp [isDigit] at this
  have hlit : literal Γ.intArith lone (natStr n) = .ok (.term (Term.int n)) := by
    obtain ⟨c, cs, hl', hd⟩ : ∃ c cs, natChars n = c :: cs ∧ isDigit c = true := by
      have h' := natChars_proper n
      rcases h'.2.2 with ⟨_, hl'⟩ | ⟨_, c, cs, hl', _⟩
      · exact ⟨'0', [], hl', rfl⟩
      · refine ⟨c, cs, hl', ?_⟩
        have := h'.1; rw [hl'] at this; simp only [List.all_cons, Bool.and_eq_true] at this; exact this.1
    have hh : c ≠ '#' := by intro hc; subst hc; simp [isDigit] at hd
    unfold literal
    have hs : (natStr n).toList = c :: cs := by simp [natStr, String.toList_ofList, hl']
    rw [hs]
    split
    · next heq => simp only [List.cons.injEq] at heq; exact absurd heq.1 hh
    · next heq => simp only [List.cons.injEq] at heq; exact absurd heq.1 hh
    · next heq => simp only [List.cons.injEq] at heq; exact absurd heq.1 hh
    · next heq => simp only [List.cons.injEq] at heq; exact absurd heq.1 hh
    · rw [pyFraction_natStr]
      simp only [numeralTerm, hden, hl, hdot, hnum, if_true, Bool.false_eq_true, if_false]
  simp [natAtom, rdVal, atomVal, pyTok_natStr, h n, hlit, Except.map]

/-- **Integer constants round-trip**, for every value: `5` and `(- 5)`. -/
theorem int_roundtrip (Γ : PEnv) (h : NumeralsFree Γ) (hl : Γ.intArith.getD true = true) (n : Int) :
    readTerm Γ (toSexp (Term.int n)) = .ok (Term.int n) := by
  have hsp : treeSpell "walk_int_constant" = "-" := by decide
  have hp : pyTok "-" = "-" := by decide
  have ht : tableLookup "-" = some (.special "_minus_or_uminus") := by decide
  have hsx : toSexp (Term.int n) = intSexp treeSpell n := by
    simp [toSexp, toSexpWith, Term.int, nodeSexp]
  rw [hsx]
  unfold readTerm intSexp
  by_cases hn : n < 0
  · simp only [hn, if_true, hsp]
    have hk : ((-n).toNat : Int) = -n := by omega
    have hv : rdVal Γ true (.list [.atom "-", natAtom (-n).toNat]) = .ok (.term (Term.int n), Γ.mgr) := by
      rw [rdVal]
      simp only [hp, ht, fnOfEntry, rdArgs, rdVal_nat Γ h hl false, applyFn, termsOf, Option.map,
        applySpecial, typeOf_int', Except.map]
      simp [Term.int, hk]
    rw [hv]
  · simp only [hn, if_false]
    have hk : (n.toNat : Int) = n := by omega
    rw [rdVal_nat Γ h hl true, hk]

/-- **Boolean constants round-trip** (in every environment that keeps the initial bindings of `true` and `false`). -/
theorem bool_roundtrip (Γ : PEnv) (b : Bool) (h : lookup (if b then "true" else "false") Γ.binds = some (.term (Term.bool b))) :
    readTerm Γ (toSexp (Term.bool b)) = .ok (Term.bool b) := by
  have ht : pyTok "true" = "true" := by decide
  have hf : pyTok "false" = "false" := by decide
  cases b <;> simp_all [readTerm, toSexp, toSexpWith, Term.bool, nodeSexp, rdVal, atomVal, Except.map]

/-- **String constants round-trip** at token level (the token is the literal's contents). -/
theorem str_roundtrip (Γ : PEnv) (s : String) : readTerm Γ (toSexp (Term.str s)) = .ok (Term.str s) := by
  simp [readTerm, toSexp, toSexpWith, Term.str, nodeSexp, rdVal]

end PySMT.Parser
