import PySMT.Proofs.C09HR1
/-!
# C09 (human-readable format): consistency of the regenerated table `Gen/HROps.lean`

`consistent` is a Boolean check over the regenerated table (printer forms, token rules, identifier map, hashes), evaluated by
`decide`: every operator spelling the printer writes is a token of the parser, with the constructor of the same node type;
the binding powers satisfy the assumptions under which the printer's parenthesisation is read back (`RT.kindOKb`); every
punctuation class has exactly one spelling (the model's `expect` compares spellings); the hand-modelled method bodies are the
ones the model was written against. `precedence` is the conventional order of the binding powers.
-/
namespace PySMT.HR.Table
open PySMT PySMT.HR PySMT.Gen.HROps

/-- node types the infix constructor named `c` builds (written from `pysmt/parsing.py` / `formula.py`) -/
def infixBuilds (c : String) : List Op :=
  if c = "self.AndOrBVAnd" then [.and, .bvAnd] else if c = "self.OrOrBVOr" then [.or, .bvOr]
  else if c = "self.PlusOrBVAdd" then [.plus, .bvAdd] else if c = "self.MinusOrBVSub" then [.minus, .bvSub]
  else if c = "self.TimesOrBVMul" then [.times, .bvMul]
  else if c = "mgr.Iff" then [.iff] else if c = "mgr.Implies" then [.implies] else if c = "mgr.Equals" then [.equals]
  else if c = "mgr.LE" then [.le] else if c = "mgr.LT" then [.lt] else if c = "mgr.GE" then [.le]
  else if c = "mgr.GT" then [.lt] else if c = "mgr.Div" then [.div, .times] else if c = "mgr.Pow" then [.pow]
  else if c = "mgr.BVULE" then [.bvUle] else if c = "mgr.BVUGE" then [.bvUle] else if c = "mgr.BVULT" then [.bvUlt]
  else if c = "mgr.BVUGT" then [.bvUlt] else if c = "mgr.BVSLE" then [.bvSle] else if c = "mgr.BVSGE" then [.bvSle]
  else if c = "mgr.BVSLT" then [.bvSlt] else if c = "mgr.BVSGT" then [.bvSlt]
  else if c = "mgr.BVLShl" then [.bvLshl] else if c = "mgr.BVLShr" then [.bvLshr] else if c = "mgr.BVAShr" then [.bvAshr]
  else if c = "mgr.BVUDiv" then [.bvUdiv] else if c = "mgr.BVSDiv" then [.bvSdiv] else if c = "mgr.BVURem" then [.bvUrem]
  else if c = "mgr.BVSRem" then [.bvSrem] else if c = "mgr.BVConcat" then [.bvConcat] else if c = "mgr.BVXor" then [.bvXor]
  else if c = "mgr.BVComp" then [.bvComp] else if c = "BVHack(mgr.BVRor)" then [.bvRor]
  else if c = "BVHack(mgr.BVRol)" then [.bvRol] else if c = "BVHack(mgr.BVZExt)" then [.bvZext]
  else if c = "BVHack(mgr.BVSExt)" then [.bvSext] else []

def unaryBuilds (c : String) : List Op :=
  if c = "self.NotOrBVNot" then [.not, .bvNot] else if c = "self.UMinusOrBvNeg" then [.bvNeg, .times]
  else if c = "mgr.ToReal" then [.toReal] else if c = "mgr.BVToNatural" then [.bvToNatural] else []

def fnBuilds (c : String) : List Op :=
  if c = "mgr.StrLength" then [.strLength] else if c = "mgr.StrConcat" then [.strConcat]
  else if c = "mgr.StrCharAt" then [.strCharAt] else if c = "mgr.StrContains" then [.strContains]
  else if c = "mgr.StrIndexOf" then [.strIndexOf] else if c = "mgr.StrReplace" then [.strReplace]
  else if c = "mgr.StrSubstr" then [.strSubstr] else if c = "mgr.StrPrefixOf" then [.strPrefixOf]
  else if c = "mgr.StrSuffixOf" then [.strSuffixOf] else if c = "mgr.StrToInt" then [.strToInt]
  else if c = "mgr.IntToStr" then [.intToStr] else []

def quantBuilds (c : String) : List Op :=
  if c = "mgr.ForAll" then [.forall_] else if c = "mgr.Exists" then [.exists_] else []

/-- the form the printer gives `op` is read by a token of the parser that carries the constructor of `op` -/
def shapeOK (op : Op) : Bool :=
  match shapeOf op with
  | some (.naryInfix s) | some (.hack s) =>
    (match infixOf s with | some (c, _) => (infixBuilds c).contains op | none => false)
  | some (.prefixPar s) =>
    (match unaryOf s with | some (c, _) => (unaryBuilds c).contains op | none => false)
  | some (.unaryCall s) =>
    (match unaryOf s with | some (c, l) => (unaryBuilds c).contains op && l == 100 | none => false)
  | some (.call s) => (match fnOf s with | some c => (fnBuilds c).contains op | none => false)
  | some (.quant s) => (match quantOf s with | some (c, _) => (quantBuilds c).contains op | none => false)
  | some _ => true
  | none => op == .algebraicConst        -- the one node type without a modelled form

/-- the spellings of a punctuation class -/
def spellingsOf (cls : String) : List String :=
  (Gen.HROps.tokens.filter (fun e => match e.2 with | .punct c _ => c == cls | _ => false)).map (·.1)

def punctOK : Bool :=
  spellingsOf "OpenPar" == ["("] && spellingsOf "ClosePar" == [")"] && spellingsOf "OpenBrak" == ["["] &&
  spellingsOf "CloseBrak" == ["]"] && spellingsOf "CloseBrace" == ["}"] && spellingsOf "ExprComma" == [","] &&
  spellingsOf "ExprDot" == ["."] && spellingsOf "ExprElse" == [":"] && spellingsOf "ArrStore" == [":="] &&
  spellingsOf "ExprIf" == ["?"] && spellingsOf "OpenArrayTypeTok" == ["Array{"] &&
  kindOf "(" == some (.punct "OpenPar" 200) && kindOf "[" == some (.punct "OpenBrak" 300) &&
  kindOf "?" == some (.punct "ExprIf" 5) && kindOf ")" == some (.punct "ClosePar" 0) &&
  kindOf "]" == some (.punct "CloseBrak" 0) && kindOf "}" == some (.punct "CloseBrace" 0) &&
  kindOf "," == some (.punct "ExprComma" 0) && kindOf "." == some (.punct "ExprDot" 0) &&
  kindOf ":" == some (.punct "ExprElse" 0) && kindOf ":=" == some (.punct "ArrStore" 0) &&
  kindOf "True" == some (.const "TRUE") && kindOf "False" == some (.const "FALSE") &&
  kindOf "Int" == some (.tyTok "IntTypeTok") && kindOf "Real" == some (.tyTok "RealTypeTok") &&
  kindOf "Bool" == some (.tyTok "BoolTypeTok")

/-- the whole check -/
def consistent : Bool :=
  Op.all.all shapeOK && Gen.HROps.printer.map (·.1) == Op.all &&
  Gen.HROps.tokens.all (fun e => RT.kindOKb e.2) && punctOK &&
  Gen.HROps.hashes == alignedHashes && Gen.HROps.functional == alignedFunctional &&
  Gen.HROps.simpleSymbolRegex == alignedSimpleRegex

theorem shapes_ok : Op.all.all shapeOK = true := by decide
theorem printer_total : (Gen.HROps.printer.map (·.1) == Op.all) = true := by decide
theorem punct_ok : punctOK = true := by decide
theorem hashes_ok : (Gen.HROps.hashes == alignedHashes) = true := by decide
theorem regex_ok : (Gen.HROps.simpleSymbolRegex == alignedSimpleRegex) = true := by decide
theorem functional_ok : (Gen.HROps.functional == alignedFunctional) = true := by decide

theorem consistent_true : consistent = true := by
  simp only [consistent, shapes_ok, printer_total, RT.tokens_ok, punct_ok, hashes_ok, functional_ok, regex_ok, Bool.and_self]

def lbpS (s : String) : Nat := lbp (.op s)
def prefixLbp (s : String) : Nat := match unaryOf s with | some (_, l) => l | none => 0

/-- the conventional precedence: `?:` < `<->`,`->`,`xor` < quantifiers < `|` < `&` < `!` < relations < `+`,`-`
< `*`,`/`,`^`,… < shifts, `::`, rotations, extensions < prefix `-`, `ToReal`, `bv2nat`, string functions < call `(` < index `[` -/
def precedence : Bool :=
  lbpS "?" < lbpS "<->" && ["->", "xor"].all (fun s => lbpS s == lbpS "<->") &&
  lbpS "<->" < lbpS "forall" && lbpS "exists" == lbpS "forall" &&
  lbpS "forall" < lbpS "|" && lbpS "|" < lbpS "&" && lbpS "&" < lbpS "!" && lbpS "!" < lbpS "=" &&
  ["<", "<=", ">", ">=", "u<", "u<=", "u>", "u>=", "s<", "s<=", "s>", "s>="].all (fun s => lbpS s == lbpS "=") &&
  lbpS "=" < lbpS "+" && lbpS "-" == lbpS "+" && lbpS "+" < lbpS "*" &&
  ["/", "^", "u/", "s/", "u%", "s%"].all (fun s => lbpS s == lbpS "*") &&
  lbpS "*" < lbpS "<<" &&
  [">>", "a>>", "::", "bvcomp", "ROL", "ROR", "ZEXT", "SEXT"].all (fun s => lbpS s == lbpS "<<") &&
  lbpS "<<" < prefixLbp "-" && prefixLbp "ToReal" == prefixLbp "-" && prefixLbp "bv2nat" == prefixLbp "-" &&
  lbpS "str.len" == prefixLbp "-" && prefixLbp "-" < lbpS "(" && lbpS "(" < lbpS "["

theorem precedence_true : precedence = true := by decide

end PySMT.HR.Table
