import PySMT.Impl.Parser
/-!
# C08: properties of the parser model that state the repaired behaviour (F13, F14, F15, F15c, F31)
-/
namespace PySMT.Parser

/-! ## F13: the bindings of a `let` are simultaneous -/

/-- the binding terms of a let, each read with the bindings `binds` of the *outer* scope (only the formula manager's
state is threaded); result: the new bindings, most recent first -/
def evalBindsOuter (binds : List (String × Val)) (ia : Option Bool) :
    MgrSt → List Sexp → List (String × Val) → Except Err (List (String × Val) × MgrSt)
  | σ, [], acc => .ok (acc, σ)
  | σ, .list [.atom x, e] :: bs, acc =>
    (match rdVal ⟨binds, ia, σ⟩ false e with
     | .ok (v, σ') => evalBindsOuter binds ia σ' bs ((pyTok x, v) :: acc)
     | .error err => .error err)
  | _, _ :: _, _ => .error .syntax

/-- names bound by a binding list -/
def bindNames : List Sexp → List String
  | [] => []
  | .list [.atom x, _] :: bs => pyTok x :: bindNames bs
  | _ :: bs => bindNames bs

theorem lookup_bindAll_of_not_mem (n : String) (bs binds : List (String × Val)) (h : ∀ b ∈ bs, b.1 ≠ n) :
    lookup n (bindAll bs binds) = lookup n binds := by
  induction bs generalizing binds with
  | nil => rfl
  | cons b rest ih =>
    simp only [bindAll, List.foldl_cons] at ih ⊢
    rw [ih _ (fun b' hb' => h b' (List.mem_cons_of_mem _ hb'))]
    have hb : b.1 ≠ n := h b List.mem_cons_self
    obtain ⟨k, v⟩ := b
    simp only [lookup]
    split
    · next heq => exact absurd (by simpa using heq) hb
    · rfl

/-- **F13.** When every variable of a `let` already has a meaning in the enclosing scope and no variable is repeated,
each binding term is read in the enclosing scope: the new meanings become visible in the body only. -/
theorem rdLetBinds_outer (binds : List (String × Val)) (ia : Option Bool) :
    ∀ (bs : List Sexp) (σ : MgrSt) (seen : List String) (delayed : List (String × Val)),
      (∀ n ∈ bindNames bs, (lookup n binds).isSome) →
      (∀ n ∈ bindNames bs, n ∉ seen) → (bindNames bs).Nodup →
      rdLetBinds ⟨binds, ia, σ⟩ seen delayed bs =
        (evalBindsOuter binds ia σ bs delayed).map (fun r => ⟨bindAll r.1.reverse binds, ia, r.2⟩)
  | [], σ, seen, delayed, _, _, _ => by
    simp [rdLetBinds, evalBindsOuter, Except.map]
  | .list [.atom x, e] :: bs, σ, seen, delayed, hb, hs, hn => by
    have hx : (lookup (pyTok x) binds).isSome := hb _ (by simp [bindNames])
    have hxs : pyTok x ∉ seen := hs _ (by simp [bindNames])
    simp only [bindNames, List.nodup_cons] at hn
    simp only [rdLetBinds, evalBindsOuter]
    have : seen.contains (pyTok x) = false := by simpa using hxs
    simp only [this, Bool.false_eq_true, if_false]
    cases hr : rdVal ⟨binds, ia, σ⟩ false e with
    | error err => simp [Except.map]
    | ok r =>
      obtain ⟨v, σ'⟩ := r
      simp only []
      cases hl : lookup (pyTok x) binds with
      | none => simp [hl] at hx
      | some old =>
        simp only []
        exact rdLetBinds_outer binds ia bs σ' (pyTok x :: seen) ((pyTok x, v) :: delayed)
          (fun n hn' => hb n (by simp [bindNames, hn']))
          (fun n hn' => by
            intro hmem
            rcases List.mem_cons.mp hmem with h | h
            · exact hn.1 (h ▸ hn')
            · exact hs n (by simp [bindNames, hn']) h)
          hn.2
  | .atom _ :: _, _, _, _, hb, _, _ => by simp [rdLetBinds, evalBindsOuter, Except.map]
  | .str _ :: _, _, _, _, _, _, _ => by simp [rdLetBinds, evalBindsOuter, Except.map]
  | .list [] :: _, _, _, _, _, _, _ => by simp [rdLetBinds, evalBindsOuter, Except.map]
  | .list [_] :: _, _, _, _, _, _, _ => by simp [rdLetBinds, evalBindsOuter, Except.map]
  | .list (.str _ :: _ :: _) :: _, _, _, _, _, _, _ => by simp [rdLetBinds, evalBindsOuter, Except.map]
  | .list (.list _ :: _ :: _) :: _, _, _, _, _, _, _ => by simp [rdLetBinds, evalBindsOuter, Except.map]
  | .list (.atom _ :: _ :: _ :: _) :: _, _, _, _, _, _, _ => by simp [rdLetBinds, evalBindsOuter, Except.map]

/-- **F13b.** A `let` that binds a variable twice is rejected. -/
theorem rdLetBinds_dup (Γ : PEnv) (x : String) (e : Sexp) (bs : List Sexp) (seen : List String)
    (delayed : List (String × Val)) (h : pyTok x ∈ seen) :
    rdLetBinds Γ seen delayed (.list [.atom x, e] :: bs) = .error .syntax := by
  have : seen.contains (pyTok x) = true := by simpa using h
  simp only [rdLetBinds, this, if_true]

/-! ## F14: a binder shadows whatever the name meant before (definitions included) -/

theorem lookup_cons_self (n : String) (v : Val) (binds : List (String × Val)) : lookup n ((n, v) :: binds) = some v := by
  simp [lookup]

/-- **F14.** Inside the scope of a quantifier the bound name denotes the bound variable, whatever it was bound to before. -/
theorem rdQuantBinds_shadows (Γ : PEnv) (x : String) (ty : Sexp) (Γ' : PEnv) (vs : List Sym)
    (h : rdQuantBinds Γ [] [.list [.atom x, ty]] = .ok (Γ', vs)) :
    ∃ s, vs = [s] ∧ lookup (pyTok x) Γ'.binds = some (.term (Term.sym s)) := by
  simp only [rdQuantBinds] at h
  cases ht : readTy Γ.binds [] ty with
  | error e => simp [ht] at h
  | ok t =>
    simp only [ht] at h
    cases hq : quantVar Γ.mgr (pyTok x) t with
    | error e => simp [hq] at h
    | ok r =>
      obtain ⟨s, σ⟩ := r
      simp only [hq, Except.ok.injEq, Prod.mk.injEq] at h
      refine ⟨s, ?_, ?_⟩
      · simpa using h.2.symm
      · rw [← h.1]; simp [lookup]

/-! ## F31: bound variables are kept in the order in which they are written -/

/-- **F31.** The variable list is the accumulator (in order) followed by one variable per binder, in textual order. -/
theorem rdQuantBinds_order (Γ : PEnv) :
    ∀ (bs : List Sexp) (acc : List Sym) (Γ' : PEnv) (vs : List Sym),
      rdQuantBinds Γ acc bs = .ok (Γ', vs) → ∃ new, vs = acc.reverse ++ new ∧ new.length = bs.length
  | [], acc, Γ', vs, h => by
    simp only [rdQuantBinds, Except.ok.injEq, Prod.mk.injEq] at h
    exact ⟨[], by simp [h.2.symm], rfl⟩
  | .list [.atom x, ty] :: bs, acc, Γ', vs, h => by
    simp only [rdQuantBinds] at h
    cases ht : readTy Γ.binds [] ty with
    | error e => simp [ht] at h
    | ok t =>
      simp only [ht] at h
      cases hq : quantVar Γ.mgr (pyTok x) t with
      | error e => simp [hq] at h
      | ok r =>
        obtain ⟨s, σ⟩ := r
        simp only [hq] at h
        obtain ⟨new, hv, hl⟩ := rdQuantBinds_order _ bs (s :: acc) Γ' vs h
        exact ⟨s :: new, by simp [hv], by simp [hl]⟩
  | .atom _ :: _, _, _, _, h => by simp [rdQuantBinds] at h
  | .str _ :: _, _, _, _, h => by simp [rdQuantBinds] at h
  | .list [] :: _, _, _, _, h => by simp [rdQuantBinds] at h
  | .list [_] :: _, _, _, _, h => by simp [rdQuantBinds] at h
  | .list (.str _ :: _ :: _) :: _, _, _, _, h => by simp [rdQuantBinds] at h
  | .list (.list _ :: _ :: _) :: _, _, _, _, h => by simp [rdQuantBinds] at h
  | .list (.atom _ :: _ :: _ :: _) :: _, _, _, _, h => by simp [rdQuantBinds] at h

/-! ## F15 / F15c: unknown names, `assert` -/

/-- a token `Fraction()` and the `#` literals do not accept -/
def notLiteral (tok : String) : Prop := pyFraction? tok = none ∧ tok.toList.head? ≠ some '#'

/-- **F15.** Inside a term, a name that is not bound and is not a literal is a syntax error. -/
theorem unknown_symbol_rejected (Γ : PEnv) (tok : String)
    (hb : lookup (pyTok tok) Γ.binds = none) (hl : notLiteral (pyTok tok)) :
    rdVal Γ false (.atom tok) = .error .syntax := by
  obtain ⟨hf, hh⟩ := hl
  simp only [rdVal, atomVal, hb]
  have : literal Γ.intArith false (pyTok tok) = .error .syntax := by
    unfold literal
    generalize hcs : (pyTok tok).toList = cs at hh
    match cs, hh with
    | [], _ => simp [hf]
    | c :: rest, hh =>
      have hc : c ≠ '#' := by simpa using hh
      split <;> simp_all
  simp [this, Except.map]

/-- **F15b (known).** As a whole command argument the same name is still read as a String constant. -/
theorem unknown_symbol_lone (Γ : PEnv) (tok : String)
    (hb : lookup (pyTok tok) Γ.binds = none) (hl : notLiteral (pyTok tok)) :
    readTerm Γ (.atom tok) = .ok (Term.str (pyTok tok)) := by
  obtain ⟨hf, hh⟩ := hl
  have : literal Γ.intArith true (pyTok tok) = .ok (.term (Term.str (pyTok tok))) := by
    unfold literal
    generalize hcs : (pyTok tok).toList = cs at hh
    match cs, hh with
    | [], _ => simp [hf]
    | c :: rest, hh =>
      have hc : c ≠ '#' := by simpa using hh
      split <;> simp_all
  simp [readTerm, rdVal, atomVal, hb, this, Except.map]

/-- **F15c.** The term of an accepted `assert` is Boolean. -/
theorem cmdAssert_bool (Γ Γ' : PEnv) (args : List Sexp) (k : Command)
    (h : cmdAssert Γ args = .ok (Γ', k)) : ∃ t', k = .assert t' ∧ t'.typeOf = some .bool := by
  unfold cmdAssert at h
  match args, h with
  | [t], h =>
    simp only [] at h
    revert h
    cases hr : readTermSt Γ t with
    | error e => intro h; simp at h
    | ok r =>
      obtain ⟨t', σ⟩ := r
      intro h
      by_cases hb : (t'.typeOf == some .bool) = true
      · simp only [hb, if_true, Except.ok.injEq, Prod.mk.injEq] at h
        exact ⟨t', h.2.symm, by simpa using hb⟩
      · simp [hb] at h

theorem cmdNamed_assert (Γ : PEnv) (args : List Sexp) : cmdNamed Γ "assert" args = cmdAssert Γ args := by
  simp [cmdNamed]

theorem assert_bool (Γ Γ' : PEnv) (t : Sexp) (k : Command)
    (h : cmd Γ (.list [.atom "assert", t]) = .ok (Γ', k)) : ∃ t', k = .assert t' ∧ t'.typeOf = some .bool := by
  have hp : pyTok "assert" = "assert" := by decide
  simp only [cmd, hp, cmdNamed_assert] at h
  split at h
  · exact cmdAssert_bool Γ Γ' [t] k h
  · simp at h

end PySMT.Parser
