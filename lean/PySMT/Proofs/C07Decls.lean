import PySMT.Proofs.C07DagSound
/-!
# C07: `decls_before_use` — the script of a formula is accepted by the strict command interpreter `runStd`
(every sort and symbol declared exactly once, before the `assert` that uses it)
-/
namespace PySMT.Printer
open PySMT.Std PySMT.Sexp

theorem runStdFrom_append : ∀ (l1 l2 : List Sexp) (st : StdState) (k : Nat),
    runStdFrom st k (l1 ++ l2) = match runStdFrom st k l1 with
      | .ok st' => runStdFrom st' (k + l1.length) l2
      | .error e => .error e
  | [], l2, st, k => by simp [runStdFrom]
  | c :: l1, l2, st, k => by
    simp only [List.cons_append, runStdFrom, List.length_cons]
    cases stepStd st c with
    | error e => rfl
    | ok st' =>
      simp only []
      rw [runStdFrom_append l1 l2 st' (k + 1)]
      have : k + 1 + l1.length = k + (l1.length + 1) := by omega
      rw [this]

/-- the state after `set-logic` and some declarations -/
def mkSt (logic : String) (sorts : List (String × Nat)) (funs : List Sym) : StdState :=
  { env := { logic := logic, sorts := sorts, funs := funs }, saved := [], asserts := [[]], logicSet := true }

theorem symName?_simple (n : String) (hs : isSimpleSymbolChars n.toList = true) (hr : isReserved n = false) :
    symName? n = some n := by
  have hns : isNonSymbolChars n.toList = false := simple_not_nonSymbol hs (by rw [String.ofList_toList]; exact hr)
  have hhead : (n.toList.head? == some '|') = false := by
    cases hl : n.toList with
    | nil => simp
    | cons c cs =>
      rw [hl] at hs
      simp only [isSimpleSymbolChars, Bool.and_eq_true] at hs
      simp only [List.head?_cons, beq_eq_false_iff_ne, ne_eq, Option.some.injEq]
      intro e; subst e
      have := hs.1.1
      revert this; decide
  have hsb : stripBars n.toList = none := by
    unfold stripBars
    split
    · next cs heq => rw [heq] at hhead; simp at hhead
    · rfl
  simp [symName?, hsb, hns, hhead]

theorem step_setLogic (logic : String) (hs : isSimpleSymbolChars logic.toList = true) (hr : isReserved logic = false) :
    stepStd StdState.init (.list [.atom "set-logic", atomOfText logic]) = .ok (mkSt logic [] []) := by
  have ha : atomOfText logic = .atom logic := by
    simp [atomOfText, lexChars_simple _ hs, String.ofList_toList]
  rw [ha]
  simp only [stepStd, beq_self_eq_true, if_true, stepSetLogic, StdState.init, symName?_simple logic hs hr, mkSt]
  rfl

theorem lookupSort_none {sorts : List (String × Nat)} {logic : String} {funs : List Sym} {n : String}
    (h : n ∉ sorts.map (·.1)) : ({ logic := logic, sorts := sorts, funs := funs } : SEnv).lookupSort n = none := by
  simp only [SEnv.lookupSort, Option.map_eq_none_iff, List.find?_eq_none]
  intro d hd heq
  apply h
  simp only [List.mem_map]
  exact ⟨d, hd, by simpa using heq⟩

theorem step_declareSort (logic : String) (sorts : List (String × Nat)) (d : String × Nat)
    (hch : d.1.toList.all nameChar = true) (hr : isReserved d.1 = false) (hpre : predefinedSorts.contains d.1 = false)
    (hnew : d.1 ∉ sorts.map (·.1)) :
    stepStd (mkSt logic sorts []) (declareSort d) = .ok (mkSt logic (d :: sorts) []) := by
  obtain ⟨tok, htok, hsn⟩ := symTok d.1 hch hr
  simp only [declareSort, sortAtom, htok, natAtom]
  simp only [stepStd, show ("declare-sort" == "set-logic") = false by decide, beq_self_eq_true, if_true,
    Bool.false_eq_true, if_false, stepDeclareSort, hsn, numeral?_natStr, declareSortIn, hpre, mkSt,
    lookupSort_none hnew, Option.isSome_none, Bool.or_self, SEnv.lookupAlias, List.find?_nil, Option.map_none]

theorem run_declareSorts (logic : String) (rest : List Sexp) : ∀ (ds : List (String × Nat)) (sorts : List (String × Nat)) (k : Nat),
    (∀ d ∈ ds, d.1.toList.all nameChar = true ∧ isReserved d.1 = false ∧ predefinedSorts.contains d.1 = false
      ∧ d.1 ∉ sorts.map (·.1)) →
    allDistinct (ds.map (·.1)) = true →
    runStdFrom (mkSt logic sorts []) k (ds.map declareSort ++ rest)
      = runStdFrom (mkSt logic (ds.reverse ++ sorts) []) (k + ds.length) rest
  | [], sorts, k, _, _ => by simp
  | d :: ds, sorts, k, h, hd => by
    obtain ⟨h1, h2, h3, h4⟩ := h d (by simp)
    simp only [allDistinct, List.map_cons, Bool.and_eq_true, Bool.not_eq_true'] at hd
    simp only [List.map_cons, List.cons_append, runStdFrom, step_declareSort logic sorts d h1 h2 h3 h4]
    rw [run_declareSorts logic rest ds (d :: sorts) (k + 1) ?_ hd.2]
    · simp only [List.reverse_cons, List.append_assoc, List.singleton_append, List.length_cons]
      have : k + 1 + ds.length = k + (ds.length + 1) := by omega
      rw [this]
    · intro d' hd'
      obtain ⟨g1, g2, g3, g4⟩ := h d' (List.mem_cons_of_mem _ hd')
      refine ⟨g1, g2, g3, ?_⟩
      simp only [List.map_cons, List.mem_cons, not_or]
      refine ⟨?_, g4⟩
      intro e
      have : d'.1 ∈ ds.map (·.1) := List.mem_map.2 ⟨d', hd', rfl⟩
      rw [e] at this
      have hc : d.1 ∉ ds.map (·.1) := by simpa using hd.1
      exact hc this

theorem SortOK_congr {env1 env2 : SEnv} (h : env1.sorts = env2.sorts) : ∀ (ty : Ty), SortOK env1 ty = SortOK env2 ty
  | .bool | .int | .real | .str | .bv _ => rfl
  | .array i e => by simp [SortOK, SortOK_congr h i, SortOK_congr h e]
  | .custom n => by simp [SortOK, SEnv.lookupSort, h]

theorem lookupFun_none {sorts : List (String × Nat)} {logic : String} {funs : List Sym} {n : String}
    (h : n ∉ funs.map (·.name)) : ({ logic := logic, sorts := sorts, funs := funs } : SEnv).lookupFun n = none := by
  simp only [SEnv.lookupFun, List.find?_eq_none]
  intro s hs heq
  apply h
  simp only [List.mem_map]
  exact ⟨s, hs, by simpa using heq⟩

theorem step_declareFun (logic : String) (sorts : List (String × Nat)) (funs : List Sym) (s : Sym)
    (hfine : nameFine s.name = true) (hnew : s.name ∉ funs.map (·.name))
    (hret : SortOK { logic := logic, sorts := sorts, funs := funs } s.ret = true)
    (hpar : ∀ t ∈ s.params, SortOK { logic := logic, sorts := sorts, funs := funs } t = true) :
    stepStd (mkSt logic sorts funs) (declareFun s) = .ok (mkSt logic sorts (s :: funs)) := by
  simp only [nameFine, Bool.and_eq_true, Bool.not_eq_true'] at hfine
  obtain ⟨⟨hch, hr⟩, hth⟩ := hfine
  obtain ⟨tok, htok, hsn⟩ := symTok s.name hch hr
  have h1 := sortStd_tySexp _ s.ret hret
  have h2 := sortStdList_tySexp _ s.params hpar
  simp only [declareFun, htok]
  simp only [stepStd, show ("declare-fun" == "set-logic") = false by decide,
    show ("declare-fun" == "declare-sort") = false by decide, beq_self_eq_true, if_true,
    Bool.false_eq_true, if_false, stepDeclareFun, hsn, declareSymIn, mkSt, SEnv.nameTaken, hth, lookupFun_none hnew,
    SEnv.lookupDef, List.find?_nil, Option.map_none, Option.isSome_none, Bool.or_self, h1, h2]

theorem run_declareFuns (logic : String) (sorts : List (String × Nat)) (rest : List Sexp) :
    ∀ (fs : List Sym) (funs : List Sym) (k : Nat),
    (∀ s ∈ fs, nameFine s.name = true ∧ s.name ∉ funs.map (·.name)
      ∧ SortOK { logic := logic, sorts := sorts, funs := [] } s.ret = true
      ∧ ∀ t ∈ s.params, SortOK { logic := logic, sorts := sorts, funs := [] } t = true) →
    allDistinct (fs.map (·.name)) = true →
    runStdFrom (mkSt logic sorts funs) k (fs.map declareFun ++ rest)
      = runStdFrom (mkSt logic sorts (fs.reverse ++ funs)) (k + fs.length) rest
  | [], funs, k, _, _ => by simp
  | s :: fs, funs, k, h, hd => by
    obtain ⟨h1, h2, h3, h4⟩ := h s (by simp)
    simp only [allDistinct, List.map_cons, Bool.and_eq_true, Bool.not_eq_true'] at hd
    have hc : ∀ ty, SortOK ({ logic := logic, sorts := sorts, funs := funs } : SEnv) ty
        = SortOK { logic := logic, sorts := sorts, funs := [] } ty := fun ty => SortOK_congr (env1 := { logic := logic, sorts := sorts, funs := funs }) (env2 := { logic := logic, sorts := sorts, funs := [] }) rfl ty
    simp only [List.map_cons, List.cons_append, runStdFrom,
      step_declareFun logic sorts funs s h1 h2 (by rw [hc]; exact h3) (fun t ht => by rw [hc]; exact h4 t ht)]
    rw [run_declareFuns logic sorts rest fs (s :: funs) (k + 1) ?_ hd.2]
    · simp only [List.reverse_cons, List.append_assoc, List.singleton_append, List.length_cons]
      have : k + 1 + fs.length = k + (fs.length + 1) := by omega
      rw [this]
    · intro s' hs'
      obtain ⟨g1, g2, g3, g4⟩ := h s' (List.mem_cons_of_mem _ hs')
      refine ⟨g1, ?_, g3, g4⟩
      simp only [List.map_cons, List.mem_cons, not_or]
      refine ⟨?_, g2⟩
      intro e
      have : s'.name ∈ fs.map (·.name) := List.mem_map.2 ⟨s', hs', rfl⟩
      rw [e] at this
      have hc' : s.name ∉ fs.map (·.name) := by simpa using hd.1
      exact hc' this

theorem mem_eraseDups {α} [BEq α] [LawfulBEq α] (l : List α) (x : α) : x ∈ l.eraseDups ↔ x ∈ l := by
  simp

/-- the commands of `scriptOfFormula` with an arbitrary assertion text `a`: accepted when `a` is read as a Bool term in
the environment the declarations build -/
theorem script_accepted (logic : String) (t : Term) (h : ScriptOK logic t = true) (a : Sexp) (u : Term)
    (hrd : readStdTy (scriptEnv logic t) [] a = .ok (u, .bool)) :
    ∃ st, runStd ([Sexp.list [.atom "set-logic", atomOfText logic]] ++ (sortDecls t).map declareSort
        ++ t.fv.eraseDups.map declareFun ++ [.list [.atom "assert", a], .list [.atom "check-sat"]]) = .ok st ∧
      st.env = scriptEnv logic t ∧ st.live = [u] ∧ (∀ s ∈ t.fv, s ∈ st.env.funs) := by
  simp only [ScriptOK, Bool.and_eq_true, Bool.not_eq_true', beq_iff_eq] at h
  obtain ⟨⟨⟨⟨⟨⟨⟨hls, hlr⟩, hsd⟩, hsf⟩, hfd⟩, hff⟩, hbool⟩, hP⟩ := h
  rw [List.all_eq_true] at hsf hff
  simp only [runStd, List.singleton_append, List.cons_append, List.nil_append, runStdFrom,
    step_setLogic logic hls hlr, Bool.false_eq_true, if_false, List.append_assoc, Nat.zero_add]
  rw [run_declareSorts logic _ (sortDecls t) [] 1 (fun d hd => by
        have := hsf d hd
        simp only [Bool.and_eq_true, Bool.not_eq_true'] at this
        exact ⟨this.1.1, this.1.2, this.2, by simp⟩) hsd]
  simp only [List.append_nil]
  rw [run_declareFuns logic _ _ t.fv.eraseDups [] _ (fun s hs => by
        have := hff s hs
        simp only [Bool.and_eq_true, List.all_eq_true] at this
        refine ⟨this.1.1, by simp, ?_, ?_⟩
        · rw [← this.1.2]; exact SortOK_congr (env1 := { logic := logic, sorts := (sortDecls t).reverse, funs := [] }) (env2 := scriptEnv logic t) rfl _
        · intro ty hty
          rw [← this.2 ty hty]; exact SortOK_congr (env1 := { logic := logic, sorts := (sortDecls t).reverse, funs := [] }) (env2 := scriptEnv logic t) rfl _) hfd]
  simp only [List.append_nil]
  have hassert : stepStd (mkSt logic (sortDecls t).reverse t.fv.eraseDups.reverse) (.list [.atom "assert", a])
      = .ok { mkSt logic (sortDecls t).reverse t.fv.eraseDups.reverse with asserts := [[u]] } := by
    simp only [stepStd, show ("assert" == "set-logic") = false by decide, show ("assert" == "declare-sort") = false by decide,
      show ("assert" == "declare-fun") = false by decide, show ("assert" == "declare-const") = false by decide,
      show ("assert" == "define-fun") = false by decide, show ("assert" == "define-sort") = false by decide,
      beq_self_eq_true, if_true, Bool.false_eq_true, if_false, stepAssert, mkSt]
    have hrd' : readStdTy { logic := logic, sorts := (sortDecls t).reverse, funs := t.fv.eraseDups.reverse } [] a
        = .ok (u, .bool) := hrd
    simp only [hrd', beq_self_eq_true, if_true]
  have hcheck : ∀ st : StdState, stepStd st (.list [.atom "check-sat"]) = .ok st := by
    intro st
    simp only [stepStd, show ("check-sat" == "set-logic") = false by decide,
      show ("check-sat" == "declare-sort") = false by decide, show ("check-sat" == "declare-fun") = false by decide,
      show ("check-sat" == "declare-const") = false by decide, show ("check-sat" == "define-fun") = false by decide,
      show ("check-sat" == "define-sort") = false by decide,
      show ("check-sat" == "assert") = false by decide, beq_self_eq_true, if_true, Bool.false_eq_true, if_false,
      List.isEmpty_nil]
  simp only [runStdFrom, hassert, hcheck]
  refine ⟨_, rfl, rfl, ?_, ?_⟩
  · simp [StdState.live]
  · intro s hs
    simp [mkSt, hs]

theorem scriptOK_parts {logic : String} {t : Term} (h : ScriptOK logic t = true) :
    t.typeOf = some .bool ∧ Printable (scriptEnv logic t) [] t = true := by
  simp only [ScriptOK, Bool.and_eq_true, beq_iff_eq] at h
  exact ⟨h.1.2, h.2⟩

/-- **The script of a formula is well-formed** (tree form of the assertion): `runStd` — the strict interpreter that rejects
any use before declaration and any re-declaration — accepts the command list of `smtlibscript_from_formula(f)`; the
declarations build exactly the environment `scriptEnv` (every declared sort of `f` and every free symbol of `f`, each once)
and the only live assertion is `f` (array values as store chains).

`_partial`: `ScriptOK` restricts to plain (non-parametric) declared sorts and excludes the known findings. -/
theorem decls_before_use_partial (logic : String) (t : Term) (h : ScriptOK logic t = true) :
    ∃ st, runStd (scriptOfFormula logic false t) = .ok st ∧ st.env = scriptEnv logic t ∧ st.live = [unfoldAV t] ∧
      (∀ s ∈ t.fv, s ∈ st.env.funs) := by
  obtain ⟨hbool, hP⟩ := scriptOK_parts h
  obtain ⟨τ, hty, hrd⟩ := read_toSexp_sort (scriptEnv logic t) t hP
  have hτ : τ = .bool := by rw [hbool] at hty; exact (Option.some.inj hty).symm
  subst hτ
  exact script_accepted logic t h (toSexp t) (unfoldAV t) hrd

/-- … and the same for the DAG form of the assertion (`serialize(daggify=True)`, the default), for quantifier-free `f` -/
theorem decls_before_use_dag_partial (logic : String) (t : Term) (h : ScriptOK logic t = true) (hq : noQuant t = true) :
    ∃ st, runStd (scriptOfFormula logic true t) = .ok st ∧ st.env = scriptEnv logic t ∧ st.live = [unfoldAVw false t] ∧
      (∀ s ∈ t.fv, s ∈ st.env.funs) := by
  obtain ⟨hbool, hP⟩ := scriptOK_parts h
  have hrd := readStd_toSexpDag (scriptEnv logic t) t (dagOK_of_printable' _ t hP hq)
  have hτ : tyD t = .bool := by simp [tyD, hbool]
  rw [hτ] at hrd
  exact script_accepted logic t h (toSexpDag t) (unfoldAVw false t) hrd

end PySMT.Printer
