import PySMT.Proofs.C08Model
import Batteries.Data.List.Basic
/-!
# C08: second round of theorems about the parser model (`Impl/Parser.lean`)

Stronger forms of four theorems of `Proofs/C08Model.lean`:

* `rdQuantBinds_binds`, `binder_lookup`, `binder_shadows_all` (F14, lists of binders instead of one binder);
* `rdQuantBinds_names`, `rdQuantBinds_sorts`, `rdQuantBinds_names_exact` (F31: which variables, not only how many);
* `unknown_symbol_rejected_strict`, `unknown_symbol_rejected_nested` (F15: tighter notion of "not a literal", unknown
  names below operator / function applications);
* `letEnvs`, `letEnvs_ok_iff`, `let_outer_kept` (F13, arbitrary binding lists).
-/
namespace PySMT.Parser
open PySMT.Gen.ParserOps

/-! ## lookups in association lists -/

/-- lookup in a concatenation: the first list wins -/
theorem lookup_append (n : String) (E B : List (String × Val)) :
    lookup n (E ++ B) = (match lookup n E with | some v => some v | none => lookup n B) := by
  induction E with
  | nil => simp [lookup]
  | cons e E ih =>
    obtain ⟨k, v⟩ := e
    simp only [List.cons_append, lookup]
    split
    · rfl
    · exact ih

theorem lookup_none_of_not_mem (n : String) (E : List (String × Val)) (h : ∀ e ∈ E, e.1 ≠ n) : lookup n E = none := by
  induction E with
  | nil => rfl
  | cons e E ih =>
    obtain ⟨k, v⟩ := e
    have hk : k ≠ n := h (k, v) List.mem_cons_self
    simp only [lookup]
    rw [if_neg (by simpa using hk)]
    exact ih (fun e he => h e (List.mem_cons_of_mem _ he))

/-- entries whose name is not `n` do not matter -/
theorem lookup_append_of_not_mem (n : String) (E B : List (String × Val)) (h : ∀ e ∈ E, e.1 ≠ n) :
    lookup n (E ++ B) = lookup n B := by
  rw [lookup_append, lookup_none_of_not_mem n E h]

theorem lookup_isSome_of_mem (E : List (String × Val)) (e : String × Val) (h : e ∈ E) : (lookup e.1 E).isSome := by
  induction E with
  | nil => cases h
  | cons a E ih =>
    obtain ⟨k, v⟩ := a
    simp only [lookup]
    split
    · rfl
    · next hne =>
      rcases List.mem_cons.mp h with h | h
      · subst h; simp at hne
      · exact ih h

/-- in a list without repeated names every entry is found under its name -/
theorem lookup_of_mem_nodup (E : List (String × Val)) (hn : (E.map (·.1)).Nodup) (e : String × Val) (h : e ∈ E) :
    lookup e.1 E = some e.2 := by
  induction E with
  | nil => cases h
  | cons a E ih =>
    obtain ⟨k, v⟩ := a
    simp only [List.map_cons, List.nodup_cons] at hn
    simp only [lookup]
    rcases List.mem_cons.mp h with h | h
    · subst h; simp
    · have : k ≠ e.1 := by
        intro hk
        exact hn.1 (hk ▸ List.mem_map_of_mem h)
      rw [if_neg (by simpa using this)]
      exact ih hn.2 h

/-! ## F14 / F31: what a binder list binds -/

theorem mkSymbol_ok {σ σ' : MgrSt} {s r : Sym} (h : mkSymbol σ s = .ok (r, σ')) : r = s := by
  unfold mkSymbol at h
  split at h
  · cases h
  · split at h
    · split at h
      · simp only [Except.ok.injEq, Prod.mk.injEq] at h; exact h.1.symm
      · cases h
    · simp only [Except.ok.injEq, Prod.mk.injEq] at h; exact h.1.symm

/-- `_get_quantified_var` returns the variable of that name and sort, or (sort clash in the manager) a fresh symbol of
that sort whose name is the binder's name followed by a number -/
theorem quantVar_ok {σ σ' : MgrSt} {n : String} {t : Ty} {s : Sym} (h : quantVar σ n t = .ok (s, σ')) :
    s.params = [] ∧ s.ret = t ∧ (s.name = n ∨ ∃ k : Nat, s.name = n ++ natToString k) := by
  unfold quantVar at h
  split at h
  · next r hm =>
    obtain ⟨r1, r2⟩ := r
    simp only [Except.ok.injEq, Prod.mk.injEq] at h
    have := mkSymbol_ok hm
    rw [← h.1, this]
    exact ⟨rfl, rfl, Or.inl rfl⟩
  · unfold mkFresh at h
    have := mkSymbol_ok h
    rw [this]
    exact ⟨rfl, rfl, Or.inr ⟨_, rfl⟩⟩
  · cases h

/-- the entries a binder list pushes on the bindings (most recent first) -/
def binderEntries (names : List String) (vars : List Sym) : List (String × Val) :=
  ((names.zip vars).reverse).map (fun p => (p.1, Val.term (Term.sym p.2)))

/-- what a binder written `(x ty)` and the variable made for it have to do with each other -/
def BinderVar (b : Sexp) (v : Sym) : Prop :=
  ∃ x ty, b = Sexp.list [Sexp.atom x, ty] ∧ v.params = [] ∧ (v.name = pyTok x ∨ ∃ k : Nat, v.name = pyTok x ++ natToString k)

/-- everything about an accepted binder list at once -/
theorem rdQuantBinds_spec :
    ∀ (bs : List Sexp) (Γ : PEnv) (acc : List Sym) (Γ' : PEnv) (vs : List Sym),
      rdQuantBinds Γ acc bs = .ok (Γ', vs) →
      ∃ new, vs = acc.reverse ++ new ∧ List.Forall₂ BinderVar bs new ∧
        Γ'.binds = binderEntries (bindNames bs) new ++ Γ.binds ∧ Γ'.intArith = Γ.intArith
  | [], Γ, acc, Γ', vs, h => by
    simp only [rdQuantBinds, Except.ok.injEq, Prod.mk.injEq] at h
    exact ⟨[], by simp [h.2.symm], .nil, by simp [binderEntries, bindNames, h.1], by rw [h.1]⟩
  | .list [.atom x, ty] :: bs, Γ, acc, Γ', vs, h => by
    simp only [rdQuantBinds] at h
    cases ht : readTy Γ.binds [] ty with
    | error e => simp [ht] at h
    | ok t =>
      simp only [ht] at h
      cases hq : quantVar Γ.mgr (pyTok x) t with
      | error e => simp [hq] at h
      | ok r =>
        obtain ⟨s, σ⟩ := r
        simp only [hq] at h
        obtain ⟨new, hv, hf, hb, hi⟩ := rdQuantBinds_spec bs _ (s :: acc) Γ' vs h
        obtain ⟨hp, _, hn⟩ := quantVar_ok hq
        refine ⟨s :: new, by simp [hv], .cons ⟨x, ty, rfl, hp, hn⟩ hf, ?_, hi⟩
        rw [hb]
        simp [binderEntries, bindNames]
  | .atom _ :: _, _, _, _, _, h => by simp [rdQuantBinds] at h
  | .str _ :: _, _, _, _, _, h => by simp [rdQuantBinds] at h
  | .list [] :: _, _, _, _, _, h => by simp [rdQuantBinds] at h
  | .list [_] :: _, _, _, _, _, h => by simp [rdQuantBinds] at h
  | .list (.str _ :: _ :: _) :: _, _, _, _, _, h => by simp [rdQuantBinds] at h
  | .list (.list _ :: _ :: _) :: _, _, _, _, _, h => by simp [rdQuantBinds] at h
  | .list (.atom _ :: _ :: _ :: _) :: _, _, _, _, _, h => by simp [rdQuantBinds] at h

theorem bindNames_length_of_forall₂ {bs : List Sexp} {new : List Sym} (h : List.Forall₂ BinderVar bs new) :
    (bindNames bs).length = new.length := by
  induction h with
  | nil => rfl
  | cons hb _ ih =>
    obtain ⟨x, ty, rfl, _⟩ := hb
    simp [bindNames, ih]

/-- **F31 (strong form).** The variable list is the accumulator followed by one variable per binder, in textual order;
the variable of the binder `(x ty)` has no parameters and is called `x`, or `x` followed by a number (the fresh symbol
`_get_quantified_var` makes when the manager knows `x` with another sort). -/
theorem rdQuantBinds_names (Γ : PEnv) (bs : List Sexp) (acc : List Sym) (Γ' : PEnv) (vs : List Sym)
    (h : rdQuantBinds Γ acc bs = .ok (Γ', vs)) :
    ∃ new, vs = acc.reverse ++ new ∧
      List.Forall₂ (fun b v => ∃ x ty, b = Sexp.list [Sexp.atom x, ty] ∧ v.params = [] ∧
        (v.name = pyTok x ∨ ∃ k : Nat, v.name = pyTok x ++ natToString k)) bs new := by
  obtain ⟨new, hv, hf, _, _⟩ := rdQuantBinds_spec bs Γ acc Γ' vs h
  exact ⟨new, hv, hf⟩

/-- the bound variables are constants (no parameter sorts) -/
theorem rdQuantBinds_sorts (Γ : PEnv) (bs : List Sexp) (acc : List Sym) (Γ' : PEnv) (vs : List Sym)
    (h : rdQuantBinds Γ acc bs = .ok (Γ', vs)) :
    ∃ new, vs = acc.reverse ++ new ∧ new.map (·.params) = bs.map (fun _ => []) := by
  obtain ⟨new, hv, hf, -, -⟩ := rdQuantBinds_spec bs Γ acc Γ' vs h
  refine ⟨new, hv, ?_⟩
  clear hv h
  induction hf with
  | nil => rfl
  | cons hb _ ih =>
    obtain ⟨x, ty, _, hp, _⟩ := hb
    simp [hp, ih]

/-- **F14 (lists of binders).** The environment of the body: one entry per binder, the last binder first, on top of
the bindings of the enclosing scope; the logic is unchanged. -/
theorem rdQuantBinds_binds (Γ : PEnv) (bs : List Sexp) (acc : List Sym) (Γ' : PEnv) (vs new : List Sym)
    (h : rdQuantBinds Γ acc bs = .ok (Γ', vs)) (hv : vs = acc.reverse ++ new) :
    Γ'.binds = ((bindNames bs).zip new).reverse.map (fun p => (p.1, Parser.Val.term (Term.sym p.2))) ++ Γ.binds ∧
    Γ'.intArith = Γ.intArith ∧ (bindNames bs).length = new.length := by
  obtain ⟨new', hv', hf, hb, hi⟩ := rdQuantBinds_spec bs Γ acc Γ' vs h
  have : new = new' := List.append_cancel_left (hv.symm.trans hv')
  subst this
  exact ⟨hb, hi, bindNames_length_of_forall₂ hf⟩

/-- the meaning of any name in the body of a quantifier: the variable of the LAST binder of that name, and the meaning
in the enclosing scope when no binder has that name -/
theorem binder_lookup (Γ : PEnv) (bs : List Sexp) (acc : List Sym) (Γ' : PEnv) (vs new : List Sym)
    (h : rdQuantBinds Γ acc bs = .ok (Γ', vs)) (hv : vs = acc.reverse ++ new) (n : String) :
    lookup n Γ'.binds =
      (match ((bindNames bs).zip new).reverse.find? (fun p => p.1 == n) with
       | some p => some (.term (Term.sym p.2))
       | none => lookup n Γ.binds) := by
  rw [(rdQuantBinds_binds Γ bs acc Γ' vs new h hv).1, lookup_append]
  generalize ((bindNames bs).zip new).reverse = L
  induction L with
  | nil => simp [lookup]
  | cons p L ih =>
    simp only [List.map_cons, lookup, List.find?_cons]
    by_cases hp : (p.1 == n) = true
    · simp [hp]
    · simp only [hp, Bool.false_eq_true, if_false]
      simpa using ih

/-- **F14 (lists of binders).** When no name is bound twice by the binder list, every bound name denotes its bound
variable in the body — whatever the name meant in the enclosing scope (declared symbol, definition, let variable). -/
theorem binder_shadows_all (Γ : PEnv) (bs : List Sexp) (acc : List Sym) (Γ' : PEnv) (vs new : List Sym)
    (h : rdQuantBinds Γ acc bs = .ok (Γ', vs)) (hv : vs = acc.reverse ++ new) (hn : (bindNames bs).Nodup) :
    ∀ p ∈ (bindNames bs).zip new, lookup p.1 Γ'.binds = some (.term (Term.sym p.2)) := by
  intro p hp
  obtain ⟨hb, _, hl⟩ := rdQuantBinds_binds Γ bs acc Γ' vs new h hv
  rw [hb, lookup_append]
  have hnd : ((((bindNames bs).zip new).reverse.map
      (fun p => (p.1, Parser.Val.term (Term.sym p.2)))).map (·.1)).Nodup := by
    rw [List.map_map]
    have : ((fun (e : String × Val) => e.1) ∘ fun (p : String × Sym) => (p.1, Parser.Val.term (Term.sym p.2))) = Prod.fst := rfl
    rw [this, List.map_reverse, List.map_fst_zip (by omega)]
    unfold List.Nodup at hn ⊢
    rw [List.pairwise_reverse]
    exact hn.imp (fun h => h.symm)
  have hm : (p.1, Parser.Val.term (Term.sym p.2)) ∈
      ((bindNames bs).zip new).reverse.map (fun p => (p.1, Parser.Val.term (Term.sym p.2))) :=
    List.mem_map_of_mem (List.mem_reverse.mpr hp)
  rw [lookup_of_mem_nodup _ hnd _ hm]

/-- the same, by position -/
theorem binder_shadows_all_idx (Γ : PEnv) (bs : List Sexp) (acc : List Sym) (Γ' : PEnv) (vs new : List Sym)
    (h : rdQuantBinds Γ acc bs = .ok (Γ', vs)) (hv : vs = acc.reverse ++ new) (hn : (bindNames bs).Nodup)
    (i : Nat) (h1 : i < (bindNames bs).length) (h2 : i < new.length) :
    lookup ((bindNames bs)[i]) Γ'.binds = some (.term (Term.sym new[i])) := by
  have := binder_shadows_all Γ bs acc Γ' vs new h hv hn ((bindNames bs)[i], new[i]) (by
    rw [List.mem_iff_getElem]
    exact ⟨i, by simp [List.length_zip]; omega, by simp⟩)
  exact this

/-! ### when the names are exactly the written ones -/

/-- a name the manager does not know gives the plain variable -/
theorem quantVar_plain {σ σ' : MgrSt} {n : String} {t : Ty} {s : Sym} (h : quantVar σ n t = .ok (s, σ'))
    (hfree : ∀ e ∈ σ.symbols, e.1 ≠ n) : s = Sym.var n t ∧ σ'.symbols = (n, s) :: σ.symbols := by
  have hf : σ.symbols.find? (fun e => e.1 == (Sym.var n t).name) = none := by
    rw [List.find?_eq_none]
    intro e he
    simpa [Sym.var] using hfree e he
  unfold quantVar mkSymbol at h
  rw [hf] at h
  split at h
  · next r hm =>
    split at hm
    · cases hm
    · simp only [Except.ok.injEq] at hm h
      subst hm
      simp only [Prod.mk.injEq] at h
      obtain ⟨rfl, rfl⟩ := h
      exact ⟨rfl, rfl⟩
  · next hm => split at hm <;> cases hm
  · cases h

/-- **F31 (exact names).** When no name is bound twice by the binder list and the formula manager has no symbol with
one of the names, the bound variables carry exactly the written names, in textual order. -/
theorem rdQuantBinds_names_exact :
    ∀ (bs : List Sexp) (Γ : PEnv) (acc : List Sym) (Γ' : PEnv) (vs : List Sym),
      rdQuantBinds Γ acc bs = .ok (Γ', vs) → (bindNames bs).Nodup →
      (∀ n ∈ bindNames bs, ∀ e ∈ Γ.mgr.symbols, e.1 ≠ n) →
      ∃ new, vs = acc.reverse ++ new ∧ new.map (·.name) = bindNames bs
  | [], Γ, acc, Γ', vs, h, _, _ => by
    simp only [rdQuantBinds, Except.ok.injEq, Prod.mk.injEq] at h
    exact ⟨[], by simp [h.2.symm], rfl⟩
  | .list [.atom x, ty] :: bs, Γ, acc, Γ', vs, h, hn, hfree => by
    simp only [rdQuantBinds] at h
    simp only [bindNames, List.nodup_cons] at hn
    cases ht : readTy Γ.binds [] ty with
    | error e => simp [ht] at h
    | ok t =>
      simp only [ht] at h
      cases hq : quantVar Γ.mgr (pyTok x) t with
      | error e => simp [hq] at h
      | ok r =>
        obtain ⟨s, σ⟩ := r
        simp only [hq] at h
        obtain ⟨hs, hσ⟩ := quantVar_plain hq (hfree _ (by simp [bindNames]))
        obtain ⟨new, hv, hnm⟩ := rdQuantBinds_names_exact bs _ (s :: acc) Γ' vs h hn.2 (by
          intro n hnb e he
          simp only [hσ, List.mem_cons] at he
          rcases he with rfl | he
          · intro heq
            have heq' : pyTok x = n := heq
            exact hn.1 (heq' ▸ hnb)
          · exact hfree n (by simp [bindNames, hnb]) e he)
        exact ⟨s :: new, by simp [hv], by simp [bindNames, hnm, hs, Sym.var]⟩
  | .atom _ :: _, _, _, _, _, h, _, _ => by simp [rdQuantBinds] at h
  | .str _ :: _, _, _, _, _, h, _, _ => by simp [rdQuantBinds] at h
  | .list [] :: _, _, _, _, _, h, _, _ => by simp [rdQuantBinds] at h
  | .list [_] :: _, _, _, _, _, h, _, _ => by simp [rdQuantBinds] at h
  | .list (.str _ :: _ :: _) :: _, _, _, _, _, h, _, _ => by simp [rdQuantBinds] at h
  | .list (.list _ :: _ :: _) :: _, _, _, _, _, h, _, _ => by simp [rdQuantBinds] at h
  | .list (.atom _ :: _ :: _ :: _) :: _, _, _, _, _, h, _, _ => by simp [rdQuantBinds] at h

/-! ## F15: unknown names, tighter and below applications -/

/-- `notLiteral`, and moreover: the token is not a string literal of Python's tokenizer (`"…"`, which the quoted symbol
`|"abc"|` gives), and it has no character that Python's `int()`/`Fraction()` accept and the model of them does not
(`_` between digits — only possible when the token starts like a number: a digit, a sign or a dot —, blanks around
the number, digits outside ASCII) -/
def notLiteralStrict (tok : String) : Prop :=
  notLiteral tok ∧ tok.toList.head? ≠ some '"' ∧
    tok.toList.all (fun c => c.toNat < 128 && !c.isWhitespace) = true ∧
    (tok.toList.all (fun c => c != '_') = true ∨
      (match tok.toList with
       | c :: _ => !c.isDigit && c != '+' && c != '-' && c != '.'
       | [] => true) = true)

instance (tok : String) : Decidable (notLiteral tok) := by unfold notLiteral; infer_instance
instance (tok : String) : Decidable (notLiteralStrict tok) := by unfold notLiteralStrict; infer_instance

def notLiteralStrictB (tok : String) : Bool := decide (notLiteralStrict tok)

theorem notLiteralStrictB_iff (tok : String) : notLiteralStrictB tok = true ↔ notLiteralStrict tok := by
  simp [notLiteralStrictB]

/-- **F15 (tight form).** Inside a term, a name that is not bound and that neither the model nor Python reads as a
literal is a syntax error. -/
theorem unknown_symbol_rejected_strict (Γ : PEnv) (tok : String)
    (hb : lookup (pyTok tok) Γ.binds = none) (hl : notLiteralStrict (pyTok tok)) :
    rdVal Γ false (.atom tok) = .error .syntax :=
  unknown_symbol_rejected Γ tok hb hl.1

/-- an atom that is not bound and not a literal -/
def unknownAtom (binds : List (String × Val)) : Sexp → Bool
  | .atom tok => (lookup (pyTok tok) binds).isNone && notLiteralStrictB (pyTok tok)
  | _ => false

/-- the head token of an application whose arguments are all read as terms before anything else happens: every token
except the keywords with a handler of their own (`let forall exists ! _ as`); this covers the operators of the table
(`tableLookup (pyTok hd) = some e` with `fnOfEntry e = some f`) and the declared / defined functions
(`tableLookup (pyTok hd) = none`, `lookup (pyTok hd) binds = some (.fn g)`) -/
def isAppHead (hd : String) : Bool :=
  match tableLookup (pyTok hd) with
  | some e => (fnOfEntry e).isSome
  | none => true

mutual
/-- the S-expression is an application (head: an operator of the table, a declared or defined function, in fact any
token that is not a binder keyword) with an argument that is an unknown name, or that is such an application itself -/
def hasUnknownArg (binds : List (String × Val)) : Sexp → Bool
  | .list (.atom hd :: args) => isAppHead hd && anyUnknownArg binds args
  | .list (.list _ :: args) => anyUnknownArg binds args      -- head: an indexed operator such as `(_ extract 3 1)`
  | _ => false
def anyUnknownArg (binds : List (String × Val)) : List Sexp → Bool
  | [] => false
  | a :: rest => unknownAtom binds a || hasUnknownArg binds a || anyUnknownArg binds rest
end

/-- the form asked for: head an operator of the table or a function of the bindings -/
theorem hasUnknownArg_of_op (binds : List (String × Val)) (hd : String) (args : List Sexp)
    (hh : (∃ e f, tableLookup (pyTok hd) = some e ∧ fnOfEntry e = some f) ∨
          (tableLookup (pyTok hd) = none ∧ ∃ g, lookup (pyTok hd) binds = some (.fn g)))
    (ha : anyUnknownArg binds args = true) : hasUnknownArg binds (.list (.atom hd :: args)) = true := by
  rw [hasUnknownArg, ha, Bool.and_true]
  unfold isAppHead
  rcases hh with ⟨e, f, h1, h2⟩ | ⟨h1, _⟩
  · simp [h1, h2]
  · simp [h1]

mutual
/-- **F15 (nested).** The parser model never accepts a term with an unknown name in an argument position of nested
operator / function applications (whatever the state of the formula manager and the `lone` flag). -/
theorem unknown_symbol_rejected_nested : (s : Sexp) → (Γ : PEnv) → hasUnknownArg Γ.binds s = true →
    ∀ (lone : Bool) (v : Val) (σ : MgrSt), rdVal Γ lone s ≠ .ok (v, σ)
  | .atom _, _, h => by simp [hasUnknownArg] at h
  | .str _, _, h => by simp [hasUnknownArg] at h
  | .list [], _, h => by simp [hasUnknownArg] at h
  | .list (.str _ :: _), _, h => by simp [hasUnknownArg] at h
  | .list (.list hl :: args), Γ, h => by
    intro lone v σ
    simp only [hasUnknownArg] at h
    have hargs := unknown_symbol_rejected_args args Γ h
    rw [rdVal]
    · cases hw : isToBvS (.list hl) with
      | some w =>
        rcases args with _ | ⟨n, _ | ⟨n2, r⟩⟩
        · simp
        · cases hr : rdVal Γ false n with
          | ok r =>
            exfalso
            refine hargs [r.1] r.2 ?_
            simp [rdArgs, hr]
          | error e => cases w <;> simp [hr]
        · simp
      | none =>
        dsimp only
        cases hr : rdVal Γ false (.list hl) with
        | error e => simp
        | ok r =>
          obtain ⟨w, σ1⟩ := r
          cases w with
          | fn f =>
            dsimp only
            cases hr2 : rdArgs { Γ with mgr := σ1 } args with
            | error e => simp
            | ok r2 => exact absurd hr2 (unknown_symbol_rejected_args args { Γ with mgr := σ1 } h r2.1 r2.2)
          | _ => simp
    · intro _ h; cases h
    · intro _ h; cases h
  | .list (.atom hd :: args), Γ, h => by
    intro lone v σ
    simp only [hasUnknownArg, Bool.and_eq_true] at h
    obtain ⟨hh, ha⟩ := h
    have hargs := unknown_symbol_rejected_args args Γ ha
    rw [rdVal]
    unfold isAppHead at hh
    cases ht : tableLookup (pyTok hd) with
    | some e =>
      rw [ht] at hh
      cases e with
      | handler x => simp [fnOfEntry] at hh
      | mgr m =>
        simp only [fnOfEntry]
        cases hr : rdArgs Γ args with
        | error e => simp
        | ok r => exact absurd hr (hargs r.1 r.2)
      | fixReal m =>
        simp only [fnOfEntry]
        cases hr : rdArgs Γ args with
        | error e => simp
        | ok r => exact absurd hr (hargs r.1 r.2)
      | special m =>
        simp only [fnOfEntry]
        cases hr : rdArgs Γ args with
        | error e => simp
        | ok r => exact absurd hr (hargs r.1 r.2)
    | none =>
      simp only []
      cases hr : rdArgs Γ args with
      | ok r => exact absurd hr (hargs r.1 r.2)
      | error e =>
        cases ha : atomVal Γ false (.atom hd) with
        | error e' => simp
        | ok w => cases w <;> simp
termination_by s => sizeOf s

theorem unknown_symbol_rejected_args : (l : List Sexp) → (Γ : PEnv) → anyUnknownArg Γ.binds l = true →
    ∀ (vs : List Val) (σ : MgrSt), rdArgs Γ l ≠ .ok (vs, σ)
  | [], _, h => by simp [anyUnknownArg] at h
  | a :: rest, Γ, h => by
    intro vs σ
    simp only [anyUnknownArg, Bool.or_eq_true] at h
    rw [rdArgs]
    cases hr : rdVal Γ false a with
    | error e => simp
    | ok r =>
      obtain ⟨v, σ1⟩ := r
      rcases h with (h | h) | h
      · exfalso
        match a, h with
        | .atom tok, h =>
          simp only [unknownAtom, Bool.and_eq_true, Option.isNone_iff_eq_none] at h
          rw [unknown_symbol_rejected_strict Γ tok h.1 ((notLiteralStrictB_iff _).mp h.2)] at hr
          cases hr
      · exact absurd hr (unknown_symbol_rejected_nested a Γ h false v σ1)
      · simp only []
        cases hr2 : rdArgs { Γ with mgr := σ1 } rest with
        | error e => simp
        | ok r2 => exact absurd hr2 (unknown_symbol_rejected_args rest { Γ with mgr := σ1 } h r2.1 r2.2)
termination_by l => sizeOf l
end

/-! ## F13: the bindings of a `let` are simultaneous, for arbitrary binding lists -/

/-- the environments in which the binding terms of a `let` are read, in order: the same recursion as `rdLetBinds`,
recording the `Γ` of every `rdVal Γ false e` -/
def letEnvs (Γ : PEnv) (seen : List String) (delayed : List (String × Val)) : List Sexp → Except Err (List PEnv)
  | [] => .ok []
  | .list [.atom x, e] :: bs =>
    let n := pyTok x
    if seen.contains n then .error .syntax
    else
      match rdVal Γ false e with
      | .ok (v, σ) =>
        (match lookup n Γ.binds with
         | none => (letEnvs { Γ with binds := (n, v) :: Γ.binds, mgr := σ } (n :: seen) delayed bs).map (Γ :: ·)
         | some _ => (letEnvs { Γ with mgr := σ } (n :: seen) ((n, v) :: delayed) bs).map (Γ :: ·))
      | .error e => .error e
  | _ :: _ => .error .syntax

theorem toBool_map {ε α β : Type} (f : α → β) (r : Except ε α) : (r.map f).toBool = r.toBool := by
  cases r <;> rfl

/-- `letEnvs` accepts exactly the binding lists `rdLetBinds` accepts -/
theorem letEnvs_ok_iff :
    ∀ (bs : List Sexp) (Γ : PEnv) (seen : List String) (delayed : List (String × Val)),
      (rdLetBinds Γ seen delayed bs).toBool = (letEnvs Γ seen delayed bs).toBool
  | [], Γ, seen, delayed => by simp [rdLetBinds, letEnvs, Except.toBool]
  | .list [.atom x, e] :: bs, Γ, seen, delayed => by
    simp only [rdLetBinds, letEnvs]
    split
    · rfl
    · cases hr : rdVal Γ false e with
      | error err => rfl
      | ok r =>
        obtain ⟨v, σ⟩ := r
        dsimp only
        cases hl : lookup (pyTok x) Γ.binds with
        | none => dsimp only; rw [toBool_map]; exact letEnvs_ok_iff bs _ _ _
        | some old => dsimp only; rw [toBool_map]; exact letEnvs_ok_iff bs _ _ _
  | .atom _ :: _, _, _, _ => by simp only [rdLetBinds, letEnvs]; rfl
  | .str _ :: _, _, _, _ => by simp only [rdLetBinds, letEnvs]; rfl
  | .list [] :: _, _, _, _ => by simp only [rdLetBinds, letEnvs]; rfl
  | .list [_] :: _, _, _, _ => by simp only [rdLetBinds, letEnvs]; rfl
  | .list (.str _ :: _ :: _) :: _, _, _, _ => by simp only [rdLetBinds, letEnvs]; rfl
  | .list (.list _ :: _ :: _) :: _, _, _, _ => by simp only [rdLetBinds, letEnvs]; rfl
  | .list (.atom _ :: _ :: _ :: _) :: _, _, _, _ => by simp only [rdLetBinds, letEnvs]; rfl

/-- **F13 (arbitrary binding lists).** While the binding terms of a `let` are read, every name that had a meaning
before the `let` keeps it, and the logic is unchanged; one environment per binding. (A name without a previous meaning
is bound at once: the known extension F13c.) -/
theorem let_outer_kept :
    ∀ (bs : List Sexp) (Γ : PEnv) (seen : List String) (delayed : List (String × Val)) (tr : List PEnv),
      letEnvs Γ seen delayed bs = .ok tr →
      tr.length = bs.length ∧
      ∀ Γi ∈ tr, Γi.intArith = Γ.intArith ∧
        ∀ n, (lookup n Γ.binds).isSome → lookup n Γi.binds = lookup n Γ.binds
  | [], Γ, seen, delayed, tr, h => by
    simp only [letEnvs, Except.ok.injEq] at h
    subst h
    exact ⟨rfl, fun _ hm => by cases hm⟩
  | .list [.atom x, e] :: bs, Γ, seen, delayed, tr, h => by
    simp only [letEnvs] at h
    split at h
    · cases h
    · cases hr : rdVal Γ false e with
      | error err => simp [hr] at h
      | ok r =>
        obtain ⟨v, σ⟩ := r
        simp only [hr] at h
        cases hl : lookup (pyTok x) Γ.binds with
        | none =>
          simp only [hl] at h
          cases hrec : letEnvs { Γ with binds := (pyTok x, v) :: Γ.binds, mgr := σ } (pyTok x :: seen) delayed bs with
          | error err => simp [hrec, Except.map] at h
          | ok tr' =>
            simp only [hrec, Except.map, Except.ok.injEq] at h
            subst h
            obtain ⟨hlen, hall⟩ := let_outer_kept bs _ _ _ tr' hrec
            refine ⟨by simp [hlen], ?_⟩
            intro Γi hm
            rcases List.mem_cons.mp hm with rfl | hm
            · exact ⟨rfl, fun _ _ => rfl⟩
            · obtain ⟨h1, h2⟩ := hall Γi hm
              refine ⟨h1, ?_⟩
              intro n hn
              have hne : pyTok x ≠ n := by
                intro heq
                rw [← heq, hl] at hn
                cases hn
              have hstep : lookup n ((pyTok x, v) :: Γ.binds) = lookup n Γ.binds := by
                simp only [lookup]
                rw [if_neg (by simpa using hne)]
              have := h2 n (by simpa only [hstep] using hn)
              rw [this]
              exact hstep
        | some old =>
          simp only [hl] at h
          cases hrec : letEnvs { Γ with mgr := σ } (pyTok x :: seen) ((pyTok x, v) :: delayed) bs with
          | error err => simp [hrec, Except.map] at h
          | ok tr' =>
            simp only [hrec, Except.map, Except.ok.injEq] at h
            subst h
            obtain ⟨hlen, hall⟩ := let_outer_kept bs _ _ _ tr' hrec
            refine ⟨by simp [hlen], ?_⟩
            intro Γi hm
            rcases List.mem_cons.mp hm with rfl | hm
            · exact ⟨rfl, fun _ _ => rfl⟩
            · exact hall Γi hm
  | .atom _ :: _, _, _, _, _, h => by simp [letEnvs] at h
  | .str _ :: _, _, _, _, _, h => by simp [letEnvs] at h
  | .list [] :: _, _, _, _, _, h => by simp [letEnvs] at h
  | .list [_] :: _, _, _, _, _, h => by simp [letEnvs] at h
  | .list (.str _ :: _ :: _) :: _, _, _, _, _, h => by simp [letEnvs] at h
  | .list (.list _ :: _ :: _) :: _, _, _, _, _, h => by simp [letEnvs] at h
  | .list (.atom _ :: _ :: _ :: _) :: _, _, _, _, _, h => by simp [letEnvs] at h

/-! ## the hypotheses are satisfiable -/

/-- the binders `((x Int) (y Bool))` -/
def exBinders : List Sexp := [.list [.atom "x", .atom "Int"], .list [.atom "y", .atom "Bool"]]

/-- an environment in which `x` is a *defined function* and the manager knows `y` with another sort -/
def exEnv : PEnv :=
  { binds := [("x", .fn (.defn [] Term.tt)), ("p", .term (Term.sym (Sym.var "p" .bool))),
              ("f", .fn (.uf ⟨"f", [.bool], .bool⟩))],
    mgr := { symbols := [("y", Sym.var "y" .int)] } }

theorem exBinders_run : rdQuantBinds exEnv [] exBinders =
    .ok ({ exEnv with
            binds := ("y", .term (Term.sym (Sym.var "y0" .bool))) :: ("x", .term (Term.sym (Sym.var "x" .int))) :: exEnv.binds,
            mgr := { symbols := [("y0", Sym.var "y0" .bool), ("x", Sym.var "x" .int), ("y", Sym.var "y" .int)], fresh := 1 } },
         [Sym.var "x" .int, Sym.var "y0" .bool]) := by
  rfl

example : bindNames exBinders = ["x", "y"] := by decide
example : (bindNames exBinders).Nodup := by decide

/-- `binder_shadows_all` at work: inside the quantifier `x` is the bound variable although `x` was a definition, and `y`
is the fresh symbol `y0` -/
example : ∀ Γ' vs, rdQuantBinds exEnv [] exBinders = .ok (Γ', vs) →
    lookup "x" Γ'.binds = some (.term (Term.sym (Sym.var "x" .int))) ∧
    lookup "y" Γ'.binds = some (.term (Term.sym (Sym.var "y0" .bool))) := by
  intro Γ' vs h
  have hvs : vs = ([] : List Sym).reverse ++ [Sym.var "x" .int, Sym.var "y0" .bool] := by
    rw [exBinders_run] at h
    simp only [Except.ok.injEq, Prod.mk.injEq] at h
    rw [← h.2]; rfl
  have hall := binder_shadows_all exEnv exBinders [] Γ' vs _ h hvs (by decide)
  exact ⟨hall ("x", Sym.var "x" .int) (by decide), hall ("y", Sym.var "y0" .bool) (by decide)⟩

/-- hypotheses of `rdQuantBinds_names_exact`: an empty manager -/
example : ∃ Γ' vs, rdQuantBinds {} [] exBinders = .ok (Γ', vs) ∧ (bindNames exBinders).Nodup ∧
    (∀ n ∈ bindNames exBinders, ∀ e ∈ ({} : PEnv).mgr.symbols, e.1 ≠ n) ∧ vs.map (·.name) = ["x", "y"] :=
  ⟨_, _, rfl, by decide, (by intro _ _ e he; cases he), rfl⟩

/-- a `let` whose first variable `a` is new and whose second variable `x` has a meaning outside:
`(let ((a x) (x a)) …)` -/
def exLetBinds : List Sexp := [.list [.atom "a", .atom "x"], .list [.atom "x", .atom "a"]]

def exLetEnv : PEnv := { binds := [("x", .term (Term.sym (Sym.var "x" .int)))] }

example : letEnvs exLetEnv [] [] exLetBinds =
    .ok [exLetEnv, { exLetEnv with binds := ("a", .term (Term.sym (Sym.var "x" .int))) :: exLetEnv.binds }] := rfl

example : (rdLetBinds exLetEnv [] [] exLetBinds).toBool = true := rfl

/-- the body sees `x ↦ (old) x` through `a` and `a ↦ x`: simultaneous -/
example : (rdLetBinds exLetEnv [] [] exLetBinds).map (fun Γ => (lookup "x" Γ.binds, lookup "a" Γ.binds)) =
    .ok (some (.term (Term.sym (Sym.var "x" .int))), some (.term (Term.sym (Sym.var "x" .int)))) := rfl

example : (lookup "x" exLetEnv.binds).isSome = true := rfl

/-- `(and p (not foo))`, `(f foo)`, `((_ extract 3 1) foo)` with `foo` unknown -/
example : hasUnknownArg exEnv.binds (.list [.atom "and", .atom "p", .list [.atom "not", .atom "foo"]]) = true := by
  decide +kernel
example : hasUnknownArg exEnv.binds (.list [.atom "f", .atom "foo"]) = true := by decide +kernel
example : hasUnknownArg exEnv.binds
    (.list [.list [.atom "_", .atom "extract", .atom "3", .atom "1"], .atom "foo"]) = true := by decide +kernel
example : ∀ lone v σ, rdVal exEnv lone (.list [.atom "and", .atom "p", .list [.atom "not", .atom "foo"]]) ≠ .ok (v, σ) :=
  unknown_symbol_rejected_nested _ exEnv (by decide +kernel)
/-- no unknown name: the predicate is false; binder keywords are not covered -/
example : hasUnknownArg exEnv.binds (.list [.atom "and", .atom "p", .list [.atom "not", .atom "p"]]) = false := by
  decide +kernel
example : hasUnknownArg exEnv.binds
    (.list [.atom "let", .list [.list [.atom "foo", .atom "p"]], .atom "foo"]) = false := by decide +kernel

example : notLiteralStrict (pyTok "foo") := by decide +kernel
example : lookup (pyTok "foo") exEnv.binds = none := by decide +kernel
/-- what the strict form excludes and `notLiteral` let through -/
example : notLiteralStrict "foo_bar" ∧ notLiteralStrict "_x" := by decide +kernel
example : notLiteral "1_0" ∧ ¬ notLiteralStrict "1_0" := by decide +kernel
example : notLiteral "\"abc\"" ∧ ¬ notLiteralStrict "\"abc\"" := by decide +kernel
example : notLiteral " 1" ∧ ¬ notLiteralStrict " 1" := by decide +kernel
example : notLiteral "٣" ∧ ¬ notLiteralStrict "٣" := by decide +kernel

end PySMT.Parser
