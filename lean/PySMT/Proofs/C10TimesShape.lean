import PySMT.Proofs.C10Times
/-!
# C10 — `TimesDistributor`: the advertised normal form (`times_shape`)
-/
namespace PySMT.Rewritings

theorem timesNormal_node (op : Op) (args : List Term) (p : Payload) :
    timesNormal (.node op args p) =
      ((args.map timesNormal).all id &&
        (match op with
         | .times => !args.any isPlus
         | .plus => !args.any isPlus
         | .minus => false
         | _ => true)) := by
  rw [timesNormal.eq_def]
  rfl

theorem timesNormal_child {op : Op} {args : List Term} {p : Payload} (h : timesNormal (.node op args p) = true) :
    ∀ a ∈ args, timesNormal a = true := by
  intro a ha
  rw [timesNormal_node] at h
  simp only [Bool.and_eq_true, List.all_eq_true, List.mem_map] at h
  exact h.1 _ ⟨a, ha, rfl⟩

/-- normal and not a sum -/
def NP (t : Term) : Prop := timesNormal t = true ∧ isPlus t = false

theorem tn_mk {op : Op} {args : List Term} {p : Payload} (hch : ∀ a ∈ args, timesNormal a = true)
    (hop : (match op with
         | .times => !args.any isPlus
         | .plus => !args.any isPlus
         | .minus => false
         | _ => true) = true) : timesNormal (.node op args p) = true := by
  rw [timesNormal_node, hop, Bool.and_true]
  simp only [List.all_eq_true, List.mem_map, id]
  rintro _ ⟨a, ha, rfl⟩
  exact hch a ha

theorem no_plus_of {args : List Term} (h : ∀ a ∈ args, isPlus a = false) : (!args.any isPlus) = true := by
  simp only [Bool.not_eq_true', List.any_eq_false]
  intro a ha; simp [h a ha]

theorem tn_mkPlus {as : List Term} (h : ∀ a ∈ as, NP a) (hne : as ≠ []) : timesNormal (mkPlus as) = true := by
  match as, hne, h with
  | [a], _, h => exact (h a (by simp)).1
  | a :: b :: rest, _, h =>
    exact tn_mk (fun x hx => (h x hx).1) (no_plus_of (fun x hx => (h x hx).2))

theorem np_mkTimes {as : List Term} (h : ∀ a ∈ as, NP a) (hne : as ≠ []) : NP (mkTimes as) := by
  match as, hne, h with
  | [a], _, h => exact h a (by simp)
  | a :: b :: rest, _, h =>
    exact ⟨tn_mk (fun x hx => (h x hx).1) (no_plus_of (fun x hx => (h x hx).2)), rfl⟩

theorem summands_np {a : Term} (h : timesNormal a = true) : (∀ x ∈ summands a, NP x) ∧ summands a ≠ [] ∨
    (∃ p, a = .node .plus [] p) := by
  match a, h with
  | .node op args p, h =>
    by_cases hop : op = .plus
    · subst hop
      cases args with
      | nil => exact .inr ⟨p, rfl⟩
      | cons x xs =>
        refine .inl ⟨fun y hy => ?_, by simp [summands]⟩
        simp only [summands] at hy
        refine ⟨timesNormal_child h y hy, ?_⟩
        rw [timesNormal_node] at h
        simp only [Bool.and_eq_true, Bool.not_eq_true', List.any_eq_false] at h
        have := h.2 y hy
        simpa using this
    · have hs : summands (.node op args p) = [.node op args p] := by
        unfold summands; split <;> simp_all
      rw [hs]
      refine .inl ⟨fun y hy => ?_, by simp⟩
      simp only [List.mem_cons, List.not_mem_nil, or_false] at hy
      subst hy
      refine ⟨h, ?_⟩
      unfold isPlus; split <;> simp_all

theorem tn_tt : timesNormal Term.tt = true := by rw [Term.tt]; exact tn_mk (by simp) rfl
theorem tn_ff : timesNormal Term.ff = true := by rw [Term.ff]; exact tn_mk (by simp) rfl

theorem tn_mkAnd {as : List Term} (h : ∀ a ∈ as, timesNormal a = true) : timesNormal (mkAnd as) = true := by
  match as, h with
  | [], _ => exact tn_tt
  | [a], h => exact h a (by simp)
  | a :: b :: rest, h => exact tn_mk (op := .and) (p := .none) h rfl

theorem tn_mkOr {as : List Term} (h : ∀ a ∈ as, timesNormal a = true) : timesNormal (mkOr as) = true := by
  match as, h with
  | [], _ => exact tn_ff
  | [a], h => exact h a (by simp)
  | a :: b :: rest, h => exact tn_mk (op := .or) (p := .none) h rfl

theorem tn_mkNot {a : Term} (h : timesNormal a = true) : timesNormal (mkNot a) = true := by
  rcases mkNot_cases a with ⟨x, q, rfl, h2⟩ | h2
  · rw [h2]; exact timesNormal_child h x (by simp)
  · rw [h2]; exact tn_mk (op := .not) (by simpa using h) rfl

theorem tn_mkForall (vs : List Sym) {b : Term} (h : timesNormal b = true) : timesNormal (mkForall vs b) = true := by
  unfold mkForall; split
  · exact h
  · exact tn_mk (op := .forall_) (by simpa using h) rfl

theorem tn_mkExists (vs : List Sym) {b : Term} (h : timesNormal b = true) : timesNormal (mkExists vs b) = true := by
  unfold mkExists; split
  · exact h
  · exact tn_mk (op := .exists_) (by simpa using h) rfl

theorem tn_rebuild {op : Op} {args : List Term} {p : Payload} (hch : ∀ a ∈ args, timesNormal a = true)
    (hop : op ≠ .times ∧ op ≠ .plus ∧ op ≠ .minus) : timesNormal (rebuild op args p) = true := by
  have hnode : timesNormal (.node op args p) = true := by
    apply tn_mk hch
    obtain ⟨h1, h2, h3⟩ := hop
    cases op <;> first | rfl | exact absurd rfl h1 | exact absurd rfl h2 | exact absurd rfl h3
  by_cases hsp : special op = false
  · rw [rebuild_plain hsp]; exact hnode
  · cases op <;> simp [special] at hsp
    case and => rw [rebuild_and]; exact tn_mkAnd hch
    case or => rw [rebuild_or]; exact tn_mkOr hch
    case not =>
      match args, hch, hnode with
      | [a], hch, _ => exact tn_mkNot (hch a (by simp))
      | [], _, hnode => exact hnode
      | _ :: _ :: _, _, hnode => exact hnode
    case forall_ =>
      match args, p, hch, hnode with
      | [b], .qvars vs, hch, _ => exact tn_mkForall vs (hch b (by simp))
      | [], _, _, hnode => exact hnode
      | _ :: _ :: _, _, _, hnode => exact hnode
      | [_], .none, _, hnode | [_], .b _, _, hnode | [_], .i _, _, hnode | [_], .q _, _, hnode
      | [_], .s _, _, hnode | [_], .bv _ _, _, hnode | [_], .ints _, _, hnode | [_], .sym _, _, hnode
      | [_], .ty _, _, hnode => exact hnode
    case exists_ =>
      match args, p, hch, hnode with
      | [b], .qvars vs, hch, _ => exact tn_mkExists vs (hch b (by simp))
      | [], _, _, hnode => exact hnode
      | _ :: _ :: _, _, _, hnode => exact hnode
      | [_], .none, _, hnode | [_], .b _, _, hnode | [_], .i _, _, hnode | [_], .q _, _, hnode
      | [_], .s _, _, hnode | [_], .bv _ _, _, hnode | [_], .ints _, _, hnode | [_], .sym _, _, hnode
      | [_], .ty _, _, hnode => exact hnode

/-- **`times_shape`**: in the result no product and no sum has a sum among its arguments, and no
subtraction is left -/
theorem times_shape : (t : Term) → t.wf = true → timesNormal (timesDistr t) = true
  | .node op args p => fun hwf => by
    have hchwf := (Term.wf_node.mp hwf).1
    have ih : ∀ a ∈ args, timesNormal (timesDistr a) = true := fun a ha => times_shape a (hchwf a ha)
    have ih' : ∀ x ∈ args.map timesDistr, timesNormal x = true := by
      intro x hx
      obtain ⟨a, ha, rfl⟩ := List.mem_map.mp hx
      exact ih a ha
    have hshape := (Term.wf_node.mp hwf).2.1
    -- summands of a rewritten argument
    have hsum : ∀ x ∈ args.map timesDistr, (∀ y ∈ summands x, NP y) ∧ summands x ≠ [] := by
      intro x hx
      rcases summands_np (ih' x hx) with h | ⟨q, hq⟩
      · exact h
      · -- a sum without arguments is not well-formed, hence not a result; it is harmless anyway
        subst hq
        exact ⟨fun y hy => by simp [summands] at hy, by
          obtain ⟨a, ha, hax⟩ := List.mem_map.mp hx
          have hw := (times_spec a (hchwf a ha)).1.1
          rw [hax] at hw
          have := (Term.wf_node.mp hw).2.1
          simp [Op.shapeOK] at this⟩
    by_cases hop : op = .times
    · subst hop
      simp only [timesDistr]
      unfold walkTimes
      split
      · refine tn_mkPlus (fun z hz => ?_) ?_
        · obtain ⟨q, hq, rfl⟩ := List.mem_map.mp hz
          have hlen := cartesian_length _ q hq
          refine np_mkTimes (fun y hy => ?_) ?_
          · obtain ⟨L, hL, hyL⟩ := cartesian_mem _ q hq y hy
            obtain ⟨x, hx, rfl⟩ := List.mem_map.mp hL
            exact (hsum x hx).1 y hyL
          · intro e
            rw [e, List.length_map, List.length_map] at hlen
            have : 2 ≤ args.length := by simpa [Op.shapeOK] using hshape
            simp at hlen; omega
        · simpa using cartesian_ne_nil ((args.map timesDistr).map summands) (fun L hL => by
            obtain ⟨x, hx, rfl⟩ := List.mem_map.mp hL
            exact (hsum x hx).2)
      · next hnp =>
        have hne : args.map timesDistr ≠ [] := by
          have : 2 ≤ args.length := by simpa [Op.shapeOK] using hshape
          intro e; rw [List.map_eq_nil_iff] at e; subst e; simp at this
        refine (np_mkTimes (fun y hy => ⟨ih' y hy, ?_⟩) hne).1
        simp only [Bool.not_eq_true, List.any_eq_false] at hnp
        have := hnp y hy
        simpa using this
    by_cases hop2 : op = .plus
    · subst hop2
      simp only [timesDistr, walkPlus]
      have hlen : 2 ≤ args.length := by simpa [Op.shapeOK] using hshape
      refine tn_mkPlus (fun y hy => ?_) ?_
      · obtain ⟨x, hx, hyx⟩ := List.mem_flatMap.mp hy
        exact (hsum x hx).1 y hyx
      · match args, hlen with
        | a :: rest, _ =>
          obtain ⟨y, hy⟩ := List.exists_mem_of_ne_nil _ (hsum (timesDistr a) (by simp)).2
          exact List.ne_nil_of_mem (List.mem_flatMap.mpr ⟨timesDistr a, by simp, hy⟩)
    by_cases hop3 : op = .minus
    · subst hop3
      have hlen : args.length = 2 := by simpa [Op.shapeOK] using hshape
      match args, hlen with
      | [a, b], _ =>
        simp only [timesDistr, walkMinus]
        have sa := hsum (timesDistr a) (by simp)
        have sb := hsum (timesDistr b) (by simp)
        refine tn_mkPlus (fun y hy => ?_) (by simp [sa.2])
        rcases List.mem_append.mp hy with hy | hy
        · exact sa.1 y hy
        · obtain ⟨r, hr, rfl⟩ := List.mem_map.mp hy
          refine np_mkTimes (fun z hz => ?_) (by simp)
          simp only [List.mem_cons, List.not_mem_nil, or_false] at hz
          rcases hz with rfl | rfl
          · split
            · exact ⟨by rw [Term.real]; exact tn_mk (by simp) rfl, rfl⟩
            · exact ⟨by rw [Term.int]; exact tn_mk (by simp) rfl, rfl⟩
          · exact sb.1 _ hr
    · have hgen : timesDistr (.node op args p) = rebuild op (args.map timesDistr) p := by
        unfold timesDistr
        split <;> simp_all
      rw [hgen]
      exact tn_rebuild ih' ⟨hop, hop2, hop3⟩

end PySMT.Rewritings
