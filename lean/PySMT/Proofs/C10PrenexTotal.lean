import PySMT.Proofs.C10PrenexMain
/-!
# C10 — `prenex_normal_form` returns a result on every well-formed formula (`prenex_total`)
-/
namespace PySMT.Rewritings

section
variable {fresh : Nat → String}

theorem const_type {op : Op} (hop : op = .intConst ∨ op = .realConst ∨ op = .strConst ∨ op = .bvConst ∨ op = .algebraicConst)
    {p : Payload} {ts : List (Option Ty)} (h : typeOfNode op p ts = some .bool) : False := by
  rcases hop with rfl | rfl | rfl | rfl | rfl
  · cases ts <;> cases h
  · cases ts <;> cases h
  · cases ts <;> cases h
  · cases p <;> cases ts <;> cases h
  · cases ts <;> cases h

/-- the operators of a Boolean-sorted well-formed node that is not a connective -/
theorem bool_atom_ops {op : Op} {args : List Term} {p : Payload} (h : WB (.node op args p))
    (hc : prenexConn op = false) :
    op = .symbol ∨ op = .boolConst ∨ op = .function ∨ op.boolRes = true ∨ op = .arraySelect := by
  have hty := h.2
  rw [typeOf_node] at hty
  have hs := (Term.wf_node.mp h.1).2.1
  have ar : op.isArith = true → False := by
    intro ha
    rw [typeOfNode_arith op ha] at hty
    split at hty
    · cases hty
    · split at hty <;> cases hty
  have bs : op.isBvSame = true → False := by
    intro ha
    rw [typeOfNode_bvSame op ha] at hty
    split at hty
    · split at hty <;> cases hty
    · cases hty
  have sr : op.strRes = true → False := fun ha => by cases typeOfNode_strRes op ha hty
  have si : op.strIntRes = true → False := fun ha => by cases typeOfNode_strIntRes op ha hty
  cases op <;> simp [prenexConn] at hc
  case intConst | realConst | strConst | bvConst | algebraicConst => exact (const_type (by simp) hty).elim
  case symbol => exact .inl rfl
  case boolConst => exact .inr (.inl rfl)
  case function => exact .inr (.inr (.inl rfl))
  case le | lt | equals | bvUlt | bvUle | bvSlt | bvSle | strContains | strPrefixOf | strSuffixOf =>
    exact .inr (.inr (.inr (.inl rfl)))
  case arraySelect => exact .inr (.inr (.inr (.inr rfl)))
  case plus | minus | times | div => exact (ar rfl).elim
  case bvNot | bvAnd | bvOr | bvXor | bvNeg | bvAdd | bvSub | bvMul | bvUdiv | bvUrem | bvLshl | bvLshr
      | bvSdiv | bvSrem | bvAshr => exact (bs rfl).elim
  case strConcat | strReplace | strSubstr | intToStr | strCharAt => exact (sr rfl).elim
  case strLength | strIndexOf | strToInt => exact (si rfl).elim
  case toReal => rw [typeOfNode_toReal] at hty; split at hty <;> cases hty
  case bvConcat => obtain ⟨_, _, _, e⟩ := typeOfNode_bvConcat hty; cases e
  case bvExtract => obtain ⟨_, _, _, _, _, _, e, _⟩ := typeOfNode_bvExtract hty; cases e
  case bvRol => obtain ⟨_, _, _, _, e⟩ := typeOfNode_bvRot _ (.inl rfl) hty; cases e
  case bvRor => obtain ⟨_, _, _, _, e⟩ := typeOfNode_bvRot _ (.inr rfl) hty; cases e
  case bvZext => obtain ⟨_, _, _, _, _, _, e⟩ := typeOfNode_bvExt _ (.inl rfl) hty; cases e
  case bvSext => obtain ⟨_, _, _, _, _, _, e⟩ := typeOfNode_bvExt _ (.inr rfl) hty; cases e
  case bvComp => obtain ⟨_, _, e⟩ := typeOfNode_bvComp hty; cases e
  case bvToNatural => cases (typeOfNode_bvToNatural hty).1
  case arrayStore => obtain ⟨_, _, _, e⟩ := typeOfNode_arrayStore' hty; cases e
  case arrayValue => obtain ⟨_, _, _, _, _, _, e⟩ := typeOfNode_arrayValue hty; cases e
  case pow => exact Bool.noConfusion hs

theorem allSome_map_some {α} : ∀ xs : List α, allSome (xs.map some) = some xs
  | [] => rfl
  | x :: xs => by simp [allSome, allSome_map_some xs]

theorem len_one {α} {xs : List α} {a : Term} (h : xs.length = [a].length) : ∃ x, xs = [x] := by
  match xs, h with
  | [x], _ => exact ⟨x, rfl⟩
theorem len_two {α} {xs : List α} {a b : Term} (h : xs.length = [a, b].length) : ∃ x y, xs = [x, y] := by
  match xs, h with
  | [x, y], _ => exact ⟨x, y, rfl⟩
theorem len_three {α} {xs : List α} {a b c : Term} (h : xs.length = [a, b, c].length) : ∃ x y z, xs = [x, y, z] := by
  match xs, h with
  | [x, y, z], _ => exact ⟨x, y, z, rfl⟩

mutual
theorem prenexW_some : (t : Term) → ∀ n : Nat, WB t → ∃ x, (prenexW fresh t n).1 = some x
  | .node op args p, n, hwb => by
    rw [prenexW]
    by_cases hc : prenexConn op = true
    · -- a connective: the children are Boolean formulas, their results are present
      have hch : ∀ a ∈ args, WB a := by
        cases op <;> simp [prenexConn] at hc
        case and => exact (wb_and _ _).mp hwb
        case or => exact (wb_or _ _).mp hwb
        case not => exact ((wb_conn (by simp) args p).mp hwb).2
        case implies => exact ((wb_conn (by simp) args p).mp hwb).2
        case iff => exact ((wb_conn (by simp) args p).mp hwb).2
        case ite =>
          obtain ⟨c, a, b, rfl⟩ := wf_ite_args hwb.1
          obtain ⟨h1, h2, h3⟩ := (wb_ite _ _ _ _).mp hwb
          intro x hx
          simp only [List.mem_cons, List.not_mem_nil, or_false] at hx
          rcases hx with rfl | rfl | rfl <;> assumption
        case forall_ =>
          obtain ⟨b, vs, rfl, rfl⟩ := wf_quant_args (.inl rfl) hwb.1
          intro x hx; simp at hx; subst hx; exact (wb_forall _ _).mp hwb
        case exists_ =>
          obtain ⟨b, vs, rfl, rfl⟩ := wf_quant_args (.inr rfl) hwb.1
          intro x hx; simp at hx; subst hx; exact (wb_exists _ _).mp hwb
      obtain ⟨xs, hxs, hlen⟩ := prenexL_some args n hch
      rw [hxs]
      cases op <;> simp [prenexConn] at hc
      case and => simp only [prenexNode, allSome_map_some]; exact ⟨_, rfl⟩
      case or => simp only [prenexNode, allSome_map_some]; exact ⟨_, rfl⟩
      case not =>
        obtain ⟨a, rfl⟩ := wf_not_args hwb.1
        obtain ⟨x, rfl⟩ := len_one hlen
        exact ⟨_, rfl⟩
      case implies =>
        obtain ⟨a, b, rfl⟩ := wf_binary_args (.inl rfl) hwb.1
        obtain ⟨x, y, rfl⟩ := len_two hlen
        exact ⟨_, rfl⟩
      case iff =>
        obtain ⟨a, b, rfl⟩ := wf_binary_args (.inr rfl) hwb.1
        obtain ⟨x, y, rfl⟩ := len_two hlen
        exact ⟨_, rfl⟩
      case ite =>
        obtain ⟨c, a, b, rfl⟩ := wf_ite_args hwb.1
        obtain ⟨x, y, z, rfl⟩ := len_three hlen
        exact ⟨_, rfl⟩
      case forall_ =>
        obtain ⟨b, vs, rfl, rfl⟩ := wf_quant_args (.inl rfl) hwb.1
        obtain ⟨x, rfl⟩ := len_one hlen
        exact ⟨_, rfl⟩
      case exists_ =>
        obtain ⟨b, vs, rfl, rfl⟩ := wf_quant_args (.inr rfl) hwb.1
        obtain ⟨x, rfl⟩ := len_one hlen
        exact ⟨_, rfl⟩
    · have hc' : prenexConn op = false := by simpa using hc
      rcases bool_atom_ops hwb hc' with rfl | rfl | rfl | hb | rfl
      · -- symbol
        have hty := hwb.2
        rw [typeOf_node] at hty
        obtain ⟨_, s, rfl, hp⟩ := typeOfNode_symbol (by rw [hty]; rfl)
        have hargs := Term.wt_symbol_args (Term.wf_wt _ hwb.1)
        subst hargs
        rw [typeOfNode_symbol_eq] at hty
        simp only [List.map_nil, hp, List.isEmpty_nil, if_true, Option.some.injEq] at hty
        simp only [prenexNode, hty, hp, beq_self_eq_true, List.isEmpty_nil, Bool.and_self, if_true]
        exact ⟨_, rfl⟩
      · exact ⟨_, rfl⟩
      · -- function
        have hty := hwb.2
        rw [typeOf_node, typeOfNode_function_eq] at hty
        cases p with
        | sym f =>
          simp only at hty
          split at hty
          · simp only [Option.some.injEq] at hty
            simp only [prenexNode, hty, beq_self_eq_true, if_true]
            exact ⟨_, rfl⟩
          · cases hty
        | _ => cases hty
      · cases op <;> simp [Op.boolRes, prenexConn] at hb hc' <;> exact ⟨_, rfl⟩
      · simp only [prenexNode, hwb.2, beq_self_eq_true, if_true]
        exact ⟨_, rfl⟩
theorem prenexL_some : (ts : List Term) → ∀ n : Nat, (∀ t ∈ ts, WB t) →
    ∃ xs : List (List QBlock × Term), (prenexL fresh ts n).1 = xs.map some ∧ xs.length = ts.length
  | [], _, _ => ⟨[], rfl, rfl⟩
  | a :: as, n, h => by
    obtain ⟨x, hx⟩ := prenexW_some a n (h a (by simp))
    obtain ⟨xs, hxs, hl⟩ := prenexL_some as (prenexW fresh a n).2 (fun t ht => h t (by simp [ht]))
    refine ⟨x :: xs, ?_, by simp [hl]⟩
    simp only [prenexL, hx, hxs, List.map_cons]
end

/-- **`prenex_total`** -/
theorem prenex_total_main (t : Term) (hwf : t.wf = true) (hty : t.typeOf = some .bool) :
    ∃ r, prenex fresh t = some r := by
  obtain ⟨x, hx⟩ := prenexW_some (fresh := fresh) t 0 ⟨hwf, hty⟩
  exact ⟨wrapBlocks x.1 x.2, by simp only [prenex, hx, Option.map_some]⟩

/-- **`prenex_wf`**: the result is a well-formed formula -/
theorem prenex_wf_main (hinj : Inj fresh) (t r : Term) (hwf : t.wf = true) (hty : t.typeOf = some .bool)
    (hq : quantInBoolPos t = true) (hpl : plainBinders t = true) (hav : Avoids fresh t)
    (h : prenex fresh t = some r) : r.wf = true ∧ r.typeOf = some .bool := by
  unfold prenex at h
  cases hw : (prenexW fresh t 0).1 with
  | none => rw [hw] at h; cases h
  | some x =>
    rw [hw] at h
    simp only [Option.map_some, Option.some.injEq] at h
    subst h
    have hg := (prenexW_good hinj t 0 ⟨hwf, hty⟩ hq hpl hav x hw).good
    exact (wrap_sem x.1 x.2 hg.wb).1

end

end PySMT.Rewritings
