import PySMT.Impl.Mk
/-!
# C08 — "accepted ⇒ well-typed", part 1: every constructor of `Impl.Mk` hands out `wt` terms

`WTR r` : if the constructor call `r` succeeds, its result is `wt`. Every public constructor of the formula manager
model satisfies it as soon as its arguments are `wt` (`create` runs the checker on the new node; the normalising
shortcuts return an argument, a child of an argument, or a constant).
-/
namespace PySMT.Parser.WT
open PySMT PySMT.Mk

/-! ## `Term.wt` on a node -/

theorem wt_node (op : Op) (args : List Term) (p : Payload) :
    (Term.node op args p).wt = true ↔
      (∀ a ∈ args, a.wt = true) ∧ (typeOfNode op p (args.map Term.typeOf)).isSome = true := by
  rw [Term.wt.eq_def]
  simp only [Bool.and_eq_true, List.all_eq_true, List.mem_map, id]
  constructor
  · rintro ⟨h1, h2⟩; exact ⟨fun a ha => h1 _ ⟨a, ha, rfl⟩, h2⟩
  · rintro ⟨h1, h2⟩
    refine ⟨?_, h2⟩
    rintro _ ⟨a, ha, rfl⟩
    exact h1 a ha

theorem wt_child {op args p} (h : (Term.node op args p).wt = true) : ∀ a ∈ args, a.wt = true :=
  ((wt_node op args p).1 h).1

theorem wt_leaf (op : Op) (p : Payload) (h : (typeOfNode op p []).isSome = true) : (Term.node op [] p).wt = true :=
  (wt_node op [] p).2 ⟨fun _ ha => (nomatch ha), h⟩

theorem wt_int (n : Int) : (Term.int n).wt = true := wt_leaf _ _ rfl
theorem wt_real (q : Rat) : (Term.real q).wt = true := wt_leaf _ _ rfl
theorem wt_str (s : String) : (Term.str s).wt = true := wt_leaf _ _ rfl
theorem wt_bool (b : Bool) : (Term.bool b).wt = true := wt_leaf _ _ rfl
theorem wt_tt : Term.tt.wt = true := wt_leaf _ _ rfl
theorem wt_ff : Term.ff.wt = true := wt_leaf _ _ rfl
theorem wt_bvc (v w : Nat) : (Term.bvc v w).wt = true := wt_leaf _ _ rfl

/-- a symbol term is `wt` exactly when the symbol is a constant (no function signature) -/
theorem wt_sym (s : Sym) : (Term.sym s).wt = true ↔ s.params = [] := by
  unfold Term.sym
  rw [wt_node]
  have : typeOfNode .symbol (.sym s) [] = if s.params.isEmpty then some s.ret else none := rfl
  simp only [List.map_nil, this]
  constructor
  · rintro ⟨_, h⟩
    cases hp : s.params with
    | nil => rfl
    | cons a l => rw [hp] at h; simp at h
  · intro h; rw [h]; exact ⟨fun _ ha => (nomatch ha), rfl⟩

theorem wt_sym_var (n : String) (t : Ty) : (Term.sym (Sym.var n t)).wt = true := (wt_sym _).2 rfl

/-! ## results of constructors -/

/-- a successful result is well-typed -/
def WTR (r : Mk.R) : Prop := ∀ t, r = .ok t → t.wt = true

/-- a successful result is a list of well-typed terms -/
def WTL (r : Except Mk.Err (List Term)) : Prop := ∀ l, r = .ok l → ∀ a ∈ l, a.wt = true

theorem WTR_ok {t : Term} (h : t.wt = true) : WTR (.ok t) := by
  intro t' e; cases e; exact h

theorem WTR_error (e : Mk.Err) : WTR (.error e) := by
  intro t' h; cases h

theorem WTR_pure {t : Term} (h : t.wt = true) : WTR (pure t) := WTR_ok h

theorem WTL_ok {l : List Term} (h : ∀ a ∈ l, a.wt = true) : WTL (.ok l) := by
  intro l' e; cases e; exact h

theorem WTL_error (e : Mk.Err) : WTL (.error e) := by
  intro t' h; cases h

/-- sequencing after a constructor -/
theorem WTR_bind {x : Mk.R} {f : Term → Mk.R} (hx : WTR x) (hf : ∀ a, a.wt = true → WTR (f a)) :
    WTR (x >>= f) := by
  intro t h
  cases x with
  | error e => cases h
  | ok a => exact hf a (hx a rfl) t h

/-- sequencing after a computation whose value carries no obligation (`bvWidth`, …) -/
theorem WTR_bind_any {α : Type} {x : Except Mk.Err α} {f : α → Mk.R} (hf : ∀ a, WTR (f a)) : WTR (x >>= f) := by
  intro t h
  cases x with
  | error e => cases h
  | ok a => exact hf a t h

theorem WTR_bindL {x : Except Mk.Err (List Term)} {f : List Term → Mk.R} (hx : WTL x)
    (hf : ∀ l, (∀ a ∈ l, a.wt = true) → WTR (f l)) : WTR (x >>= f) := by
  intro t h
  cases x with
  | error e => cases h
  | ok l => exact hf l (hx l rfl) t h

theorem WTL_bind {x : Mk.R} {f : Term → Except Mk.Err (List Term)} (hx : WTR x)
    (hf : ∀ a, a.wt = true → WTL (f a)) : WTL (x >>= f) := by
  intro t h
  cases x with
  | error e => cases h
  | ok a => exact hf a (hx a rfl) t h

theorem WTL_bindL {x : Except Mk.Err (List Term)} {f : List Term → Except Mk.Err (List Term)} (hx : WTL x)
    (hf : ∀ l, (∀ a ∈ l, a.wt = true) → WTL (f l)) : WTL (x >>= f) := by
  intro t h
  cases x with
  | error e => cases h
  | ok l => exact hf l (hx l rfl) t h

theorem WTR_map {α : Type} {x : Except Mk.Err α} {g : α → Term} (hg : ∀ a, (g a).wt = true) : WTR (x.map g) := by
  intro t h
  cases x with
  | error e => cases h
  | ok a => cases h; exact hg a

theorem WTR_ite {c : Prop} [Decidable c] {a b : Mk.R} (ha : WTR a) (hb : WTR b) : WTR (if c then a else b) := by
  split <;> assumption

/-! ## `create_node` -/

theorem create_wt {op : Op} {args : List Term} {p : Payload} {t : Term} (hargs : ∀ a ∈ args, a.wt = true)
    (h : Mk.create op args p = .ok t) : t.wt = true := by
  unfold Mk.create at h
  split at h
  · next hs => cases h; exact (wt_node op args p).2 ⟨hargs, hs⟩
  · cases h

theorem WTR_create {op : Op} {args : List Term} {p : Payload} (hargs : ∀ a ∈ args, a.wt = true) :
    WTR (Mk.create op args p) := fun _ h => create_wt hargs h

theorem mem1 {a : Term} (ha : a.wt = true) : ∀ x ∈ [a], x.wt = true := by
  intro x hx; simp only [List.mem_cons, List.not_mem_nil, or_false] at hx; subst hx; exact ha
theorem mem2 {a b : Term} (ha : a.wt = true) (hb : b.wt = true) : ∀ x ∈ [a, b], x.wt = true := by
  intro x hx; simp only [List.mem_cons, List.not_mem_nil, or_false] at hx
  rcases hx with rfl | rfl <;> assumption
theorem mem3 {a b c : Term} (ha : a.wt = true) (hb : b.wt = true) (hc : c.wt = true) :
    ∀ x ∈ [a, b, c], x.wt = true := by
  intro x hx; simp only [List.mem_cons, List.not_mem_nil, or_false] at hx
  rcases hx with rfl | rfl | rfl <;> assumption

theorem WTR_create1 {op p} {a : Term} (ha : a.wt = true) : WTR (Mk.create op [a] p) := WTR_create (mem1 ha)
theorem WTR_create2 {op p} {a b : Term} (ha : a.wt = true) (hb : b.wt = true) : WTR (Mk.create op [a, b] p) :=
  WTR_create (mem2 ha hb)
theorem WTR_create3 {op p} {a b c : Term} (ha : a.wt = true) (hb : b.wt = true) (hc : c.wt = true) :
    WTR (Mk.create op [a, b, c] p) := WTR_create (mem3 ha hb hc)

/-! ## constants -/

theorem WTR_BV (v : Int) (w : Nat) : WTR (Mk.BV v w) := by
  unfold Mk.BV
  exact WTR_ite (WTR_error _) (WTR_ite (WTR_error _) (WTR_ite (WTR_error _) (WTR_ok (wt_bvc _ _))))

theorem WTR_SBV (v : Int) (w : Nat) : WTR (Mk.SBV v w) := by
  unfold Mk.SBV
  exact WTR_ite (WTR_error _) (WTR_ite (WTR_error _) (WTR_ite (WTR_error _) (WTR_ite (WTR_BV _ _) (WTR_BV _ _))))

/-! ## Boolean and arithmetic constructors -/

theorem WTR_ForAll (vs : List Sym) {f : Term} (hf : f.wt = true) : WTR (Mk.ForAll vs f) := by
  unfold Mk.ForAll; exact WTR_ite (WTR_ok hf) (WTR_create1 hf)
theorem WTR_Exists (vs : List Sym) {f : Term} (hf : f.wt = true) : WTR (Mk.Exists vs f) := by
  unfold Mk.Exists; exact WTR_ite (WTR_ok hf) (WTR_create1 hf)

/-- `Function(f, [])` is the bare symbol `f`: well-typed only when `f` is a constant -/
theorem WTR_Function (f : Sym) {params : List Term} (hp : ∀ a ∈ params, a.wt = true)
    (hne : params ≠ [] ∨ f.params = []) : WTR (Mk.Function f params) := by
  unfold Mk.Function
  split
  · next h =>
    have : params = [] := by simpa using h
    rcases hne with h' | h'
    · exact absurd this h'
    · exact WTR_ok ((wt_sym f).2 h')
  · exact WTR_ite (WTR_error _) (WTR_ite (WTR_error _) (WTR_create hp))

theorem WTR_Not {f : Term} (hf : f.wt = true) : WTR (Mk.Not f) := by
  unfold Mk.Not
  split
  · exact WTR_ok (wt_child hf _ (by simp))
  · exact WTR_error _
  · exact WTR_create1 hf

theorem WTR_Implies {l r : Term} (hl : l.wt = true) (hr : r.wt = true) : WTR (Mk.Implies l r) := WTR_create2 hl hr
theorem WTR_Iff {l r : Term} (hl : l.wt = true) (hr : r.wt = true) : WTR (Mk.Iff l r) := WTR_create2 hl hr
theorem WTR_Minus {l r : Term} (hl : l.wt = true) (hr : r.wt = true) : WTR (Mk.Minus l r) := WTR_create2 hl hr
theorem WTR_Equals {l r : Term} (hl : l.wt = true) (hr : r.wt = true) : WTR (Mk.Equals l r) := WTR_create2 hl hr
theorem WTR_LE {l r : Term} (hl : l.wt = true) (hr : r.wt = true) : WTR (Mk.LE l r) := WTR_create2 hl hr
theorem WTR_LT {l r : Term} (hl : l.wt = true) (hr : r.wt = true) : WTR (Mk.LT l r) := WTR_create2 hl hr
theorem WTR_GE {l r : Term} (hl : l.wt = true) (hr : r.wt = true) : WTR (Mk.GE l r) := WTR_create2 hr hl
theorem WTR_GT {l r : Term} (hl : l.wt = true) (hr : r.wt = true) : WTR (Mk.GT l r) := WTR_create2 hr hl
theorem WTR_Ite {c l r : Term} (hc : c.wt = true) (hl : l.wt = true) (hr : r.wt = true) : WTR (Mk.Ite c l r) :=
  WTR_create3 hc hl hr

theorem WTR_And {args : List Term} (h : ∀ a ∈ args, a.wt = true) : WTR (Mk.And args) := by
  unfold Mk.And
  split
  · exact WTR_ok wt_tt
  · exact WTR_ok (h _ (by simp))
  · exact WTR_create h

theorem WTR_Or {args : List Term} (h : ∀ a ∈ args, a.wt = true) : WTR (Mk.Or args) := by
  unfold Mk.Or
  split
  · exact WTR_ok wt_ff
  · exact WTR_ok (h _ (by simp))
  · exact WTR_create h

theorem WTR_Plus {args : List Term} (h : ∀ a ∈ args, a.wt = true) : WTR (Mk.Plus args) := by
  unfold Mk.Plus
  split
  · exact WTR_error _
  · exact WTR_ok (h _ (by simp))
  · exact WTR_create h

theorem WTR_Times {args : List Term} (h : ∀ a ∈ args, a.wt = true) : WTR (Mk.Times args) := by
  unfold Mk.Times
  split
  · exact WTR_error _
  · exact WTR_ok (h _ (by simp))
  · exact WTR_create h

theorem WTR_Pow {b e : Term} (hb : b.wt = true) (he : e.wt = true) : WTR (Mk.Pow b e) := by
  unfold Mk.Pow
  split
  · exact WTR_error _
  · split
    · split
      · exact WTR_map (fun q => wt_real q)
      · split
        · exact WTR_map (fun q => wt_real q)
        · exact WTR_error _
      · exact WTR_error _
    · exact WTR_create2 hb he

theorem WTR_Div {l r : Term} (hl : l.wt = true) (hr : r.wt = true) : WTR (Mk.Div l r) := by
  unfold Mk.Div
  split
  · split
    · exact WTR_create2 hl hr
    · exact WTR_Times (mem2 hl (wt_real _))
  · exact WTR_create2 hl hr

theorem WTR_ToReal {f : Term} (hf : f.wt = true) : WTR (Mk.ToReal f) := by
  unfold Mk.ToReal
  split
  · exact WTR_ok hf
  · split
    · exact WTR_ok (wt_real _)
    · exact WTR_create1 hf
  · exact WTR_error _

theorem WTR_Xor {l r : Term} (hl : l.wt = true) (hr : r.wt = true) : WTR (Mk.Xor l r) := by
  unfold Mk.Xor
  exact WTR_bind (WTR_Iff hl hr) (fun a ha => WTR_Not ha)

theorem WTR_EqualsOrIff {l r : Term} (hl : l.wt = true) (hr : r.wt = true) : WTR (Mk.EqualsOrIff l r) := by
  unfold Mk.EqualsOrIff
  split
  · exact WTR_error _
  · exact WTR_Iff hl hr
  · exact WTR_Equals hl hr

theorem WTL_neqAll {a : Term} (ha : a.wt = true) : ∀ (l : List Term), (∀ b ∈ l, b.wt = true) → WTL (Mk.neqAll a l)
  | [], _ => WTL_ok (fun _ h => nomatch h)
  | b :: bs, h => by
    unfold Mk.neqAll
    refine WTL_bind (WTR_EqualsOrIff ha (h b (by simp))) (fun e he => ?_)
    refine WTL_bind (WTR_Not he) (fun n hn => ?_)
    refine WTL_bindL (WTL_neqAll ha bs (fun x hx => h x (by simp [hx]))) (fun rest hrest => ?_)
    refine WTL_ok ?_
    intro x hx
    simp only [List.mem_cons] at hx
    rcases hx with rfl | hx
    · exact hn
    · exact hrest x hx

theorem WTL_adPairs : ∀ (l : List Term), (∀ b ∈ l, b.wt = true) → WTL (Mk.adPairs l)
  | [], _ => WTL_ok (fun _ h => nomatch h)
  | a :: rest, h => by
    unfold Mk.adPairs
    refine WTL_bindL (WTL_neqAll (h a (by simp)) rest (fun x hx => h x (by simp [hx]))) (fun xs hxs => ?_)
    refine WTL_bindL (WTL_adPairs rest (fun x hx => h x (by simp [hx]))) (fun ys hys => ?_)
    refine WTL_ok ?_
    intro x hx
    simp only [List.mem_append] at hx
    rcases hx with hx | hx
    · exact hxs x hx
    · exact hys x hx

theorem WTR_AllDifferent {args : List Term} (h : ∀ a ∈ args, a.wt = true) : WTR (Mk.AllDifferent args) := by
  unfold Mk.AllDifferent
  exact WTR_bindL (WTL_adPairs args h) (fun l hl => WTR_And hl)

/-! ## bit-vectors -/

theorem WTR_bvUn (op : Op) {f : Term} (hf : f.wt = true) : WTR (Mk.bvUn op f) := by
  unfold Mk.bvUn
  exact WTR_bind_any (fun w => WTR_create1 hf)

theorem WTR_bvBin (op : Op) {l r : Term} (hl : l.wt = true) (hr : r.wt = true) : WTR (Mk.bvBin op l r) := by
  unfold Mk.bvBin
  exact WTR_bind_any (fun w => WTR_create2 hl hr)

theorem WTR_bvChain (op : Op) : ∀ (l : List Term) (res : Term), res.wt = true → (∀ a ∈ l, a.wt = true) →
    WTR (Mk.bvChain op res l)
  | [], res, hres, _ => by unfold Mk.bvChain; exact WTR_ok hres
  | a :: rest, res, hres, h => by
    unfold Mk.bvChain
    exact WTR_bind (WTR_bvBin op hres (h a (by simp)))
      (fun r hr => WTR_bvChain op rest r hr (fun x hx => h x (by simp [hx])))

theorem WTR_bvNary (op : Op) {args : List Term} (h : ∀ a ∈ args, a.wt = true) : WTR (Mk.bvNary op args) := by
  unfold Mk.bvNary
  split
  · exact WTR_error _
  · next a rest => exact WTR_bvChain op rest a (h a (by simp)) (fun x hx => h x (by simp [hx]))

theorem WTR_BVNot {f : Term} (hf : f.wt = true) : WTR (Mk.BVNot f) := WTR_bvUn _ hf
theorem WTR_BVNeg {f : Term} (hf : f.wt = true) : WTR (Mk.BVNeg f) := WTR_bvUn _ hf
theorem WTR_BVAnd {args : List Term} (h : ∀ a ∈ args, a.wt = true) : WTR (Mk.BVAnd args) := WTR_bvNary _ h
theorem WTR_BVOr {args : List Term} (h : ∀ a ∈ args, a.wt = true) : WTR (Mk.BVOr args) := WTR_bvNary _ h
theorem WTR_BVAdd {args : List Term} (h : ∀ a ∈ args, a.wt = true) : WTR (Mk.BVAdd args) := WTR_bvNary _ h
theorem WTR_BVMul {args : List Term} (h : ∀ a ∈ args, a.wt = true) : WTR (Mk.BVMul args) := WTR_bvNary _ h
theorem WTR_BVXor {l r : Term} (hl : l.wt = true) (hr : r.wt = true) : WTR (Mk.BVXor l r) := WTR_bvBin _ hl hr
theorem WTR_BVSub {l r : Term} (hl : l.wt = true) (hr : r.wt = true) : WTR (Mk.BVSub l r) := WTR_bvBin _ hl hr
theorem WTR_BVUDiv {l r : Term} (hl : l.wt = true) (hr : r.wt = true) : WTR (Mk.BVUDiv l r) := WTR_bvBin _ hl hr
theorem WTR_BVURem {l r : Term} (hl : l.wt = true) (hr : r.wt = true) : WTR (Mk.BVURem l r) := WTR_bvBin _ hl hr
theorem WTR_BVSDiv {l r : Term} (hl : l.wt = true) (hr : r.wt = true) : WTR (Mk.BVSDiv l r) := WTR_bvBin _ hl hr
theorem WTR_BVSRem {l r : Term} (hl : l.wt = true) (hr : r.wt = true) : WTR (Mk.BVSRem l r) := WTR_bvBin _ hl hr

theorem WTR_concat2 {l r : Term} (hl : l.wt = true) (hr : r.wt = true) : WTR (Mk.concat2 l r) := by
  unfold Mk.concat2
  exact WTR_bind_any (fun wl => WTR_bind_any (fun wr => WTR_create2 hl hr))

theorem WTR_concatChain : ∀ (l : List Term) (base : Term), base.wt = true → (∀ a ∈ l, a.wt = true) →
    WTR (Mk.concatChain base l)
  | [], base, hb, _ => by unfold Mk.concatChain; exact WTR_ok hb
  | e :: rest, base, hb, h => by
    unfold Mk.concatChain
    exact WTR_bind (WTR_concat2 hb (h e (by simp)))
      (fun b hb' => WTR_concatChain rest b hb' (fun x hx => h x (by simp [hx])))

theorem WTR_BVConcat {args : List Term} (h : ∀ a ∈ args, a.wt = true) : WTR (Mk.BVConcat args) := by
  unfold Mk.BVConcat
  split
  · next a b rest =>
    exact WTR_bind (WTR_concat2 (h a (by simp)) (h b (by simp)))
      (fun base hb => WTR_concatChain rest base hb (fun x hx => h x (by simp [hx])))
  · exact WTR_error _

theorem WTR_BVExtract {f : Term} (hf : f.wt = true) (start : Int) (stop : Option Int) :
    WTR (Mk.BVExtract f start stop) := by
  unfold Mk.BVExtract
  refine WTR_bind_any (fun w => ?_)
  dsimp only
  exact WTR_ite (WTR_error _) (WTR_ite (WTR_error _) (WTR_create1 hf))

theorem WTR_BVULT {l r : Term} (hl : l.wt = true) (hr : r.wt = true) : WTR (Mk.BVULT l r) := WTR_create2 hl hr
theorem WTR_BVUGT {l r : Term} (hl : l.wt = true) (hr : r.wt = true) : WTR (Mk.BVUGT l r) := WTR_create2 hr hl
theorem WTR_BVULE {l r : Term} (hl : l.wt = true) (hr : r.wt = true) : WTR (Mk.BVULE l r) := WTR_create2 hl hr
theorem WTR_BVUGE {l r : Term} (hl : l.wt = true) (hr : r.wt = true) : WTR (Mk.BVUGE l r) := WTR_create2 hr hl
theorem WTR_BVSLT {l r : Term} (hl : l.wt = true) (hr : r.wt = true) : WTR (Mk.BVSLT l r) := WTR_create2 hl hr
theorem WTR_BVSLE {l r : Term} (hl : l.wt = true) (hr : r.wt = true) : WTR (Mk.BVSLE l r) := WTR_create2 hl hr
theorem WTR_BVSGT {l r : Term} (hl : l.wt = true) (hr : r.wt = true) : WTR (Mk.BVSGT l r) := WTR_BVSLT hr hl
theorem WTR_BVSGE {l r : Term} (hl : l.wt = true) (hr : r.wt = true) : WTR (Mk.BVSGE l r) := WTR_BVSLE hr hl

theorem WTR_shiftAmount {l : Term} {r : Term} (hr : r.wt = true) (strict : Bool) :
    WTR (Mk.shiftAmount l (.t r) strict) := by
  unfold Mk.shiftAmount; exact WTR_ok hr

theorem WTR_BVLShl {l r : Term} (hl : l.wt = true) (hr : r.wt = true) : WTR (Mk.BVLShl l (.t r)) := by
  unfold Mk.BVLShl
  exact WTR_bind (WTR_shiftAmount hr _) (fun a ha => WTR_bvBin _ hl ha)
theorem WTR_BVLShr {l r : Term} (hl : l.wt = true) (hr : r.wt = true) : WTR (Mk.BVLShr l (.t r)) := by
  unfold Mk.BVLShr
  exact WTR_bind (WTR_shiftAmount hr _) (fun a ha => WTR_bvBin _ hl ha)
theorem WTR_BVAShr {l r : Term} (hl : l.wt = true) (hr : r.wt = true) : WTR (Mk.BVAShr l (.t r)) := by
  unfold Mk.BVAShr
  exact WTR_bind (WTR_shiftAmount hr _) (fun a ha => WTR_bvBin _ hl ha)

theorem WTR_rotate (op : Op) {f : Term} (hf : f.wt = true) (k : Int) : WTR (Mk.rotate op f k) := by
  unfold Mk.rotate
  exact WTR_bind_any (fun w => WTR_ite (WTR_error _) (WTR_create1 hf))
theorem WTR_BVRol {f : Term} (hf : f.wt = true) (k : Int) : WTR (Mk.BVRol f k) := WTR_rotate _ hf k
theorem WTR_BVRor {f : Term} (hf : f.wt = true) (k : Int) : WTR (Mk.BVRor f k) := WTR_rotate _ hf k

theorem WTR_extend (op : Op) {f : Term} (hf : f.wt = true) (k : Int) : WTR (Mk.extend op f k) := by
  unfold Mk.extend
  exact WTR_bind_any (fun w => WTR_ite (WTR_error _) (WTR_create1 hf))
theorem WTR_BVZExt {f : Term} (hf : f.wt = true) (k : Int) : WTR (Mk.BVZExt f k) := WTR_extend _ hf k
theorem WTR_BVSExt {f : Term} (hf : f.wt = true) (k : Int) : WTR (Mk.BVSExt f k) := WTR_extend _ hf k

theorem WTR_BVComp {l r : Term} (hl : l.wt = true) (hr : r.wt = true) : WTR (Mk.BVComp l r) := WTR_create2 hl hr
theorem WTR_BVToNatural {f : Term} (hf : f.wt = true) : WTR (Mk.BVToNatural f) := WTR_create1 hf

theorem WTR_BVNand {l r : Term} (hl : l.wt = true) (hr : r.wt = true) : WTR (Mk.BVNand l r) := by
  unfold Mk.BVNand; exact WTR_bind (WTR_BVAnd (mem2 hl hr)) (fun a ha => WTR_BVNot ha)
theorem WTR_BVNor {l r : Term} (hl : l.wt = true) (hr : r.wt = true) : WTR (Mk.BVNor l r) := by
  unfold Mk.BVNor; exact WTR_bind (WTR_BVOr (mem2 hl hr)) (fun a ha => WTR_BVNot ha)
theorem WTR_BVXnor {l r : Term} (hl : l.wt = true) (hr : r.wt = true) : WTR (Mk.BVXnor l r) := by
  unfold Mk.BVXnor; exact WTR_bind (WTR_BVXor hl hr) (fun a ha => WTR_BVNot ha)

theorem WTR_BVSMod {s t : Term} (hs : s.wt = true) (ht : t.wt = true) : WTR (Mk.BVSMod s t) := by
  unfold Mk.BVSMod
  refine WTR_bind_any (fun m => ?_)
  refine WTR_bind (WTR_BV _ _) (fun zero1 hzero1 => ?_)
  refine WTR_bind (WTR_BV _ _) (fun one1 hone1 => ?_)
  refine WTR_bind (WTR_BVExtract hs _ _) (fun msbS hmsbS => ?_)
  refine WTR_bind (WTR_BVExtract ht _ _) (fun msbT hmsbT => ?_)
  refine WTR_bind (WTR_Equals hmsbS hzero1) (fun sPos hsPos => ?_)
  refine WTR_bind (WTR_BVNeg hs) (fun negS hnegS => ?_)
  refine WTR_bind (WTR_Ite hsPos hs hnegS) (fun absS habsS => ?_)
  refine WTR_bind (WTR_Equals hmsbT hzero1) (fun tPos htPos => ?_)
  refine WTR_bind (WTR_BVNeg ht) (fun negT hnegT => ?_)
  refine WTR_bind (WTR_Ite htPos ht hnegT) (fun absT habsT => ?_)
  refine WTR_bind (WTR_BVURem habsS habsT) (fun u hu => ?_)
  refine WTR_bind (WTR_BV _ _) (fun zeroM hzeroM => ?_)
  refine WTR_bind (WTR_Equals hu hzeroM) (fun cond1 hcond1 => ?_)
  refine WTR_bind (WTR_Equals hmsbS hzero1) (fun c2a hc2a => ?_)
  refine WTR_bind (WTR_Equals hmsbT hzero1) (fun c2b hc2b => ?_)
  refine WTR_bind (WTR_And (mem2 hc2a hc2b)) (fun cond2 hcond2 => ?_)
  refine WTR_bind (WTR_Equals hmsbS hone1) (fun c3a hc3a => ?_)
  refine WTR_bind (WTR_Equals hmsbT hzero1) (fun c3b hc3b => ?_)
  refine WTR_bind (WTR_And (mem2 hc3a hc3b)) (fun cond3 hcond3 => ?_)
  refine WTR_bind (WTR_Equals hmsbS hzero1) (fun c4a hc4a => ?_)
  refine WTR_bind (WTR_Equals hmsbT hone1) (fun c4b hc4b => ?_)
  refine WTR_bind (WTR_And (mem2 hc4a hc4b)) (fun cond4 hcond4 => ?_)
  refine WTR_bind (WTR_BVNeg hu) (fun negU hnegU => ?_)
  refine WTR_bind (WTR_BVAdd (mem2 hnegU ht)) (fun case3 hcase3 => ?_)
  refine WTR_bind (WTR_BVAdd (mem2 hu ht)) (fun case4 hcase4 => ?_)
  refine WTR_bind (WTR_BVNeg hu) (fun case5 hcase5 => ?_)
  refine WTR_bind (WTR_Or (mem2 hcond1 hcond2)) (fun c12 hc12 => ?_)
  refine WTR_bind (WTR_Ite hcond4 hcase4 hcase5) (fun inner hinner => ?_)
  refine WTR_bind (WTR_Ite hcond3 hcase3 hinner) (fun mid hmid => ?_)
  exact WTR_Ite hc12 hu hmid

theorem WTR_repeatChain {f : Term} (hf : f.wt = true) : ∀ (n : Nat) (res : Term), res.wt = true →
    WTR (Mk.repeatChain f res n)
  | 0, res, hres => by unfold Mk.repeatChain; exact WTR_ok hres
  | n + 1, res, hres => by
    unfold Mk.repeatChain
    exact WTR_bind (WTR_BVConcat (mem2 hres hf)) (fun r hr => WTR_repeatChain hf n r hr)

theorem WTR_BVRepeat {f : Term} (hf : f.wt = true) (k : Int) : WTR (Mk.BVRepeat f k) := by
  unfold Mk.BVRepeat
  exact WTR_ite (WTR_error _) (WTR_repeatChain hf _ f hf)

/-! ## strings, arrays -/

theorem WTR_StrLength {f : Term} (hf : f.wt = true) : WTR (Mk.StrLength f) := WTR_create1 hf
theorem WTR_StrConcat {args : List Term} (h : ∀ a ∈ args, a.wt = true) : WTR (Mk.StrConcat args) := by
  unfold Mk.StrConcat; exact WTR_ite (WTR_error _) (WTR_create h)
theorem WTR_StrContains {l r : Term} (hl : l.wt = true) (hr : r.wt = true) : WTR (Mk.StrContains l r) :=
  WTR_create2 hl hr
theorem WTR_StrIndexOf {a b c : Term} (ha : a.wt = true) (hb : b.wt = true) (hc : c.wt = true) :
    WTR (Mk.StrIndexOf a b c) := WTR_create3 ha hb hc
theorem WTR_StrReplace {a b c : Term} (ha : a.wt = true) (hb : b.wt = true) (hc : c.wt = true) :
    WTR (Mk.StrReplace a b c) := WTR_create3 ha hb hc
theorem WTR_StrSubstr {a b c : Term} (ha : a.wt = true) (hb : b.wt = true) (hc : c.wt = true) :
    WTR (Mk.StrSubstr a b c) := WTR_create3 ha hb hc
theorem WTR_StrPrefixOf {l r : Term} (hl : l.wt = true) (hr : r.wt = true) : WTR (Mk.StrPrefixOf l r) :=
  WTR_create2 hl hr
theorem WTR_StrSuffixOf {l r : Term} (hl : l.wt = true) (hr : r.wt = true) : WTR (Mk.StrSuffixOf l r) :=
  WTR_create2 hl hr
theorem WTR_StrToInt {f : Term} (hf : f.wt = true) : WTR (Mk.StrToInt f) := WTR_create1 hf
theorem WTR_IntToStr {f : Term} (hf : f.wt = true) : WTR (Mk.IntToStr f) := WTR_create1 hf
theorem WTR_StrCharAt {l r : Term} (hl : l.wt = true) (hr : r.wt = true) : WTR (Mk.StrCharAt l r) :=
  WTR_create2 hl hr
theorem WTR_Select {l r : Term} (hl : l.wt = true) (hr : r.wt = true) : WTR (Mk.Select l r) := WTR_create2 hl hr
theorem WTR_Store {a b c : Term} (ha : a.wt = true) (hb : b.wt = true) (hc : c.wt = true) :
    WTR (Mk.Store a b c) := WTR_create3 ha hb hc

/-- `Array(idx, default, {})`: the only shape the parser builds (`(as const …)`) -/
theorem WTR_Array_nil (idx : Ty) {d : Term} (hd : d.wt = true) : WTR (Mk.Array idx d []) := by
  unfold Mk.Array Mk.arrayArgs
  exact WTR_create1 hd

end PySMT.Parser.WT
