import PySMT.Proofs.WalkerInst
import PySMT.Impl.Simplifier

/-! `Simplifier` as an instance of `walk_eq_fold`. -/

namespace PySMT.Walker
open PySMT.Simplifier

/-- `Simplifier`'s dispatch: `functions[node_type](formula, args)` -/
def simpCb (tbl : Op → Option Simp.Entry) (n : Term) (rs : List Term) : Term :=
  match tbl n.op with
  | some e => e.rule n.payload rs
  | none => .node n.op rs n.payload

theorem simpWith_fold (tbl : Op → Option Simp.Entry) (t : Term) :
    simpWith tbl t = simpCb tbl t (t.args.map (simpWith tbl)) := by
  cases t with
  | node op args p => rw [simpWith]; rfl

/-- **simplify_walk_eq_simp**: the memoised, iterative `Simplifier.walk` (callbacks = the rule table, results of the
    children looked up in the memo) computes exactly the recursive model `simp` of C01, for every term and every
    idle walker whose memo holds `simp` values; the callback runs once per distinct sub-term not memoised before and
    the loop makes at most `dagBound t` = 2·(edges of the DAG)+2 iterations. -/
theorem simplify_walk_eq_simp {M E : Type} [MemoLike M Term Term] [LawfulMemo M Term Term]
    (inval shortcut : Bool) (fuel : Nat) (t : Term) (s : WState M Term)
    (hi : FoldIdle (fun _ => false) simp s) (hfuel : dagBound t ≤ fuel) :
    let r := walk termGraph (fun _ => false) (fun _ => cbOf (E := E) (simpCb ruleOf)) inval shortcut fuel t s
    r.1 = .ok (simp t) ∧
    (∃ new, r.2.trace = new ++ s.trace ∧ new.Nodup ∧
        (∀ x, x ∈ new ↔ (x ∈ t.subterms ∧ look s.memo x = none)) ∧ r.2.calls = s.calls + new.length) ∧
    (r.2.iters ≤ s.iters + dagBound t ∧ r.2.pushes ≤ s.pushes + dagBound t) ∧
    FoldIdle (fun _ => false) simp r.2 :=
  walk_eq_fold (simpCb ruleOf) simp (simpWith_fold ruleOf) inval shortcut fuel t s hi hfuel

end PySMT.Walker
