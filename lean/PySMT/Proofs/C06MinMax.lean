import PySMT.Proofs.C06Arith
/-!
# C06 — `Min/Max/MinBV/MaxBV` (halving recursion, every arity ≥ 1) and `shortcuts.Abs`

The recursion `_MinWrap(le, exprs)` is verified once, for an abstract total preorder whose
comparison is built by a constructor `leTerm`; the four instances are Int `≤`, Real `≤`,
unsigned and signed bit-vector `≤`.
-/
namespace PySMT.C06
open PySMT.Mk

/-- a total preorder on `α`, an embedding of `α` into values, and a constructor that builds
the comparison of two terms -/
structure Order (α : Type) where
  toVal : α → Val
  le : α → α → Bool
  total : ∀ x y, le x y = true ∨ le y x = true
  trans : ∀ x y z, le x y = true → le y z = true → le x z = true
  leTerm : Term → Term → R
  leTerm_eval : ∀ (I : Interp) (a b c : Term) (x y : α), leTerm a b = .ok c →
    eval I a = toVal x → eval I b = toVal y → eval I c = .b (le x y)

variable {α : Type} (O : Order α)

/-- `m` is a least element of `xs` -/
def IsMin (m : α) (xs : List α) : Prop := m ∈ xs ∧ ∀ x ∈ xs, O.le m x = true
/-- `m` is a greatest element of `xs` -/
def IsMax (m : α) (xs : List α) : Prop := m ∈ xs ∧ ∀ x ∈ xs, O.le x m = true

theorem Order.refl (x : α) : O.le x x = true := by
  cases O.total x x <;> assumption

/-- the two-element step `Ite(le(a,b), a, b)` / `Ite(le(a,b), b, a)` -/
theorem step_eval (I : Interp) (isMin : Bool) {a b c t : Term} {x y : α}
    (hc : O.leTerm a b = .ok c)
    (ht : (if isMin then Mk.Ite c a b else Mk.Ite c b a) = .ok t)
    (ha : eval I a = O.toVal x) (hb : eval I b = O.toVal y) :
    eval I t = O.toVal (if isMin then (if O.le x y then x else y) else (if O.le x y then y else x)) := by
  have hcv := O.leTerm_eval I a b c x y hc ha hb
  cases isMin
  · simp only [Bool.false_eq_true, if_false] at ht ⊢
    rw [ite_eval I ht]; simp only [truth, hcv, isTrue_b, ha, hb]
    cases O.le x y <;> simp
  · simp only [if_true] at ht ⊢
    rw [ite_eval I ht]; simp only [truth, hcv, isTrue_b, ha, hb]
    cases O.le x y <;> simp

theorem isMin_merge {xs ys : List α} {m1 m2 : α} (h1 : IsMin O m1 xs) (h2 : IsMin O m2 ys) :
    IsMin O (if O.le m1 m2 then m1 else m2) (xs ++ ys) := by
  cases h : O.le m1 m2
  · have h' : O.le m2 m1 = true := by cases O.total m1 m2 with | inl h0 => rw [h] at h0; cases h0 | inr h0 => exact h0
    simp only [Bool.false_eq_true, if_false]
    refine ⟨List.mem_append_right _ h2.1, fun x hx => ?_⟩
    rcases List.mem_append.mp hx with hx | hx
    · exact O.trans _ _ _ h' (h1.2 x hx)
    · exact h2.2 x hx
  · simp only [if_true]
    refine ⟨List.mem_append_left _ h1.1, fun x hx => ?_⟩
    rcases List.mem_append.mp hx with hx | hx
    · exact h1.2 x hx
    · exact O.trans _ _ _ h (h2.2 x hx)

theorem isMax_merge {xs ys : List α} {m1 m2 : α} (h1 : IsMax O m1 xs) (h2 : IsMax O m2 ys) :
    IsMax O (if O.le m1 m2 then m2 else m1) (xs ++ ys) := by
  cases h : O.le m1 m2
  · have h' : O.le m2 m1 = true := by cases O.total m1 m2 with | inl h0 => rw [h] at h0; cases h0 | inr h0 => exact h0
    simp only [Bool.false_eq_true, if_false]
    refine ⟨List.mem_append_left _ h1.1, fun x hx => ?_⟩
    rcases List.mem_append.mp hx with hx | hx
    · exact h1.2 x hx
    · exact O.trans _ _ _ (h2.2 x hx) h'
  · simp only [if_true]
    refine ⟨List.mem_append_right _ h2.1, fun x hx => ?_⟩
    rcases List.mem_append.mp hx with hx | hx
    · exact O.trans _ _ _ (h1.2 x hx) h
    · exact h2.2 x hx

/-- the extremum selected by `isMin` -/
def IsExt (isMin : Bool) (m : α) (xs : List α) : Prop := if isMin then IsMin O m xs else IsMax O m xs

theorem isExt_merge (isMin : Bool) {xs ys : List α} {m1 m2 : α}
    (h1 : IsExt O isMin m1 xs) (h2 : IsExt O isMin m2 ys) :
    IsExt O isMin (if isMin then (if O.le m1 m2 then m1 else m2) else (if O.le m1 m2 then m2 else m1))
      (xs ++ ys) := by
  cases isMin
  · exact isMax_merge O h1 h2
  · exact isMin_merge O h1 h2

theorem isExt_single (isMin : Bool) (x : α) : IsExt O isMin x [x] := by
  cases isMin <;> simp [IsExt, IsMin, IsMax, O.refl]

/-- **Min/Max recursion**: for every non-empty argument list whose values are `xs`, the
formula built by `_MinWrap` / `_MaxWrap` evaluates to a least / greatest element of `xs` -/
theorem minMaxWrap_eval (I : Interp) (isMin : Bool) : ∀ (n : Nat) (as : List Term) (xs : List α) (t : Term),
    as.length ≤ n → minMaxWrap O.leTerm isMin as = .ok t → as.map (eval I) = xs.map O.toVal →
    ∃ m, eval I t = O.toVal m ∧ IsExt O isMin m xs := by
  intro n
  induction n with
  | zero =>
    intro as xs t hn h hv
    have : as = [] := List.length_eq_zero_iff.mp (Nat.le_zero.mp hn)
    subst this
    unfold minMaxWrap at h; cases h
  | succ n ih =>
    intro as xs t hn h hv
    match as, hv with
    | [], _ => unfold minMaxWrap at h; cases h
    | [a], hv =>
      unfold minMaxWrap at h; cases h
      match xs, hv with
      | [x], hv =>
        simp at hv
        exact ⟨x, hv, isExt_single O isMin x⟩
      | [], hv => simp at hv
      | _ :: _ :: _, hv => simp at hv
    | [a, b], hv =>
      unfold minMaxWrap at h
      obtain ⟨c, hc, ht⟩ := bind_ok h
      match xs, hv with
      | [x, y], hv =>
        simp at hv
        refine ⟨_, step_eval O I isMin hc ht hv.1 hv.2, ?_⟩
        exact isExt_merge O isMin (xs := [x]) (ys := [y]) (isExt_single O isMin x) (isExt_single O isMin y)
      | [], hv => simp at hv
      | [_], hv => simp at hv
      | _ :: _ :: _ :: _, hv => simp at hv
    | a :: b :: c :: rest, hv =>
      unfold minMaxWrap at h
      simp only at h
      generalize hfull : a :: b :: c :: rest = full at h hv hn
      have hlen : 3 ≤ full.length := by rw [← hfull]; simp
      have hxl : xs.length = full.length := by
        have := congrArg List.length hv; simpa using this.symm
      generalize hh : full.length / 2 = k at h
      have hk1 : 1 ≤ k := by omega
      have hk2 : k < full.length := by omega
      split at h
      · cases h
      · next x hx =>
        split at h
        · cases h
        · next y hy =>
          obtain ⟨cc, hc, ht⟩ := bind_ok h
          have hv1 : (full.take k).map (eval I) = (xs.take k).map O.toVal := by
            rw [List.map_take, List.map_take, hv]
          have hv2 : (full.drop k).map (eval I) = (xs.drop k).map O.toVal := by
            rw [List.map_drop, List.map_drop, hv]
          obtain ⟨m1, he1, hm1⟩ := ih (full.take k) (xs.take k) x
            (by rw [List.length_take]; omega) hx hv1
          obtain ⟨m2, he2, hm2⟩ := ih (full.drop k) (xs.drop k) y
            (by rw [List.length_drop]; omega) hy hv2
          refine ⟨_, step_eval O I isMin hc ht he1 he2, ?_⟩
          have := isExt_merge O isMin hm1 hm2
          rwa [List.take_append_drop] at this

/-! ## the four instances -/

def intOrder : Order Int where
  toVal := Val.i
  le x y := decide (x ≤ y)
  total := by intro x y; simp only [decide_eq_true_eq]; omega
  trans := by intro x y z; simp only [decide_eq_true_eq]; omega
  leTerm := Mk.LE
  leTerm_eval := fun I _ _ _ x y h ha hb => (le_denotes I h).1 x y ha hb

def ratOrder : Order Rat where
  toVal := Val.r
  le x y := decide (x ≤ y)
  total := by intro x y; simp only [decide_eq_true_eq]; exact Rat.le_total
  trans := by intro x y z; simp only [decide_eq_true_eq]; exact Rat.le_trans
  leTerm := Mk.LE
  leTerm_eval := fun I _ _ _ x y h ha hb => (le_denotes I h).2 x y ha hb

theorem bvule_eval (I : Interp) {a b t : Term} (h : Mk.BVULE a b = .ok t) {w : Nat} (x y : BitVec w)
    (ha : eval I a = ofBV x) (hb : eval I b = ofBV y) : eval I t = .b (x.ule y) := by
  rw [create_ok h]; simp [eval_op, evalOp, ha, hb]

theorem bvsle_eval (I : Interp) {a b t : Term} (h : Mk.BVSLE a b = .ok t) {w : Nat} (x y : BitVec w)
    (ha : eval I a = ofBV x) (hb : eval I b = ofBV y) : eval I t = .b (x.sle y) := by
  rw [create_ok h]; simp [eval_op, evalOp, ha, hb]

def bvOrder (w : Nat) (signed : Bool) : Order (BitVec w) where
  toVal := ofBV
  le x y := if signed then x.sle y else x.ule y
  total := by
    intro x y; cases signed
    · simp only [Bool.false_eq_true, if_false, BitVec.ule_eq_decide, decide_eq_true_eq]; omega
    · simp only [if_true, BitVec.sle_eq_decide, decide_eq_true_eq]; omega
  trans := by
    intro x y z; cases signed
    · simp only [Bool.false_eq_true, if_false, BitVec.ule_eq_decide, decide_eq_true_eq]; omega
    · simp only [if_true, BitVec.sle_eq_decide, decide_eq_true_eq]; omega
  leTerm := if signed then Mk.BVSLE else Mk.BVULE
  leTerm_eval := by
    intro I a b c x y h ha hb
    cases signed
    · simp only [Bool.false_eq_true, if_false] at h ⊢; exact bvule_eval I h x y ha hb
    · simp only [if_true] at h ⊢; exact bvsle_eval I h x y ha hb

/-- **Min** on integers / reals: the value is an element of the argument values that is `≤` all of them -/
theorem min_denotes (I : Interp) {as : List Term} {t : Term} (h : Mk.Min as = .ok t) :
    (∀ xs : List Int, as.map (eval I) = xs.map Val.i → ∃ m, eval I t = .i m ∧ m ∈ xs ∧ ∀ x ∈ xs, m ≤ x) ∧
    (∀ xs : List Rat, as.map (eval I) = xs.map Val.r → ∃ m, eval I t = .r m ∧ m ∈ xs ∧ ∀ x ∈ xs, m ≤ x) := by
  refine ⟨fun xs hv => ?_, fun xs hv => ?_⟩
  · obtain ⟨m, hm, hmem, hle⟩ := minMaxWrap_eval intOrder I true as.length as xs t (Nat.le_refl _) h hv
    exact ⟨m, hm, hmem, fun x hx => by simpa [intOrder] using hle x hx⟩
  · obtain ⟨m, hm, hmem, hle⟩ := minMaxWrap_eval ratOrder I true as.length as xs t (Nat.le_refl _) h hv
    exact ⟨m, hm, hmem, fun x hx => by simpa [ratOrder] using hle x hx⟩

/-- **Max** on integers / reals -/
theorem max_denotes (I : Interp) {as : List Term} {t : Term} (h : Mk.Max as = .ok t) :
    (∀ xs : List Int, as.map (eval I) = xs.map Val.i → ∃ m, eval I t = .i m ∧ m ∈ xs ∧ ∀ x ∈ xs, x ≤ m) ∧
    (∀ xs : List Rat, as.map (eval I) = xs.map Val.r → ∃ m, eval I t = .r m ∧ m ∈ xs ∧ ∀ x ∈ xs, x ≤ m) := by
  refine ⟨fun xs hv => ?_, fun xs hv => ?_⟩
  · obtain ⟨m, hm, hmem, hle⟩ := minMaxWrap_eval intOrder I false as.length as xs t (Nat.le_refl _) h hv
    exact ⟨m, hm, hmem, fun x hx => by simpa [intOrder] using hle x hx⟩
  · obtain ⟨m, hm, hmem, hle⟩ := minMaxWrap_eval ratOrder I false as.length as xs t (Nat.le_refl _) h hv
    exact ⟨m, hm, hmem, fun x hx => by simpa [ratOrder] using hle x hx⟩

/-- **MinBV**: unsigned (`sign = false`, order on `toNat`) and signed (`sign = true`, order on `toInt`) -/
theorem minBV_denotes (I : Interp) (sign : Bool) {as : List Term} {t : Term} {w : Nat}
    (h : Mk.MinBV sign as = .ok t) (xs : List (BitVec w)) (hv : as.map (eval I) = xs.map ofBV) :
    ∃ m, eval I t = ofBV m ∧ m ∈ xs ∧
      ∀ x ∈ xs, if sign then m.toInt ≤ x.toInt else m.toNat ≤ x.toNat := by
  obtain ⟨m, hm, hmem, hle⟩ := minMaxWrap_eval (bvOrder w sign) I true as.length as xs t (Nat.le_refl _)
    (by cases sign <;> exact h) hv
  refine ⟨m, hm, hmem, fun x hx => ?_⟩
  have := hle x hx
  cases sign
  · simpa [bvOrder, BitVec.ule_eq_decide] using this
  · simpa [bvOrder, BitVec.sle_eq_decide] using this

/-- **MaxBV**: unsigned and signed -/
theorem maxBV_denotes (I : Interp) (sign : Bool) {as : List Term} {t : Term} {w : Nat}
    (h : Mk.MaxBV sign as = .ok t) (xs : List (BitVec w)) (hv : as.map (eval I) = xs.map ofBV) :
    ∃ m, eval I t = ofBV m ∧ m ∈ xs ∧
      ∀ x ∈ xs, if sign then x.toInt ≤ m.toInt else x.toNat ≤ m.toNat := by
  obtain ⟨m, hm, hmem, hle⟩ := minMaxWrap_eval (bvOrder w sign) I false as.length as xs t (Nat.le_refl _)
    (by cases sign <;> exact h) hv
  refine ⟨m, hm, hmem, fun x hx => ?_⟩
  have := hle x hx
  cases sign
  · simpa [bvOrder, BitVec.ule_eq_decide] using this
  · simpa [bvOrder, BitVec.sle_eq_decide] using this

/-- `Min()` / `Max()` without arguments fail (the `assert len(exprs) > 0` of the code) -/
theorem minMax_empty (le : Term → Term → R) (isMin : Bool) : minMaxWrap le isMin [] = .error .assertion := by
  unfold minMaxWrap; rfl

/-! ## `shortcuts.Abs` -/

/-- **Abs** on integers: `|x|` -/
theorem abs_denotes_int (I : Interp) {a t : Term} (h : Mk.Abs a = .ok t) (hty : a.typeOf = some .int)
    (x : Int) (ha : eval I a = .i x) : eval I t = .i x.natAbs := by
  unfold Mk.Abs at h
  rw [hty] at h
  simp only at h
  obtain ⟨c, hc, h⟩ := bind_ok h
  obtain ⟨m, hm, h⟩ := bind_ok h
  have h0 : eval I (Mk.IntC 0) = .i 0 := by simp [Mk.IntC, Term.int, eval_op, evalOp]
  rw [ite_eval I h, (minus_denotes I hm).1 0 x h0 ha]
  simp only [truth, (gt_denotes I hc).1 x 0 ha h0, isTrue_b, ha]
  by_cases hx : x > 0
  · simp only [hx, decide_true, if_true]; congr 1; omega
  · simp only [hx, decide_false, Bool.false_eq_true, if_false]; congr 1; omega

/-- **Abs** on reals: the value `r` with `0 ≤ r` and `r = x ∨ r = -x` -/
theorem abs_denotes_real (I : Interp) {a t : Term} (h : Mk.Abs a = .ok t) (hty : a.typeOf = some .real)
    (x : Rat) (ha : eval I a = .r x) : ∃ r : Rat, eval I t = .r r ∧ 0 ≤ r ∧ (r = x ∨ r = -x) := by
  unfold Mk.Abs at h
  rw [hty] at h
  simp only at h
  obtain ⟨c, hc, h⟩ := bind_ok h
  obtain ⟨m, hm, h⟩ := bind_ok h
  have h0 : eval I (Mk.RealC 0) = .r 0 := by simp [Mk.RealC, Term.real, eval_op, evalOp]
  rw [ite_eval I h, (minus_denotes I hm).2 0 x h0 ha]
  simp only [truth, (gt_denotes I hc).2 x 0 ha h0, isTrue_b, ha]
  by_cases hx : x > 0
  · simp only [hx, decide_true, if_true]
    exact ⟨x, rfl, Rat.le_of_lt hx, Or.inl rfl⟩
  · simp only [hx, decide_false, Bool.false_eq_true, if_false]
    have hneg : (0 : Rat) - x = -x := by rw [Rat.sub_eq_add_neg, Rat.zero_add]
    refine ⟨0 - x, rfl, ?_, Or.inr hneg⟩
    rw [hneg]
    have : x ≤ 0 := Rat.not_lt.mp hx
    have := Rat.neg_le_neg this
    simpa using this

/-- `Abs` of a term that is neither Int nor Real is refused -/
theorem abs_error (a : Term) (τ : Ty) (hty : a.typeOf = some τ) (h1 : τ ≠ .int) (h2 : τ ≠ .real) :
    Mk.Abs a = .error .pyValue := by
  unfold Mk.Abs
  rw [hty]
  cases τ <;> simp_all

end PySMT.C06
