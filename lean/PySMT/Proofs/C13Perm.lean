/-
C13, selection: the result of `get_closer_logic` / `most_generic_logic` does not depend on the order in which
the supported logics are enumerated (they are frozensets in the code, iterated in hash order), and
`get_closer_logic` returns the minimal candidate with the least name.
-/
import PySMT.Proofs.C13Select
namespace PySMT.Logics

/-- inserting keeps "the head has the least key" -/
theorem pyInsertBy_head_min {α : Type} (key : α → String) (x : α) (S : List α)
    (hS : ∀ h, pyIndex0 S = .ok h → ∀ z ∈ S, key h ≤ key z) :
    ∀ h, pyIndex0 (pyInsertBy key x S) = .ok h → ∀ z ∈ x :: S, key h ≤ key z := by
  intro h hh z hz
  cases S with
  | nil =>
    simp only [pyInsertBy, pyIndex0, Except.ok.injEq] at hh
    subst hh
    simp at hz
    subst hz
    exact String.le_refl _
  | cons y ys =>
    have hy := hS y rfl
    simp only [pyInsertBy] at hh
    split at hh
    · rename_i hle
      have e : x = h := by simpa [pyIndex0] using hh
      rw [← e]
      rcases List.mem_cons.1 hz with rfl | hz
      · exact String.le_refl _
      · exact String.le_trans hle (hy z hz)
    · rename_i hnle
      have e : y = h := by simpa [pyIndex0] using hh
      rw [← e]
      rcases List.mem_cons.1 hz with rfl | hz
      · rcases String.le_total (key z) (key y) with h1 | h1
        · exact absurd h1 hnle
        · exact h1
      · exact hy z hz

/-- the head of `sorted(l, key=…)` is a member with the least key -/
theorem pySortedBy_head_min {α : Type} (key : α → String) : ∀ (l : List α) (m : α),
    pyIndex0 (pySortedBy key l) = .ok m → m ∈ l ∧ ∀ x ∈ l, key m ≤ key x := by
  intro l
  induction l with
  | nil => intro m h; simp [pySortedBy, pyIndex0] at h
  | cons x xs ih =>
    intro m h
    refine ⟨(mem_pySortedBy key m _).1 (pyIndex0_ok h), ?_⟩
    simp only [pySortedBy] at h
    have := pyInsertBy_head_min key x (pySortedBy key xs)
      (fun h' hh z hz => (ih h' hh).2 z ((mem_pySortedBy key z xs).1 hz)) m h
    intro z hz
    rcases List.mem_cons.1 hz with rfl | hz
    · exact this z List.mem_cons_self
    · exact this z (List.mem_cons_of_mem _ ((mem_pySortedBy key z xs).2 hz))

/-- with pairwise distinct keys the head of the sorted list only depends on the *set* of elements -/
theorem sortedHead_perm {α : Type} (key : α → String) {l l' : List α} (hp : l.Perm l')
    (hinj : ∀ a ∈ l, ∀ b ∈ l, key a = key b → a = b) :
    pyIndex0 (pySortedBy key l) = pyIndex0 (pySortedBy key l') := by
  cases l with
  | nil => rw [List.nil_perm.1 hp]
  | cons a as =>
    have hne : a :: as ≠ [] := by simp
    have hne' : l' ≠ [] := by
      intro h; rw [h] at hp; exact hne (List.perm_nil.1 hp)
    obtain ⟨m, hm⟩ := pyIndex0_of_ne_nil (pySortedBy_ne_nil key hne)
    obtain ⟨m', hm'⟩ := pyIndex0_of_ne_nil (pySortedBy_ne_nil key hne')
    obtain ⟨h1, h2⟩ := pySortedBy_head_min key _ m hm
    obtain ⟨h1', h2'⟩ := pySortedBy_head_min key _ m' hm'
    have hm'l : m' ∈ a :: as := hp.mem_iff.2 h1'
    have : m = m' := hinj m h1 m' hm'l
      (String.le_antisymm (h2 m' hm'l) (h2' m (hp.mem_iff.1 h1)))
    rw [hm, hm', this]

/-- names are unique in the list -/
def NamesUnique (sup : List Logic) : Prop := ∀ a ∈ sup, ∀ b ∈ sup, a.name = b.name → a = b

theorem get_closer_logic_perm {sup sup' : List Logic} (tgt : Logic) (hp : sup.Perm sup')
    (hn : NamesUnique sup) : get_closer_logic sup tgt = get_closer_logic sup' tgt := by
  simp only [get_closer_logic]
  have hc : (List.filter (fun l => Logic.le tgt l) sup).Perm (List.filter (fun l => Logic.le tgt l) sup') :=
    hp.filter _
  rw [hc.length_eq]
  have hq : ∀ l, (List.filter (fun l => Logic.le tgt l) sup).any (fun k => Logic.ne l k && Logic.le k l) =
      (List.filter (fun l => Logic.le tgt l) sup').any (fun k => Logic.ne l k && Logic.le k l) :=
    fun l => hc.any_eq
  have hr : (List.filter (fun l => !(List.filter (fun l => Logic.le tgt l) sup).any
        (fun k => Logic.ne l k && Logic.le k l)) (List.filter (fun l => Logic.le tgt l) sup)).Perm
      (List.filter (fun l => !(List.filter (fun l => Logic.le tgt l) sup').any
        (fun k => Logic.ne l k && Logic.le k l)) (List.filter (fun l => Logic.le tgt l) sup')) := by
    have : (fun l => !(List.filter (fun l => Logic.le tgt l) sup).any
        (fun k => Logic.ne l k && Logic.le k l)) = (fun l => !(List.filter (fun l => Logic.le tgt l) sup').any
        (fun k => Logic.ne l k && Logic.le k l)) := by
      funext l; rw [hq l]
    rw [this]
    exact hc.filter _
  have hinj : ∀ a ∈ (List.filter (fun l => !(List.filter (fun l => Logic.le tgt l) sup).any
        (fun k => Logic.ne l k && Logic.le k l)) (List.filter (fun l => Logic.le tgt l) sup)),
      ∀ b ∈ (List.filter (fun l => !(List.filter (fun l => Logic.le tgt l) sup).any
        (fun k => Logic.ne l k && Logic.le k l)) (List.filter (fun l => Logic.le tgt l) sup)),
      Logic.str a = Logic.str b → a = b := by
    intro a ha b hb hab
    exact hn a (List.mem_filter.1 (List.mem_filter.1 ha).1).1 b (List.mem_filter.1 (List.mem_filter.1 hb).1).1 hab
  rw [sortedHead_perm (fun x => Logic.str x) hr hinj]

/-- among the ≤-minimal candidates the one with the least name is returned -/
theorem get_closer_logic_least_name (sup : List Logic) (tgt r : Logic) (h : get_closer_logic sup tgt = .ok r) :
    ∀ k ∈ sup, Logic.le tgt k = true →
      (∀ j ∈ sup, Logic.le tgt j = true → Logic.le j k = true → j = k) → r.name ≤ k.name := by
  simp only [get_closer_logic] at h
  cases hc : ((List.filter (fun l => Logic.le tgt l) sup).length == 0) with
  | true => rw [hc] at h; simp at h
  | false =>
    rw [hc, cond_false] at h
    intro k hk htk hmin
    refine (pySortedBy_head_min _ _ r h).2 k ?_
    refine List.mem_filter.2 ⟨List.mem_filter.2 ⟨hk, htk⟩, ?_⟩
    simp only [Bool.not_eq_true', List.any_eq_false, Bool.and_eq_true, not_and]
    intro j hj hne hjk
    have := hmin j (List.mem_filter.1 hj).1 (by simpa using (List.mem_filter.1 hj).2) hjk
    exact ((Logic.ne_iff k j).1 hne) this.symm

theorem most_generic_logic_perm {ls ls' : List Logic} (hp : ls.Perm ls') :
    most_generic_logic ls = most_generic_logic ls' := by
  simp only [most_generic_logic]
  have hq : (fun l => ls.all fun x => Logic.ge l x) = (fun l => ls'.all fun x => Logic.ge l x) := by
    funext l; exact hp.all_eq
  rw [hq]
  have hr : (List.filter (fun l => ls'.all fun x => Logic.ge l x) ls).Perm
      (List.filter (fun l => ls'.all fun x => Logic.ge l x) ls') := hp.filter _
  rw [hr.length_eq]
  cases hc : ((List.filter (fun l => ls'.all fun x => Logic.ge l x) ls').length != 1) with
  | true => simp
  | false =>
    simp only [cond_false]
    obtain ⟨z, hz⟩ := length_one hc
    rw [hz] at hr ⊢
    rw [List.perm_singleton.1 hr]

end PySMT.Logics
