import PySMT.Proofs.C02Subst
/-!
# C02 without the division-by-zero proviso, for the code's own substitution step

Counterparts, for `Model.substAsg` (`MGSubstituter`), of `simp_subst_eval` / `const_of_simp_subst`
(Proofs/C02Exact.lean): `interpOf σ` maps `x / 0` to 0, so `Simplifier.simpWith_total` applies and whatever
constant `get_value` returns — also for formulas with divisions by zero in branches that are not taken
(`Ite(r = 0, 0, 1/r)` with `r ↦ 0`) — is the value of the formula.
-/
namespace PySMT.Model
open PySMT PySMT.Simp PySMT.Simplifier PySMT.Subst PySMT.Build PySMT.SubstSpec

/-- whatever `simp` makes of the substituted (and rebuilt) formula has the value of the formula under the
interpretation the assignment stands for -/
theorem simp_substAsg_eval (σ : Asg) (hσ : AsgWF σ) (f : Term) (τ : Ty) (hwf : f.wf = true) (hqf : qf f = true)
    (hfr : inFrag f = true) (hn : normal f = true) (hck : ConstKeys f = true) (hty : f.typeOf = some τ) :
    eval (interpOf σ) (simp (substAsg σ f)) = eval (interpOf σ) f ∧ (simp (substAsg σ f)).wf = true ∧
      (simp (substAsg σ f)).typeOf = some τ := by
  obtain ⟨⟨gw, gty, gfr⟩, _⟩ := substAsg_spec σ hσ f hwf hqf hfr hn hck τ hty
  have hsp := (simp_spec _ gw gfr τ gty).1
  refine ⟨?_, hsp.2, hsp.1⟩
  have := simpWith_total ruleOf ruleOf_ok _ gw gfr τ gty _ (interpOf_wf σ hσ.ok) (interpOf_tot σ)
  rw [show simp (substAsg σ f) = simpWith ruleOf (substAsg σ f) from rfl, this]
  exact substAsg_eval σ hσ f hwf hqf hn hck _ (interpOf_wf σ hσ.ok) (interpOf_extends σ hσ.ok)

/-- if the simplified substituted formula is a constant (what `get_value` tests) of a scalar sort, it is
the constant node of the value of the formula -/
theorem const_of_simp_substAsg (σ : Asg) (hσ : AsgWF σ) (f : Term) (τ : Ty) (hwf : f.wf = true)
    (hqf : qf f = true) (hfr : inFrag f = true) (hn : normal f = true) (hck : ConstKeys f = true)
    (hty : f.typeOf = some τ) (hc : Build.isConstant (simp (substAsg σ f)) = true) (hτ : τ.scalar = true) :
    simp (substAsg σ f) = constOf (eval (interpOf σ) f) := by
  obtain ⟨e, sw, sty⟩ := simp_substAsg_eval σ hσ f τ hwf hqf hfr hn hck hty
  rw [← e]
  exact const_constOf _ sw (ArrayRules.isConstant_scalar sty hτ hc) _

/-- soundness of `get_value` (the code's substitution step) for partial assignments without the proviso:
under every well-formed interpretation that extends the assignment and maps `x / 0` to 0 at `x = 0` -/
theorem getValue'_sound_total_aux (σ : Asg) (hσ : AsgWF σ) (f : Term) (τ : Ty) (hwf : f.wf = true) (hqf : qf f = true)
    (hfr : inFrag f = true) (hn : normal f = true) (hck : ConstKeys f = true) (hty : f.typeOf = some τ) (c : Term)
    (h : (let r := simp (substAsg σ f); if Build.isConstant r then some r else none) = some c) :
    ∀ I : Interp, I.WF → I.Tot → Extends I σ → eval I f = eval I c := by
  simp only at h
  split at h
  · cases h
    obtain ⟨⟨sw, sty, sfr⟩, _⟩ := substAsg_spec σ hσ f hwf hqf hfr hn hck τ hty
    intro I hI hT hext
    rw [show simp (substAsg σ f) = simpWith ruleOf (substAsg σ f) from rfl,
      simpWith_total ruleOf ruleOf_ok _ sw sfr τ sty I hI hT, substAsg_eval σ hσ f hwf hqf hn hck I hI hext]
  · cases h

end PySMT.Model
