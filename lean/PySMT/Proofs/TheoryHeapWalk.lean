import PySMT.Proofs.TheoryHeapRules

/-! Invariants of the memoised evaluation on the heap, for every state reachable by any sequence of walks. -/

namespace PySMT.TheoryHeap
open PySMT PySMT.Logics PySMT.TheoryOracle
set_option linter.unusedSimpArgs false

/-- **theory_memo_ok** (invariant): every memoised node points to an allocated object whose value is the recursive
    specification `theoryOf` -/
def MemoOK (s : St) : Prop := ∀ t a, (t, a) ∈ s.memo → a < s.heap.next ∧ s.heap.cells a = theoryOf t

/-- **theory_no_alias** (invariant): two memo entries never share an object -/
def NoAlias (s : St) : Prop := ∀ t1 a1 t2 a2, (t1, a1) ∈ s.memo → (t2, a2) ∈ s.memo → a1 = a2 → t1 = t2

/-- shape of a node for which its rule necessarily makes a new object (`freshShape` only looks at the arity) -/
def nodeShaped (t : Term) : Bool := freshShape t.op t.payload (t.args.map (fun _ => 0))

/-- every quantifier node of `t` binds at least one variable -- as all quantifiers that `FormulaManager` builds -/
def Shaped (t : Term) : Prop := ∀ x ∈ t.subterms, nodeShaped x = true

theorem freshShape_len (op : Op) (p : Payload) (as bs : List Nat) (h : as.length = bs.length) :
    freshShape op p as = freshShape op p bs := by
  cases op <;> simp [freshShape, h]

theorem mem_of_lookup {α β : Type} [BEq α] [LawfulBEq α] (l : List (α × β)) (k : α) (v : β)
    (h : l.lookup k = some v) : (k, v) ∈ l := by
  induction l with
  | nil => simp [List.lookup] at h
  | cons x l ih =>
    obtain ⟨k', v'⟩ := x
    simp only [List.lookup] at h
    by_cases hk : k == k'
    · simp [hk] at h; have := eq_of_beq hk; subst this; subst h; exact List.mem_cons_self
    · simp [hk] at h; exact List.mem_cons_of_mem _ (ih h)

theorem size_le_sum (c : Term) (l : List Term) (h : c ∈ l) : c.size ≤ (l.map Term.size).sum := by
  induction l with
  | nil => cases h
  | cons a l ih =>
    simp only [List.map_cons, List.sum_cons]
    rcases List.mem_cons.mp h with rfl | h'
    · omega
    · have := ih h'; omega

theorem mem_subterms_self' (t : Term) : t ∈ t.subterms := by
  cases t with
  | node op args p => simp [Term.subterms]

theorem shaped_arg (op : Op) (args : List Term) (p : Payload) (c : Term) (hc : c ∈ args)
    (h : Shaped (.node op args p)) : Shaped c := by
  intro x hx
  apply h
  simp only [Term.subterms, List.mem_cons, List.mem_flatten, List.mem_map]
  exact Or.inr ⟨c.subterms, ⟨c, hc, rfl⟩, hx⟩

/-- what one `visit` / `visitList` guarantees -/
structure VisitOK (s : St) (s' : St) : Prop where
  ok : MemoOK s'
  ext : Ext s.heap s'.heap
  grows : ∀ x, x ∈ s.memo → x ∈ s'.memo

theorem visitList_of (k : Nat)
    (IH : ∀ t : Term, t.size < k → ∀ s, MemoOK s →
      VisitOK s (visit t s).2 ∧ (visit t s).1 < (visit t s).2.heap.next ∧
      (visit t s).2.heap.cells (visit t s).1 = theoryOf t ∧
      (Shaped t → NoAlias s → NoAlias (visit t s).2)) :
    ∀ ts : List Term, (∀ t ∈ ts, t.size < k) → ∀ s, MemoOK s →
      VisitOK s (visitList ts s).2 ∧ (∀ a ∈ (visitList ts s).1, a < (visitList ts s).2.heap.next) ∧
      (visitList ts s).1.map (visitList ts s).2.heap.cells = ts.map theoryOf ∧
      ((∀ t ∈ ts, Shaped t) → NoAlias s → NoAlias (visitList ts s).2) := by
  intro ts
  induction ts with
  | nil =>
    intro _ s hs
    simp only [visitList]
    exact ⟨⟨hs, Ext.refl _, fun _ h => h⟩, by simp, rfl, fun _ h => h⟩
  | cons t ts ih =>
    intro hk s hs
    obtain ⟨v1, a1, c1, n1⟩ := ih (fun t' h => hk t' (List.mem_cons_of_mem _ h)) s hs
    obtain ⟨v2, a2, c2, n2⟩ := IH t (hk t List.mem_cons_self) (visitList ts s).2 v1.ok
    simp only [visitList]
    refine ⟨⟨v2.ok, v1.ext.trans v2.ext, fun x h => v2.grows x (v1.grows x h)⟩, ?_, ?_, ?_⟩
    · intro a ha
      rcases List.mem_cons.mp ha with rfl | h'
      · exact a2
      · have := a1 a h'; have := v2.ext.1; omega
    · simp only [List.map_cons, c2]
      congr 1
      rw [← c1]
      apply List.map_congr_left
      intro a ha
      exact v2.ext.2 a (a1 a ha)
    · intro hsh hna
      exact n2 (hsh t List.mem_cons_self) (n1 (fun t' h => hsh t' (List.mem_cons_of_mem _ h)) hna)

theorem visit_spec : ∀ k (t : Term), t.size < k → ∀ s, MemoOK s →
      VisitOK s (visit t s).2 ∧ (visit t s).1 < (visit t s).2.heap.next ∧
      (visit t s).2.heap.cells (visit t s).1 = theoryOf t ∧
      (Shaped t → NoAlias s → NoAlias (visit t s).2) := by
  intro k
  induction k with
  | zero => intro t h; omega
  | succ k ih =>
    intro t ht s hs
    cases t with
    | node op args p =>
      rw [visit]
      cases hl : s.look (.node op args p) with
      | some a =>
        simp only []
        have hm := mem_of_lookup s.memo _ a hl
        exact ⟨⟨hs, Ext.refl _, fun _ h => h⟩, (hs _ _ hm).1, (hs _ _ hm).2, fun _ h => h⟩
      | none =>
        simp only []
        have hargs : ∀ c ∈ args, c.size < k := by
          intro c hc
          have := size_le_sum c args hc
          simp only [Term.size] at ht; omega
        obtain ⟨v1, a1, c1, n1⟩ := visitList_of k ih args hargs s hs
        have hr := ruleH_spec op p args (visitList args s).1 (visitList args s).2.heap a1
        rw [c1] at hr
        obtain ⟨⟨he, ha, hv⟩, hfresh⟩ := hr
        have hval : (ruleH op p args (visitList args s).1 (visitList args s).2.heap).2.cells
            (ruleH op p args (visitList args s).1 (visitList args s).2.heap).1 = theoryOf (.node op args p) := by
          rw [hv, theoryOf]
        refine ⟨⟨?_, v1.ext.trans he, fun x h => List.mem_cons_of_mem _ (v1.grows x h)⟩, ha, hval, ?_⟩
        · intro t' a' hm
          rcases List.mem_cons.mp hm with h | h
          · cases h; exact ⟨ha, hval⟩
          · have := v1.ok t' a' h
            refine ⟨Nat.lt_of_lt_of_le this.1 he.1, ?_⟩
            show (ruleH op p args (visitList args s).1 (visitList args s).2.heap).2.cells a' = theoryOf t'
            rw [he.2 a' this.1]; exact this.2
        · intro hsh hna
          have hna1 := n1 (fun c hc => shaped_arg op args p c hc hsh) hna
          have hlen : (visitList args s).1.length = args.length := by
            have := congrArg List.length c1; simpa using this
          have hf : (visitList args s).2.heap.next ≤
              (ruleH op p args (visitList args s).1 (visitList args s).2.heap).1 := by
            apply hfresh
            have := hsh _ (mem_subterms_self' (.node op args p))
            simp only [nodeShaped, Term.op, Term.payload, Term.args] at this
            rw [← this]
            exact freshShape_len op p _ _ (by simp [hlen])
          intro t1 b1 t2 b2 h1 h2 hb
          rcases List.mem_cons.mp h1 with e1 | m1 <;> rcases List.mem_cons.mp h2 with e2 | m2
          · cases e1; cases e2; rfl
          · cases e1; have := (v1.ok t2 b2 m2).1; omega
          · cases e2; have := (v1.ok t1 b1 m1).1; omega
          · exact hna1 t1 b1 t2 b2 m1 m2 hb

theorem memoOK_init : MemoOK St.init := by intro t a h; simp [St.init] at h
theorem noAlias_init : NoAlias St.init := by intro t1 a1 t2 a2 h; simp [St.init] at h

theorem visit_ok (t : Term) (s : St) (hs : MemoOK s) :
    VisitOK s (visit t s).2 ∧ (visit t s).1 < (visit t s).2.heap.next ∧
    (visit t s).2.heap.cells (visit t s).1 = theoryOf t ∧ (Shaped t → NoAlias s → NoAlias (visit t s).2) :=
  visit_spec (t.size + 1) t (Nat.lt_succ_self _) s hs

/-- every state reachable by a history of oracle calls -/
theorem run_ok (hist : List Term) : ∀ s, MemoOK s →
    MemoOK (run hist s) ∧ Ext s.heap (run hist s).heap ∧
    ((∀ t ∈ hist, Shaped t) → NoAlias s → NoAlias (run hist s)) := by
  induction hist with
  | nil => intro s hs; exact ⟨hs, Ext.refl _, fun _ h => h⟩
  | cons t hist ih =>
    intro s hs
    obtain ⟨v, _, _, n⟩ := visit_ok t s hs
    obtain ⟨h1, h2, h3⟩ := ih (visit t s).2 v.ok
    simp only [run]
    exact ⟨h1, v.ext.trans h2,
      fun hsh hna => h3 (fun t' h => hsh t' (List.mem_cons_of_mem _ h)) (n (hsh t List.mem_cons_self) hna)⟩

/-- **theory_memo_ok**: in every state reachable from the fresh oracle by any history of `get_theory` calls, the
    object stored for a memoised node holds the recursive specification `theoryOf` of that node. -/
theorem theory_memo_ok (hist : List Term) : MemoOK (run hist St.init) := (run_ok hist St.init memoOK_init).1

/-- **theory_no_alias**: ... and no two memoised nodes share an object (for nodes the formula manager can build). -/
theorem theory_no_alias (hist : List Term) (hsh : ∀ t ∈ hist, Shaped t) : NoAlias (run hist St.init) :=
  (run_ok hist St.init memoOK_init).2.2 hsh noAlias_init

/-- **theory_never_mutated**: an object stored in the memo is never written afterwards -- whatever is walked later,
    shaped or not: the in-place assignments of `walk_function`, `walk_bv_tonatural`,
    `walk_array_value`, `walk_constant` hit objects allocated by the same rule invocation only. -/
theorem theory_never_mutated (s : St) (hs : MemoOK s) (later : List Term) (t : Term) (a : Nat)
    (hm : (t, a) ∈ s.memo) : (run later s).heap.cells a = s.heap.cells a :=
  (run_ok later s hs).2.1.2 a (hs t a hm).1

/-- **get_theory_indep**: `get_theory(t)` after any history equals the recursive `theoryOf t`, hence its value in a
    fresh environment. -/
theorem get_theory_indep (hist : List Term) (t : Term) :
    (getTheory t (run hist St.init)).1 = theoryOf t ∧ (getTheory t St.init).1 = theoryOf t :=
  ⟨(visit_ok t _ (theory_memo_ok hist)).2.2.1, (visit_ok t _ memoOK_init).2.2.1⟩

/-- **get_logic_indep**: the same for `get_logic` (= c13's `getLogic`). -/
theorem get_logic_indep (hist : List Term) (t : Term) :
    (getLogicH t (run hist St.init)).1 = getLogic t := by
  simp only [getLogicH, getLogic, (get_theory_indep hist t).1]

end PySMT.TheoryHeap
